import XpmVerif.Model.Ident
/-! What the argument loop of `HashComputer.update` looks at, for one declared argument (`core/objects.py`):
    the flags of the `Argument`, whether default / value are `None`, whether the value is a configuration and its
    meta flag, and the outcome of `_is_default(default, remove_meta(value))`.  The generated skip rules
    (`Generated/HashSrc.lean`, regenerated from the Python AST) are Boolean functions of this view; the model's rules
    (`Ident.ignoredOut`, `defaultOut`, `metaOut`) are shown equal to their reading on views in `Properties/HashSrc.lean`. -/
namespace XpmVerif.Ident

structure ArgView where
  ignored : Bool
  generator : Bool
  constant : Bool
  required : Bool
  defaultIsNone : Bool
  valueIsNone : Bool
  valueIsConfig : Bool
  /-- `argvalue.__xpm__.meta` when the value is a configuration (`none` = Python `None`) -/
  valueMeta : Option Bool
  /-- `self._is_default(argument.default, remove_meta(argvalue))` (only consulted when the default is not `None`) -/
  isDefault : Bool
  deriving DecidableEq, Repr

/-- the view of a declared argument with its value. A value that is not a configuration has no meta flag. -/
def view (ceq : Nat → Nat → Bool) (mt : Nat → Option Bool) (a : Arg) : ArgView :=
  { ignored := a.ignored, generator := a.generator, constant := a.constant, required := a.required,
    defaultIsNone := a.default.isNone,
    valueIsNone := (match a.value with | .none => true | _ => false),
    valueIsConfig := (match a.value with | .ref _ => true | _ => false),
    valueMeta := (match a.value with | .ref n => mt n | _ => none),
    isDefault := (match a.default with | some d => isDefault ceq mt d (removeMeta mt a.value) | none => false) }

/-- views that come from a value: `None` is not a configuration, only a configuration carries a meta flag, and
    `_is_default` is only consulted for a default that is not `None`.  `norm` forces an arbitrary record into that shape;
    `view` only produces such records (`Properties/HashSrc.lean: view_norm`). -/
def ArgView.norm (v : ArgView) : ArgView :=
  let vc := v.valueIsConfig && !v.valueIsNone
  { v with valueIsConfig := vc, valueMeta := if vc then v.valueMeta else none, isDefault := v.isDefault && !v.defaultIsNone }

/-- the four skip rules of the model, read on a view (reference for the generated `includedSrc`). -/
def ArgView.ignoredOut (v : ArgView) : Bool := v.ignored && !(v.valueIsConfig && v.valueMeta == some false)
def ArgView.defaultOut (v : ArgView) : Bool :=
  !v.constant && ((!v.required && v.defaultIsNone && v.valueIsNone) || (!v.defaultIsNone && v.isDefault))
def ArgView.metaOut (v : ArgView) : Bool := v.valueIsConfig && v.valueMeta == some true
def ArgView.included (v : ArgView) : Bool := !v.ignoredOut && !v.generator && !v.defaultOut && !v.metaOut

end XpmVerif.Ident
