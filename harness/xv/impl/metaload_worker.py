"""Worker: values of Meta / Option parameters that were LOADED from a saved definition (C02).

usage: python -m xv.impl.metaload_worker <in.json> <out.json>
in:  {"cases": [{"a": int, "variants": [{"m": int|None, "o": int|None, "ms": [int], "via": "python"|"state"|"save"}]}]}
out: [{"ids": [identifier of Top per variant], "error": ...}]
Top(a; m: Meta[Sub]; o: Option[Optional[Sub]]; ms: Meta[List[Sub]]; nested: Param[Mid]) where Mid(x; m: Meta[Sub]):
only `a` (and Mid.x) is in the signature, whatever the Meta/Option values are and however they were obtained."""
import importlib
import json
import shutil
import sys
import tempfile
import traceback
from pathlib import Path

SRC = '''
from typing import List, Optional
from experimaestro import Config, Param, Meta, Option

class Sub(Config):
    __xpmid__ = "xvml.sub"
    x: Param[int]

class Mid(Config):
    __xpmid__ = "xvml.mid"
    x: Param[int]
    m: Meta[Optional[Sub]]

class Top(Config):
    __xpmid__ = "xvml.top"
    a: Param[int]
    m: Meta[Optional[Sub]]
    o: Option[Optional[Sub]]
    ms: Meta[List[Sub]] = []
    nested: Param[Mid]
'''


def main():
    from experimaestro.core.context import SerializationContext
    from experimaestro.core import serialization
    data = json.loads(Path(sys.argv[1]).read_text())
    root = Path(tempfile.mkdtemp(prefix="xvml-"))
    out = []
    try:
        (root / "xvml").mkdir()
        (root / "xvml" / "__init__.py").write_text(SRC)
        sys.path.insert(0, str(root))
        mod = importlib.import_module("xvml")
        n = [0]

        def sub(x, via):
            s = mod.Sub(x=x)
            if via == "python":
                return s
            if via == "state":
                return serialization.from_state_dict(serialization.state_dict(SerializationContext(), s))
            n[0] += 1
            d = root / f"save{n[0]}"
            d.mkdir()
            serialization.save(s, d)
            return serialization.load(d)

        for case in data["cases"]:
            rec = {"error": None, "ids": []}
            try:
                for v in case["variants"]:
                    kw = {"a": case["a"], "nested": mod.Mid(x=case["a"], **({} if v["m"] is None else {"m": sub(v["m"] + 1, v["via"])}))}
                    if v["m"] is not None:
                        kw["m"] = sub(v["m"], v["via"])
                    if v["o"] is not None:
                        kw["o"] = sub(v["o"], v["via"])
                    if v["ms"]:
                        kw["ms"] = [sub(x, v["via"]) for x in v["ms"]]
                    rec["ids"].append(mod.Top(**kw).__xpm__.identifier.all.hex())
            except Exception as e:
                rec["error"] = f"{type(e).__name__}: {e}"
                rec["trace"] = traceback.format_exc()[-1200:]
            out.append(rec)
    finally:
        shutil.rmtree(root, ignore_errors=True)
    Path(sys.argv[2]).write_text(json.dumps(out))


if __name__ == "__main__":
    main()
