import XpmVerif.Model.ArgDecl
/-! M1a (continued): which declaration is in force for a parameter of a class with configuration bases
    (`core/types.py` `ObjectType.__initialize__`, `parents`, `addArgument`).

    The argument table of a class is `ChainMap({}, *(base.arguments for base in parents()))`; the class's own annotated
    attributes are then written into the first map.  A lookup therefore finds the class's own declaration, else searches the
    tables of the bases in `__bases__` order, each of them the same way: depth-first, base by base (`resolveDF`).  This is
    not Python's method resolution order when only a later branch of a diamond re-declares a parameter (`resolveMRO` is the
    other rule; `Rule` selects).  Independently of the rule, the class attribute `= v` that `ArgumentOptions.create` reads
    with `getattr(originaltype, name, None)` is found by Python along the MRO of the class that holds the declaration
    (`mroAttr`): a re-declaration without a value inherits the value of an ancestor's declaration. -/
namespace XpmVerif.ArgDecl
open XpmVerif.Ident

structure ClassDecl where
  bases : List Nat := []          -- configuration bases, `__bases__` order (indices into the table)
  mro : List Nat := []            -- Python's linearisation of the configuration ancestors, the class itself excluded
  own : List Decl := []           -- the annotated attributes of the class body
  deriving Repr, Inhabited

abbrev ClassTable := List ClassDecl

def ClassTable.cls (t : ClassTable) (c : Nat) : ClassDecl := t.getD c {}

def ClassDecl.ownDecl (cd : ClassDecl) (name : List Nat) : Option Decl := cd.own.find? (fun d => d.name == name)

/-- (declaring class, declaration) found depth-first through the bases. -/
def resolveDF (t : ClassTable) : Nat → Nat → List Nat → Option (Nat × Decl)
  | 0, _, _ => none
  | fuel + 1, c, name =>
    match (t.cls c).ownDecl name with
    | some d => some (c, d)
    | none => (t.cls c).bases.findSome? (fun b => resolveDF t fuel b name)

/-- (declaring class, declaration) nearest in the MRO. -/
def resolveMRO (t : ClassTable) (c : Nat) (name : List Nat) : Option (Nat × Decl) :=
  (c :: (t.cls c).mro).findSome? (fun k => ((t.cls k).ownDecl name).map (fun d => (k, d)))

def resolve (t : ClassTable) (r : Rule) (c : Nat) (name : List Nat) : Option (Nat × Decl) :=
  match r with
  | .depthFirst => resolveDF t (t.length + 1) c name
  | .mro => resolveMRO t c name

/-- `getattr(owner, name, None)`: the first class attribute along the MRO of the declaring class. -/
def mroAttr (t : ClassTable) (owner : Nat) (name : List Nat) : ClassAttr :=
  ((owner :: (t.cls owner).mro).findSome? (fun k =>
    match (t.cls k).ownDecl name with
    | some d => if d.classAttr.isAbsent then none else some d.classAttr
    | none => none)).getD .absent

/-- the declaration in force for parameter `name` of class `c`: annotation, type and `Optional` of the resolved
    declaration, class attribute as Python finds it. -/
def effDecl (t : ClassTable) (r : Rule) (c : Nat) (name : List Nat) : Option Decl :=
  (resolve t r c name).map (fun od => { od.2 with attr := mroAttr t od.1 name })

/-- the `Argument` of parameter `name` of class `c` (`none`: no such parameter, or the class definition is rejected). -/
def classArg (t : ClassTable) (r : Rule) (c : Nat) (name : List Nat) : Option Arg :=
  (effDecl t r c name).bind mkArg

end XpmVerif.ArgDecl
