import XpmVerif.Basic.JsonUtil
import XpmVerif.Model.Restart
import XpmVerif.Generated.SchedFlags
/-! Line-protocol driver for M4 (restart world): C11, and the racing launches of C05.

    {"op":"init","tokens":[..],"jobs":[{"ident","deps","code","marker"}..],"done":[ident..]}
    {"op":"ev","e":["sched", <event of Drive/Sched.lean>]} | ["proc",p,rmPid] | ["crash"] | ["crashAfterSpawn",j] | ["crashInPrepare",j,"absent"|"broken"|"ready"]
                   | ["spawn",ident,code]      -- a launch by somebody else (another scheduler): process without pid file
                   | ["quiesce", allow]        -- run a fixed policy until nothing is enabled; processes listed in
                                                  `allow` (or all if allow = null) may leave the body
                   | ["untilEnter", j] | ["procsOnly"] | ["procRun", p]   -- canonical schedules for the real runs
    One observation per line. -/
open Lean XpmVerif XpmVerif.J XpmVerif.Sched XpmVerif.Restart

def originOf (j : Json) : Origin :=
  let a := arr j
  if J.str (a.getD 0 Json.null) == "j" then .job (nat (a.getD 1 Json.null))
  else .tok (nat (a.getD 1 Json.null)) (nat (a.getD 2 Json.null))

def jsName : JS → String
  | .unscheduled => "UNSCHEDULED" | .waiting => "WAITING" | .ready => "READY" | .running => "RUNNING"
  | .done => "DONE" | .error => "ERROR"

def phName : Ph → String
  | .waitLock => "waitLock" | .body => "body" | .exiting => "exiting" | .gone => "gone"

structure DS' where
  w : W
  njobs : Nat
  specs : List Json
  idents : List Nat

def observe (d : DS') : Json :=
  let s := d.w.a.s
  let dk := d.w.a.d
  let idx := List.range d.njobs
  let sub (j : Nat) : Bool := j < s.n
  let fut (j : Nat) : Json :=
    if !sub j then Json.null else
    match (s.jobs j).pc with
    | .none => "none"
    | .finished r => jsName r
    | _ => "pending"
  Json.mkObj [
    ("states", Json.arr (idx.map fun j => if sub j then (jsName (s.jobs j).state : Json) else Json.null).toArray),
    ("unsat", Json.arr (idx.map fun j => if sub j then ((s.jobs j).unsat : Json) else Json.null).toArray),
    ("futures", Json.arr (idx.map fut).toArray),
    ("launches", Json.arr (idx.map fun j => ((s.jobs j).launches : Json)).toArray),
    ("adopted", Json.arr (idx.map fun j => (d.w.a.adopted j : Json)).toArray),
    ("avail", Json.arr ((List.range s.ntok).map fun t => (s.avail t : Json)).toArray),
    ("unfinished", (s.unfinished : Json)),
    ("failed", Json.arr (s.failed.map fun i => (s!"id{i}" : Json)).toArray),
    ("nready", (s.ready.length : Json)),
    ("threads", Json.arr (s.threads.map fun (k, j) => match k with
        | .lockEnter => Json.arr #["lockEnter", Json.null]
        | .lockExit => Json.arr #["lockExit", Json.null]
        | .code => Json.arr #["code", (j : Json)]
        | .doneH => Json.arr #["doneH", (j : Json)]).toArray),
    ("waiter", (match s.waiter with
        | .none => "none" | .returned => "returned" | .raised => "raised" | _ => "pending" : String)),
    ("procs", Json.arr ((List.range dk.np).map fun p =>
        Json.mkObj [("ident", ((dk.procs p).ident : Json)), ("ph", (phName (dk.procs p).ph : Json)),
                    ("ok", ((dk.procs p).ok : Json)), ("ran", ((dk.procs p).ran : Json))]).toArray),
    ("dirs", Json.arr (d.idents.map fun i =>
        let x := dk.dir i
        Json.mkObj [("ident", (i : Json)), ("done", (x.done : Json)),
                    ("pid", match x.pid with | some p => (p : Json) | none => Json.null),
                    ("lock", match x.lock with | .free => ("free" : Json) | .sched => "sched" | .proc p => (p : Json)),
                    ("script", (match x.script with | .absent => "absent" | .broken => "broken" | .ready => "ready" : String)),
                    ("bodies", (x.bodies : Json)), ("succ", (x.succ : Json)), ("fails", (x.fails : Json)),
                    ("spawns", (x.spawns : Json))]).toArray)]

def schedEv (d : DS') (e : List Json) : Ev :=
  match J.str (e.getD 0 Json.null) with
  | "submit" =>
    let js := d.specs.getD (nat (e.getD 1 Json.null)) Json.null
    .submit (natF js "ident") ((arrF js "deps").map originOf) (natF js "code") (boolF js "marker")
  | "step" => .step
  | "deliver" => .deliver (nat (e.getD 1 Json.null))
  | _ => .wait

/-- a fixed fair policy: run the ready queue; else complete the first helper thread that can complete; else move the
    first process that can move (a process in the body only if allowed); stop when nothing changes -/
def enabledThread (w : W) : Option Nat :=
  let s := w.a.s
  (List.range s.threads.length).find? fun k =>
    match s.threads[k]? with
    | some (kind, j) => (world.gate w.a.d kind j (s.jobs j) (w.a.adopted j)).isSome
    | none => false

def movableProc (w : W) (allow : Option (List Nat)) : Option Nat :=
  let dk := w.a.d
  (List.range dk.np).find? fun p =>
    match (dk.procs p).ph with
    | .waitLock => (dk.dir (dk.procs p).ident).lock == .free
    | .body => match allow with | none => true | some l => l.contains p
    | .exiting => true
    | .gone => false

def quiesce (fl : Flags) (allow : Option (List Nat)) : Nat → W → W
  | 0, w => w
  | fuel + 1, w =>
    if !w.a.s.ready.isEmpty then quiesce fl allow fuel (w.apply fl (.sched .step))
    else match enabledThread w with
      | some k => quiesce fl allow fuel (w.apply fl (.sched (.deliver k)))
      | none => match movableProc w allow with
        | some p => quiesce fl allow fuel (w.apply fl (.proc p true))
        | none => w

/-- scheduler policy, helper threads of job `j` only, until job `j` is inside `aio_start` holding its job lock (the
    point where `aio_run` runs); the other jobs stay where the ready queue alone takes them -/
def untilEnter (fl : Flags) (j : Nat) : Nat → W → W
  | 0, w => w
  | fuel + 1, w =>
    let jb := w.a.s.jobs j
    if jb.pc == .lockEnter && (w.a.d.dir jb.ident).lock == .sched then w
    else if !w.a.s.ready.isEmpty then untilEnter fl j fuel (w.apply fl (.sched .step))
    else
      let s := w.a.s
      let k? := (List.range s.threads.length).find? fun k =>
        match s.threads[k]? with
        | some (kind, i) => i == j && (world.gate w.a.d kind i (s.jobs i) (w.a.adopted i)).isSome
        | none => false
      match k? with
      | some k => untilEnter fl j fuel (w.apply fl (.sched (.deliver k)))
      | none => w

/-- job processes only (no scheduler event): every process runs to its end -/
def procsOnly (fl : Flags) : Nat → W → W
  | 0, w => w
  | fuel + 1, w =>
    match movableProc w none with
    | some p => procsOnly fl fuel (w.apply fl (.proc p true))
    | none => w

def stepJ (d : DS') (j : Json) : DS' × Json :=
  match strF j "op" with
  | "init" =>
    let specs := arrF j "jobs"
    let dones := (arrF j "done").map nat
    let idents := (specs.map fun js => natF js "ident").eraseDups
    let d' : DS' := { w := W.init ((arrF j "tokens").map nat) (fun i => dones.contains i), njobs := specs.length,
                      specs := specs, idents := idents }
    (d', observe d')
  | "ev" =>
    let e := arrF j "e"
    let w' : W :=
      match J.str (e.getD 0 Json.null) with
      | "sched" => d.w.apply Gen.schedFlags (.sched (schedEv d (arr (e.getD 1 Json.null))))
      | "proc" => d.w.apply Gen.schedFlags (.proc (nat (e.getD 1 Json.null)) (J.bool (e.getD 2 Json.null)))
      | "crash" => d.w.apply Gen.schedFlags .crash
      | "crashAfterSpawn" => d.w.apply Gen.schedFlags (.crashAfterSpawn (nat (e.getD 1 Json.null)))
      | "crashInPrepare" =>
        let st : Script := match J.str (e.getD 2 Json.null) with | "absent" => .absent | "ready" => .ready | _ => .broken
        d.w.apply Gen.schedFlags (.crashInPrepare (nat (e.getD 1 Json.null)) st)
      | "spawn" => { d.w with a := { d.w.a with d := d.w.a.d.spawn (nat (e.getD 1 Json.null)) (nat (e.getD 2 Json.null)) } }
      | "untilEnter" => untilEnter Gen.schedFlags (nat (e.getD 1 Json.null)) 5000 d.w
      | "procsOnly" => procsOnly Gen.schedFlags 5000 d.w
      | "procRun" =>
        let p := nat (e.getD 1 Json.null)
        ((d.w.apply Gen.schedFlags (.proc p true)).apply Gen.schedFlags (.proc p true)).apply Gen.schedFlags (.proc p true)
      | "quiesce" =>
        let al := e.getD 1 Json.null
        quiesce Gen.schedFlags (if isNull al then none else some ((arr al).map nat)) 5000 d.w
      | _ => d.w
    let d' := { d with w := w' }
    (d', observe d')
  | op => (d, Json.mkObj [("error", Json.str s!"bad-op {op}")])

def main : IO Unit := J.loop stepJ { w := W.init [] (fun _ => false), njobs := 0, specs := [], idents := [] }
