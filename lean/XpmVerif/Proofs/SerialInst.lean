import XpmVerif.Proofs.SerialDfs
/-! Runtime objects: the `FromPython` walk (`instanceWalk`/`instanceLog`) and the reconstruction of a
    task from its parameter file (`loadInstanceLog`/`runLog`). -/
namespace XpmVerif.Serial
open XpmVerif.Ident

/-- references followed by the instance walk stay inside the graph -/
def WFInst (g : Graph) : Prop := ∀ n, n < g.size → ∀ m ∈ succInst g n, m < g.size

/-! ### first occurrences -/

theorem mem_firstOcc (seen l : List Nat) (x : Nat) : x ∈ firstOcc seen l ↔ x ∈ l ∧ x ∉ seen := by
  induction l generalizing seen with
  | nil => simp [firstOcc]
  | cons a l ih =>
    simp only [firstOcc]
    by_cases h : a ∈ seen
    · simp [h, ih]; grind
    · simp [h, ih]; grind

theorem firstOcc_nodup (seen l : List Nat) : (firstOcc seen l).Nodup := by
  induction l generalizing seen with
  | nil => simp [firstOcc]
  | cons a l ih =>
    simp only [firstOcc]
    by_cases h : a ∈ seen
    · simp [h, ih]
    · simp [h, ih, mem_firstOcc]

/-! ### counting helpers -/

theorem count_of_nodup {α : Type} [DecidableEq α] (l : List α) (a : α) (h : l.Nodup) :
    l.count a = if a ∈ l then 1 else 0 := by
  induction l with
  | nil => simp
  | cons b l ih =>
    rw [List.nodup_cons] at h
    rw [List.count_cons, ih h.2]
    by_cases hab : b = a
    · subst hab; simp [h.1]
    · have : ¬ a = b := fun e => hab e.symm
      simp [hab, this]

theorem count_map_exec (l : List Nat) (p : Nat) : (l.map Ev.exec).count (Ev.exec p) = l.count p := by
  induction l with
  | nil => simp
  | cons a l ih => simp [List.count_cons, ih]

theorem count_map_new (l : List Nat) (p : Nat) : (l.map Ev.new).count (Ev.new p) = l.count p := by
  induction l with
  | nil => simp
  | cons a l ih => simp [List.count_cons, ih]

/-! ### the events of a trace -/

theorem mem_traceLog_new (g : Graph) (tr : List TEv) (n : Nat) :
    Ev.new n ∈ tr.flatMap (evOfT g) ↔ n ∈ entersOf tr := by
  induction tr with
  | nil => simp [entersOf]
  | cons e tr ih => cases e <;> simp [List.flatMap_cons, evOfT, entersOf, ih]

theorem count_exit_new (g : Graph) (m n : Nat) : (evOfT g (.exit m)).count (Ev.new n) = 0 :=
  List.count_eq_zero.2 (by simp [evOfT])

theorem count_exit_init (g : Graph) (m n : Nat) : (evOfT g (.exit m)).count (Ev.init n) = 0 :=
  List.count_eq_zero.2 (by simp [evOfT])

theorem count_traceLog_new (g : Graph) (tr : List TEv) (n : Nat) :
    (tr.flatMap (evOfT g)).count (Ev.new n) = (entersOf tr).count n := by
  induction tr with
  | nil => simp [entersOf]
  | cons e tr ih =>
    cases e with
    | enter m => simp [List.flatMap_cons, evOfT, entersOf, ih, List.count_cons]
    | exit m =>
      rw [List.flatMap_cons, List.count_append, count_exit_new, ih]
      simp [entersOf]

theorem count_traceLog_init (g : Graph) (tr : List TEv) (n : Nat) :
    (tr.flatMap (evOfT g)).count (Ev.init n) = (entersOf tr).count n := by
  induction tr with
  | nil => simp [entersOf]
  | cons e tr ih =>
    cases e with
    | enter m => simp [List.flatMap_cons, evOfT, entersOf, ih, List.count_cons]
    | exit m =>
      rw [List.flatMap_cons, List.count_append, count_exit_init, ih]
      simp [entersOf]

theorem mem_traceLog_init (g : Graph) (tr : List TEv) (n : Nat) :
    Ev.init n ∈ tr.flatMap (evOfT g) ↔ n ∈ entersOf tr := by
  induction tr with
  | nil => simp [entersOf]
  | cons e tr ih => cases e <;> simp [List.flatMap_cons, evOfT, entersOf, ih]

theorem mem_traceLog_postInit (g : Graph) (tr : List TEv) (n : Nat) :
    Ev.postInit n ∈ tr.flatMap (evOfT g) ↔ n ∈ exitsOf tr := by
  induction tr with
  | nil => simp [exitsOf]
  | cons e tr ih => cases e <;> simp [List.flatMap_cons, evOfT, exitsOf, ih]

theorem mem_traceLog_set (g : Graph) (tr : List TEv) (n : Nat) (a : List Nat) :
    Ev.set n a ∈ tr.flatMap (evOfT g) ↔ n ∈ exitsOf tr ∧ a ∈ presentNames (g.node n) := by
  induction tr with
  | nil => simp [exitsOf]
  | cons e tr ih =>
    cases e with
    | enter m => simp [List.flatMap_cons, evOfT, exitsOf, ih]
    | exit m =>
      simp only [List.flatMap_cons, evOfT, exitsOf, List.mem_append, ih, List.mem_map, List.mem_cons]
      constructor
      · rintro ((⟨b, hb, e⟩ | h) | h)
        · injection e with e1 e2
          subst e1; subst e2
          exact ⟨Or.inl rfl, hb⟩
        · rcases h with h | h
          · cases h
          · cases h
        · exact ⟨Or.inr h.1, h.2⟩
      · rintro ⟨rfl | h, ha⟩
        · exact Or.inl (Or.inl ⟨a, ha, rfl⟩)
        · exact Or.inr ⟨h, ha⟩

theorem not_mem_traceLog_exec (g : Graph) (tr : List TEv) (p : Nat) :
    Ev.exec p ∉ tr.flatMap (evOfT g) := by
  induction tr with
  | nil => simp
  | cons e tr ih => cases e <;> simp [List.flatMap_cons, evOfT, ih]

theorem not_mem_traceLog_body (g : Graph) (tr : List TEv) (p : Nat) :
    Ev.body p ∉ tr.flatMap (evOfT g) := by
  induction tr with
  | nil => simp
  | cons e tr ih => cases e <;> simp [List.flatMap_cons, evOfT, ih]

/-! ### the instance walk -/

theorem instanceWalk_ok (g : Graph) (cons : List Nat) (root : Nat) (hwf : WFInst g) (hr : root < g.size) :
    DfsOk (succInst g) [root] cons (instanceWalk g cons root).trace (instanceWalk g cons root).store := by
  have hf : unseen g.size cons < g.size + 1 := by
    have := unseen_le g.size cons
    omega
  obtain ⟨new, seen', e, ok⟩ := dfs_ok (succInst g) g.size hwf (g.size + 1) root [] cons hr hf
  show DfsOk _ _ _ (dfs (succInst g) (g.size + 1) root ([], cons)).1
    (dfs (succInst g) (g.size + 1) root ([], cons)).2
  rw [e]
  simpa using ok

/-- the walk: which configurations get a *new* runtime object -/
theorem instanceWalk_spec (g : Graph) (cons : List Nat) (root : Nat) (hwf : WFInst g) (hr : root < g.size) :
    let r := instanceWalk g cons root
    (∀ n, n ∈ r.store ↔ n ∈ cons ∨ n ∈ entersOf r.trace) ∧
    (entersOf r.trace).Nodup ∧
    (∀ n ∈ entersOf r.trace, n ∉ cons) ∧
    (exitsOf r.trace).Perm (entersOf r.trace) ∧
    root ∈ r.store ∧
    (∀ n ∈ entersOf r.trace, ∀ m ∈ succInst g n, m ∈ r.store) ∧
    (∀ n ∈ entersOf r.trace, Reach (succInst g) root n) := by
  intro r
  have ok := instanceWalk_ok g cons root hwf hr
  refine ⟨ok.seen_iff, ok.nodup, ok.fresh, ok.exits_perm, ok.roots_in root (by simp), ok.closed, ?_⟩
  intro n hn
  obtain ⟨r', hr', h⟩ := ok.reach n hn
  rw [List.mem_singleton] at hr'
  subst hr'
  exact h

theorem reach_closed (succ : Nat → List Nat) (S : List Nat) (hcl : ∀ x ∈ S, ∀ m ∈ succ x, m ∈ S)
    {a c : Nat} (h : Reach succ a c) : a ∈ S → c ∈ S := by
  induction h with
  | refl a => exact id
  | step hab _ ih => exact fun ha => ih (hcl _ ha _ hab)

/-- with an empty store the new objects are exactly the configurations reachable from the root -/
theorem instanceWalk_fresh (g : Graph) (root : Nat) (hwf : WFInst g) (hr : root < g.size) (n : Nat) :
    n ∈ entersOf (instanceWalk g [] root).trace ↔ Reach (succInst g) root n := by
  have ok := instanceWalk_ok g [] root hwf hr
  constructor
  · intro hn
    obtain ⟨r', hr', h⟩ := ok.reach n hn
    rw [List.mem_singleton] at hr'
    subst hr'
    exact h
  · intro h
    have hst : ∀ x, x ∈ (instanceWalk g [] root).store → x ∈ entersOf (instanceWalk g [] root).trace := by
      intro x hx
      rcases (ok.seen_iff x).1 hx with h | h
      · cases h
      · exact h
    have hroot : root ∈ entersOf (instanceWalk g [] root).trace := hst _ (ok.roots_in root (by simp))
    exact reach_closed (succInst g) _ (fun x hx m hm => hst _ (ok.closed x hx m hm)) h hroot

/-- number of `new n` / `init n` events -/
theorem instanceLog_count_new (g : Graph) (cons : List Nat) (root : Nat) (hwf : WFInst g) (hr : root < g.size) (n : Nat) :
    (instanceLog g cons root).count (Ev.new n) = (if n ∈ entersOf (instanceWalk g cons root).trace then 1 else 0) ∧
    (instanceLog g cons root).count (Ev.init n) = (if n ∈ entersOf (instanceWalk g cons root).trace then 1 else 0) := by
  have ok := instanceWalk_ok g cons root hwf hr
  have h1 : ((instanceWalk g cons root).preTasks.map Ev.exec).count (Ev.new n) = 0 :=
    List.count_eq_zero.2 (by simp)
  have h2 : ((instanceWalk g cons root).preTasks.map Ev.exec).count (Ev.init n) = 0 :=
    List.count_eq_zero.2 (by simp)
  simp only [instanceLog, List.count_append, h1, h2, count_traceLog_new, count_traceLog_init,
    Nat.add_zero, count_of_nodup _ n ok.nodup]
  simp

theorem exitsOf_nodup_of_ok {succ roots seen new seen'} (h : DfsOk succ roots seen new seen') :
    (exitsOf new).Nodup := h.exits_perm.nodup_iff.2 h.nodup

/-- `__post_init__` of a new object runs exactly once, immediately after all its parameters were assigned,
    and nothing is assigned to it afterwards -/
theorem instanceLog_postInit (g : Graph) (cons : List Nat) (root : Nat) (hwf : WFInst g) (hr : root < g.size)
    (n : Nat) (hn : n ∈ entersOf (instanceWalk g cons root).trace) :
    ∃ l1 l2, instanceLog g cons root = l1 ++ ((presentNames (g.node n)).map (Ev.set n) ++ [Ev.postInit n]) ++ l2 ∧
      Ev.postInit n ∉ l1 ∧ Ev.postInit n ∉ l2 ∧ (∀ a, Ev.set n a ∉ l1) ∧ (∀ a, Ev.set n a ∉ l2) ∧
      Ev.init n ∈ l1 := by
  have ok := instanceWalk_ok g cons root hwf hr
  have hnd := exitsOf_nodup_of_ok ok
  obtain ⟨a, b, c, e⟩ := ok.nested n hn
  have e' : (instanceWalk g cons root).trace = (a ++ TEv.enter n :: b) ++ TEv.exit n :: c := by
    rw [e]; simp
  rw [e', exitsOf_append] at hnd
  simp only [exitsOf] at hnd
  have hnd' := List.nodup_append.1 hnd
  have hn1 : n ∉ exitsOf (a ++ TEv.enter n :: b) := fun h => hnd'.2.2 n h n List.mem_cons_self rfl
  have hn2 : n ∉ exitsOf c := (List.nodup_cons.1 hnd'.2.1).1
  refine ⟨(a ++ TEv.enter n :: b).flatMap (evOfT g),
    c.flatMap (evOfT g) ++ (instanceWalk g cons root).preTasks.map Ev.exec, ?_, ?_, ?_, ?_, ?_, ?_⟩
  · simp only [instanceLog, e', List.flatMap_append, List.flatMap_cons, evOfT, List.append_assoc]
  · rw [mem_traceLog_postInit]; exact hn1
  · rw [List.mem_append, mem_traceLog_postInit]
    rintro (h | h)
    · exact hn2 h
    · simp at h
  · intro x; rw [mem_traceLog_set]; exact fun h => hn1 h.1
  · intro x
    rw [List.mem_append, mem_traceLog_set]
    rintro (h | h)
    · exact hn2 h.1
    · simp at h
  · rw [mem_traceLog_init, entersOf_append]
    simp [entersOf]

/-- without any assumption on the graph or the fuel: whatever is exited was entered -/
theorem dfs_exits_sub (succ : Nat → List Nat) (fuel : Nat) : ∀ (n : Nat) (st : List TEv × List Nat),
    ∃ new, (dfs succ fuel n st).1 = st.1 ++ new ∧ ∀ x ∈ exitsOf new, x ∈ entersOf new := by
  induction fuel with
  | zero => intro n st; exact ⟨[], by simp [dfs], by simp [exitsOf]⟩
  | succ fuel ih =>
    have hfold : ∀ (l : List Nat) (st : List TEv × List Nat),
        ∃ new, (l.foldl (fun s m => dfs succ fuel m s) st).1 = st.1 ++ new ∧
          ∀ x ∈ exitsOf new, x ∈ entersOf new := by
      intro l
      induction l with
      | nil => intro st; exact ⟨[], by simp, by simp [exitsOf]⟩
      | cons m l ihl =>
        intro st
        obtain ⟨new1, e1, h1⟩ := ih m st
        obtain ⟨new2, e2, h2⟩ := ihl (dfs succ fuel m st)
        refine ⟨new1 ++ new2, ?_, ?_⟩
        · rw [List.foldl_cons, e2, e1, List.append_assoc]
        · intro x hx
          rw [exitsOf_append, List.mem_append] at hx
          rw [entersOf_append, List.mem_append]
          exact hx.imp (h1 x) (h2 x)
    intro n st
    rw [dfs_succ_eq]
    by_cases hs : n ∈ st.2
    · exact ⟨[], by simp [hs], by simp [exitsOf]⟩
    · obtain ⟨mid, e, h⟩ := hfold (succ n) (st.1 ++ [TEv.enter n], n :: st.2)
      refine ⟨TEv.enter n :: mid ++ [TEv.exit n], ?_, ?_⟩
      · simp [hs, e]
      · intro x hx
        rw [exitsOf_wrap, List.mem_append, List.mem_singleton] at hx
        rw [entersOf_wrap, List.mem_cons]
        rcases hx with hx | hx
        · exact Or.inr (h x hx)
        · exact Or.inl hx

theorem instanceWalk_exits_sub (g : Graph) (cons : List Nat) (root : Nat) :
    ∀ x ∈ exitsOf (instanceWalk g cons root).trace, x ∈ entersOf (instanceWalk g cons root).trace := by
  obtain ⟨new, e, h⟩ := dfs_exits_sub (succInst g) (g.size + 1) root ([], cons)
  show ∀ x ∈ exitsOf (dfs (succInst g) (g.size + 1) root ([], cons)).1,
    x ∈ entersOf (dfs (succInst g) (g.size + 1) root ([], cons)).1
  rw [e]
  simpa using h

theorem instanceLog_postInit_none (g : Graph) (cons : List Nat) (root : Nat) (n : Nat)
    (hn : n ∉ entersOf (instanceWalk g cons root).trace) :
    Ev.postInit n ∉ instanceLog g cons root ∧ ∀ a, Ev.set n a ∉ instanceLog g cons root := by
  have hx : n ∉ exitsOf (instanceWalk g cons root).trace := fun h => hn (instanceWalk_exits_sub g cons root n h)
  constructor
  · simp only [instanceLog, List.mem_append, mem_traceLog_postInit]
    rintro (h | h)
    · exact hx h
    · simp at h
  · intro a
    simp only [instanceLog, List.mem_append, mem_traceLog_set]
    rintro (h | h)
    · exact hx h.1
    · simp at h

/-- every pre-task of a newly built configuration is executed exactly once, nothing else is executed,
    and all executions come after the whole walk -/
theorem instanceLog_exec (g : Graph) (cons : List Nat) (root : Nat) (p : Nat) :
    (instanceLog g cons root).count (Ev.exec p) =
      (if ∃ n ∈ exitsOf (instanceWalk g cons root).trace, p ∈ (g.node n).preTasks then 1 else 0) := by
  have h0 : ((instanceWalk g cons root).trace.flatMap (evOfT g)).count (Ev.exec p) = 0 :=
    List.count_eq_zero.2 (not_mem_traceLog_exec g _ p)
  simp only [instanceLog, List.count_append, h0, Nat.zero_add, count_map_exec]
  rw [count_of_nodup _ p (by simp only [instanceWalk]; exact firstOcc_nodup _ _)]
  have : p ∈ (instanceWalk g cons root).preTasks ↔
      ∃ n ∈ exitsOf (instanceWalk g cons root).trace, p ∈ (g.node n).preTasks := by
    simp only [instanceWalk, mem_firstOcc, List.mem_flatMap]
    simp
  simp only [this]

theorem instanceLog_exec_last (g : Graph) (cons : List Nat) (root : Nat) :
    ∃ walk, instanceLog g cons root = walk ++ (instanceWalk g cons root).preTasks.map Ev.exec ∧
      (∀ p, Ev.exec p ∉ walk) ∧ (∀ n, Ev.body n ∉ instanceLog g cons root) := by
  refine ⟨(instanceWalk g cons root).trace.flatMap (evOfT g), rfl, not_mem_traceLog_exec g _, ?_⟩
  intro n
  simp only [instanceLog, List.mem_append]
  rintro (h | h)
  · exact not_mem_traceLog_body g _ n h
  · simp at h

/-! ### loading a task from its parameter file -/

/-- the events of the second pass of `load_objects(as_instance=True)` for configuration `n` -/
def fillN (g : Graph) (n : Nat) : List Ev :=
  Ev.init n :: ((presentNames (g.node n)).map (Ev.set n) ++ [Ev.postInit n])

theorem mkDef_id (fl : Flags) (lib : List Cls) (sg : SGraph) (n : Nat) : (mkDef fl lib sg n).id = n := rfl

private theorem optList_getD (l : List Nat) : (optList l).getD [] = l := by
  unfold optList
  cases l <;> simp

theorem mkDef_pre (fl : Flags) (lib : List Cls) (sg : SGraph) (n : Nat) :
    (mkDef fl lib sg n).pre.getD [] = (sg.g.node n).preTasks := by
  simp [mkDef, optList_getD]

theorem mkDef_init (fl : Flags) (lib : List Cls) (sg : SGraph) (n : Nat) :
    (mkDef fl lib sg n).init.getD [] = (sg.g.node n).initTasks := by
  simp [mkDef, optList_getD]

theorem mkDef_fields (fl : Flags) (lib : List Cls) (sg : SGraph) (n : Nat) :
    (mkDef fl lib sg n).fields.map (·.1) = presentNames (sg.g.node n) := by
  simp [mkDef, presentNames, List.map_map, Function.comp_def]

theorem fillEvents_mkDef (fl : Flags) (lib : List Cls) (sg : SGraph) (n : Nat) :
    fillEvents (mkDef fl lib sg n) = fillN sg.g n := by
  have h := mkDef_fields fl lib sg n
  have : (mkDef fl lib sg n).fields.map (fun f => Ev.set (mkDef fl lib sg n).id f.1) =
      ((mkDef fl lib sg n).fields.map (·.1)).map (Ev.set n) := by
    simp [List.map_map, Function.comp_def, mkDef_id]
  rw [fillEvents, this, h]
  rfl

theorem serialize_new (fl : Flags) (lib : List Cls) (sg : SGraph) (roots : List Nat) :
    (serialize fl lib sg roots).map (fun d => Ev.new d.id) = (serialOrder sg.g roots).map Ev.new := by
  simp [serialize, List.map_map, Function.comp_def, mkDef_id]

theorem serialize_fill (fl : Flags) (lib : List Cls) (sg : SGraph) (roots : List Nat) :
    (serialize fl lib sg roots).flatMap fillEvents = (serialOrder sg.g roots).flatMap (fillN sg.g) := by
  unfold serialize
  induction serialOrder sg.g roots with
  | nil => rfl
  | cons a l ih => simp [List.flatMap_cons, fillEvents_mkDef, ih]

theorem preList_serialize (fl : Flags) (lib : List Cls) (sg : SGraph) (roots : List Nat) :
    preList (serialize fl lib sg roots) =
      firstOcc [] ((serialOrder sg.g roots).flatMap (fun n => (sg.g.node n).preTasks)) := by
  unfold preList serialize
  congr 1
  induction serialOrder sg.g roots with
  | nil => rfl
  | cons a l ih => simp [List.flatMap_cons, mkDef_pre, ih]

/-- the serialisation order of a single root: no duplicates, the root comes last -/
theorem serialOrder_root (g : Graph) (root : Nat)
    (hwf : ∀ n, n < g.size → ∀ m ∈ succAll g n, m < g.size) (hr : root < g.size) :
    ∃ mid seen' tr, serialOrder g [root] = mid ++ [root] ∧ (serialOrder g [root]).Nodup ∧
      serialOrder g [root] = exitsOf tr ∧ DfsOk (succAll g) [root] [] tr seen' := by
  have hf : unseen g.size [] < g.size + 1 := by
    have := unseen_le g.size []
    omega
  obtain ⟨mid, seen', e, ok⟩ :=
    dfs_ok_root (succAll g) g.size hwf (g.size + 1) root [] [] hr hf (by simp)
  have hso : serialOrder g [root] = exitsOf (TEv.enter root :: mid ++ [TEv.exit root]) := by
    simp only [serialOrder, dfsList, List.foldl_cons, List.foldl_nil]
    rw [e]; simp
  refine ⟨exitsOf mid, seen', _, ?_, ?_, hso, ok⟩
  · rw [hso, exitsOf_wrap]
  · rw [hso]; exact exitsOf_nodup_of_ok ok

/-- the serialised configurations are exactly those reachable from the root -/
theorem mem_serialOrder_root (g : Graph) (root : Nat)
    (hwf : ∀ n, n < g.size → ∀ m ∈ succAll g n, m < g.size) (hr : root < g.size) (n : Nat) :
    n ∈ serialOrder g [root] ↔ Reach (succAll g) root n := by
  obtain ⟨mid, seen', tr, _, _, e, ok⟩ := serialOrder_root g root hwf hr
  rw [e, ok.exits_perm.mem_iff]
  have hst : ∀ x, x ∈ seen' → x ∈ entersOf tr := by
    intro x hx
    rcases (ok.seen_iff x).1 hx with h | h
    · cases h
    · exact h
  constructor
  · intro hn
    obtain ⟨r', hr', h⟩ := ok.reach n hn
    rw [List.mem_singleton] at hr'
    subst hr'
    exact h
  · intro h
    exact reach_closed (succAll g) _ (fun x hx m hm => hst _ (ok.closed x hx m hm)) h
      (hst _ (ok.roots_in root (by simp)))

theorem serialize_getLast (fl : Flags) (lib : List Cls) (sg : SGraph) (root : Nat)
    (hwf : ∀ n, n < sg.g.size → ∀ m ∈ succAll sg.g n, m < sg.g.size) (hr : root < sg.g.size) :
    (serialize fl lib sg [root]).getLast? = some (mkDef fl lib sg root) := by
  obtain ⟨mid, _, _, e, _⟩ := serialOrder_root sg.g root hwf hr
  simp [serialize, e]

/-- the whole log of `run.py::run` in terms of the serialisation order -/
theorem runLog_serialize (fl : Flags) (lib : List Cls) (sg : SGraph) (root : Nat)
    (hwf : ∀ n, n < sg.g.size → ∀ m ∈ succAll sg.g n, m < sg.g.size) (hr : root < sg.g.size) :
    runLog (serialize fl lib sg [root]) =
      (serialOrder sg.g [root]).map Ev.new ++ (serialOrder sg.g [root]).flatMap (fillN sg.g) ++
        (preList (serialize fl lib sg [root])).map Ev.exec ++
        ((sg.g.node root).initTasks).map Ev.exec ++ [Ev.body root] := by
  simp only [runLog, loadInstanceLog, initList, serialize_getLast fl lib sg root hwf hr, serialize_new,
    serialize_fill, mkDef_init, mkDef_id]

/-! events of `fillN` -/

theorem not_mem_fill_exec (g : Graph) (l : List Nat) (p : Nat) : Ev.exec p ∉ l.flatMap (fillN g) := by
  simp [List.mem_flatMap, fillN]

theorem not_mem_fill_body (g : Graph) (l : List Nat) (p : Nat) : Ev.body p ∉ l.flatMap (fillN g) := by
  simp [List.mem_flatMap, fillN]

theorem not_mem_fill_new (g : Graph) (l : List Nat) (p : Nat) : Ev.new p ∉ l.flatMap (fillN g) := by
  simp [List.mem_flatMap, fillN]

theorem mem_fill_set (g : Graph) (l : List Nat) (n : Nat) (a : List Nat) :
    Ev.set n a ∈ l.flatMap (fillN g) → n ∈ l := by
  simp only [List.mem_flatMap, fillN, List.mem_cons, List.mem_append, List.mem_map]
  rintro ⟨m, hm, h | ⟨b, _, e⟩ | h | h⟩
  · cases h
  · injection e with e1 _
    subst e1; exact hm
  · cases h
  · cases h

theorem count_fill_init (g : Graph) (l : List Nat) (n : Nat) :
    (l.flatMap (fillN g)).count (Ev.init n) = l.count n := by
  induction l with
  | nil => simp
  | cons m l ih =>
    have h : ((presentNames (g.node m)).map (Ev.set m) ++ [Ev.postInit m]).count (Ev.init n) = 0 :=
      List.count_eq_zero.2 (by simp)
    rw [List.flatMap_cons, List.count_append, ih, fillN, List.count_cons, h, List.count_cons]
    simp [Nat.add_comm]

theorem count_fill_postInit (g : Graph) (l : List Nat) (n : Nat) :
    (l.flatMap (fillN g)).count (Ev.postInit n) = l.count n := by
  induction l with
  | nil => simp
  | cons m l ih =>
    have h : ((presentNames (g.node m)).map (Ev.set m)).count (Ev.postInit n) = 0 :=
      List.count_eq_zero.2 (by simp)
    rw [List.flatMap_cons, List.count_append, ih, fillN, List.count_cons, List.count_append, h,
      List.count_cons]
    simp [List.count_cons, Nat.add_comm]

/-- loading a task from its parameter file: shape of the log -/
theorem runLog_shape (fl : Flags) (lib : List Cls) (sg : SGraph) (root : Nat)
    (hwf : ∀ n, n < sg.g.size → ∀ m ∈ succAll sg.g n, m < sg.g.size) (hr : root < sg.g.size) :
    let order := serialOrder sg.g [root]
    let defs := serialize fl lib sg [root]
    ∃ build,
      runLog defs = build ++ (preList defs).map Ev.exec ++ ((sg.g.node root).initTasks).map Ev.exec ++ [Ev.body root] ∧
      build = order.map Ev.new ++ defs.flatMap fillEvents ∧
      (∀ p, Ev.exec p ∉ build) ∧ (∀ n, Ev.body n ∉ build) ∧
      (preList defs).Nodup ∧
      (∀ p, p ∈ preList defs ↔ ∃ n ∈ order, p ∈ (sg.g.node n).preTasks) := by
  intro order defs
  refine ⟨order.map Ev.new ++ defs.flatMap fillEvents, ?_, rfl, ?_, ?_, firstOcc_nodup _ _, ?_⟩
  · show runLog (serialize fl lib sg [root]) = _
    rw [runLog_serialize fl lib sg root hwf hr, serialize_fill]
  · intro p
    show Ev.exec p ∉ _ ++ (serialize fl lib sg [root]).flatMap fillEvents
    rw [serialize_fill, List.mem_append]
    rintro (h | h)
    · simp at h
    · exact not_mem_fill_exec _ _ _ h
  · intro p
    show Ev.body p ∉ _ ++ (serialize fl lib sg [root]).flatMap fillEvents
    rw [serialize_fill, List.mem_append]
    rintro (h | h)
    · simp at h
    · exact not_mem_fill_body _ _ _ h
  · intro p
    show p ∈ preList (serialize fl lib sg [root]) ↔ _
    rw [preList_serialize, mem_firstOcc, List.mem_flatMap]
    simp [order]

/-- one object per definition, post-initialised once after its fields were assigned -/
theorem runLog_objects (fl : Flags) (lib : List Cls) (sg : SGraph) (root : Nat)
    (hwf : ∀ n, n < sg.g.size → ∀ m ∈ succAll sg.g n, m < sg.g.size) (hr : root < sg.g.size) (n : Nat) :
    let order := serialOrder sg.g [root]
    let log := runLog (serialize fl lib sg [root])
    log.count (Ev.new n) = (if n ∈ order then 1 else 0) ∧
    log.count (Ev.init n) = (if n ∈ order then 1 else 0) ∧
    log.count (Ev.postInit n) = (if n ∈ order then 1 else 0) ∧
    (n ∈ order → ∃ l1 l2, log = l1 ++ (Ev.init n :: ((presentNames (sg.g.node n)).map (Ev.set n) ++ [Ev.postInit n])) ++ l2 ∧
        (∀ a, Ev.set n a ∉ l1) ∧ (∀ a, Ev.set n a ∉ l2)) := by
  intro order log
  obtain ⟨_, _, _, _, hnd, _, _⟩ := serialOrder_root sg.g root hwf hr
  have hlog : log = order.map Ev.new ++ order.flatMap (fillN sg.g) ++
        (preList (serialize fl lib sg [root])).map Ev.exec ++
        ((sg.g.node root).initTasks).map Ev.exec ++ [Ev.body root] :=
    runLog_serialize fl lib sg root hwf hr
  have hc := count_of_nodup order n hnd
  have z1 : ∀ (l : List Nat) (e : Ev), (∀ p, e ≠ Ev.exec p) → (l.map Ev.exec).count e = 0 := by
    intro l e he
    apply List.count_eq_zero.2
    simp only [List.mem_map, not_exists, not_and]
    intro p _ h
    exact he p h.symm
  refine ⟨?_, ?_, ?_, ?_⟩
  · rw [hlog]
    simp only [List.count_append, z1 _ (Ev.new n) (by simp), count_map_new,
      List.count_eq_zero.2 (not_mem_fill_new sg.g order n)]
    simp [hc]
  · rw [hlog]
    have : (order.map Ev.new).count (Ev.init n) = 0 := List.count_eq_zero.2 (by simp)
    simp only [List.count_append, z1 _ (Ev.init n) (by simp), count_fill_init, this]
    simp [hc]
  · rw [hlog]
    have : (order.map Ev.new).count (Ev.postInit n) = 0 := List.count_eq_zero.2 (by simp)
    simp only [List.count_append, z1 _ (Ev.postInit n) (by simp), count_fill_postInit, this]
    simp [hc]
  · intro hn
    obtain ⟨o1, o2, e⟩ := List.append_of_mem hn
    have hnd' : (o1 ++ n :: o2).Nodup := e ▸ hnd
    have hn1 : n ∉ o1 := fun h => (List.nodup_append.1 hnd').2.2 n h n List.mem_cons_self rfl
    have hn2 : n ∉ o2 := (List.nodup_cons.1 (List.nodup_append.1 hnd').2.1).1
    have hfl : order.flatMap (fillN sg.g) = o1.flatMap (fillN sg.g) ++ fillN sg.g n ++ o2.flatMap (fillN sg.g) := by
      rw [e]; simp
    refine ⟨order.map Ev.new ++ o1.flatMap (fillN sg.g),
      o2.flatMap (fillN sg.g) ++ (preList (serialize fl lib sg [root])).map Ev.exec ++
        ((sg.g.node root).initTasks).map Ev.exec ++ [Ev.body root], ?_, ?_, ?_⟩
    · rw [hlog, hfl]
      simp [fillN, List.append_assoc]
    · intro a
      rw [List.mem_append]
      rintro (h | h)
      · simp at h
      · exact hn1 (mem_fill_set _ _ _ _ h)
    · intro a
      simp only [List.mem_append]
      rintro (((h | h) | h) | h)
      · exact hn2 (mem_fill_set _ _ _ _ h)
      · simp at h
      · simp at h
      · simp at h

/-- executions when a task is loaded from its parameter file: every pre-task of a loaded configuration once,
    then the init tasks of the task, then the body -/
theorem runLog_exec_count (fl : Flags) (lib : List Cls) (sg : SGraph) (root : Nat)
    (hwf : ∀ n, n < sg.g.size → ∀ m ∈ succAll sg.g n, m < sg.g.size) (hr : root < sg.g.size) (p : Nat) :
    let order := serialOrder sg.g [root]
    (runLog (serialize fl lib sg [root])).count (Ev.exec p) =
      (if ∃ n ∈ order, p ∈ (sg.g.node n).preTasks then 1 else 0) + ((sg.g.node root).initTasks).count p := by
  intro order
  obtain ⟨_, _, _, _, _, hnd, hmem⟩ := runLog_shape fl lib sg root hwf hr
  rw [runLog_serialize fl lib sg root hwf hr]
  have h1 : ((serialOrder sg.g [root]).map Ev.new).count (Ev.exec p) = 0 := List.count_eq_zero.2 (by simp)
  have h2 : [Ev.body root].count (Ev.exec p) = 0 := List.count_eq_zero.2 (by simp)
  simp only [List.count_append, h1, h2, count_map_exec,
    List.count_eq_zero.2 (not_mem_fill_exec sg.g (serialOrder sg.g [root]) p), Nat.zero_add, Nat.add_zero]
  rw [count_of_nodup _ p hnd]
  simp only [hmem p]
  rfl

end XpmVerif.Serial
