import XpmVerif.Model.Sched
import XpmVerif.Generated.SchedFlags
import XpmVerif.Proofs.SchedFail
import XpmVerif.Proofs.SchedTerm
/-! C07: "Failures are contained: dependents are cancelled, others still run."

    All theorems are about every state of the scheduler model `Model/Sched.lean` reachable by ANY list of
    well-formed events (`ReachableOK fl totals s`, `ReachesOK fl s s'`; an event is well-formed, `EvOK`, when a
    submission names earlier submissions and existing tokens with a positive count — this is needed: it
    excludes a job that depends on itself), for every flag record with `fl.readyGuarded = true` (the other
    two repairs are not needed here).  One invariant (`Proofs/SchedFail.lean`, `Inv2`, on top of `Inv` of
    C04) preserved by every callback and every event. -/
namespace XpmVerif.C07
open XpmVerif.Sched hiding flOK Reachable
open XpmVerif.SchedDeps XpmVerif.SchedFail

/-- obligation on the current source: the three scheduler repairs are present. -/
theorem scheduler_flags : Gen.schedFlags = { readyGuarded := true, resubmitRegisters := true, abortRechecks := true } := by decide

/-- `error_stable`: a job in state `error` stays in state `error` in every later reachable state. -/
theorem error_stable {fl : Flags} (hfl : fl.readyGuarded = true) {totals : List Nat} {s s' : St}
    (hr : ReachableOK fl totals s) (hr' : ReachesOK fl s s') (o : Nat) (he : (s.jobs o).state = .error) :
    (s'.jobs o).state = .error :=
  (all_of_reachableOK hfl hr).error_stable hfl hr' o he

/-- `error_sources` (1): a job is in state `error` only if one of its dependencies failed (`failedDep`) or
    it was launched and its process exited with a non-zero code. -/
theorem error_sources {fl : Flags} (hfl : fl.readyGuarded = true) {totals : List Nat} {s : St}
    (hr : ReachableOK fl totals s) (j : Nat) (he : (s.jobs j).state = .error) :
    (s.jobs j).failedDep = true ∨ (0 < (s.jobs j).launches ∧ (s.jobs j).code ≠ 0) :=
  ((all_of_reachableOK hfl hr).inv2.core.g.floc j).f4 he

/-- `error_sources` (2): `failedDep` only if some job dependency has its origin in state `error`. -/
theorem failedDep_source {fl : Flags} (hfl : fl.readyGuarded = true) {totals : List Nat} {s : St}
    (hr : ReachableOK fl totals s) (j : Nat) (hf : (s.jobs j).failedDep = true) :
    ∃ d ∈ (s.jobs j).deps, ∃ o, d.origin = .job o ∧ (s.jobs o).state = .error := by
  have h := all_of_reachableOK hfl hr
  obtain ⟨i, hi, -, hc⟩ := (h.inv2.core.g.floc j).f7 hf
  obtain ⟨o, ho, he⟩ := h.inv2.core.g.g1 j i hi hc
  obtain ⟨d, hd, e1, -⟩ := mem_of_lt hi
  exact ⟨d, hd, o, e1.trans ho, he⟩

/-- "others still run" (no collateral cancellation): a job none of whose job dependencies is in state `error`
    and whose own exit code is 0 is not in state `error` — in every reachable state. -/
theorem no_collateral_error {fl : Flags} (hfl : fl.readyGuarded = true) {totals : List Nat} {s : St}
    (hr : ReachableOK fl totals s) (j : Nat)
    (hdeps : ∀ d ∈ (s.jobs j).deps, ∀ o, d.origin = .job o → (s.jobs o).state ≠ .error)
    (hcode : (s.jobs j).code = 0) : (s.jobs j).state ≠ .error := by
  intro he
  rcases error_sources hfl hr j he with hf | ⟨-, hc⟩
  · obtain ⟨d, hd, o, ho, heo⟩ := failedDep_source hfl hr j hf
    exact hdeps d hd o ho heo
  · exact hc hcode

/-- `dependent_of_failed_never_launched`: if a job dependency of `j` has its origin in state `error`, then `j`
    has never been launched (`launches = 0`) and is never launched in any later reachable state. -/
theorem dependent_of_failed_never_launched {fl : Flags} (hfl : fl.readyGuarded = true) {totals : List Nat}
    {s s' : St} (hr : ReachableOK fl totals s) (hr' : ReachesOK fl s s') (j : Nat) (d : Dep)
    (hd : d ∈ (s.jobs j).deps) (o : Nat) (ho : d.origin = .job o) (he : (s.jobs o).state = .error) :
    (s.jobs j).launches = 0 ∧ (s'.jobs j).launches = 0 := by
  have h := all_of_reachableOK hfl hr
  obtain ⟨h', t⟩ := h.reaches fl hfl hr'
  obtain ⟨-, d', hd', e'⟩ := t.dep h j d hd
  exact ⟨h.failed_dep_not_launched j d hd o ho he,
    h'.failed_dep_not_launched j d' hd' o (e'.trans ho) (h.error_stable hfl hr' o he)⟩

/-- transitive version: a job that depends on a failed job through a chain of job dependencies (no
    intermediate job having a done marker, `Blocked`) has never been launched and never is. -/
theorem transitive_dependent_never_launched {fl : Flags} (hfl : fl.readyGuarded = true) {totals : List Nat}
    {s s' : St} (hr : ReachableOK fl totals s) (hr' : ReachesOK fl s s') (j : Nat) (hb : Blocked s j) :
    (s.jobs j).launches = 0 ∧ (s'.jobs j).launches = 0 ∧ Blocked s' j := by
  have h := all_of_reachableOK hfl hr
  have hb' := hb.persist hfl h hr'
  exact ⟨h.blocked_not_launched hb, (h.reaches fl hfl hr').1.blocked_not_launched hb', hb'⟩

/-- `dependent_of_failed_ends_in_error`: let `o` be failed and finished (`state = error`, `pc = finished _`:
    its `doneHandler` segment, which queues a `check` for every registered dependent, has run).  For every
    job `j` whose first segment has run (`pc ∉ {none, created}`; that segment registers `j` and checks each
    dependency itself) and every position `i` of a dependency on `o`: either `check j i` is still queued, or
    the dependency is recorded as failed and `j` is in state `error` with `failedDep` — unless `j` is `done`
    (done marker of an earlier run). -/
theorem dependent_of_failed_ends_in_error {fl : Flags} (hfl : fl.readyGuarded = true) {totals : List Nat} {s : St}
    (hr : ReachableOK fl totals s) (j o i : Nat) (hi : i < (s.jobs j).deps.length)
    (hpc : (s.jobs j).pc ≠ .none ∧ (s.jobs j).pc ≠ .created)
    (ho : (s.jobs j).deps[i].origin = .job o) (he : (s.jobs o).state = .error) (hf : ∃ r, (s.jobs o).pc = .finished r) :
    Cb.check j i ∈ s.ready ∨
    ((s.jobs j).deps[i].cur = .fail ∧
      ((s.jobs j).state = .done ∨ ((s.jobs j).state = .error ∧ (s.jobs j).failedDep = true))) := by
  have h := all_of_reachableOK hfl hr
  have ho' : orgAt (s.jobs j) i = .job o := by rw [orgAt, getD_eq hi]; exact ho
  have hreg := h.inv2.core.g.gR j hpc i hi o ho'
  rcases h.inv2.gp o (j, i) hreg he hf with hc | hc
  · right
    refine ⟨by rw [curAt, getD_eq hi] at hc; exact hc, (h.inv2.core.g.floc j).f6 ⟨i, hi, hc⟩⟩
  · exact Or.inl hc

/-- the same when nothing is queued: every started dependent of a failed and finished job is in state
    `error` with `failedDep`, or `done`. -/
theorem dependent_of_failed_ends_in_error_quiescent {fl : Flags} (hfl : fl.readyGuarded = true) {totals : List Nat}
    {s : St} (hr : ReachableOK fl totals s) (hq : s.ready = []) (j o i : Nat) (hi : i < (s.jobs j).deps.length)
    (hpc : (s.jobs j).pc ≠ .none ∧ (s.jobs j).pc ≠ .created)
    (ho : (s.jobs j).deps[i].origin = .job o) (he : (s.jobs o).state = .error) (hf : ∃ r, (s.jobs o).pc = .finished r) :
    (s.jobs j).state = .done ∨ ((s.jobs j).state = .error ∧ (s.jobs j).failedDep = true) := by
  rcases dependent_of_failed_ends_in_error hfl hr j o i hi hpc ho he hf with h | h
  · rw [hq] at h; simp at h
  · exact h.2

/-- `failed` (`failedJobs`) contains exactly the identifiers of the jobs that went through `St.finish`
    (`pc = doneHandler` or `finished _`) in a state other than `done`, i.e. in state `error`. -/
theorem failed_exact {fl : Flags} (hfl : fl.readyGuarded = true) {totals : List Nat} {s : St}
    (hr : ReachableOK fl totals s) (x : Nat) :
    x ∈ s.failed ↔ ∃ j, (s.jobs j).ident = x ∧ (s.jobs j).state = .error ∧
      ((s.jobs j).pc = .doneHandler ∨ ∃ r, (s.jobs j).pc = .finished r) :=
  (all_of_reachableOK hfl hr).inv2.core.g.gF x

/-- `wait_reports_failure` (1): the callback in which the waiter of `experiment.wait()` completes
    (`returned` or `raised`) finds `unfinished = 0` and raises iff `failed` is not empty.  (Holds for any
    state; the completion is one `St.step`.) -/
theorem wait_reports_failure (fl : Flags) (s : St) (h1 : s.waiter ≠ .returned) (h2 : s.waiter ≠ .raised)
    (h3 : (s.step fl).waiter = .returned ∨ (s.step fl).waiter = .raised) :
    s.unfinished = 0 ∧ ((s.step fl).waiter = .raised ↔ (s.step fl).failed ≠ []) := by
  rcases step_waiter fl s with ⟨-, hw⟩ | ⟨hf, hw⟩
  · rcases hw with hw | ⟨-, hw⟩
    · rw [hw] at h3; rcases h3 with h3 | h3
      · exact absurd h3 h1
      · exact absurd h3 h2
    · rw [hw] at h3; simp at h3
  · rw [hf, hw]; rw [hw] at h3
    split at h3
    · rename_i hu
      refine ⟨hu, ?_⟩
      simp only [hu, if_true]
      split
      · rename_i he
        have : s.failed = [] := List.isEmpty_iff.mp he
        simp [this]
      · rename_i he
        have : s.failed ≠ [] := fun e => he (by rw [e]; rfl)
        simp [this]
    · simp at h3

/-- `wait_reports_failure` (2): in every reachable state a raised waiter has a non-empty `failed`, i.e.
    (`failed_exact`) some job went through `finish` in state `error`. -/
theorem wait_raised_has_failure {fl : Flags} (hfl : fl.readyGuarded = true) {totals : List Nat} {s : St}
    (hr : ReachableOK fl totals s) (hw : s.waiter = .raised) :
    ∃ j, (s.jobs j).state = .error ∧ ((s.jobs j).pc = .doneHandler ∨ ∃ r, (s.jobs j).pc = .finished r) := by
  have h := all_of_reachableOK hfl hr
  obtain ⟨x, hx⟩ := List.exists_mem_of_ne_nil _ (h.w hw)
  obtain ⟨j, -, hj⟩ := (failed_exact hfl hr x).mp hx
  exact ⟨j, hj⟩

/-- `wait_reports_failure` (3), for reachable states: the waiter completes with success (`returned`) in a
    callback only if no job has gone through `finish` in state `error`. -/
theorem wait_returned_no_failure {fl : Flags} (hfl : fl.readyGuarded = true) {totals : List Nat} {s : St}
    (hr : ReachableOK fl totals s) (h1 : s.waiter ≠ .returned) (h2 : s.waiter ≠ .raised)
    (h3 : (s.apply fl .step).waiter = .returned) (j : Nat)
    (hp : ((s.apply fl .step).jobs j).pc = .doneHandler ∨ ∃ r, ((s.apply fl .step).jobs j).pc = .finished r) :
    ((s.apply fl .step).jobs j).state ≠ .error := by
  intro he
  have hr' : ReachableOK fl totals (s.apply fl .step) := .step .step hr trivial
  have := (wait_reports_failure fl s h1 h2 (Or.inl h3)).2
  have hne : (s.step fl).failed ≠ [] :=
    List.ne_nil_of_mem ((failed_exact hfl hr' _).mpr ⟨j, rfl, he, hp⟩)
  have h3' : (s.step fl).waiter = .returned := h3
  rw [h3'] at this
  exact absurd (this.mpr hne) (by simp)

/-- `every_transitive_dependent_ends_in_error` (the containment closes transitively, and it is reached): under the
    hypotheses of `C06.every_maximal_run_ends_all_final` (all four repairs; a state reachable by well-formed events
    in which no job names a token twice and every request fits; a run of enabled `step` / `deliver` events that cannot
    be extended — every such run is finite, `C06.every_run_finite`), in the last state `s'` every scheduled job `j`
    (`pc ≠ none`, i.e. not a duplicate submission replaced by the job registered under its identifier) that depends
    transitively on a failed job (`Blocked s' j`: a chain of job dependencies to a job in state `error`, no
    intermediate job having a success marker) was never launched and has returned: with result ERROR, record state
    `error` and `failedDep` — unless `j`'s own success marker existed, in which case it returned DONE. -/
theorem every_transitive_dependent_ends_in_error {fl : Flags} (hg : fl.readyGuarded = true)
    (hf : fl.resubmitRegisters = true) (ha : fl.abortRechecks = true) (hr : fl.abortReleases = true)
    {totals : List Nat} {s : St} (h : SchedFinal.Reachable fl totals s) (hnd : SchedFinal.NoDoubleTok s)
    (hfit : SchedFinal.TokFit s) (evs : List Ev) (hrun : SchedFinal.RunOK fl s evs)
    (hmax : ∀ ev, ¬ SchedFinal.Enabled (evs.foldl (St.apply fl) s) ev) (j : Nat)
    (hs : ((evs.foldl (St.apply fl) s).jobs j).pc ≠ .none) (hb : Blocked (evs.foldl (St.apply fl) s) j) :
    ((evs.foldl (St.apply fl) s).jobs j).launches = 0 ∧
    ((((evs.foldl (St.apply fl) s).jobs j).marker = true ∧ ((evs.foldl (St.apply fl) s).jobs j).pc = .finished .done) ∨
     (((evs.foldl (St.apply fl) s).jobs j).marker = false ∧ ((evs.foldl (St.apply fl) s).jobs j).pc = .finished .error ∧
      ((evs.foldl (St.apply fl) s).jobs j).state = .error ∧ ((evs.foldl (St.apply fl) s).jobs j).failedDep = true)) := by
  obtain ⟨hR, -, -⟩ := SchedFinal.run_bound hg hf ha hr evs s h hnd hrun
  have hq := SchedFinal.quiescent_of_not_enabled _ hmax
  have hall := SchedFinal.quiescent_final hg hf ha hR hq.1 hq.2 (SchedFinal.tokFit_run fl evs s hrun hfit)
  generalize evs.foldl (St.apply fl) s = s' at hR hq hall hs hb ⊢
  -- the same state in the vocabulary of `SchedFail`
  have hOK : ReachableOK fl totals s' := by
    clear hq hall hs hb
    induction hR with
    | init => exact .init
    | @next s0 ev _ hev ih =>
      refine .step ev ih ?_
      cases ev <;> exact hev
  have hl : (s'.jobs j).launches = 0 := (all_of_reachableOK hg hOK).blocked_not_launched hb
  have hjn : j < s'.n := by
    apply Classical.byContradiction
    intro hn
    exact hs ((SchedFinal.reachable_invA hg hR).blank j (by omega))
  have hloc := (SchedFinal.reachable_invA hg hR).loc j
  refine ⟨hl, ?_⟩
  rcases hall j hjn with e | ⟨r, e⟩
  · exact absurd e hs
  · have hfin := SchedFinal.jlocal_final hloc e
    rcases hfin.1 with hd | he
    · left
      rcases (SchedFinal.jlocal_done_iff hloc e).1 hd with hm | ⟨h1, -⟩
      · exact ⟨hm, by rw [e, hd]⟩
      · omega
    · right
      obtain ⟨hm, hx⟩ := (SchedFinal.jlocal_error_iff hloc e).1 he
      rcases hx with ⟨h1, -⟩ | ⟨-, hfd⟩
      · omega
      · exact ⟨hm, by rw [e, he], by rw [hfin.2, he], hfd⟩

/-! ### the hypotheses are satisfiable: job 0 fails, job 1 depends on it, job 2 is independent -/

example : ReachableOK flOK [] failS := reachableOK_of_allOKb flOK [] failEvs (by decide)
example : Gen.schedFlags = flOK ∧ Gen.schedFlags.readyGuarded = true := by decide
/-- job 0: launched, exit code 1, `error`; job 1: never launched, `error` with `failedDep`; job 2: `done`. -/
example : (failS.jobs 0).state = .error ∧ (failS.jobs 0).launches = 1 ∧ (failS.jobs 0).code = 1 ∧
    (failS.jobs 1).state = .error ∧ (failS.jobs 1).failedDep = true ∧ (failS.jobs 1).launches = 0 ∧
    (failS.jobs 1).deps = [{ origin := .job 0, cur := .fail }] ∧
    (failS.jobs 2).state = .done ∧ (failS.jobs 2).launches = 1 ∧ failS.failed = [0, 1] := by decide
/-- hypotheses of `dependent_of_failed_ends_in_error` (job 0 failed and finished, job 1 started). -/
example : (failS.jobs 0).pc = .finished .error ∧ (failS.jobs 1).pc = .finished .error := by decide
/-- hypotheses of `wait_reports_failure`: the next callback completes the waiter, which raises. -/
example : failS.waiter = .notified ∧ (failS.step flOK).waiter = .raised ∧ (failS.step flOK).failed = [0, 1] := by decide

/-! ### a chain 0 ← 1 ← 2: job 0 fails, jobs 1 and 2 are cancelled transitively, the run ends -/

/-- the three submissions, then the complete run (17 events) to quiescence. -/
def chainSubs : List Ev := [.submit 0 [] 1 false, .submit 1 [.job 0] 0 false, .submit 2 [.job 1] 0 false]
def chainRun : List Ev := [.step, .deliver 0, .step, .deliver 0, .step, .deliver 0, .step, .deliver 0, .step, .step,
  .step, .deliver 0, .step, .step, .step, .deliver 0, .step]
def chainS : St := SchedFinal.runEvs SchedFinal.flOK [] chainSubs

/-- hypotheses of `every_transitive_dependent_ends_in_error` on the chain … -/
example : SchedFinal.Reachable SchedFinal.flOK [] chainS := SchedFinal.reachable_runEvs chainSubs (by decide)
example : SchedFinal.NoDoubleTok chainS := SchedFinal.noDoubleTok_runEvs rfl [] _ (by decide) (by decide)
example : SchedFinal.TokFit chainS := SchedFinal.tokFit_runEvs SchedFinal.flOK [] chainSubs (by decide)
example : SchedFinal.RunOK SchedFinal.flOK chainS chainRun := SchedFinal.runOK_of_b _ _ _ (by decide)
example : (chainRun.foldl (St.apply SchedFinal.flOK) chainS).ready = [] ∧
    (chainRun.foldl (St.apply SchedFinal.flOK) chainS).threads = [] := by decide
example : Blocked (chainRun.foldl (St.apply SchedFinal.flOK) chainS) 2 :=
  .via { origin := .job 1, cur := .fail } 1 (by decide) rfl
    (.direct { origin := .job 0, cur := .fail } 0 (by decide) rfl (by decide)) (by decide)
/-- … and its conclusion: job 0 ran and failed, jobs 1 and 2 were never launched and returned ERROR with `failedDep`. -/
example : ((chainRun.foldl (St.apply SchedFinal.flOK) chainS).jobs 0).launches = 1 ∧
    ((chainRun.foldl (St.apply SchedFinal.flOK) chainS).jobs 0).pc = .finished .error ∧
    ((chainRun.foldl (St.apply SchedFinal.flOK) chainS).jobs 1).pc = .finished .error ∧
    ((chainRun.foldl (St.apply SchedFinal.flOK) chainS).jobs 1).launches = 0 ∧
    ((chainRun.foldl (St.apply SchedFinal.flOK) chainS).jobs 2).pc = .finished .error ∧
    ((chainRun.foldl (St.apply SchedFinal.flOK) chainS).jobs 2).launches = 0 ∧
    ((chainRun.foldl (St.apply SchedFinal.flOK) chainS).jobs 2).failedDep = true := by decide

end XpmVerif.C07
