import XpmVerif.Proofs.SchedTerm
import XpmVerif.Proofs.RestartLink
/-! C11, termination of the restarted scheduler (partial): the scheduler of the restart world (`Model/Restart.lean`)
    differs from M2 (`St.apply`) in three ways — the first segment overwrites the marker with what the job directory
    shows, the completion of the `code` thread overwrites the exit code, and a live process found through the pid file
    is adopted.  The first two are *edits* of fields no invariant of `Proofs/SchedFinal.lean` / `SchedTerm.lean` looks
    at where they happen (`good_edit`), so every invariant and the measure `mu` carry over to every run of the world
    scheduler in which no job is adopted (`wstep`, `runW_bound`); job processes add their own rank (`wmu`).
    A scheduler restarted over a disk on which no pid file names a live process, with distinct identifiers, never adopts
    (`PidOwn`, `own_step`, `noAdopt_of_own`), and its re-submission phase is a run of M2 (`Phase`, `phase_submit`,
    `resub`): `restart_run_finite_partial`.  A run lock held by the scheduler belongs to a job between its lock-enter
    and lock-exit threads (`LockLink`, `lock_step`), so a world without enabled event has a scheduler with nothing
    pending (`stuck_quiescent`) and `quiescent_final'` applies: `restart_maximal_run_partial`.  Adoption itself is
    outside the invariants of M2 (an adopted job is RUNNING without launch, locks or satisfied dependencies): see the
    comment at the end for the full statement and what is missing. -/
namespace XpmVerif.RestartTerm
open XpmVerif.Sched hiding Reachable flOK submitPre submitPost sumTo
open XpmVerif.SchedFinal

/-! ### edits of `marker` / `code` -/

/-- `jb'` is `jb` up to the fields `marker` and `code`. -/
structure SameBut (jb jb' : Job) : Prop where
  ident : jb'.ident = jb.ident
  deps : jb'.deps = jb.deps
  state : jb'.state = jb.state
  unsat : jb'.unsat = jb.unsat
  event : jb'.event = jb.event
  sleeping : jb'.sleeping = jb.sleeping
  pc : jb'.pc = jb.pc
  held : jb'.held = jb.held
  launches : jb'.launches = jb.launches
  failedDep : jb'.failedDep = jb.failedDep

/-- what the termination argument uses about a scheduler state (all preserved by `St.apply` and by edits). -/
structure Good (fl : Flags) (s : St) : Prop where
  e : InvE fl s
  r : InvR s
  nd : NoDoubleTok s
  b : InvB s
  cap : ∃ N, XpmVerif.Sched.Inv s N

theorem Good.invT {fl : Flags} {s : St} (h : Good fl s) : InvT fl s := by
  refine ⟨h.e, h.r, ?_, h.nd⟩
  obtain ⟨N, hi⟩ := h.cap
  intro j hp
  have := (hi.job j).2.1 (by revert hp; cases (s.jobs j).pc <;> simp [pcRun, PC.run])
  rw [this]; simp

theorem good_of_reachable {fl : Flags} (hg : fl.readyGuarded = true) (hf : fl.resubmitRegisters = true)
    (ha : fl.abortRechecks = true) {totals : List Nat} {s : St} (h : SchedFinal.Reachable fl totals s)
    (hnd : NoDoubleTok s) : Good fl s :=
  ⟨reachable_invE hg ha h, reachable_invR hg h, hnd, reachable_invB hg hf h, (reachable_cap h).inv⟩

theorem depAt_sameBut {jb jb' : Job} (h : SameBut jb jb') (i : Nat) : depAt jb' i = depAt jb i := by
  unfold depAt; rw [h.deps]

theorem jdeep_sameBut {jb jb' : Job} (h : SameBut jb jb') (hJ : JDeep jb) : JDeep jb' := by
  have hd := depAt_sameBut h
  refine ⟨by rw [h.state, h.pc]; exact hJ.doneEnd, by rw [h.state, h.pc]; exact hJ.lockReady,
    by rw [h.state, h.pc]; exact hJ.runRunning, by rw [h.state, h.pc]; exact hJ.fresh, ?_,
    by rw [h.state, h.unsat, h.deps]; exact hJ.counter, ?_, ?_, ?_, by rw [h.failedDep, h.launches]; exact hJ.failedNoLaunch⟩
  · rw [h.state, h.failedDep, h.unsat, h.deps]
    intro hu; obtain ⟨a, b, c⟩ := hJ.pristine hu
    exact ⟨a, b, fun i hi => by rw [hd]; exact c i hi⟩
  · rw [h.state, h.deps]; intro hr i hi hj; rw [hd] at hj ⊢; exact hJ.readyDeps hr i hi hj
  · rw [h.deps]; intro i hi hj; rw [hd] at hj ⊢; exact hJ.tokNoFail i hi hj
  · rw [h.failedDep, h.deps]; intro hf; obtain ⟨i, hi, hc⟩ := hJ.failedWit hf; exact ⟨i, hi, by rw [hd]; exact hc⟩

theorem jq_sameBut {fl : Flags} {jb jb' : Job} (h : SameBut jb jb') (hQ : JQ fl jb) : JQ fl jb' := by
  have hd := depAt_sameBut h
  refine ⟨⟨?_, by rw [h.pc, h.state]; exact hQ.1.waitState, by rw [h.pc, h.event, h.state]; exact hQ.1.evtClear,
    by rw [h.state, h.unsat]; exact hQ.1.waitUnsat, ?_⟩, ?_⟩
  · unfold SE; rw [h.sleeping, h.event]; exact hQ.1.se
  · rw [h.state, h.deps]; intro hw i hi; rw [hd]; exact hQ.1.waitNoFail hw i hi
  · unfold HeldPc; rw [h.held, h.pc]; exact hQ.2

/-- the state with the record of `j` replaced by an edited copy. -/
def edit (s : St) (j : Nat) (jb' : Job) : St := { s with jobs := upd s.jobs j jb' }

theorem put_nil_eq (s : St) (j : Nat) (jb' : Job) : s.put j jb' [] [] = edit s j jb' := by
  simp [St.put, edit]

theorem edit_jobs_ne (s : St) (j : Nat) (jb' : Job) (i : Nat) (hi : i ≠ j) : (edit s j jb').jobs i = s.jobs i := by
  simp [edit, upd_ne _ _ hi]
theorem edit_jobs_same (s : St) (j : Nat) (jb' : Job) : (edit s j jb').jobs j = jb' := by simp [edit]
theorem edit_ready (s : St) (j : Nat) (jb' : Job) : (edit s j jb').ready = s.ready := rfl
theorem edit_threads (s : St) (j : Nat) (jb' : Job) : (edit s j jb').threads = s.threads := rfl

theorem edit_sameBut_all {s : St} {j : Nat} {jb' : Job} (h : SameBut (s.jobs j) jb') (i : Nat) :
    SameBut (s.jobs i) ((edit s j jb').jobs i) := by
  by_cases hi : i = j
  · subst hi; rw [edit_jobs_same]; exact h
  · rw [edit_jobs_ne _ _ _ _ hi]; exact ⟨rfl, rfl, rfl, rfl, rfl, rfl, rfl, rfl, rfl, rfl⟩

theorem edit_status {s : St} {j : Nat} {jb' : Job} (h : SameBut (s.jobs j) jb') (o : Origin) :
    (edit s j jb').status o = s.status o :=
  status_congr (s := s) (s' := edit s j jb') rfl (fun k => by rw [(edit_sameBut_all h k).state])
    (fun k => by rw [(edit_sameBut_all h k).state]) o

/-- the measure does not look at `marker` / `code`. -/
theorem mu_edit {s : St} {j : Nat} {jb' : Job} (h : SameBut (s.jobs j) jb') : mu (edit s j jb') = mu s := by
  have hall := edit_sameBut_all h
  have hst := edit_status h
  have hn : (edit s j jb').n = s.n := rfl
  have hd : dTot (edit s j jb') = dTot s := dTot_congr hn (fun i => by rw [(hall i).deps])
  have hA : muA (edit s j jb') = muA s := by
    unfold muA; rw [hn]; exact sumTo_congr _ _ _ (fun i _ => by unfold aJ; rw [(hall i).pc, (hall i).state])
  have hQ : muQ (edit s j jb') = muQ s := by
    unfold muQ; rw [hn]; exact sumTo_congr _ _ _ (fun i _ => by unfold qJ; rw [(hall i).pc, (hall i).sleeping])
  have hS : ∀ i, sBlk (edit s j jb') i = sBlk s i := by
    intro i; unfold sBlk depAt; rw [(hall i).deps]; simp only [hst]
  have hB : muB (edit s j jb') = muB s := by
    unfold muB; rw [hn]; exact sumTo_congr _ _ _ (fun i _ => by unfold bJ; rw [(hall i).pc, (hall i).state, hS i])
  unfold mu pW cW eW
  rw [hA, hB, hQ, hd, hn, edit_ready, edit_threads]

theorem cap_edit {s : St} {j : Nat} {jb' : Job} (h : SameBut (s.jobs j) jb') {N : Nat}
    (hi : XpmVerif.Sched.Inv s N) : XpmVerif.Sched.Inv (edit s j jb') N := by
  have hall := edit_sameBut_all h
  obtain ⟨h1, h2, h3, h4⟩ := hi
  refine ⟨fun i => ?_, fun i hN => by rw [(hall i).pc]; exact h2 i hN, h3, fun t => ?_⟩
  · have := h1 i
    simp only [PJ, KJ, edit_ready, edit_threads] at this ⊢
    rw [(hall i).pc, (hall i).sleeping, (hall i).held, (hall i).deps, (hall i).state]
    exact this
  · have := h4 t
    have e : XpmVerif.Sched.sumTo s.n (fun i => heldTok ((edit s j jb').jobs i) t) = XpmVerif.Sched.sumTo s.n (fun i => heldTok (s.jobs i) t) :=
      XpmVerif.Sched.sumTo_congr (fun i _ => by unfold heldTok; rw [(hall i).deps, (hall i).held])
    show (edit s j jb').avail t + ((XpmVerif.Sched.sumTo s.n (fun i => heldTok ((edit s j jb').jobs i) t) : Nat) : Int) = _ ∧ _
    rw [e]; exact this

/-- every invariant survives an edit of `marker` / `code`, as long as the edited record is still truthful. -/
theorem good_edit {fl : Flags} {s : St} {j : Nat} {jb' : Job} (hG : Good fl s) (h : SameBut (s.jobs j) jb')
    (hL : JLocal jb') : Good fl (edit s j jb') := by
  have hall := edit_sameBut_all h
  have hd : ∀ i k, depAt ((edit s j jb').jobs i) k = depAt (s.jobs i) k := fun i k => depAt_sameBut (hall i) k
  have hC := hG.e.c
  refine ⟨⟨⟨⟨?_, ?_, ?_⟩, ?_, ?_, ?_⟩, ?_⟩, ?_, ?_, ⟨?_, ?_⟩, ?_⟩
  · intro i
    exact (ctlAt_congr i (hall i).pc (hall i).sleeping (by rw [edit_ready]) (by rw [edit_ready]) (by rw [edit_ready])
      (by rw [edit_threads]) rfl).2 (hC.a.ctl i)
  · intro i
    by_cases hi : i = j
    · subst hi; rw [edit_jobs_same]; exact hL
    · rw [edit_jobs_ne _ _ _ _ hi]; exact hC.a.loc i
  · intro i hi; rw [(hall i).pc]; exact hC.a.blank i hi
  · refine ⟨fun i hi => by rw [(hall i).deps]; exact hC.st.blankDeps i hi, ?_, ?_, hC.st.effLe, hC.st.regLt, hC.st.resLt, ?_⟩
    · intro i k o hk ho; rw [(hall i).deps] at hk; rw [hd] at ho; exact hC.st.acyclic i k o hk ho
    · intro i k t c hk ho; rw [(hall i).deps] at hk; rw [hd] at ho; exact hC.st.tokOK i k t c hk ho
    · intro i hi; rw [edit_ready] at hi; exact hC.st.regCb i hi
  · intro i hp; rw [(hall i).pc] at hp; rw [(hall i).state]; exact hC.f i hp
  · rw [← put_nil_eq]
    exact put_invD s j jb' [] [] hC.d (jdeep_sameBut h (hC.d.recs j)) h.deps (fun hs => by rw [h.state]; exact hs)
      (Or.inl ⟨fun e => by rw [h.state]; exact e, fun e => by rw [h.state]; exact e⟩) (by simp)
  · intro i; exact jq_sameBut (hall i) (hG.e.q i)
  · have hreg : regTot (edit s j jb') = regTot s := by
      unfold regTot
      exact SchedFinal.sumTo_congr _ _ _ (fun i _ => by unfold regC; rw [(hall i).state, (hall i).deps])
    exact ⟨fun t => by rw [hreg]; exact hG.r.tok t, fun o => by rw [hreg]; exact hG.r.job o⟩
  · intro i k k' t c c' h1 h2; rw [hd] at h1 h2; exact hG.nd i k k' t c c' h1 h2
  · rw [edit_ready]; exact hG.b.noreg
  · have hc := hG.b.count
    unfold CountC at hc ⊢
    have : actN (edit s j jb') = actN s := actN_congr rfl (fun i => by unfold act; rw [(hall i).pc])
    rw [this]; exact hc
  · obtain ⟨N, hi⟩ := hG.cap
    exact ⟨N, cap_edit h hi⟩

/-- every invariant survives an enabled `step` / `deliver` event of M2. -/
theorem good_apply {fl : Flags} (hg : fl.readyGuarded = true) (hf : fl.resubmitRegisters = true)
    (ha : fl.abortRechecks = true) {s : St} (ev : Ev) (hen : Enabled s ev) (h : Good fl s) : Good fl (s.apply fl ev) := by
  have hok := evOK_enabled s ev hen
  obtain ⟨N, hi⟩ := h.cap
  exact ⟨apply_invE fl hg ha s ev hok h.e, apply_invR fl hg s ev hok h.e.c h.r,
    noDoubleTok_enabled fl s h.e.c.a.ctl ev hen h.nd, apply_invB fl hg hf s ev h.e.c.a h.b,
    XpmVerif.Sched.apply_Inv (ar := false) (fun e => by cases e) ev hi⟩

/-! ### the scheduler of the restart world, one event at a time -/

open XpmVerif.Restart in
/-- the record the first segment works on: the marker is what the job directory shows. -/
def markerRec (a : StA Disk) (j : Nat) : Job :=
  { (a.s.jobs j) with marker := (world.look a.d j (a.s.jobs j)).marker }

open XpmVerif.Restart in
/-- a callback of the world scheduler that adopts nothing is the M2 callback on the state with the marker edited
    (for `start`), resp. on the state itself. -/
theorem stepA_noAdopt (fl : Flags) (a : StA Disk) (cb : Cb) (rest : List Cb) (hr : a.s.ready = cb :: rest)
    (hna : ∀ j, cb = .start j → (world.look a.d j (a.s.jobs j)).adopt = false) :
    (stepA fl world a).s =
      (match cb with
       | .start j => edit a.s j (markerRec a j)
       | _ => a.s).apply fl .step := by
  rw [stepA_cons fl world a cb rest hr]
  cases cb with
  | start j =>
    have h0 := hna j rfl
    have h0' : (world.look a.d j (({ a.s with ready := rest } : St).jobs j)).adopt = false := h0
    simp only [runCbA, h0', Bool.false_eq_true, if_false, startJobA, St.apply]
    unfold St.step
    simp only [edit, hr]
    simp only [St.runCb]
    congr 1
    simp [St.put, markerRec]
  | resume j =>
    simp only [runCbA, St.apply]
    unfold St.step
    simp only [hr]
    split <;> rfl
  | register j => simp only [runCbA, St.apply]; unfold St.step; simp only [hr]
  | wake j => simp only [runCbA, St.apply]; unfold St.step; simp only [hr]
  | check j d => simp only [runCbA, St.apply]; unfold St.step; simp only [hr]
  | notifyCheck j d => simp only [runCbA, St.apply]; unfold St.step; simp only [hr]
  | waiterRun => simp only [runCbA, St.apply]; unfold St.step; simp only [hr]

/-! ### job processes -/

open XpmVerif.Restart

/-- steps a job process still has to make. -/
def rk : Ph → Nat
  | .waitLock => 3 | .body => 2 | .exiting => 1 | .gone => 0

def procRank (d : Disk) : Nat := SchedFinal.sumTo (fun p => rk (d.procs p).ph) d.np

theorem procRank_congr {d d' : Disk} (hn : d'.np = d.np) (hp : d'.procs = d.procs) : procRank d' = procRank d := by
  unfold procRank; rw [hn, hp]

theorem procRank_onLaunch (d : Disk) (j : Nat) (jb : Job) : procRank (world.onLaunch d j jb) = procRank d + 3 := by
  have hn : (world.onLaunch d j jb).np = d.np + 1 := rfl
  have hp : (world.onLaunch d j jb).procs = upd d.procs d.np { ident := jb.ident, ph := .waitLock, code := jb.code } := rfl
  unfold procRank
  rw [hn, hp, SchedFinal.sumTo_succ]
  have : SchedFinal.sumTo (fun p => rk (upd d.procs d.np { ident := jb.ident, ph := Ph.waitLock, code := jb.code } p).ph) d.np
      = SchedFinal.sumTo (fun p => rk (d.procs p).ph) d.np :=
    SchedFinal.sumTo_congr _ _ _ (fun i hi => by simp [upd, Nat.ne_of_lt hi])
  rw [this]; simp [rk]

theorem gate_procs (d : Disk) (kind : TK) (j : Nat) (jb : Job) (ad : Bool) (c : Option Nat) (d' : Disk)
    (h : world.gate d kind j jb ad = some (c, d')) : d'.procs = d.procs ∧ d'.np = d.np := by
  cases kind <;> simp only [world] at h
  · split at h <;> simp at h
    obtain ⟨_, rfl⟩ := h; exact ⟨rfl, rfl⟩
  · simp at h; obtain ⟨_, rfl⟩ := h; exact ⟨rfl, rfl⟩
  · split at h
    · simp at h
    · split at h <;> simp at h <;> obtain ⟨_, rfl⟩ := h <;> exact ⟨rfl, rfl⟩
  · simp at h; obtain ⟨_, rfl⟩ := h; exact ⟨rfl, rfl⟩

/-- a job process that can move. -/
def ProcEnabled (d : Disk) (p : Nat) : Prop :=
  p < d.np ∧ ((d.procs p).ph = .body ∨ (d.procs p).ph = .exiting ∨
    ((d.procs p).ph = .waitLock ∧ (d.dir (d.procs p).ident).lock = .free))

theorem procRank_step (d : Disk) (p : Nat) (rm : Bool) (h : ProcEnabled d p) :
    procRank (d.procStep p rm) < procRank d := by
  obtain ⟨hp, hph⟩ := h
  have key : ∀ (d' : Disk) (x : Proc), d'.np = d.np → d'.procs = upd d.procs p x → rk x.ph < rk (d.procs p).ph →
      procRank d' < procRank d := by
    intro d' x hn hpr hlt
    unfold procRank
    rw [hn, hpr]
    have := SchedFinal.sumTo_upd (fun q => rk (upd d.procs p x q).ph) (fun q => rk (d.procs q).ph) d.np p hp
      (fun i hi => by simp [upd, hi])
    simp only [SchedFinal.upd_same] at this
    omega
  unfold Disk.procStep
  simp only [hp, if_true]
  rcases hph with e | e | ⟨e, hl⟩
  · simp only [e]
    split
    · exact key _ _ rfl rfl (by simp [e, rk])
    · exact key _ _ rfl rfl (by simp [e, rk])
  · simp only [e]
    exact key _ _ rfl rfl (by simp [e, rk])
  · simp only [e, hl, if_true]
    split
    · exact key _ _ rfl rfl (by simp [e, rk])
    · exact key _ _ rfl rfl (by simp [e, rk])

/-! ### one event of the restart world -/

/-- what a callback of the world scheduler does to the disk when nothing is adopted: nothing, or one launch. -/
theorem stepA_disk (fl : Flags) (a : StA Disk) (cb : Cb) (rest : List Cb) (hr : a.s.ready = cb :: rest)
    (hna : ∀ j, cb = .start j → (world.look a.d j (a.s.jobs j)).adopt = false) :
    (stepA fl world a).d = a.d ∨ ∃ j jb, (stepA fl world a).d = world.onLaunch a.d j jb := by
  rw [stepA_cons fl world a cb rest hr]
  cases cb with
  | start j =>
    have h0' : (world.look a.d j (({ a.s with ready := rest } : St).jobs j)).adopt = false := hna j rfl
    simp only [runCbA, h0', Bool.false_eq_true, if_false]; simp
  | resume j =>
    simp only [runCbA]
    split
    · exact Or.inr ⟨j, _, rfl⟩
    · exact Or.inl rfl
  | _ => exact Or.inl rfl

/-- the events of a run of the second scheduler: a callback, the completion of a helper thread the world lets
    complete, a move of a job process. -/
def WEnabled (w : W) : WEv → Prop
  | .sched .step => w.a.s.ready ≠ []
  | .sched (.deliver k) => ∃ kind j c d', w.a.s.threads[k]? = some (kind, j) ∧
      world.gate w.a.d kind j (w.a.s.jobs j) (w.a.adopted j) = some (c, d')
  | .proc p _ => ProcEnabled w.a.d p
  | _ => False

/-- the event adopts nothing: if it is the first segment of a job, the pid file names no live process. -/
def NoAdoptAt (w : W) : WEv → Prop
  | .sched .step => ∀ j rest, w.a.s.ready = .start j :: rest → (world.look w.a.d j (w.a.s.jobs j)).adopt = false
  | _ => True

/-- the variant of the restart world: the measure of the scheduler (weight 4: a launch creates a process of rank 3)
    plus the steps the job processes still have to make. -/
def wmu (w : W) : Nat := 4 * mu w.a.s + procRank w.a.d

theorem jlocal_marker_edit {jb : Job} (hL : JLocal jb) (hp : jb.pc = .created) (hs : jb.state = .unscheduled) (m : Bool) :
    JLocal { jb with marker := m } := by
  unfold JLocal at hL ⊢
  simp only [hp, hs, pcEnd, pcEarly, pcRun] at hL ⊢
  grind

theorem jlocal_code_edit {jb : Job} (hL : JLocal jb) (hp : jb.pc = .codeWait) (hs : jb.state = .running) (c : Nat) :
    JLocal { jb with code := c } := by
  unfold JLocal at hL ⊢
  simp only [hp, hs, pcEnd, pcEarly, pcRun] at hL ⊢
  grind

theorem wstep {fl : Flags} (hg : fl.readyGuarded = true) (hf : fl.resubmitRegisters = true)
    (ha : fl.abortRechecks = true) (hrel : fl.abortReleases = true) {totals : List Nat} {done0 : Nat → Bool} {w : W}
    (hW : WReach fl totals done0 w) (hG : Good fl w.a.s) (e : WEv) (hen : WEnabled w e) (hna : NoAdoptAt w e) :
    Good fl (w.apply fl e).a.s ∧ wmu (w.apply fl e) < wmu w := by
  cases e with
  | crash => exact absurd hen id
  | crashAfterSpawn j => exact absurd hen id
  | crashInPrepare j st => exact absurd hen id
  | proc p rm =>
    have := procRank_step w.a.d p rm hen
    refine ⟨hG, ?_⟩
    show 4 * mu w.a.s + procRank (w.a.d.procStep p rm) < 4 * mu w.a.s + procRank w.a.d
    omega
  | sched ev =>
    cases ev with
    | submit _ _ _ _ => exact absurd hen id
    | wait => exact absurd hen id
    | step =>
      have hne : w.a.s.ready ≠ [] := hen
      cases hr : w.a.s.ready with
      | nil => exact absurd hr hne
      | cons cb rest =>
        have hna' : ∀ j, cb = .start j → (world.look w.a.d j (w.a.s.jobs j)).adopt = false := by
          intro j hj; subst hj; exact hna j rest hr
        have hs := stepA_noAdopt fl w.a cb rest hr hna'
        have hd := stepA_disk fl w.a cb rest hr hna'
        -- the (possibly edited) state on which the M2 callback runs
        have key : ∀ se : St, Good fl se → mu se = mu w.a.s → se.ready = w.a.s.ready →
            (stepA fl world w.a).s = se.apply fl .step →
            Good fl (w.apply fl (.sched .step)).a.s ∧ wmu (w.apply fl (.sched .step)) < wmu w := by
          intro se hGe hmu hre hse
          have hen' : Enabled se .step := by show se.ready ≠ []; rw [hre]; exact hne
          have h1 := good_apply hg hf ha .step hen' hGe
          have h2 := mu_decreases fl hg ha hrel se hGe.invT hGe.b.noreg .step hen'
          have e1 : (w.apply fl (.sched .step)).a.s = se.apply fl .step := hse
          refine ⟨by rw [e1]; exact h1, ?_⟩
          unfold wmu
          rw [e1]
          have e2 : (w.apply fl (.sched .step)).a.d = (stepA fl world w.a).d := rfl
          rw [e2]
          rcases hd with e3 | ⟨j, jb, e3⟩
          · rw [e3]; omega
          · rw [e3, procRank_onLaunch]; omega
        cases cb with
        | start j =>
          have hpc := head_start_pc (s := w.a.s) hG.e.c.a.ctl hr
          have hun := hG.e.c.f j (Or.inr hpc)
          have hsb : SameBut (w.a.s.jobs j) (markerRec w.a j) := ⟨rfl, rfl, rfl, rfl, rfl, rfl, rfl, rfl, rfl, rfl⟩
          have hL := jlocal_marker_edit (hG.e.c.a.loc j) hpc hun (world.look w.a.d j (w.a.s.jobs j)).marker
          exact key _ (good_edit hG hsb hL) (mu_edit hsb) rfl hs
        | resume j => exact key _ hG rfl rfl hs
        | register j => exact key _ hG rfl rfl hs
        | wake j => exact key _ hG rfl rfl hs
        | check j d => exact key _ hG rfl rfl hs
        | notifyCheck j d => exact key _ hG rfl rfl hs
        | waiterRun => exact key _ hG rfl rfl hs
    | deliver k =>
      obtain ⟨kind, j, c, d', hk, hgate⟩ := hen
      have hgp := gate_procs _ _ _ _ _ _ _ hgate
      have hkl : k < w.a.s.threads.length := by
        apply Classical.byContradiction; intro hn
        rw [List.getElem?_eq_none (by omega)] at hk; cases hk
      have e0 : (w.apply fl (.sched (.deliver k))).a = deliverA w.a k j c d' := by
        show applyA fl world w.a (.deliver k) = _
        simp only [applyA, hk, hgate]
      -- the state on which the M2 delivery runs
      have key : ∀ se : St, Good fl se → mu se = mu w.a.s → se.threads = w.a.s.threads →
          (deliverA w.a k j c d').s = se.apply fl (.deliver k) →
          Good fl (w.apply fl (.sched (.deliver k))).a.s ∧ wmu (w.apply fl (.sched (.deliver k))) < wmu w := by
        intro se hGe hmu hth hse
        have hen' : Enabled se (.deliver k) := by show k < se.threads.length; rw [hth]; exact hkl
        have h1 := good_apply hg hf ha (.deliver k) hen' hGe
        have h2 := mu_decreases fl hg ha hrel se hGe.invT hGe.b.noreg (.deliver k) hen'
        rw [← hse] at h1 h2
        refine ⟨by rw [e0]; exact h1, ?_⟩
        unfold wmu
        rw [e0]
        have e2 : (deliverA w.a k j c d').d = d' := rfl
        rw [e2, procRank_congr hgp.2 hgp.1]
        omega
      cases c with
      | none =>
        refine key w.a.s hG rfl rfl ?_
        simp only [deliverA, setCode, St.apply, hk]
      | some cv =>
        have hkind := gate_code_kind _ _ _ _ _ _ _ hgate
        subst hkind
        have hkm : (TK.code, j) ∈ w.a.s.threads := List.mem_of_getElem? hk
        have hpc : (w.a.s.jobs j).pc = .codeWait := by
          have := (wreach_inv hW).sched.1.kind _ hkm
          simp only at this
          revert this
          cases (w.a.s.jobs j).pc <;> simp [kindOk]
        have hrun := (hG.e.c.d.recs j).runRunning (by rw [hpc]; rfl)
        have hsb : SameBut (w.a.s.jobs j) { (w.a.s.jobs j) with code := cv } := ⟨rfl, rfl, rfl, rfl, rfl, rfl, rfl, rfl, rfl, rfl⟩
        have hL := jlocal_code_edit (hG.e.c.a.loc j) hpc hrun cv
        refine key _ (good_edit hG hsb hL) (mu_edit hsb) rfl ?_
        simp only [deliverA, setCode, put_nil_eq, St.apply, edit_threads, hk]

/-! ### runs of the second scheduler -/

/-- a run of enabled world events (callbacks, helper-thread completions, process moves) that adopts nothing. -/
def RunW (fl : Flags) : W → List WEv → Prop
  | _, [] => True
  | w, e :: es => WEnabled w e ∧ NoAdoptAt w e ∧ RunW fl (w.apply fl e) es

theorem runW_bound {fl : Flags} (hg : fl.readyGuarded = true) (hf : fl.resubmitRegisters = true)
    (ha : fl.abortRechecks = true) (hrel : fl.abortReleases = true) {totals : List Nat} {done0 : Nat → Bool}
    (evs : List WEv) : ∀ w, WReach fl totals done0 w → Good fl w.a.s → RunW fl w evs →
      WReach fl totals done0 (W.run fl w evs) ∧ Good fl (W.run fl w evs).a.s ∧
      evs.length + wmu (W.run fl w evs) ≤ wmu w := by
  induction evs with
  | nil => intro w hW hG _; exact ⟨hW, hG, by simp [W.run]⟩
  | cons e es ih =>
    intro w hW hG hrun
    obtain ⟨hen, hna, hrest⟩ := hrun
    obtain ⟨hG', hlt⟩ := wstep hg hf ha hrel hW hG e hen hna
    obtain ⟨r1, r2, r3⟩ := ih (w.apply fl e) (hW.apply e) hG' hrest
    refine ⟨r1, r2, ?_⟩
    simp only [W.run, List.length_cons]
    omega

/-! ### the re-submission phase of a restarted scheduler that finds no live process is a run of M2 -/

/-- no pid file names a live process. -/
def NoLivePid (d : Disk) : Prop := ∀ i p, (d.dir i).pid = some p → d.alive p = false

/-- what holds while the restarted scheduler only takes submissions (no helper thread completes, no process moves):
    the disk is the one found at the restart, nothing has been adopted, no `resume` callback exists, and every
    submitted record carries the marker its directory shows. -/
structure Phase (d0 : Disk) (a : StA Disk) : Prop where
  disk : a.d = d0
  adopted : a.adopted = fun _ => false
  ctl : Restart.InvB a
  inv1 : Inv1 a.s
  nores : ∀ j, Restart.cRes a.s j = 0
  mark : ∀ j, j < a.s.n → (a.s.jobs j).marker = (d0.dir (a.s.jobs j).ident).done

theorem count_resume_append_zero {l app : List Cb} (j : Nat) (h1 : l.count (Cb.resume j) = 0)
    (h2 : app.count (Cb.resume j) = 0) : (l ++ app).count (Cb.resume j) = 0 := by
  simp [List.count_append, h1, h2]

theorem phase_stepA (fl : Flags) (d0 : Disk) (hnl : NoLivePid d0) (a : StA Disk) (h : Phase d0 a) :
    stepA fl world a = { a with s := a.s.step fl } ∧ Phase d0 (stepA fl world a) := by
  cases hr : a.s.ready with
  | nil =>
    have e : stepA fl world a = a := by unfold stepA; rw [hr]
    have e2 : a.s.step fl = a.s := by unfold St.step; rw [hr]
    rw [e, e2]; exact ⟨rfl, h⟩
  | cons cb rest =>
    have hpop := Restart.pop_inv h.ctl.1 hr
    have hstep : a.s.step fl = St.runCb fl ({ a.s with ready := rest } : St) cb := by unfold St.step; rw [hr]
    -- the callback run by the world scheduler is the M2 callback
    have heq : stepA fl world a = { a with s := a.s.step fl } := by
      rw [stepA_cons fl world a cb rest hr, hstep]
      cases cb with
      | start j =>
        have hpc := head_start_pc (s := a.s) h.inv1 hr
        have hjn : j < a.s.n := by
          apply Classical.byContradiction; intro hn
          have := (h.inv1 j).2.2.2 (by omega)
          rw [hpc] at this; simp [pcKind] at this
        have hna : (world.look a.d j (a.s.jobs j)).adopt = false := by
          simp only [world]
          rw [h.disk]
          cases hp : (d0.dir (a.s.jobs j).ident).pid with
          | none => rfl
          | some p => exact hnl _ p hp
        have hmk : (world.look a.d j (a.s.jobs j)).marker = (a.s.jobs j).marker := by
          show (a.d.dir (a.s.jobs j).ident).done = _
          rw [h.disk, h.mark j hjn]
        have hna' : (world.look a.d j (({ a.s with ready := rest } : St).jobs j)).adopt = false := hna
        simp only [runCbA, hna', Bool.false_eq_true, if_false, startJobA]
        have hmk' : (world.look a.d j (({ a.s with ready := rest } : St).jobs j)).marker =
            (({ a.s with ready := rest } : St).jobs j).marker := hmk
        rw [hmk']
        have : ({ a.s with ready := rest } : St).put j
            { (({ a.s with ready := rest } : St).jobs j) with marker := (({ a.s with ready := rest } : St).jobs j).marker }
            = ({ a.s with ready := rest } : St) := Restart.put_self _ j
        rw [this]; rfl
      | resume j =>
        exfalso
        have := h.nores j
        simp [Restart.cRes, hr] at this
      | register j => rfl
      | wake j => rfl
      | check j d => rfl
      | notifyCheck j d => rfl
      | waiterRun => rfl
    refine ⟨heq, ?_⟩
    rw [heq]
    have hctl := Restart.stepA_invB fl world a h.ctl
    rw [heq] at hctl
    refine ⟨h.disk, h.adopted, hctl, step_inv1 fl a.s h.inv1, ?_, ?_⟩
    · -- no `resume` callback is ever queued by a callback
      intro j
      have hrest : rest.count (Cb.resume j) = 0 := by
        have := h.nores j
        simp only [Restart.cRes, hr, List.count_cons] at this
        omega
      show (a.s.step fl).ready.count (Cb.resume j) = 0
      rw [hstep]
      by_cases hreg : ∃ i, cb = .register i
      · obtain ⟨i, rfl⟩ := hreg
        simp only [St.runCb]
        rw [(Restart.register_same fl _ i).2.1]; exact hrest
      · have hgl := Restart.runCbA_glob fl world ({ a with s := { a.s with ready := rest } }) cb hpop
          (fun i e => hreg ⟨i, e⟩)
        obtain ⟨app, happ, hc⟩ := hgl.ready
        have e1 : (runCbA fl world ({ a with s := { a.s with ready := rest } }) cb).s = St.runCb fl ({ a.s with ready := rest } : St) cb := by
          have := heq
          rw [stepA_cons fl world a cb rest hr, hstep] at this
          rw [this]
        rw [e1] at happ
        rw [happ]
        exact count_resume_append_zero j hrest (hc j).2
    · intro j hj
      have hM := runCb_mono fl a.s cb rest h.inv1 hr
      have hF := runCb_frame fl ({ a.s with ready := rest } : St) cb
      rw [hstep] at hj ⊢
      rw [hM.n] at hj
      by_cases hjt : j = target cb
      · subst hjt
        rw [hF.2.2.2.2.2.2.2.1, hF.2.2.2.2.2.1]
        exact h.mark _ hj
      · rw [hF.2.2.2.2.1 j hjt]; exact h.mark j hj

theorem phase_stepsA (fl : Flags) (d0 : Disk) (hnl : NoLivePid d0) (k : Nat) : ∀ (a : StA Disk), Phase d0 a →
    stepsA fl world a k = { a with s := St.steps fl a.s k } ∧ Phase d0 (stepsA fl world a k) := by
  induction k with
  | zero => intro a h; exact ⟨rfl, h⟩
  | succ k ih =>
    intro a h
    obtain ⟨e1, h1⟩ := phase_stepA fl d0 hnl a h
    obtain ⟨e2, h2⟩ := ih _ h1
    simp only [stepsA, St.steps]
    rw [e1] at e2 h2 ⊢
    exact ⟨e2, h2⟩

theorem submitPre_s (a : StA Disk) (ident : Nat) (deps : List Origin) (code : Nat) (marker : Bool) :
    (Restart.submitPre a (Restart.newJob a.s ident deps code marker)).s = SchedFinal.submitPre a.s ident deps code marker := rfl

theorem submitPost_s (a : StA Disk) (j : Nat) :
    Restart.submitPost a j = { a with s := SchedFinal.submitPost a.s j } := by
  obtain ⟨s, ad, d⟩ := a
  obtain ⟨n, jobs, eff, ntok, total, avail, tokDeps, jobDeps, registry, unfinished, failed, ready, threads, waiter, rr⟩ := s
  unfold Restart.submitPost SchedFinal.submitPost
  cases rr with
  | none => rfl
  | some o => cases o <;> rfl

/-- a submission taken by a restarted scheduler that finds no live process, with the marker its directory shows, is the
    submission of M2. -/
theorem phase_submit (fl : Flags) (d0 : Disk) (hnl : NoLivePid d0) (a : StA Disk) (h : Phase d0 a)
    (ident : Nat) (deps : List Origin) (code : Nat) (marker : Bool) (hm : marker = (d0.dir ident).done) :
    applyA fl world a (.submit ident deps code marker) = { a with s := a.s.apply fl (.submit ident deps code marker) } ∧
    Phase d0 (applyA fl world a (.submit ident deps code marker)) := by
  have hpre : Phase d0 (Restart.submitPre a (Restart.newJob a.s ident deps code marker)) := by
    refine ⟨h.disk, h.adopted, Restart.submitPre_invB a h.ctl _ ⟨rfl, rfl, rfl⟩, ?_, ?_, ?_⟩
    · rw [submitPre_s]; exact submitPre_inv1 a.s ident deps code marker h.inv1
    · intro j
      have := h.nores j
      simp only [Restart.cRes, Restart.submitPre, List.count_append] at this ⊢
      simp [this]
    · intro j hj
      have hj' : j < a.s.n + 1 := hj
      by_cases hjn : j = a.s.n
      · subst hjn
        simp only [Restart.submitPre, SchedFinal.upd_same]
        exact hm
      · simp only [Restart.submitPre, upd, hjn, if_false]
        exact h.mark j (by omega)
  obtain ⟨e2, h2⟩ := phase_stepsA fl d0 hnl (a.s.ready.length + 1) _ hpre
  have heq : applyA fl world a (.submit ident deps code marker) =
      { a with s := a.s.apply fl (.submit ident deps code marker) } := by
    simp only [applyA]
    rw [e2, submitPost_s, apply_submit]
    rfl
  refine ⟨heq, ?_⟩
  have hctl := Restart.applyA_invB fl world a (.submit ident deps code marker) h.ctl
  rw [heq] at hctl ⊢
  refine ⟨h.disk, h.adopted, hctl, apply_inv1 fl a.s _ h.inv1, ?_, ?_⟩
  · -- the queue after `submitPost`
    rw [e2] at h2
    have hn2 := h2.nores
    intro j
    show ((a.s.apply fl (.submit ident deps code marker)).ready).count (Cb.resume j) = 0
    rw [apply_submit]
    have := hn2 j
    simp only [Restart.cRes, submitPre_s] at this
    unfold SchedFinal.submitPost
    split
    · exact this
    · simp only [put_ready, List.count_append, this]; simp
  · rw [e2] at h2
    have hm2 := h2.mark
    simp only [submitPre_s] at hm2
    intro j hj
    rw [apply_submit] at hj ⊢
    rw [submitPost_n] at hj
    by_cases hjn : j = a.s.n
    · subst hjn
      have := hm2 _ hj
      unfold SchedFinal.submitPost
      split
      · exact this
      · simp only [put_jobs, SchedFinal.upd_same]; exact this
    · rw [submitPost_jobs_ne _ _ _ hjn]; exact hm2 j hj

/-! ### who owns the pid files: with distinct identifiers, a scheduler that found no live process adopts nothing -/

/-- the job set, the identifiers, and the launched jobs are kept. -/
structure SameIds (s s' : St) : Prop where
  n : s'.n = s.n
  ident : ∀ i, (s'.jobs i).ident = (s.jobs i).ident
  launched : ∀ i, (s.jobs i).launches = 1 → (s'.jobs i).launches = 1

theorem SameIds.trans {a b c : St} (h1 : SameIds a b) (h2 : SameIds b c) : SameIds a c :=
  ⟨h2.n.trans h1.n, fun i => (h2.ident i).trans (h1.ident i), fun i h => h2.launched i (h1.launched i h)⟩

theorem sameIds_edit {s : St} {j : Nat} {jb' : Job} (h : SameBut (s.jobs j) jb') : SameIds s (edit s j jb') := by
  have hall := edit_sameBut_all (s := s) (j := j) (jb' := jb') h
  exact ⟨rfl, fun i => (hall i).ident, fun i hl => by rw [(hall i).launches]; exact hl⟩

theorem resume_launches_late (fl : Flags) (s : St) (j : Nat)
    (h : (s.jobs j).pc = .lockExitRun ∨ (s.jobs j).pc = .codeWait ∨ (s.jobs j).pc = .doneHandler) :
    ((s.resume fl j).jobs j).launches = (s.jobs j).launches := by
  rcases h with hp | hp | hp
  · simp only [St.resume, hp]; simp [jobs_put]
  · have hb := releaseAll_bg j (s.jobs j).held s
    have e : s.resume fl j =
        (let s1 := s.releaseAll j (s.jobs j).held
         (s1.put j { (s1.jobs j) with state := if (s1.jobs j).code = 0 then .done else .error }).finish j) := by
      simp only [St.resume, hp]
    rw [e]
    simp only []
    have h1 := (view_fields (hb.view j)).2.1
    generalize s.releaseAll j (s.jobs j).held = s1 at *
    have hv := congrArg View.launches
      (view_finish (s1.put j { (s1.jobs j) with state := if (s1.jobs j).code = 0 then .done else .error }) j j)
    simp only [view, if_true, jobs_put] at hv
    rw [hv, h1]
  · simp only [St.resume, hp]
    split <;> simp [jobs_put]

/-- a callback of M2 keeps the job set, the identifiers and the launched jobs. -/
theorem sameIds_runCb (fl : Flags) (s : St) (cb : Cb) (rest : List Cb) (hI : Inv1 s) (hJ : JL s)
    (hr : s.ready = cb :: rest) : SameIds s (({ s with ready := rest } : St).runCb fl cb) := by
  have hF := runCb_frame fl ({ s with ready := rest } : St) cb
  obtain ⟨fn, _, _, _, fj, fc⟩ := hF
  refine ⟨fn, ?_, ?_⟩
  · intro i
    by_cases hi : i = target cb
    · subst hi; exact fc.1
    · rw [fj i hi]
  · intro i hl
    by_cases hi : i = target cb
    · subst hi
      have hearly : pcEarly (s.jobs (target cb)).pc = true → False := by
        intro he
        have := (hJ (target cb)).2.2.1 he
        omega
      by_cases hc : Restart.plainCb cb = true
      · have hv := (runCb_plain_frame fl cb hc ({ s with ready := rest } : St) (target cb)).1
        rw [(view_fields hv).2.1]; exact hl
      · cases cb with
        | start j => exact absurd (by rw [show target (Cb.start j) = j from rfl, head_start_pc hI hr]; rfl) hearly
        | wake j => exact absurd (by rw [show target (Cb.wake j) = j from rfl, head_wake_pc hI hr]; rfl) hearly
        | resume j =>
          have hk := head_resume_kind hI hr
          have hl' : (s.jobs j).launches = 1 := hl
          have hearly' : pcEarly (s.jobs j).pc = true → False := hearly
          show ((({ s with ready := rest } : St).resume fl j).jobs j).launches = 1
          rw [resume_launches_late fl _ j ?_]
          · exact hl'
          · show (s.jobs j).pc = .lockExitRun ∨ (s.jobs j).pc = .codeWait ∨ (s.jobs j).pc = .doneHandler
            revert hk hearly'
            cases (s.jobs j).pc <;> simp [pcKind, pcEarly]
        | register j => simp [Restart.plainCb] at hc
        | check j d => simp [Restart.plainCb] at hc
        | notifyCheck j d => simp [Restart.plainCb] at hc
        | waiterRun => simp [Restart.plainCb] at hc
    · rw [fj i hi]; exact hl

/-- every pid file that names a live process belongs to a job this scheduler has launched. -/
def PidOwn (s : St) (d : Disk) : Prop :=
  ∀ i p, (d.dir i).pid = some p → d.alive p = true →
    ∃ j, j < s.n ∧ (s.jobs j).ident = i ∧ (s.jobs j).launches = 1

/-- the submitted jobs have pairwise distinct identifiers. -/
def UniqId (s : St) : Prop := ∀ j j', j < s.n → j' < s.n → (s.jobs j).ident = (s.jobs j').ident → j = j'

theorem uniqId_same {s s' : St} (h : SameIds s s') (hu : UniqId s) : UniqId s' := by
  intro j j' hj hj' he
  rw [h.n] at hj hj'
  rw [h.ident, h.ident] at he
  exact hu j j' hj hj' he

theorem pidOwn_same {s s' : St} {d d' : Disk} (h : SameIds s s') (ho : PidOwn s d)
    (hd : ∀ i p, (d'.dir i).pid = some p → d'.alive p = true → (d.dir i).pid = some p ∧ d.alive p = true) :
    PidOwn s' d' := by
  intro i p hp ha
  obtain ⟨h1, h2⟩ := hd i p hp ha
  obtain ⟨j, hj, hi, hl⟩ := ho i p h1 h2
  exact ⟨j, by rw [h.n]; exact hj, by rw [h.ident]; exact hi, h.launched j hl⟩

/-- with distinct identifiers and owned pid files, the first segment of a job finds no live process. -/
theorem noAdopt_of_own {fl : Flags} {a : StA Disk} (hG : Good fl a.s) (ho : PidOwn a.s a.d) (hu : UniqId a.s)
    (j : Nat) (rest : List Cb) (hr : a.s.ready = .start j :: rest) :
    (world.look a.d j (a.s.jobs j)).adopt = false := by
  have hpc := head_start_pc (s := a.s) hG.e.c.a.ctl hr
  have hl0 : (a.s.jobs j).launches = 0 := (hG.e.c.a.loc j).2.2.1 (by rw [hpc]; rfl)
  have hjn : j < a.s.n := by
    apply Classical.byContradiction; intro hn
    have := hG.e.c.a.blank j (by omega)
    rw [hpc] at this; cases this
  show (match (a.d.dir (a.s.jobs j).ident).pid with | some p => a.d.alive p | none => false) = false
  cases hpid : (a.d.dir (a.s.jobs j).ident).pid with
  | none => rfl
  | some p =>
    show a.d.alive p = false
    cases hal : a.d.alive p with
    | false => rfl
    | true =>
      obtain ⟨j', hj', hi', hl'⟩ := ho _ p hpid hal
      have := hu j' j hj' hjn hi'
      subst this
      omega

theorem SameIds.refl (s : St) : SameIds s s := ⟨rfl, fun _ => rfl, fun _ h => h⟩

theorem alive_congr {d d' : Disk} (hn : d'.np = d.np) (hp : d'.procs = d.procs) (q : Nat) : d'.alive q = d.alive q := by
  unfold Disk.alive; rw [hn, hp]

theorem procStep_pid (d : Disk) (p : Nat) (rm : Bool) (i q : Nat)
    (h : ((d.procStep p rm).dir i).pid = some q) : (d.dir i).pid = some q := by
  unfold Disk.procStep at h
  split at h
  · simp only [] at h
    split at h
    · split at h
      · split at h <;> simp only [Disk.setDir, Disk.setProc, upd] at h <;> grind
      · exact h
    · split at h <;> simp only [Disk.setDir, Disk.setProc, upd] at h <;> grind
    · simp only [Disk.setDir, Disk.setProc, upd] at h; grind
    · exact h
  · exact h

theorem procStep_alive (d : Disk) (p : Nat) (rm : Bool) (q : Nat)
    (h : (d.procStep p rm).alive q = true) : d.alive q = true := by
  unfold Disk.procStep at h
  split at h
  · simp only [] at h
    split at h
    · split at h
      · split at h <;> simp only [Disk.alive, Disk.setDir, Disk.setProc, upd] at h ⊢ <;> grind
      · exact h
    · split at h <;> simp only [Disk.alive, Disk.setDir, Disk.setProc, upd] at h ⊢ <;> grind
    · simp only [Disk.alive, Disk.setDir, Disk.setProc, upd] at h ⊢; grind
    · exact h
  · exact h

theorem gate_pid (d : Disk) (kind : TK) (j : Nat) (jb : Job) (ad : Bool) (c : Option Nat) (d' : Disk)
    (h : world.gate d kind j jb ad = some (c, d')) (i : Nat) : (d'.dir i).pid = (d.dir i).pid := by
  cases kind <;> simp only [world] at h
  · split at h <;> simp at h
    obtain ⟨_, rfl⟩ := h
    simp only [Disk.setDir, upd]; split
    · rename_i e; subst e; rfl
    · rfl
  · simp at h; obtain ⟨_, rfl⟩ := h
    simp only [Disk.setDir, upd]; split
    · rename_i e; subst e; rfl
    · rfl
  · split at h
    · simp at h
    · split at h <;> simp at h <;> obtain ⟨_, rfl⟩ := h <;> rfl
  · simp at h; obtain ⟨_, rfl⟩ := h; rfl

theorem onLaunch_pid (d : Disk) (j : Nat) (jb : Job) (i : Nat) :
    ((world.onLaunch d j jb).dir i).pid = if i = jb.ident then some d.np else (d.dir i).pid := by
  simp only [world, Disk.spawn, Disk.setDir, upd]
  split <;> simp_all

theorem onLaunch_alive (d : Disk) (j : Nat) (jb : Job) (q : Nat) (hq : q < d.np)
    (h : (world.onLaunch d j jb).alive q = true) : d.alive q = true := by
  simp only [world, Disk.spawn, Disk.setDir, Disk.alive, upd] at h ⊢
  have : q ≠ d.np := by omega
  simp_all

/-- what a callback of the world scheduler does to the disk when nothing is adopted: nothing, or the launch of a job
    whose launch count has just grown. -/
theorem stepA_disk' (fl : Flags) (a : StA Disk) (cb : Cb) (rest : List Cb) (hr : a.s.ready = cb :: rest)
    (hna : ∀ j, cb = .start j → (world.look a.d j (a.s.jobs j)).adopt = false) :
    (stepA fl world a).d = a.d ∨
    ∃ j, (stepA fl world a).d = world.onLaunch a.d j ((stepA fl world a).s.jobs j) ∧
      (a.s.jobs j).launches < ((stepA fl world a).s.jobs j).launches := by
  rw [stepA_cons fl world a cb rest hr]
  cases cb with
  | start j =>
    have h0' : (world.look a.d j (({ a.s with ready := rest } : St).jobs j)).adopt = false := hna j rfl
    simp only [runCbA, h0', Bool.false_eq_true, if_false]; simp
  | resume j =>
    simp only [runCbA]
    split
    · rename_i hlt
      exact Or.inr ⟨j, rfl, hlt⟩
    · exact Or.inl rfl
  | _ => exact Or.inl rfl

theorem sameIds_deliverA (a : StA Disk) (k j : Nat) (c : Option Nat) (d' : Disk) :
    SameIds a.s (deliverA a k j c d').s := by
  cases c with
  | none => exact ⟨rfl, fun _ => rfl, fun _ h => h⟩
  | some cv =>
    refine ⟨rfl, ?_, ?_⟩
    · intro i
      show ((a.s.put j { (a.s.jobs j) with code := cv }).jobs i).ident = _
      rw [jobs_put]; split
      · rename_i e; subst e; rfl
      · rfl
    · intro i h
      show ((a.s.put j { (a.s.jobs j) with code := cv }).jobs i).launches = 1
      rw [jobs_put]; split
      · rename_i e; subst e; exact h
      · exact h

/-- one event of the second scheduler keeps the ownership of the pid files and the distinct identifiers. -/
theorem own_step {fl : Flags} {totals : List Nat} {done0 : Nat → Bool} {w : W}
    (hW : WReach fl totals done0 w) (hG : Good fl w.a.s) (ho : PidOwn w.a.s w.a.d) (hu : UniqId w.a.s)
    (e : WEv) (hen : WEnabled w e) (hna : NoAdoptAt w e) (hG' : Good fl (w.apply fl e).a.s) :
    PidOwn (w.apply fl e).a.s (w.apply fl e).a.d ∧ UniqId (w.apply fl e).a.s := by
  cases e with
  | crash => exact absurd hen id
  | crashAfterSpawn j => exact absurd hen id
  | crashInPrepare j st => exact absurd hen id
  | proc p rm =>
    exact ⟨pidOwn_same (SameIds.refl _) ho (fun i q h1 h2 => ⟨procStep_pid _ _ _ _ _ h1, procStep_alive _ _ _ _ h2⟩), hu⟩
  | sched ev =>
    cases ev with
    | submit _ _ _ _ => exact absurd hen id
    | wait => exact absurd hen id
    | step =>
      have hne : w.a.s.ready ≠ [] := hen
      cases hr : w.a.s.ready with
      | nil => exact absurd hr hne
      | cons cb rest =>
        have hna' : ∀ j, cb = .start j → (world.look w.a.d j (w.a.s.jobs j)).adopt = false := by
          intro j hj; subst hj; exact hna j rest hr
        have hs := stepA_noAdopt fl w.a cb rest hr hna'
        have hd := stepA_disk' fl w.a cb rest hr hna'
        have key : ∀ se : St, Good fl se → SameIds w.a.s se → se.ready = w.a.s.ready →
            (stepA fl world w.a).s = se.apply fl .step → SameIds w.a.s (stepA fl world w.a).s := by
          intro se hGe hsi hre hse
          rw [hse]
          have hre' : se.ready = cb :: rest := by rw [hre, hr]
          have : se.apply fl .step = ({ se with ready := rest } : St).runCb fl cb := by
            simp only [St.apply]; unfold St.step; simp only [hre']
          rw [this]
          exact hsi.trans (sameIds_runCb fl se cb rest hGe.e.c.a.ctl hGe.e.c.a.loc hre')
        have hsame : SameIds w.a.s (stepA fl world w.a).s := by
          cases cb with
          | start j =>
            have hpc := head_start_pc (s := w.a.s) hG.e.c.a.ctl hr
            have hun := hG.e.c.f j (Or.inr hpc)
            have hsb : SameBut (w.a.s.jobs j) (markerRec w.a j) := ⟨rfl, rfl, rfl, rfl, rfl, rfl, rfl, rfl, rfl, rfl⟩
            have hL := jlocal_marker_edit (hG.e.c.a.loc j) hpc hun (world.look w.a.d j (w.a.s.jobs j)).marker
            exact key _ (good_edit hG hsb hL) (sameIds_edit hsb) rfl hs
          | resume j => exact key _ hG (SameIds.refl _) rfl hs
          | register j => exact key _ hG (SameIds.refl _) rfl hs
          | wake j => exact key _ hG (SameIds.refl _) rfl hs
          | check j d => exact key _ hG (SameIds.refl _) rfl hs
          | notifyCheck j d => exact key _ hG (SameIds.refl _) rfl hs
          | waiterRun => exact key _ hG (SameIds.refl _) rfl hs
        refine ⟨?_, uniqId_same hsame hu⟩
        show PidOwn (stepA fl world w.a).s (stepA fl world w.a).d
        rcases hd with e3 | ⟨j, e3, hlt⟩
        · rw [e3]; exact pidOwn_same hsame ho (fun i q h1 h2 => ⟨h1, h2⟩)
        · rw [e3]
          have hG2 : Good fl (stepA fl world w.a).s := hG'
          generalize (stepA fl world w.a).s = s' at *
          intro i q hp ha
          rw [onLaunch_pid] at hp
          by_cases hi : i = (s'.jobs j).ident
          · have hl1 : (s'.jobs j).launches = 1 := by
              have := (hG2.e.c.a.loc j).2.2.2.2.1
              omega
            have hjn : j < s'.n := by
              apply Classical.byContradiction; intro hn
              have hb := hG2.e.c.a.blank j (by omega)
              have := (hG2.e.c.a.loc j).2.2.1 (by rw [hb]; rfl)
              omega
            exact ⟨j, hjn, hi.symm, hl1⟩
          · rw [if_neg hi] at hp
            have hq := ((wreach_inv hW).disk.pid i q hp).1
            have ha' := onLaunch_alive _ _ _ _ hq ha
            obtain ⟨j0, h1, h2, h3⟩ := ho i q hp ha'
            exact ⟨j0, by rw [hsame.n]; exact h1, by rw [hsame.ident]; exact h2, hsame.launched j0 h3⟩
    | deliver k =>
      obtain ⟨kind, j, c, d', hk, hgate⟩ := hen
      have hgp := gate_procs _ _ _ _ _ _ _ hgate
      have e0 : (w.apply fl (.sched (.deliver k))).a = deliverA w.a k j c d' := by
        show applyA fl world w.a (.deliver k) = _
        simp only [applyA, hk, hgate]
      rw [e0]
      have hsame := sameIds_deliverA w.a k j c d'
      refine ⟨pidOwn_same hsame ho ?_, uniqId_same hsame hu⟩
      intro i q h1 h2
      have e2 : (deliverA w.a k j c d').d = d' := rfl
      rw [e2] at h1 h2
      rw [gate_pid _ _ _ _ _ _ _ hgate] at h1
      rw [alive_congr hgp.2 hgp.1] at h2
      exact ⟨h1, h2⟩

/-! ### runs of the second scheduler, without the hypothesis on adoption -/

/-- a run of enabled world events: callbacks, completions of helper threads the world lets complete, process moves. -/
def RunE (fl : Flags) : W → List WEv → Prop
  | _, [] => True
  | w, e :: es => WEnabled w e ∧ RunE fl (w.apply fl e) es

theorem noAdoptAt_of_own {fl : Flags} {w : W} (hG : Good fl w.a.s) (ho : PidOwn w.a.s w.a.d) (hu : UniqId w.a.s)
    (e : WEv) : NoAdoptAt w e := by
  cases e with
  | sched ev =>
    cases ev with
    | step => intro j rest hr; exact noAdopt_of_own hG ho hu j rest hr
    | _ => trivial
  | _ => trivial

theorem runE_bound {fl : Flags} (hg : fl.readyGuarded = true) (hf : fl.resubmitRegisters = true)
    (ha : fl.abortRechecks = true) (hrel : fl.abortReleases = true) {totals : List Nat} {done0 : Nat → Bool}
    (evs : List WEv) : ∀ w, WReach fl totals done0 w → Good fl w.a.s → PidOwn w.a.s w.a.d → UniqId w.a.s →
      RunE fl w evs →
      (WReach fl totals done0 (W.run fl w evs) ∧ Good fl (W.run fl w evs).a.s ∧
        PidOwn (W.run fl w evs).a.s (W.run fl w evs).a.d ∧ UniqId (W.run fl w evs).a.s) ∧
      RunW fl w evs ∧ evs.length + wmu (W.run fl w evs) ≤ wmu w := by
  induction evs with
  | nil => intro w hW hG ho hu _; exact ⟨⟨hW, hG, ho, hu⟩, trivial, by simp [W.run]⟩
  | cons e es ih =>
    intro w hW hG ho hu hrun
    obtain ⟨hen, hrest⟩ := hrun
    have hna := noAdoptAt_of_own hG ho hu e
    obtain ⟨hG', hlt⟩ := wstep hg hf ha hrel hW hG e hen hna
    obtain ⟨ho', hu'⟩ := own_step hW hG ho hu e hen hna hG'
    obtain ⟨r1, r2, r3⟩ := ih (w.apply fl e) (hW.apply e) hG' ho' hu' hrest
    refine ⟨r1, ⟨hen, hna, r2⟩, ?_⟩
    simp only [W.run, List.length_cons]
    omega

/-! ### the re-submission -/

/-- every invariant survives a well-formed event of M2 (submissions included). -/
theorem good_apply' {fl : Flags} (hg : fl.readyGuarded = true) (hf : fl.resubmitRegisters = true)
    (ha : fl.abortRechecks = true) {s : St} (ev : Ev) (hok : EvOK s ev) (hnd : EvNoDouble ev) (h : Good fl s) :
    Good fl (s.apply fl ev) := by
  obtain ⟨N, hi⟩ := h.cap
  exact ⟨apply_invE fl hg ha s ev hok h.e, apply_invR fl hg s ev hok h.e.c h.r,
    noDoubleTok_apply fl hg s ev h.e.c.a hnd h.nd, apply_invB fl hg hf s ev h.e.c.a h.b,
    XpmVerif.Sched.apply_Inv (ar := false) (fun e => by cases e) ev hi⟩

theorem step_ident (fl : Flags) (s : St) (i : Nat) : ((s.step fl).jobs i).ident = (s.jobs i).ident := by
  unfold St.step
  split
  · rfl
  · rename_i cb rest hr
    obtain ⟨_, _, _, _, fj, fc⟩ := runCb_frame fl ({ s with ready := rest } : St) cb
    by_cases hi : i = target cb
    · subst hi; exact fc.1
    · rw [fj i hi]

theorem steps_ident (fl : Flags) (k : Nat) (s : St) (i : Nat) : ((St.steps fl s k).jobs i).ident = (s.jobs i).ident := by
  have := steps_ind (fun s' => (s'.jobs i).ident = (s.jobs i).ident) fl
    (fun s' h => by rw [step_ident]; exact h) k s rfl
  exact this

theorem submitPost_ident (s : St) (j i : Nat) : ((SchedFinal.submitPost s j).jobs i).ident = (s.jobs i).ident := by
  by_cases hi : i = j
  · subst hi
    unfold SchedFinal.submitPost
    split
    · rfl
    · simp only [put_jobs, SchedFinal.upd_same]
  · rw [submitPost_jobs_ne _ _ _ hi]

/-- identifiers after a submission. -/
theorem apply_submit_ids (fl : Flags) (s : St) (ident : Nat) (deps : List Origin) (code : Nat) (marker : Bool) :
    (s.apply fl (.submit ident deps code marker)).n = s.n + 1 ∧
    ((s.apply fl (.submit ident deps code marker)).jobs s.n).ident = ident ∧
    ∀ i, i ≠ s.n → ((s.apply fl (.submit ident deps code marker)).jobs i).ident = (s.jobs i).ident := by
  rw [apply_submit]
  refine ⟨by rw [submitPost_n, SchedFinal.steps_n]; rfl, ?_, ?_⟩
  · rw [submitPost_ident, steps_ident]
    simp [SchedFinal.submitPre, SchedFinal.newJob]
  · intro i hi
    rw [submitPost_ident, steps_ident, submitPre_jobs_ne _ _ _ _ _ _ hi]

/-- a submission of the re-submission phase: identifier, dependencies, outcome of the body. -/
structure Sub where
  ident : Nat
  deps : List Origin
  code : Nat

/-- the submission event: it carries the marker flag the job directory shows (the world overwrites the flag with the
    same value when the first segment runs). -/
def Sub.ev (d0 : Disk) (x : Sub) : Ev := .submit x.ident x.deps x.code (d0.dir x.ident).done

/-- the submissions are well formed (dependencies on earlier submissions and existing tokens, as `EvOK`), no job asks
    twice for the same token, and the identifiers are new. -/
def SubsOK (fl : Flags) (d0 : Disk) : St → List Sub → Prop
  | _, [] => True
  | s, x :: xs => EvOK s (x.ev d0) ∧ EvNoDouble (x.ev d0) ∧ (∀ j, j < s.n → (s.jobs j).ident ≠ x.ident) ∧
      SubsOK fl d0 (s.apply fl (x.ev d0)) xs

theorem resub {fl : Flags} (P : St → Prop)
    (hstep : ∀ s ev, EvOK s ev → EvNoDouble ev → P s → P (s.apply fl ev))
    (d0 : Disk) (hnl : NoLivePid d0) (xs : List Sub) :
    ∀ (w : W), Phase d0 w.a → P w.a.s → UniqId w.a.s → SubsOK fl d0 w.a.s xs →
      Phase d0 (W.run fl w (xs.map (fun x => WEv.sched (x.ev d0)))).a ∧
      P (W.run fl w (xs.map (fun x => WEv.sched (x.ev d0)))).a.s ∧
      UniqId (W.run fl w (xs.map (fun x => WEv.sched (x.ev d0)))).a.s := by
  induction xs with
  | nil => intro w hP hG hu _; exact ⟨hP, hG, hu⟩
  | cons x xs ih =>
    intro w hP hG hu hok
    obtain ⟨h1, h2, h3, h4⟩ := hok
    obtain ⟨e1, hP'⟩ := phase_submit fl d0 hnl w.a hP x.ident x.deps x.code (d0.dir x.ident).done rfl
    have es : (w.apply fl (.sched (x.ev d0))).a.s = w.a.s.apply fl (x.ev d0) := by
      show (applyA fl world w.a (x.ev d0)).s = _
      unfold Sub.ev; rw [e1]
    have hG' : P (w.apply fl (.sched (x.ev d0))).a.s := by rw [es]; exact hstep _ _ h1 h2 hG
    have hu' : UniqId (w.apply fl (.sched (x.ev d0))).a.s := by
      rw [es]
      obtain ⟨i1, i2, i3⟩ := apply_submit_ids fl w.a.s x.ident x.deps x.code (d0.dir x.ident).done
      intro j j' hj hj' he
      unfold Sub.ev at hj hj' he
      rw [i1] at hj hj'
      by_cases c1 : j = w.a.s.n <;> by_cases c2 : j' = w.a.s.n
      · omega
      · subst c1
        rw [i2, i3 j' c2] at he
        exact absurd he.symm (h3 j' (by omega))
      · subst c2
        rw [i2, i3 j c1] at he
        exact absurd he (h3 j (by omega))
      · rw [i3 j c1, i3 j' c2] at he
        exact hu j j' (by omega) (by omega) he
    simp only [List.map_cons, W.run]
    exact ih _ hP' hG' hu' (by rw [es]; exact h4)

/-! ### the second run -/

theorem wreach_run {fl : Flags} {totals : List Nat} {done0 : Nat → Bool} (evs : List WEv) :
    ∀ w, WReach fl totals done0 w → WReach fl totals done0 (W.run fl w evs) := by
  induction evs with
  | nil => intro w h; exact h
  | cons e es ih => intro w h; exact ih _ (h.apply e)

/-- the world after the crash of the scheduler, its restart, and the re-submission `xs` to the new scheduler. -/
def resubmitted (fl : Flags) (w : W) (xs : List Sub) : W :=
  W.run fl w.restart (xs.map (fun x => WEv.sched (x.ev w.restart.a.d)))

theorem good_init {fl : Flags} (hg : fl.readyGuarded = true) (hf : fl.resubmitRegisters = true)
    (ha : fl.abortRechecks = true) (totals : List Nat) : Good fl (St.init totals) :=
  good_of_reachable hg hf ha (totals := totals) .init (fun j i i' t c c' h1 => by
    have : (depAt ((St.init totals).jobs j) i).origin = .job 0 := rfl
    rw [this] at h1; cases h1)

/-- after a crash at any point, if no pid file names a live process, the restarted scheduler that has taken
    well-formed submissions with distinct identifiers is in a state that satisfies every invariant of M2, owns every
    live pid file (there is none yet), and the disk is the one it found. -/
theorem resubmitted_sound {fl : Flags} (hg : fl.readyGuarded = true) (hf : fl.resubmitRegisters = true)
    (ha : fl.abortRechecks = true) {totals : List Nat} {done0 : Nat → Bool} {w : W}
    (hW : WReach fl totals done0 w) (hnl : NoLivePid w.restart.a.d) (xs : List Sub)
    (hok : SubsOK fl w.restart.a.d (St.init w.totals) xs) :
    WReach fl totals done0 (resubmitted fl w xs) ∧ Good fl (resubmitted fl w xs).a.s ∧
    PidOwn (resubmitted fl w xs).a.s (resubmitted fl w xs).a.d ∧ UniqId (resubmitted fl w xs).a.s ∧
    (resubmitted fl w xs).a.d = w.restart.a.d := by
  have hW' : WReach fl totals done0 w.restart := hW.apply .crash
  have hP : Phase w.restart.a.d w.restart.a :=
    ⟨rfl, rfl, Restart.init_invB _ _, init_inv1 _, fun j => by simp [Restart.cRes, W.restart, St.init],
     fun j hj => by exact absurd hj (Nat.not_lt_zero j)⟩
  have hu : UniqId w.restart.a.s := fun j j' hj => by exact absurd hj (Nat.not_lt_zero j)
  obtain ⟨p1, p2, p3⟩ := resub (Good fl) (fun s ev h1 h2 h => good_apply' hg hf ha ev h1 h2 h) w.restart.a.d hnl xs
    w.restart hP (good_init hg hf ha _) hu hok
  refine ⟨wreach_run _ _ hW', p2, ?_, p3, p1.disk⟩
  intro i p hp hal
  have hd : (resubmitted fl w xs).a.d = w.restart.a.d := p1.disk
  rw [hd] at hp hal
  rw [hnl i p hp] at hal
  cases hal

/-- **C11, second run, partial**: every run of the second scheduler (callbacks, helper-thread completions the world
    allows, moves of the job processes — old and new ones) has at most `wmu` events, adopts nothing, and keeps every
    invariant of M2. -/
theorem restart_run_finite_partial {fl : Flags} (hg : fl.readyGuarded = true) (hf : fl.resubmitRegisters = true)
    (ha : fl.abortRechecks = true) (hrel : fl.abortReleases = true) {totals : List Nat} {done0 : Nat → Bool} {w : W}
    (hW : WReach fl totals done0 w) (hnl : NoLivePid w.restart.a.d) (xs : List Sub)
    (hok : SubsOK fl w.restart.a.d (St.init w.totals) xs) (evs : List WEv)
    (hrun : RunE fl (resubmitted fl w xs) evs) :
    evs.length ≤ wmu (resubmitted fl w xs) ∧ RunW fl (resubmitted fl w xs) evs ∧
    Good fl (W.run fl (resubmitted fl w xs) evs).a.s := by
  obtain ⟨s1, s2, s3, s4, _⟩ := resubmitted_sound hg hf ha hW hnl xs hok
  obtain ⟨⟨_, r2, _, _⟩, r5, r6⟩ := runE_bound hg hf ha hrel evs _ s1 s2 s3 s4 hrun
  exact ⟨by omega, r5, r2⟩

/-! ### Boolean checkers (for concrete instances of the hypotheses) -/

/-- Boolean form of `NoLivePid`, over the processes: no live process is named by the pid file of its job. -/
def noLivePidB (d : Disk) : Bool :=
  (List.range d.np).all (fun p => !(d.alive p) || decide ((d.dir (d.procs p).ident).pid ≠ some p))

theorem noLivePid_of_b {done0 : Nat → Bool} {d : Disk} (hD : DiskInv done0 d) (h : noLivePidB d = true) :
    NoLivePid d := by
  intro i p hp
  obtain ⟨hlt, hid⟩ := hD.pid i p hp
  cases hal : d.alive p with
  | false => rfl
  | true =>
    have := List.all_eq_true.mp h p (List.mem_range.mpr hlt)
    simp only [hal, Bool.not_true, Bool.false_or, decide_eq_true_eq] at this
    rw [hid] at this
    exact absurd hp this

def wEnabledB (w : W) : WEv → Bool
  | .sched .step => !w.a.s.ready.isEmpty
  | .sched (.deliver k) =>
    (match w.a.s.threads[k]? with
     | some (kind, j) => (world.gate w.a.d kind j (w.a.s.jobs j) (w.a.adopted j)).isSome
     | none => false)
  | .proc p _ => decide (p < w.a.d.np) &&
      (decide ((w.a.d.procs p).ph = .body) || decide ((w.a.d.procs p).ph = .exiting) ||
       (decide ((w.a.d.procs p).ph = .waitLock) && decide ((w.a.d.dir (w.a.d.procs p).ident).lock = .free)))
  | _ => false

theorem wEnabledB_sound (w : W) (e : WEv) (h : wEnabledB w e = true) : WEnabled w e := by
  cases e with
  | sched ev =>
    cases ev with
    | step =>
      simp only [wEnabledB, Bool.not_eq_true', List.isEmpty_eq_false_iff] at h
      exact h
    | deliver k =>
      simp only [wEnabledB] at h
      split at h
      · rename_i kind j hk
        cases hg : world.gate w.a.d kind j (w.a.s.jobs j) (w.a.adopted j) with
        | none => rw [hg] at h; cases h
        | some r => exact ⟨kind, j, r.1, r.2, hk, hg⟩
      · cases h
    | submit _ _ _ _ => cases h
    | wait => cases h
  | proc p rm =>
    simp only [wEnabledB, Bool.and_eq_true, Bool.or_eq_true, decide_eq_true_eq] at h
    obtain ⟨h1, h2⟩ := h
    refine ⟨h1, ?_⟩
    rcases h2 with (h2 | h2) | h2
    · exact Or.inl h2
    · exact Or.inr (Or.inl h2)
    · exact Or.inr (Or.inr h2)
  | crash => cases h
  | crashAfterSpawn j => cases h
  | crashInPrepare j st => cases h

def runEb (fl : Flags) : W → List WEv → Bool
  | _, [] => true
  | w, e :: es => wEnabledB w e && runEb fl (w.apply fl e) es

theorem runE_of_b (fl : Flags) (evs : List WEv) : ∀ w, runEb fl w evs = true → RunE fl w evs := by
  induction evs with
  | nil => intro _ _; trivial
  | cons e es ih =>
    intro w h
    simp only [runEb, Bool.and_eq_true] at h
    exact ⟨wEnabledB_sound w e h.1, ih _ h.2⟩

/-! ### the invariants behind deadlock freedom (`quiescent_final`), through edits and events -/

/-- `Good` plus what `SchedFinal.quiescent_final` uses: no lost notification, scheduled origins. -/
structure Good2 (fl : Flags) (s : St) : Prop where
  g : Good fl s
  q : InvQF s
  h : InvH s

theorem good2_edit {fl : Flags} {s : St} {j : Nat} {jb' : Job} (hG : Good2 fl s) (h : SameBut (s.jobs j) jb')
    (hL : JLocal jb') : Good2 fl (edit s j jb') := by
  have hall := edit_sameBut_all h
  have hd : ∀ i k, depAt ((edit s j jb').jobs i) k = depAt (s.jobs i) k := fun i k => depAt_sameBut (hall i) k
  refine ⟨good_edit hG.g h hL, ?_, ⟨?_, ?_, ?_⟩⟩
  · exact invQ_transfer (s := s) (s' := edit s j jb')
      (fun i k hs => ⟨by have := hs.1; unfold Started at this ⊢; rw [(hall i).state] at this; exact this,
        by have := hs.2.1; rw [(hall i).deps] at this; exact this, trivial⟩)
      (fun i k _ => hd i k) (fun o r hf => by rw [(hall o).pc] at hf; exact hf) (fun _ => Int.le_refl _)
      (fun _ _ hp => hp) (fun _ _ hp => hp) (fun _ _ hp => hp) hG.q
  · intro p hp; rw [(hall p.2).pc]; exact hG.h.reg p hp
  · intro d hd'; rw [(hall _).pc]; exact hG.h.oe.effSch d hd'
  · intro i k o hk ho; rw [(hall i).deps] at hk; rw [hd] at ho; rw [(hall o).pc]; exact hG.h.oe.origSch i k o hk ho

theorem tokFit_edit {s : St} {j : Nat} {jb' : Job} (hT : TokFit s) (h : SameBut (s.jobs j) jb') : TokFit (edit s j jb') := by
  have hall := edit_sameBut_all h
  intro i k t c hk ho
  rw [(hall i).deps] at hk; rw [depAt_sameBut (hall i) k] at ho; exact hT i k t c hk ho

theorem good2_apply {fl : Flags} (hg : fl.readyGuarded = true) (hf : fl.resubmitRegisters = true)
    (ha : fl.abortRechecks = true) {s : St} (ev : Ev) (hok : EvOK s ev) (hnd : EvNoDouble ev)
    (h : Good2 fl s) : Good2 fl (s.apply fl ev) :=
  ⟨good_apply' hg hf ha ev hok hnd h.g, (apply_invG fl hg ha s ev hok ⟨h.g.e, h.q⟩).nolost,
   apply_invH fl hg hf s ev hok h.g.e.c.a h.g.b h.g.e.c.st h.h⟩

/-- `SchedFinal.quiescent_final` from the invariants. -/
theorem quiescent_final' {fl : Flags} {s : St} (hG2 : Good2 fl s) (hfit : TokFit s) (hr : s.ready = []) (ht : s.threads = []) :
    AllFinal s ∧ (∀ t, s.avail t = s.total t) ∧ ∀ j, (s.jobs j).held = [] := by
  have hG : InvG fl s := ⟨hG2.g.e, hG2.q⟩
  have hH := hG2.h
  obtain ⟨N, hi⟩ := hG2.g.cap
  have hfull : ∀ t, s.avail t = s.total t := fun t => (hi.idle_full hr ht t).1
  refine ⟨?_, hfull, (hi.idle_full hr ht 0).2⟩
  have hnopend : ∀ j i, ¬ Pend s j i := by
    intro j i hp; unfold Pend at hp; rw [hr] at hp; simp at hp
  have key : ∀ j, pcKind (s.jobs j).pc = 0 := by
    intro j
    induction j using Nat.strongRecOn with
    | _ j ih =>
      apply Classical.byContradiction
      intro hk
      obtain ⟨hpc, hw, i, hi, hcur⟩ := quiescent_alive_sleeps hG hr ht j hk
      have hst : Started s j := by unfold Started; rw [hw]; intro e; cases e
      have hsc : InScope s (fun _ _ => True) j i := ⟨hst, hi, trivial⟩
      cases ho : (depAt (s.jobs j) i).origin with
      | tok t c =>
        rcases hG.nolost.tokWait j i t c hsc (by simp) ho hcur with hlt | hp
        · have := hfit j i t c hi ho
          rw [hfull t] at hlt
          omega
        · exact hnopend j i hp
      | job o =>
        have holt := hG.e.c.st.acyclic j i o hi ho
        have hko := ih o holt
        rcases pcKind_zero.1 hko with hn | ⟨r, hfin⟩
        · exact hH.oe.origSch j i o hi ho hn
        · exact hnopend j i (hG.nolost.jobWait j i o r hsc (by simp) ho hcur hfin)
  intro j _
  exact pcKind_zero.1 (key j)

/-- the scheduler side of an enabled, non-adopting world event: nothing (process move), or an enabled event of M2 on
    the state itself or on the state with one record edited in `marker` / `code`. -/
theorem wshape {fl : Flags} {totals : List Nat} {done0 : Nat → Bool} {w : W}
    (hW : WReach fl totals done0 w) (hG : Good fl w.a.s) (e : WEv) (hen : WEnabled w e) (hna : NoAdoptAt w e) :
    (w.apply fl e).a.s = w.a.s ∨
    ∃ se ev, Enabled se ev ∧ (w.apply fl e).a.s = se.apply fl ev ∧
      (se = w.a.s ∨ ∃ j jb', se = edit w.a.s j jb' ∧ SameBut (w.a.s.jobs j) jb' ∧ JLocal jb') := by
  cases e with
  | crash => exact absurd hen id
  | crashAfterSpawn j => exact absurd hen id
  | crashInPrepare j st => exact absurd hen id
  | proc p rm => exact Or.inl rfl
  | sched ev =>
    right
    cases ev with
    | submit _ _ _ _ => exact absurd hen id
    | wait => exact absurd hen id
    | step =>
      have hne : w.a.s.ready ≠ [] := hen
      cases hr : w.a.s.ready with
      | nil => exact absurd hr hne
      | cons cb rest =>
        have hna' : ∀ j, cb = .start j → (world.look w.a.d j (w.a.s.jobs j)).adopt = false := by
          intro j hj; subst hj; exact hna j rest hr
        have hs := stepA_noAdopt fl w.a cb rest hr hna'
        have plain : (stepA fl world w.a).s = w.a.s.apply fl .step →
            ∃ se ev, Enabled se ev ∧ (w.apply fl (.sched .step)).a.s = se.apply fl ev ∧
              (se = w.a.s ∨ ∃ j jb', se = edit w.a.s j jb' ∧ SameBut (w.a.s.jobs j) jb' ∧ JLocal jb') :=
          fun h => ⟨w.a.s, .step, hne, h, Or.inl rfl⟩
        cases cb with
        | start j =>
          have hpc := head_start_pc (s := w.a.s) hG.e.c.a.ctl hr
          have hun := hG.e.c.f j (Or.inr hpc)
          have hsb : SameBut (w.a.s.jobs j) (markerRec w.a j) := ⟨rfl, rfl, rfl, rfl, rfl, rfl, rfl, rfl, rfl, rfl⟩
          have hL := jlocal_marker_edit (hG.e.c.a.loc j) hpc hun (world.look w.a.d j (w.a.s.jobs j)).marker
          exact ⟨edit w.a.s j (markerRec w.a j), .step, hne, hs, Or.inr ⟨j, _, rfl, hsb, hL⟩⟩
        | resume j => exact plain hs
        | register j => exact plain hs
        | wake j => exact plain hs
        | check j d => exact plain hs
        | notifyCheck j d => exact plain hs
        | waiterRun => exact plain hs
    | deliver k =>
      obtain ⟨kind, j, c, d', hk, hgate⟩ := hen
      have hkl : k < w.a.s.threads.length := by
        apply Classical.byContradiction; intro hn
        rw [List.getElem?_eq_none (by omega)] at hk; cases hk
      have e0 : (w.apply fl (.sched (.deliver k))).a = deliverA w.a k j c d' := by
        show applyA fl world w.a (.deliver k) = _
        simp only [applyA, hk, hgate]
      rw [e0]
      cases c with
      | none =>
        refine ⟨w.a.s, .deliver k, hkl, ?_, Or.inl rfl⟩
        simp only [deliverA, setCode, St.apply, hk]
      | some cv =>
        have hkind := gate_code_kind _ _ _ _ _ _ _ hgate
        subst hkind
        have hkm : (TK.code, j) ∈ w.a.s.threads := List.mem_of_getElem? hk
        have hpc : (w.a.s.jobs j).pc = .codeWait := by
          have := (wreach_inv hW).sched.1.kind _ hkm
          simp only at this
          revert this
          cases (w.a.s.jobs j).pc <;> simp [kindOk]
        have hrun := (hG.e.c.d.recs j).runRunning (by rw [hpc]; rfl)
        have hsb : SameBut (w.a.s.jobs j) { (w.a.s.jobs j) with code := cv } := ⟨rfl, rfl, rfl, rfl, rfl, rfl, rfl, rfl, rfl, rfl⟩
        have hL := jlocal_code_edit (hG.e.c.a.loc j) hpc hrun cv
        refine ⟨edit w.a.s j { (w.a.s.jobs j) with code := cv }, .deliver k, hkl, ?_, Or.inr ⟨j, _, rfl, hsb, hL⟩⟩
        simp only [deliverA, setCode, put_nil_eq, St.apply, edit_threads, hk]

theorem good2_wstep {fl : Flags} (hg : fl.readyGuarded = true) (hf : fl.resubmitRegisters = true)
    (ha : fl.abortRechecks = true) {totals : List Nat} {done0 : Nat → Bool} {w : W}
    (hW : WReach fl totals done0 w) (hG : Good2 fl w.a.s) (e : WEv) (hen : WEnabled w e) (hna : NoAdoptAt w e) :
    Good2 fl (w.apply fl e).a.s := by
  rcases wshape hW hG.g e hen hna with h | ⟨se, ev, hev, hs, hse⟩
  · rw [h]; exact hG
  · rw [hs]
    have hG' : Good2 fl se := by
      rcases hse with rfl | ⟨j, jb', rfl, hsb, hL⟩
      · exact hG
      · exact good2_edit hG hsb hL
    exact good2_apply hg hf ha ev (evOK_enabled se ev hev)
      (by cases ev <;> first | trivial | exact absurd hev id) hG'

theorem tokFit_wstep {fl : Flags} {totals : List Nat} {done0 : Nat → Bool} {w : W}
    (hW : WReach fl totals done0 w) (hG : Good fl w.a.s) (hT : TokFit w.a.s) (e : WEv) (hen : WEnabled w e)
    (hna : NoAdoptAt w e) : TokFit (w.apply fl e).a.s := by
  rcases wshape hW hG e hen hna with h | ⟨se, ev, hev, hs, hse⟩
  · rw [h]; exact hT
  · rw [hs]
    have hT' : TokFit se := by
      rcases hse with rfl | ⟨j, jb', rfl, hsb, _⟩
      · exact hT
      · exact tokFit_edit hT hsb
    exact tokFit_enabled fl se ev hev hT'

theorem sameIds_wstep {fl : Flags} {totals : List Nat} {done0 : Nat → Bool} {w : W}
    (hW : WReach fl totals done0 w) (hG : Good fl w.a.s) (e : WEv) (hen : WEnabled w e)
    (hna : NoAdoptAt w e) : SameIds w.a.s (w.apply fl e).a.s := by
  rcases wshape hW hG e hen hna with h | ⟨se, ev, hev, hs, hse⟩
  · rw [h]; exact SameIds.refl _
  · rw [hs]
    have h1 : SameIds w.a.s se ∧ Good fl se := by
      rcases hse with rfl | ⟨j, jb', rfl, hsb, hL⟩
      · exact ⟨SameIds.refl _, hG⟩
      · exact ⟨sameIds_edit hsb, good_edit hG hsb hL⟩
    refine h1.1.trans ?_
    cases ev with
    | submit _ _ _ _ => exact absurd hev id
    | wait => exact absurd hev id
    | deliver k => simp only [St.apply]; split <;> exact ⟨rfl, fun _ => rfl, fun _ h => h⟩
    | step =>
      have hne : se.ready ≠ [] := hev
      cases hr : se.ready with
      | nil => exact absurd hr hne
      | cons cb rest =>
        have : se.apply fl .step = ({ se with ready := rest } : St).runCb fl cb := by
          simp only [St.apply]; unfold St.step; simp only [hr]
        rw [this]
        exact sameIds_runCb fl se cb rest h1.2.e.c.a.ctl h1.2.e.c.a.loc hr

/-! ### who holds the run locks taken by the scheduler -/

/-- job `j` holds the run lock of its directory: its `lockEnter` thread has completed and its `lockExit` thread has not. -/
def Holds (s : St) (j : Nat) : Prop :=
  ((s.jobs j).pc = .lockEnter ∧ Restart.cThr s j = 0) ∨
  (((s.jobs j).pc = .lockExitAbort ∨ (s.jobs j).pc = .lockExitRun) ∧ Restart.cThr s j = 1)

/-- a run lock held by the scheduler is held by one of its jobs. -/
def LockLink (s : St) (d : Disk) : Prop :=
  ∀ i, (d.dir i).lock = .sched → ∃ j, j < s.n ∧ (s.jobs j).ident = i ∧ Holds s j

theorem holds_of_view {s s' : St} {i : Nat} (hv : view s' i = view s i) (h : Holds s i) : Holds s' i := by
  simp only [view, View.mk.injEq] at hv
  obtain ⟨v1, _, _, v4, _⟩ := hv
  unfold Holds at h ⊢
  rw [v1, v4]; exact h

theorem procStep_lock (d : Disk) (p : Nat) (rm : Bool) (i : Nat)
    (h : ((d.procStep p rm).dir i).lock = .sched) : (d.dir i).lock = .sched := by
  unfold Disk.procStep at h
  split at h
  · simp only [] at h
    split at h
    · split at h
      · split at h <;> simp only [Disk.setDir, Disk.setProc, upd] at h <;> grind
      · exact h
    · split at h <;> simp only [Disk.setDir, Disk.setProc, upd] at h <;> grind
    · simp only [Disk.setDir, Disk.setProc, upd] at h; grind
    · exact h
  · exact h

theorem onLaunch_lock (d : Disk) (j : Nat) (jb : Job) (i : Nat) :
    ((world.onLaunch d j jb).dir i).lock = (d.dir i).lock := by
  simp only [world, Disk.spawn, Disk.setDir, upd]
  split <;> simp_all

theorem gate_lock (d : Disk) (kind : TK) (j : Nat) (jb : Job) (ad : Bool) (c : Option Nat) (d' : Disk)
    (h : world.gate d kind j jb ad = some (c, d')) (i : Nat) (hl : (d'.dir i).lock = .sched) :
    (kind = .lockEnter ∧ i = jb.ident) ∨ ((d.dir i).lock = .sched ∧ ¬ (kind = .lockExit ∧ i = jb.ident)) := by
  cases kind <;> simp only [world] at h
  · split at h <;> simp at h
    obtain ⟨_, rfl⟩ := h
    by_cases hi : i = jb.ident
    · exact Or.inl ⟨rfl, hi⟩
    · simp only [Disk.setDir, upd, hi, if_false] at hl
      exact Or.inr ⟨hl, by simp⟩
  · simp at h; obtain ⟨_, rfl⟩ := h
    by_cases hi : i = jb.ident
    · subst hi
      simp only [Disk.setDir, upd, if_true] at hl
      split at hl
      · cases hl
      · rename_i hne; exact absurd hl hne
    · simp only [Disk.setDir, upd, hi, if_false] at hl
      exact Or.inr ⟨hl, by simp [hi]⟩
  · split at h
    · simp at h
    · split at h <;> simp at h <;> obtain ⟨_, rfl⟩ := h <;> exact Or.inr ⟨hl, by simp⟩
  · simp at h; obtain ⟨_, rfl⟩ := h; exact Or.inr ⟨hl, by simp⟩

/-- the segment after the lock-enter thread leaves the job waiting for its lock-exit thread. -/
theorem resume_lockEnter_holds (fl : Flags) (s : St) (j : Nat) (hp : (s.jobs j).pc = .lockEnter)
    (hth : Restart.cThr s j = 0) : Holds (s.resume fl j) j := by
  have hb := acquireAll_bg j (s.jobs j).deps.length 0 s
  have e : s.resume fl j =
      (match (s.acquireAll j (s.jobs j).deps.length 0).2 with
       | some d =>
         let s1 := (s.acquireAll j (s.jobs j).deps.length 0).1
         let s2 := (if fl.abortReleases then s1.releaseAll j (s1.jobs j).held else s1).check fl j d
         s2.put j { (s2.jobs j) with pc := .lockExitAbort } [] [(.lockExit, j)]
       | none =>
         let s1 := (s.acquireAll j (s.jobs j).deps.length 0).1
         s1.put j { (s1.jobs j) with launches := (s1.jobs j).launches + 1, state := .running, pc := .lockExitRun } [] [(.lockExit, j)]) := by
    simp only [St.resume, hp]
    rcases s.acquireAll j (s.jobs j).deps.length 0 with ⟨s1, _ | d⟩ <;> rfl
  rw [e]
  generalize (s.acquireAll j (s.jobs j).deps.length 0) = r at *
  obtain ⟨s1, fa⟩ := r
  simp only at hb ⊢
  right
  cases fa with
  | some d =>
    simp only []
    have hbr : Bg s1 (if fl.abortReleases then s1.releaseAll j (s1.jobs j).held else s1) := by
      split
      · exact releaseAll_bg j _ s1
      · exact Bg.refl s1
    have hb2 := check_bg fl (if fl.abortReleases then s1.releaseAll j (s1.jobs j).held else s1) j d
    have hall := ((hb.trans hbr).trans hb2).fields j
    refine ⟨Or.inl (by simp [jobs_put]), ?_⟩
    rw [cThr_put, hall.2.2.2.1, hth]; simp
  | none =>
    simp only []
    have hall := hb.fields j
    refine ⟨Or.inr (by simp [jobs_put]), ?_⟩
    rw [cThr_put, hall.2.2.2.1, hth]; simp

theorem deliverA_pc (a : StA Disk) (k j : Nat) (c : Option Nat) (d' : Disk) (i : Nat) :
    ((deliverA a k j c d').s.jobs i).pc = (a.s.jobs i).pc := by
  cases c with
  | none => rfl
  | some cv =>
    show ((a.s.put j { (a.s.jobs j) with code := cv }).jobs i).pc = _
    rw [jobs_put]; split
    · rename_i e; subst e; rfl
    · rfl

theorem deliverA_cThr (a : StA Disk) (k j : Nat) (c : Option Nat) (d' : Disk) (kind : TK)
    (hk : a.s.threads[k]? = some (kind, j)) (i : Nat) :
    Restart.cThr (deliverA a k j c d').s i + (if j = i then 1 else 0) = Restart.cThr a.s i := by
  have e : (deliverA a k j c d').s.threads = a.s.threads.eraseIdx k := by
    cases c with
    | none => rfl
    | some cv =>
      show ((a.s.put j { (a.s.jobs j) with code := cv }).threads).eraseIdx k = _
      simp [St.put]
  unfold Restart.cThr
  rw [e]
  have := countP_eraseIdx (fun t : TK × Nat => t.2 == i) a.s.threads k (kind, j) hk
  simp only [beq_iff_eq] at this
  exact this

theorem cThr_pos_of_mem {s : St} {kind : TK} {j : Nat} (h : (kind, j) ∈ s.threads) : 0 < Restart.cThr s j := by
  unfold Restart.cThr
  exact List.countP_pos_iff.mpr ⟨(kind, j), h, by simp⟩

/-- a job that holds its run lock and has a pending helper thread waits for its `lockExit` thread. -/
theorem holds_thread_kind {s : St} {kind : TK} {j : Nat} (hm : (kind, j) ∈ s.threads)
    (hk : kindOk kind (s.jobs j).pc = true) (h : Holds s j) : kind = .lockExit := by
  have hpos := cThr_pos_of_mem hm
  rcases h with ⟨_, h0⟩ | ⟨hp, _⟩
  · omega
  · rcases hp with hp | hp <;> rw [hp] at hk <;> cases kind <;> simp [kindOk] at hk ⊢

/-- one event of the second scheduler keeps the link between the scheduler-held run locks and the jobs. -/
theorem lock_step {fl : Flags} {totals : List Nat} {done0 : Nat → Bool} {w : W}
    (hW : WReach fl totals done0 w) (hG : Good fl w.a.s) (hl : LockLink w.a.s w.a.d)
    (e : WEv) (hen : WEnabled w e) (hna : NoAdoptAt w e) :
    LockLink (w.apply fl e).a.s (w.apply fl e).a.d := by
  have hsame := sameIds_wstep hW hG e hen hna
  have hP : InvP none w.a.s w.a.adopted := (wreach_inv hW).sched.1
  cases e with
  | crash => exact absurd hen id
  | crashAfterSpawn j => exact absurd hen id
  | crashInPrepare j st => exact absurd hen id
  | proc p rm =>
    intro i hi
    obtain ⟨j0, h1, h2, h3⟩ := hl i (procStep_lock _ _ _ _ hi)
    exact ⟨j0, h1, h2, h3⟩
  | sched ev =>
    cases ev with
    | submit _ _ _ _ => exact absurd hen id
    | wait => exact absurd hen id
    | step =>
      have hne : w.a.s.ready ≠ [] := hen
      cases hr : w.a.s.ready with
      | nil => exact absurd hr hne
      | cons cb rest =>
        have hna' : ∀ j, cb = .start j → (world.look w.a.d j (w.a.s.jobs j)).adopt = false := by
          intro j hj; subst hj; exact hna j rest hr
        have hd := stepA_disk' fl w.a cb rest hr hna'
        have hp := pop_inv hP hr
        have e1 : (w.apply fl (.sched .step)).a = runCbA fl world { w.a with s := { w.a.s with ready := rest } } cb :=
          stepA_cons fl world w.a cb rest hr
        intro i hi
        have hi' : (w.a.d.dir i).lock = .sched := by
          have e2 : (w.apply fl (.sched .step)).a.d = (stepA fl world w.a).d := rfl
          rw [e2] at hi
          rcases hd with e3 | ⟨j, e3, _⟩
          · rw [e3] at hi; exact hi
          · rw [e3, onLaunch_lock] at hi; exact hi
        obtain ⟨j0, h1, h2, h3⟩ := hl i hi'
        refine ⟨j0, by rw [hsame.n]; exact h1, by rw [hsame.ident]; exact h2, ?_⟩
        rw [e1]
        have h3' : Holds ({ w.a.s with ready := rest } : St) j0 := h3
        by_cases hact : cb ≠ .start j0 ∧ cb ≠ .wake j0 ∧ cb ≠ .resume j0
        · exact holds_of_view (runCbA_frame fl world { w.a with s := { w.a.s with ready := rest } } cb hp j0 hact).1 h3'
        · have hc : cb = .start j0 ∨ cb = .wake j0 ∨ cb = .resume j0 := by
            by_cases c1 : cb = .start j0
            · exact Or.inl c1
            · by_cases c2 : cb = .wake j0
              · exact Or.inr (Or.inl c2)
              · by_cases c3 : cb = .resume j0
                · exact Or.inr (Or.inr c3)
                · exact absurd ⟨c1, c2, c3⟩ hact
          rcases hc with rfl | rfl | rfl
          · obtain ⟨hpc, -⟩ := pre_start _ _ j0 (hp.loc j0)
            rcases h3' with ⟨q, _⟩ | ⟨q | q, _⟩ <;> rw [hpc] at q <;> cases q
          · obtain ⟨hpc, -⟩ := pre_wake _ _ j0 (hp.loc j0)
            rcases h3' with ⟨q, _⟩ | ⟨q | q, _⟩ <;> rw [hpc] at q <;> cases q
          · obtain ⟨-, hth, -⟩ := pre_resume _ _ j0 (hp.loc j0)
            have hpc : (({ w.a.s with ready := rest } : St).jobs j0).pc = .lockEnter := by
              rcases h3' with ⟨q, _⟩ | ⟨_, q⟩
              · exact q
              · exact absurd (hth.symm.trans q) (by decide)
            have := resume_lockEnter_holds fl ({ w.a.s with ready := rest } : St) j0 hpc hth
            simp only [runCbA]
            split <;> exact this
    | deliver k =>
      obtain ⟨kind, j, c, d', hk, hgate⟩ := hen
      have e0 : (w.apply fl (.sched (.deliver k))).a = deliverA w.a k j c d' := by
        show applyA fl world w.a (.deliver k) = _
        simp only [applyA, hk, hgate]
      rw [e0] at hsame ⊢
      have hkm : (kind, j) ∈ w.a.s.threads := List.mem_of_getElem? hk
      have hkind : kindOk kind (w.a.s.jobs j).pc = true := hP.kind _ hkm
      have hct := deliverA_cThr w.a k j c d' kind hk
      intro i hi
      have e2 : (deliverA w.a k j c d').d = d' := rfl
      rw [e2] at hi
      rcases gate_lock _ _ _ _ _ _ _ hgate i hi with ⟨rfl, rfl⟩ | ⟨hold, hne⟩
      · have hpc : (w.a.s.jobs j).pc = .lockEnter := by
          revert hkind; cases (w.a.s.jobs j).pc <;> simp [kindOk]
        have hjn : j < w.a.s.n := by
          apply Classical.byContradiction; intro hn
          have := (hP.fresh j (by omega)).1
          rw [hpc] at this; cases this
        have hc := (hP.loc j).1
        simp only [CtlV, view, hpc, pk] at hc
        have h1 := hct j
        simp only [if_true] at h1
        refine ⟨j, by rw [hsame.n]; exact hjn, by rw [hsame.ident], Or.inl ⟨by rw [deliverA_pc]; exact hpc, by omega⟩⟩
      · obtain ⟨j0, h1, h2, h3⟩ := hl i hold
        have hj0 : j ≠ j0 := by
          intro e; subst e
          have := holds_thread_kind hkm hkind h3
          exact hne ⟨this, h2.symm⟩
        refine ⟨j0, by rw [hsame.n]; exact h1, by rw [hsame.ident]; exact h2, ?_⟩
        have h4 := hct j0
        simp only [hj0, if_false, Nat.add_zero] at h4
        unfold Holds at h3 ⊢
        rw [deliverA_pc, h4]; exact h3

theorem adopted_wstep {fl : Flags} {w : W} (e : WEv) (hen : WEnabled w e) (hna : NoAdoptAt w e) :
    (w.apply fl e).a.adopted = w.a.adopted := by
  cases e with
  | crash => exact absurd hen id
  | crashAfterSpawn j => exact absurd hen id
  | crashInPrepare j st => exact absurd hen id
  | proc p rm => rfl
  | sched ev =>
    cases ev with
    | submit _ _ _ _ => exact absurd hen id
    | wait => exact absurd hen id
    | step =>
      have hne : w.a.s.ready ≠ [] := hen
      cases hr : w.a.s.ready with
      | nil => exact absurd hr hne
      | cons cb rest =>
        have e1 : (w.apply fl (.sched .step)).a = runCbA fl world { w.a with s := { w.a.s with ready := rest } } cb :=
          stepA_cons fl world w.a cb rest hr
        rw [e1]
        cases cb with
        | start j =>
          have h0' : (world.look w.a.d j (({ w.a.s with ready := rest } : St).jobs j)).adopt = false := hna j rest hr
          simp only [runCbA, h0', Bool.false_eq_true, if_false]
        | resume j => simp only [runCbA]; split <;> rfl
        | _ => rfl
    | deliver k =>
      obtain ⟨kind, j, c, d', hk, hgate⟩ := hen
      have e0 : (w.apply fl (.sched (.deliver k))).a = deliverA w.a k j c d' := by
        show applyA fl world w.a (.deliver k) = _
        simp only [applyA, hk, hgate]
      rw [e0]; rfl

/-- deadlock freedom of the world when nothing has been adopted: if no event is enabled, the scheduler has nothing
    queued and no helper thread is pending. -/
theorem stuck_quiescent {fl : Flags} {totals : List Nat} {done0 : Nat → Bool} {w : W}
    (hW : WReach fl totals done0 w) (hl : LockLink w.a.s w.a.d) (hu : UniqId w.a.s)
    (had : ∀ j, w.a.adopted j = false) (hmax : ∀ e, ¬ WEnabled w e) :
    w.a.s.ready = [] ∧ w.a.s.threads = [] := by
  have hP : InvP none w.a.s w.a.adopted := (wreach_inv hW).sched.1
  have hD := (wreach_inv hW).disk
  have hL := (wreach_link hW).2
  have hr : w.a.s.ready = [] := by
    apply Classical.byContradiction; intro h; exact hmax (.sched .step) h
  refine ⟨hr, ?_⟩
  cases ht : w.a.s.threads with
  | nil => rfl
  | cons t ts =>
    exfalso
    obtain ⟨kind, j⟩ := t
    have hk : w.a.s.threads[0]? = some (kind, j) := by rw [ht]; rfl
    have hkm : (kind, j) ∈ w.a.s.threads := by rw [ht]; exact List.mem_cons_self ..
    have hkind := hP.kind _ hkm
    have hgn : world.gate w.a.d kind j (w.a.s.jobs j) (w.a.adopted j) = none := by
      cases hg : world.gate w.a.d kind j (w.a.s.jobs j) (w.a.adopted j) with
      | none => rfl
      | some r => exact absurd ⟨kind, j, r.1, r.2, hk, hg⟩ (hmax (.sched (.deliver 0)))
    have hjn : j < w.a.s.n := by
      apply Classical.byContradiction; intro hn
      have := (hP.fresh j (by omega)).1
      rw [this] at hkind
      cases kind <;> simp [kindOk] at hkind
    -- a busy run lock of the directory of `j` is impossible unless `j` waits for its `lockExit` thread
    have busy : (w.a.d.dir (w.a.s.jobs j).ident).lock ≠ .free → kind ≠ .lockExit → False := by
      intro hbusy hkne
      cases hlk : (w.a.d.dir (w.a.s.jobs j).ident).lock with
      | free => exact hbusy hlk
      | proc q =>
        obtain ⟨hq, _, hph⟩ := hD.holder _ q hlk
        refine hmax (.proc q false) ⟨hq, ?_⟩
        rcases hph with h | h
        · exact Or.inl h
        · exact Or.inr (Or.inl h)
      | sched =>
        obtain ⟨j', h1, h2, h3⟩ := hl _ hlk
        have := hu j' j h1 hjn h2
        subst this
        exact hkne (holds_thread_kind hkm hkind h3)
    cases kind with
    | lockEnter =>
      simp only [world] at hgn
      split at hgn
      · cases hgn
      · rename_i hne; exact busy hne (by simp)
    | lockExit => simp [world] at hgn
    | doneH => simp [world] at hgn
    | code =>
      have hpc : (w.a.s.jobs j).pc = .codeWait := by
        revert hkind; cases (w.a.s.jobs j).pc <;> simp [kindOk]
      have hl1 : (w.a.s.jobs j).launches = 1 := by
        rcases hL.cw j hpc with h | h
        · rw [had j] at h; cases h
        · exact h
      obtain ⟨hplt, hpid⟩ := hL.proc j hl1
      have hal : w.a.d.alive (w.a.d.procOf j) = true := by
        simp only [world] at hgn
        split at hgn
        · assumption
        · split at hgn <;> cases hgn
      have hph : (w.a.d.procs (w.a.d.procOf j)).ph ≠ .gone := by
        simp only [Disk.alive, Bool.and_eq_true, decide_eq_true_eq] at hal
        exact hal.2
      have hne := hmax (.proc (w.a.d.procOf j) false)
      have hwait : (w.a.d.procs (w.a.d.procOf j)).ph = .waitLock ∧
          (w.a.d.dir (w.a.d.procs (w.a.d.procOf j)).ident).lock ≠ .free := by
        cases hp : (w.a.d.procs (w.a.d.procOf j)).ph with
        | gone => exact absurd hp hph
        | body => exact absurd ⟨hplt, Or.inl hp⟩ hne
        | exiting => exact absurd ⟨hplt, Or.inr (Or.inl hp)⟩ hne
        | waitLock =>
          refine ⟨rfl, fun hfree => ?_⟩
          exact hne ⟨hplt, Or.inr (Or.inr ⟨hp, hfree⟩)⟩
      rw [hpid] at hwait
      exact busy hwait.2 (by simp)

/-! ### maximal runs of a second scheduler that found no live process -/

/-- what every world of the second run satisfies. -/
structure Sound (fl : Flags) (totals : List Nat) (done0 : Nat → Bool) (w : W) : Prop where
  reach : WReach fl totals done0 w
  good : Good2 fl w.a.s
  own : PidOwn w.a.s w.a.d
  uniq : UniqId w.a.s
  lock : LockLink w.a.s w.a.d
  noad : ∀ j, w.a.adopted j = false

theorem sound_step {fl : Flags} (hg : fl.readyGuarded = true) (hf : fl.resubmitRegisters = true)
    (ha : fl.abortRechecks = true) (hrel : fl.abortReleases = true) {totals : List Nat} {done0 : Nat → Bool} {w : W}
    (h : Sound fl totals done0 w) (e : WEv) (hen : WEnabled w e) :
    Sound fl totals done0 (w.apply fl e) ∧ wmu (w.apply fl e) < wmu w ∧
    (TokFit w.a.s → TokFit (w.apply fl e).a.s) := by
  have hna := noAdoptAt_of_own h.good.g h.own h.uniq e
  obtain ⟨hG', hlt⟩ := wstep hg hf ha hrel h.reach h.good.g e hen hna
  obtain ⟨ho', hu'⟩ := own_step h.reach h.good.g h.own h.uniq e hen hna hG'
  refine ⟨⟨h.reach.apply e, good2_wstep hg hf ha h.reach h.good e hen hna, ho', hu',
    lock_step h.reach h.good.g h.lock e hen hna, ?_⟩, hlt, fun hT => tokFit_wstep h.reach h.good.g hT e hen hna⟩
  rw [adopted_wstep e hen hna]; exact h.noad

theorem sound_run {fl : Flags} (hg : fl.readyGuarded = true) (hf : fl.resubmitRegisters = true)
    (ha : fl.abortRechecks = true) (hrel : fl.abortReleases = true) {totals : List Nat} {done0 : Nat → Bool}
    (evs : List WEv) : ∀ w, Sound fl totals done0 w → RunE fl w evs →
      Sound fl totals done0 (W.run fl w evs) ∧ evs.length + wmu (W.run fl w evs) ≤ wmu w ∧
      (TokFit w.a.s → TokFit (W.run fl w evs).a.s) := by
  induction evs with
  | nil => intro w h _; exact ⟨h, by simp [W.run], fun hT => hT⟩
  | cons e es ih =>
    intro w h hrun
    obtain ⟨hen, hrest⟩ := hrun
    obtain ⟨h', hlt, hT⟩ := sound_step hg hf ha hrel h e hen
    obtain ⟨r1, r2, r3⟩ := ih _ h' hrest
    refine ⟨r1, ?_, fun hT0 => r3 (hT hT0)⟩
    simp only [W.run, List.length_cons]
    omega

theorem good2_init {fl : Flags} (hg : fl.readyGuarded = true) (hf : fl.resubmitRegisters = true)
    (ha : fl.abortRechecks = true) (totals : List Nat) : Good2 fl (St.init totals) :=
  ⟨good_init hg hf ha totals, (reachable_invG hg ha (totals := totals) .init).nolost,
   reachable_invH hg hf (totals := totals) .init⟩

theorem resubmitted_sound2 {fl : Flags} (hg : fl.readyGuarded = true) (hf : fl.resubmitRegisters = true)
    (ha : fl.abortRechecks = true) {totals : List Nat} {done0 : Nat → Bool} {w : W}
    (hW : WReach fl totals done0 w) (hnl : NoLivePid w.restart.a.d) (xs : List Sub)
    (hok : SubsOK fl w.restart.a.d (St.init w.totals) xs) :
    Sound fl totals done0 (resubmitted fl w xs) := by
  have hW' : WReach fl totals done0 w.restart := hW.apply .crash
  have hP : Phase w.restart.a.d w.restart.a :=
    ⟨rfl, rfl, Restart.init_invB _ _, init_inv1 _, fun j => by simp [Restart.cRes, W.restart, St.init],
     fun j hj => by exact absurd hj (Nat.not_lt_zero j)⟩
  have hu : UniqId w.restart.a.s := fun j j' hj => by exact absurd hj (Nat.not_lt_zero j)
  obtain ⟨p1, p2, p3⟩ := resub (Good2 fl) (fun s ev h1 h2 h => good2_apply hg hf ha ev h1 h2 h) w.restart.a.d hnl xs
    w.restart hP (good2_init hg hf ha _) hu hok
  have hd : (resubmitted fl w xs).a.d = w.restart.a.d := p1.disk
  refine ⟨wreach_run _ _ hW', p2, ?_, p3, ?_, fun j => by
    have : (resubmitted fl w xs).a.adopted = fun _ => false := p1.adopted
    rw [this]⟩
  · intro i p hp hal
    rw [hd] at hp hal
    rw [hnl i p hp] at hal
    cases hal
  · intro i hi
    rw [hd] at hi
    have : (w.restart.a.d.dir i).lock = if (w.a.d.dir i).lock = .sched then .free else (w.a.d.dir i).lock := rfl
    rw [this] at hi
    split at hi
    · cases hi
    · rename_i hne; exact absurd hi hne

/-- **C11, second run, partial (restarts that find no live process)**: every maximal run of the second scheduler is
    finite, and ends with every job final, every token full, no lock held. -/
theorem restart_maximal_run_partial {fl : Flags} (hg : fl.readyGuarded = true) (hf : fl.resubmitRegisters = true)
    (ha : fl.abortRechecks = true) (hrel : fl.abortReleases = true) {totals : List Nat} {done0 : Nat → Bool} {w : W}
    (hW : WReach fl totals done0 w) (hnl : NoLivePid w.restart.a.d) (xs : List Sub)
    (hok : SubsOK fl w.restart.a.d (St.init w.totals) xs) (hfit : TokFit (resubmitted fl w xs).a.s)
    (evs : List WEv) (hrun : RunE fl (resubmitted fl w xs) evs)
    (hmax : ∀ e, ¬ WEnabled (W.run fl (resubmitted fl w xs) evs) e) :
    evs.length ≤ wmu (resubmitted fl w xs) ∧
    Sound fl totals done0 (W.run fl (resubmitted fl w xs) evs) ∧
    (W.run fl (resubmitted fl w xs) evs).a.s.ready = [] ∧ (W.run fl (resubmitted fl w xs) evs).a.s.threads = [] ∧
    AllFinal (W.run fl (resubmitted fl w xs) evs).a.s ∧
    (∀ t, (W.run fl (resubmitted fl w xs) evs).a.s.avail t = (W.run fl (resubmitted fl w xs) evs).a.s.total t) ∧
    (∀ j, ((W.run fl (resubmitted fl w xs) evs).a.s.jobs j).held = []) := by
  have h0 := resubmitted_sound2 hg hf ha hW hnl xs hok
  obtain ⟨h1, h2, h3⟩ := sound_run hg hf ha hrel evs _ h0 hrun
  obtain ⟨hr, ht⟩ := stuck_quiescent h1.reach h1.lock h1.uniq h1.noad hmax
  obtain ⟨q1, q2, q3⟩ := quiescent_final' h1.good (h3 hfit) hr ht
  exact ⟨by omega, h1, hr, ht, q1, q2, q3⟩

/-- at the end of a maximal run no run lock is held and every job process has exited. -/
theorem maximal_disk_idle {fl : Flags} {totals : List Nat} {done0 : Nat → Bool} {w : W}
    (h : Sound fl totals done0 w) (hfin : AllFinal w.a.s) (hmax : ∀ e, ¬ WEnabled w e) :
    (∀ i, (w.a.d.dir i).lock = .free) ∧ (∀ p, (w.a.d.procs p).ph = .gone) ∧ ∀ i, w.a.d.running i = 0 := by
  have hD := (wreach_inv h.reach).disk
  have hfree : ∀ i, (w.a.d.dir i).lock = .free := by
    intro i
    cases hlk : (w.a.d.dir i).lock with
    | free => rfl
    | proc q =>
      exfalso
      obtain ⟨hq, _, hph⟩ := hD.holder _ q hlk
      refine hmax (.proc q false) ⟨hq, ?_⟩
      rcases hph with h | h
      · exact Or.inl h
      · exact Or.inr (Or.inl h)
    | sched =>
      exfalso
      obtain ⟨j, h1, _, h3⟩ := h.lock i hlk
      rcases hfin j h1 with hn | ⟨r, hr⟩
      · rcases h3 with ⟨q, _⟩ | ⟨q | q, _⟩ <;> rw [hn] at q <;> cases q
      · rcases h3 with ⟨q, _⟩ | ⟨q | q, _⟩ <;> rw [hr] at q <;> cases q
  refine ⟨hfree, ?_, fun i => by unfold Disk.running; rw [hfree i]⟩
  intro p
  by_cases hp : p < w.a.d.np
  · have hne := hmax (.proc p false)
    cases hph : (w.a.d.procs p).ph with
    | gone => rfl
    | body => exact absurd ⟨hp, Or.inl hph⟩ hne
    | exiting => exact absurd ⟨hp, Or.inr (Or.inl hph)⟩ hne
    | waitLock => exact absurd ⟨hp, Or.inr (Or.inr ⟨hph, hfree _⟩)⟩ hne
  · exact hD.fresh p (by omega)

/-- from every world of the second run some run reaches a world in which no event is enabled (the measure is finite):
    maximal runs exist. -/
theorem restart_maximal_run_exists {fl : Flags} (hg : fl.readyGuarded = true) (hf : fl.resubmitRegisters = true)
    (ha : fl.abortRechecks = true) (hrel : fl.abortReleases = true) {totals : List Nat} {done0 : Nat → Bool} :
    ∀ (m : Nat) (w : W), Sound fl totals done0 w → wmu w ≤ m →
      ∃ evs, RunE fl w evs ∧ ∀ e, ¬ WEnabled (W.run fl w evs) e := by
  intro m
  induction m with
  | zero =>
    intro w h hm
    refine ⟨[], trivial, fun e hen => ?_⟩
    have := (sound_step hg hf ha hrel h e hen).2.1
    omega
  | succ m ih =>
    intro w h hm
    by_cases hex : ∃ e, WEnabled w e
    · obtain ⟨e, hen⟩ := hex
      obtain ⟨h', hlt, _⟩ := sound_step hg hf ha hrel h e hen
      obtain ⟨evs, r1, r2⟩ := ih (w.apply fl e) h' (by omega)
      exact ⟨e :: evs, ⟨hen, r1⟩, r2⟩
    · exact ⟨[], trivial, fun e hen => hex ⟨e, hen⟩⟩

/-! ### the full statement, and what is missing

    FULL STATEMENT (C11, "the second run reaches the same final results"): for every `WReach fl totals done0 w`, every
    re-submission `xs` to the restarted scheduler and every *maximal* `RunE`-run `evs` from `resubmitted fl w xs` (no
    `WEnabled` event in the last world): `evs` is finite and in `w' = W.run fl (resubmitted fl w xs) evs`
      * every job is final: `AllFinal w'.a.s`;
      * (a) a job reported DONE has its marker, one successful body, and `(w'.a.d.dir i).bodies = 1` if none failed
        (`C11.exactly_once_overall` / `exactly_once_done` give the counting from `WReach` alone);
      * (b) `∀ t, w'.a.s.avail t = w'.a.s.total t`.
    Exhaustive search over small worlds (all interleavings, all crash points of the three kinds) finds no counterexample
    and no cycle, adoption included.

    PROVED here, under `NoLivePid w.restart.a.d` (no pid file names a live process at the restart; orphans without pid
    file allowed) and `SubsOK` (distinct identifiers): the full statement — `restart_run_finite_partial` (bound `wmu`),
    `restart_maximal_run_partial` (all final, tokens full, nothing held), `maximal_disk_idle` (locks free, processes
    gone), `restart_maximal_run_exists`.  `runW_bound` is the bound for an arbitrary reachable world satisfying `Good`,
    for runs that are assumed not to adopt.

    ADOPTION (`NoLivePid` false) is treated in two further stages by a simulation into M2 rather than by generalising the
    invariants clause by clause: after `startJobA` with `adopt = true` the record is RUNNING at `codeWait` with
    `launches = 0`, `held = []`, dependencies registered but possibly unsatisfied, which contradicts `JLocal`,
    `JDeep.runRunning/readyDeps`, `XInv` and the capacity invariant; on an abstract state the job is a job WITHOUT
    dependencies that was launched, and every invariant of this file and of `Proofs/SchedFinal.lean` is used as it is.
    * `Proofs/RestartAbs.lean … RestartPhase.lean` (`RestartLive.restart_run_finiteA` …, `C11.restart_*_adopt_partial`): under
      the hypothesis that the job dependencies of an adoptable job have their markers;
    * `Proofs/RestartAbsF.lean … RestartPhaseF.lean` (`RestartFull.restart_run_finiteF`, `restart_maximal_runF`,
      `restart_maximal_run_existsF`; property theorems `C11.restart_run_finite`, `restart_maximal_run_all_final`,
      `restart_maximal_run_exists`): the FULL statement, hypotheses of `restart_run_finite_partial` minus `NoLivePid`. -/

end XpmVerif.RestartTerm
