"""C13 — runtime objects mirror the configuration graph and are initialised once.

Correspondence: the generated classes carry logging `__init__` / `__post_init__` / `execute`; the call
log (which object, which parameters were already set) and the set of constructed objects of
`config.instance(context, objects=store)` — one call, or two calls sharing the `ObjectStore` — and of
the job side (`params.json` written by `outputjson`, then `run.py::run` / `fromParameters(as_instance=True)`)
are compared with the Lean model M5 (Drive/Serial.lean: `instanceLog`, `runLog`, `loadStateLog`): per object event for
event (creation — `Config.__new__` is tapped on the loading routes —, `__init__`, `__post_init__` with the parameters set at
that moment), the sequence of executions exactly, "everything built before anything is executed" and "a `__post_init__` only
receives objects that exist" as facts; NOT the interleaving of the construction events of different objects, which the
property leaves free (`seriallib.canon_log`: e.g. all `__post_init__` calls moved after the last assignment is the same
behaviour and does not alarm; one missing, doubled or made before a parameter of its object is set does).
Monitors (implementation only): exactly one runtime object per reachable configuration, attributes
wired like the graph (identity of shared and cyclic references), `__post_init__` exactly once per object
with every parameter already set, every pre-task executed exactly once, init tasks once, in order,
after the pre-tasks and before the task body; thorough: the same counts in real job processes.
Cases `c13m` (c13x_multiroot.py, impl/c13x_multiroot_worker.py): several graphs saved together and loaded as runtime objects
through `from_state_dict` / `load` (as_instance=True): the returned value mirrors the written one, one object per
configuration across roots, `__post_init__` once on every object the caller receives, after its parameters (monitors) +
correspondence with `loadStateLog` / `fromStateDictInst` (driver op `loadstate`): call log as above, the parameter values of
every created object, the returned value.  Pre-tasks are not executed on this route (`C13.state_load_runs_no_pretask`; the
model and the code agree: no `exec` event on either side); the monitor `CHECK_PRETASKS_ON_STATE_LOAD` stays disabled."""
import random

from .. import common, seriallib
from ..translate import serialflags, serialkeys, instsrc
from . import c13x_multiroot

seriallib.PATH_KEYS = True     # dict keys the walk's path encoding rewrites: instances must keep the configuration's keys (C13h)

PROP = "C13"
MODULES = ["XpmVerif.Properties.C13", "XpmVerif.Properties.C12Source", "XpmVerif.Properties.C13Src"]
seriallib.install_local_findings(PROP)


def prove(ctx):
    msgs = [serialflags.generate(common.REPO, common.LEAN), serialkeys.generate(common.REPO, common.LEAN), instsrc.generate(common.REPO, common.LEAN)]
    ctx.notes.append(f"translator(serialflags): {msgs[0][1]}")
    ctx.notes.append(f"translator(serialkeys): {msgs[1][1]}")
    ctx.notes.append(f"translator(instsrc): {msgs[2][1]}")
    comps = serialkeys.components(common.REPO) + instsrc.components(common.REPO)
    ctx.extra_cov["translator_components"] = {"translated": [n for n, ok, _ in comps if ok], "untranslated": [n for n, ok, _ in comps if not ok]}
    common.check_proofs(ctx, MODULES, translate_msgs=msgs)


def correspond(ctx):
    rng = ctx.rng
    ctx.rule = ("a case = generated class library (real package, classes log __init__/__post_init__/execute) + configuration graph (<= ~14 nodes: sharing, "
                "cycles, pre-tasks shared between nodes, init tasks, task outputs) + instance() on the root (35%: first on another node with the same "
                "ObjectStore) + params.json -> run() (task roots) or fromParameters(as_instance=True); non-trivial = at least one nested configuration "
                "reference; distinct = hash of (library, graph, calls); + cases 'c13m': 1-3 such graphs (a later one may share a configuration with an earlier "
                "one) listed in a list / dict / nested value (every root, any order; sometimes an inner node or a repeated entry), written with "
                "state_dict or save and loaded with from_state_dict / load (as_instance=True)")
    ctx.assumptions += [
        "an ObjectStore passed to instance() only holds objects of completed earlier calls (every stub is constructed)",
        "no configuration is both a pre-task and an init task of the loaded task; init task lists hold no duplicates",
        "post-initialisation 'after its parameters are set' is read as: after the object's own parameters are assigned (in a cycle a referenced object may not be filled yet)",
    ]
    libs, cases = seriallib.make_cases(ctx, rng, "c13", ctx.scale(6, 60), ctx.scale(120, 200), "c13")
    recs = seriallib.run(ctx, libs, cases, shards=ctx.scale(8, 12))
    seriallib.evaluate(ctx, libs, cases, recs, "call log / constructed objects")
    # several graphs written together (list / dict of configurations) and loaded as runtime objects through the other
    # public loaders: state_dict -> from_state_dict(as_instance=True), save -> load(as_instance=True); implementation-only monitors
    mrng = random.Random(f"c13-multiroot-{ctx.seed}")
    mlibs, mcases = c13x_multiroot.make_cases(ctx, mrng, ctx.scale(4, 12), ctx.scale(60, 120), "c13m")
    mrecs = seriallib.run(ctx, mlibs, mcases, shards=ctx.scale(8, 12))
    seriallib.evaluate(ctx, mlibs, mcases, mrecs, "values with several roots loaded as runtime objects: call log / attributes / returned value")
    if not ctx.quick():
        plibs, pcases = seriallib.make_proc_cases(ctx, rng, "c13", 8, 15, "c13p")
        precs = seriallib.run(ctx, plibs, pcases, shards=12)
        seriallib.evaluate(ctx, plibs, pcases, precs, "real job process", with_model=False)
        ctx.extra_cov["real_job_processes"] = sum(1 for r in precs if not r["error"])


def search(ctx):
    rng = random.Random(f"search-c13-{ctx.seed}")
    libs, cases = seriallib.make_cases(ctx, rng, "c13", ctx.scale(6, 20), 60, "c13s")
    recs = seriallib.run(ctx, libs, cases, shards=8)
    for c, r in zip(cases, recs):
        if not r["error"]:
            for m in r["monitors"]:
                ctx.monitor_fail(m["key"], m["what"], {"case": seriallib.case_desc(libs, c), "detail": m.get("detail")})


WLIB = {"pkg": "xvlib_c13w", "enums": [], "classes": [
    {"name": "LW", "xpmid": "xvlib_c13w.lw", "parent": None, "kind": "light", "deprecated": False,
     "args": [{"name": "v", "decl": "param", "ty": "int", "optional": False}]},
    {"name": "Top", "xpmid": "xvlib_c13w.top", "parent": None, "kind": "task", "deprecated": False,
     "args": [{"name": "x", "decl": "param", "ty": "int", "optional": False}]},
]}


def run_witness(ctx, finding):
    w = finding.get("witness") or {}
    if w.get("kind") != "return-tasks":
        return
    g = {"nodes": [{"cls": "Top", "values": [["x", 1]], "meta": None, "pre": [1], "init": [], "task": None},
                   {"cls": "LW", "values": [["v", 3]], "meta": None, "pre": [], "init": [], "task": None}]}
    c = {"lib": 0, "kind": "witness", "witness": "return-tasks", "graph": g}
    rec = seriallib.run(ctx, [WLIB], [c], shards=1)[0]
    if rec["error"]:
        raise RuntimeError(f"witness of {finding.get('id')} could not be run: {rec['error']}\n{rec.get('trace', '')}")
    ctx.count("witness", finding.get("id"))
    for m in rec["monitors"]:
        ctx.monitor_fail(m["key"], m["what"], {"witness": finding.get("id"), "case": seriallib.case_desc([WLIB], c)})


def replay(ctx, obj):
    prove(ctx)
    n = seriallib.replay_cases(ctx, obj, ("c13", "c13m", "proc", "witness"))
    if n == 0:
        correspond(ctx)
    return common.verdict(ctx, search)
