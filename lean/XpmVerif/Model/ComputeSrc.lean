import XpmVerif.Model.IdentImpl
/-! M1 (identifier cache) — the vocabulary in which `harness/xv/translate/computesrc.py` writes down what it read in
`HashComputer.compute` and `ConfigPath` (`core/objects.py`), and the *interpreter* of such a plan: `cacheHitP`,
`computeAtP`, `escAtP`, `reqRawP` are `cacheHit`, `computeAt`, `escAt`, `reqRaw` of `Model/IdentImpl.lean` with the
three places that the source decides left open (the cache test, where `detect_loop` starts marking, whether the loop
flag that `compute` writes is the one it reads). -/
namespace XpmVerif.Ident

/-- an expression `a·index + b·depth + c` over the integers (what `detect_loop` and `push` compute with) -/
structure Aff where
  index : Int
  depth : Int
  const : Int
deriving DecidableEq, Repr

/-- what was read in `ConfigPath` and in the body of `HashComputer.compute` (apart from the cache test) -/
structure ComputeData where
  /-- `detect_loop`: a configuration that is not on the path gives `None` and marks nothing -/
  absentNone : Bool
  /-- `detect_loop` marks `loops[lo:hi]` … -/
  markLo : Aff
  markHi : Aff
  /-- … and returns this -/
  ret : Aff
  /-- `has_loop()` reads the last entry of `loops` (the configuration being hashed) -/
  hasLoopReadsLast : Bool
  /-- `push` asserts that the configuration is not on the path, records it at index `depth`, appends `False`, and its
      exit pops both -/
  pushAsserts : Bool
  pushIndex : Aff
  pushAppendsFalse : Bool
  popRestores : Bool
  /-- `compute`: the attribute of the identifier that the cache test reads is initialised to `False`, is the one written,
      is written from `config_path.has_loop()` inside the `with config_path.push(config)` block, after
      `update(config, myself=True)`; the identifier computed there is what is returned -/
  flagInitFalse : Bool
  flagWrittenIsRead : Bool
  flagFromHasLoop : Bool
  hasLoopInsidePush : Bool
  updateMyselfInsidePush : Bool
  returnsComputed : Bool
deriving DecidableEq, Repr

def ComputeData.expected : ComputeData :=
  { absentNone := true, markLo := ⟨1, 0, 0⟩, markHi := ⟨0, 1, 0⟩, ret := ⟨-1, 1, 0⟩, hasLoopReadsLast := true,
    pushAsserts := true, pushIndex := ⟨0, 1, 0⟩, pushAppendsFalse := true, popRestores := true,
    flagInitFalse := true, flagWrittenIsRead := true, flagFromHasLoop := true, hasLoopInsidePush := true,
    updateMyselfInsidePush := true, returnsComputed := true }

/-- the part of the plan that the cache model interprets -/
structure CachePlan where
  /-- `compute` returns the cached identifier given (sealed, an identifier is cached, its loop flag) -/
  hit : Bool → Bool → Bool → Bool
  /-- the loop flag written is the one read (and it is `has_loop()` of the configuration being hashed) -/
  flagStored : Bool
  /-- `detect_loop` starts marking at `index + markOff` -/
  markOff : Nat

def planOf (d : ComputeData) (hit : Bool → Bool → Bool → Bool) : CachePlan :=
  { hit := hit
    flagStored := d.flagInitFalse && d.flagWrittenIsRead && d.flagFromHasLoop && d.hasLoopInsidePush && d.hasLoopReadsLast
    markOff := d.markLo.const.toNat }

def CachePlan.expected : CachePlan := { hit := fun s c f => s && c && !f, flagStored := true, markOff := 0 }

def cacheHitP {D : Type} (p : CachePlan) (g : Graph) (c : Caches D) (n : Nat) : Option D :=
  match c.raw n with
  | some (d, fl) => if p.hit (g.node n).sealed true fl then some d else none
  | none => none

def computeAtP {D : Type} (p : CachePlan) (hc : HC D) (g : Graph) (c : Caches D) : Nat → List Nat → Nat → D
  | 0, _, _ => hc.H []
  | fuel + 1, stack, n =>
    match cacheHitP p g c n with
    | some d => d
    | none =>
      hc.H (nodeStream
        (ctxCfg (n :: stack) (fun m => hc.emb (computeAtP p hc g c fuel (n :: stack) m)))
        (ctxEq (n :: stack) (ctxCfg (n :: stack) (fun m => hc.emb (computeAtP p hc g c fuel (n :: stack) m))))
        g.mt n (g.node n))

/-- `escAt` when `detect_loop` marks from `index + markOff`: a reference `k` levels up marks the `k - markOff`
    innermost configurations -/
def escAtP {D : Type} (p : CachePlan) (hc : HC D) (g : Graph) (c : Caches D) : Nat → List Nat → Nat → Nat
  | 0, _, _ => 0
  | fuel + 1, stack, n =>
    match cacheHitP p g c n with
    | some _ => 0
    | none =>
      (nodeRefs (fun m => (relIndex (n :: stack) m).isSome)
          (ctxEq (n :: stack) (ctxCfg (n :: stack) (fun m => hc.emb (computeAtP p hc g c fuel (n :: stack) m))))
          g.mt n (g.node n)).foldl (fun acc m =>
        max acc (match relIndex (n :: stack) m with
          | some k => k - p.markOff
          | none => escAtP p hc g c fuel (n :: stack) m - 1)) 0

def reqRawP {D : Type} (p : CachePlan) (hc : HC D) (s : St D) (n : Nat) : St D × D :=
  let nd := s.g.node n
  match (if nd.sealed then s.c.raw n else none) with
  | some (d, _) => (s, d)
  | none =>
    let d := computeAtP p hc s.g s.c (s.g.size + 1) [] n
    let flag := p.flagStored && decide (escAtP p hc s.g s.c (s.g.size + 1) [] n ≥ 1)
    if nd.sealed then ({ s with c := { s.c with raw := updF s.c.raw n (some (d, flag)) } }, d) else (s, d)

end XpmVerif.Ident
