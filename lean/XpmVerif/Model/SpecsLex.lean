import XpmVerif.Generated.SpecsLex
/-! M8 (characters): lexer for the grammar of `launcherfinder/parser.py`, text rendering, and the quantity
    literals of `humanfriendly.parse_size` / `parse_timespan` for the forms used here.

    arpeggio is scannerless: before every terminal it skips whitespace (`'\t\n\r '`), then matches a literal as a
    *prefix* (`StrMatch`, no keyword boundary) or a regular expression with `re.match`.  The lexer below does the same
    at every position without looking at the parser's expectations: literals first (no literal is a prefix of another),
    then `\d+` with an optional `G`/`M` (token `memlit` with a suffix, `num` without), then the duration units
    (`hours` before `h`, `days` before `d`, as `h(ours)?|d(ays)?` matches).  The reference tables are tied to the source
    by the obligations of `Properties/C18Lex.lean` about `Generated/SpecsLex.lean`. -/
namespace XpmVerif.Specs

/-- reference literal table (the lexer's); `Generated/SpecsLex.lean` must say the same (`lits_from_source`).
    Character lists, not `String`s: nothing in the model computes on the byte representation of strings. -/
def refLits : List (List Char × Tok) :=
  [(['d', 'u', 'r', 'a', 't', 'i', 'o', 'n'], .kwDuration), (['c', 'u', 'd', 'a'], .kwCuda), (['c', 'p', 'u'], .kwCpu), (['m', 'e', 'm'], .kwMem), (['c', 'o', 'r', 'e', 's'], .kwCores),
   (['('], .lpar), ([')'], .rpar), ([','], .comma), (['='], .eq), (['*'], .star), (['&'], .amp), (['|'], .bar)]

/-- the unit regular expression as an ordered table of literals (first prefix wins). -/
def unitLits : List (List Char × Tok) :=
  [(['h', 'o', 'u', 'r', 's'], .unit .hours), (['h'], .unit .h), (['d', 'a', 'y', 's'], .unit .days), (['d'], .unit .d)]

/-- value of a digit run read left to right (`int(...)`), stops at the first non-digit. -/
def digitsVal : List Char → Nat → Nat
  | [], acc => acc
  | c :: cs, acc => if c.isDigit then digitsVal cs (acc * 10 + (c.toNat - 48)) else acc

def dropDigits : List Char → List Char
  | [] => []
  | c :: cs => if c.isDigit then dropDigits cs else c :: cs

/-- `\d+(G|M)?` / `\d+` at the head of the input (which starts with a digit). -/
def lexNumber (cs : List Char) : Tok × List Char :=
  let n := digitsVal cs 0
  match dropDigits cs with
  | 'G' :: r => (.memlit n .G, r)
  | 'M' :: r => (.memlit n .M, r)
  | r => (.num n, r)

/-- one token at a position where whitespace has been skipped: a digit starts a number (no literal starts with a
    digit), otherwise the first literal of the table that is a prefix, the grammar's literals before the units. -/
def lexOne (cs : List Char) : Option (Tok × List Char) :=
  match cs with
  | [] => none
  | c :: _ => if c.isDigit then some (lexNumber cs) else lexLit (refLits ++ unitLits) cs

/-- the whole input; the fuel bounds the number of tokens (every token consumes a character). -/
def lexAll : Nat → List Char → Option (List Tok)
  | 0, _ => none
  | fuel + 1, cs =>
    match skipWs cs with
    | [] => some []
    | c :: cs' =>
      match lexOne (c :: cs') with
      | none => none
      | some (t, r) =>
        match lexAll fuel r with
        | some ts => some (t :: ts)
        | none => none

def lexText (s : String) : Option (List Tok) := lexAll (s.length + 1) s.toList

/-- `parser.parse` down to characters: `parse ∘ lex`. -/
def parseText (s : String) : Option (List (List Specs.Term)) := (lexText s).bind parseToks

/-- meaning of a text: the requests `parse(text)` returns (`none` = an exception). -/
def evalText (s : String) : Option (List Req) := (parseText s).bind evalAlt

/-! ### rendering -/

def digitChar : Nat → Char
  | 0 => '0' | 1 => '1' | 2 => '2' | 3 => '3' | 4 => '4' | 5 => '5' | 6 => '6' | 7 => '7' | 8 => '8' | _ => '9'

/-- decimal digits of a number (what `str(n)` gives). -/
def natDigits (n : Nat) : List Char :=
  if h : n < 10 then [digitChar n] else natDigits (n / 10) ++ [digitChar (n % 10)]
termination_by n
decreasing_by omega

def tokText : Tok → List Char
  | .kwDuration => ['d', 'u', 'r', 'a', 't', 'i', 'o', 'n'] | .kwCuda => ['c', 'u', 'd', 'a'] | .kwCpu => ['c', 'p', 'u']
  | .kwMem => ['m', 'e', 'm'] | .kwCores => ['c', 'o', 'r', 'e', 's']
  | .lpar => ['('] | .rpar => [')'] | .comma => [','] | .eq => ['='] | .star => ['*'] | .amp => ['&'] | .bar => ['|']
  | .num n => natDigits n
  | .memlit n .none => natDigits n
  | .memlit n .G => natDigits n ++ ['G']
  | .memlit n .M => natDigits n ++ ['M']
  | .unit .h => ['h'] | .unit .hours => ['h', 'o', 'u', 'r', 's'] | .unit .d => ['d'] | .unit .days => ['d', 'a', 'y', 's']

/-- tokens as text with the padding `ws i` before the `i`-th token and `ws n` after the last one. -/
def renderToks (ws : Nat → List Char) : Nat → List Tok → List Char
  | i, [] => ws i
  | i, t :: ts => ws i ++ tokText t ++ renderToks ws (i + 1) ts

/-- the text of a request with an arbitrary padding. -/
def renderText (a : List (List Specs.Term)) (ws : Nat → List Char) : String :=
  String.ofList (renderToks ws 0 (renderAlts a))

/-! ### quantity literals (`humanfriendly`), integer forms: `<ws><digits><ws><unit><ws>` -/

def lower (c : Char) : Char := if 'A' ≤ c ∧ c ≤ 'Z' then Char.ofNat (c.toNat + 32) else c

/-- `str.rstrip('s')`. -/
def rstripS (u : List Char) : List Char := (u.reverse.dropWhile (· == 's')).reverse

/-- `str.strip()` for the four whitespace characters. -/
def trim (u : List Char) : List Char := (skipWs (skipWs u).reverse).reverse

/-- rank of a size prefix letter: k=1, m=2, g=3, t=4, p=5, e=6, z=7, y=8. -/
def prefixRank (c : Char) : Option Nat :=
  if c = 'k' then some 1 else if c = 'm' then some 2 else if c = 'g' then some 3 else if c = 't' then some 4
  else if c = 'p' then some 5 else if c = 'e' then some 6 else if c = 'z' then some 7 else if c = 'y' then some 8 else none

def binaryName : Nat → List Char
  | 1 => ['k', 'i', 'b', 'i', 'b', 'y', 't', 'e']
  | 2 => ['m', 'e', 'b', 'i', 'b', 'y', 't', 'e']
  | 3 => ['g', 'i', 'b', 'i', 'b', 'y', 't', 'e']
  | 4 => ['t', 'e', 'b', 'i', 'b', 'y', 't', 'e']
  | 5 => ['p', 'e', 'b', 'i', 'b', 'y', 't', 'e']
  | 6 => ['e', 'x', 'b', 'i', 'b', 'y', 't', 'e']
  | 7 => ['z', 'e', 'b', 'i', 'b', 'y', 't', 'e']
  | _ => ['y', 'o', 'b', 'i', 'b', 'y', 't', 'e']

/-- the multiplier `humanfriendly.parse_size(text)` (default `binary=False`) gives to a unit spelling:
    no unit, or a unit starting with `b`/`B` → 1 (bytes); otherwise lower-case, drop trailing `s`, and look at the first
    letter `k m g t p e z y` (rank r): the spelling is **binary (1024^r) only when it is exactly `Xib` or the full name
    `Xibibyte`** (`GiB`, `gib`, `gibibytes`); **every other spelling starting with that letter is decimal (1000^r)** —
    `G`, `GB`, `g`, `giga`, and also `Gi`.  Anything else → `none` (`InvalidSize`). -/
def sizeFactor (u : List Char) : Option Nat :=
  let l := u.map lower
  match l with
  | [] => some 1
  | c :: _ =>
    if c = 'b' then some 1 else
    match rstripS l with
    | [] => none
    | d :: rest =>
      match prefixRank d with
      | none => none
      | some r =>
        if rest = ['i', 'b'] || d :: rest = binaryName r then some (1024 ^ r) else some (1000 ^ r)

def hasDigit (u : List Char) : Bool := u.any Char.isDigit

/-- `parse_size` on integer literals: bytes. -/
def parseSize (s : List Char) : Option Nat :=
  match skipWs s with
  | [] => none
  | c :: cs =>
    if c.isDigit then
      let u := trim (dropDigits (c :: cs))
      if hasDigit u then none else (sizeFactor u).map (fun f => digitsVal (c :: cs) 0 * f)
    else none

/-- seconds per unit for `humanfriendly.parse_timespan`: the unit (lower-cased) must be *exactly* one of the listed
    spellings (no prefix rule here); no unit = seconds.  Sub-second units (`ms`, `us`, `ns`) are outside the model. -/
def timeFactor (u : List Char) : Option Nat :=
  let s := u.map lower
  if s = [] || s = ['s'] || s = ['s', 'e', 'c'] || s = ['s', 'e', 'c', 's'] || s = ['s', 'e', 'c', 'o', 'n', 'd'] || s = ['s', 'e', 'c', 'o', 'n', 'd', 's'] then some 1
  else if s = ['m'] || s = ['m', 'i', 'n'] || s = ['m', 'i', 'n', 's'] || s = ['m', 'i', 'n', 'u', 't', 'e'] || s = ['m', 'i', 'n', 'u', 't', 'e', 's'] then some 60
  else if s = ['h'] || s = ['h', 'o', 'u', 'r'] || s = ['h', 'o', 'u', 'r', 's'] then some 3600
  else if s = ['d'] || s = ['d', 'a', 'y'] || s = ['d', 'a', 'y', 's'] then some 86400
  else if s = ['w'] || s = ['w', 'e', 'e', 'k'] || s = ['w', 'e', 'e', 'k', 's'] then some 604800
  else if s = ['y'] || s = ['y', 'e', 'a', 'r'] || s = ['y', 'e', 'a', 'r', 's'] then some 31449600
  else none

/-- `int(parse_timespan(text))` on integer literals: seconds. -/
def parseTimespan (s : List Char) : Option Nat :=
  match skipWs s with
  | [] => none
  | c :: cs =>
    if c.isDigit then
      let u := trim (dropDigits (c :: cs))
      if hasDigit u then none else (timeFactor u).map (fun f => digitsVal (c :: cs) 0 * f)
    else none

end XpmVerif.Specs
