import XpmVerif.Model.Ident
import XpmVerif.Model.ArgDeclBase
import XpmVerif.Generated.ArgFlags
/-! M1a: from a declaration in a class body to the flags of `core/arguments.py::Argument`.

    `x: Meta[Optional[int]] = 3` is seen by experimaestro in three steps (`core/types.py` `ObjectType.__initialize__` l.360-386):
    1. every `TypeAnnotation` in the metadata of the `Annotated[…]` hint fills `ArgumentOptions.kwargs` (`annotate`): `Gen.hint`;
    2. `ArgumentOptions.create` picks the default (keyword, else the class attribute) and decides `required`: `Gen.createDefault`,
       `Gen.createRequired`;
    3. `Argument.__init__` resolves `required`, `ignored` (`type.ignore` unless given), `default` / `generator` (a `field(…)` is
       unpacked) and rejects some combinations: `Gen.init…`.
    The `Gen.…` functions are regenerated from the source on every run; `Spec.…` below are the model's reading of them, and
    Proofs/ArgDecl.lean proves them equal on every environment (the *source obligations*).  `mkArg` composes the generated
    functions, so the flags the identifier model uses are derived from the declaration the way the code derives them. -/
namespace XpmVerif.ArgDecl
open XpmVerif.Ident

/-! ### reference reading of the three steps -/
namespace Spec

def typeIgnore (t : TyTag) : Bool := t == .path

def hint : Kind → Hint
  | .metaParam => { ignored := some true }
  | .option => { ignored := some true }
  | .constant => { constant := true }
  | .pathgen => { generator := true }
  | _ => {}

def createDefault (e : CreateEnv) : Sel := if e.kwHas && !e.kwDNone then .kwDflt else .classAttr
def createRequired (e : CreateEnv) : Option Bool := some (!e.optional && Sel.isNoneC e (createDefault e))

def initRequired (e : InitEnv) : Option Bool := match e.required with | none => some e.dNone | r => r
/-- `required but default value is given`, `generator and default are exclusive`, `Cannot be constant without default`. -/
def initFails (e : InitEnv) : Bool :=
  (!e.dNone && initRequired e == some true) || (!e.dNone && !e.gNone)
    || (e.constant && (e.dNone || (e.isField && e.fdNone)))
def initIgnored (e : InitEnv) : Option Bool := match e.ignored with | none => some e.tyIgnore | i => i
def initDefault (e : InitEnv) : Sel :=
  if e.dNone then .none else if !e.isField then .dflt else if !e.fdNone then .fieldDefault else .none
def initGenerator (e : InitEnv) : Sel :=
  if !e.dNone && e.isField && e.fdNone && !e.ffNone then .fieldFactory else .gen

end Spec

/-! ### declarations -/

/-- what stands on the right of `=` in the class body. -/
inductive ClassAttr where
  | absent                         -- nothing, or `= None`
  | value (v : Val)                -- `= v`
  | fieldValue (v : Val)           -- `= field(default=v)`
  | fieldFactory                   -- `= field(default_factory=f)`
  | fieldEmpty                     -- `= field()`
  deriving Repr, Inhabited

def ClassAttr.isAbsent : ClassAttr → Bool | .absent => true | _ => false
def ClassAttr.isField : ClassAttr → Bool | .fieldValue _ | .fieldFactory | .fieldEmpty => true | _ => false
def ClassAttr.fdNone : ClassAttr → Bool | .fieldValue _ => false | _ => true
def ClassAttr.ffNone : ClassAttr → Bool | .fieldFactory => false | _ => true

/-- one annotated attribute of a configuration class (`ArgSpec` of harness/xv/gen/cfggen.py). -/
structure Decl where
  name : List Nat
  kind : Kind
  ty : TyTag
  optional : Bool := false         -- `Optional[T]`
  attr : ClassAttr := .absent
  deriving Repr, Inhabited

/-- the class attribute as the code sees it (`factory` declarations carry a `field(default_factory=…)`). -/
def Decl.classAttr (d : Decl) : ClassAttr := if d.kind = .factory then .fieldFactory else d.attr

/-- the flags of the resulting `Argument` (an `Ident.Arg` without a value yet). -/
abbrev ArgDecl := Arg

def Decl.createEnv (d : Decl) : CreateEnv :=
  { optional := d.optional, kwHas := false, kwDNone := true,
    caNone := d.classAttr.isAbsent }

def Decl.initEnv (d : Decl) : InitEnv :=
  let h := Gen.ArgFlags.hint d.kind
  let ce := d.createEnv
  let dsel := Gen.ArgFlags.createDefault ce
  { dNone := Sel.isNoneC ce dsel,
    gNone := !h.generator,
    isField := dsel == .classAttr && d.classAttr.isField,
    fdNone := d.classAttr.fdNone,
    ffNone := d.classAttr.ffNone,
    tyIgnore := Gen.ArgFlags.typeIgnore d.ty,
    constant := h.constant,
    required := Gen.ArgFlags.createRequired ce,
    ignored := h.ignored }

/-- the value a `Sel` designates for this declaration. -/
def Decl.selVal (d : Decl) : Sel → Option Val
  | .dflt | .classAttr => (match d.classAttr with | .value v => some v | _ => none)
  | .fieldDefault => (match d.classAttr with | .fieldValue v => some v | _ => none)
  | _ => none

/-- `Argument(name, type, **kwargs)` for the declaration: `none` when the class definition is rejected. -/
def mkArg (d : Decl) : Option ArgDecl :=
  let e := d.initEnv
  if Gen.ArgFlags.initFails e then none else
  some { name := d.name,
         ignored := Gen.ArgFlags.initIgnored e == some true,
         generator := !Sel.isNoneI e (Gen.ArgFlags.initGenerator e),
         constant := e.constant,
         required := Gen.ArgFlags.initRequired e == some true,
         default := d.selVal (Gen.ArgFlags.initDefault e),
         value := .none }

/-- the argument of a configuration object: the declaration's flags and the object's value for it. -/
def Decl.toArg (d : Decl) (v : Val) : Option Arg := (mkArg d).map (fun a => { a with value := v })

end XpmVerif.ArgDecl
