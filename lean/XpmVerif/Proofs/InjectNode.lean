import XpmVerif.Proofs.Inject
import XpmVerif.Proofs.IsDefault
/-! C03, part 3: typing of model values (`VT`) and `canon`; node level (`nodeStream`) and identifier level
    (`rawAt`/`rawId`/`fullId`) injectivity under the ideal-hash model. -/
namespace XpmVerif.Ident
open List

/-! ### typing of model values -/

/-- `v` is a value of declared type `t` (bool is an int; members flagged `meta = True` are not looked at;
    kept list length below 2^53; text without control characters). -/
def VT (mt : Nat → Option Bool) : STy → Val → Prop
  | .int, v => (∃ i, v = .int i) ∨ (∃ b, v = .bool b)
  | .float, v => ∃ b, v = .float b ∧ b < 2^64
  | .str, v => ∃ s, v = .str s ∧ noTag s
  | .enum, v => ∃ s, v = .enum s ∧ noTag s
  | .obj, v => ∃ n, v = .ref n
  | .opt t, v => v = .none ∨ VT mt t v
  | .list t, v => ∃ l, v = .list l ∧ (l.filter (fun x => !dropped mt x)).length < 2^53 ∧
      ∀ x ∈ l, dropped mt x = false → VT mt t x
  | .dict t, v => ∃ ks vs, v = .dict ks vs ∧ (∀ k ∈ ks, noTag k) ∧
      ∀ x ∈ vs, dropped mt x = false → VT mt t x

theorem canonItems_length (cfg mt) : ∀ l : List Val,
    (canonItems cfg mt l).length = (l.filter (fun x => !dropped mt x)).length
  | [] => by simp [canonItems]
  | v :: vs => by
    simp only [canonItems, filter_cons]
    split <;> simp_all [canonItems_length cfg mt vs]

theorem mem_canonItems (cfg mt) : ∀ (l : List Val) (x : SVal), x ∈ canonItems cfg mt l →
    ∃ v ∈ l, dropped mt v = false ∧ x = canon cfg mt v
  | [], x, h => by simp [canonItems] at h
  | v :: vs, x, h => by
    simp only [canonItems] at h
    split at h
    · obtain ⟨w, hw, hd, he⟩ := mem_canonItems cfg mt vs x h
      exact ⟨w, by simp [hw], hd, he⟩
    · simp only [mem_cons] at h
      rcases h with rfl | h
      · exact ⟨v, by simp, by simp_all, rfl⟩
      · obtain ⟨w, hw, hd, he⟩ := mem_canonItems cfg mt vs x h
        exact ⟨w, by simp [hw], hd, he⟩

theorem mem_canonPairs (cfg mt) : ∀ (ks : List (List Nat)) (vs : List Val) (p : List Nat × SVal),
    p ∈ canonPairs cfg mt ks vs → p.1 ∈ ks ∧ ∃ v ∈ vs, dropped mt v = false ∧ p.2 = canon cfg mt v
  | [], _, p, h => by simp [canonPairs] at h
  | _ :: _, [], p, h => by simp [canonPairs] at h
  | k :: ks, v :: vs, p, h => by
    simp only [canonPairs] at h
    split at h
    · obtain ⟨h1, w, hw, hd, he⟩ := mem_canonPairs cfg mt ks vs p h
      exact ⟨by simp [h1], w, by simp [hw], hd, he⟩
    · simp only [mem_cons] at h
      rcases h with rfl | h
      · exact ⟨by simp, v, by simp, by simp_all, rfl⟩
      · obtain ⟨h1, w, hw, hd, he⟩ := mem_canonPairs cfg mt ks vs p h
        exact ⟨by simp [h1], w, by simp [hw], hd, he⟩

/-- the canonical form of a well-typed value is a well-typed signature value. -/
theorem wt_canon (cfg mt) (hc : ∀ m, wtObj (cfg m)) : ∀ (t : STy) (v : Val), VT mt t v → wt t (canon cfg mt v)
  | .int, v, h => by
    rcases h with ⟨i, rfl⟩ | ⟨b, rfl⟩
    · simp only [canon]
      refine ⟨_, rfl, ?_⟩
      have : (0:Int) ≤ i % 2^64 ∧ i % 2^64 < 2^64 := ⟨Int.emod_nonneg _ (by decide), Int.emod_lt_of_pos _ (by decide)⟩
      omega
    · simp only [canon]
      refine ⟨_, rfl, ?_⟩
      cases b <;> simp
  | .float, v, h => by obtain ⟨b, rfl, hb⟩ := h; exact ⟨b, by simp [canon], hb⟩
  | .str, v, h => by obtain ⟨b, rfl, hb⟩ := h; exact ⟨b, by simp [canon], hb⟩
  | .enum, v, h => by obtain ⟨b, rfl, hb⟩ := h; exact ⟨b, by simp [canon], hb⟩
  | .obj, v, h => by obtain ⟨b, rfl⟩ := h; exact ⟨_, by simp [canon], hc b⟩
  | .opt t, v, h => by
    rcases h with rfl | h
    · left; simp [canon]
    · right; exact wt_canon cfg mt hc t v h
  | .list t, v, h => by
    obtain ⟨l, rfl, hl, hw⟩ := h
    simp only [canon]
    refine ⟨_, rfl, by rw [canonItems_length]; exact hl, ?_⟩
    intro x hx
    obtain ⟨w, hw', hd, rfl⟩ := mem_canonItems cfg mt l x hx
    exact wt_canon cfg mt hc t w (hw w hw' hd)
  | .dict t, v, h => by
    obtain ⟨ks, vs, rfl, hk, hw⟩ := h
    simp only [canon]
    refine ⟨_, _, rfl, by simp, ?_, ?_⟩
    · intro k hk'
      simp only [mem_map] at hk'
      obtain ⟨p, hp, rfl⟩ := hk'
      have := (sortBy_perm _ _).subset hp
      exact hk _ (mem_canonPairs cfg mt ks vs p this).1
    · intro x hx
      simp only [mem_map] at hx
      obtain ⟨p, hp, rfl⟩ := hx
      have := (sortBy_perm _ _).subset hp
      obtain ⟨_, w, hw', hd, he⟩ := mem_canonPairs cfg mt ks vs p this
      rw [he]
      exact wt_canon cfg mt hc t w (hw w hw' hd)

/-- **value level**: well-typed values of an unambiguous type with equal encodings (followed by admissible
    continuations) have the same canonical form, i.e. the same signature. -/
theorem encVal_inj (cfg1 cfg2 mt1 mt2) (hc1 : ∀ m, wtObj (cfg1 m)) (hc2 : ∀ m, wtObj (cfg2 m))
    (t : STy) (hok : ok t) (v1 v2 : Val) (r1 r2 : List Nat)
    (h1 : VT mt1 t v1) (h2 : VT mt2 t v2) (hr1 : safe r1) (hr2 : safe r2)
    (ha1 : Avoid (need t) r1) (ha2 : Avoid (need t) r2)
    (h : encVal cfg1 mt1 v1 ++ r1 = encVal cfg2 mt2 v2 ++ r2) :
    canon cfg1 mt1 v1 = canon cfg2 mt2 v2 ∧ r1 = r2 := by
  rw [encVal_eq_encS_canon, encVal_eq_encS_canon] at h
  exact encS_inj t hok _ _ r1 r2 (wt_canon cfg1 mt1 hc1 t v1 h1) (wt_canon cfg2 mt2 hc2 t v2 h2) hr1 hr2 ha1 ha2 h

/-- within int64, the canonical form determines the integer. -/
theorem canon_int_inj (cfg1 cfg2 mt1 mt2) (i j : Int) (hi : -2^63 ≤ i ∧ i < 2^63) (hj : -2^63 ≤ j ∧ j < 2^63)
    (h : canon cfg1 mt1 (.int i) = canon cfg2 mt2 (.int j)) : i = j := by
  simp only [canon, SVal.int.injEq] at h
  have h1 : (0:Int) ≤ i % 2^64 := Int.emod_nonneg _ (by decide)
  have h2 : (0:Int) ≤ j % 2^64 := Int.emod_nonneg _ (by decide)
  have : i % 2^64 = j % 2^64 := by omega
  omega

/-- equal canonical dicts have the same kept items up to order (`canon` *is* the signature: by
    `encVal_dict_perm` the converse holds for distinct keys). -/
theorem canon_dict_items_perm (cfg1 cfg2 mt1 mt2) (ks1 ks2 : List (List Nat)) (vs1 vs2 : List Val)
    (h : canon cfg1 mt1 (.dict ks1 vs1) = canon cfg2 mt2 (.dict ks2 vs2)) :
    canonPairs cfg1 mt1 ks1 vs1 ~ canonPairs cfg2 mt2 ks2 vs2 := by
  simp only [canon, SVal.dict.injEq] at h
  have hz : ∀ l : List (List Nat × SVal), l = (l.map (·.1)).zip (l.map (·.2)) := by
    intro l; induction l with
    | nil => rfl
    | cons a l ih => simp [← ih]
  have e : sortBy (fun a b => bytesLe a.1 b.1) (canonPairs cfg1 mt1 ks1 vs1)
      = sortBy (fun a b => bytesLe a.1 b.1) (canonPairs cfg2 mt2 ks2 vs2) := by
    rw [hz (sortBy _ (canonPairs cfg1 mt1 ks1 vs1)), hz (sortBy _ (canonPairs cfg2 mt2 ks2 vs2)), h.1, h.2]
  exact (sortBy_perm _ _).symm.trans (by rw [e]; exact sortBy_perm _ _)

/-! ### node level -/

/-- the arguments part of a node stream, from the list of (name, signature value). -/
def encArgs : List (List Nat × SVal) → List Nat
  | [] => []
  | p :: rest => 3 :: p.1 ++ 5 :: encS p.2 ++ encArgs rest

/-- contribution of one argument to the signature: nothing if skipped. -/
def argSig (cfg : Nat → List Nat) (ceq : Nat → Nat → Bool) (mt : Nat → Option Bool) (a : Arg) : Option (List Nat × SVal) :=
  if included ceq mt a then some (a.name, canon cfg mt a.value) else none

/-- **the arguments part of a node's signature**: (name, canonical value) of the included arguments, sorted by name. -/
def sigArgs (cfg : Nat → List Nat) (ceq : Nat → Nat → Bool) (mt : Nat → Option Bool) (nd : Node) : List (List Nat × SVal) :=
  (sortBy (fun a b => bytesLe a.name b.name) nd.args).filterMap (argSig cfg ceq mt)

/-- the producing-task part of a node stream. -/
def taskPart (cfg : Nat → List Nat) (self : Nat) (nd : Node) : List Nat :=
  match nd.task with
  | some t => if t ≠ self then 8 :: 0 :: cfg t else []
  | none => []

theorem flatten_argStream (cfg ceq mt) : ∀ l : List Arg,
    (l.map (argStream cfg ceq mt)).flatten = encArgs (l.filterMap (argSig cfg ceq mt))
  | [] => by simp [encArgs]
  | a :: l => by
    simp only [map_cons, flatten_cons, filterMap_cons, argStream, argSig, flatten_argStream cfg ceq mt l]
    split
    · simp [encArgs, encVal_eq_encS_canon]
    · simp

/-- the node stream is a function of the node's signature parts. -/
theorem nodeStream_eq (cfg ceq mt self) (nd : Node) :
    nodeStream cfg ceq mt self nd = 0 :: (taskPart cfg self nd ++ (nd.typeId ++ encArgs (sigArgs cfg ceq mt nd))) := by
  simp only [nodeStream, flatten_argStream, sigArgs, taskPart, cons_append, append_assoc]
  rfl

/-- the included arguments have control-free names and well-typed values of unambiguous types, for a typing
    `τ` of argument names (the class declaration). -/
def WtArgs (τ : List Nat → STy) (A : List (List Nat × SVal)) : Prop :=
  ∀ p ∈ A, noTag p.1 ∧ ok (τ p.1) ∧ wt (τ p.1) p.2

theorem encArgs_cont (τ : List Nat → STy) (t : STy) : ∀ A, WtArgs τ A → safe (encArgs A) ∧ Avoid (need t) (encArgs A)
  | [], _ => ⟨trivial, avoid_nil _⟩
  | p :: rest, h => by
    refine ⟨by simp [encArgs, safe], ?_⟩
    intro k t' rest' hk ht' heq
    simp only [encArgs, cons_append, cons.injEq, true_and, append_assoc] at heq
    have := str_split (h p (by simp)).1 hk (r1 := 5 :: (encS p.2 ++ encArgs rest)) (r2 := t' :: rest')
      (by simp [safe]) (need_lt t ht') heq
    have e : 5 = t' := by have := this.2; simp only [cons.injEq] at this; exact this.1
    exact name_tag_not_needed t (e ▸ ht')

/-- the arguments part determines the list of (name, signature value). -/
theorem encArgs_inj (τ : List Nat → STy) : ∀ A1 A2, WtArgs τ A1 → WtArgs τ A2 →
    encArgs A1 = encArgs A2 → A1 = A2
  | [], [], _, _, _ => rfl
  | [], _ :: _, _, _, h => by simp [encArgs] at h
  | _ :: _, [], _, _, h => by simp [encArgs] at h
  | p :: r1, q :: r2, h1, h2, h => by
    simp only [encArgs, cons_append, cons.injEq, true_and, append_assoc] at h
    have hp := h1 p (by simp)
    have hq := h2 q (by simp)
    have hn := str_split hp.1 hq.1 (r1 := 5 :: (encS p.2 ++ encArgs r1)) (r2 := 5 :: (encS q.2 ++ encArgs r2))
      (by simp [safe]) (by simp [safe]) h
    have hrest := hn.2
    simp only [cons.injEq, true_and] at hrest
    have hw1 : WtArgs τ r1 := fun x hx => h1 x (by simp [hx])
    have hw2 : WtArgs τ r2 := fun x hx => h2 x (by simp [hx])
    have c1 := encArgs_cont τ (τ p.1) r1 hw1
    have c2 := encArgs_cont τ (τ p.1) r2 hw2
    have hv := encS_inj (τ p.1) hp.2.1 p.2 q.2 _ _ hp.2.2 (hn.1 ▸ hq.2.2) c1.1 c2.1 c1.2 c2.2 hrest
    have := encArgs_inj τ r1 r2 hw1 hw2 hv.2
    have e : p = q := Prod.ext hn.1 hv.1
    rw [e, this]

theorem taskPart_cases (cfg self) (nd : Node) (hc : ∀ m, wtObj (cfg m)) :
    taskPart cfg self nd = [] ∨ ∃ c, wtObj c ∧ taskPart cfg self nd = 8 :: 0 :: c := by
  unfold taskPart
  split
  · split
    · exact Or.inr ⟨_, hc _, rfl⟩
    · exact Or.inl rfl
  · exact Or.inl rfl

theorem typeId_args_head (τ) (ty : List Nat) (A) (ht : noTag ty) (hw : WtArgs τ A) :
    ∀ r, ty ++ encArgs A ≠ 8 :: r := by
  intro r h
  cases ty with
  | nil =>
    cases A with
    | nil => simp [encArgs] at h
    | cons p rest => simp [encArgs] at h
  | cons b ty =>
    have := (noTag_cons.1 ht).1
    simp only [cons_append, cons.injEq] at h
    omega

theorem safe_encArgs (A) : safe (encArgs A) := by
  cases A <;> simp [encArgs, safe]

/-- **node level**: two nodes whose classes declare the same argument types whenever they have the same type
    identifier (`hτ`): equal node streams ⇒ same producing-task part, same type identifier, same list of
    (name, signature value) of the included arguments. -/
theorem nodeStream_inj (τ1 τ2 : List Nat → STy) (cfg1 cfg2 : Nat → List Nat) (ceq1 ceq2 : Nat → Nat → Bool)
    (mt1 mt2 : Nat → Option Bool)
    (self1 self2 : Nat) (nd1 nd2 : Node)
    (hc1 : ∀ m, wtObj (cfg1 m)) (hc2 : ∀ m, wtObj (cfg2 m))
    (ht1 : noTag nd1.typeId) (ht2 : noTag nd2.typeId)
    (hτ : nd1.typeId = nd2.typeId → τ1 = τ2)
    (hw1 : WtArgs τ1 (sigArgs cfg1 ceq1 mt1 nd1)) (hw2 : WtArgs τ2 (sigArgs cfg2 ceq2 mt2 nd2))
    (h : nodeStream cfg1 ceq1 mt1 self1 nd1 = nodeStream cfg2 ceq2 mt2 self2 nd2) :
    taskPart cfg1 self1 nd1 = taskPart cfg2 self2 nd2 ∧ nd1.typeId = nd2.typeId ∧
      sigArgs cfg1 ceq1 mt1 nd1 = sigArgs cfg2 ceq2 mt2 nd2 := by
  rw [nodeStream_eq, nodeStream_eq] at h
  simp only [cons.injEq, true_and] at h
  have fin : ∀ (hh : nd1.typeId ++ encArgs (sigArgs cfg1 ceq1 mt1 nd1) = nd2.typeId ++ encArgs (sigArgs cfg2 ceq2 mt2 nd2)),
      nd1.typeId = nd2.typeId ∧ sigArgs cfg1 ceq1 mt1 nd1 = sigArgs cfg2 ceq2 mt2 nd2 := by
    intro hh
    have := str_split ht1 ht2 (safe_encArgs _) (safe_encArgs _) hh
    have e := hτ this.1
    subst e
    exact ⟨this.1, encArgs_inj τ1 _ _ hw1 hw2 this.2⟩
  rcases taskPart_cases cfg1 self1 nd1 hc1 with e1 | ⟨c1, hwc1, e1⟩ <;>
    rcases taskPart_cases cfg2 self2 nd2 hc2 with e2 | ⟨c2, hwc2, e2⟩
  · rw [e1, e2] at h ⊢
    exact ⟨rfl, fin (by simpa using h)⟩
  · rw [e1, e2] at h
    exact absurd (by simpa using h) (typeId_args_head τ1 _ _ ht1 hw1 _)
  · rw [e1, e2] at h
    exact absurd (by simpa using h.symm) (typeId_args_head τ2 _ _ ht2 hw2 _)
  · rw [e1, e2] at h ⊢
    simp only [cons_append, cons.injEq, true_and] at h
    have := obj_split hwc1 hwc2 h
    exact ⟨by rw [this.1], fin this.2⟩

/-- typing of a node at the level of model values: every argument that *can be included* (whatever the
    comparisons `ceq` of configuration identifiers with those of the defaults give) has a control-free name and
    a value of its declared, unambiguous type. -/
def ArgsTyped (τ : List Nat → STy) (mt : Nat → Option Bool) (nd : Node) : Prop :=
  ∀ a ∈ nd.args, ∀ ceq, included ceq mt a = true → noTag a.name ∧ ok (τ a.name) ∧ VT mt (τ a.name) a.value

theorem wtArgs_of_typed (τ cfg ceq mt) (hc : ∀ m, wtObj (cfg m)) (nd : Node) (h : ArgsTyped τ mt nd) :
    WtArgs τ (sigArgs cfg ceq mt nd) := by
  intro p hp
  simp only [sigArgs, mem_filterMap, argSig] at hp
  obtain ⟨a, ha, hpa⟩ := hp
  have ha' := (sortBy_perm _ _).subset ha
  split at hpa
  · rename_i hinc
    simp only [Option.some.injEq] at hpa
    subst hpa
    have := h a ha' ceq hinc
    exact ⟨this.1, this.2.1, wt_canon cfg mt hc _ _ this.2.2⟩
  · simp at hpa

/-! ### identifier level (ideal hash: `H` injective, a digest is one token `256 + d`) -/

theorem relIndex_le : ∀ (stack : List Nat) (m k : Nat), relIndex stack m = some k → k ≤ stack.length
  | [], _, _, h => by simp [relIndex] at h
  | x :: xs, m, k, h => by
    simp only [relIndex] at h
    split at h
    · simp only [Option.some.injEq] at h; subst h; simp
    · simp only [Option.map_eq_some_iff] at h
      obtain ⟨j, hj, rfl⟩ := h
      have := relIndex_le xs m j hj
      simp; omega

theorem wtObj_cfgAt (hc : HC Nat) (hemb : ∀ d, hc.emb d = [256 + d]) (g : Graph) (fuel : Nat) (stack : List Nat)
    (hs : stack.length < 2^64) (m : Nat) : wtObj (cfgAt hc g fuel stack m) := by
  unfold cfgAt
  split
  · rename_i k hk
    exact Or.inl ⟨k, by have := relIndex_le stack m k hk; omega, rfl⟩
  · exact Or.inr ⟨_, hemb _⟩

/-- **one step of the raw identifier**: equal raw identifiers come from equal node streams. -/
theorem rawAt_stream (hc : HC Nat) (hinj : ∀ a b, hc.H a = hc.H b → a = b) (g1 g2 : Graph) (f1 f2 : Nat)
    (s1 s2 : List Nat) (n1 n2 : Nat) (h : rawAt hc g1 (f1 + 1) s1 n1 = rawAt hc g2 (f2 + 1) s2 n2) :
    nodeStream (cfgAt hc g1 f1 (n1 :: s1)) (ceqAt hc g1 f1 (n1 :: s1)) g1.mt n1 (g1.node n1)
      = nodeStream (cfgAt hc g2 f2 (n2 :: s2)) (ceqAt hc g2 f2 (n2 :: s2)) g2.mt n2 (g2.node n2) :=
  hinj _ _ h

/-- **raw identifier ⇒ signature, one level**: at any depth of the computation. -/
theorem rawAt_inj_step (hc : HC Nat) (hinj : ∀ a b, hc.H a = hc.H b → a = b) (hemb : ∀ d, hc.emb d = [256 + d])
    (τ1 τ2 : List Nat → STy) (g1 g2 : Graph) (f1 f2 : Nat) (s1 s2 : List Nat) (n1 n2 : Nat)
    (hs1 : s1.length + 1 < 2^64) (hs2 : s2.length + 1 < 2^64)
    (ht1 : noTag (g1.node n1).typeId) (ht2 : noTag (g2.node n2).typeId)
    (hτ : (g1.node n1).typeId = (g2.node n2).typeId → τ1 = τ2)
    (hw1 : ArgsTyped τ1 g1.mt (g1.node n1)) (hw2 : ArgsTyped τ2 g2.mt (g2.node n2))
    (h : rawAt hc g1 (f1 + 1) s1 n1 = rawAt hc g2 (f2 + 1) s2 n2) :
    taskPart (cfgAt hc g1 f1 (n1 :: s1)) n1 (g1.node n1) = taskPart (cfgAt hc g2 f2 (n2 :: s2)) n2 (g2.node n2) ∧
    (g1.node n1).typeId = (g2.node n2).typeId ∧
    sigArgs (cfgAt hc g1 f1 (n1 :: s1)) (ceqAt hc g1 f1 (n1 :: s1)) g1.mt (g1.node n1)
      = sigArgs (cfgAt hc g2 f2 (n2 :: s2)) (ceqAt hc g2 f2 (n2 :: s2)) g2.mt (g2.node n2) :=
  nodeStream_inj τ1 τ2 _ _ _ _ _ _ _ _ _ _
    (wtObj_cfgAt hc hemb g1 f1 _ (by simpa using hs1)) (wtObj_cfgAt hc hemb g2 f2 _ (by simpa using hs2))
    ht1 ht2 hτ
    (wtArgs_of_typed _ _ _ _ (wtObj_cfgAt hc hemb g1 f1 _ (by simpa using hs1)) _ hw1)
    (wtArgs_of_typed _ _ _ _ (wtObj_cfgAt hc hemb g2 f2 _ (by simpa using hs2)) _ hw2)
    (rawAt_stream hc hinj _ _ _ _ _ _ _ _ h)

/-! ### full identifier -/

theorem flatten_emb (hc : HC Nat) (hemb : ∀ d, hc.emb d = [256 + d]) (l : List Nat) :
    (l.map hc.emb).flatten = l.map (256 + ·) := by
  induction l with
  | nil => rfl
  | cons a l ih => simp [hemb, ih]

theorem flatten_tok (f : Nat → Nat) (l : List Nat) :
    (l.map (fun i => [256 + f i])).flatten = (l.map f).map (256 + ·) := by
  induction l with
  | nil => rfl
  | cons a l ih => simp [ih]

theorem map_tok_inj : ∀ l1 l2 : List Nat, l1.map (256 + ·) = l2.map (256 + ·) → l1 = l2
  | [], [], _ => rfl
  | [], _ :: _, h => by simp at h
  | _ :: _, [], h => by simp at h
  | a :: l1, b :: l2, h => by
    simp only [map_cons, cons.injEq] at h
    have := map_tok_inj l1 l2 h.2
    have : a = b := by omega
    simp_all

/-- digest tokens followed by nothing or by the INIT_TASKS marker. -/
theorem tok_split : ∀ (l1 l2 t1 t2 : List Nat), (t1 = [] ∨ ∃ x, t1 = 12 :: x) → (t2 = [] ∨ ∃ x, t2 = 12 :: x) →
    l1.map (256 + ·) ++ t1 = l2.map (256 + ·) ++ t2 → l1 = l2 ∧ t1 = t2
  | [], [], _, _, _, _, h => by simpa using h
  | [], b :: l2, t1, t2, h1, _, h => by
    rcases h1 with rfl | ⟨x, rfl⟩
    · simp at h
    · simp only [map_nil, nil_append, map_cons, cons_append, cons.injEq] at h; omega
  | a :: l1, [], t1, t2, _, h2, h => by
    rcases h2 with rfl | ⟨x, rfl⟩
    · simp at h
    · simp only [map_nil, nil_append, map_cons, cons_append, cons.injEq] at h; omega
  | a :: l1, b :: l2, t1, t2, h1, h2, h => by
    simp only [map_cons, cons_append, cons.injEq] at h
    have := tok_split l1 l2 t1 t2 h1 h2 h.2
    have : a = b := by omega
    simp_all

/-- **full identifier**: equal full identifiers ⇒ equal raw identifier, equal sorted pre-task identifiers,
    equal sequence of init-task identifiers. -/
theorem fullId_inj (hc : HC Nat) (hinj : ∀ a b, hc.H a = hc.H b → a = b) (hemb : ∀ d, hc.emb d = [256 + d])
    (g1 g2 : Graph) (n1 n2 : Nat) (h : fullId hc g1 n1 = fullId hc g2 n2) :
    rawId hc g1 n1 = rawId hc g2 n2 ∧
    sortBy hc.le ((collectPreTasks g1 n1).map (rawId hc g1)) = sortBy hc.le ((collectPreTasks g2 n2).map (rawId hc g2)) ∧
    (g1.node n1).initTasks.map (rawId hc g1) = (g2.node n2).initTasks.map (rawId hc g2) := by
  have h := hinj _ _ h
  simp only [hemb, flatten_emb hc hemb, cons_append, nil_append, cons.injEq] at h
  obtain ⟨hraw, h⟩ := h
  have hraw : rawId hc g1 n1 = rawId hc g2 n2 := by omega
  refine ⟨hraw, ?_⟩
  have key := tok_split _ _ _ _ ?_ ?_ h
  · refine ⟨key.1, ?_⟩
    have k2 := key.2
    cases e1 : (g1.node n1).initTasks <;> cases e2 : (g2.node n2).initTasks <;> simp only [e1, e2] at k2
    · rfl
    · simp at k2
    · simp at k2
    · simp only [isEmpty_cons, Bool.false_eq_true, if_false, cons.injEq, true_and] at k2
      rw [flatten_tok, flatten_tok] at k2
      exact map_tok_inj _ _ k2
  · split
    · exact Or.inl rfl
    · exact Or.inr ⟨_, rfl⟩
  · split
    · exact Or.inl rfl
    · exact Or.inr ⟨_, rfl⟩

/-! ### a Boolean checker for `VT` (to state concrete well-typed witnesses by `decide`) -/

def noTagb (s : List Nat) : Bool := s.all (fun b => decide (13 ≤ b))

theorem noTagb_sound {s : List Nat} (h : noTagb s = true) : noTag s := by
  intro b hb
  simp only [noTagb, all_eq_true, decide_eq_true_eq] at h
  exact h b hb

def vtb (mt : Nat → Option Bool) : STy → Val → Bool
  | .int, v => match v with | .int _ => true | .bool _ => true | _ => false
  | .float, v => match v with | .float b => decide (b < 2^64) | _ => false
  | .str, v => match v with | .str s => noTagb s | _ => false
  | .enum, v => match v with | .enum s => noTagb s | _ => false
  | .obj, v => match v with | .ref _ => true | _ => false
  | .opt t, v => (match v with | .none => true | _ => false) || vtb mt t v
  | .list t, v => match v with
    | .list l => decide ((l.filter (fun x => !dropped mt x)).length < 2^53) && l.all (fun x => dropped mt x || vtb mt t x)
    | _ => false
  | .dict t, v => match v with
    | .dict ks vs => ks.all noTagb && vs.all (fun x => dropped mt x || vtb mt t x)
    | _ => false

theorem vtb_sound (mt : Nat → Option Bool) : ∀ (t : STy) (v : Val), vtb mt t v = true → VT mt t v
  | .int, v, h => by cases v <;> simp [vtb] at h <;> simp [VT]
  | .float, v, h => by cases v <;> simp [vtb] at h; simpa [VT] using h
  | .str, v, h => by cases v <;> simp only [vtb] at h <;> first | exact absurd h (by decide) | exact ⟨_, rfl, noTagb_sound h⟩
  | .enum, v, h => by cases v <;> simp only [vtb] at h <;> first | exact absurd h (by decide) | exact ⟨_, rfl, noTagb_sound h⟩
  | .obj, v, h => by cases v <;> simp [vtb] at h; exact ⟨_, rfl⟩
  | .opt t, v, h => by
    simp only [vtb, Bool.or_eq_true] at h
    rcases h with h | h
    · left; cases v <;> simp at h; rfl
    · right; exact vtb_sound mt t v h
  | .list t, v, h => by
    cases v <;> simp only [vtb] at h <;> try (exact absurd h (by decide))
    rename_i l
    simp only [Bool.and_eq_true, decide_eq_true_eq, all_eq_true, Bool.or_eq_true] at h
    refine ⟨l, rfl, h.1, ?_⟩
    intro x hx hd
    rcases h.2 x hx with h' | h'
    · rw [hd] at h'; exact absurd h' (by decide)
    · exact vtb_sound mt t x h'
  | .dict t, v, h => by
    cases v <;> simp only [vtb] at h <;> try (exact absurd h (by decide))
    rename_i ks vs
    simp only [Bool.and_eq_true, all_eq_true, Bool.or_eq_true] at h
    refine ⟨ks, vs, rfl, fun k hk => noTagb_sound (h.1 k hk), ?_⟩
    intro x hx hd
    rcases h.2 x hx with h' | h'
    · rw [hd] at h'; exact absurd h' (by decide)
    · exact vtb_sound mt t x h'

end XpmVerif.Ident
