"""C12 — saving and loading a configuration graph loses nothing.

Correspondence: class libraries generated as real packages (xv.gen.cfggen + DataPath arguments), graphs
built with the real constructors; the *definition list* written by the real `__json__` / `state_dict`
(canonical JSON, python ids mapped to node indices) and the objects rebuilt by `load_objects`
(`fromParameters(as_instance=False)`, `from_state_dict`) are compared with the Lean model M5
(Drive/Serial.lean), as is the identifier recomputed on the reloaded graph (M5 + M1, SHA-256).
Monitors (implementation only): structural comparison original vs reloaded for the three entry points
(`__json__`/`fromParameters`, `state_dict`/`from_state_dict`, `save`/`load` with DataPath copies),
recomputed identifier, and the parameter values / tags observed by the task code when the job side
(`run.py::run` on a real `params.json`) rebuilds the task — in this process (quick) and in real job
processes started from scripts generated in GENERATE_ONLY mode (thorough).
Submission histories on one workspace (xv.impl.c12x_hist_worker, both tiers): a task is prepared only / run by the real
scheduler on a machine where it fails, then submitted again — possibly from another experiment — with other values of what
the identifier ignores (Meta/Option values, paths, content of meta sub-configurations, meta members, tags: same job
folder) and really run; at every step that starts a job process the echo of the task code and `from_task_dir(job.path)`
are compared with the graph configured *for that submission*."""
import copy
import random

from .. import common, identlib, seriallib
from ..gen import edits
from ..translate import serialflags, serialkeys

PROP = "C12"
MODULES = ["XpmVerif.Properties.C12", "XpmVerif.Properties.C12Source"]
seriallib.install_local_findings(PROP)


def prove(ctx):
    msgs = [serialflags.generate(common.REPO, common.LEAN), serialkeys.generate(common.REPO, common.LEAN)]
    ctx.notes.append(f"translator(serialflags): {msgs[0][1]}")
    ctx.notes.append(f"translator(serialkeys): {msgs[1][1]}")
    comps = serialkeys.components(common.REPO)
    ctx.extra_cov["translator_components"] = {"translated": [n for n, ok, _ in comps if ok], "untranslated": [n for n, ok, _ in comps if not ok]}
    common.check_proofs(ctx, MODULES, translate_msgs=msgs)


def correspond(ctx):
    rng = ctx.rng
    ctx.rule = ("a case = generated class library (real package: Param/Meta/Option/Constant/pathgenerator/DataPath arguments over int, float, str, bool, Path, "
                "enums, lists, dicts, optionals, nested configurations) + configuration graph (<= ~14 nodes: sharing, cycles, meta flags None/True/False, "
                "pre-tasks, init tasks, task outputs, tags) + entry points (__json__/fromParameters always; state_dict/from_state_dict on a list/dict structure "
                "of nodes, save/load, params.json -> run() with probability 1/2 each; thorough: real job processes); non-trivial = at least one nested "
                "configuration reference; distinct = hash of (library, graph, entry points); kind `hist` = submission history on one workspace: a task-rooted acyclic "
                "graph (<= 16 nodes) then 1-3 further submissions, each a neutral edit of the previous one (Meta/Option value, path, meta member, content of a meta "
                "sub-configuration, tag: same job folder) or unchanged, every step either GENERATE_ONLY, a real run on a machine that lacks resources (the body "
                "fails after echoing), or a real run; same or other experiment name")
    ctx.assumptions += [
        "dict keys are strings (the key \"type\" included: such dictionaries are written wrapped, model and code alike); ints within int64; text is valid UTF-8",
        "enum values are identified by module.qualname:name; `is_folder` of a serialised data path is not compared",
        "argument validation on load is the identity on values that were validated when first set (exercised, not proved)",
        "SHA-256 itself is not verified (identifier bytes of model and implementation are compared)",
        "histories: a job that is already done is not run again and nothing is demanded of its folder; the task link a submitted task has to itself is not compared; "
        "a relative DataPath is compared as the file it denotes in the job folder",
        "a class is identified by (package module, qualified name) or, outside a package, by (defining file, qualified name): the module name under which a file is registered is not part of the identity",
    ]
    # submission histories on one workspace: real scheduler, real job processes, state surviving in the job folder
    # (own random stream; the worker processes run in the background while the other cases are evaluated)
    from concurrent.futures import ThreadPoolExecutor
    hlibs, hcases = make_hist_cases(ctx, random.Random(f"hist-c12-{ctx.seed}"), ctx.scale(4, 8), ctx.scale(4, 8), "c12h")
    hpool = ThreadPoolExecutor(max_workers=1)
    hfut = hpool.submit(run_hist, _SubTmp(ctx, "hist"), hlibs, hcases, ctx.scale(8, 12))
    libs, cases = seriallib.make_cases(ctx, rng, "c12", ctx.scale(6, 30), ctx.scale(80, 130), "c12")
    recs = seriallib.run(ctx, libs, cases, shards=ctx.scale(8, 12))
    seriallib.evaluate(ctx, libs, cases, recs, "definition list / reloaded graph / recomputed identifier")
    # classes that do not live in a package (recorded with their file): written by one script, loaded by a fresh process
    fcases = seriallib.make_file_cases(ctx, rng, ctx.scale(6, 32))
    frecs = seriallib.run(ctx, libs[:1], fcases, shards=ctx.scale(6, 12))
    seriallib.evaluate(ctx, libs[:1], fcases, frecs, "classes of plain scripts: definition list / reloaded graph")
    hrecs = hfut.result()
    hpool.shutdown()
    evaluate_hist(ctx, hlibs, hcases, hrecs)
    if not ctx.quick():
        plibs, pcases = seriallib.make_proc_cases(ctx, rng, "c12", 8, 15, "c12p")
        precs = seriallib.run(ctx, plibs, pcases, shards=12)
        seriallib.evaluate(ctx, plibs, pcases, precs, "real job process", with_model=False)
        ctx.extra_cov["real_job_processes"] = sum(1 for r in precs if not r["error"])


def search(ctx):
    rng = random.Random(f"search-c12-{ctx.seed}")
    libs, cases = seriallib.make_cases(ctx, rng, "c12", ctx.scale(6, 20), 60, "c12s")
    recs = seriallib.run(ctx, libs, cases, shards=8)
    for c, r in zip(cases, recs):
        if not r["error"]:
            for m in r["monitors"]:
                ctx.monitor_fail(m["key"], m["what"], {"case": seriallib.case_desc(libs, c), "detail": m.get("detail")})


# ----------------------------------------------------------------- submission histories on one workspace

HIST_WORKER = "xv.impl.c12x_hist_worker"
# neutral edits whose effect is visible in the parameter values / tags of the submitted graph
OBSERVABLE_EDITS = ("meta_value", "path_value", "meta_member", "inside_meta", "tag")


HIST_MAX_NODES = 16
HIST_MAX_PATHS = 400


def walk_cost(g):
    """number of root-to-node paths of an acyclic spec graph: `submit` walks a configuration once per path that leads to it
    (updatedependencies keeps no visited set), so heavily shared graphs cost exponential time — histories keep to graphs
    that stay cheap to submit"""
    memo = {}

    def paths(i):
        if i not in memo:
            memo[i] = None     # acyclic by construction; a cycle would show up as None below
            nd = g["nodes"][i]
            kids = [r for _, v in nd["values"] for r in identlib._refs(v)] + list(nd["pre"]) + list(nd["init"])
            memo[i] = 1 + sum(paths(k) or 0 for k in kids)
        return memo[i]

    return paths(0)


def hist_ok(g):
    return len(g["nodes"]) <= HIST_MAX_NODES and walk_cost(g) <= HIST_MAX_PATHS


def hist_edit(rng, lib, g):
    """the next submission of the same task: only what the identifier ignores changes (or nothing at all)"""
    if rng.random() < 0.12:
        return copy.deepcopy(g), None
    best = None
    for _ in range(8):
        e = edits.neutral_edit(rng, lib, g)
        if e is None or e[1]["kind"] == "dependency" or not hist_ok(e[0]):     # tokens belong to C08
            continue
        best = e
        if e[1]["kind"] in OBSERVABLE_EDITS:
            break
    if best is None:
        return copy.deepcopy(g), None
    g2, d = best
    for nd in g2["nodes"]:
        nd.pop("deps", None)
    return g2, {k: v for k, v in d.items() if k in ("kind", "node", "arg", "how")}


def gen_hist_steps(rng, lib, g):
    n = rng.choice([2, 2, 2, 3, 3, 4])
    steps, cur = [], g
    for i in range(n):
        last = i == n - 1
        r = rng.random()
        if last:
            mode, fail = ("run", False) if r < 0.9 else ("generate", False)
        elif r < 0.42:
            mode, fail = "generate", False
        elif r < 0.88:
            mode, fail = "run", True
        else:
            mode, fail = "run", False      # the job finishes: later submissions do not run it again
        edit = None
        if i > 0:
            cur, edit = hist_edit(rng, lib, cur)
        steps.append({"mode": mode, "fail": fail, "graph": cur, "edit": edit, "xp": rng.choice([0, 0, 1])})
    return steps


def make_hist_cases(ctx, rng, nlibs, per, tag):
    libs, cases = [], []
    for li in range(nlibs):
        lib = seriallib.gen_lib(rng, f"{tag}_{ctx.seed}_{li}")
        libs.append(lib)
        n = tries = 0
        while n < per and tries < per * 30:
            tries += 1
            g = seriallib.gen_graph(rng, lib, max_nodes=rng.choice([3, 5, 8]), cycles=False, task_links=False)
            if seriallib.kind_of(lib, g["nodes"][0]["cls"]) != "task" or identlib.has_cycle(g) or not hist_ok(g):
                continue
            n += 1
            steps = gen_hist_steps(rng, lib, g)
            cases.append({"lib": li, "kind": "hist", "graph": steps[-1]["graph"], "steps": steps, "root_is_task": True})
    return libs, cases


class _SubTmp:
    """a scratch sub-directory of the check's own (worker input/output files of concurrent batches must not collide)"""

    def __init__(self, ctx, name):
        self.dir = ctx.tmpdir() / name
        self.dir.mkdir(exist_ok=True)

    def tmpdir(self):
        return self.dir


def run_hist(ctx, libs, cases, shards=8):
    return identlib.run_cases(ctx, libs, cases, shards=shards, module=HIST_WORKER)[None]


# FINDING ON THE UNCHANGED TREE (proposed id C12-N4; reported, not yet fixed in /repo): `from_task_dir(job.path)` raises
# RuntimeError("No serialization path was given") for every task that holds a DataPath value — it builds the data loader
# of the folder but calls `from_state_dict(content, as_instance=…)` without it (same slip as C12-N2 in `load`).
# Stand-alone reproduction: harness/xv/impl/c12x_hand_from_task_dir.py.  The monitor is NOT weakened: set this constant to
# True to report it (key `from-task-dir-raises:other:RuntimeError:data`); while False its hits are only counted in the evidence
# (`hist:disabled-monitor`) and the parameter file is loaded through from_state_dict(content, folder) instead.
REPORT_FROM_TASK_DIR_DATAPATH_FAILURE = True


def _drop_disabled(ctx, recs):
    if REPORT_FROM_TASK_DIR_DATAPATH_FAILURE:
        return
    for r in recs:
        keep = []
        for m in r.get("monitors", []):
            if m["key"].startswith("from-task-dir-raises:") and m["key"].endswith(":data"):
                ctx.count("hist:disabled-monitor", m["key"])
            else:
                keep.append(m)
        r["monitors"] = keep


def evaluate_hist(ctx, libs, cases, recs):
    _drop_disabled(ctx, recs)
    seriallib.evaluate(ctx, libs, cases, recs, "submission history on one workspace", with_model=False)
    for c, r in zip(cases, recs):
        if r["error"]:
            continue
        ctx.count("hist:steps", len(c["steps"]))
        ctx.count("hist:shape", " > ".join(s["mode"] + ("+fail" if s["fail"] else "") for s in c["steps"]))
        reruns = 0
        for s, sr in zip(c["steps"], r.get("steps", [])):
            ctx.count("hist:step", s["mode"] + ("+fail" if s["fail"] else ""))
            if s.get("edit"):
                ctx.count("hist:edit", s["edit"]["kind"])
            ctx.count("hist:job-process-observed", bool(sr["ran"]))
            if sr["same_dir"] is not None:
                ctx.count("hist:same-job-folder-as-previous-step", bool(sr["same_dir"]))
        # the kind this generator exists for: a job process started in a folder that an earlier step had prepared
        # for a submission with other ignored values / tags
        rs = r.get("steps", [])
        for i in range(1, len(rs)):
            if rs[i]["ran"] and rs[i]["same_dir"] and c["steps"][i].get("edit") and c["steps"][i]["edit"]["kind"] in OBSERVABLE_EDITS:
                reruns += 1
        ctx.count("hist:runs-in-a-folder-prepared-for-other-ignored-values", min(reruns, 3))
    ctx.extra_cov["history_job_processes"] = sum(1 for r in recs if not r["error"] for sr in r.get("steps", []) if sr["ran"])


def replay_hist(ctx, obj):
    n = 0
    for f in obj.get("failures", []):
        c = (f.get("case") or {}).get("case")
        if not c or c.get("kind") != "hist":
            continue
        case = dict(c)
        lib = case["lib"]
        case["lib"] = 0
        rec = run_hist(_SubTmp(ctx, "hist"), [lib], [case], shards=1)[0]
        _drop_disabled(ctx, [rec])
        n += 1
        if rec["error"]:
            ctx.notes.append(f"replayed history raised {rec['error']}")
            continue
        for m in rec["monitors"]:
            ctx.monitor_fail(m["key"], m["what"], {"case": c, "detail": m.get("detail")})
    return n


def _cls(name, kind, args):
    return {"name": name, "xpmid": f"xvlib_c12w.{name.lower()}", "parent": None, "kind": kind, "deprecated": False, "args": args}


WLIB = {"pkg": "xvlib_c12w", "enums": [], "classes": [
    _cls("LW", "light", [{"name": "v", "decl": "param", "ty": "int", "optional": False}]),
    _cls("Sub", "config", [{"name": "x", "decl": "param", "ty": "int", "optional": False},
                           {"name": "dp", "decl": "data", "ty": "path", "optional": False}]),
    _cls("Plain", "config", [{"name": "x", "decl": "param", "ty": "int", "optional": False}]),
    _cls("Top", "task", [{"name": "a", "decl": "param", "ty": {"cfg": "Sub"}, "optional": True},
                         {"name": "b", "decl": "param", "ty": {"cfg": "Sub"}, "optional": True},
                         {"name": "m", "decl": "meta", "ty": {"cfg": "Plain"}, "optional": True},
                         {"name": "d", "decl": "param", "ty": {"dict": "str"}, "optional": False, "default": {"d": []}}]),
]}


def _node(cls, values, meta=None, pre=(), init=()):
    return {"cls": cls, "values": values, "meta": meta, "pre": list(pre), "init": list(init), "task": None}


def witness_case(w):
    k = w.get("kind")
    if k == "meta-false":       # F8
        g = {"nodes": [_node("Top", [["m", {"r": 1}]]), _node("Plain", [["x", 5]], meta=False)]}
        return {"lib": 0, "kind": "c12", "graph": g, "root_is_task": True}
    if k == "init-tasks":       # F20
        g = {"nodes": [_node("Top", [], init=[1]), _node("LW", [["v", 3]])]}
        return {"lib": 0, "kind": "c12", "graph": g, "root_is_task": True}
    if k == "dict-type-key":    # F9
        g = {"nodes": [_node("Top", [["d", {"d": [[kk, vv] for kk, vv in w.get("dict", [["type", "zz"]])]}]])]}
        return {"lib": 0, "kind": "c12", "graph": g, "root_is_task": True}
    if k in ("data-collision", "data-load", "data-str"):
        g = {"nodes": [_node("Top", [["a", {"r": 1}], ["b", {"r": 2}]]), _node("Sub", [["x", 1], ["dp", {"p": "/XVDATA/f1.bin"}]]),
                       _node("Sub", [["x", 2], ["dp", {"p": "/XVDATA/f2.bin"}]])]}
        if k == "data-load":
            g["nodes"] = g["nodes"][:2]
            g["nodes"][0]["values"] = [["a", {"r": 1}]]
        return {"lib": 0, "kind": "c12", "graph": g, "root_is_task": True, "save": k != "data-str", "job": k == "data-str"}
    return None


def run_witness(ctx, finding):
    if common.run_script_witness(ctx, finding):
        return
    c = witness_case(finding.get("witness") or {})
    if c is None:
        return
    rec = seriallib.run(ctx, [WLIB], [c], shards=1)[0]
    if rec["error"]:
        raise RuntimeError(f"witness of {finding.get('id')} could not be run: {rec['error']}\n{rec.get('trace', '')}")
    ctx.count("witness", finding.get("id"))
    for m in rec["monitors"]:
        ctx.monitor_fail(m["key"], m["what"], {"witness": finding.get("id"), "case": seriallib.case_desc([WLIB], c)})


def replay(ctx, obj):
    prove(ctx)
    n = seriallib.replay_cases(ctx, obj, ("c12", "proc", "files")) + replay_hist(ctx, obj)
    if n == 0:
        correspond(ctx)
    return common.verdict(ctx, search)
