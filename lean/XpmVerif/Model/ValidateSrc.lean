import XpmVerif.Model.Validate
/-! M6 (validation part) — the vocabulary in which `harness/xv/translate/typesrc.py` writes down what it read in
`core/types.py`, `core/arguments.py` and `core/objects.py` (`Generated/ValidateSrc.lean`).

The translator executes the body of every `validate` method *abstractly*, once per kind of argument value
(`Kind`: the classes of Python values that the `isinstance` / `math.modf` / `value.get("$type")` tests of these
methods can tell apart), and records what the method does for that kind (`Act`).  A table `Kind → Act` is
therefore the method itself, up to behaviour-preserving rewrites.  `runTable` gives a table its meaning on the
model's Python values; the source obligations of `Properties/C15Src.lean` state that this meaning is the
hand-written `vInt`, `vFloat`, … of `Model/Validate.lean`, and that the switches `Impl` of that model are the
ones the tables imply.  Import-free apart from `Model.Validate`. -/
namespace XpmVerif.Validate

inductive Kind
  | none | bool | int
  /-- `math.modf(nan)[0] != 0` -/
  | floatNan
  /-- `math.modf(inf) = (0.0, inf)`; `int(inf)` raises `OverflowError` -/
  | floatInf
  /-- finite, no fractional part -/
  | floatInt
  | floatFrac
  | str | path
  /-- a member of the enumeration the type was built from / of another one -/
  | enumSame | enumOther
  | list | tuple
  /-- a `dict` with `"$type": "path"` / any other `dict` -/
  | dictPath | dictOther
  /-- a configuration that is an instance of the declared class (and, when that class is a task, has been
      submitted) / an instance of a task class that did not go through `submit()` / not an instance -/
  | cfgSub | cfgUnsub | cfgOther
  | other
deriving DecidableEq, Repr

inductive Act
  /-- `return value` -/
  | same
  /-- `return int(<integral part>)` of a float without fractional part -/
  | toInt
  /-- `return float(value)` of an `int`/`bool` -/
  | toFloat
  /-- `return bool(value)` -/
  | toBool
  /-- `return Path(value)` of a `str` -/
  | toPath
  /-- `return Path(value.get("$value"))` -/
  | pathOfValue
  /-- `return [elem.validate(x) for x in value]` -/
  | mapElems
  /-- `return {key.validate(k): val.validate(v) for k, v in value.items()}`; `false`: the key is stored unchecked -/
  | mapItems (keyChecked : Bool)
  /-- falls off the end / `return None` -/
  | retNone
  | raise (e : Err)
  /-- something the translator has no word for (`Path(value).absolute()`, `int(2.5)`, …) -/
  | unknown
deriving DecidableEq, Repr

/-- the kind of a value, for a type built from class `c` (`EnumType(c)`, `ObjectType(c)`; irrelevant for the
    others); `uns` tells which configuration objects are tasks without `job` -/
def kindOf (c : Nat) (uns : Nat → Bool) : PyVal → Kind
  | .none => .none
  | .bool _ => .bool
  | .int _ => .int
  | .float .nan => .floatNan
  | .float (.inf _) => .floatInf
  | .float (.fin n m e) => if ((Fl.fin n m e).toInt?).isSome then .floatInt else .floatFrac
  | .str _ => .str
  | .path _ => .path
  | .enumMember c' _ => if c' = c then .enumSame else .enumOther
  | .list _ => .list
  | .tuple _ => .tuple
  | .dict ks vs => if isPathTag (lookup "$type" ks vs) then .dictPath else .dictOther
  | .config mro id => if c ∈ mro then (if uns id then .cfgUnsub else .cfgSub) else .cfgOther
  | .other _ _ => .other

/-- a value the model has no constructor for (the result of an `unknown` action) -/
def unmodelled : PyVal := .other "unmodelled" true

/-- the meaning of an action of a *scalar* validator on a value -/
def runAct : Act → PyVal → Except Err PyVal
  | .same, v => .ok v
  | .toInt, .float f =>
    match f.toInt? with
    | some i => .ok (.int i)
    | none => .ok unmodelled
  | .toFloat, .int i =>
    match Fl.ofInt? i with
    | some f => .ok (.float f)
    | none => .error .overflow
  | .toFloat, .bool b => .ok (.float (.fin false (if b then 1 else 0) 0))
  | .toBool, v => .ok (.bool v.truthy)
  | .toPath, .str s => .ok (.path (pnorm s))
  | .pathOfValue, .dict ks vs => pathOf (lookup "$value" ks vs)
  | .retNone, _ => .ok .none
  | .raise e, _ => .error e
  | _, _ => .ok unmodelled

def runTable (c : Nat) (uns : Nat → Bool) (t : Kind → Act) (v : PyVal) : Except Err PyVal := runAct (t (kindOf c uns v)) v

/-- what `ConfigInformation._validate_value` does with a value of a kind -/
inductive WAct
  /-- `value.__xpm__._validate(validated)` -/
  | visit
  /-- the same call for every item of the list / every value of the dict (recursively) -/
  | items | values
  | nothing
  /-- anything else (e.g. a visit under a further condition) -/
  | other
deriving DecidableEq, Repr

/-- what the loop of `ConfigInformation._validate` does for one argument -/
inductive ArgAct | visit | fail | skip | other
deriving DecidableEq, Repr

/-- what `ConfigInformation.set` does (object not sealed) -/
inductive SetAct
  /-- `raise AttributeError` -/
  | readonly
  /-- `self.values[k] = argument.validate(v)` -/
  | storeValidated
  /-- `self.values[k] = v` without validation -/
  | storeRaw
  /-- `self.values[k] = None` -/
  | storeNone
  | other
deriving DecidableEq, Repr

/-- the tests of `Type.fromType`, in the order of the source -/
inductive Disp | none | defined | typeInst | proxy | cfgInst | enumCls | cfgCls | list | dict | union | generic | other
deriving DecidableEq, Repr

/-- how `ObjectType.__initialize__` assembles the argument table of a class from its bases: the parents' own
    `ChainMap`s first base first (depth-first), the own maps of the ancestors in MRO order, or successive
    `dict.update` (the last base wins) -/
inductive ArgLin | dfs | mro | lastWins
deriving DecidableEq, Repr

/-- everything the translator reads -/
structure Src where
  int : Kind → Act
  float : Kind → Act
  str : Kind → Act
  bool : Kind → Act
  path : Kind → Act
  any : Kind → Act
  enum : Kind → Act
  cfg : Kind → Act
  list : Kind → Act
  dict : Kind → Act
  /-- `UnionType.validate` swallows this exception class of an alternative and goes on -/
  unionCatch : Err → Bool
  /-- what `UnionType.validate` does when no alternative accepted -/
  unionTail : Kind → Act
  /-- the message of that final `ValueError` calls `name()` of the alternatives … -/
  unionMsgNames : Bool
  /-- … and `EnumType` has a `name()` of its own or an `identifier` -/
  enumHasName : Bool
  /-- `Argument.validate` (`hasChecker`, `checker.check(value)` says yes): `same` = the validated value is returned -/
  argValidate : Bool → Bool → Act
  /-- `Argument.__init__`: the value of `required` given the argument `required` (`none` = `None`) and `default is None` -/
  argRequired : Option Bool → Bool → Bool
  /-- `ArgumentOptions.create`: `required` given (annotation is `Optional[…]`, a default is declared) -/
  createRequired : Bool → Bool → Bool
  /-- `ConfigInformation.set` (not sealed) given `bypass`, generator-or-constant, `v is None`, `argument.required` -/
  set : Bool → Bool → Bool → Bool → SetAct
  /-- `set` on a sealed object raises unless `bypass` -/
  setSealedRaises : Bool
  walkValue : Kind → WAct
  /-- the loop body of `_validate` given (the value is not `None`, `argument.required`, `argument.generator` is set) -/
  walkArg : Bool → Bool → Bool → ArgAct
  /-- `_validate` tests `_validated` first and sets it before anything else -/
  walkMemo : Bool
  walkPre : Bool
  walkInit : Bool
  /-- the `__validate__` hook is called, after the arguments, pre-tasks and init tasks -/
  walkHookLast : Bool
  /-- `validate` clears the flags set by a validation that raises -/
  walkReset : Bool
  /-- `submit` calls `validate_and_seal` before `experiment…submit(self.job)` -/
  submitValidatesFirst : Bool
  argLin : ArgLin
  fromType : List Disp

/-- the six switches of `Model/Validate.lean`, as consequences of what was read -/
def Src.impl (S : Src) : Impl :=
  { unionDictNone := decide (S.unionTail .dictOther = .retNone)
    enumAssert := decide (S.enum .other = .raise .assertion)
    cfgNoneOk := decide (S.cfg .none = .same) || decide (S.cfg .none = .retNone)
    deepValidate := decide (S.walkValue .list = .items) && decide (S.walkValue .dictOther = .values)
    enumNameFails := S.unionMsgNames && !S.enumHasName
    resetOnFail := S.walkReset }

/-- `generic` (which accepts every subscripted generic, `List[int]` included) comes after the three container
    tests, and the table of defined scalar types is consulted before any class test -/
def fromTypeOk (l : List Disp) : Bool :=
  let ix (d : Disp) := l.findIdx (· == d)
  let has (d : Disp) := l.contains d
  has .defined && has .enumCls && has .cfgCls && has .list && has .dict && has .union &&
  ix .defined < ix .enumCls && ix .defined < ix .cfgCls && ix .defined < ix .list &&
  (!has .generic || (ix .list < ix .generic && ix .dict < ix .generic && ix .union < ix .generic))

end XpmVerif.Validate
