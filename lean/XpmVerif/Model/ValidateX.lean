import XpmVerif.Model.Validate
/-! M6 (validation part), extension — `Argument.checker`, user `__validate__` hooks, task-valued parameters.

* `Argument.validate` (`core/arguments.py` l.101-106): the value validated by the type is given to the checker
  (`experimaestro.checkers.Choices`, or any object with `check`); a refusal raises `ValueError`.
* `ConfigInformation._validate` (`core/objects.py` l.777-812) calls `self.pyobject.__validate__()` last, after the
  arguments, pre-tasks and init tasks of the object; whatever the hook raises aborts the validation (and `submit`).
  A hook is modelled by what it does to the outcome: per class, a predicate on the values of the object saying
  whether it raises.  A hook may also *assign* parameters of its own object (`if self.x is None: self.x = 3`): such
  an assignment goes through `ConfigInformation.set` (`setArgX`), and as long as it targets arguments that are not
  required with values that hold no configuration it changes neither `nodeMissing` nor the edges of the walk.
* task-valued parameters are part of `hstep` already (`unsubmitted`); `hstepX` keeps that.
Import-free apart from `Model.Validate`. -/
namespace XpmVerif.Validate

/-- `Argument.checker` -/
inductive Chk
  /-- `experimaestro.checkers.Choices(vs)`: `value == choice` for some choice -/
  | choices (vs : List PyVal)
  /-- any other checker, by the predicate `check` computes -/
  | pred (p : PyVal → Bool)

def Chk.check : Chk → PyVal → Bool
  | .choices vs, v => vs.any (fun c => pyEq v c)
  | .pred p, v => p v

/-- an argument with its checker -/
structure ArgX where
  decl : ArgDecl
  checker : Option Chk := none

/-- `Argument.validate` -/
def argValidate (I : Impl) (a : ArgX) (v : PyVal) : Except Err PyVal :=
  match validate I a.decl.ty.stripOpt v with
  | .ok w =>
    match a.checker with
    | some c => if c.check w then .ok w else .error .invalid
    | none => .ok w
  | .error e => .error e

/-- `ConfigInformation.set` with `Argument.validate` -/
def setArgX (I : Impl) (a : ArgX) (v : PyVal) : Except Err PyVal :=
  if a.decl.generator || a.decl.constant then .error .attribute
  else match v with
    | .none => if a.decl.required then .error .attribute else .ok .none
    | v => argValidate I a v

/-- `__validate__` per class: does it raise on an object with these values -/
abbrev Hooks := Nat → List (Option PyVal) → Bool
/-- the checker of the `k`-th argument of a class -/
abbrev Checkers := Nat → Nat → Option Chk

def hookFails (H : Hooks) (g : Graph) (n : Nat) : Bool :=
  match g.nodes[n]? with
  | some nd => H nd.cls nd.vals
  | none => false

/-- everything `_validate` does at node `n`: arguments, pre-tasks, init tasks, then the hook -/
def nodeItemsX (deep : Bool) (H : Hooks) (g : Graph) (n : Nat) : List Item :=
  nodeItems deep g n ++ (if hookFails H g n then [.fail] else [])

/-- `validate()` over a walk with items `items` -/
def validateWith (reset : Bool) (items : Nat → List Item) (N : Nat) (vis : List Nat) (root : Nat) : Out × List Nat :=
  let r := walkNode items N vis root
  if reset && r.1 != .ok then (r.1, vis) else r

def validateFromX (I : Impl) (H : Hooks) (g : Graph) (vis : List Nat) (root : Nat) : Out × List Nat :=
  validateWith I.resetOnFail (nodeItemsX I.deepValidate H g) (g.nodes.length + 1) vis root

def validateGraphX (I : Impl) (H : Hooks) (g : Graph) (root : Nat) : Out := (validateFromX I H g [] root).1

/-- the node misses a required value or its hook raises -/
def nodeBad (H : Hooks) (g : Graph) (n : Nat) : Bool := nodeMissing g n || hookFails H g n

def submitX (I : Impl) (H : Hooks) (g : Graph) (s : Sched) (root : Nat) : Out × Sched :=
  match validateGraphX I H g root with
  | .ok => (.ok, { s with jobs := root :: s.jobs })
  | o => (o, s)

def FlagsOkX (I : Impl) (H : Hooks) (g : Graph) (vis : List Nat) : Prop :=
  ∀ m ∈ vis, nodeBad H g m = false ∧ ∀ k ∈ succs I g m, k ∈ vis

/-- one operation of a history, with checkers and hooks -/
def hstepX (I : Impl) (C : Checkers) (H : Hooks) (s : HState) : HOp → HOut × HState
  | .submit n =>
    if n ∈ s.jobAttr then (.already, s)
    else match s.g.nodes[n]? with
      | none => (.noSuchNode, s)
      | some nd =>
        if !s.g.tasks.contains nd.cls then (.notTask, s)
        else
          let r := validateFromX I H s.g s.flags n
          if r.1 = .ok then
            (.accepted, { s with jobAttr := n :: s.jobAttr, flags := r.2, sealed := sealWalk s.g n ++ s.sealed,
                                 registry := n :: s.registry })
          else (.rejected r.1, { s with jobAttr := n :: s.jobAttr, flags := r.2 })
  | .assign n k v =>
    if n ∈ s.sealed then (.readonly, s)
    else match s.g.nodes[n]? with
      | none => (.noSuchNode, s)
      | some nd =>
        match (s.g.args nd.cls)[k]? with
        | none => (.noSuchNode, s)
        | some a =>
          match setArgX I { decl := a, checker := C nd.cls k } v with
          | .error .attribute => (.readonly, s)
          | .error _ => (.invalid, s)
          | .ok w =>
            if unsubmitted s.g.tasks s.jobAttr a.ty w then (.invalid, s)
            else (.stored, { s with g := s.g.setVal n k w })

def hrunX (I : Impl) (C : Checkers) (H : Hooks) : HState → List HOp → List (HState × HOp × HOut)
  | _, [] => []
  | s, op :: ops => (s, op, (hstepX I C H s op).1) :: hrunX I C H (hstepX I C H s op).2 ops

def AdmissibleX (I : Impl) (C : Checkers) (H : Hooks) : HState → List HOp → Prop
  | _, [] => True
  | s, op :: ops => (∀ n k v, op = .assign n k v → n ∉ s.flags) ∧ AdmissibleX I C H (hstepX I C H s op).2 ops

end XpmVerif.Validate
