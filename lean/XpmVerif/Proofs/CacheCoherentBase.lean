import XpmVerif.Proofs.IdentPerm
import XpmVerif.Proofs.HashRefs
/-! Cache coherence (C01), part 0: lemmas shared by the acyclic and the general proof.
    * (in Proofs/HashRefs.lean) static reference lists (`valueRefs`, `defaultRefs`, `relRefs`, `allRefs`) and
      congruence: the stream of a node only reads `cfg` on `valueRefs` and `ceq` on `defaultRefs × valueRefs`;
    * `relIndex`, `foldl max`;
    * sealing only changes `sealed` flags (`SameContent`), and the specification ignores them;
    * the op runner for query-only histories and its generic soundness theorem, parametrised by an
      invariant on the raw cache (`RawSound`);
    * `collectPreTasksOrdered` (post-order, first insertion wins) and `collectPreTasks` (pre-order,
      last occurrence wins) are permutations of each other. -/
namespace XpmVerif.Ident
open List

/-! ### `relIndex` -/

theorem relIndex_none {stack : List Nat} {m : Nat} (h : m ∉ stack) : relIndex stack m = none := by
  induction stack with
  | nil => rfl
  | cons x xs ih =>
    simp only [mem_cons, not_or] at h
    simp only [relIndex]
    rw [if_neg (fun e => h.1 e.symm), ih h.2]; rfl

theorem relIndex_some {stack : List Nat} {m : Nat} (h : m ∈ stack) : ∃ k, relIndex stack m = some k ∧ 1 ≤ k := by
  induction stack with
  | nil => cases h
  | cons x xs ih =>
    simp only [relIndex]
    by_cases e : x = m
    · exact ⟨1, by simp [e], Nat.le_refl _⟩
    · have : m ∈ xs := by
        rcases mem_cons.mp h with h | h
        · exact absurd h.symm e
        · exact h
      obtain ⟨k, hk, _⟩ := ih this
      exact ⟨k + 1, by simp [e, hk], by omega⟩

theorem relIndex_mem {stack : List Nat} {m k : Nat} (h : relIndex stack m = some k) : m ∈ stack := by
  false_or_by_contra
  rename_i hn
  rw [relIndex_none hn] at h; cases h

/-- a node found in the prefix of the stack has the same index whatever follows. -/
theorem relIndex_append_of_mem {p : List Nat} {m : Nat} (h : m ∈ p) (s : List Nat) :
    relIndex (p ++ s) m = relIndex p m := by
  induction p with
  | nil => cases h
  | cons x xs ih =>
    simp only [cons_append, relIndex]
    by_cases e : x = m
    · simp [e]
    · have : m ∈ xs := by
        rcases mem_cons.mp h with h | h
        · exact absurd h.symm e
        · exact h
      simp [e, ih this]

/-! ### `foldl max` -/

theorem foldl_max_ge_init (f : Nat → Nat) (l : List Nat) (a : Nat) :
    a ≤ l.foldl (fun acc m => max acc (f m)) a := by
  induction l generalizing a with
  | nil => simp
  | cons x xs ih => simp only [foldl_cons]; exact Nat.le_trans (Nat.le_max_left _ _) (ih _)

theorem foldl_max_ge_mem (f : Nat → Nat) (l : List Nat) (a : Nat) {m : Nat} (h : m ∈ l) :
    f m ≤ l.foldl (fun acc m => max acc (f m)) a := by
  induction l generalizing a with
  | nil => cases h
  | cons x xs ih =>
    simp only [foldl_cons]
    rcases mem_cons.mp h with rfl | h
    · exact Nat.le_trans (Nat.le_max_right _ _) (foldl_max_ge_init f xs _)
    · exact ih _ h

theorem foldl_max_eq_zero (f : Nat → Nat) (l : List Nat) (h : ∀ m, m ∈ l → f m = 0) :
    l.foldl (fun acc m => max acc (f m)) 0 = 0 := by
  induction l with
  | nil => rfl
  | cons x xs ih =>
    simp only [foldl_cons, h x (by simp), Nat.max_self]
    exact ih (fun m hm => h m (by simp [hm]))

theorem foldl_max_congr (f f' : Nat → Nat) (l : List Nat) (a : Nat) (h : ∀ m, m ∈ l → f m = f' m) :
    l.foldl (fun acc m => max acc (f m)) a = l.foldl (fun acc m => max acc (f' m)) a := by
  induction l generalizing a with
  | nil => rfl
  | cons x xs ih =>
    simp only [foldl_cons, h x (by simp)]
    exact ih _ (fun m hm => h m (by simp [hm]))

/-! ### sealing changes nothing but `sealed` flags; the specification ignores them -/

/-- a node with its `sealed` flag erased. -/
def noSeal (nd : Node) : Node := { nd with sealed := false }

/-- `g'` is `g` up to `sealed` flags (what a history of `seal` operations can change). -/
def SameContent (g g' : Graph) : Prop := g'.size = g.size ∧ ∀ n, noSeal (g'.node n) = noSeal (g.node n)

theorem SameContent.refl (g : Graph) : SameContent g g := ⟨rfl, fun _ => rfl⟩

theorem SameContent.trans {g g' g'' : Graph} (h : SameContent g g') (h' : SameContent g' g'') : SameContent g g'' :=
  ⟨h'.1.trans h.1, fun n => (h'.2 n).trans (h.2 n)⟩

theorem node_setSealed (g : Graph) (ns : List Nat) (n : Nat) :
    noSeal ((setSealed g ns).node n) = noSeal (g.node n) := by
  unfold Graph.node setSealed
  simp only [getD_eq_getElem?_getD, getElem?_map, getElem?_zipIdx]
  cases h : g.nodes[n]? with
  | none => simp
  | some nd =>
    simp
    split <;> rfl

theorem sameContent_setSealed (g : Graph) (ns : List Nat) : SameContent g (setSealed g ns) :=
  ⟨by simp [Graph.size, setSealed], node_setSealed g ns⟩

theorem sameContent_sealFrom (g : Graph) (n : Nat) : SameContent g (sealFrom g n) :=
  sameContent_setSealed g _

section SameContent
variable {g g' : Graph} (h : SameContent g g')
include h

theorem SameContent.task (n : Nat) : (g'.node n).task = (g.node n).task := by
  have := congrArg Node.task (h.2 n); exact this
theorem SameContent.args (n : Nat) : (g'.node n).args = (g.node n).args := by
  have := congrArg Node.args (h.2 n); exact this
theorem SameContent.typeId (n : Nat) : (g'.node n).typeId = (g.node n).typeId := by
  have := congrArg Node.typeId (h.2 n); exact this
theorem SameContent.mflag (n : Nat) : (g'.node n).mflag = (g.node n).mflag := by
  have := congrArg Node.mflag (h.2 n); exact this
theorem SameContent.preTasks (n : Nat) : (g'.node n).preTasks = (g.node n).preTasks := by
  have := congrArg Node.preTasks (h.2 n); exact this
theorem SameContent.initTasks (n : Nat) : (g'.node n).initTasks = (g.node n).initTasks := by
  have := congrArg Node.initTasks (h.2 n); exact this

theorem SameContent.mt : g'.mt = g.mt := funext fun n => h.mflag n

theorem SameContent.nodeStream (cfg : Nat → List Nat) (ceq : Nat → Nat → Bool) (n : Nat) :
    nodeStream cfg ceq g'.mt n (g'.node n) = nodeStream cfg ceq g.mt n (g.node n) := by
  simp only [Ident.nodeStream, h.mt, h.task, h.args, h.typeId]

theorem SameContent.nodeRefs (onst : Nat → Bool) (ceq : Nat → Nat → Bool) (n : Nat) :
    nodeRefs onst ceq g'.mt n (g'.node n) = nodeRefs onst ceq g.mt n (g.node n) := by
  simp only [Ident.nodeRefs, h.mt, h.task, h.args]

theorem SameContent.relRefs (n : Nat) : relRefs g'.mt n (g'.node n) = relRefs g.mt n (g.node n) := by
  simp only [Ident.relRefs, Ident.valueRefs, Ident.defaultRefs, Ident.taskRefs, h.mt, h.task, h.args]

theorem SameContent.valueRefs (n : Nat) : valueRefs g'.mt n (g'.node n) = valueRefs g.mt n (g.node n) := by
  simp only [Ident.valueRefs, Ident.taskRefs, h.mt, h.task, h.args]

theorem SameContent.defaultRefs (n : Nat) : defaultRefs g'.mt (g'.node n) = defaultRefs g.mt (g.node n) := by
  simp only [Ident.defaultRefs, h.mt, h.args]

theorem SameContent.allRefs (n : Nat) : allRefs g'.mt n (g'.node n) = allRefs g.mt n (g.node n) := by
  rw [Ident.allRefs, h.relRefs, Ident.allRefs]
  simp only [Ident.metaRefs, h.mt, h.args]

theorem SameContent.rawAt {D : Type} (hc : HC D) (fuel : Nat) (stack : List Nat) (n : Nat) :
    rawAt hc g' fuel stack n = rawAt hc g fuel stack n :=
  rawAt_congr hc g' g (fun n cfg ceq => h.nodeStream cfg ceq n) fuel stack n

theorem SameContent.rawId {D : Type} (hc : HC D) (n : Nat) : rawId hc g' n = rawId hc g n := by
  unfold Ident.rawId; rw [h.1, h.rawAt]

theorem SameContent.visit (stop : Nat → Bool) : ∀ fuel n vis, visit g' stop fuel n vis = visit g stop fuel n vis := by
  intro fuel
  induction fuel with
  | zero => intro n vis; rfl
  | succ fuel ih =>
    intro n vis
    have e : Ident.visit g' stop fuel = Ident.visit g stop fuel := funext fun n => funext fun vis => ih n vis
    simp only [Ident.visit, h.task, h.args, h.preTasks, h.initTasks, e]

theorem SameContent.reachable (n : Nat) : reachable g' n = reachable g n := by
  unfold Ident.reachable; rw [h.1, h.visit]

theorem SameContent.collectPreTasks (n : Nat) : collectPreTasks g' n = collectPreTasks g n := by
  unfold Ident.collectPreTasks; simp only [h.reachable, h.preTasks]

theorem SameContent.fullId {D : Type} (hc : HC D) (n : Nat) : fullId hc g' n = fullId hc g n := by
  have e : Ident.rawId hc g' = Ident.rawId hc g := funext fun n => h.rawId hc n
  unfold Ident.fullId; simp only [e, h.collectPreTasks, h.initTasks]

end SameContent

/-! ### `visitP` (post-order) and `visit` (visited list) walk the same nodes -/

mutual
theorem walkValP_fst (cfgP : Nat → List Nat × List Nat → List Nat × List Nat) (cfg : Nat → List Nat → List Nat)
    (h : ∀ n s, (cfgP n s).1 = cfg n s.1) : ∀ (v : Val) s, (walkValP cfgP v s).1 = walkVal cfg v s.1
  | .list l, s => by simp only [walkValP, walkVal]; exact walkValsP_fst cfgP cfg h l s
  | .dict _ vs, s => by simp only [walkValP, walkVal]; exact walkValsP_fst cfgP cfg h vs s
  | .ref n, s => by simp only [walkValP, walkVal]; exact h n s
  | .none, _ => by simp [walkValP, walkVal]
  | .bool _, _ => by simp [walkValP, walkVal]
  | .int _, _ => by simp [walkValP, walkVal]
  | .float _, _ => by simp [walkValP, walkVal]
  | .str _, _ => by simp [walkValP, walkVal]
  | .enum _, _ => by simp [walkValP, walkVal]
  | .path _, _ => by simp [walkValP, walkVal]
theorem walkValsP_fst (cfgP : Nat → List Nat × List Nat → List Nat × List Nat) (cfg : Nat → List Nat → List Nat)
    (h : ∀ n s, (cfgP n s).1 = cfg n s.1) : ∀ (l : List Val) s, (walkValsP cfgP l s).1 = walkVals cfg l s.1
  | [], _ => by simp [walkValsP, walkVals]
  | v :: vs, s => by
    simp only [walkValsP, walkVals]
    rw [walkValsP_fst cfgP cfg h vs, walkValP_fst cfgP cfg h v]
end

theorem walkPV_fst (cfgP : Nat → List Nat × List Nat → List Nat × List Nat) (cfg : Nat → List Nat → List Nat)
    (h : ∀ n s, (cfgP n s).1 = cfg n s.1) : ∀ (l : List Nat) s, (walkPV cfgP l s).1 = walkNodes cfg l s.1
  | [], _ => by simp [walkPV, walkNodes]
  | n :: ns, s => by
    simp only [walkPV, walkNodes]
    rw [walkPV_fst cfgP cfg h ns, h]

mutual
theorem walkValP_inv (cfgP : Nat → List Nat × List Nat → List Nat × List Nat) (Q : List Nat × List Nat → Prop)
    (h : ∀ n s, Q s → Q (cfgP n s)) : ∀ (v : Val) s, Q s → Q (walkValP cfgP v s)
  | .list l, s, hs => by simp only [walkValP]; exact walkValsP_inv cfgP Q h l s hs
  | .dict _ vs, s, hs => by simp only [walkValP]; exact walkValsP_inv cfgP Q h vs s hs
  | .ref n, s, hs => by simp only [walkValP]; exact h n s hs
  | .none, _, hs => by simpa [walkValP] using hs
  | .bool _, _, hs => by simpa [walkValP] using hs
  | .int _, _, hs => by simpa [walkValP] using hs
  | .float _, _, hs => by simpa [walkValP] using hs
  | .str _, _, hs => by simpa [walkValP] using hs
  | .enum _, _, hs => by simpa [walkValP] using hs
  | .path _, _, hs => by simpa [walkValP] using hs
theorem walkValsP_inv (cfgP : Nat → List Nat × List Nat → List Nat × List Nat) (Q : List Nat × List Nat → Prop)
    (h : ∀ n s, Q s → Q (cfgP n s)) : ∀ (l : List Val) s, Q s → Q (walkValsP cfgP l s)
  | [], _, hs => by simpa [walkValsP] using hs
  | v :: vs, s, hs => by
    simp only [walkValsP]
    exact walkValsP_inv cfgP Q h vs _ (walkValP_inv cfgP Q h v s hs)
end

theorem walkPV_inv (cfgP : Nat → List Nat × List Nat → List Nat × List Nat) (Q : List Nat × List Nat → Prop)
    (h : ∀ n s, Q s → Q (cfgP n s)) : ∀ (l : List Nat) s, Q s → Q (walkPV cfgP l s)
  | [], _, hs => by simpa [walkPV] using hs
  | n :: ns, s, hs => by
    simp only [walkPV]
    exact walkPV_inv cfgP Q h ns _ (h n s hs)

theorem visitP_fst (g : Graph) (stop : Nat → Bool) : ∀ fuel n s, (visitP g stop fuel n s).1 = visit g stop fuel n s.1 := by
  intro fuel
  induction fuel with
  | zero => intro n s; rfl
  | succ fuel ih =>
    intro n s
    obtain ⟨vis, post⟩ := s
    simp only [visitP, visit]
    split
    · rfl
    · split
      · rfl
      · simp only
        cases ht : (g.node n).task with
        | none =>
          simp only [walkPV_fst _ _ ih, walkValsP_fst _ _ ih]
        | some t =>
          simp only
          split
          · simp only [ih, walkPV_fst _ _ ih, walkValsP_fst _ _ ih]
          · simp only [walkPV_fst _ _ ih, walkValsP_fst _ _ ih]

/-- `vis = post ∪ A` where `A` are the nodes whose frame is still open. -/
def PostInv (A : Nat → Prop) (s : List Nat × List Nat) : Prop := ∀ m, m ∈ s.1 ↔ (m ∈ s.2 ∨ A m)

theorem visitP_inv (g : Graph) : ∀ fuel n s (A : Nat → Prop), PostInv A s → PostInv A (visitP g (fun _ => false) fuel n s) := by
  intro fuel
  induction fuel with
  | zero => intro n s A hs; exact hs
  | succ fuel ih =>
    intro n s A hs
    obtain ⟨vis, post⟩ := s
    simp only [visitP]
    split
    · exact hs
    · rename_i hn
      have hn' : n ∉ vis := by simpa using hn
      simp only [Bool.false_eq_true, if_false]
      have h0 : PostInv (fun m => A m ∨ m = n) (n :: vis, post) := by
        intro m
        have := hs m
        simp only [mem_cons] at this ⊢
        simp only [this]
        constructor
        · rintro (h | h | h) <;> simp [*]
        · rintro (h | h | h) <;> simp [*]
      have ih' : ∀ k s, PostInv (fun m => A m ∨ m = n) s → PostInv (fun m => A m ∨ m = n) (visitP g (fun _ => false) fuel k s) :=
        fun k s => ih k s _
      have close : ∀ s : List Nat × List Nat, PostInv (fun m => A m ∨ m = n) s → PostInv A (s.1, s.2 ++ [n]) := by
        intro s h m
        have := h m
        simp only [mem_append, mem_singleton, this]
        constructor
        · rintro (h | h | h) <;> simp [*]
        · rintro ((h | h) | h) <;> simp [*]
      have h3 := walkPV_inv _ _ ih' (g.node n).initTasks _
        (walkPV_inv _ _ ih' (g.node n).preTasks _
          (walkValsP_inv _ _ ih' (map (fun x => x.value) (g.node n).args) _ h0))
      cases ht : (g.node n).task with
      | none => exact close _ h3
      | some t =>
        simp only
        split
        · exact close _ (ih' _ _ h3)
        · exact close _ h3

/-! ### the two ways of collecting pre-tasks give the same set -/

theorem mem_dedup {x : Nat} : ∀ {l : List Nat}, x ∈ dedup l ↔ x ∈ l
  | [] => by simp [dedup]
  | y :: ys => by
    simp only [dedup]
    split
    · rename_i h
      have h' : y ∈ ys := by simpa using h
      rw [mem_dedup, mem_cons]
      constructor
      · exact Or.inr
      · rintro (rfl | h)
        · exact h'
        · exact h
    · simp only [mem_cons, mem_dedup]

theorem nodup_dedup : ∀ l : List Nat, (dedup l).Nodup
  | [] => by simp [dedup]
  | y :: ys => by
    simp only [dedup]
    split
    · exact nodup_dedup ys
    · rename_i h
      have h' : y ∉ ys := by simpa using h
      exact nodup_cons.mpr ⟨fun hm => h' (mem_dedup.mp hm), nodup_dedup ys⟩

theorem mem_firstWins {x : Nat} (l : List Nat) : ∀ acc : List Nat,
    x ∈ l.foldl (fun acc p => if acc.contains p then acc else acc ++ [p]) acc ↔ x ∈ acc ∨ x ∈ l := by
  induction l with
  | nil => simp
  | cons y ys ih =>
    intro acc
    simp only [foldl_cons, ih, mem_cons]
    split
    · rename_i h
      have h' : y ∈ acc := by simpa using h
      constructor
      · rintro (h | h) <;> simp [*]
      · rintro (h | rfl | h) <;> simp [*]
    · simp only [mem_append, mem_singleton]
      constructor
      · rintro ((h | h) | h) <;> simp [*]
      · rintro (h | h | h) <;> simp [*]

theorem nodup_firstWins (l : List Nat) : ∀ acc : List Nat, acc.Nodup →
    (l.foldl (fun acc p => if acc.contains p then acc else acc ++ [p]) acc).Nodup := by
  induction l with
  | nil => intro acc h; simpa using h
  | cons y ys ih =>
    intro acc h
    simp only [foldl_cons]
    apply ih
    split
    · exact h
    · rename_i hc
      have h' : y ∉ acc := by simpa using hc
      rw [nodup_append]
      refine ⟨h, by simp, ?_⟩
      intro a ha b hb
      simp only [mem_singleton] at hb
      subst hb
      intro e; subst e; exact h' ha

theorem mem_post_iff_reachable (g : Graph) (n m : Nat) :
    m ∈ (visitP g (fun _ => false) (g.size + 1) n ([], [])).2 ↔ m ∈ reachable g n := by
  have h := visitP_inv g (g.size + 1) n ([], []) (fun _ => False) (by intro m; simp)
  have h' := h m
  rw [visitP_fst] at h'
  simp only [or_false] at h'
  exact h'.symm

theorem collectPreTasksOrdered_perm (g : Graph) (n : Nat) : collectPreTasksOrdered g n ~ collectPreTasks g n := by
  unfold collectPreTasksOrdered collectPreTasks
  refine (perm_ext_iff_of_nodup (nodup_firstWins _ [] nodup_nil) (nodup_dedup _)).mpr ?_
  intro a
  simp only [mem_firstWins, mem_dedup, not_mem_nil, false_or, mem_flatten, mem_map]
  constructor
  · rintro ⟨l, ⟨m, hm, rfl⟩, ha⟩
    exact ⟨_, ⟨m, (mem_post_iff_reachable g n m).mp hm, rfl⟩, ha⟩
  · rintro ⟨l, ⟨m, hm, rfl⟩, ha⟩
    exact ⟨_, ⟨m, (mem_post_iff_reachable g n m).mpr hm, rfl⟩, ha⟩

/-- the order used by `sorted(pre_tasks_ids)` is a total order on digests. -/
structure LeOrder {D : Type} (hc : HC D) : Prop where
  total : ∀ a b, hc.le a b = true ∨ hc.le b a = true
  trans : ∀ a b c, hc.le a b = true → hc.le b c = true → hc.le a c = true
  antisymm : ∀ a b, hc.le a b = true → hc.le b a = true → a = b

theorem sortBy_preTasks {D : Type} (hc : HC D) (ho : LeOrder hc) (g : Graph) (n : Nat) (f : Nat → D) :
    sortBy hc.le ((collectPreTasksOrdered g n).map f) = sortBy hc.le ((collectPreTasks g n).map f) :=
  sortBy_eq_of_perm hc.le ho.total ho.trans ((collectPreTasksOrdered_perm g n).map f)
    (fun a b _ _ => ho.antisymm a b)

/-! ### query-only histories -/

/-- operations that do not change the content of the graph: `seal`, and the two identifier requests. -/
def Op.isQuery : Op → Bool
  | .sealOp _ | .reqRaw _ | .reqFull _ => true
  | _ => false

/-- run a history; the outputs in order. -/
def runOps {D : Type} (hc : HC D) (flagStored : Bool) : St D → List Op → St D × List (Out D)
  | s, [] => (s, [])
  | s, o :: os =>
    let r := step hc flagStored s o
    let r' := runOps hc flagStored r.1 os
    (r'.1, r.2 :: r'.2)

/-- what the cache-free specification answers to a query on graph `g`. -/
def specOut {D : Type} (hc : HC D) (g : Graph) : Op → Out D
  | .reqRaw n => .id (rawId hc g n)
  | .reqFull n => .id (fullId hc g n)
  | _ => .ok

/-- `reqRaw` is sound for an invariant `J` of the raw cache: it answers the specification and keeps `J`. -/
def RawSound {D : Type} (hc : HC D) (g0 : Graph) (J : (Nat → Option (D × Bool)) → Prop) : Prop :=
  ∀ (s : St D) (n : Nat), SameContent g0 s.g → J s.c.raw →
    (reqRaw hc true s n).2 = rawId hc g0 n ∧ (reqRaw hc true s n).1.g = s.g ∧
    J (reqRaw hc true s n).1.c.raw ∧ (reqRaw hc true s n).1.c.full = s.c.full

theorem rawSound_of {D : Type} (hc : HC D) (g0 : Graph) (J : (Nat → Option (D × Bool)) → Prop)
    (hhit : ∀ raw n d b, J raw → raw n = some (d, b) → d = rawId hc g0 n)
    (hmiss : ∀ (s : St D) n, SameContent g0 s.g → J s.c.raw →
      computeAt hc s.g s.c (s.g.size + 1) [] n = rawId hc g0 n)
    (hstore : ∀ (s : St D) n, SameContent g0 s.g → J s.c.raw →
      J (updF s.c.raw n (some (rawId hc g0 n, decide (escAt hc s.g s.c (s.g.size + 1) [] n ≥ 1))))) :
    RawSound hc g0 J := by
  intro s n hg hJ
  unfold reqRaw
  simp only [Bool.true_and]
  split
  · rename_i d b heq
    refine ⟨?_, rfl, hJ, rfl⟩
    split at heq
    · exact hhit _ _ _ _ hJ heq
    · cases heq
  · rw [hmiss s n hg hJ]
    split
    · exact ⟨rfl, rfl, hstore s n hg hJ, rfl⟩
    · exact ⟨rfl, rfl, hJ, rfl⟩

/-- the state invariant along a query-only history started on `g0`. -/
def Good {D : Type} (hc : HC D) (g0 : Graph) (J : (Nat → Option (D × Bool)) → Prop) (s : St D) : Prop :=
  SameContent g0 s.g ∧ J s.c.raw ∧ ∀ n d, s.c.full n = some d → d = fullId hc g0 n

theorem good_empty {D : Type} (hc : HC D) (g : Graph) (J : (Nat → Option (D × Bool)) → Prop)
    (hJ : J (fun _ => none)) : Good hc g J { g := g, c := Caches.empty } :=
  ⟨SameContent.refl g, hJ, fun _ _ h => by cases h⟩

theorem reqRaws_sound {D : Type} (hc : HC D) (g0 : Graph) (J : (Nat → Option (D × Bool)) → Prop)
    (hRS : RawSound hc g0 J) : ∀ (ns : List Nat) (s : St D), SameContent g0 s.g → J s.c.raw →
    (reqRaws hc true s ns).2 = ns.map (rawId hc g0) ∧ (reqRaws hc true s ns).1.g = s.g ∧
    J (reqRaws hc true s ns).1.c.raw ∧ (reqRaws hc true s ns).1.c.full = s.c.full
  | [], s, _, hJ => ⟨rfl, rfl, hJ, rfl⟩
  | n :: ns, s, hg, hJ => by
    obtain ⟨h1, h2, h3, h4⟩ := hRS s n hg hJ
    obtain ⟨k1, k2, k3, k4⟩ := reqRaws_sound hc g0 J hRS ns (reqRaw hc true s n).1 (h2 ▸ hg) h3
    simp only [reqRaws, map_cons]
    exact ⟨by rw [h1, k1], k2.trans h2, k3, k4.trans h4⟩

theorem reqFull_sound {D : Type} (hc : HC D) (ho : LeOrder hc) (g0 : Graph) (J : (Nat → Option (D × Bool)) → Prop)
    (hRS : RawSound hc g0 J) (s : St D) (n : Nat) (hs : Good hc g0 J s) :
    (reqFull hc true s n).2 = fullId hc g0 n ∧ Good hc g0 J (reqFull hc true s n).1 := by
  obtain ⟨hg, hJ, hF⟩ := hs
  have h1 := hRS s n hg hJ
  unfold reqFull
  generalize reqRaw hc true s n = r1 at h1 ⊢
  obtain ⟨s1, raw⟩ := r1
  simp only at h1 ⊢
  obtain ⟨e1, e2, e3, e4⟩ := h1
  have hg1 : SameContent g0 s1.g := e2 ▸ hg
  split
  · rename_i d heq
    split at heq
    · exact ⟨hF n d (e4 ▸ heq), hg1, e3, fun m d hd => hF m d (e4 ▸ hd)⟩
    · cases heq
  · have h2 := reqRaws_sound hc g0 J hRS (collectPreTasksOrdered s1.g n) s1 hg1 e3
    generalize reqRaws hc true s1 (collectPreTasksOrdered s1.g n) = r2 at h2 ⊢
    obtain ⟨s2, pre⟩ := r2
    simp only at h2 ⊢
    obtain ⟨f1, f2, f3, f4⟩ := h2
    have hg2 : SameContent g0 s2.g := f2 ▸ hg1
    have h3 := reqRaws_sound hc g0 J hRS (s1.g.node n).initTasks s2 hg2 f3
    generalize reqRaws hc true s2 (s1.g.node n).initTasks = r3 at h3 ⊢
    obtain ⟨s3, ini⟩ := r3
    simp only at h3 ⊢
    obtain ⟨k1, k2, k3, k4⟩ := h3
    have hg3 : SameContent g0 s3.g := k2 ▸ hg2
    have hd : hc.H (hc.emb raw ++ (map hc.emb (sortBy hc.le pre)).flatten ++
          if (s1.g.node n).initTasks.isEmpty = true then [] else 12 :: (map hc.emb ini).flatten)
        = fullId hc g0 n := by
      rw [e1, f1, k1, sortBy_preTasks hc ho, hg1.collectPreTasks, hg1.initTasks]
      unfold fullId
      simp only [map_map]
      rfl
    rw [hd]
    have hF3 : ∀ m d, s3.c.full m = some d → d = fullId hc g0 m := by
      intro m d hd; rw [k4, f4, e4] at hd; exact hF m d hd
    split
    · refine ⟨rfl, hg3, k3, ?_⟩
      intro m d hd
      simp only [updF] at hd
      split at hd
      · rename_i hm; cases hd; rw [hm]
      · exact hF3 m d hd
    · exact ⟨rfl, hg3, k3, hF3⟩

theorem step_sound {D : Type} (hc : HC D) (ho : LeOrder hc) (g0 : Graph) (J : (Nat → Option (D × Bool)) → Prop)
    (hRS : RawSound hc g0 J) (s : St D) (o : Op) (hq : o.isQuery = true) (hs : Good hc g0 J s) :
    (step hc true s o).2 = specOut hc g0 o ∧ Good hc g0 J (step hc true s o).1 := by
  cases o with
  | sealOp n => exact ⟨rfl, hs.1.trans (sameContent_sealFrom s.g n), hs.2⟩
  | reqRaw n =>
    obtain ⟨h1, h2, h3, h4⟩ := hRS s n hs.1 hs.2.1
    simp only [step, specOut]
    exact ⟨by rw [h1], h2 ▸ hs.1, h3, fun m d hd => hs.2.2 m d (h4 ▸ hd)⟩
  | reqFull n =>
    obtain ⟨h1, h2⟩ := reqFull_sound hc ho g0 J hRS s n hs
    simp only [step, specOut]
    exact ⟨by rw [h1], h2⟩
  | set _ _ _ => cases hq
  | setMeta _ _ => cases hq
  | addPretask _ _ => cases hq

/-- **generic history theorem**: if `reqRaw` is sound for `J`, every answer of a query-only history
    is the specification's answer on the initial graph. -/
theorem runOps_sound {D : Type} (hc : HC D) (ho : LeOrder hc) (g0 : Graph) (J : (Nat → Option (D × Bool)) → Prop)
    (hRS : RawSound hc g0 J) : ∀ (ops : List Op) (s : St D), (∀ o, o ∈ ops → o.isQuery = true) → Good hc g0 J s →
    (runOps hc true s ops).2 = ops.map (specOut hc g0)
  | [], _, _, _ => rfl
  | o :: os, s, hq, hs => by
    obtain ⟨h1, h2⟩ := step_sound hc ho g0 J hRS s o (hq o (by simp)) hs
    simp only [runOps, map_cons]
    rw [h1, runOps_sound hc ho g0 J hRS os _ (fun o ho => hq o (by simp [ho])) h2]

end XpmVerif.Ident
