import XpmVerif.Generated.Enums
import XpmVerif.Generated.SchedSrc
import XpmVerif.Generated.SchedFlags
import XpmVerif.Proofs.SchedSrc
import XpmVerif.Proofs.SchedFinal
/-! Source obligations of the scheduler model (`Model/Sched.lean`), re-checked by every scheduler property (C04–C09).

    Part 1 — the state enumerations (`JobState`, `DependencyStatus`; `Generated/Enums.lean`, translator
    `harness/xv/translate/enums.py`): the model uses `JS.finished` wherever the code calls `state.finished()` and distinguishes
    states and statuses only by identity.

    Part 2 — the decision functions (`Generated/SchedSrc.lean`, body translator `harness/xv/translate/schedsrc.py`): each
    transition function of the model **is** the function regenerated from what the Python source says now
    (`Job.dependencychanged`, `Dependency.check`, `JobDependency.status`, `JobLock._acquire`, `CounterTokenDependency.status`,
    `ProcessCounterToken.__init__/acquire/release`, the callback of `Token.aio_notify`, `Scheduler.aio_registerJob`, the loop
    of `experiment.wait`, the exit-code test of `aio_start`).  All for every record / state / argument; through these
    equalities every theorem of C04–C09 about `Sched.depChanged`, `St.check`, `St.status`, `St.acquireAll`, `St.releaseAll`,
    `St.register`, `St.waiterRun`, `St.resume` is a theorem about the generated definitions.  Two of the four repair flags
    (`readyGuarded`, `resubmitRegisters`) are *consequences* of the generated bodies (`…_from_source`).
    Property theorems only. -/
set_option linter.unusedSimpArgs false
namespace XpmVerif.SchedSrc
open XpmVerif.Sched

/-! ### Part 1: enumerations -/

/-- **`state.finished()` means what the model's `JS.finished` means**, for every state of the model. -/
theorem jobstate_finished_matches_model : ∀ s : JS, Gen.jsFinished (Gen.jsValue s) = s.finished := by
  intro s; cases s <;> decide

/-- the three predicates partition the members of `JobState`: every member is exactly one of not started / running /
    finished (so a job that is not finished and not running has not been started — what `jobs clean` and the waiting loops
    rely on). -/
theorem jobstate_predicates_partition :
    ∀ kv ∈ Gen.jobStateValues,
      (Gen.jsNotstarted kv.2 && !Gen.jsRunning kv.2 && !Gen.jsFinished kv.2)
      || (!Gen.jsNotstarted kv.2 && Gen.jsRunning kv.2 && !Gen.jsFinished kv.2)
      || (!Gen.jsNotstarted kv.2 && !Gen.jsRunning kv.2 && Gen.jsFinished kv.2) = true := by decide

/-- which model states are not started / running: WAITING and READY have not started, RUNNING runs. -/
theorem jobstate_model_states_classified :
    Gen.jsNotstarted (Gen.jsValue .unscheduled) = true ∧ Gen.jsNotstarted (Gen.jsValue .waiting) = true
    ∧ Gen.jsNotstarted (Gen.jsValue .ready) = true ∧ Gen.jsRunning (Gen.jsValue .running) = true
    ∧ Gen.jsFinished (Gen.jsValue .done) = true ∧ Gen.jsFinished (Gen.jsValue .error) = true := by decide

/-- members are distinguishable: distinct states of the model stand for members with distinct values, and every member of
    the two enumerations has its own value (states compared with `==` / `is` in the code are compared by identity in the model). -/
theorem enum_values_distinct :
    (∀ a b : JS, Gen.jsValue a = Gen.jsValue b → a = b) ∧ (∀ a b : DS, Gen.dsValue a = Gen.dsValue b → a = b)
    ∧ (Gen.jobStateValues.map Prod.snd).Nodup ∧ (Gen.depStatusValues.map Prod.snd).Nodup := by
  refine ⟨?_, ?_, by decide, by decide⟩
  · intro a b; cases a <;> cases b <;> decide
  · intro a b; cases a <;> cases b <;> decide

/-- non-vacuity: the tables are the ones of the source (six model states among the members, three statuses). -/
example : Gen.jobStateValues.length ≥ 6 ∧ Gen.depStatusValues.length = 3 := by decide

/-! ### Part 2: decision functions -/

/-- **`Sched.depChanged` is `Dependency.check` + `Job.dependencychanged` of the source** (counter arithmetic, FAIL ⇒ ERROR
    unless finished, `unsatisfied == 0` and WAITING ⇒ READY, the two `_readyEvent.set()`, `currentstatus = status`), for every
    job record, dependency index and new status.  The defect F3 (READY also set on running / finished jobs) and the seeded
    guards `state != ERROR` / `failure_status is None` make this obligation fail. -/
theorem depChanged_is_source (jb : Job) (d : Nat) (status : DS) :
    depChanged repaired jb d status = Gen.depCheckSrc jb d status := by
  unfold depChanged Gen.depCheckSrc Gen.depChangedSrc
  generalize (jb.deps.getD d default).cur = cur
  rcases jb with ⟨ident, deps, code, marker, state, unsat, event, sleeping, pc, held, launches, failedDep⟩
  cases status <;> cases cur <;> cases state <;> cases event <;> cases sleeping <;>
    simp [repaired, eventSet, val, JS.finished, Gen.jsFinished, Gen.jsValue, Gen.jsNotstarted, Gen.jsRunning] <;> src_auto

/-- the flag reader (`Generated/SchedFlags.lean`) and the body translator agree on `dependencychanged`: the model with the
    flags read off the source is the generated function too (two independent readings of the same text). -/
theorem depChanged_flags_agree (jb : Job) (d : Nat) (status : DS) :
    depChanged Gen.schedFlags jb d status = Gen.depCheckSrc jb d status := by
  unfold depChanged Gen.depCheckSrc Gen.depChangedSrc
  generalize (jb.deps.getD d default).cur = cur
  rcases jb with ⟨ident, deps, code, marker, state, unsat, event, sleeping, pc, held, launches, failedDep⟩
  cases status <;> cases cur <;> cases state <;> cases event <;> cases sleeping <;>
    simp [Gen.schedFlags, eventSet, val, JS.finished, Gen.jsFinished, Gen.jsValue, Gen.jsNotstarted, Gen.jsRunning] <;> src_auto

/-- `St.status` of a job dependency is `JobDependency.status` of the source (DONE ⇒ OK, ERROR ⇒ FAIL, else WAIT). -/
theorem job_status_is_source (s : St) (o : Nat) : s.status (.job o) = Gen.jobDepStatusSrc (s.jobs o) := by
  simp only [St.status, Gen.jobDepStatusSrc]
  src_auto

/-- `St.status` of a token dependency is `CounterTokenDependency.status` of the source (`count <= available` ⇒ OK, else WAIT). -/
theorem tok_status_is_source (s : St) (t c : Nat) : s.status (.tok t c) = Gen.tokDepStatusSrc c (s.avail t) := by
  simp only [St.status, Gen.tokDepStatusSrc]
  src_auto

/-- **`St.check` is the source**: status of the origin by the generated `status()` of its class, then the generated
    `Dependency.check`; a wake-up is queued iff one of the `_readyEvent.set()` calls found a sleeping waiter. -/
theorem check_is_source (s : St) (j d : Nat) :
    St.check repaired s j d =
      (let r := Gen.depCheckSrc (s.jobs j) d
          (match ((s.jobs j).deps.getD d default).origin with
           | .job o => Gen.jobDepStatusSrc (s.jobs o)
           | .tok t c => Gen.tokDepStatusSrc c (s.avail t))
       s.put j r.1 (if r.2 then [.wake j] else [])) := by
  simp only [St.check, depChanged_is_source]
  cases ((s.jobs j).deps.getD d default).origin with
  | job o => simp only [job_status_is_source]
  | tok t c => simp only [tok_status_is_source]

/-- `JobLock._acquire` of the source answers "DONE" exactly when `JobDependency.status` answers OK: the lock of a job
    dependency taken by a start (the model never refuses it) is consistent with the status that made the job READY. -/
theorem joblock_iff_status_ok (o : Job) : Gen.jobLockAcquireSrc o = true ↔ Gen.jobDepStatusSrc o = .ok := by
  simp only [Gen.jobLockAcquireSrc, Gen.jobDepStatusSrc]
  cases o.state <;> simp

/-- one step of `St.acquireAll` on a token dependency is `ProcessCounterToken.acquire` of the source: `LockError` (the start
    aborts at `d`) iff `available < count`, else `available -= count` and the loop goes on. -/
theorem acquire_tok_is_source (s : St) (j k d t c : Nat) (h : ((s.jobs j).deps.getD d default).origin = .tok t c) :
    St.acquireAll s j (k + 1) d =
      match Gen.tokAcquireSrc (s.avail t) c with
      | none => (s, some d)
      | some a => St.acquireAll ({ s with avail := upd s.avail t a }.put j { (s.jobs j) with held := (s.jobs j).held ++ [d] }) j k (d + 1) := by
  rw [St.acquireAll]
  simp only [h, Gen.tokAcquireSrc]
  src_auto

/-- one step of `St.releaseAll` on a token dependency is `ProcessCounterToken.release` of the source: `available += count`
    and `aio_notify()` (one callback per dependent of the token, in registration order). -/
theorem release_tok_is_source (s : St) (j d t c : Nat) (ds : List Nat) (h : ((s.jobs j).deps.getD d default).origin = .tok t c) :
    St.releaseAll s j (d :: ds) =
      St.releaseAll { s with avail := upd s.avail t (Gen.tokReleaseSrc (s.avail t) c).1,
                             ready := s.ready ++ (if (Gen.tokReleaseSrc (s.avail t) c).2
                               then (s.tokDeps t).map (fun (p : Nat × Nat) => Cb.notifyCheck p.1 p.2) else []) } j ds := by
  rw [St.releaseAll]
  simp only [h, Gen.tokReleaseSrc]
  src_auto

/-- the callback queued by `Token.aio_notify` for one dependent checks the dependency iff the source's guard
    (`self.available > 0`) holds. -/
theorem notify_is_source (fl : Flags) (s : St) (j d t c : Nat) (h : ((s.jobs j).deps.getD d default).origin = .tok t c) :
    St.runCb fl s (.notifyCheck j d) = if Gen.notifyGuardSrc (s.avail t) then s.check fl j d else s := by
  simp only [St.runCb, h, Gen.notifyGuardSrc]
  src_auto

/-- the callbacks `Token.aio_notify` queues are the ones the model queues at every release: one per registered dependent of
    the token, in registration order, none skipped (the seeded change that skips ready / started jobs fails here). -/
theorem notify_all_is_source (s : St) (t : Nat) :
    (s.tokDeps t).map (fun (p : Nat × Nat) => Cb.notifyCheck p.1 p.2) = Gen.notifyListSrc s t := by
  unfold Gen.notifyListSrc
  first
    | rfl
    | (rw [List.filter_eq_self.mpr]; intro p _; src_auto)

/-- `St.init` gives every token what `ProcessCounterToken.__init__` of the source gives it: `count` and `available = count`. -/
theorem init_is_source (totals : List Nat) (t : Nat) :
    (Int.ofNat ((St.init totals).total t), (St.init totals).avail t) = Gen.tokInitSrc (Int.ofNat (totals.getD t 0)) := by
  simp [St.init, Gen.tokInitSrc]

/-- **`St.register` is `Scheduler.aio_registerJob` of the source**: unknown identifier ⇒ count + register, returns None; known
    and in ERROR ⇒ count + re-register, returns None; known otherwise ⇒ returns the registered job.  The defect F4 (no
    re-registration / no count) and its early-return variant make this obligation fail. -/
theorem register_is_source (s : St) (j : Nat) : St.register repaired s j = Gen.registerSrc s j := by
  simp only [St.register, Gen.registerSrc, repaired]
  src_auto

/-- the flag reader and the body translator agree on `aio_registerJob` (two independent readings of the same text). -/
theorem register_flags_agree (s : St) (j : Nat) : St.register Gen.schedFlags s j = Gen.registerSrc s j := by
  simp only [St.register, Gen.registerSrc, Gen.schedFlags]
  src_auto

/-- **`St.waiterRun` is one turn of the loop of `experiment.wait`**: `unfinishedJobs == 0` ⇒ leave the loop, then raise iff
    `failedJobs` is not empty; else sleep on the exit condition. -/
theorem waiterRun_is_source (s : St) : St.waiterRun s = Gen.waiterRunSrc s := by
  unfold Gen.waiterRunSrc
  first
    | rfl
    | (unfold St.waiterRun
       by_cases h : s.unfinished = 0 <;> cases hf : s.failed.isEmpty <;> simp [h])

/-- the state a launched job gets when its process ends is the source's function of the exit code (`aio_start`:
    `DONE if code == 0 else ERROR`). -/
theorem exit_state_is_source (fl : Flags) (s : St) (j : Nat) (h : (s.jobs j).pc = .codeWait) :
    ((s.resume fl j).jobs j).state = Gen.exitStateSrc (s.jobs j).code := by
  rw [SchedFinal.resume_codeWait fl s j h]
  simp only [SchedFinal.codeTail, St.finish, St.put, upd, SchedFinal.releaseAll_job, Gen.exitStateSrc]
  src_auto

/-- the recursion `St.registerDeps` is the `for dependency in job.dependencies:` loop whose body registers the dependency with
    its origin and checks it (`Gen.forDeps` / `Gen.addDependent` are the fixed loop combinator and the `dependents.add`
    of the generated file). -/
theorem registerDeps_eq_forDeps (fl : Flags) (j : Nat) : ∀ (k d : Nat) (s : St),
    St.registerDeps fl s j k d = Gen.forDeps (fun s d => (Gen.addDependent s j d).check fl j d) s k d := by
  intro k
  induction k with
  | zero => intro d s; rfl
  | succ k ih =>
    intro d s
    rw [St.registerDeps, Gen.forDeps, ih]
    try rfl

/-- **the dependency segment of `aio_submit` is the source's**: no dependency ⇒ `_readyEvent.set()` and READY; otherwise
    `unsatisfied = len(dependencies)` *before* the loop, then for each dependency: registration with its origin, `check()`.
    (`event`/`sleeping` are false because `aio_submit` has just created the event.)  The seeded change that counts inside
    the loop fails here. -/
theorem submit_deps_is_source (s : St) (j : Nat) (he : (s.jobs j).event = false) (hs : (s.jobs j).sleeping = false) :
    (if (s.jobs j).deps.isEmpty then s.put j { (s.jobs j) with event := true, state := .ready }
     else St.registerDeps repaired (s.put j { (s.jobs j) with unsat := (s.jobs j).deps.length }) j (s.jobs j).deps.length 0)
    = Gen.submitDepsSrc s j := by
  unfold Gen.submitDepsSrc
  first
    | rfl
    | (rw [registerDeps_eq_forDeps]
       cases hd : (s.jobs j).deps.isEmpty <;>
         simp [eventSet, he, hs, St.put, upd, repaired])

/-- **`St.startJob` is the first segment of `aio_submit`** with its dependency part regenerated from the source: WAITING and a
    fresh event, the generated dependency segment, the done-marker test, the head of the waiting loop. -/
theorem startJob_is_source (s : St) (j : Nat) :
    St.startJob repaired s j =
      (let s0 := s.put j { (s.jobs j) with state := .waiting, event := false, sleeping := false }
       let s1 := Gen.submitDepsSrc s0 j
       let s2 := if (s1.jobs j).marker then s1.put j { (s1.jobs j) with state := .done } else s1
       s2.loopHead j) := by
  have h := submit_deps_is_source (s.put j { (s.jobs j) with state := .waiting, event := false, sleeping := false }) j
    (by simp [St.put, upd]) (by simp [St.put, upd])
  simp only [← h]
  unfold St.startJob
  simp [St.put, upd]

/-- **the end of an aborted start is the source's**: when the job-lock release of an aborted start is delivered, the model
    does what `aio_submit` does with the `WAITING` returned by `aio_start` — `job.state = state`, and the re-check
    `state == WAITING and job.unsatisfied == 0` ⇒ READY + `_readyEvent.set()` (repair of F5) — then goes back to the loop head. -/
theorem after_abort_is_source (s : St) (j : Nat) (h : (s.jobs j).pc = .lockExitAbort) :
    St.resume repaired s j =
      (let s1 := s.releaseAll j (s.jobs j).held
       let r := Gen.afterStartSrc (s1.jobs j) .waiting
       (s1.put j r.1 (if r.2 then [.wake j] else [])).loopHead j) := by
  unfold St.resume
  simp only [h, repaired, Gen.afterStartSrc] <;>
    (generalize (s.releaseAll j (s.jobs j).held) = s1; src_auto)

/-- the flag reader and the body translator agree on the end of an aborted start. -/
theorem after_abort_flags_agree (s : St) (j : Nat) (h : (s.jobs j).pc = .lockExitAbort) :
    St.resume Gen.schedFlags s j =
      (let s1 := s.releaseAll j (s.jobs j).held
       let r := Gen.afterStartSrc (s1.jobs j) .waiting
       (s1.put j r.1 (if r.2 then [.wake j] else [])).loopHead j) := by
  unfold St.resume
  simp only [h, Gen.schedFlags, Gen.afterStartSrc] <;>
    (generalize (s.releaseAll j (s.jobs j).held) = s1; src_auto)

/-- for any other returned state the same source segment only assigns it (what the model does with DONE / ERROR at the end
    of a launched job: no wake-up, no other field touched). -/
theorem after_run_is_source (jb : Job) (st : JS) (h : st ≠ .waiting) :
    Gen.afterStartSrc jb st = ({ jb with state := st }, false) := by
  unfold Gen.afterStartSrc
  cases st <;> simp_all

/-- the flag `abortRechecks` is a consequence of the generated body (witness: an aborted start whose dependencies are all
    satisfied must leave the job READY, not WAITING). -/
theorem abortRechecks_from_source (fl : Flags)
    (h : ∀ s j, (s.jobs j).pc = .lockExitAbort → St.resume fl s j =
      (let s1 := s.releaseAll j (s.jobs j).held
       let r := Gen.afterStartSrc (s1.jobs j) .waiting
       (s1.put j r.1 (if r.2 then [.wake j] else [])).loopHead j)) : fl.abortRechecks = true := by
  have := congrArg (fun s => (s.jobs 0).state)
    (h { jobs := fun _ => { ident := 0, pc := .lockExitAbort, state := .ready, unsat := 0 } } 0 rfl)
  cases hg : fl.abortRechecks
  · simp [St.resume, hg, St.releaseAll, St.put, upd, St.loopHead, Gen.afterStartSrc, eventSet, JS.finished] at this
  · rfl

/-- the flag `readyGuarded` is a consequence of the generated body: any flag set for which the model's `depChanged` is the
    source's function has it (witness: a DONE job whose last dependency becomes OK must not become READY). -/
theorem readyGuarded_from_source (fl : Flags)
    (h : ∀ jb d st, depChanged fl jb d st = Gen.depCheckSrc jb d st) : fl.readyGuarded = true := by
  have := h { ident := 0, deps := [{ origin := .job 0, cur := .wait }], state := .done, unsat := 1 } 0 .ok
  cases hg : fl.readyGuarded
  · simp [depChanged, Gen.depCheckSrc, Gen.depChangedSrc, hg, eventSet, val, JS.finished] at this
  · rfl

/-- the flag `resubmitRegisters` is a consequence of the generated body (witness: re-submission of identifier 7 whose
    registered job is in ERROR must count one more unfinished job). -/
theorem resubmitRegisters_from_source (fl : Flags)
    (h : ∀ s j, St.register fl s j = Gen.registerSrc s j) : fl.resubmitRegisters = true := by
  have := congrArg St.unfinished
    (h { jobs := fun i => if i = 0 then { ident := 7, state := .error } else { ident := 7 }, registry := [(7, 0)] } 1)
  cases hg : fl.resubmitRegisters
  · simp [St.register, Gen.registerSrc, hg, lookup] at this
  · rfl

/-- non-vacuity of Part 2: the generated functions are not constant — on concrete records they take the decisions the
    property theorems are about (a WAITING job whose last dependency becomes OK becomes READY; a failed dependency turns a
    WAITING job into ERROR; a token of 1 refuses 2 and grants 1). -/
example :
    (Gen.depCheckSrc { ident := 0, deps := [{ origin := .job 0 }], state := .waiting, unsat := 1 } 0 .ok).1.state = .ready
    ∧ (Gen.depCheckSrc { ident := 0, deps := [{ origin := .job 0 }], state := .waiting, unsat := 1 } 0 .fail).1.state = .error
    ∧ (Gen.depCheckSrc { ident := 0, deps := [{ origin := .job 0 }], state := .done, unsat := 1 } 0 .fail).1.state = .done
    ∧ Gen.tokAcquireSrc 1 2 = none ∧ Gen.tokAcquireSrc 1 1 = some 0
    ∧ Gen.exitStateSrc 0 = .done ∧ Gen.exitStateSrc 3 = .error := by decide

end XpmVerif.SchedSrc
