import XpmVerif.Proofs.SerialLoad
/-! Second generation of the serialisation round trip: writing a graph that was itself loaded and
    loading it again (`reloadTwice`) loses nothing more than the first generation did. -/
namespace XpmVerif.Serial
open XpmVerif.Ident

/-! ### `reloadNode` is idempotent -/

theorem readWriteMeta_idem (fl : Flags) (m : Option Bool) :
    readMeta fl (writeMeta fl (readMeta fl (writeMeta fl m))) = readMeta fl (writeMeta fl m) := by
  rcases fl with ⟨a, b, c⟩
  rcases m with _ | _ | _ <;> cases a <;> cases b <;> simp [readMeta, writeMeta]

/-- the source's treatment of meta flag / init tasks is idempotent -/
theorem reloadNode_idem (fl : Flags) (nd : Node) :
    reloadNode fl (reloadNode fl nd) = reloadNode fl nd := by
  cases nd
  simp only [reloadNode, readWriteMeta_idem]
  cases fl.initRestored <;> simp

/-! ### generic facts -/

theorem reach_closed {succ : Nat → List Nat} (S : Nat → Prop)
    (hcl : ∀ a, S a → ∀ b ∈ succ a, S b) {a c : Nat} (h : Reach succ a c) : S a → S c := by
  induction h with
  | refl _ => exact id
  | step hm _ ih => exact fun ha => ih (hcl _ ha _ hm)

theorem lookupObj_loadedOf_none (fl : Flags) (sg : SGraph) (n : Nat) : ∀ l : List Nat, n ∉ l →
    lookupObj n (loadedOf fl sg l) = none
  | [], _ => rfl
  | k :: l, h => by
    simp only [List.mem_cons, not_or] at h
    simp only [loadedOf, List.map_cons, lookupObj, h.1, if_false]
    exact lookupObj_loadedOf_none fl sg n l h.2

theorem toGraph_node_none (L : Loaded) (size n : Nat) (h : lookupObj n L = none) :
    (toGraph L size).node n = { typeId := [], args := [] } := by
  by_cases hn : n < size
  · rw [toGraph_node L size n hn, h]
  · simp [toGraph, Graph.node, List.getD_eq_getElem?_getD, hn]

theorem regraph_cls (L : Loaded) (size n : Nat) (hn : n < size) :
    (regraph L size).cls n = (match lookupObj n L with
      | some o => o.cname
      | none => []) := by
  cases h : lookupObj n L <;>
    simp [regraph, SGraph.cls, List.getD_eq_getElem?_getD, hn, h]

theorem succAll_of_nodeSame (g g' : Graph) (n : Nat) (h : NodeSame (g.node n) (g'.node n)) :
    succAll g' n = succAll g n := by
  obtain ⟨_, h2, h3, _, h5, h6⟩ := h
  simp only [succAll, argRefs, ← h2, ← h3, ← h5, ← h6]

/-! ### the graph loaded by the first generation, seen as a graph to be written -/

section Regraph
variable (fl : Flags) (sg : SGraph) (l : List Nat) (size : Nat)

theorem regraph_node_mem (n : Nat) (hn : n < size) (hl : n ∈ l) :
    (regraph (loadedOf fl sg l) size).g.node n = reloadNode fl (sg.g.node n) := by
  show (toGraph (loadedOf fl sg l) size).node n = _
  rw [toGraph_node _ size n hn, lookupObj_loadedOf fl sg n l hl]

theorem regraph_cls_mem (n : Nat) (hn : n < size) (hl : n ∈ l) :
    (regraph (loadedOf fl sg l) size).cls n = sg.cls n := by
  rw [regraph_cls _ size n hn, lookupObj_loadedOf fl sg n l hl]

theorem regraph_succ_notmem (n : Nat) (hl : n ∉ l) :
    succAll (regraph (loadedOf fl sg l) size).g n = [] := by
  have : (regraph (loadedOf fl sg l) size).g.node n = { typeId := [], args := [] } :=
    toGraph_node_none _ size n (lookupObj_loadedOf_none fl sg n l hl)
  simp [succAll, this, argRefs, cfgRefsL, optL]

theorem regraph_succ_sub (n : Nat) (hn : n < size) (hl : n ∈ l) :
    ∀ m ∈ succAll (regraph (loadedOf fl sg l) size).g n, m ∈ succAll sg.g n := by
  intro m hm
  simp only [succAll, regraph_node_mem fl sg l size n hn hl] at hm
  simp only [succAll]
  simp only [reloadNode, argRefs, List.mem_append] at hm ⊢
  rcases hm with ((hm | hm) | hm) | hm
  · exact Or.inl (Or.inl (Or.inl hm))
  · exact Or.inl (Or.inl (Or.inr hm))
  · exact Or.inl (Or.inr hm)
  · split at hm
    · exact Or.inr hm
    · cases hm

theorem regraph_nodeOk (lib : List Cls) (n : Nat) (hn : n < size) (hl : n ∈ l)
    (hok : NodeOk lib sg n) : NodeOk lib (regraph (loadedOf fl sg l) size) n := by
  have hnode := regraph_node_mem fl sg l size n hn hl
  have hcls := regraph_cls_mem fl sg l size n hn hl
  have hty : (reloadNode fl (sg.g.node n)).typeId = (sg.g.node n).typeId := rfl
  have hargs : (reloadNode fl (sg.g.node n)).args = (sg.g.node n).args := rfl
  constructor
  · rw [hcls, hnode, hty, hargs]; exact hok.cls
  · rw [hnode, hargs]; exact hok.names
  · rw [hnode, hargs]; exact hok.req

end Regraph

/-- what the first generation leaves: the facts used for the second one -/
theorem gen1_facts (fl : Flags) (lib : List Cls) (sg : SGraph) (roots : List Nat)
    (hwf : WF sg.g) (hr : ∀ r ∈ roots, r < sg.g.size)
    (hok : ∀ n, Needed sg.g roots n → NodeOk lib sg n) :
    let sg1 := regraph (loadedOf fl sg (serialOrder sg.g roots)) sg.g.size
    WF sg1.g ∧ (∀ r ∈ roots, r < sg1.g.size) ∧
    (∀ n, Needed sg1.g roots n → Needed sg.g roots n) ∧
    (∀ n, Needed sg1.g roots n → NodeOk lib sg1 n) := by
  intro sg1
  obtain ⟨_, hiff, hlt, hcl⟩ := serialOrder_spec sg.g roots hwf hr
  have hsize : sg1.g.size = sg.g.size := toGraph_size _ _
  have hneed : ∀ n, Needed sg1.g roots n → Needed sg.g roots n := by
    rintro n ⟨r, hrr, hreach⟩
    apply (hiff n).1
    refine reach_closed (fun x => x ∈ serialOrder sg.g roots) ?_ hreach
      ((hiff r).2 ⟨r, hrr, Reach.refl r⟩)
    intro a ha b hb
    exact hcl a ha b (regraph_succ_sub fl sg _ _ a (hlt a ha) ha b hb)
  refine ⟨?_, ?_, hneed, ?_⟩
  · intro n hn m hm
    rw [hsize] at hn ⊢
    by_cases hl : n ∈ serialOrder sg.g roots
    · exact hwf n hn m (regraph_succ_sub fl sg _ _ n hn hl m hm)
    · rw [regraph_succ_notmem fl sg _ _ n hl] at hm; cases hm
  · intro r hrr; rw [hsize]; exact hr r hrr
  · intro n hn
    have hN := hneed n hn
    have hl := (hiff n).2 hN
    exact regraph_nodeOk fl sg _ _ lib n (hlt n hl) hl (hok n hN)

theorem reloadTwice_eq (fl : Flags) (lib : List Cls) (sg : SGraph) (roots : List Nat)
    (hwf : WF sg.g) (hr : ∀ r ∈ roots, r < sg.g.size)
    (hok : ∀ n, Needed sg.g roots n → NodeOk lib sg n) :
    reloadTwice fl lib sg roots = .ok
      (loadedOf fl sg (serialOrder sg.g roots),
       serialize fl lib (regraph (loadedOf fl sg (serialOrder sg.g roots)) sg.g.size) roots,
       loadedOf fl (regraph (loadedOf fl sg (serialOrder sg.g roots)) sg.g.size)
         (serialOrder (regraph (loadedOf fl sg (serialOrder sg.g roots)) sg.g.size).g roots)) := by
  obtain ⟨hwf1, hr1, _, hok1⟩ := gen1_facts fl lib sg roots hwf hr hok
  have h1 := load_serialize_eq fl lib sg roots hwf hr hok
  have h2 := load_serialize_eq fl lib _ roots hwf1 hr1 hok1
  simp only [reloadTwice, h1, h2]

/-- second generation: write, load, write the loaded graph, load -/
theorem reloadTwice_spec (fl : Flags) (lib : List Cls) (sg : SGraph) (roots : List Nat)
    (hwf : WF sg.g) (hr : ∀ r ∈ roots, r < sg.g.size)
    (hok : ∀ n, Needed sg.g roots n → NodeOk lib sg n) :
    ∃ L1 defs2 L2, reloadTwice fl lib sg roots = .ok (L1, defs2, L2) ∧
      (∀ n, Needed sg.g roots n →
        lookupObj n L1 = some { cname := sg.cls n, node := reloadNode fl (sg.g.node n) }) ∧
      (∀ n, n ∈ L2.map (·.1) → Needed sg.g roots n) ∧
      (∀ n, Needed (regraph L1 sg.g.size).g roots n →
        lookupObj n L2 = some { cname := sg.cls n, node := reloadNode fl (sg.g.node n) }) := by
  obtain ⟨hwf1, hr1, hneed, _⟩ := gen1_facts fl lib sg roots hwf hr hok
  obtain ⟨_, hiff, hlt, _⟩ := serialOrder_spec sg.g roots hwf hr
  obtain ⟨_, hiff1, _, _⟩ := serialOrder_spec _ roots hwf1 hr1
  refine ⟨_, _, _, reloadTwice_eq fl lib sg roots hwf hr hok, ?_, ?_, ?_⟩
  · intro n hn
    exact lookupObj_loadedOf fl sg n _ ((hiff n).2 hn)
  · intro n hn
    rw [loadedOf_keys] at hn
    exact hneed n ((hiff1 n).1 hn)
  · intro n hn
    have hl := (hiff n).2 (hneed n hn)
    rw [lookupObj_loadedOf fl _ n _ ((hiff1 n).2 hn),
      regraph_cls_mem fl sg _ _ n (hlt n hl) hl, regraph_node_mem fl sg _ _ n (hlt n hl) hl,
      reloadNode_idem]

/-- … and when the first generation is exact (flags true or no `meta = False` / no init tasks among
    the needed nodes), the needed nodes of the reloaded graph are the needed nodes of the original and
    the second generation is exact too -/
theorem reloadTwice_exact (fl : Flags) (lib : List Cls) (sg : SGraph) (roots : List Nat)
    (hwf : WF sg.g) (hr : ∀ r ∈ roots, r < sg.g.size)
    (hok : ∀ n, Needed sg.g roots n → NodeOk lib sg n)
    (hm : (fl.metaWriteAll = true ∧ fl.metaReadAll = true) ∨
      ∀ n, Needed sg.g roots n → (sg.g.node n).mflag ≠ some false)
    (hi : fl.initRestored = true ∨ ∀ n, Needed sg.g roots n → (sg.g.node n).initTasks = []) :
    ∃ L1 defs2 L2, reloadTwice fl lib sg roots = .ok (L1, defs2, L2) ∧
      (∀ n, n ∈ L2.map (·.1) ↔ Needed sg.g roots n) ∧
      ∀ n, Needed sg.g roots n →
        ∃ o, lookupObj n L2 = some o ∧ o.cname = sg.cls n ∧ NodeSame (sg.g.node n) o.node ∧
          o.node.sealed = true := by
  obtain ⟨hwf1, hr1, hneed, _⟩ := gen1_facts fl lib sg roots hwf hr hok
  obtain ⟨_, hiff, hlt, hcl⟩ := serialOrder_spec sg.g roots hwf hr
  obtain ⟨_, hiff1, _, hcl1⟩ := serialOrder_spec _ roots hwf1 hr1
  have hsame : ∀ n, Needed sg.g roots n → NodeSame (sg.g.node n) (reloadNode fl (sg.g.node n)) := by
    intro n hN
    apply reloadNode_same
    · rcases hm with hm | hm
      · exact Or.inl hm
      · exact Or.inr (hm n hN)
    · rcases hi with hi | hi
      · exact Or.inl hi
      · exact Or.inr (hi n hN)
  -- the needed nodes of the original are needed in the reloaded graph
  have hneed' : ∀ n, Needed sg.g roots n →
      Needed (regraph (loadedOf fl sg (serialOrder sg.g roots)) sg.g.size).g roots n := by
    rintro n ⟨r, hrr, hreach⟩
    have hroot : Needed sg.g roots r := ⟨r, hrr, Reach.refl r⟩
    have := reach_closed
      (fun x => x ∈ serialOrder sg.g roots ∧
        x ∈ serialOrder (regraph (loadedOf fl sg (serialOrder sg.g roots)) sg.g.size).g roots)
      ?_ hreach ⟨(hiff r).2 hroot, (hiff1 r).2 ⟨r, hrr, Reach.refl r⟩⟩
    · exact (hiff1 n).1 this.2
    · rintro a ⟨ha, ha1⟩ b hb
      refine ⟨hcl a ha b hb, hcl1 a ha1 b ?_⟩
      have hS : NodeSame (sg.g.node a)
          ((regraph (loadedOf fl sg (serialOrder sg.g roots)) sg.g.size).g.node a) := by
        rw [regraph_node_mem fl sg _ _ a (hlt a ha) ha]
        exact hsame a ((hiff a).1 ha)
      rw [succAll_of_nodeSame sg.g _ a hS]
      exact hb
  refine ⟨_, _, _, reloadTwice_eq fl lib sg roots hwf hr hok, ?_, ?_⟩
  · intro n
    rw [loadedOf_keys]
    exact ⟨fun hn => hneed n ((hiff1 n).1 hn), fun hn => (hiff1 n).2 (hneed' n hn)⟩
  · intro n hN
    have hl := (hiff n).2 hN
    refine ⟨_, lookupObj_loadedOf fl _ n _ ((hiff1 n).2 (hneed' n hN)), ?_, ?_, rfl⟩
    · exact regraph_cls_mem fl sg _ _ n (hlt n hl) hl
    · show NodeSame _ (reloadNode fl _)
      rw [regraph_node_mem fl sg _ _ n (hlt n hl) hl, reloadNode_idem]
      exact hsame n hN

/-- identifiers recomputed after two generations -/
theorem reloadTwice_fullId {D : Type} (hc : HC D) (fl : Flags) (lib : List Cls) (sg : SGraph) (root : Nat)
    (hwf : WF sg.g) (hr : root < sg.g.size)
    (hok : ∀ n, Needed sg.g [root] n → NodeOk lib sg n)
    (hm : (fl.metaWriteAll = true ∧ fl.metaReadAll = true) ∨
      ∀ n, Needed sg.g [root] n → (sg.g.node n).mflag ≠ some false)
    (hi : fl.initRestored = true ∨ ∀ n, Needed sg.g [root] n → (sg.g.node n).initTasks = [])
    (hdn : DefaultsNeeded sg.g [root]) :
    ∃ L1 defs2 L2, reloadTwice fl lib sg [root] = .ok (L1, defs2, L2) ∧
      fullId hc (toGraph L2 sg.g.size) root = fullId hc sg.g root := by
  have hr' : ∀ r ∈ [root], r < sg.g.size := by simpa using hr
  obtain ⟨L1, defs2, L2, hL, _, hlook⟩ := reloadTwice_exact fl lib sg [root] hwf hr' hok hm hi
  obtain ⟨_, hiff, hlt, hcl⟩ := serialOrder_spec sg.g [root] hwf hr'
  refine ⟨L1, defs2, L2, hL, ?_⟩
  apply fullId_congr_on hc sg.g (toGraph L2 sg.g.size) (fun n => n ∈ serialOrder sg.g [root])
    (toGraph_size L2 _).symm hcl (fun n hn m hm => (hiff m).2 (hdn n ((hiff n).1 hn) m hm))
  · intro n hn
    obtain ⟨o, ho, _, hs, _⟩ := hlook n ((hiff n).1 hn)
    rw [toGraph_node L2 _ n (hlt n hn), ho]
    exact hs
  · exact (hiff root).2 ⟨root, List.mem_singleton.2 rfl, Reach.refl root⟩

end XpmVerif.Serial
