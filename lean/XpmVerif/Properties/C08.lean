import XpmVerif.Proofs.SchedCap
import XpmVerif.Generated.SchedFlags
/-! C08 "Jobs running under a token never hold more than its capacity" — theorems over ALL reachable states of
    the scheduler model M2 (`Model/Sched.lean`): `Reachable fl totals s` = `s` is the result of ANY list of events
    (submissions of any jobs with any dependencies, callbacks, helper-thread completions in any order, `wait`)
    applied to `St.init totals`, for ANY token table `totals` and ANY repair flags `fl` (none of the scheduler
    repairs is needed for this property — only `no_hold_across_abort` assumes `fl.abortReleases`; no
    well-formedness of the submitted dependencies either).
    Definitions (`Proofs/SchedCap.lean`): `tokCount o t` = the count of origin `o` if it is token `t`, else 0;
    `heldTok jb t` = Σ of the counts of the token-`t` dependencies whose index is in `jb.held` (with
    multiplicity); `request jb t` = Σ of the counts of ALL token-`t` dependencies of `jb`;
    `sumTo n f` = Σ_{j<n} f j.  Invariant and proofs: `Proofs/SchedCap.lean`. -/
namespace XpmVerif.C08
open XpmVerif.Sched

/-- obligation on the current source: the three scheduler repairs are present. -/
theorem scheduler_flags : Gen.schedFlags = { readyGuarded := true, resubmitRegisters := true, abortRechecks := true } := by decide

/-- the capacity of a token is the configured one, forever (`total` is what `capacity` compares with). -/
theorem total_is_configured (fl : Flags) (totals : List Nat) (s : St) (h : Reachable fl totals s) (t : Nat) :
    s.total t = totals.getD t 0 := by
  rw [h.total]

/-- `capacity`: in every reachable state, for every token `t` (registered or not): what is available plus what
    the submitted jobs hold is exactly the capacity, and the available amount is never negative. -/
theorem capacity (fl : Flags) (totals : List Nat) (s : St) (h : Reachable fl totals s) (t : Nat) :
    s.avail t + (sumTo s.n (fun j => heldTok (s.jobs j) t) : Nat) = (s.total t : Int) ∧ 0 ≤ s.avail t := by
  obtain ⟨N, hi⟩ := h.inv
  exact hi.cap t

/-- a job whose process is running (`state = running`; more generally any job between its launch and the
    processing of its exit code, `pc ∈ {lockExitRun, codeWait}`) holds ALL its dependency locks. -/
theorem running_holds_all (fl : Flags) (totals : List Nat) (s : St) (h : Reachable fl totals s) (j : Nat) :
    ((s.jobs j).state = .running → (s.jobs j).pc = .lockExitRun ∨ (s.jobs j).pc = .codeWait) ∧
    ((s.jobs j).pc = .lockExitRun ∨ (s.jobs j).pc = .codeWait →
      (s.jobs j).held = List.range (s.jobs j).deps.length ∧ ∀ t, heldTok (s.jobs j) t = request (s.jobs j) t) := by
  obtain ⟨N, hi⟩ := h.inv
  obtain ⟨_, h2, h3⟩ := hi.job j
  constructor
  · intro hs; have := h3 hs; revert this; cases (s.jobs j).pc <;> simp [PC.run]
  · intro hp
    have : (s.jobs j).pc.run = true := by rcases hp with e | e <;> rw [e] <;> rfl
    exact ⟨h2 this, heldTok_all (h2 this)⟩

/-- the property's sentence: in every reachable state, the jobs whose process is running under token `t`
    (state RUNNING) together request — and hold — at most the capacity of `t`. -/
theorem running_within_capacity (fl : Flags) (totals : List Nat) (s : St) (h : Reachable fl totals s) (t : Nat) :
    sumTo s.n (fun j => if (s.jobs j).state = .running then request (s.jobs j) t else 0) ≤ s.total t := by
  obtain ⟨N, hi⟩ := h.inv
  exact hi.running_le t

/-- the same for the larger set of jobs between launch and the processing of the exit code (the process may
    already have exited, or the state may have been overwritten by a late notification: the tokens are still
    accounted for). -/
theorem launched_within_capacity (fl : Flags) (totals : List Nat) (s : St) (h : Reachable fl totals s) (t : Nat) :
    sumTo s.n (fun j => if (s.jobs j).pc = .lockExitRun ∨ (s.jobs j).pc = .codeWait then request (s.jobs j) t else 0)
      ≤ s.total t := by
  obtain ⟨N, hi⟩ := h.inv
  refine Nat.le_trans (Nat.le_of_eq ?_) (hi.launched_le t)
  apply sumTo_congr; intro i _
  cases (s.jobs i).pc <;> simp [PC.run]

/-- locks are held only while a start is being aborted or the job is launched: between two steps a job that
    holds something waits for the job-lock release thread (`lockExitAbort`, `lockExitRun`) or for its exit code
    (`codeWait`).  (Acquisition happens atomically inside the step that resumes `lockEnter`, so `lockEnter`
    itself never holds anything between steps.)  Jobs not yet submitted hold nothing. -/
theorem held_only_while_starting_or_running (fl : Flags) (totals : List Nat) (s : St) (h : Reachable fl totals s) (j : Nat) :
    (s.jobs j).held ≠ [] →
      j < s.n ∧ ((s.jobs j).pc = .lockExitAbort ∨ (s.jobs j).pc = .lockExitRun ∨ (s.jobs j).pc = .codeWait) := by
  obtain ⟨N, hi⟩ := h.inv
  intro hh
  have h1 := (hi.job j).1 hh
  constructor
  · have := hi.2.1 j
    have := hi.2.2.1
    by_cases hj : j < s.n
    · exact hj
    · have hp : (s.jobs j).pc = .none := by apply hi.2.1; omega
      rw [hp] at h1; simp [PC.holds] at h1
  · revert h1; cases (s.jobs j).pc <;> simp [PC.holds]

/-- `no_hold_across_abort` (what the repair `abortReleases` — `locks.release()` in the `except LockError` handler of
    `aio_start` before `dependency.check()` — buys): with that repair, in every reachable state a job that holds
    anything has been launched (`pc ∈ {lockExitRun, codeWait}`); a job whose start was aborted never keeps a
    token between two steps.  (Without the repair only `held_only_while_starting_or_running` holds.) -/
theorem no_hold_across_abort (fl : Flags) (totals : List Nat) (s : St) (h : Reachable fl totals s)
    (hfl : fl.abortReleases = true) (j : Nat) :
    (s.jobs j).held ≠ [] → (s.jobs j).pc = .lockExitRun ∨ (s.jobs j).pc = .codeWait := by
  obtain ⟨N, hi⟩ := h.invA
  rw [hfl] at hi
  intro hh
  have := hi.hold_run j hh
  revert this; cases (s.jobs j).pc <;> simp [PC.run]

/-- `released_on_every_exit` (for C09): the step that resumes a job after an aborted start (`lockExitAbort`)
    or after its exit code arrived (`codeWait`: success or failure) leaves it holding nothing, gives back to every
    token exactly what the job held, and does not touch what other jobs hold.  Holds in ANY state. -/
theorem released_on_every_exit (fl : Flags) (s : St) (j : Nat)
    (hpc : (s.jobs j).pc = .lockExitAbort ∨ (s.jobs j).pc = .codeWait) :
    ((s.resume fl j).jobs j).held = [] ∧
    (∀ t, (s.resume fl j).avail t = s.avail t + (heldTok (s.jobs j) t : Nat)) ∧
    (∀ i, i ≠ j → ((s.resume fl j).jobs i).held = (s.jobs i).held) :=
  resume_releases fl s j hpc

/-- consequence for C09: in a reachable state with nothing left to run (empty ready queue, no pending helper
    thread) nobody holds anything and every token is full again. -/
theorem idle_full (fl : Flags) (totals : List Nat) (s : St) (h : Reachable fl totals s)
    (hr : s.ready = []) (ht : s.threads = []) (t : Nat) :
    s.avail t = s.total t ∧ ∀ j, (s.jobs j).held = [] := by
  obtain ⟨N, hi⟩ := h.inv
  exact hi.idle_full hr ht t

/-! ### the hypotheses are satisfiable: a concrete run (token 0 of capacity 2; job 0 asks 1 and succeeds, job 1
    asks 2, has its first start aborted while job 0 runs, is retried after the release, runs, and fails);
    `flOK`, `demoRun k` are defined at the end of `Proofs/SchedCap.lean`. -/

example (k : Nat) : Reachable flOK [2] (demoRun k) := ⟨_, rfl⟩
/-- job 0 running and holding 1 of 2, job 1 in an aborted start holding nothing. -/
example : ((demoRun 0).jobs 0).state = .running ∧ ((demoRun 0).jobs 0).held = [0] ∧ ((demoRun 0).jobs 0).pc = .lockExitRun ∧
    ((demoRun 0).jobs 1).pc = .lockExitAbort ∧ ((demoRun 0).jobs 1).held = [] ∧ (demoRun 0).avail 0 = 1 ∧
    heldTok ((demoRun 0).jobs 0) 0 = 1 ∧ request ((demoRun 0).jobs 1) 0 = 2 ∧ (demoRun 0).n = 2 := by decide
/-- `released_on_every_exit` applies: job 0 waits for its exit code holding 1; afterwards token 0 is full. -/
example : ((demoRun 2).jobs 0).pc = .codeWait ∧ heldTok ((demoRun 2).jobs 0) 0 = 1 ∧ (demoRun 2).avail 0 = 1 ∧
    ((demoRun 2).resume flOK 0).avail 0 = 2 := by decide
/-- later job 1 runs alone holding 2 of 2. -/
example : ((demoRun 5).jobs 1).state = .running ∧ ((demoRun 5).jobs 1).held = [0] ∧ (demoRun 5).avail 0 = 0 := by decide
/-- `idle_full` applies: everything finished, nothing pending, token full. -/
example : (demoRun 8).ready = [] ∧ (demoRun 8).threads = [] ∧ (demoRun 8).avail 0 = 2 ∧
    ((demoRun 8).jobs 0).pc = .finished .done ∧ ((demoRun 8).jobs 1).pc = .finished .error := by decide

end XpmVerif.C08
