import XpmVerif.Proofs.SealedInv
/-! C14, part 4 (implementation side): the identifier caches are write-once, so the identifier
    *returned* for a sealed configuration never changes once it has been requested. -/
namespace XpmVerif.Ident.Sealing
open List

/-- `c'` keeps every entry of `c`. -/
def CacheLe {D : Type} (c c' : Caches D) : Prop :=
  (∀ k x, c.raw k = some x → c'.raw k = some x) ∧ (∀ k x, c.full k = some x → c'.full k = some x)

theorem CacheLe.refl {D : Type} (c : Caches D) : CacheLe c c := ⟨fun _ _ h => h, fun _ _ h => h⟩
theorem CacheLe.trans {D : Type} {a b c : Caches D} (h1 : CacheLe a b) (h2 : CacheLe b c) : CacheLe a c :=
  ⟨fun k x h => h2.1 k x (h1.1 k x h), fun k x h => h2.2 k x (h1.2 k x h)⟩

theorem reqRaw_cacheLe {D : Type} (hc : HC D) (fl : Bool) (s : St D) (n : Nat) : CacheLe s.c (reqRaw hc fl s n).1.c := by
  unfold reqRaw
  dsimp only
  split
  · exact CacheLe.refl _
  · rename_i hnone
    split
    · rename_i hs
      rw [if_pos hs] at hnone
      refine ⟨fun k x hk => ?_, fun _ _ h => h⟩
      simp only [updF]
      split
      · rename_i hkn; rw [hkn, hnone] at hk; cases hk
      · exact hk
    · exact CacheLe.refl _

theorem reqRaws_cacheLe {D : Type} (hc : HC D) (fl : Bool) : ∀ (ns : List Nat) (s : St D), CacheLe s.c (reqRaws hc fl s ns).1.c
  | [], s => CacheLe.refl _
  | n :: ns, s => by
    simp only [reqRaws]
    exact (reqRaw_cacheLe hc fl s n).trans (reqRaws_cacheLe hc fl ns _)

theorem reqFull_cacheLe {D : Type} (hc : HC D) (fl : Bool) (s : St D) (n : Nat) : CacheLe s.c (reqFull hc fl s n).1.c := by
  unfold reqFull
  dsimp only
  have h1 := reqRaw_cacheLe hc fl s n
  split
  · exact h1
  · rename_i hnone
    have h2 := reqRaws_cacheLe hc fl (collectPreTasksOrdered (reqRaw hc fl s n).1.g n) (reqRaw hc fl s n).1
    have h3 := reqRaws_cacheLe hc fl ((reqRaw hc fl s n).1.g.node n).initTasks
      (reqRaws hc fl (reqRaw hc fl s n).1 (collectPreTasksOrdered (reqRaw hc fl s n).1.g n)).1
    have h13 := h1.trans (h2.trans h3)
    split
    · rename_i hs
      rw [if_pos hs] at hnone
      refine ⟨h13.1, fun k x hk => ?_⟩
      simp only [updF]
      split
      · rename_i hkn
        have := (reqRaw_cacheLe hc fl s n).2 k x hk
        rw [hkn, hnone] at this; cases this
      · exact h13.2 k x hk
    · exact h13

/-- **write-once caches**: no operation overwrites or drops a cached identifier. -/
theorem step_cacheLe {D : Type} (hc : HC D) (fl : Bool) (s : St D) (o : Op) : CacheLe s.c (step hc fl s o).1.c := by
  cases o with
  | sealOp n => exact CacheLe.refl _
  | reqRaw n => exact reqRaw_cacheLe hc fl s n
  | reqFull n => exact reqFull_cacheLe hc fl s n
  | set n name v => simp only [step]; split <;> exact CacheLe.refl _
  | setMeta n b => simp only [step]; split <;> exact CacheLe.refl _
  | addPretask n p => simp only [step]; split <;> exact CacheLe.refl _

theorem run_cacheLe {D : Type} (hc : HC D) (fl : Bool) : ∀ (os : List Op) (s : St D), CacheLe s.c (run hc fl s os).c
  | [], _ => CacheLe.refl _
  | o :: os, s => (step_cacheLe hc fl s o).trans (run_cacheLe hc fl os _)

/-- a request on a sealed node with a cached raw identifier returns it and changes nothing. -/
theorem reqRaw_hit {D : Type} (hc : HC D) (fl : Bool) (s : St D) (n : Nat) (hs : (s.g.node n).sealed = true)
    {d : D} {f : Bool} (h : s.c.raw n = some (d, f)) : reqRaw hc fl s n = (s, d) := by
  unfold reqRaw
  simp only [hs, if_true, h]

theorem reqFull_hit {D : Type} (hc : HC D) (fl : Bool) (s : St D) (n : Nat) (hs : (s.g.node n).sealed = true)
    {r : D} {f : Bool} (hr : s.c.raw n = some (r, f)) {d : D} (h : s.c.full n = some d) : reqFull hc fl s n = (s, d) := by
  unfold reqFull
  rw [reqRaw_hit hc fl s n hs hr]
  simp only [hs, if_true, h]

/-- after a raw request on a sealed node, its raw identifier is cached. -/
theorem reqRaw_cached {D : Type} (hc : HC D) (fl : Bool) (s : St D) (n : Nat) (hs : (s.g.node n).sealed = true) :
    ∃ f, (reqRaw hc fl s n).1.c.raw n = some ((reqRaw hc fl s n).2, f) := by
  unfold reqRaw
  dsimp only
  split
  · rename_i d f heq
    rw [if_pos hs] at heq
    exact ⟨f, heq⟩
  · simp only [hs, if_true, updF]
    exact ⟨_, rfl⟩

/-- after a full request on a sealed node, both identifiers are cached. -/
theorem reqFull_cached {D : Type} (hc : HC D) (fl : Bool) (s : St D) (n : Nat) (hs : (s.g.node n).sealed = true) :
    (reqFull hc fl s n).1.c.full n = some (reqFull hc fl s n).2 ∧ ∃ r f, (reqFull hc fl s n).1.c.raw n = some (r, f) := by
  obtain ⟨f, hraw⟩ := reqRaw_cached hc fl s n hs
  have hs1 : ((reqRaw hc fl s n).1.g.node n).sealed = true := by rw [reqRaw_g]; exact hs
  unfold reqFull
  dsimp only
  split
  · rename_i d heq
    rw [if_pos hs1] at heq
    exact ⟨heq, _, f, hraw⟩
  · have h2 := reqRaws_cacheLe hc fl (collectPreTasksOrdered (reqRaw hc fl s n).1.g n) (reqRaw hc fl s n).1
    have h3 := reqRaws_cacheLe hc fl ((reqRaw hc fl s n).1.g.node n).initTasks
      (reqRaws hc fl (reqRaw hc fl s n).1 (collectPreTasksOrdered (reqRaw hc fl s n).1.g n)).1
    simp only [hs1, if_true, updF]
    exact ⟨trivial, _, f, (h2.trans h3).1 n _ hraw⟩

end XpmVerif.Ident.Sealing
