"""C04 — no job is launched before everything it depends on has succeeded (scheduling part; dependency collection is checked by xv.props.c04deps)."""
from .. import common
from . import _sched

PROP = "C04"
MODULES = ["XpmVerif.Properties.C04"]
GEN = dict(max_jobs=7, max_tokens=2, resubmit=True, markers=True, fail_p=0.2)
RULE = ('random DAG workloads (<= 7 jobs, <= 2 tokens, failures, markers, duplicates) x random schedules on the real Scheduler + exhaustive schedules of 5 small workloads; monitor: at every launch all upstream jobs have been DONE; non-trivial = some dependency and >= 2 out-of-FIFO deliveries')


def prove(ctx):
    _sched.prove(ctx, MODULES)


def correspond(ctx):
    _sched.run(ctx, PROP, GEN, RULE, 1500, 40000)


def search(ctx):
    _sched.search(ctx, PROP, GEN)


def run_witness(ctx, finding):
    _sched.run_witness(ctx, PROP, finding)


def replay(ctx, obj):
    return _sched.replay_events(ctx, PROP, obj)
