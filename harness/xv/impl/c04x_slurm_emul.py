"""An emulated Slurm (sbatch / srun / sacct / scancel) that reports, like the real one, the *whole* life of a batch job:

    PENDING ... -> RUNNING ... -> COMPLETING ... -> COMPLETED | FAILED | OUT_OF_MEMORY | NODE_FAIL | TIMEOUT | CANCELLED by <uid> | ...

(the emulation shipped with the test-suite of experimaestro only ever prints RUNNING / COMPLETED / FAILED).  Every ending job
of a real Slurm goes through COMPLETING (epilog) whatever its exit code; a job exceeding `--time` is killed and ends TIMEOUT.

The history is *scripted by poll counts*, not by wall-clock windows, so that a scenario does not depend on timing:
    cfg = {"pending": a,       the job is reported PENDING (and does not start) until `a` sacct calls have listed it
           "completing": c,    the first `c` sacct calls after the end of its processes report COMPLETING
           "fail_state": s,    final state of a job whose script exited with a non-zero status
           "kill_state": s,    final state of a job killed at its time limit (`#SBATCH --time=<seconds>` of the script)
           "steps": bool,      also list the `.batch` / `.extern` steps, as `sacct` does without -X
           "suspended": n}     optional (default 0): the first `n` sacct calls that see the job running report SUSPENDED (not final in Slurm)
Files of job <id> in <root>/jobs: .start .script .running .status ("<code> exit|timeout|cancelled") .polls .endpolls .reported
(one line per sacct call: the state printed for the job).  Job ids are the pids of the per-job runner processes."""
import json
import sys
import textwrap
from pathlib import Path

_HEAD = '''
import fcntl, json, os, signal, subprocess, sys, time
from pathlib import Path
ROOT = Path({root!r})
JOBS = ROOT / "jobs"
CFG = json.loads((ROOT / "config.json").read_text())


def bump(path):
    n = int(path.read_text()) if path.is_file() else 0
    path.write_text(str(n + 1))
    return n
'''

_SBATCH = '''
args = sys.argv[1:]
script, parsable, i = None, False, 0
while i < len(args):
    a = args[i]
    if a == "--parsable":
        parsable = True
    elif a in ("-o", "-e", "-i"):
        i += 1
    elif not a.startswith("-"):
        script = a
    i += 1
p = subprocess.Popen([sys.executable, "-SE", str(ROOT / "bin" / "runner"), script], stdin=subprocess.DEVNULL,
                     stdout=subprocess.DEVNULL, stderr=subprocess.DEVNULL, start_new_session=True, close_fds=True)
(JOBS / f"{p.pid}.script").write_text(script)
(JOBS / f"{p.pid}.start.tmp").write_text(str(time.time()))
(JOBS / f"{p.pid}.start.tmp").rename(JOBS / f"{p.pid}.start")
print(f"{p.pid};cluster" if parsable else f"Submitted batch job {p.pid}")
'''

_RUNNER = '''
me = os.getpid()
script = Path(sys.argv[1])
t0 = time.time()
while not (JOBS / f"{me}.start").is_file() and time.time() - t0 < 20:
    time.sleep(0.01)
# PENDING: the job starts once the controller has been asked about it `pending` times (or after 20 s, should nobody ask)
t0 = time.time()
while CFG["pending"] > 0 and time.time() - t0 < 20:
    f = JOBS / f"{me}.polls"
    try:
        if f.is_file() and int(f.read_text() or 0) >= CFG["pending"]:
            break
    except ValueError:
        pass
    time.sleep(0.01)
chdir, out, err, limit = str(script.parent), os.devnull, os.devnull, None
for line in script.read_text().split("\\n"):
    if line.startswith("#SBATCH --chdir="): chdir = line.split("=", 1)[1].strip("'\\"")
    if line.startswith("#SBATCH --output="): out = line.split("=", 1)[1].strip("'\\"")
    if line.startswith("#SBATCH --error="): err = line.split("=", 1)[1].strip("'\\"")
    if line.startswith("#SBATCH --time="): limit = float(line.split("=", 1)[1])      # seconds, in this emulation
env = dict(os.environ)
env["PATH"] = str(ROOT / "bin") + os.pathsep + env.get("PATH", "")
os.chdir(chdir)
(JOBS / f"{me}.running").write_text(str(time.time()))
kind = "exit"
with open(out, "w") as fo, open(err, "w") as fe:
    child = subprocess.Popen(["/bin/sh", str(script)], stdout=fo, stderr=fe, env=env, start_new_session=True)
    (JOBS / f"{me}.child").write_text(str(child.pid))
    t0 = time.time()
    while child.poll() is None:
        if limit is not None and time.time() - t0 > limit:
            kind = "timeout"
        elif (JOBS / f"{me}.cancel").is_file():
            kind = "cancelled"
        if kind != "exit":
            try:
                os.killpg(child.pid, signal.SIGKILL)
            except ProcessLookupError:
                pass
            child.wait()
            break
        time.sleep(0.02)
    code = child.returncode
(JOBS / f"{me}.status.tmp").write_text(f"{code} {kind}")
(JOBS / f"{me}.status.tmp").rename(JOBS / f"{me}.status")
'''

_SACCT = '''
lock = open(ROOT / "sacct.lock", "w")
fcntl.flock(lock, fcntl.LOCK_EX)
lines = []
for start in sorted(JOBS.glob("*.start")):
    jobid = start.name[: -len(".start")]
    t0 = start.read_text()
    status = JOBS / f"{jobid}.status"
    ended = status.is_file()          # read once: a job ending during this call is seen as ended by the next one
    bump(JOBS / f"{jobid}.polls")
    end = "Unknown"
    if ended:
        code, kind = status.read_text().split()
        final = (CFG["kill_state"] if kind == "timeout" else "CANCELLED by 0" if kind == "cancelled"
                 else "COMPLETED" if int(code) == 0 else CFG["fail_state"])
        n = bump(JOBS / f"{jobid}.endpolls")
        state = "COMPLETING" if n < CFG["completing"] else final
        steps, end = final, t0
    elif (JOBS / f"{jobid}.running").is_file():
        state = steps = "RUNNING"
        if bump(JOBS / f"{jobid}.runpolls") < CFG.get("suspended", 0):
            state = "SUSPENDED"           # optional: the first polls of a running job show it suspended (scontrol suspend / gang scheduling)
    else:
        state = steps = "PENDING"
    with open(JOBS / f"{jobid}.reported", "a") as fp:
        fp.write(state + "\\n")
    lines.append(f"{jobid}|{state}|{t0}|{end}|")
    if CFG["steps"] and state != "PENDING":
        lines.append(f"{jobid}.batch|{steps}|{t0}|{end}|")
        lines.append(f"{jobid}.extern|{'RUNNING' if steps == 'RUNNING' else 'COMPLETED'}|{t0}|{end}|")
sys.stdout.write("".join(x + "\\n" for x in lines))
sys.stdout.flush()
'''

_SCANCEL = '''
for a in sys.argv[1:]:
    if a.isdigit() and (JOBS / f"{a}.start").is_file():
        (JOBS / f"{a}.cancel").write_text("")
'''


def make(root: Path, cfg: dict) -> Path:
    """writes the emulation under `root` and returns the directory to give to SlurmLauncher(binpath=...)"""
    root = Path(root)
    (root / "bin").mkdir(parents=True, exist_ok=True)
    (root / "jobs").mkdir(parents=True, exist_ok=True)
    (root / "config.json").write_text(json.dumps(cfg))
    head = _HEAD.format(root=str(root))
    for name, body in (("sbatch", _SBATCH), ("runner", _RUNNER), ("sacct", _SACCT), ("scancel", _SCANCEL)):
        p = root / "bin" / name
        p.write_text(f"#!{sys.executable} -SE\n" + textwrap.dedent(head) + textwrap.dedent(body))
        p.chmod(0o755)
    (root / "bin" / "srun").write_text('#!/bin/sh\nwhile [ "${1#--}" != "$1" ]; do shift; done\nexec "$@"\n')
    (root / "bin" / "srun").chmod(0o755)
    return root / "bin"


def reported(root: Path):
    """{job id: {"script": path, "status": "<code> <kind>"|None, "reported": [state printed by each sacct call, runs compressed]}}"""
    out = {}
    jobs = Path(root) / "jobs"
    for start in sorted(jobs.glob("*.start")):
        jobid = start.name[: -len(".start")]
        rep = []
        f = jobs / f"{jobid}.reported"
        for s in (f.read_text().split("\n") if f.is_file() else []):
            if s and (not rep or rep[-1][0] != s):
                rep.append([s, 1])
            elif s:
                rep[-1][1] += 1
        st = jobs / f"{jobid}.status"
        sc = jobs / f"{jobid}.script"
        out[jobid] = {"script": sc.read_text() if sc.is_file() else None, "status": st.read_text() if st.is_file() else None,
                      "reported": rep}
    return out


def kill_all(root: Path):
    """kills what the emulation may have left (runner and script process groups)"""
    import os
    import signal
    jobs = Path(root) / "jobs"
    for start in jobs.glob("*.start"):
        jobid = start.name[: -len(".start")]
        if (jobs / f"{jobid}.status").is_file():
            continue                      # the runner of this job has ended by itself (its pid may have been re-used since)
        child = jobs / f"{jobid}.child"
        for pid in ([child.read_text()] if child.is_file() else []) + [jobid]:
            try:
                os.killpg(int(pid), signal.SIGKILL)
            except (ValueError, ProcessLookupError, PermissionError, OSError):
                pass
