import XpmVerif.Proofs.RestartTerm
/-! C11, adoption: the invariants of M2 and the termination measure look at the ready queue only through counts and
    membership, so they survive any permutation of the queue (`good2_perm`, `mu_perm`); they also survive the removal
    of all the dependencies of a job whose first segment has not begun (`good2_dropDeps`, `mu_dropDeps`).  With both,
    the adoption of a job is simulated in M2 by the launch of a job without dependencies (`Proofs/RestartAdopt.lean`). -/
set_option linter.unusedSimpArgs false
set_option linter.unusedVariables false
namespace XpmVerif.RestartTerm
open XpmVerif.Sched hiding Reachable flOK submitPre submitPost sumTo
open XpmVerif.SchedFinal XpmVerif.Restart

/-- the state with its ready queue replaced. -/
def reQ (s : St) (l : List Cb) : St := { s with ready := l }

theorem good_perm {fl : Flags} {s : St} {l : List Cb} (hG : Good fl s) (hp : l.Perm s.ready) : Good fl (reQ s l) := by
  have hC := hG.e.c
  refine ⟨⟨⟨⟨?_, hC.a.loc, hC.a.blank⟩, ⟨hC.st.blankDeps, hC.st.acyclic, hC.st.tokOK, hC.st.effLe, hC.st.regLt, hC.st.resLt, ?_⟩,
    hC.f, ⟨hC.d.recs, hC.d.truth, ⟨?_, hC.d.wf.jobDepsOK, hC.d.wf.tokDepsOK⟩⟩⟩, hG.e.q⟩, ⟨hG.r.tok, hG.r.job⟩, hG.nd, ⟨?_, hG.b.count⟩, ?_⟩
  · intro i
    have := hC.a.ctl i
    unfold CtlAt at this ⊢
    unfold SchedFinal.cStart SchedFinal.cWake SchedFinal.cRes at this ⊢
    show List.count _ l = _ ∧ List.count _ l + _ = _ ∧ List.count _ l + _ = _ ∧ _
    rw [hp.count_eq, hp.count_eq, hp.count_eq]
    exact this
  · intro j hj
    exact hC.st.regCb j (hp.mem_iff.mp hj)
  · intro j d hj
    refine hC.d.wf.cbOK j d ?_
    rcases hj with hj | hj
    · exact Or.inl (hp.mem_iff.mp hj)
    · exact Or.inr (hp.mem_iff.mp hj)
  · show nReg l = 0
    unfold nReg
    rw [hp.countP_eq]
    exact hG.b.noreg
  · obtain ⟨N, h1, h2, h3, h4⟩ := hG.cap
    refine ⟨N, ?_, h2, h3, h4⟩
    intro j
    have := h1 j
    show PJ false none j (s.jobs j) (nS l j) (nW l j) (nR l j + nT s.threads j)
    unfold nS nW nR at this ⊢
    rw [hp.countP_eq, hp.countP_eq, hp.countP_eq]
    exact this

theorem good2_perm {fl : Flags} {s : St} {l : List Cb} (hG : Good2 fl s) (hp : l.Perm s.ready) : Good2 fl (reQ s l) := by
  refine ⟨good_perm hG.g hp, ?_, ⟨hG.h.reg, ⟨hG.h.oe.effSch, hG.h.oe.origSch⟩⟩⟩
  exact invQ_transfer (s := s) (s' := reQ s l) (fun i k hs => hs) (fun i k _ => rfl) (fun o r hf => hf)
    (fun _ => Int.le_refl _)
    (fun j i hpd => by
      rcases hpd with h | h
      · exact Or.inl (hp.mem_iff.mpr h)
      · exact Or.inr (hp.mem_iff.mpr h))
    (fun _ _ hp' => hp') (fun _ _ hp' => hp') hG.q

theorem mu_perm {s : St} {l : List Cb} (hp : l.Perm s.ready) : mu (reQ s l) = mu s := by
  have hg : gCount l = gCount s.ready := by unfold gCount; exact hp.countP_eq _
  unfold mu
  show pW s * muA s + SchedFinal.cW s * muB s + muQ s + 2 * gCount l + s.threads.length = _
  rw [hg]

theorem tokFit_perm {s : St} {l : List Cb} (h : TokFit s) : TokFit (reQ s l) := h

/-! ### dropping the dependencies of a job whose first segment has not begun -/

/-- the record without its dependencies and without its marker flag. -/
def dropRec (jb : Job) : Job := { jb with deps := [], marker := false }

/-- the state in which job `j` has lost its dependencies. -/
def dropDeps (s : St) (j : Nat) : St := edit s j (dropRec (s.jobs j))

theorem dropDeps_jobs_ne (s : St) (j i : Nat) (hi : i ≠ j) : (dropDeps s j).jobs i = s.jobs i := edit_jobs_ne s j _ i hi
theorem dropDeps_jobs_same (s : St) (j : Nat) : (dropDeps s j).jobs j = dropRec (s.jobs j) := edit_jobs_same s j _

/-- everything but `deps` and `marker` is kept, for every job. -/
theorem dropDeps_fields (s : St) (j i : Nat) :
    ((dropDeps s j).jobs i).pc = (s.jobs i).pc ∧ ((dropDeps s j).jobs i).state = (s.jobs i).state ∧
    ((dropDeps s j).jobs i).sleeping = (s.jobs i).sleeping ∧ ((dropDeps s j).jobs i).event = (s.jobs i).event ∧
    ((dropDeps s j).jobs i).held = (s.jobs i).held ∧ ((dropDeps s j).jobs i).launches = (s.jobs i).launches ∧
    ((dropDeps s j).jobs i).unsat = (s.jobs i).unsat ∧ ((dropDeps s j).jobs i).failedDep = (s.jobs i).failedDep ∧
    ((dropDeps s j).jobs i).ident = (s.jobs i).ident ∧ ((dropDeps s j).jobs i).code = (s.jobs i).code := by
  by_cases hi : i = j
  · subst hi; rw [dropDeps_jobs_same]; exact ⟨rfl, rfl, rfl, rfl, rfl, rfl, rfl, rfl, rfl, rfl⟩
  · rw [dropDeps_jobs_ne _ _ _ hi]; exact ⟨rfl, rfl, rfl, rfl, rfl, rfl, rfl, rfl, rfl, rfl⟩

theorem dropDeps_status (s : St) (j : Nat) (o : Origin) : (dropDeps s j).status o = s.status o :=
  status_congr (s := s) (s' := dropDeps s j) rfl (fun k => by rw [(dropDeps_fields s j k).2.1])
    (fun k => by rw [(dropDeps_fields s j k).2.1]) o

theorem jlocal_drop {jb : Job} (hL : JLocal jb) (hp : jb.pc = .created) (hs : jb.state = .unscheduled) :
    JLocal (dropRec jb) := by
  unfold JLocal dropRec at *
  simp only [hp, hs, pcEnd, pcEarly, pcRun] at hL ⊢
  grind

theorem good_dropDeps {fl : Flags} {s : St} {j : Nat} (hG : Good fl s) (hp : (s.jobs j).pc = .created) :
    Good fl (dropDeps s j) := by
  have hC := hG.e.c
  have hun : (s.jobs j).state = .unscheduled := hC.f j (Or.inr hp)
  have hF := dropDeps_fields s j
  have hprist := (hC.d.recs j).pristine hun
  have hnst : ¬ Started s j := fun h => h hun
  have hdne : ∀ i, i ≠ j → (dropDeps s j).jobs i = s.jobs i := dropDeps_jobs_ne s j
  have hdj : ((dropDeps s j).jobs j).deps = [] := by rw [dropDeps_jobs_same]; rfl
  -- a dependency index in range of the new state belongs to another job, whose record is unchanged
  have inr : ∀ i k, k < ((dropDeps s j).jobs i).deps.length → i ≠ j := by
    intro i k hk e; subst e; rw [hdj] at hk; simp at hk
  have hstart : ∀ i, Started (dropDeps s j) i → Started s i := by
    intro i h; unfold Started at h ⊢; rw [(hF i).2.1] at h; exact h
  obtain ⟨N, c1, c2, c3, c4⟩ := hG.cap
  have hheld : (s.jobs j).held = [] := by
    have hk := c1 j
    simp only [PJ, KJ] at hk
    apply Classical.byContradiction
    intro hne
    have := hk.2.2.2.2.1 hne
    rw [hp] at this; simp [PC.holds] at this
  refine ⟨⟨⟨⟨?_, ?_, ?_⟩, ⟨?_, ?_, ?_, hC.st.effLe, hC.st.regLt, hC.st.resLt, hC.st.regCb⟩, ?_, ⟨?_, ?_, ⟨?_, ?_, ?_⟩⟩⟩, ?_⟩,
    ⟨?_, ?_⟩, ?_, ⟨hG.b.noreg, ?_⟩, ⟨N, ?_, ?_, c3, ?_⟩⟩
  · intro i
    exact (ctlAt_congr i (hF i).1 (hF i).2.2.1 rfl rfl rfl rfl rfl).2 (hC.a.ctl i)
  · intro i
    by_cases hi : i = j
    · subst hi; rw [dropDeps_jobs_same]; exact jlocal_drop (hC.a.loc i) hp hun
    · rw [hdne i hi]; exact hC.a.loc i
  · intro i hi; rw [(hF i).1]; exact hC.a.blank i hi
  · intro i hi
    by_cases hij : i = j
    · subst hij; exact hdj
    · rw [hdne i hij]; exact hC.st.blankDeps i hi
  · intro i k o hk ho
    have hij := inr i k hk
    rw [hdne i hij] at hk ho; exact hC.st.acyclic i k o hk ho
  · intro i k t c hk ho
    have hij := inr i k hk
    rw [hdne i hij] at hk ho; exact hC.st.tokOK i k t c hk ho
  · intro i hpi; rw [(hF i).1] at hpi; rw [(hF i).2.1]; exact hC.f i hpi
  · intro i
    by_cases hi : i = j
    · subst hi
      rw [dropDeps_jobs_same]
      have hJ := hC.d.recs i
      unfold dropRec
      refine ⟨fun h => by simp [hun] at h, fun h => by simp [hp] at h, fun h => by simp [hp, pcRun] at h,
        fun _ => Or.inr hp, fun _ => ⟨hprist.1, hprist.2.1, fun k hk => by simp at hk⟩, fun h => absurd hun h,
        fun h => by simp [hun] at h, fun k hk => by simp at hk, fun h => by simp [hprist.1] at h,
        fun h => by simp [hprist.1] at h⟩
    · rw [hdne i hi]; exact hC.d.recs i
  · intro i k o hk ho
    have hij := inr i k hk
    rw [hdne i hij] at hk ho ⊢
    rw [(hF o).2.1]
    exact hC.d.truth i k o hk ho
  · intro i d hcb
    have h0 := hC.d.wf.cbOK i d hcb
    have hij : i ≠ j := by intro e; subst e; exact hnst h0.1
    unfold DepOK Started
    rw [hdne i hij]; exact h0
  · intro o p hpm
    obtain ⟨h0, h1⟩ := hC.d.wf.jobDepsOK o p hpm
    have hij : p.1 ≠ j := by intro e; rw [e] at h0; exact hnst h0.1
    unfold DepOK Started
    rw [hdne p.1 hij]; exact ⟨h0, h1⟩
  · intro t p hpm
    obtain ⟨h0, h1⟩ := hC.d.wf.tokDepsOK t p hpm
    have hij : p.1 ≠ j := by intro e; rw [e] at h0; exact hnst h0.1
    unfold DepOK Started
    rw [hdne p.1 hij]; exact ⟨h0, h1⟩
  · intro i
    by_cases hi : i = j
    · subst hi
      rw [dropDeps_jobs_same]
      obtain ⟨⟨q1, q2, q3, q4, q5⟩, q6⟩ := hG.e.q i
      unfold dropRec
      exact ⟨⟨q1, fun h => by simp [hp] at h, fun h => by simp [hp] at h, fun h => by simp [hun] at h,
        fun h => by simp [hun] at h⟩, q6⟩
    · rw [hdne i hi]; exact hG.e.q i
  · have hreg : regTot (dropDeps s j) = regTot s := by
      unfold regTot
      refine SchedFinal.sumTo_congr _ _ _ (fun i _ => ?_)
      unfold regC
      rw [(hF i).2.1]
      by_cases hi : i = j
      · subst hi; simp [hun]
      · rw [hdne i hi]
    intro t; rw [hreg]; exact hG.r.tok t
  · have hreg : regTot (dropDeps s j) = regTot s := by
      unfold regTot
      refine SchedFinal.sumTo_congr _ _ _ (fun i _ => ?_)
      unfold regC
      rw [(hF i).2.1]
      by_cases hi : i = j
      · subst hi; simp [hun]
      · rw [hdne i hi]
    intro o; rw [hreg]; exact hG.r.job o
  · intro i k k' t c c' h1 h2
    by_cases hi : i = j
    · subst hi
      rw [dropDeps_jobs_same] at h1
      simp [depAt, dropRec] at h1
      cases h1
    · rw [hdne i hi] at h1 h2; exact hG.nd i k k' t c c' h1 h2
  · have hc := hG.b.count
    unfold CountC at hc ⊢
    have : actN (dropDeps s j) = actN s := actN_congr rfl (fun i => by unfold act; rw [(hF i).1])
    rw [this]; exact hc
  · intro i
    have := c1 i
    simp only [PJ, KJ] at this ⊢
    show _ ∧ _ ∧ _ ∧ _ ∧ _ ∧ _ ∧ _ ∧ _
    rw [(hF i).1, (hF i).2.2.1, (hF i).2.2.2.2.1, (hF i).2.1]
    by_cases hi : i = j
    · subst hi
      refine ⟨this.1, this.2.1, this.2.2.1, this.2.2.2.1, this.2.2.2.2.1, ?_, this.2.2.2.2.2.2.1, this.2.2.2.2.2.2.2⟩
      intro hr; rw [hp] at hr; simp [PC.run] at hr
    · rw [hdne i hi]; exact this
  · intro i hN; rw [(hF i).1]; exact c2 i hN
  · intro t
    have e : XpmVerif.Sched.sumTo s.n (fun i => heldTok ((dropDeps s j).jobs i) t) = XpmVerif.Sched.sumTo s.n (fun i => heldTok (s.jobs i) t) := by
      apply XpmVerif.Sched.sumTo_congr
      intro i _
      by_cases hi : i = j
      · subst hi
        rw [dropDeps_jobs_same]
        unfold heldTok dropRec
        simp only [hheld]
        simp [sumTok]
      · rw [hdne i hi]
    show (dropDeps s j).avail t + ((XpmVerif.Sched.sumTo s.n (fun i => heldTok ((dropDeps s j).jobs i) t) : Nat) : Int) = _ ∧ _
    rw [e]; exact c4 t

theorem good2_dropDeps {fl : Flags} {s : St} {j : Nat} (hG : Good2 fl s) (hp : (s.jobs j).pc = .created) :
    Good2 fl (dropDeps s j) := by
  have hun : (s.jobs j).state = .unscheduled := hG.g.e.c.f j (Or.inr hp)
  have hF := dropDeps_fields s j
  have hdne : ∀ i, i ≠ j → (dropDeps s j).jobs i = s.jobs i := dropDeps_jobs_ne s j
  have hdj : ((dropDeps s j).jobs j).deps = [] := by rw [dropDeps_jobs_same]; rfl
  refine ⟨good_dropDeps hG.g hp, ?_, ⟨?_, ?_, ?_⟩⟩
  · refine invQ_transfer (s := s) (s' := dropDeps s j) ?_ ?_ (fun o r hf => by rw [(hF o).1] at hf; exact hf)
      (fun _ => Int.le_refl _) (fun _ _ hp' => hp') (fun _ _ hp' => hp') (fun _ _ hp' => hp') hG.q
    · intro i k hs
      have hij : i ≠ j := by
        intro e; subst e
        have := hs.1; unfold Started at this; rw [(hF i).2.1] at this; exact this hun
      have h1 := hs.1; have h2 := hs.2.1
      unfold Started at h1
      rw [hdne i hij] at h1 h2
      exact ⟨h1, h2, trivial⟩
    · intro i k hs
      have hij : i ≠ j := by
        intro e; subst e
        have := hs.1; unfold Started at this; rw [(hF i).2.1] at this; exact this hun
      rw [hdne i hij]
  · intro p hpm; rw [(hF p.2).1]; exact hG.h.reg p hpm
  · intro d hd; rw [(hF _).1]; exact hG.h.oe.effSch d hd
  · intro i k o hk ho
    have hij : i ≠ j := by intro e; subst e; rw [hdj] at hk; simp at hk
    rw [hdne i hij] at hk ho
    rw [(hF o).1]; exact hG.h.oe.origSch i k o hk ho

theorem tokFit_dropDeps {s : St} {j : Nat} (hT : TokFit s) : TokFit (dropDeps s j) := by
  intro i k t c hk ho
  have hij : i ≠ j := by
    intro e; subst e
    rw [dropDeps_jobs_same] at hk; simp [dropRec] at hk
  rw [dropDeps_jobs_ne s j i hij] at hk ho
  exact hT i k t c hk ho

theorem mu_dropDeps_le {s : St} {j : Nat} (hp : (s.jobs j).pc = .created) : mu (dropDeps s j) ≤ mu s := by
  have hF := dropDeps_fields s j
  have hdne : ∀ i, i ≠ j → (dropDeps s j).jobs i = s.jobs i := dropDeps_jobs_ne s j
  have hst := dropDeps_status s j
  have hn : (dropDeps s j).n = s.n := rfl
  have hd : dTot (dropDeps s j) ≤ dTot s := by
    unfold dTot; rw [hn]
    refine sumTo_mono _ _ _ (fun i _ => ?_)
    by_cases hi : i = j
    · subst hi; rw [dropDeps_jobs_same]; simp [dropRec]
    · rw [hdne i hi]; exact Nat.le_refl _
  have hA : muA (dropDeps s j) = muA s := by
    unfold muA; rw [hn]; exact SchedFinal.sumTo_congr _ _ _ (fun i _ => by unfold aJ; rw [(hF i).1, (hF i).2.1])
  have hQ : muQ (dropDeps s j) = muQ s := by
    unfold muQ; rw [hn]; exact SchedFinal.sumTo_congr _ _ _ (fun i _ => by unfold qJ; rw [(hF i).1, (hF i).2.2.1])
  have hB : muB (dropDeps s j) = muB s := by
    unfold muB; rw [hn]
    refine SchedFinal.sumTo_congr _ _ _ (fun i _ => ?_)
    by_cases hi : i = j
    · subst hi; unfold bJ; rw [(hF i).1, hp]
    · exact bJ_congr i (hdne i hi) hst
  have hsq : dTot (dropDeps s j) * dTot (dropDeps s j) ≤ dTot s * dTot s := Nat.mul_le_mul hd hd
  have hc : SchedFinal.cW (dropDeps s j) ≤ SchedFinal.cW s := by unfold SchedFinal.cW; omega
  have he : eW (dropDeps s j) ≤ eW s := by unfold eW; omega
  have hpw : pW (dropDeps s j) ≤ pW s := by
    unfold pW; rw [hn]
    have := Nat.mul_le_mul_right s.n hc
    omega
  unfold mu
  rw [hA, hB, hQ]
  have h1 := Nat.mul_le_mul_right (muA s) hpw
  have h2 := Nat.mul_le_mul_right (muB s) hc
  show _ + 2 * gCount s.ready + s.threads.length ≤ _
  omega

end XpmVerif.RestartTerm
