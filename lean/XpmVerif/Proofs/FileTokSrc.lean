import XpmVerif.Generated.TokFlags
import XpmVerif.Model.FileTokens
/-! the configuration of the file-token model M2' for the source as read by `harness/xv/translate/tokflags.py`. -/
namespace XpmVerif.FileTokens

/-- the model configuration of the source as translated. -/
def srcCfg (total : Nat) (req : Name → Nat) : Cfg :=
  { total := total, req := req, tolerant := Gen.tokFlags.tolerant, notifyMissing := Gen.tokFlags.notifyMissing }

end XpmVerif.FileTokens
