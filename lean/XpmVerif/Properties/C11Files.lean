import XpmVerif.Proofs.FileTokWatch
import XpmVerif.Proofs.FileTokRelease
import XpmVerif.Properties.C09Files
/-! C11, file-token part (model M2', `Model/FileTokens.lean`): a scheduler process dies (`drop`: its in-memory token state,
    its event queue and its watcher threads are lost; its token files stay; its job processes live on) and a new process
    is started on the same directory (`restart`: `CounterToken.__init__` = scan of the directory, a watcher thread for
    every token file found, observer started, second scan — F26: the second scan is what makes the two one step). -/
namespace XpmVerif.C11Files
open XpmVerif.FileTokens

/-- `restart_token_files_consistent`: after the restarted process's scan and watch start, the state is again a reachable
    state satisfying the whole invariant (so `disk_capacity` and `mem_overapprox` hold: nothing the dead process had taken
    is forgotten, nothing is counted twice), the new process knows exactly the files of the directory, its counter is exact,
    its observer runs with an empty queue, and *every* token file found — in particular every orphan file, taken by the dead
    process for a job that still runs — has a watcher thread in the new process. -/
theorem restart_token_files_consistent (cfg : Cfg) (s : St) (r : Reachable cfg s) (p : Proc)
    (en : enabled s (.restart p) = true) :
    let s' := (apply cfg s (.restart p)).1
    Reachable cfg s' ∧ Inv cfg s' ∧ diskSum cfg s' ≤ cfg.total ∧ s'.disk = s.disk ∧ s'.active = s.active ∧
    (s'.procs p).cache = names s'.disk ∧ (s'.procs p).avail = (cfg.total : Int) - (diskSum cfg s' : Nat) ∧
    (s'.procs p).alive = true ∧ (s'.procs p).dropped = false ∧ (s'.procs p).pending = [] ∧
    ∀ f ∈ names s'.disk, f ∈ (s'.procs p).watch := by
  have r' : Reachable cfg (apply cfg s (.restart p)).1 := .step _ r en
  have hI := reachable_inv cfg _ r'
  refine ⟨r', hI, hI.cap, rfl, rfl, ?_, ?_, ?_, ?_, ?_, ?_⟩
  · simp [apply, recount_cache]
  · simp [apply, recount_avail, diskSum]
  · simp [apply, fresh]
  · simp [apply, fresh]
  · simp [apply, fresh]
  · intro f hf
    simp only [apply, upd_same]
    exact watchedP_recount_new cfg s.disk fresh f hf (by simp [fresh])

/-- the orphan is then removed as soon as its job ends, by the new process (or any other live one). -/
theorem orphan_reclaimed_after_restart (cfg : Cfg) (s : St) (r : Reachable cfg s) (p : Proc) (f : Name)
    (en : enabled s (.restart p) = true) (hf : f ∈ names s.disk) (hgone : f ∉ s.active) :
    let s' := (apply cfg s (.restart p)).1
    enabled s' (.reclaim p f) = true ∧ f ∉ names (apply cfg s' (.reclaim p f)).1.disk := by
  obtain ⟨r', _, _, hd, ha, _, _, _, hdr, _, hw⟩ := restart_token_files_consistent cfg s r p en
  have hfd : f ∈ names (apply cfg s (.restart p)).1.disk := by rw [hd]; exact hf
  refine ⟨?_, ?_⟩
  · simp [enabled, hdr, hw f hfd, ha, hgone]
  · exact (C09Files.reclaim_restores cfg _ r' p f hfd).1

/-- the construction in its two real phases (`restartScan`: first scan + watcher threads, observer not yet running;
    `restartWatch`: observer started, second scan), with nothing in between, is the `restart` step of the model. -/
theorem restart_two_phase_is_restart (cfg : Cfg) (s : St) (p : Proc) :
    ((restartWatch cfg (restartScan cfg s p) p).procs p).cache = ((apply cfg s (.restart p)).1.procs p).cache ∧
    ((restartWatch cfg (restartScan cfg s p) p).procs p).avail = ((apply cfg s (.restart p)).1.procs p).avail ∧
    ((restartWatch cfg (restartScan cfg s p) p).procs p).alive = true ∧
    ((restartWatch cfg (restartScan cfg s p) p).procs p).pending = [] ∧
    ∀ f, f ∈ ((restartWatch cfg (restartScan cfg s p) p).procs p).watch ↔ f ∈ ((apply cfg s (.restart p)).1.procs p).watch :=
  restart_is_scan_then_watch cfg s p

/-- every run of enabled steps keeps the invariant (also from a state that is not `Reachable`, such as the one between the two scans). -/
theorem enabled_run_keeps_inv (cfg : Cfg) (evs : List Ev) : ∀ t, allEnabled cfg t evs = true → Inv cfg t → Inv cfg (run cfg t evs) := by
  induction evs with
  | nil => intro t _ h; exact h
  | cons e rest ih =>
    intro t hen h
    simp only [allEnabled, Bool.and_eq_true] at hen
    exact ih _ hen.2 (inv_step cfg t e h hen.1)

/-- whatever the other processes do between the two scans (any steps `evs` enabled from the state after the first scan;
    the events they produce are lost for the new process, whose observer is not running yet): both intermediate states and
    the final one satisfy the whole invariant (capacity, no under-estimate), and after the second scan the new process knows
    exactly the directory, its counter is exact, and every token file is watched or was already seen by the first scan
    (F26: the second scan is what makes the counter exact again). -/
theorem restart_two_phase_consistent (cfg : Cfg) (s : St) (r : Reachable cfg s) (p : Proc) (hi : s.ipc = none)
    (evs : List Ev) (hen : allEnabled cfg (restartScan cfg s p) evs = true) (hipc : (run cfg (restartScan cfg s p) evs).ipc = none) :
    let s₁ := restartScan cfg s p
    let s₂ := run cfg s₁ evs
    let s₃ := restartWatch cfg s₂ p
    Inv cfg s₁ ∧ Inv cfg s₂ ∧ Inv cfg s₃ ∧ diskSum cfg s₃ ≤ cfg.total ∧
    (s₃.procs p).cache = names s₃.disk ∧ (s₃.procs p).avail = (cfg.total : Int) - (diskSum cfg s₃ : Nat) ∧
    ∀ f ∈ names s₃.disk, f ∈ (s₃.procs p).watch ∨ f ∈ (s₂.procs p).cache := by
  have h1 := inv_restartScan cfg s p (reachable_inv cfg s r) hi
  have h2 := enabled_run_keeps_inv cfg evs _ hen h1
  have h3 := inv_restartWatch cfg _ p h2 hipc
  obtain ⟨a, b, c⟩ := restartWatch_spec cfg (run cfg (restartScan cfg s p) evs) p
  exact ⟨h1, h2, h3, h3.cap, a, b, c⟩

/-- negative witness for "every orphan file is watched" when the two scans are *not* one step: the watcher thread started
    by the first scan removes the file of the finished job 7, process 1 takes the token again for the same job (same file
    name) before the second scan; the second scan finds the name in its cache and starts no watcher, and no event was
    received: process 0 ends up with the file cached, unwatched, nothing queued.  If process 1 then dies and the job ends,
    no step of process 0 ever removes the file (`reclaim` is not enabled, a recount keeps the cache entry).  The window is
    the few instructions between the two `_update()` calls of `CounterToken.__init__` and needs the *same job* to be
    started again by another scheduler within it: recorded as an observation, not reproduced on the real code. -/
theorem restart_window_can_miss_watch :
    let s₀ := run cfgFixed (init cfgFixed) evsBeforeScan
    let s₂ := run cfgFixed (restartScan cfgFixed s₀ 0) evsWindow
    let s₃ := restartWatch cfgFixed s₂ 0
    let s₄ := run cfgFixed s₃ [.drop 1, .jobGone 7]
    allEnabled cfgFixed (init cfgFixed) evsBeforeScan = true ∧ allEnabled cfgFixed (restartScan cfgFixed s₀ 0) evsWindow = true ∧
    (s₃.procs 0).cache = [7] ∧ (s₃.procs 0).watch = [] ∧ (s₃.procs 0).pending = [] ∧ lookupW 7 s₃.disk = some true ∧
    allEnabled cfgFixed s₃ [.drop 1, .jobGone 7] = true ∧ 7 ∉ s₄.active ∧ names s₄.disk = [7] ∧
    enabled s₄ (.reclaim 0 7) = false ∧ ((apply cfgFixed s₄ (.acquireBegin 0 8)).1.procs 0).watch = [] ∧
    (apply cfgFixed s₄ (.acquireBegin 0 8)).2.ok = false := by
  decide +kernel

/-! ### non-vacuity: process 0 takes the token for job 7 and dies; the job runs on; process 0 is restarted -/

example : Reachable cfgFixed (run cfgFixed (init cfgFixed) evsCrash) := reachable_run cfgFixed evsCrash _ .init (by decide +kernel)
example : let s := run cfgFixed (init cfgFixed) evsCrash
    enabled s (.restart 0) = true ∧ 7 ∈ s.active ∧ ((apply cfgFixed s (.restart 0)).1.procs 0).watch = [7] ∧
    ((apply cfgFixed s (.restart 0)).1.procs 0).avail = 0 := by decide +kernel
example : let s := run cfgFixed (init cfgFixed) (evsCrash ++ [.restart 0, .jobGone 7])
    enabled s (.reclaim 0 7) = true ∧ (apply cfgFixed s (.reclaim 0 7)).1.disk = [] := by decide +kernel

end XpmVerif.C11Files
