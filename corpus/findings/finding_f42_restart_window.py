"""Stand-alone witness (public API of experimaestro.tokens only; exit 1 = the behaviour shows, 0 = it does not).

C09: "whatever way a job ends — … death of its scheduler followed by the job's own end — the amount it held returns to
the token".

`CounterToken.__init__` scans the directory twice (before and after the observer is started).  `_update` keeps the cache
entry of a file *name* it already knows and starts a watcher thread only for names it did not know.  If, between the two
scans, the watcher thread started by the first scan removes the file of a finished job and another scheduler takes the
token again for the same job (same file name), the second scan finds the name in the cache: no watcher thread exists for
the file that is there now, and no file-system event was received (the observer was started after the creation).  When
that other scheduler dies and the job ends, this process never removes the file: the amount never returns
(kernel-checked model trace: `C11Files.restart_window_can_miss_watch`).

One OS process is enough here (no lock is contended): scheduler A is a second `CounterToken` object whose operations are
performed at the point of B's constructor where another process could perform them (the call of `ipcom().fswatch`, which
sits between the two scans)."""
import logging
import shutil
import sys
import tempfile
import time
import types
from pathlib import Path

logging.disable(logging.CRITICAL)
import experimaestro.tokens as tk  # noqa: E402
from experimaestro.locking import LockError  # noqa: E402

root = Path(tempfile.mkdtemp(prefix="xv-restart-window-"))
watched = []
real_watch = tk.TokenFile.watch


def watch(self):
    watched.append(self.path.name)
    return real_watch(self)


tk.TokenFile.watch = watch


def dep(token, ident):
    d = token.dependency(1)
    d.target = types.SimpleNamespace(identifier=ident, basepath=root / "jobs" / ident / "task")
    d.target.basepath.parent.mkdir(parents=True, exist_ok=True)
    return d


try:
    tk.ipcom = lambda: types.SimpleNamespace(fswatch=lambda *a, **k: None)
    A = tk.CounterToken("t", root / "tok", 1)          # scheduler A
    jA = dep(A, "jobJ")
    A.acquire(jA)                                      # job J took the token; its process has ended (no pid file, lock free)

    def between_the_scans(handler, path, recursive=False):
        t0 = time.time()
        while (root / "tok" / "jobJ.token").exists() and time.time() - t0 < 5:
            time.sleep(0.02)                           # the watcher thread of B's first scan removes the file of the finished job
        A.release(jA)                                  # A's release finds nothing,
        A.acquire(jA)                                  # and A starts job J again: jobJ.token exists again
        return None

    tk.ipcom = lambda: types.SimpleNamespace(fswatch=between_the_scans)
    B = tk.CounterToken("t", root / "tok", 1)          # scheduler B is (re)started: scan, observer, scan
    state = {"files": sorted(p.name for p in (root / "tok").glob("*.token")), "B.cache": sorted(B.cache),
             "watcher threads B started": list(watched)}
    # scheduler A dies now; job J ends (nobody holds its job lock, there is no pid file): the token is held by nobody.
    time.sleep(1.5)
    try:
        B.acquire(dep(B, "jobK"))
        returned = True
    except LockError:
        returned = False
    print(f"after B's constructor: {state}; 1.5 s after the death of A and the end of job J: files "
          f"{sorted(p.name for p in (root / 'tok').glob('*.token'))}; B can take the idle token: {returned}")
    if not returned:
        print("OBSERVED: the token of total 1 is held by no job, B watches nothing, and B is refused for ever")
        sys.exit(1)
    sys.exit(0)
finally:
    shutil.rmtree(root, ignore_errors=True)
