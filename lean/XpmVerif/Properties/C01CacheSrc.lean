import XpmVerif.Generated.ComputeSrc
import XpmVerif.Properties.C01Cache
/-! C01 — source obligations for the identifier cache: what `harness/xv/translate/computesrc.py` read in
`HashComputer.compute` and `ConfigPath` of the tree under test (`Generated/ComputeSrc.lean`, rewritten on every run) is
the plan that `Model/IdentImpl.lean` interprets, so that `cache_coherent` (`Properties/C01Cache.lean`) is a statement about
this source.  (The caching conditions of `identifiers()` are obligations of `sealsrc`: `identifiers_cached_only_when_sealed`.) -/
namespace XpmVerif.C01CacheSrc
open XpmVerif.Ident XpmVerif.Gen

/-- **`ConfigPath.detect_loop`**: a configuration that is on the path at `index` marks `loops[index : depth]` — the
    referenced configuration itself and everything pushed since — and the distance `depth − index` is returned (the
    `k` of `relIndex`); one that is not on the path marks nothing and gives `None`. -/
theorem detect_loop_marks_from_index_from_source :
    computeData.absentNone = true ∧ computeData.markLo = ⟨1, 0, 0⟩ ∧ computeData.markHi = ⟨0, 1, 0⟩ ∧
    computeData.ret = ⟨-1, 1, 0⟩ := by decide

/-- **`ConfigPath.push` / `has_loop`**: `push` refuses a configuration that is already on the path, records it at index
    `depth` with a fresh `False` entry, its exit removes both; `has_loop()` reads the entry of the configuration being
    hashed (the last one). -/
theorem config_path_stack_from_source :
    computeData.pushAsserts = true ∧ computeData.pushIndex = ⟨0, 1, 0⟩ ∧ computeData.pushAppendsFalse = true ∧
    computeData.popRestores = true ∧ computeData.hasLoopReadsLast = true := by decide

/-- **F1 site**: the attribute of the identifier that the cache test of `compute` reads is initialised to `False`, is the
    attribute that `compute` writes, and is written from `config_path.has_loop()` inside the `with config_path.push(config)`
    block, after `update(config, myself=True)`; the identifier computed there is returned
    (subsumes `C01.loop_flag_is_stored` of `hashflags`). -/
theorem loop_flag_written_is_flag_read_from_source :
    computeData.flagInitFalse = true ∧ computeData.flagWrittenIsRead = true ∧ computeData.flagFromHasLoop = true ∧
    computeData.hasLoopInsidePush = true ∧ computeData.updateMyselfInsidePush = true ∧ computeData.returnsComputed = true := by
  decide

/-- **the cache test of `compute`**: the cached identifier is returned iff the configuration is sealed, an identifier is
    cached and its loop flag is false — `cacheHit`. -/
theorem compute_cache_test_from_source (sealed cached flag : Bool) :
    cacheTest sealed cached flag = (sealed && cached && !flag) := by
  cases sealed <;> cases cached <;> cases flag <;> rfl

/-- the plan read off the source is the expected one -/
theorem source_plan :
    (planOf computeData cacheTest).flagStored = true ∧ (planOf computeData cacheTest).markOff = 0 ∧
    ∀ s c f, (planOf computeData cacheTest).hit s c f = (s && c && !f) :=
  ⟨by decide, by decide, compute_cache_test_from_source⟩

/-! ### the hand-written link: `IdentImpl` is the interpreter of that plan -/

theorem cacheHitP_eq {D : Type} (p : CachePlan) (hh : ∀ s c f, p.hit s c f = (s && c && !f)) (g : Graph) (c : Caches D) (n : Nat) :
    cacheHitP p g c n = cacheHit g c n := by
  unfold cacheHitP cacheHit
  cases hs : (g.node n).sealed <;> cases hr : c.raw n with
  | none => rfl
  | some x => obtain ⟨d, fl⟩ := x; cases fl <;> simp [hh]

theorem computeAtP_eq {D : Type} (p : CachePlan) (hh : ∀ s c f, p.hit s c f = (s && c && !f)) (hc : HC D) (g : Graph) (c : Caches D) :
    ∀ (f : Nat) (stack : List Nat) (n : Nat), computeAtP p hc g c f stack n = computeAt hc g c f stack n
  | 0, _, _ => rfl
  | f + 1, stack, n => by
    have ih : ∀ m, computeAtP p hc g c f (n :: stack) m = computeAt hc g c f (n :: stack) m := fun m => computeAtP_eq p hh hc g c f (n :: stack) m
    simp only [computeAtP, computeAt, cacheHitP_eq p hh, ih]
    cases cacheHit g c n <;> rfl

theorem escAtP_eq {D : Type} (p : CachePlan) (hh : ∀ s c f, p.hit s c f = (s && c && !f)) (hm : p.markOff = 0) (hc : HC D) (g : Graph) (c : Caches D) :
    ∀ (f : Nat) (stack : List Nat) (n : Nat), escAtP p hc g c f stack n = escAt hc g c f stack n
  | 0, _, _ => rfl
  | f + 1, stack, n => by
    have ih : ∀ m, escAtP p hc g c f (n :: stack) m = escAt hc g c f (n :: stack) m := fun m => escAtP_eq p hh hm hc g c f (n :: stack) m
    have ih2 : ∀ m, computeAtP p hc g c f (n :: stack) m = computeAt hc g c f (n :: stack) m := fun m => computeAtP_eq p hh hc g c f (n :: stack) m
    simp only [escAtP, escAt, cacheHitP_eq p hh, ih, ih2, hm, Nat.sub_zero]
    cases cacheHit g c n <;> rfl

/-- **`reqRaw` of `Model/IdentImpl.lean` with the loop flag stored is the interpreter of every plan that satisfies the
    three source obligations** (cache test, marking from `index`, flag written = flag read) -/
theorem reqRaw_interprets_plan {D : Type} (p : CachePlan) (hh : ∀ s c f, p.hit s c f = (s && c && !f)) (hm : p.markOff = 0)
    (hf : p.flagStored = true) (hc : HC D) (s : St D) (n : Nat) : reqRawP p hc s n = reqRaw hc true s n := by
  unfold reqRawP reqRaw
  simp only [computeAtP_eq p hh, escAtP_eq p hh hm, hf]
  cases (if (s.g.node n).sealed = true then s.c.raw n else none) <;> rfl

/-- **… in particular of the plan regenerated from the current source**: one step of the cache machine of this source is
    one step of the model for which `cache_coherent` is proved. -/
theorem source_compute_is_model {D : Type} (hc : HC D) (s : St D) (n : Nat) :
    reqRawP (planOf computeData cacheTest) hc s n = reqRaw hc true s n :=
  reqRaw_interprets_plan _ source_plan.2.2 source_plan.2.1 source_plan.1 hc s n

/-- **`cache_coherent` for this source**: every query-only history started with empty caches answers with the
    specification identifiers, the raw-identifier requests being served by the plan read off the source. -/
theorem cache_coherent_from_source {D : Type} (hc : HC D) (ho : LeOrder hc) (g : Graph) (hdc : DefaultsClosed g)
    (ops : List Op) (hq : ∀ o, o ∈ ops → o.isQuery = true) :
    (runOps hc (planOf computeData cacheTest).flagStored { g := g, c := Caches.empty } ops).2 = ops.map (specOut hc g) ∧
    ∀ (s : St D) (n : Nat), reqRawP (planOf computeData cacheTest) hc s n = reqRaw hc true s n := by
  rw [source_plan.1]
  exact ⟨C01Cache.cache_coherent hc ho g hdc ops hq, source_compute_is_model hc⟩

/-- non-vacuity: the expected plan satisfies the three hypotheses of `reqRaw_interprets_plan`, and a plan that marks from
    `index + 1` (seeded change C01-detectloop) does not -/
example : (∀ s c f, CachePlan.expected.hit s c f = (s && c && !f)) ∧ CachePlan.expected.markOff = 0 ∧ CachePlan.expected.flagStored = true ∧
    (planOf { ComputeData.expected with markLo := ⟨1, 0, 1⟩ } cacheTest).markOff ≠ 0 :=
  ⟨fun _ _ _ => rfl, rfl, rfl, by decide⟩

end XpmVerif.C01CacheSrc
