"""Worker: which declaration does the real code put in force on a diamond where "depth-first through the bases" and "nearest in
the MRO" differ?  (fallback of translate/argflags.py `tr_inherit`)

usage: python -m xv.impl.inherit_probe <in.json> <out.json>     out: {"rule": "depthFirst" | "mro" | "neither: …"}"""
import importlib
import json
import shutil
import sys
import tempfile
from pathlib import Path

SRC = """from experimaestro import Config, Param, Meta
class A(Config):
    x: Param[int] = 1
    y: Param[int]
class B1(A):
    x: Meta[int]
class B2(A):
    y: Meta[int] = 5
class D(B1, B2):
    pass
class E(B2, B1):
    pass
"""


def main():
    root = Path(tempfile.mkdtemp(prefix="xvinh-"))
    try:
        (root / "xvinhprobe").mkdir()
        (root / "xvinhprobe" / "__init__.py").write_text(SRC)
        sys.path.insert(0, str(root))
        mod = importlib.import_module("xvinhprobe")
        got = tuple(bool(getattr(mod, c).__getxpmtype__().arguments[n].ignored) for c, n in (("D", "x"), ("D", "y"), ("E", "x"), ("E", "y")))
        rule = {(True, False, False, True): "depthFirst", (True, True, True, True): "mro"}.get(got, f"neither: ignored(D.x, D.y, E.x, E.y) = {got}")
    except Exception as e:
        rule = f"neither: {type(e).__name__}: {e}"
    finally:
        shutil.rmtree(root, ignore_errors=True)
    Path(sys.argv[2]).write_text(json.dumps({"rule": rule}))


if __name__ == "__main__":
    main()
