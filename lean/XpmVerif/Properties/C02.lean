import XpmVerif.Proofs.IdentNeutral
/-! C02 — the identifier ignores everything documented as outside the signature.
    All statements are about the specification `rawAt`/`rawId`/`fullId` of Model/Ident.lean, for every
    hash function.  Tags, explicit/token dependencies, launcher, workspace and run mode are not inputs of
    the model at all (the correspondence check shows the real identifier is a function of the model's
    inputs only), so they are neutral by construction. -/
namespace XpmVerif.C02
open XpmVerif.Ident List

/-- **Meta / Option / Path parameters** (`ignored`): whatever their value (unless it is a configuration
    forced in with `meta = False`), they contribute nothing to the stream. -/
theorem ignored_parameter_neutral (cfg : Nat → List Nat) (mt : Nat → Option Bool) (a : Arg) (hi : a.ignored = true)
    (hv : ∀ n, a.value = .ref n → mt n ≠ some false) : argStream cfg mt a = [] :=
  argStream_of_not_included a (ignored_excluded mt a hi hv)

/-- **generated (path) parameters** contribute nothing. -/
theorem generated_parameter_neutral (cfg : Nat → List Nat) (mt : Nat → Option Bool) (a : Arg) (hg : a.generator = true) :
    argStream cfg mt a = [] :=
  argStream_of_not_included a (generator_excluded mt a hg)

/-- **a parameter explicitly set to its default** contributes nothing (Python `==` after removing meta members). -/
theorem default_valued_parameter_neutral (cfg : Nat → List Nat) (mt : Nat → Option Bool) (a : Arg) (d : Val)
    (hc : a.constant = false) (hd : a.default = some d) (he : pyEq d (removeMeta mt a.value) = true) :
    argStream cfg mt a = [] :=
  argStream_of_not_included a (default_excluded mt a d hc hd he)

/-- **an optional left unset** contributes nothing. -/
theorem unset_optional_neutral (cfg : Nat → List Nat) (mt : Nat → Option Bool) (a : Arg) (hc : a.constant = false)
    (hr : a.required = false) (hd : a.default = none) (hv : a.value = .none) : argStream cfg mt a = [] :=
  argStream_of_not_included a (unset_optional_excluded mt a hc hr hd hv)

/-- **a sub-configuration flagged as meta** given as a parameter value contributes nothing … -/
theorem meta_subconfiguration_neutral (cfg : Nat → List Nat) (mt : Nat → Option Bool) (a : Arg) (n : Nat)
    (hv : a.value = .ref n) (hm : mt n = some true) : argStream cfg mt a = [] :=
  argStream_of_not_included a (meta_value_excluded mt a n hv hm)

/-- … **also as a list element** (at any position) … -/
theorem meta_list_element_neutral (cfg : Nat → List Nat) (mt : Nat → Option Bool) (l1 l2 : List Val) (m : Nat)
    (hm : mt m = some true) :
    encVal cfg mt (.list (l1 ++ .ref m :: l2)) = encVal cfg mt (.list (l1 ++ l2)) :=
  list_meta_member cfg mt l1 l2 m hm

/-- … **or as a dict value** (at any insertion position). -/
theorem meta_dict_value_neutral (cfg : Nat → List Nat) (mt : Nat → Option Bool) (k1 k2 : List (List Nat))
    (l1 l2 : List Val) (k : List Nat) (m : Nat) (hl : k1.length = l1.length) (hm : mt m = some true) :
    encVal cfg mt (.dict (k1 ++ k :: k2) (l1 ++ .ref m :: l2)) = encVal cfg mt (.dict (k1 ++ k2) (l1 ++ l2)) :=
  dict_meta_member cfg mt k1 k2 l1 l2 k m hl hm

/-- **adding a new defaulted / Meta / generated parameter to a class**: a node extended with an argument
    that contributes nothing has the same stream (hence, by `neutral_edits_any_depth`, every identifier of
    every existing configuration is unchanged). -/
theorem added_parameter_neutral (cfg : Nat → List Nat) (mt : Nat → Option Bool) (self : Nat) (nd : Node) (a : Arg)
    (ha : argStream cfg mt a = []) :
    nodeStream cfg mt self { nd with args := a :: nd.args } = nodeStream cfg mt self nd :=
  nodeStream_add_excluded cfg mt self nd a ha

/-- **at any node and depth.** Two graphs with the same meta flags whose nodes have pointwise
    stream-equivalent arguments (`ArgsRel`: same names, and every argument either unchanged or changed
    between two states that contribute the same — e.g. nothing, by the lemmas above) give every node the
    same raw identifier, for every hash function. -/
theorem neutral_edits_any_depth {D : Type} (hc : HC D) (g g' : Graph) (hs : g.size = g'.size)
    (hm : g.mt = g'.mt)
    (h : ∀ n, (g.node n).typeId = (g'.node n).typeId ∧ (g.node n).task = (g'.node n).task ∧
          ∀ cfg, ArgsRel cfg g.mt g'.mt (g.node n).args (g'.node n).args) (n : Nat) :
    rawId hc g n = rawId hc g' n := by
  unfold rawId; rw [hs]
  apply rawAt_congr
  intro k cfg
  exact nodeStream_congr_args cfg g.mt g'.mt k _ _ (h k).1 (h k).2.1 ((h k).2.2 cfg)

/-- the full identifier is a function of the raw identifiers of the node, of its collected pre-tasks and
    of its init tasks. -/
theorem full_identifier_congruence {D : Type} (hc : HC D) (g g' : Graph)
    (hr : ∀ n, rawId hc g n = rawId hc g' n)
    (n : Nat) (hp : collectPreTasks g n = collectPreTasks g' n) (hi : (g.node n).initTasks = (g'.node n).initTasks) :
    fullId hc g n = fullId hc g' n := by
  have hf : rawId hc g = rawId hc g' := funext hr
  simp only [fullId, hp, hi, hf]

/-- non-vacuity: a Meta argument with two different values, a defaulted argument set explicitly. -/
example : argStream (fun _ => []) (fun _ => none) { name := [109], ignored := true, value := .int 5 } = [] := by decide
example : argStream (fun _ => []) (fun _ => none) { name := [120], required := false, default := some (.int 3), value := .int 3 } = []
    ∧ argStream (fun _ => []) (fun _ => none) { name := [120], required := false, default := some (.int 3), value := .int 4 } ≠ [] := by decide

end XpmVerif.C02
