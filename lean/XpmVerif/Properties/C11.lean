import XpmVerif.Proofs.RestartLink
import XpmVerif.Proofs.RestartTerm
import XpmVerif.Proofs.RestartPhase
import XpmVerif.Proofs.RestartPhaseF
import XpmVerif.Generated.SchedFlags
/-! C11 — restarting a killed experiment adopts running jobs and repeats nothing.
    Property theorems only.  Model M4 (`Model/Restart.lean`): the scheduler M2 with the adoption path of
    `aio_submit`, job directories (`done`, `pid`, run lock), job processes (coarse M3), and the events
    `crash` / `crashAfterSpawn` / `crashInPrepare` (the scheduler process dies at any step / inside `aio_run` between
    `Popen` and the pid-file write / inside `CommandLineJob.prepare` leaving the job script absent, broken or ready; every volatile thing is lost, its locks are released, files and job processes survive, a fresh
    scheduler starts over the same workspace).

    Every theorem quantifies over *all* worlds `WReach fl totals done0 w`: any initial success markers `done0`,
    any number of runs and crashes at any step, any submissions (DAGs with tokens, any identifiers), any schedule of
    callbacks and helper-thread completions, any interleaving with the moves of any number of job processes, any
    body outcome, with or without removal of the pid file at process exit (`rmPid`, so the statements hold before
    and after the repair of F7), and for any value of the scheduler flags `fl`.

    Runner facts taken from M3 / trusted (stated in the model, not proved here): the lock file admits one holder
    and is released when its holder dies; a job process tests the success marker under the lock and runs the
    body only if there is none; it writes the marker only after a successful body; the pid file names the
    process uniquely (no pid reuse); job processes survive the death of the scheduler. -/
namespace XpmVerif.C11
open XpmVerif.Sched XpmVerif.Restart

/-- **"running jobs are adopted rather than relaunched"**: a job of the current scheduler whose `aio_submit`
    found a live process through the pid file (adoption path) has never been launched by this scheduler and is
    past the start for good: it waits for that process, runs its done-handler, or is final. -/
theorem adopt_no_launch {fl : Flags} {totals : List Nat} {done0 : Nat → Bool} {w : W} (h : WReach fl totals done0 w)
    (j : Nat) (ha : w.a.adopted j = true) :
    (w.a.s.jobs j).launches = 0 ∧
    ((w.a.s.jobs j).pc = .codeWait ∨ (w.a.s.jobs j).pc = .doneHandler ∨ ∃ r, (w.a.s.jobs j).pc = .finished r) := by
  have hl := ((wreach_inv h).sched.1.loc j).2.2.2 ha
  simp only [view] at hl
  refine ⟨hl.1, ?_⟩
  have := hl.2
  generalize (w.a.s.jobs j).pc = pc at *
  cases pc <;> simp [pcAdopted] at this ⊢

/-- **what a restarted scheduler looks at** (first segment of `aio_submit` of job `j`, i.e. the callback `start j` at the
    head of the ready queue): afterwards the job carries the marker flag iff `<job>.done` exists now, and the adopted
    flag iff `<job>.pid` names a process that is still alive now. -/
theorem start_reads_directory {fl : Flags} {totals : List Nat} {done0 : Nat → Bool} {w : W} (h : WReach fl totals done0 w)
    (j : Nat) (rest : List Cb) (hq : w.a.s.ready = .start j :: rest) :
    let w' := w.apply fl (.sched .step)
    (w'.a.s.jobs j).marker = (w.a.d.dir (w.a.s.jobs j).ident).done ∧
    w'.a.adopted j = (match (w.a.d.dir (w.a.s.jobs j).ident).pid with | some p => w.a.d.alive p | none => false) := by
  have hp := pop_inv (wreach_inv h).sched.1 hq
  have := start_records fl world { w.a with s := { w.a.s with ready := rest } } j hp
  intro w'
  have e : w'.a = runCbA fl world { w.a with s := { w.a.s with ready := rest } } (.start j) :=
    stepA_cons fl world w.a (.start j) rest hq
  rw [e]
  exact this

/-- **"running jobs are adopted rather than relaunched, finished ones are not repeated"**: in every reachable world
    (in particular in every run after a crash) a job whose first segment saw the success marker, or found its
    process alive, has not been launched — and since reachable worlds are closed under every event
    (`WReach.apply`), it never is, as long as this scheduler lives. -/
theorem restart_no_repeat {fl : Flags} {totals : List Nat} {done0 : Nat → Bool} {w : W} (h : WReach fl totals done0 w)
    (j : Nat) (hm : (w.a.s.jobs j).marker = true ∨ w.a.adopted j = true) : (w.a.s.jobs j).launches = 0 := by
  have hl := (wreach_inv h).sched.1.loc j
  rcases hm with hm | hm
  · exact (hl.2.2.1 hm).1
  · exact (hl.2.2.2 hm).1

/-- one step form of the two theorems above: if the marker exists or the pid file names a live process at the moment
    the restarted scheduler runs the first segment of job `j`, the job is marked/adopted and has no launch. -/
theorem restart_no_repeat_at_start {fl : Flags} {totals : List Nat} {done0 : Nat → Bool} {w : W} (h : WReach fl totals done0 w)
    (j : Nat) (rest : List Cb) (hq : w.a.s.ready = .start j :: rest)
    (hd : (w.a.d.dir (w.a.s.jobs j).ident).done = true ∨
          ∃ p, (w.a.d.dir (w.a.s.jobs j).ident).pid = some p ∧ w.a.d.alive p = true) :
    let w' := w.apply fl (.sched .step)
    ((w'.a.s.jobs j).marker = true ∨ w'.a.adopted j = true) ∧ (w'.a.s.jobs j).launches = 0 := by
  intro w'
  obtain ⟨h1, h2⟩ := start_reads_directory h j rest hq
  have hm : (w'.a.s.jobs j).marker = true ∨ w'.a.adopted j = true := by
    rcases hd with hd | ⟨p, hp, ha⟩
    · left; rw [h1, hd]
    · right; rw [h2, hp]; exact ha
  exact ⟨hm, restart_no_repeat (h.apply (.sched .step)) j hm⟩

/-- a scheduler launches each of its jobs at most once (also in the presence of adoption and crashes) -/
theorem launched_at_most_once {fl : Flags} {totals : List Nat} {done0 : Nat → Bool} {w : W} (h : WReach fl totals done0 w)
    (j : Nat) : (w.a.s.jobs j).launches ≤ 1 := by
  rcases ((wreach_inv h).sched.1.loc j).2.1 with h0 | ⟨h1, -⟩
  · simp only [view] at h0; omega
  · simp only [view] at h1; omega

/-- **"every job body executed exactly once overall", safety half** (all runs, all crashes, all interleavings): for
    every job identifier `i`
    * at most one body execution ever ends with the success marker, none if the marker was there initially;
    * the marker exists iff it existed initially or one execution succeeded — so without an initial marker,
      "marker" = "exactly one successful execution";
    * every body start is accounted for: `bodies = successes + failures + running`, with at most one execution
      running at any time (the relaunch of a still-running body waits behind the lock);
    hence with no failed execution and nothing running, the body of a job whose marker exists was executed exactly
    once overall, and that of a job without marker not at all. -/
theorem exactly_once_overall {fl : Flags} {totals : List Nat} {done0 : Nat → Bool} {w : W} (h : WReach fl totals done0 w)
    (i : Nat) :
    (w.a.d.dir i).succ ≤ 1 ∧ (done0 i = true → (w.a.d.dir i).succ = 0) ∧
    ((w.a.d.dir i).done = true ↔ (done0 i = true ∨ (w.a.d.dir i).succ = 1)) ∧
    (w.a.d.dir i).bodies = (w.a.d.dir i).succ + (w.a.d.dir i).fails + w.a.d.running i ∧ w.a.d.running i ≤ 1 ∧
    ((w.a.d.dir i).fails = 0 → w.a.d.running i = 0 → done0 i = false →
      (w.a.d.dir i).bodies = (if (w.a.d.dir i).done then 1 else 0)) := by
  have d := (wreach_inv h).disk
  obtain ⟨s1, s2, s3⟩ := d.succ i
  have ha := d.account i
  have hr : w.a.d.running i ≤ 1 := by unfold Disk.running; split <;> (try split) <;> omega
  refine ⟨s1, s3, s2, ha, hr, ?_⟩
  intro hf hrun h0
  rw [ha, hf, hrun]
  by_cases hd : (w.a.d.dir i).done = true
  · have := s2.mp hd; simp [h0] at this; simp [hd, this]
  · have : (w.a.d.dir i).succ ≠ 1 := fun e => hd (s2.mpr (Or.inr e))
    simp [hd]; omega

/-- **a job reported DONE has its success marker** (all runs, all crashes): the final state DONE of any scheduler
    incarnation — whether the job was launched by it, adopted, or found finished — implies that `<job>.done` exists. -/
theorem done_has_marker {fl : Flags} {totals : List Nat} {done0 : Nat → Bool} {w : W} (h : WReach fl totals done0 w)
    (j : Nat) (hf : (w.a.s.jobs j).pc = .finished .done) : (w.a.d.dir (w.a.s.jobs j).ident).done = true :=
  (wreach_link h).2.fin j hf

/-- **"every job body executed exactly once overall"**: starting from a workspace without the marker of this job, in any
    reachable world (any number of runs, crashes at any step, any interleaving) a job whose final state is DONE had
    exactly one successful execution of its body; and if no execution of it failed and none is running, its body was
    started exactly once overall — by whichever run, adopted or not. -/
theorem exactly_once_done {fl : Flags} {totals : List Nat} {done0 : Nat → Bool} {w : W} (h : WReach fl totals done0 w)
    (j : Nat) (hf : (w.a.s.jobs j).pc = .finished .done) (h0 : done0 (w.a.s.jobs j).ident = false) :
    (w.a.d.dir (w.a.s.jobs j).ident).succ = 1 ∧
    ((w.a.d.dir (w.a.s.jobs j).ident).fails = 0 → w.a.d.running (w.a.s.jobs j).ident = 0 →
      (w.a.d.dir (w.a.s.jobs j).ident).bodies = 1) := by
  have hd := done_has_marker h j hf
  obtain ⟨-, -, e3, -, -, e6⟩ := exactly_once_overall h (w.a.s.jobs j).ident
  have hs : (w.a.d.dir (w.a.s.jobs j).ident).succ = 1 := by
    rcases e3.mp hd with h1 | h1
    · rw [h0] at h1; cases h1
    · exact h1
  refine ⟨hs, ?_⟩
  intro hfl hr
  have := e6 hfl hr h0
  simpa [hd] using this

/-- **bodies never overlap and never run after success**: two processes inside the body of the same job are one
    process, and a process is inside the body only while no success marker exists. -/
theorem body_exclusive_and_not_after_done {fl : Flags} {totals : List Nat} {done0 : Nat → Bool} {w : W}
    (h : WReach fl totals done0 w) (p q : Nat) (hp : p < w.a.d.np) (hq : q < w.a.d.np)
    (hbp : (w.a.d.procs p).ph = .body) :
    (w.a.d.dir (w.a.d.procs p).ident).done = false ∧
    ((w.a.d.procs q).ph = .body → (w.a.d.procs q).ident = (w.a.d.procs p).ident → q = p) := by
  have d := (wreach_inv h).disk
  refine ⟨d.bodyNotDone p hp hbp, ?_⟩
  intro hbq hid
  have h1 := d.held p hp (Or.inl hbp)
  have h2 := d.held q hq (Or.inl hbq)
  rw [hid, h1] at h2
  injection h2 with h2
  exact h2.symm

/-- **a launch happens under the job lock**: while the scheduler holds the run lock of a job directory (from the
    completion of the lock-enter thread to that of the lock-exit thread, which brackets `aio_run`), no process of that
    job is inside the body or between body and exit — the scheduler-side half of "a relaunch is serialised behind a
    still-running body". -/
theorem lock_held_by_scheduler_excludes_body {fl : Flags} {totals : List Nat} {done0 : Nat → Bool} {w : W}
    (h : WReach fl totals done0 w) (p : Nat) (hp : p < w.a.d.np)
    (hl : (w.a.d.dir (w.a.d.procs p).ident).lock = .sched) :
    (w.a.d.procs p).ph ≠ .body ∧ (w.a.d.procs p).ph ≠ .exiting := by
  have d := (wreach_inv h).disk
  constructor
  · intro hb; have := d.held p hp (Or.inl hb); rw [hl] at this; cases this
  · intro hb; have := d.held p hp (Or.inr hb); rw [hl] at this; cases this

/-- **"the others are launched" never trusts what a dead scheduler left of the job script**: whatever the state of
    `<name>.py` / `params.json` in the job directory (absent, created but incomplete or not executable, complete) —
    in particular after a death inside `CommandLineJob.prepare` (`crashInPrepare`) — a launch regenerates it: after the
    callback that launches job `j`, the script of its directory is complete and the pid file names the new process. -/
theorem launch_regenerates_script (fl : Flags) (a : StA Disk) (j : Nat)
    (hl : (a.s.jobs j).launches < ((a.s.resume fl j).jobs j).launches) :
    let a' := runCbA fl world a (.resume j)
    (a'.d.dir ((a.s.resume fl j).jobs j).ident).script = .ready ∧
    (a'.d.dir ((a.s.resume fl j).jobs j).ident).pid = some a.d.np ∧ a'.d.np = a.d.np + 1 := by
  simp [runCbA, hl, world, Disk.setDir, Disk.spawn, upd]

/-! ### the second run: "the second run reaches the same final results"

    FULL STATEMENT (PROVED: `restart_run_finite`, `restart_maximal_run_all_final`, `restart_maximal_run_exists` at the end of
    this section): from every world `WReach fl totals done0 w`, after the crash (`w.restart`) and the re-submission of the
    experiment to the new scheduler, every maximal run of the second scheduler (no callback, no helper-thread completion, no
    process move possible any more) is finite and ends with every job final, where
    (a) every job reported DONE has its marker, exactly one successful body, and `bodies = 1` for its directory if no
        body of it failed,
    (b) every token is full,
    WHATEVER the pid files say: jobs whose pid file names a live process are ADOPTED (during the re-submission or later),
    with token and job dependencies, satisfied or not.  The hypotheses are those of the first partial result minus
    `NoLivePid`: well-formed re-submission with pairwise distinct identifiers (`RestartTerm.SubsOK`), `TokFit`, the four
    scheduler repairs.

    HOW.  Three stages, all kept in the file:
    1. `restart_*_partial` (`Proofs/RestartTerm.lean`): restarts at which no pid file names a live process (`NoLivePid`);
       such a scheduler never adopts, its callbacks are those of M2 up to edits of `marker` / `code`.
    2. `restart_*_adopt_partial` (`Proofs/RestartAbs … RestartPhase.lean`): adoption allowed, under the extra hypothesis
       that every JOB dependency of an adoptable job has its success marker (`RestartLive.SubsOKA`, clause 4).  Simulation
       into M2: an adopted job is seen as a job WITHOUT dependencies that was launched and waits for its exit code
       (`RestartAbs.abs`); the adoption step is six moves of M2 (`RestartAbs.adopt_good2`: drop the dependencies, first
       segment, lock-enter thread, start segment, lock-exit thread, last start segment, with two rotations of the ready
       queue — the invariants of M2 see the queue only through counts and membership); the checks of the dependencies of an
       adopted job are invisible and are counted separately in the measure.
    3. `restart_run_finite` … (`Proofs/RestartAbsF … RestartPhaseF.lean`): no hypothesis on the dependencies.  An adopted job
       whose dependency fails is set to ERROR (`failedDep`) while it still waits for its process, and the exit code
       overwrites that later (`adopted_overwritten` below: a DONE job whose dependency ended in ERROR).  The abstraction
       `RestartFull.absF` masks the state of an adopted job until its process has ended, and `RestartFull.AdInvF` shows that
       nobody reads it meanwhile: a job whose first segment has not begun is at the head of the FIFO queue and no job is in
       state ERROR while such a job exists; a `check` is queued only by the done-handler of its origin, a `notifyCheck` only
       for a token.
    An exhaustive search of the restart world (all interleavings of the first run, every crash point of the three kinds,
    re-submission, all interleavings of the second run; 1 job / failing job + dependent / chain of 3 / 2 jobs on 1 token
    / token + job dependency) had found no violating terminal world and no cycle, adoption included. -/

/-- **the second run is finite (partial: finiteness only, restarts that find no live process)**.  Let `w` be any
    reachable world (any first run, crashed at any point, any number of earlier crashes) such that after the crash no
    pid file names a live process (`NoLivePid`: orphan processes without pid file, waiting for or holding the job lock,
    are allowed), and let the new scheduler take the re-submission `xs` (well-formed dependencies, no token asked twice
    by one job, pairwise distinct identifiers, each submission carrying the marker its directory shows).  Then every
    sequence `evs` of events of the second run — callbacks, completions of helper threads that the world lets complete
    (lock free, process exited), moves of job processes — has at most `wmu` events, where
    `wmu = 4 · (termination measure of C06 on the scheduler state) + (steps the job processes still have to make)`
    is computed on the world right after the re-submission; and no step of it adopts a process. -/
theorem restart_run_finite_partial {fl : Flags} (hg : fl.readyGuarded = true) (hf : fl.resubmitRegisters = true)
    (ha : fl.abortRechecks = true) (hrel : fl.abortReleases = true) {totals : List Nat} {done0 : Nat → Bool} {w : W}
    (hW : WReach fl totals done0 w) (hnl : RestartTerm.NoLivePid w.restart.a.d) (xs : List RestartTerm.Sub)
    (hok : RestartTerm.SubsOK fl w.restart.a.d (St.init w.totals) xs) (evs : List WEv)
    (hrun : RestartTerm.RunE fl (RestartTerm.resubmitted fl w xs) evs) :
    evs.length ≤ RestartTerm.wmu (RestartTerm.resubmitted fl w xs) ∧
    RestartTerm.RunW fl (RestartTerm.resubmitted fl w xs) evs := by
  obtain ⟨h1, h2, _⟩ := RestartTerm.restart_run_finite_partial hg hf ha hrel hW hnl xs hok evs hrun
  exact ⟨h1, h2⟩

/-- **the second run never adopts when it found no live process (partial: same hypotheses)**: in the world right after
    the re-submission and in every world reached from it by a run of the second scheduler, the first segment of a job
    (callback `start j` at the head of the queue) finds no live process behind the pid file of its directory — a pid
    file that names a live process has been written by this scheduler for a job it launched, and identifiers are
    distinct. -/
theorem restart_never_adopts_partial {fl : Flags} (hg : fl.readyGuarded = true) (hf : fl.resubmitRegisters = true)
    (ha : fl.abortRechecks = true) (hrel : fl.abortReleases = true) {totals : List Nat} {done0 : Nat → Bool} {w : W}
    (hW : WReach fl totals done0 w) (hnl : RestartTerm.NoLivePid w.restart.a.d) (xs : List RestartTerm.Sub)
    (hok : RestartTerm.SubsOK fl w.restart.a.d (St.init w.totals) xs) (evs : List WEv)
    (hrun : RestartTerm.RunE fl (RestartTerm.resubmitted fl w xs) evs) (j : Nat) (rest : List Cb)
    (hq : (W.run fl (RestartTerm.resubmitted fl w xs) evs).a.s.ready = .start j :: rest) :
    let w' := W.run fl (RestartTerm.resubmitted fl w xs) evs
    (match (w'.a.d.dir (w'.a.s.jobs j).ident).pid with | some p => w'.a.d.alive p | none => false) = false := by
  obtain ⟨s1, s2, s3, s4, _⟩ := RestartTerm.resubmitted_sound hg hf ha hW hnl xs hok
  obtain ⟨⟨_, r2, r3, r4⟩, _, _⟩ := RestartTerm.runE_bound hg hf ha hrel evs _ s1 s2 s3 s4 hrun
  exact RestartTerm.noAdopt_of_own r2 r3 r4 j rest hq

/-- **"the second run reaches the same final results" (partial: restarts that find no live process)**.  Same
    hypotheses as `restart_run_finite_partial`, plus: no job asks for more of a token than exists (`TokFit`, as in C06).
    Every *maximal* run `evs` of the second scheduler — in its last world no callback is queued, no helper thread can
    complete, no job process can move — is finite (`≤ wmu` events) and ends in a reachable world `w'` (so every theorem
    of this file applies to it) in which
    * every job of the second scheduler is final (`AllFinal`), nothing was adopted;
    * (b) every token is full, no job holds a token, every run lock is free, every job process (orphans of the first
      run included) has exited;
    * (a) every job reported DONE has its success marker, and — if the marker was not there initially — exactly one
      body of it ever succeeded, over both runs, and if none failed its body was started exactly once overall. -/
theorem restart_maximal_run_all_final_partial {fl : Flags} (hg : fl.readyGuarded = true)
    (hf : fl.resubmitRegisters = true) (ha : fl.abortRechecks = true) (hrel : fl.abortReleases = true)
    {totals : List Nat} {done0 : Nat → Bool} {w : W}
    (hW : WReach fl totals done0 w) (hnl : RestartTerm.NoLivePid w.restart.a.d) (xs : List RestartTerm.Sub)
    (hok : RestartTerm.SubsOK fl w.restart.a.d (St.init w.totals) xs)
    (hfit : SchedFinal.TokFit (RestartTerm.resubmitted fl w xs).a.s) (evs : List WEv)
    (hrun : RestartTerm.RunE fl (RestartTerm.resubmitted fl w xs) evs)
    (hmax : ∀ e, ¬ RestartTerm.WEnabled (W.run fl (RestartTerm.resubmitted fl w xs) evs) e) :
    let w' := W.run fl (RestartTerm.resubmitted fl w xs) evs
    evs.length ≤ RestartTerm.wmu (RestartTerm.resubmitted fl w xs) ∧
    WReach fl totals done0 w' ∧ SchedFinal.AllFinal w'.a.s ∧ (∀ j, w'.a.adopted j = false) ∧
    (∀ t, w'.a.s.avail t = w'.a.s.total t) ∧ (∀ j, (w'.a.s.jobs j).held = []) ∧
    (∀ i, (w'.a.d.dir i).lock = .free) ∧ (∀ p, (w'.a.d.procs p).ph = .gone) ∧
    (∀ j, (w'.a.s.jobs j).pc = .finished .done →
      (w'.a.d.dir (w'.a.s.jobs j).ident).done = true ∧
      (done0 (w'.a.s.jobs j).ident = false →
        (w'.a.d.dir (w'.a.s.jobs j).ident).succ = 1 ∧
        ((w'.a.d.dir (w'.a.s.jobs j).ident).fails = 0 → (w'.a.d.dir (w'.a.s.jobs j).ident).bodies = 1))) := by
  intro w'
  obtain ⟨h1, h2, _, _, h5, h6, h7⟩ := RestartTerm.restart_maximal_run_partial hg hf ha hrel hW hnl xs hok hfit evs hrun hmax
  obtain ⟨d1, d2, d3⟩ := RestartTerm.maximal_disk_idle h2 h5 hmax
  refine ⟨h1, h2.reach, h5, h2.noad, h6, h7, d1, d2, ?_⟩
  intro j hfin
  refine ⟨done_has_marker h2.reach j hfin, fun h0 => ?_⟩
  obtain ⟨e1, e2⟩ := exactly_once_done h2.reach j hfin h0
  exact ⟨e1, fun hfl => e2 hfl (d3 _)⟩

/-- **maximal runs of the second scheduler exist (partial: same hypotheses)**: from the world right after the
    re-submission some run of enabled events reaches a world in which no event is enabled — the hypothesis `hmax` of
    `restart_maximal_run_all_final_partial` can always be met, by simply letting the second run go on. -/
theorem restart_maximal_run_exists_partial {fl : Flags} (hg : fl.readyGuarded = true)
    (hf : fl.resubmitRegisters = true) (ha : fl.abortRechecks = true) (hrel : fl.abortReleases = true)
    {totals : List Nat} {done0 : Nat → Bool} {w : W}
    (hW : WReach fl totals done0 w) (hnl : RestartTerm.NoLivePid w.restart.a.d) (xs : List RestartTerm.Sub)
    (hok : RestartTerm.SubsOK fl w.restart.a.d (St.init w.totals) xs) :
    ∃ evs, RestartTerm.RunE fl (RestartTerm.resubmitted fl w xs) evs ∧
      ∀ e, ¬ RestartTerm.WEnabled (W.run fl (RestartTerm.resubmitted fl w xs) evs) e :=
  RestartTerm.restart_maximal_run_exists hg hf ha hrel _ _ (RestartTerm.resubmitted_sound2 hg hf ha hW hnl xs hok)
    (Nat.le_refl _)

/-! ### the second run WITH adoption -/

/-- the hypotheses of the theorems below on the re-submission `xs` (see `RestartLive.SubsOKA`): for every submission
    `x`, in the world in which it is made: (1) its dependencies name earlier submissions and existing tokens, (2) no token
    is asked twice, (3) its identifier is new, (4) if `<x>.pid` names a live process at the restart, every job it depends
    on has its success marker at the restart. -/
theorem subsOKA_unfold (fl : Flags) (d0 : Disk) (w : W) (x : RestartTerm.Sub) (xs : List RestartTerm.Sub) :
    RestartLive.SubsOKA fl d0 w (x :: xs) ↔
      (SchedFinal.EvOK w.a.s (x.ev d0) ∧ SchedFinal.EvNoDouble (x.ev d0) ∧
       (∀ j, j < w.a.s.n → (w.a.s.jobs j).ident ≠ x.ident) ∧
       ((∃ p, (d0.dir x.ident).pid = some p ∧ d0.alive p = true) →
          ∀ k, Origin.job k ∈ x.deps → (d0.dir (w.a.s.jobs (w.a.s.eff k)).ident).done = true) ∧
       RestartLive.SubsOKA fl d0 (w.apply fl (.sched (x.ev d0))) xs) := Iff.rfl

/-- **the second run is finite, adoption included (partial: see hypothesis 4 of `SubsOKA`)**.  Let `w` be any reachable
    world (any first run, crashed at any point — job processes alive, pid files present —, any number of earlier crashes)
    and let the new scheduler take the re-submission `xs` (`SubsOKA`).  Every sequence `evs` of events of the second run —
    callbacks (among them first segments that ADOPT a live process), completions of helper threads the world lets
    complete, moves of job processes — has at most `wmuA` events, where
    `wmuA = (K + 1) · (4 · μ(abstract state) + steps left to the job processes) + plain callbacks queued`
    is computed on the world right after the re-submission (`K`: a bound on the callbacks one callback can queue,
    `μ`: the termination measure of C06 on the state in which adopted jobs are jobs without dependencies). -/
theorem restart_run_finite_adopt_partial {fl : Flags} (hg : fl.readyGuarded = true) (hf : fl.resubmitRegisters = true)
    (ha : fl.abortRechecks = true) (hrel : fl.abortReleases = true) {totals : List Nat} {done0 : Nat → Bool} {w : W}
    (hW : WReach fl totals done0 w) (xs : List RestartTerm.Sub)
    (hok : RestartLive.SubsOKA fl w.restart.a.d w.restart xs) (evs : List WEv)
    (hrun : RestartTerm.RunE fl (RestartTerm.resubmitted fl w xs) evs) :
    evs.length ≤ RestartLive.wmuA (RestartTerm.resubmitted fl w xs) :=
  (RestartLive.restart_run_finiteA hg hf ha hrel hW xs hok evs hrun).1

/-- **"the second run reaches the same final results", adoption included (partial: hypothesis 4 of `SubsOKA`)**.  Same
    hypotheses, plus `TokFit` (no job asks for more of a token than exists, as in C06).  Every *maximal* run `evs` of the
    second scheduler is finite (`≤ wmuA` events) and ends in a reachable world `w'` in which
    * every job of the second scheduler is final (`AllFinal`); a job that was adopted was never launched by this
      scheduler and is final too;
    * (b) every token is full, no job holds a token, every run lock is free, every job process (adopted ones and orphans
      of the first run included) has exited;
    * (a) every job reported DONE — launched, found finished, or ADOPTED — has its success marker, and if the marker was
      not there initially exactly one body of it ever succeeded, over all runs, and if none failed its body was started
      exactly once overall. -/
theorem restart_maximal_run_all_final_adopt_partial {fl : Flags} (hg : fl.readyGuarded = true)
    (hf : fl.resubmitRegisters = true) (ha : fl.abortRechecks = true) (hrel : fl.abortReleases = true)
    {totals : List Nat} {done0 : Nat → Bool} {w : W}
    (hW : WReach fl totals done0 w) (xs : List RestartTerm.Sub)
    (hok : RestartLive.SubsOKA fl w.restart.a.d w.restart xs)
    (hfit : SchedFinal.TokFit (RestartTerm.resubmitted fl w xs).a.s) (evs : List WEv)
    (hrun : RestartTerm.RunE fl (RestartTerm.resubmitted fl w xs) evs)
    (hmax : ∀ e, ¬ RestartTerm.WEnabled (W.run fl (RestartTerm.resubmitted fl w xs) evs) e) :
    let w' := W.run fl (RestartTerm.resubmitted fl w xs) evs
    evs.length ≤ RestartLive.wmuA (RestartTerm.resubmitted fl w xs) ∧
    WReach fl totals done0 w' ∧ SchedFinal.AllFinal w'.a.s ∧
    (∀ j, w'.a.adopted j = true → (w'.a.s.jobs j).launches = 0 ∧ ∃ r, (w'.a.s.jobs j).pc = .finished r) ∧
    (∀ t, w'.a.s.avail t = w'.a.s.total t) ∧ (∀ j, (w'.a.s.jobs j).held = []) ∧
    (∀ i, (w'.a.d.dir i).lock = .free) ∧ (∀ p, (w'.a.d.procs p).ph = .gone) ∧
    (∀ j, (w'.a.s.jobs j).pc = .finished .done →
      (w'.a.d.dir (w'.a.s.jobs j).ident).done = true ∧
      (done0 (w'.a.s.jobs j).ident = false →
        (w'.a.d.dir (w'.a.s.jobs j).ident).succ = 1 ∧
        ((w'.a.d.dir (w'.a.s.jobs j).ident).fails = 0 → (w'.a.d.dir (w'.a.s.jobs j).ident).bodies = 1))) := by
  intro w'
  obtain ⟨h1, h2, _, _, h5, h6, h7, d1, d2, d3⟩ :=
    RestartLive.restart_maximal_runA hg hf ha hrel hW xs hok hfit evs hrun hmax
  refine ⟨h1, h2.reach, h5, ?_, h6, h7, d1, d2, ?_⟩
  · intro j hj
    obtain ⟨l0, hp⟩ := adopt_no_launch h2.reach j hj
    refine ⟨l0, ?_⟩
    have hjn := h2.ad_lt j hj
    rcases h5 j hjn with hn | hr
    · rcases hp with e | e | ⟨r, e⟩ <;> rw [hn] at e <;> cases e
    · exact hr
  · intro j hfin
    refine ⟨done_has_marker h2.reach j hfin, fun h0 => ?_⟩
    obtain ⟨e1, e2⟩ := exactly_once_done h2.reach j hfin h0
    exact ⟨e1, fun hfl => e2 hfl (d3 _)⟩

/-- **maximal runs of the second scheduler exist, adoption included (partial: same hypotheses)**. -/
theorem restart_maximal_run_exists_adopt_partial {fl : Flags} (hg : fl.readyGuarded = true)
    (hf : fl.resubmitRegisters = true) (ha : fl.abortRechecks = true) (hrel : fl.abortReleases = true)
    {totals : List Nat} {done0 : Nat → Bool} {w : W}
    (hW : WReach fl totals done0 w) (xs : List RestartTerm.Sub)
    (hok : RestartLive.SubsOKA fl w.restart.a.d w.restart xs) :
    ∃ evs, RestartTerm.RunE fl (RestartTerm.resubmitted fl w xs) evs ∧
      ∀ e, ¬ RestartTerm.WEnabled (W.run fl (RestartTerm.resubmitted fl w xs) evs) e :=
  RestartLive.restart_maximal_run_existsA hg hf ha hrel hW xs hok

/-- the hypotheses of the `_partial` theorems (no pid file names a live process at the restart) imply those of the
    `_adopt_partial` theorems: every restart covered above is covered here. -/
theorem restart_adopt_hypotheses_cover_partial {fl : Flags} {w : W} (hnl : RestartTerm.NoLivePid w.restart.a.d)
    (xs : List RestartTerm.Sub) (hok : RestartTerm.SubsOK fl w.restart.a.d (St.init w.totals) xs) :
    RestartLive.SubsOKA fl w.restart.a.d w.restart xs :=
  RestartLive.subsOKA_of_partial hnl xs hok

/-! ### the second run: the full statement -/

/-- **the second run is finite** (FULL: any restart, adoption included).  Let `w` be any reachable world (any first run,
    crashed at any point — job processes alive or not, pid files present or not —, any number of earlier crashes) and let
    the new scheduler take the re-submission `xs` (well-formed dependencies, no token asked twice by one job, pairwise
    distinct identifiers, each submission carrying the marker its directory shows).  Every sequence `evs` of events of the
    second run — callbacks (among them first segments that ADOPT a live process), completions of helper threads the world
    lets complete (lock free, process exited), moves of job processes — has at most `wmuF` events, where
    `wmuF = (K + 1) · (4 · μ(abstract state) + steps left to the job processes) + plain callbacks queued`
    is computed on the world right after the re-submission (`K = 2·D² + D + 1`, `D` the total number of dependencies: a
    bound on the callbacks one callback can queue; `μ`: the termination measure of C06 on the state in which adopted jobs
    are jobs without dependencies that wait for their exit code). -/
theorem restart_run_finite {fl : Flags} (hg : fl.readyGuarded = true) (hf : fl.resubmitRegisters = true)
    (ha : fl.abortRechecks = true) (hrel : fl.abortReleases = true) {totals : List Nat} {done0 : Nat → Bool} {w : W}
    (hW : WReach fl totals done0 w) (xs : List RestartTerm.Sub)
    (hok : RestartTerm.SubsOK fl w.restart.a.d (St.init w.totals) xs) (evs : List WEv)
    (hrun : RestartTerm.RunE fl (RestartTerm.resubmitted fl w xs) evs) :
    evs.length ≤ RestartFull.wmuF (RestartTerm.resubmitted fl w xs) :=
  (RestartFull.restart_run_finiteF hg hf ha hrel hW xs hok evs hrun).1

/-- **"the second run reaches the same final results"** (FULL: any restart, adoption included).  Same hypotheses, plus: no
    job asks for more of a token than exists (`TokFit`, as in C06).  Every *maximal* run `evs` of the second scheduler — in
    its last world no callback is queued, no helper thread can complete, no job process can move — is finite (`≤ wmuF`
    events) and ends in a reachable world `w'` (so every theorem of this file applies to it) in which
    * every job of the second scheduler is final (`AllFinal`); a job that was adopted was never launched by this scheduler
      and is final too;
    * (b) every token is full, no job holds a token, every run lock is free, every job process (adopted ones and orphans of
      the first run included) has exited;
    * (a) every job reported DONE — launched, found finished, or adopted — has its success marker, and — if the marker was
      not there initially — exactly one body of it ever succeeded, over all runs, and if none failed its body was started
      exactly once overall. -/
theorem restart_maximal_run_all_final {fl : Flags} (hg : fl.readyGuarded = true)
    (hf : fl.resubmitRegisters = true) (ha : fl.abortRechecks = true) (hrel : fl.abortReleases = true)
    {totals : List Nat} {done0 : Nat → Bool} {w : W}
    (hW : WReach fl totals done0 w) (xs : List RestartTerm.Sub)
    (hok : RestartTerm.SubsOK fl w.restart.a.d (St.init w.totals) xs)
    (hfit : SchedFinal.TokFit (RestartTerm.resubmitted fl w xs).a.s) (evs : List WEv)
    (hrun : RestartTerm.RunE fl (RestartTerm.resubmitted fl w xs) evs)
    (hmax : ∀ e, ¬ RestartTerm.WEnabled (W.run fl (RestartTerm.resubmitted fl w xs) evs) e) :
    let w' := W.run fl (RestartTerm.resubmitted fl w xs) evs
    evs.length ≤ RestartFull.wmuF (RestartTerm.resubmitted fl w xs) ∧
    WReach fl totals done0 w' ∧ SchedFinal.AllFinal w'.a.s ∧
    (∀ j, w'.a.adopted j = true → (w'.a.s.jobs j).launches = 0 ∧ ∃ r, (w'.a.s.jobs j).pc = .finished r) ∧
    (∀ t, w'.a.s.avail t = w'.a.s.total t) ∧ (∀ j, (w'.a.s.jobs j).held = []) ∧
    (∀ i, (w'.a.d.dir i).lock = .free) ∧ (∀ p, (w'.a.d.procs p).ph = .gone) ∧
    (∀ j, (w'.a.s.jobs j).pc = .finished .done →
      (w'.a.d.dir (w'.a.s.jobs j).ident).done = true ∧
      (done0 (w'.a.s.jobs j).ident = false →
        (w'.a.d.dir (w'.a.s.jobs j).ident).succ = 1 ∧
        ((w'.a.d.dir (w'.a.s.jobs j).ident).fails = 0 → (w'.a.d.dir (w'.a.s.jobs j).ident).bodies = 1))) := by
  intro w'
  obtain ⟨h1, h2, _, _, h5, h6, h7, d1, d2, d3⟩ :=
    RestartFull.restart_maximal_runF hg hf ha hrel hW xs hok hfit evs hrun hmax
  refine ⟨h1, h2.reach, h5, ?_, h6, h7, d1, d2, ?_⟩
  · intro j hj
    obtain ⟨l0, hp⟩ := adopt_no_launch h2.reach j hj
    refine ⟨l0, ?_⟩
    have hjn := h2.ad_lt j hj
    rcases h5 j hjn with hn | hr
    · rcases hp with e | e | ⟨r, e⟩ <;> rw [hn] at e <;> cases e
    · exact hr
  · intro j hfin
    refine ⟨done_has_marker h2.reach j hfin, fun h0 => ?_⟩
    obtain ⟨e1, e2⟩ := exactly_once_done h2.reach j hfin h0
    exact ⟨e1, fun hfl => e2 hfl (d3 _)⟩

/-- **maximal runs of the second scheduler exist** (FULL): from the world right after the re-submission some run of enabled
    events reaches a world in which no event is enabled — the hypothesis `hmax` of `restart_maximal_run_all_final` can
    always be met, by simply letting the second run go on. -/
theorem restart_maximal_run_exists {fl : Flags} (hg : fl.readyGuarded = true)
    (hf : fl.resubmitRegisters = true) (ha : fl.abortRechecks = true) (hrel : fl.abortReleases = true)
    {totals : List Nat} {done0 : Nat → Bool} {w : W}
    (hW : WReach fl totals done0 w) (xs : List RestartTerm.Sub)
    (hok : RestartTerm.SubsOK fl w.restart.a.d (St.init w.totals) xs) :
    ∃ evs, RestartTerm.RunE fl (RestartTerm.resubmitted fl w xs) evs ∧
      ∀ e, ¬ RestartTerm.WEnabled (W.run fl (RestartTerm.resubmitted fl w xs) evs) e :=
  RestartFull.restart_maximal_run_existsF hg hf ha hrel hW xs hok

/-! ### non-vacuity: concrete runs (evaluated by the kernel) -/

def fl0 : Flags := { readyGuarded := true, resubmitRegisters := true, abortRechecks := true }

/-- one job (identifier 5): launched, the scheduler is killed while the process waits for the lock; the second run
    adopts the process, the body runs once, the job ends DONE without a launch in the second run -/
def adoptRun : W := W.run fl0 (W.init [] (fun _ => false))
  [.sched (.submit 5 [] 0 false), .sched .step, .sched (.deliver 0), .sched .step, .crash,
   .sched (.submit 5 [] 0 false), .sched .step, .proc 0 false, .proc 0 false, .proc 0 false,
   .sched (.deliver 0), .sched .step, .sched (.deliver 0), .sched .step]

example : WReach fl0 [] (fun _ => false) adoptRun := ⟨_, rfl⟩
example : adoptRun.a.adopted 0 = true ∧ (adoptRun.a.s.jobs 0).launches = 0 ∧ (adoptRun.a.s.jobs 0).pc = .finished .done ∧
    (adoptRun.a.d.dir 5).bodies = 1 ∧ (adoptRun.a.d.dir 5).succ = 1 ∧ (adoptRun.a.d.dir 5).spawns = 1 ∧
    (adoptRun.a.d.dir 5).done = true := by decide

/-- the scheduler dies between `Popen` and the pid-file write: the second run cannot adopt (no pid file); its launch
    waits behind the lock of the running body and the second process skips the body: two spawns, one body -/
def midLaunchRun : W := W.run fl0 (W.init [] (fun _ => false))
  [.sched (.submit 5 [] 0 false), .sched .step, .sched (.deliver 0), .crashAfterSpawn 0,
   .sched (.submit 5 [] 0 false), .sched .step, .proc 0 false, .sched (.deliver 0), .proc 0 false, .proc 0 true,
   .sched (.deliver 0), .sched .step, .sched (.deliver 0), .sched .step, .proc 1 true, .proc 1 true,
   .sched (.deliver 0), .sched .step, .sched (.deliver 0), .sched .step]

example : (midLaunchRun.a.s.jobs 0).launches = 1 ∧ midLaunchRun.a.adopted 0 = false ∧
    (midLaunchRun.a.s.jobs 0).pc = .finished .done ∧ (midLaunchRun.a.d.dir 5).spawns = 2 ∧
    (midLaunchRun.a.d.dir 5).bodies = 1 ∧ (midLaunchRun.a.d.dir 5).succ = 1 := by decide

/-- the hypothesis of `start_reads_directory` / `restart_no_repeat_at_start` on a concrete world: after the crash the
    first segment of the re-submitted job is at the head of the queue, the pid file names the live process 0 -/
example :
    let w := W.run fl0 (W.init [] (fun _ => false))
      [.sched (.submit 5 [] 0 false), .sched .step, .sched (.deliver 0), .sched .step, .crash, .sched (.submit 5 [] 0 false)]
    w.a.s.ready = [.start 0] ∧ (w.a.d.dir (w.a.s.jobs 0).ident).pid = some 0 ∧ w.a.d.alive 0 = true := by decide

/-- the scheduler dies inside `prepare` leaving a broken script: the second run regenerates it, launches the job once,
    the body runs once -/
example :
    let w := W.run fl0 (W.init [] (fun _ => false))
      [.sched (.submit 5 [] 0 false), .sched .step, .sched (.deliver 0), .crashInPrepare 0 .broken,
       .sched (.submit 5 [] 0 false), .sched .step, .sched (.deliver 0), .sched .step, .sched (.deliver 0), .sched .step,
       .proc 0 true, .proc 0 true, .proc 0 true, .sched (.deliver 0), .sched .step, .sched (.deliver 0), .sched .step]
    (w.a.d.dir 5).script = .ready ∧ (w.a.s.jobs 0).launches = 1 ∧ (w.a.s.jobs 0).pc = .finished .done ∧
    (w.a.d.dir 5).bodies = 1 ∧ (w.a.d.dir 5).spawns = 1 := by decide

/-- a finished job is not repeated: the marker left by the first run makes the second run's job DONE without launch -/
example :
    let w := W.run fl0 (W.init [] (fun _ => false))
      [.sched (.submit 5 [] 0 false), .sched .step, .sched (.deliver 0), .sched .step, .sched (.deliver 0),
       .proc 0 true, .proc 0 true, .proc 0 true, .crash,
       .sched (.submit 5 [] 0 false), .sched .step, .sched (.deliver 0), .sched .step]
    (w.a.s.jobs 0).marker = true ∧ (w.a.s.jobs 0).launches = 0 ∧ (w.a.s.jobs 0).pc = .finished .done ∧
    (w.a.d.dir 5).bodies = 1 := by decide

/-- the hypotheses of `restart_run_finite_partial` on a concrete world: the scheduler dies between `Popen` and the
    pid-file write (the orphan process 0 is alive, no pid file names it); identifier 5 is re-submitted; the run of the
    second scheduler below (launch behind the orphan's lock, both processes, all callbacks) is a run of enabled events;
    the bound `wmu` of the theorem is 1015 for it, the run has 14 events and ends with the job DONE, one body, the
    scheduler with nothing queued and no helper thread. -/
def orphanW : W := W.run fl0 (W.init [] (fun _ => false))
  [.sched (.submit 5 [] 0 false), .sched .step, .sched (.deliver 0), .crashAfterSpawn 0]

def orphanSecondRun : List WEv :=
  [.sched .step, .proc 0 false, .proc 0 false, .proc 0 true,
   .sched (.deliver 0), .sched .step, .sched (.deliver 0), .sched .step, .proc 1 true, .proc 1 true,
   .sched (.deliver 0), .sched .step, .sched (.deliver 0), .sched .step]

example : WReach fl0 [] (fun _ => false) orphanW := ⟨_, rfl⟩
example : orphanW.a.d.alive 0 = true := by decide
example : RestartTerm.NoLivePid orphanW.restart.a.d :=
  RestartTerm.noLivePid_of_b (wreach_inv (WReach.apply (fl := fl0) (totals := []) (done0 := fun _ => false) ⟨_, rfl⟩ .crash)).disk
    (by decide)
example : RestartTerm.SubsOK fl0 orphanW.restart.a.d (St.init orphanW.totals) [⟨5, [], 0⟩] :=
  ⟨fun o ho => (by cases ho), List.nodup_nil, fun j hj => absurd hj (Nat.not_lt_zero j), trivial⟩
example : RestartTerm.RunE fl0 (RestartTerm.resubmitted fl0 orphanW [⟨5, [], 0⟩]) orphanSecondRun :=
  RestartTerm.runE_of_b _ _ _ (by decide)
example : RestartTerm.wmu (RestartTerm.resubmitted fl0 orphanW [⟨5, [], 0⟩]) = 1015 ∧ orphanSecondRun.length = 14 := by decide
example :
    let w := W.run fl0 (RestartTerm.resubmitted fl0 orphanW [⟨5, [], 0⟩]) orphanSecondRun
    (w.a.s.jobs 0).pc = .finished .done ∧ w.a.adopted 0 = false ∧ (w.a.d.dir 5).bodies = 1 ∧ (w.a.d.dir 5).spawns = 2 ∧
    w.a.s.ready = [] ∧ w.a.s.threads = [] := by decide

/-- the run above is maximal: in its last world no event is enabled (hypothesis `hmax` of
    `restart_maximal_run_all_final_partial`); `TokFit` holds (no token). -/
example : ∀ e, ¬ RestartTerm.WEnabled (W.run fl0 (RestartTerm.resubmitted fl0 orphanW [⟨5, [], 0⟩]) orphanSecondRun) e := by
  intro e h
  cases e with
  | sched ev =>
    cases ev with
    | step => exact h (by decide)
    | deliver k =>
      obtain ⟨kind, j, c, d', hk, _⟩ := h
      have : (W.run fl0 (RestartTerm.resubmitted fl0 orphanW [⟨5, [], 0⟩]) orphanSecondRun).a.s.threads = [] := by decide
      rw [this] at hk; simp at hk
    | submit _ _ _ _ => exact h
    | wait => exact h
  | proc p rm =>
    obtain ⟨hp, hph⟩ := h
    have hn : (W.run fl0 (RestartTerm.resubmitted fl0 orphanW [⟨5, [], 0⟩]) orphanSecondRun).a.d.np = 2 := by decide
    rw [hn] at hp
    have : p = 0 ∨ p = 1 := by omega
    rcases this with rfl | rfl <;> revert hph <;> decide
  | crash => exact h
  | crashAfterSpawn j => exact h
  | crashInPrepare j st => exact h
example : SchedFinal.TokFit (RestartTerm.resubmitted fl0 orphanW [⟨5, [], 0⟩]).a.s := by
  intro j i t c hi ho
  have hn : (RestartTerm.resubmitted fl0 orphanW [⟨5, [], 0⟩]).a.s.n = 1 := by decide
  by_cases hj : j = 0
  · subst hj
    have h0 : ((RestartTerm.resubmitted fl0 orphanW [⟨5, [], 0⟩]).a.s.jobs 0).deps.length = 0 := by decide
    rw [h0] at hi; exact absurd hi (Nat.not_lt_zero _)
  · exfalso
    have hb := (RestartTerm.resubmitted_sound (fl := fl0) rfl rfl rfl (w := orphanW) (totals := []) (done0 := fun _ => false)
      ⟨_, rfl⟩ (RestartTerm.noLivePid_of_b (wreach_inv (WReach.apply (fl := fl0) (totals := []) (done0 := fun _ => false) (w := orphanW) ⟨_, rfl⟩ .crash)).disk (by decide))
      [⟨5, [], 0⟩] ⟨fun o ho => (by cases ho), List.nodup_nil, fun j hj => absurd hj (Nat.not_lt_zero j), trivial⟩).2.1.e.c.st.blankDeps j (by omega)
    rw [hb] at hi; exact absurd hi (Nat.not_lt_zero _)

/-! ### non-vacuity of the theorems with adoption

    First run over one token of capacity 1: `A` (identifier 1), `B` (identifier 2, depends on `A` and on the token),
    `C` (identifier 3, depends on `B`).  `A` completes (marker, process gone, pid file removed); `B` is launched and the
    scheduler is killed while the body of `B` runs.  The second scheduler takes the same three submissions: `A` is found
    finished, `B` is ADOPTED during the re-submission (its pid file names the live process 1; its job dependency `A` has
    its marker: hypothesis 4 of `SubsOKA`), `C` waits for `B` and is launched when the adopted process has exited. -/

def depFirstRun : List WEv :=
  [.sched (.submit 1 [] 0 false), .sched (.submit 2 [.job 0, .tok 0 1] 0 false), .sched (.submit 3 [.job 1] 0 false),
   .sched .step, .sched (.deliver 0), .sched .step, .sched (.deliver 0), .sched .step, .proc 0 true, .proc 0 true, .proc 0 true,
   .sched (.deliver 0), .sched .step, .sched (.deliver 0), .sched .step, .sched .step, .sched .step, .sched (.deliver 0),
   .sched .step, .sched (.deliver 0), .sched .step, .proc 1 true]

def depW : W := W.run fl0 (W.init [1] (fun _ => false)) depFirstRun

def depXs : List RestartTerm.Sub := [⟨1, [], 0⟩, ⟨2, [.job 0, .tok 0 1], 0⟩, ⟨3, [.job 1], 0⟩]

def depSecondRun : List WEv :=
  [.sched .step, .sched (.deliver 0), .sched .step, .sched .step, .proc 1 true, .proc 1 true, .sched (.deliver 0), .sched .step,
   .sched (.deliver 0), .sched .step, .sched .step, .sched .step, .sched (.deliver 0), .sched .step, .sched (.deliver 0),
   .sched .step, .proc 2 true, .proc 2 true, .proc 2 true, .sched (.deliver 0), .sched .step, .sched (.deliver 0), .sched .step]

example : WReach fl0 [1] (fun _ => false) depW := ⟨_, rfl⟩
/-- at the crash the body of `B` runs, its pid file names the live process, the marker of `A` exists -/
example : (depW.a.d.procs 1).ph = .body ∧ (depW.restart.a.d.dir 2).pid = some 1 ∧ depW.restart.a.d.alive 1 = true ∧
    (depW.restart.a.d.dir 1).done = true ∧ (depW.restart.a.d.dir 2).done = false := by decide
/-- hypothesis `SubsOKA` of the theorems with adoption -/
theorem dep_subsOKA : RestartLive.SubsOKA fl0 depW.restart.a.d depW.restart depXs :=
  RestartLive.subsOKA_of_b _ _ _ _ (by decide)
/-- `NoLivePid` fails: the `_partial` theorems do not apply to this restart -/
example : ¬ RestartTerm.NoLivePid depW.restart.a.d := fun h => by
  have := h 2 1 (by decide)
  revert this; decide
/-- `B` is adopted during the re-submission, `A` has been found finished -/
example : (RestartTerm.resubmitted fl0 depW depXs).a.adopted 1 = true ∧
    ((RestartTerm.resubmitted fl0 depW depXs).a.s.jobs 1).pc = .codeWait ∧
    ((RestartTerm.resubmitted fl0 depW depXs).a.s.jobs 0).state = .done ∧
    ((RestartTerm.resubmitted fl0 depW depXs).a.s.jobs 2).pc = .created := by decide
example : RestartTerm.RunE fl0 (RestartTerm.resubmitted fl0 depW depXs) depSecondRun :=
  RestartTerm.runE_of_b _ _ _ (by decide)
/-- the bound of `restart_run_finite_adopt_partial` and the length of this run -/
example : RestartLive.wmuA (RestartTerm.resubmitted fl0 depW depXs) = 78706 ∧ depSecondRun.length = 23 := by decide
set_option maxRecDepth 8000 in
/-- the run is maximal (hypothesis `hmax`) and `TokFit` holds -/
theorem dep_maximal : ∀ e, ¬ RestartTerm.WEnabled (W.run fl0 (RestartTerm.resubmitted fl0 depW depXs) depSecondRun) e :=
  RestartLive.stuck_of_b _ (by decide)
theorem dep_tokFit : SchedFinal.TokFit (RestartTerm.resubmitted fl0 depW depXs).a.s :=
  RestartLive.tokFit_of_b
    (RestartLive.resubmitted_soundA (fl := fl0) rfl rfl rfl rfl (totals := [1]) (done0 := fun _ => false) (w := depW) ⟨_, rfl⟩ depXs dep_subsOKA)
    (by decide)
set_option maxRecDepth 8000 in
/-- what the theorem gives on this run, checked directly: all three jobs DONE; `B` adopted and never launched by the second
    scheduler; one body per job overall; token full -/
example :
    let w := W.run fl0 (RestartTerm.resubmitted fl0 depW depXs) depSecondRun
    (w.a.s.jobs 0).pc = .finished .done ∧ (w.a.s.jobs 1).pc = .finished .done ∧ (w.a.s.jobs 2).pc = .finished .done ∧
    w.a.adopted 1 = true ∧ (w.a.s.jobs 1).launches = 0 ∧ (w.a.s.jobs 0).launches = 0 ∧ (w.a.s.jobs 2).launches = 1 ∧
    (w.a.d.dir 1).bodies = 1 ∧ (w.a.d.dir 2).bodies = 1 ∧ (w.a.d.dir 3).bodies = 1 ∧ (w.a.d.dir 2).spawns = 1 ∧
    w.a.s.avail 0 = 1 ∧ w.a.s.ready = [] ∧ w.a.s.threads = [] := by decide
/-- the theorem itself, instantiated -/
example :
    let w' := W.run fl0 (RestartTerm.resubmitted fl0 depW depXs) depSecondRun
    depSecondRun.length ≤ RestartLive.wmuA (RestartTerm.resubmitted fl0 depW depXs) ∧ SchedFinal.AllFinal w'.a.s ∧
    (∀ t, w'.a.s.avail t = w'.a.s.total t) ∧ (∀ p, (w'.a.d.procs p).ph = .gone) := by
  have h := restart_maximal_run_all_final_adopt_partial (fl := fl0) rfl rfl rfl rfl (totals := [1]) (done0 := fun _ => false)
    (w := depW) ⟨_, rfl⟩ depXs dep_subsOKA dep_tokFit depSecondRun (RestartTerm.runE_of_b _ _ _ (by decide)) dep_maximal
  exact ⟨h.1, h.2.2.1, h.2.2.2.2.1, h.2.2.2.2.2.2.2.1⟩

/-- the simple adoption run `adoptRun` above (one job, killed while its process waits for the lock) is also covered:
    hypothesis `SubsOKA` holds (no job dependency) -/
example :
    let w := W.run fl0 (W.init [] (fun _ => false))
      [.sched (.submit 5 [] 0 false), .sched .step, .sched (.deliver 0), .sched .step]
    RestartLive.SubsOKA fl0 w.restart.a.d w.restart [⟨5, [], 0⟩] ∧ ¬ RestartTerm.NoLivePid w.restart.a.d := by
  refine ⟨RestartLive.subsOKA_of_b _ _ _ _ (by decide), fun h => ?_⟩
  have := h 5 0 (by decide)
  revert this; decide

/-! ### an adopted job whose dependency has no marker (outside `_adopt_partial`, inside the full statement)

    `J` (identifier 2, no dependency) is launched by the first scheduler, which is killed while the body runs.  The second
    scheduler is given a DIFFERENT experiment: `O` (identifier 1, its body fails) and `J` now depending on `O` — hypothesis 4
    of `SubsOKA` fails.  `J` is adopted; `O` is launched and fails; `J`, still waiting for its process, is set to ERROR with
    `failedDep`; then its process ends with the marker and the exit code overwrites the state: `J` ends DONE although its
    dependency ended in ERROR (an observation about the adoption path of `aio_submit`, to be replayed on the real
    scheduler).  The run ends with every job final, as `restart_maximal_run_all_final` says it must. -/

def overFirstRun : List WEv :=
  [.sched (.submit 2 [] 0 false), .sched .step, .sched (.deliver 0), .sched .step, .sched (.deliver 0), .sched .step, .proc 0 true]
def overW : W := W.run fl0 (W.init [] (fun _ => false)) overFirstRun
def overXs : List RestartTerm.Sub := [⟨1, [], 1⟩, ⟨2, [.job 0], 0⟩]
def overRunA : List WEv :=
  [.sched .step, .sched (.deliver 0), .sched .step, .sched (.deliver 1), .sched .step, .proc 1 true, .proc 1 true, .proc 1 true,
   .sched (.deliver 1), .sched .step, .sched (.deliver 1), .sched .step, .sched .step]
def overRunB : List WEv := [.proc 0 true, .proc 0 true, .sched (.deliver 0), .sched .step, .sched (.deliver 0), .sched .step]

/-- hypothesis 4 fails for this re-submission -/
example : RestartLive.subsOKAb fl0 overW.restart.a.d overW.restart overXs = false := by decide
example : RestartTerm.RunE fl0 (RestartTerm.resubmitted fl0 overW overXs) (overRunA ++ overRunB) :=
  RestartTerm.runE_of_b _ _ _ (by decide)
/-- **an adopted job set to ERROR by a failing dependency, then overwritten by the exit code** -/
theorem adopted_overwritten :
    let w1 := W.run fl0 (RestartTerm.resubmitted fl0 overW overXs) overRunA
    let w2 := W.run fl0 w1 overRunB
    w1.a.adopted 1 = true ∧ (w1.a.s.jobs 1).pc = .codeWait ∧ (w1.a.s.jobs 1).state = .error ∧ (w1.a.s.jobs 1).failedDep = true ∧
    (w1.a.s.jobs 0).pc = .finished .error ∧
    (w2.a.s.jobs 1).pc = .finished .done ∧ (w2.a.s.jobs 1).failedDep = true ∧ (w2.a.s.jobs 0).pc = .finished .error ∧
    RestartLive.stuckB w2 = true := by decide

/-- the full statement applies to that restart: hypotheses `SubsOK` and `TokFit`, the run is a maximal run of enabled events -/
theorem over_subsOK : RestartTerm.SubsOK fl0 overW.restart.a.d (St.init overW.totals) overXs :=
  RestartFull.subsOK_of_b _ _ _ _ (by decide)
theorem over_tokFit : SchedFinal.TokFit (RestartTerm.resubmitted fl0 overW overXs).a.s :=
  RestartFull.tokFit_of_bF
    (RestartFull.resubmitted_soundF (fl := fl0) rfl rfl rfl rfl (totals := []) (done0 := fun _ => false) (w := overW) ⟨_, rfl⟩ overXs over_subsOK)
    (by decide)
example :
    let w' := W.run fl0 (RestartTerm.resubmitted fl0 overW overXs) (overRunA ++ overRunB)
    (overRunA ++ overRunB).length ≤ RestartFull.wmuF (RestartTerm.resubmitted fl0 overW overXs) ∧ SchedFinal.AllFinal w'.a.s ∧
    (∀ j, w'.a.adopted j = true → (w'.a.s.jobs j).launches = 0 ∧ ∃ r, (w'.a.s.jobs j).pc = .finished r) ∧
    (∀ p, (w'.a.d.procs p).ph = .gone) := by
  have h := restart_maximal_run_all_final (fl := fl0) rfl rfl rfl rfl (totals := []) (done0 := fun _ => false)
    (w := overW) ⟨_, rfl⟩ overXs over_subsOK over_tokFit (overRunA ++ overRunB) (RestartTerm.runE_of_b _ _ _ (by decide))
    (RestartLive.stuck_of_b _ (by decide))
  exact ⟨h.1, h.2.2.1, h.2.2.2.1, h.2.2.2.2.2.2.2.1⟩

/-- the bound of `restart_run_finite` on these two restarts, and the lengths of the runs -/
example : RestartFull.wmuF (RestartTerm.resubmitted fl0 overW overXs) = 15870 ∧ (overRunA ++ overRunB).length = 19 ∧
    RestartFull.wmuF (RestartTerm.resubmitted fl0 depW depXs) = 78706 ∧ depSecondRun.length = 23 := by decide

/-- the full statement on the restart `depW` above (adoption during the re-submission, token + job dependency) -/
theorem dep_subsOK : RestartTerm.SubsOK fl0 depW.restart.a.d (St.init depW.totals) depXs :=
  RestartFull.subsOK_of_b _ _ _ _ (by decide)
example :
    let w' := W.run fl0 (RestartTerm.resubmitted fl0 depW depXs) depSecondRun
    depSecondRun.length ≤ RestartFull.wmuF (RestartTerm.resubmitted fl0 depW depXs) ∧ SchedFinal.AllFinal w'.a.s ∧
    (∀ t, w'.a.s.avail t = w'.a.s.total t) ∧ (∀ p, (w'.a.d.procs p).ph = .gone) := by
  have h := restart_maximal_run_all_final (fl := fl0) rfl rfl rfl rfl (totals := [1]) (done0 := fun _ => false)
    (w := depW) ⟨_, rfl⟩ depXs dep_subsOK dep_tokFit depSecondRun (RestartTerm.runE_of_b _ _ _ (by decide)) dep_maximal
  exact ⟨h.1, h.2.2.1, h.2.2.2.2.1, h.2.2.2.2.2.2.2.1⟩

/-- obligation on the current source: the three scheduler repairs are present (the driver runs the model with these flags) -/
theorem scheduler_flags : Gen.schedFlags.readyGuarded = true ∧ Gen.schedFlags.resubmitRegisters = true ∧ Gen.schedFlags.abortRechecks = true ∧
    Gen.schedFlags.abortReleases = true := by decide

end XpmVerif.C11
