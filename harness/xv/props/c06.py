"""C06 — every job reaches a truthful, stable final state and the experiment exits."""
from .. import common
from . import _sched

PROP = "C06"
MODULES = ["XpmVerif.Properties.C06"]
GEN = dict(max_jobs=6, max_tokens=2, resubmit=True, markers=True, fail_p=0.25)
RULE = ("random workloads (<= 6 jobs, <= 2 tokens, exit codes, success markers, duplicate submissions and re-submission after failure) with random "
        "schedules (step / deliver k / submit / wait) on the real Scheduler + exhaustive schedules of 5 small workloads; "
        "non-trivial = some dependency and >= 2 helper-thread completions delivered out of FIFO order; distinct = (workload, schedule) hash")


def prove(ctx):
    _sched.prove(ctx, MODULES)


def correspond(ctx):
    _sched.run(ctx, PROP, GEN, RULE, 1500, 25000)
    # jobs taken back from an earlier run (exit code not retrievable): final states must stay truthful
    _sched.restart_part(ctx, PROP, ctx.scale(300, 3000))
    # state that survives from one experiment to the next in one interpreter (token objects, event loops): real scheduler,
    # real job processes; every job of the second experiment must become final and wait() must return (shared with C09)
    from . import c09files
    c09files.sequential_experiments_scenario(ctx)


def search(ctx):
    _sched.search(ctx, PROP, GEN)


def replay(ctx, obj):
    return _sched.replay_events(ctx, PROP, obj)


def run_witness(ctx, finding):
    _sched.run_witness(ctx, PROP, finding)
