import XpmVerif.Model.Sched
import XpmVerif.Proofs.SchedCap
/-! Proofs about the scheduler model `Model/Sched.lean` for property C06 (truthful, stable final states; the
    waiter returns only when everything is final; deadlock freedom at quiescence).

    `Reachable fl totals s`: states reachable from `St.init totals` by any list of well-formed events (`EvOK`).
    Every invariant is preserved by every callback (`St.runCb`), hence by `step`, by the steps inside `submit`
    and by every event.  Layers (each `reachable_inv…`):
    * `InvA` — `Inv1` control token (exactly one continuation per live coroutine, of the sort its pc asks for),
      `JL` record-local truthfulness (`JLocal`), blank future records;                     flag: readyGuarded
    * `InvB` — no registration pending between events, `unfinished` = number of live coroutines (phases `PhA`/`PhB`
      inside `submit`);                                                                   flags: + resubmitRegisters
    * `InvS` — static well-formedness (acyclic origins, `eff d ≤ d`, registry);            no flag
    * `InvC` — + `InvF`, `InvD`: counter `unsat` (A), recorded OK/FAIL is the truth about the origin, failed
      dependency ⇒ never launched, checks refer to started jobs;                           flag: readyGuarded
    * `InvE` — + `JQs`: who sleeps is WAITING with unsat > 0 (B), holders have a thread (G);  flag: + abortRechecks
    * `InvG` — + `InvQF`: no lost notification (C, D);                                     same flags
    * `InvH` — every dependency points to a scheduled job;                                 flags: readyGuarded, resubmitRegisters
    Deadlock freedom `quiescent_final` combines them with the capacity invariant of `Proofs/SchedCap.lean` (C08). -/
set_option linter.unusedSimpArgs false
set_option linter.unusedVariables false
namespace XpmVerif.SchedFinal
open XpmVerif.Sched

/-! Part 1: reachability, accessor lemmas, frames of the record primitives, induction principles. -/

/-- all three scheduler repairs present. -/
def flOK : Flags := { readyGuarded := true, resubmitRegisters := true, abortRechecks := true }

/-- well-formed event: a submission names only earlier submissions and existing tokens. -/
def EvOK (s : St) : Ev → Prop
  | .submit _ deps _ _ => ∀ o ∈ deps, match o with
      | .job d => d < s.n
      | .tok t c => t < s.ntok ∧ 0 < c
  | _ => True

/-- states reachable from `St.init totals` by any list of well-formed events. -/
inductive Reachable (fl : Flags) (totals : List Nat) : St → Prop
  | init : Reachable fl totals (St.init totals)
  | next {s : St} {ev : Ev} : Reachable fl totals s → EvOK s ev → Reachable fl totals (s.apply fl ev)

/-! ### `put` accessors -/
section put
variable (s : St) (j : Nat) (jb : Job) (cbs : List Cb) (ths : List (TK × Nat))
@[simp] theorem put_jobs : (s.put j jb cbs ths).jobs = upd s.jobs j jb := rfl
@[simp] theorem put_ready : (s.put j jb cbs ths).ready = s.ready ++ cbs := rfl
@[simp] theorem put_threads : (s.put j jb cbs ths).threads = s.threads ++ ths := rfl
@[simp] theorem put_n : (s.put j jb cbs ths).n = s.n := rfl
@[simp] theorem put_eff : (s.put j jb cbs ths).eff = s.eff := rfl
@[simp] theorem put_ntok : (s.put j jb cbs ths).ntok = s.ntok := rfl
@[simp] theorem put_total : (s.put j jb cbs ths).total = s.total := rfl
@[simp] theorem put_avail : (s.put j jb cbs ths).avail = s.avail := rfl
@[simp] theorem put_tokDeps : (s.put j jb cbs ths).tokDeps = s.tokDeps := rfl
@[simp] theorem put_jobDeps : (s.put j jb cbs ths).jobDeps = s.jobDeps := rfl
@[simp] theorem put_registry : (s.put j jb cbs ths).registry = s.registry := rfl
@[simp] theorem put_unfinished : (s.put j jb cbs ths).unfinished = s.unfinished := rfl
@[simp] theorem put_failed : (s.put j jb cbs ths).failed = s.failed := rfl
@[simp] theorem put_waiter : (s.put j jb cbs ths).waiter = s.waiter := rfl
@[simp] theorem put_regResult : (s.put j jb cbs ths).regResult = s.regResult := rfl
end put

@[simp] theorem upd_same {α : Type} (f : Nat → α) (j : Nat) (v : α) : upd f j v j = v := by simp [upd]
theorem upd_ne {α : Type} (f : Nat → α) {i j : Nat} (v : α) (h : i ≠ j) : upd f j v i = f i := by simp [upd, h]

/-! ### frames of the record primitives -/

theorem eventSet_frame (jb : Job) :
    (eventSet jb).1.pc = jb.pc ∧ (eventSet jb).1.state = jb.state ∧ (eventSet jb).1.launches = jb.launches
    ∧ (eventSet jb).1.code = jb.code ∧ (eventSet jb).1.marker = jb.marker ∧ (eventSet jb).1.ident = jb.ident
    ∧ (eventSet jb).1.failedDep = jb.failedDep ∧ (eventSet jb).1.held = jb.held ∧ (eventSet jb).1.deps = jb.deps
    ∧ (eventSet jb).1.unsat = jb.unsat ∧ (eventSet jb).1.event = true := by
  unfold eventSet; split <;> (try split) <;> simp_all

/-- the wake-up flag of `eventSet`: a wake-up is queued exactly when a sleeper is consumed. -/
theorem eventSet_sleep (jb : Job) :
    ((eventSet jb).2 = true → jb.sleeping = true ∧ (eventSet jb).1.sleeping = false) ∧
    ((eventSet jb).2 = false → (eventSet jb).1.sleeping = jb.sleeping) := by
  unfold eventSet; split <;> (try split) <;> simp_all



/-! ### the control token of a job -/

def cStart (j : Nat) (l : List Cb) : Nat := l.count (.start j)
def cWake (j : Nat) (l : List Cb) : Nat := l.count (.wake j)
def cRes (j : Nat) (l : List Cb) : Nat := l.count (.resume j)
def cThr (j : Nat) (l : List (TK × Nat)) : Nat := l.countP (fun p => p.2 == j)

/-- 0: no coroutine (never scheduled, or returned); 1: created; 2: in `event.wait()`; 3: waiting for a helper thread. -/
def pcKind : PC → Nat
  | .none => 0 | .finished _ => 0 | .created => 1 | .evtWait => 2 | _ => 3

def slN (jb : Job) : Nat := if jb.sleeping then 1 else 0

/-- the control token of job `i`: exactly one continuation is pending, of the sort its program counter asks for:
    a `start` callback (created), a `wake` callback or a sleeper registered on the event (evtWait),
    a helper thread or its `resume` callback (lockEnter … doneHandler); none for `none`/`finished`. -/
def CtlAt (s : St) (i : Nat) : Prop :=
  cStart i s.ready = (if pcKind (s.jobs i).pc = 1 then 1 else 0) ∧
  cWake i s.ready + slN (s.jobs i) = (if pcKind (s.jobs i).pc = 2 then 1 else 0) ∧
  cRes i s.ready + cThr i s.threads = (if pcKind (s.jobs i).pc = 3 then 1 else 0) ∧
  (s.n ≤ i → pcKind (s.jobs i).pc = 0)

/-- job `i` is running its own segment: it holds its control token itself. -/
def Idle (s : St) (i : Nat) : Prop :=
  cStart i s.ready = 0 ∧ cWake i s.ready + slN (s.jobs i) = 0 ∧ cRes i s.ready + cThr i s.threads = 0 ∧ i < s.n

def Inv1 (s : St) : Prop := ∀ i, CtlAt s i
def Inv1E (s : St) (x : Nat) : Prop := (∀ i, i ≠ x → CtlAt s i) ∧ Idle s x

theorem depChanged_ctl (fl : Flags) (jb : Job) (d : Nat) (st : DS) :
    (depChanged fl jb d st).1.pc = jb.pc ∧
    slN (depChanged fl jb d st).1 + (if (depChanged fl jb d st).2 then 1 else 0) = slN jb := by
  grind [depChanged, eventSet, slN]



/-! ### induction principles for the recursive helpers -/

/-- one registration: the dependent `(j, d)` is appended to its origin's list. -/
def regOne (s : St) (j d : Nat) : St :=
  match ((s.jobs j).deps.getD d default).origin with
  | .job o => { s with jobDeps := upd s.jobDeps o (s.jobDeps o ++ [(j, d)]) }
  | .tok t _ => { s with tokDeps := upd s.tokDeps t (s.tokDeps t ++ [(j, d)]) }

theorem registerDeps_succ (fl : Flags) (s : St) (j k d : Nat) :
    St.registerDeps fl s j (k + 1) d = St.registerDeps fl ((regOne s j d).check fl j d) j k (d + 1) := by
  rfl

theorem registerDeps_ind (P : St → Prop) (fl : Flags) (j D : Nat)
    (hreg : ∀ s d, d < D → P s → P (regOne s j d))
    (hchk : ∀ s d, d < D → P s → P (s.check fl j d)) :
    ∀ k d s, d + k = D → P s → P (St.registerDeps fl s j k d) := by
  intro k
  induction k with
  | zero => intro d s _ h; exact h
  | succ k ih =>
    intro d s hd h
    rw [registerDeps_succ]
    exact ih (d + 1) _ (by omega) (hchk _ d (by omega) (hreg _ d (by omega) h))

/-- release of the `d`-th dependency lock of `j`. -/
def relOne (s : St) (j d : Nat) : St :=
  match ((s.jobs j).deps.getD d default).origin with
  | .job _ => s
  | .tok t c =>
    { s with avail := upd s.avail t (s.avail t + c),
             ready := s.ready ++ (s.tokDeps t).map (fun (p : Nat × Nat) => Cb.notifyCheck p.1 p.2) }

theorem releaseAll_cons (s : St) (j d : Nat) (ds : List Nat) :
    St.releaseAll s j (d :: ds) = St.releaseAll (relOne s j d) j ds := by
  rfl

theorem releaseAll_ind (P : St → Prop) (j : Nat) (Q : Nat → Prop)
    (hrel : ∀ s d, Q d → P s → P (relOne s j d))
    (hput : ∀ s, P s → P (s.put j { (s.jobs j) with held := [] })) :
    ∀ ds s, (∀ d ∈ ds, Q d) → P s → P (St.releaseAll s j ds) := by
  intro ds
  induction ds with
  | nil => intro s _ h; exact hput s h
  | cons d ds ih =>
    intro s hq h
    rw [releaseAll_cons]
    exact ih _ (fun d' hd' => hq d' (List.mem_cons_of_mem _ hd')) (hrel s d (hq d (List.mem_cons_self ..)) h)

/-- successful acquisition of the `d`-th dependency lock of `j`. -/
def acqOne (s : St) (j d : Nat) : St :=
  match ((s.jobs j).deps.getD d default).origin with
  | .job _ => s.put j { (s.jobs j) with held := (s.jobs j).held ++ [d] }
  | .tok t c => ({ s with avail := upd s.avail t (s.avail t - c) }).put j { (s.jobs j) with held := (s.jobs j).held ++ [d] }

/-- the `d`-th lock cannot be taken. -/
def acqFails (s : St) (j d : Nat) : Prop :=
  match ((s.jobs j).deps.getD d default).origin with
  | .job _ => False
  | .tok t c => s.avail t < c

theorem acquireAll_ind (P : St → Prop) (j D : Nat)
    (hacq : ∀ s d, d < D → ¬ acqFails s j d → P s → P (acqOne s j d)) :
    ∀ k d s, d + k = D → P s →
      P (St.acquireAll s j k d).1 ∧
      (∀ e, (St.acquireAll s j k d).2 = some e → e < D ∧ acqFails (St.acquireAll s j k d).1 j e) := by
  intro k
  induction k with
  | zero => intro d s _ h; exact ⟨h, by simp [St.acquireAll]⟩
  | succ k ih =>
    intro d s hd h
    have hA := hacq s d (by omega)
    cases ho : ((s.jobs j).deps.getD d default).origin with
    | job o =>
      simp only [acqOne, acqFails, ho] at hA
      simp only [St.acquireAll, ho]
      exact ih (d + 1) _ (by omega) (hA (by simp) h)
    | tok t c =>
      simp only [acqOne, acqFails, ho] at hA
      simp only [St.acquireAll, ho]
      by_cases hlt : s.avail t < c
      · simp only [hlt, if_true]
        refine ⟨h, ?_⟩
        intro e he
        simp only [Option.some.injEq] at he
        subst he
        refine ⟨by omega, ?_⟩
        simp only [acqFails, ho]; exact hlt
      · simp only [hlt, if_false]
        exact ih (d + 1) _ (by omega) (hA hlt h)

/-! ### `resume`, one equation per program counter -/

/-- the `doneHandler` segment in a flat form. -/
def doneStep (s : St) (j : Nat) : St :=
  ({ s with unfinished := s.unfinished - 1,
            waiter := if s.waiter = WS.sleeping then WS.notified else s.waiter,
            ready := s.ready ++ ((if s.waiter = WS.sleeping then [Cb.waiterRun] else []) ++
                      (s.jobDeps j).map (fun (p : Nat × Nat) => Cb.check p.1 p.2)) }).put j
    { (s.jobs j) with pc := .finished (s.jobs j).state }

/-- the aborted-start segment after the locks were released. -/
def abortTail (fl : Flags) (s : St) (j : Nat) : St :=
  let jb := { (s.jobs j) with state := JS.waiting }
  let r := if fl.abortRechecks ∧ jb.unsat = 0 then eventSet { jb with state := .ready } else (jb, false)
  (s.put j r.1 (if r.2 then [.wake j] else [])).loopHead j

/-- the process-ended segment after the locks were released. -/
def codeTail (s : St) (j : Nat) : St :=
  (s.put j { (s.jobs j) with state := if (s.jobs j).code = 0 then .done else .error }).finish j

/-- an aborted start gives back at once what it had taken (repair `abortReleases`). -/
def abortRelease (fl : Flags) (s : St) (j : Nat) : St :=
  if fl.abortReleases then s.releaseAll j (s.jobs j).held else s

/-- the start segment after the acquisition loop. -/
def enterTail (fl : Flags) (r : St × Option Nat) (j : Nat) : St :=
  match r.2 with
  | some d =>
    let s := (abortRelease fl r.1 j).check fl j d
    s.put j { (s.jobs j) with pc := .lockExitAbort } [] [(.lockExit, j)]
  | none =>
    r.1.put j { (r.1.jobs j) with launches := (r.1.jobs j).launches + 1, state := .running, pc := .lockExitRun } [] [(.lockExit, j)]

theorem resume_lockEnter (fl : Flags) (s : St) (j : Nat) (h : (s.jobs j).pc = .lockEnter) :
    s.resume fl j = enterTail fl (s.acquireAll j (s.jobs j).deps.length 0) j := by
  unfold St.resume enterTail; simp only [h]; rfl

theorem resume_lockExitAbort (fl : Flags) (s : St) (j : Nat) (h : (s.jobs j).pc = .lockExitAbort) :
    s.resume fl j = abortTail fl (s.releaseAll j (s.jobs j).held) j := by
  unfold St.resume abortTail; simp only [h]

theorem resume_lockExitRun (fl : Flags) (s : St) (j : Nat) (h : (s.jobs j).pc = .lockExitRun) :
    s.resume fl j = s.put j { (s.jobs j) with pc := .codeWait } [] [(.code, j)] := by
  unfold St.resume; simp only [h]

theorem resume_codeWait (fl : Flags) (s : St) (j : Nat) (h : (s.jobs j).pc = .codeWait) :
    s.resume fl j = codeTail (s.releaseAll j (s.jobs j).held) j := by
  unfold St.resume codeTail; simp only [h]

theorem resume_doneHandler (fl : Flags) (s : St) (j : Nat) (h : (s.jobs j).pc = .doneHandler) :
    s.resume fl j = doneStep s j := by
  unfold St.resume doneStep; simp only [h]
  by_cases hw : s.waiter = WS.sleeping <;> simp [hw, St.put]

theorem resume_other (fl : Flags) (s : St) (j : Nat) (h : pcKind (s.jobs j).pc ≠ 3) : s.resume fl j = s := by
  unfold St.resume
  cases hp : (s.jobs j).pc <;> simp [pcKind, hp] at h ⊢



/-! ### counting lemmas -/
section counts
variable (i : Nat)
@[simp] theorem cStart_nil : cStart i [] = 0 := rfl
@[simp] theorem cWake_nil : cWake i [] = 0 := rfl
@[simp] theorem cRes_nil : cRes i [] = 0 := rfl
@[simp] theorem cThr_nil : cThr i [] = 0 := rfl
@[simp] theorem cStart_append (l m : List Cb) : cStart i (l ++ m) = cStart i l + cStart i m := by simp [cStart]
@[simp] theorem cWake_append (l m : List Cb) : cWake i (l ++ m) = cWake i l + cWake i m := by simp [cWake]
@[simp] theorem cRes_append (l m : List Cb) : cRes i (l ++ m) = cRes i l + cRes i m := by simp [cRes]
@[simp] theorem cThr_append (l m : List (TK × Nat)) : cThr i (l ++ m) = cThr i l + cThr i m := by simp [cThr]
@[simp] theorem cStart_cons (cb : Cb) (l : List Cb) :
    cStart i (cb :: l) = cStart i l + (if cb = .start i then 1 else 0) := by
  simp [cStart, List.count_cons]
@[simp] theorem cWake_cons (cb : Cb) (l : List Cb) :
    cWake i (cb :: l) = cWake i l + (if cb = .wake i then 1 else 0) := by
  simp [cWake, List.count_cons]
@[simp] theorem cRes_cons (cb : Cb) (l : List Cb) :
    cRes i (cb :: l) = cRes i l + (if cb = .resume i then 1 else 0) := by
  simp [cRes, List.count_cons]
@[simp] theorem cThr_cons (p : TK × Nat) (l : List (TK × Nat)) :
    cThr i (p :: l) = cThr i l + (if p.2 = i then 1 else 0) := by
  simp [cThr, List.countP_cons]

/-- a callback that is not a continuation of any coroutine. -/
def plainCb : Cb → Prop
  | .start _ | .wake _ | .resume _ => False
  | _ => True

theorem cStart_plain (l : List Cb) (h : ∀ cb ∈ l, plainCb cb) : cStart i l = 0 := by
  simp only [cStart, List.count_eq_zero]
  intro hm; exact h _ hm
theorem cWake_plain (l : List Cb) (h : ∀ cb ∈ l, plainCb cb) : cWake i l = 0 := by
  simp only [cWake, List.count_eq_zero]
  intro hm; exact h _ hm
theorem cRes_plain (l : List Cb) (h : ∀ cb ∈ l, plainCb cb) : cRes i l = 0 := by
  simp only [cRes, List.count_eq_zero]
  intro hm; exact h _ hm

theorem plain_map_check (l : List (Nat × Nat)) : ∀ cb ∈ l.map (fun (p : Nat × Nat) => Cb.check p.1 p.2), plainCb cb := by
  intro cb h; simp only [List.mem_map] at h; obtain ⟨p, _, rfl⟩ := h; trivial
theorem plain_map_notify (l : List (Nat × Nat)) : ∀ cb ∈ l.map (fun (p : Nat × Nat) => Cb.notifyCheck p.1 p.2), plainCb cb := by
  intro cb h; simp only [List.mem_map] at h; obtain ⟨p, _, rfl⟩ := h; trivial

@[simp] theorem cStart_map_check (l : List (Nat × Nat)) : cStart i (l.map (fun (p : Nat × Nat) => Cb.check p.1 p.2)) = 0 :=
  cStart_plain i _ (plain_map_check l)
@[simp] theorem cWake_map_check (l : List (Nat × Nat)) : cWake i (l.map (fun (p : Nat × Nat) => Cb.check p.1 p.2)) = 0 :=
  cWake_plain i _ (plain_map_check l)
@[simp] theorem cRes_map_check (l : List (Nat × Nat)) : cRes i (l.map (fun (p : Nat × Nat) => Cb.check p.1 p.2)) = 0 :=
  cRes_plain i _ (plain_map_check l)
@[simp] theorem cStart_map_notify (l : List (Nat × Nat)) : cStart i (l.map (fun (p : Nat × Nat) => Cb.notifyCheck p.1 p.2)) = 0 :=
  cStart_plain i _ (plain_map_notify l)
@[simp] theorem cWake_map_notify (l : List (Nat × Nat)) : cWake i (l.map (fun (p : Nat × Nat) => Cb.notifyCheck p.1 p.2)) = 0 :=
  cWake_plain i _ (plain_map_notify l)
@[simp] theorem cRes_map_notify (l : List (Nat × Nat)) : cRes i (l.map (fun (p : Nat × Nat) => Cb.notifyCheck p.1 p.2)) = 0 :=
  cRes_plain i _ (plain_map_notify l)

theorem cThr_eraseIdx (l : List (TK × Nat)) (k : Nat) (p : TK × Nat) (h : l[k]? = some p) :
    cThr i l = cThr i (l.eraseIdx k) + (if p.2 = i then 1 else 0) := by
  induction l generalizing k with
  | nil => simp at h
  | cons a l ih =>
    cases k with
    | zero => simp at h; subst h; simp
    | succ k =>
      simp at h
      have := ih k h
      simp [List.eraseIdx_cons_succ]; omega
end counts

/-! ### the control invariant under the elementary operations -/

theorem check_ctlAt (fl : Flags) (s : St) (j d i : Nat) (h : CtlAt s i) : CtlAt (s.check fl j d) i := by
  have f := depChanged_ctl fl (s.jobs j) d (s.status ((s.jobs j).deps.getD d default).origin)
  simp only [St.check]
  generalize depChanged fl (s.jobs j) d (s.status ((s.jobs j).deps.getD d default).origin) = r at f ⊢
  obtain ⟨fp, fs⟩ := f
  by_cases hij : i = j
  · subst hij
    simp only [CtlAt, put_jobs, put_ready, put_threads, put_n, upd_same, cStart_append, cWake_append, cRes_append,
      List.append_nil, fp] at h ⊢
    cases hw : r.2 <;> simp [hw] at fs ⊢ <;> omega
  · have hji : j ≠ i := Ne.symm hij
    simp only [CtlAt, put_jobs, put_ready, put_threads, put_n, upd_ne _ _ hij, cStart_append, cWake_append, cRes_append,
      List.append_nil] at h ⊢
    cases hw : r.2 <;> simp [hw, hji] <;> omega

theorem check_idle (fl : Flags) (s : St) (j d i : Nat) (h : Idle s i) : Idle (s.check fl j d) i := by
  have f := depChanged_ctl fl (s.jobs j) d (s.status ((s.jobs j).deps.getD d default).origin)
  simp only [St.check]
  generalize depChanged fl (s.jobs j) d (s.status ((s.jobs j).deps.getD d default).origin) = r at f ⊢
  obtain ⟨fp, fs⟩ := f
  by_cases hij : i = j
  · subst hij
    simp only [Idle, put_jobs, put_ready, put_threads, put_n, upd_same, cStart_append, cWake_append, cRes_append,
      List.append_nil] at h ⊢
    cases hw : r.2 <;> simp [hw] at fs ⊢ <;> omega
  · have hji : j ≠ i := Ne.symm hij
    simp only [Idle, put_jobs, put_ready, put_threads, put_n, upd_ne _ _ hij, cStart_append, cWake_append, cRes_append,
      List.append_nil] at h ⊢
    cases hw : r.2 <;> simp [hw, hji] <;> omega



theorem ctlAt_congr {s s' : St} (i : Nat) (hpc : (s'.jobs i).pc = (s.jobs i).pc)
    (hsl : (s'.jobs i).sleeping = (s.jobs i).sleeping)
    (hS : cStart i s'.ready = cStart i s.ready) (hW : cWake i s'.ready = cWake i s.ready)
    (hR : cRes i s'.ready = cRes i s.ready) (hT : cThr i s'.threads = cThr i s.threads) (hn : s'.n = s.n) :
    CtlAt s' i ↔ CtlAt s i := by
  simp only [CtlAt, slN, hpc, hsl, hS, hW, hR, hT, hn]

theorem idle_congr {s s' : St} (i : Nat)
    (hsl : (s'.jobs i).sleeping = (s.jobs i).sleeping)
    (hS : cStart i s'.ready = cStart i s.ready) (hW : cWake i s'.ready = cWake i s.ready)
    (hR : cRes i s'.ready = cRes i s.ready) (hT : cThr i s'.threads = cThr i s.threads) (hn : s'.n = s.n) :
    Idle s' i ↔ Idle s i := by
  simp only [Idle, slN, hsl, hS, hW, hR, hT, hn]

/-- the state changed only in fields the control invariant does not read, up to plain callbacks appended. -/
theorem inv1E_plain {s s' : St} {x : Nat} (l : List Cb) (hj : s'.jobs = s.jobs) (ht : s'.threads = s.threads)
    (hr : s'.ready = s.ready ++ l) (hn : s'.n = s.n) (hl : ∀ cb ∈ l, plainCb cb) (h : Inv1E s x) : Inv1E s' x := by
  have c1 := fun i => cStart_plain i l hl
  have c2 := fun i => cWake_plain i l hl
  have c3 := fun i => cRes_plain i l hl
  refine ⟨fun i hi => ?_, ?_⟩
  · refine (ctlAt_congr i ?_ ?_ ?_ ?_ ?_ ?_ ?_).2 (h.1 i hi) <;> simp [hj, ht, hr, hn, c1, c2, c3]
  · refine (idle_congr x ?_ ?_ ?_ ?_ ?_ ?_).2 h.2 <;> simp [hj, ht, hr, hn, c1, c2, c3]

theorem inv1_plain {s s' : St} (l : List Cb) (hj : s'.jobs = s.jobs) (ht : s'.threads = s.threads)
    (hr : s'.ready = s.ready ++ l) (hn : s'.n = s.n) (hl : ∀ cb ∈ l, plainCb cb) (h : Inv1 s) : Inv1 s' := by
  have c1 := fun i => cStart_plain i l hl
  have c2 := fun i => cWake_plain i l hl
  have c3 := fun i => cRes_plain i l hl
  intro i
  refine (ctlAt_congr i ?_ ?_ ?_ ?_ ?_ ?_ ?_).2 (h i) <;> simp [hj, ht, hr, hn, c1, c2, c3]

theorem check_inv1 (fl : Flags) (s : St) (j d : Nat) (h : Inv1 s) : Inv1 (s.check fl j d) :=
  fun i => check_ctlAt fl s j d i (h i)

theorem check_inv1E (fl : Flags) (s : St) (j d x : Nat) (h : Inv1E s x) : Inv1E (s.check fl j d) x :=
  ⟨fun i hi => check_ctlAt fl s j d i (h.1 i hi), check_idle fl s j d x h.2⟩

theorem regOne_frame (s : St) (j d : Nat) :
    (regOne s j d).jobs = s.jobs ∧ (regOne s j d).ready = s.ready ∧ (regOne s j d).threads = s.threads
    ∧ (regOne s j d).n = s.n ∧ (regOne s j d).unfinished = s.unfinished ∧ (regOne s j d).failed = s.failed
    ∧ (regOne s j d).waiter = s.waiter ∧ (regOne s j d).regResult = s.regResult ∧ (regOne s j d).avail = s.avail
    ∧ (regOne s j d).registry = s.registry ∧ (regOne s j d).eff = s.eff := by
  unfold regOne; split <;> simp

theorem relOne_frame (s : St) (j d : Nat) :
    (relOne s j d).jobs = s.jobs ∧ (relOne s j d).threads = s.threads
    ∧ (relOne s j d).n = s.n ∧ (relOne s j d).unfinished = s.unfinished ∧ (relOne s j d).failed = s.failed
    ∧ (relOne s j d).waiter = s.waiter ∧ (relOne s j d).regResult = s.regResult
    ∧ (relOne s j d).registry = s.registry ∧ (relOne s j d).eff = s.eff
    ∧ (relOne s j d).jobDeps = s.jobDeps ∧ (relOne s j d).tokDeps = s.tokDeps
    ∧ ∃ l, (relOne s j d).ready = s.ready ++ l ∧ ∀ cb ∈ l, plainCb cb := by
  unfold relOne; split
  · refine ⟨rfl, rfl, rfl, rfl, rfl, rfl, rfl, rfl, rfl, rfl, rfl, [], by simp, by simp⟩
  · exact ⟨rfl, rfl, rfl, rfl, rfl, rfl, rfl, rfl, rfl, rfl, rfl, _, rfl, plain_map_notify _⟩

theorem regOne_inv1E (s : St) (j d x : Nat) (h : Inv1E s x) : Inv1E (regOne s j d) x := by
  have f := regOne_frame s j d
  exact inv1E_plain [] f.1 f.2.2.1 (by simp [f.2.1]) f.2.2.2.1 (by simp) h

theorem relOne_inv1E (s : St) (j d x : Nat) (h : Inv1E s x) : Inv1E (relOne s j d) x := by
  have f := relOne_frame s j d
  obtain ⟨l, hl, hp⟩ := f.2.2.2.2.2.2.2.2.2.2.2
  exact inv1E_plain l f.1 f.2.1 hl f.2.2.1 hp h

/-- while job `x` runs its segment it may rewrite its own record (not the sleeper flag) without queuing anything. -/
theorem inv1E_put_self (s : St) (x : Nat) (jb : Job) (hs : jb.sleeping = false) (h : Inv1E s x) :
    Inv1E (s.put x jb) x := by
  refine ⟨fun i hi => ?_, ?_⟩
  · refine (ctlAt_congr i ?_ ?_ ?_ ?_ ?_ ?_ ?_).2 (h.1 i hi) <;> simp [upd_ne _ _ hi]
  · have := h.2
    simp only [Idle, slN, put_jobs, put_ready, put_threads, put_n, upd_same, hs, List.append_nil] at this ⊢
    simp only [Bool.false_eq_true, if_false]
    omega

theorem idle_sleeping {s : St} {x : Nat} (h : Idle s x) : (s.jobs x).sleeping = false := by
  have := h.2.1
  simp only [slN] at this
  cases hs : (s.jobs x).sleeping <;> simp_all

/-- end of a segment: the job writes its record and leaves exactly the continuation its new pc asks for. -/
theorem inv1_put_final (s : St) (x : Nat) (jb : Job) (cbs : List Cb) (ths : List (TK × Nat)) (h : Inv1E s x)
    (hother : ∀ i, i ≠ x → cStart i cbs = 0 ∧ cWake i cbs = 0 ∧ cRes i cbs = 0 ∧ cThr i ths = 0)
    (hS : cStart x cbs = if pcKind jb.pc = 1 then 1 else 0)
    (hW : cWake x cbs + slN jb = if pcKind jb.pc = 2 then 1 else 0)
    (hR : cRes x cbs + cThr x ths = if pcKind jb.pc = 3 then 1 else 0) :
    Inv1 (s.put x jb cbs ths) := by
  intro i
  by_cases hi : i = x
  · subst hi
    have := h.2
    simp only [Idle, CtlAt, put_jobs, put_ready, put_threads, put_n, upd_same, cStart_append, cWake_append, cRes_append,
      cThr_append] at this ⊢
    omega
  · obtain ⟨a, b, c, d⟩ := hother i hi
    refine (ctlAt_congr i ?_ ?_ ?_ ?_ ?_ ?_ ?_).2 (h.1 i hi) <;> simp [upd_ne _ _ hi, a, b, c, d]



/-- discharge the side conditions of `inv1_put_final` on concrete callback / thread lists. -/
macro "ctl_final" : tactic =>
  `(tactic| first
    | (intro i hi; simp [hi, Ne.symm hi])
    | (simp [pcKind, slN]))

theorem eventSet_nosleep (jb : Job) (h : jb.sleeping = false) :
    (eventSet jb).2 = false ∧ (eventSet jb).1.sleeping = false := by
  unfold eventSet; split <;> simp_all

theorem finish_inv1 (s : St) (x : Nat) (h : Inv1E s x) : Inv1 (s.finish x) := by
  unfold St.finish
  have hs := idle_sleeping h.2
  refine inv1_put_final _ x _ _ _ ?_ ?_ ?_ ?_ ?_
  · split
    · exact inv1E_plain [] rfl rfl (by simp) rfl (by simp) h
    · exact h
  · intro i hi; simp [hi, Ne.symm hi]
  · simp [pcKind]
  · simp [pcKind, slN, hs]
  · simp [pcKind]

theorem loopHead_inv1 (s : St) (x : Nat) (h : Inv1E s x) : Inv1 (s.loopHead x) := by
  unfold St.loopHead
  have hs := idle_sleeping h.2
  simp only
  split
  · exact finish_inv1 s x h
  · split
    · split
      · refine inv1_put_final _ x _ _ _ h ?_ ?_ ?_ ?_
        · intro i hi; simp [hi, Ne.symm hi]
        · simp [pcKind]
        · simp [pcKind, slN, hs]
        · simp [pcKind]
      · refine inv1_put_final _ x _ _ _ h ?_ ?_ ?_ ?_
        · intro i hi; simp [hi, Ne.symm hi]
        · simp [pcKind]
        · simp [pcKind, slN, hs]
        · simp [pcKind]
    · refine inv1_put_final _ x _ _ _ h ?_ ?_ ?_ ?_
      · intro i hi; simp [hi, Ne.symm hi]
      · simp [pcKind]
      · simp [pcKind, slN, hs]
      · simp [pcKind]

theorem registerDeps_inv1E (fl : Flags) (s : St) (j k d x : Nat) (h : Inv1E s x) :
    Inv1E (St.registerDeps fl s j k d) x :=
  registerDeps_ind (fun s => Inv1E s x) fl j (d + k)
    (fun s d _ h => regOne_inv1E s j d x h) (fun s d _ h => check_inv1E fl s j d x h) k d s rfl h

theorem releaseAll_inv1E (s : St) (x : Nat) (ds : List Nat) (h : Inv1E s x) :
    Inv1E (St.releaseAll s x ds) x :=
  releaseAll_ind (fun s => Inv1E s x) x (fun _ => True)
    (fun s d _ h => relOne_inv1E s x d x h)
    (fun s h => inv1E_put_self s x _ (idle_sleeping h.2) h) ds s (fun _ _ => trivial) h

theorem acqOne_inv1E (s : St) (x d : Nat) (h : Inv1E s x) : Inv1E (acqOne s x d) x := by
  unfold acqOne
  split
  · exact inv1E_put_self s x _ (idle_sleeping h.2) h
  · refine inv1E_put_self _ x _ (idle_sleeping h.2) ?_
    exact inv1E_plain [] rfl rfl (by simp) rfl (by simp) h

theorem acquireAll_inv1E (s : St) (x k d : Nat) (h : Inv1E s x) :
    Inv1E (St.acquireAll s x k d).1 x :=
  (acquireAll_ind (fun s => Inv1E s x) x (d + k) (fun s d _ _ h => acqOne_inv1E s x d h) k d s rfl h).1

theorem startJob_inv1 (fl : Flags) (s : St) (x : Nat) (h : Inv1E s x) : Inv1 (s.startJob fl x) := by
  unfold St.startJob
  simp only
  apply loopHead_inv1
  have h1 : Inv1E (s.put x { (s.jobs x) with state := .waiting, event := false, sleeping := false }) x :=
    inv1E_put_self s x _ rfl h
  have h2 : ∀ s' : St, Inv1E s' x →
      Inv1E (if (s'.jobs x).marker then s'.put x { (s'.jobs x) with state := .done } else s') x := by
    intro s' h'
    split
    · exact inv1E_put_self s' x _ (idle_sleeping h'.2) h'
    · exact h'
  apply h2
  split
  · exact inv1E_put_self _ x _ rfl h1
  · apply registerDeps_inv1E
    exact inv1E_put_self _ x _ rfl h1

theorem wake_inv1 (fl : Flags) (s : St) (x : Nat) (h : Inv1E s x) : Inv1 (s.runCb fl (.wake x)) := by
  simp only [St.runCb]
  have hs := idle_sleeping h.2
  split
  · refine inv1_put_final _ x _ _ _ h ?_ ?_ ?_ ?_
    · intro i hi; simp [hi, Ne.symm hi]
    · simp [pcKind]
    · simp [pcKind, slN, hs]
    · simp [pcKind]
  · apply loopHead_inv1
    exact inv1E_put_self s x _ hs h

theorem abortRelease_inv1E (fl : Flags) (s : St) (x : Nat) (h : Inv1E s x) : Inv1E (abortRelease fl s x) x := by
  unfold abortRelease; split
  · exact releaseAll_inv1E s x _ h
  · exact h

theorem enterTail_inv1 (fl : Flags) (r : St × Option Nat) (x : Nat) (hA : Inv1E r.1 x) :
    Inv1 (enterTail fl r x) := by
  obtain ⟨s1, fa⟩ := r
  unfold enterTail
  cases fa with
  | some d =>
    simp only
    have hc := check_inv1E fl _ x d x (abortRelease_inv1E fl s1 x hA)
    have hs := idle_sleeping hc.2
    refine inv1_put_final _ x _ _ _ hc ?_ ?_ ?_ ?_
    · intro i hi; simp [hi, Ne.symm hi]
    · simp [pcKind]
    · simp [pcKind, slN, hs]
    · simp [pcKind]
  | none =>
    simp only
    have hs := idle_sleeping hA.2
    simp only at hs
    refine inv1_put_final _ x _ _ _ hA ?_ ?_ ?_ ?_
    · intro i hi; simp [hi, Ne.symm hi]
    · simp [pcKind]
    · simp [pcKind, slN, hs]
    · simp [pcKind]

theorem abortTail_inv1 (fl : Flags) (s1 : St) (x : Nat) (hR : Inv1E s1 x) : Inv1 (abortTail fl s1 x) := by
  unfold abortTail
  simp only
  apply loopHead_inv1
  have hs := idle_sleeping hR.2
  have hw := eventSet_nosleep { (s1.jobs x) with state := .ready } hs
  split
  · simp only [hw.1, Bool.false_eq_true, if_false]
    exact inv1E_put_self s1 x _ hw.2 hR
  · simp only [Bool.false_eq_true, if_false]
    exact inv1E_put_self s1 x _ hs hR

theorem codeTail_inv1 (s1 : St) (x : Nat) (hR : Inv1E s1 x) : Inv1 (codeTail s1 x) := by
  unfold codeTail
  apply finish_inv1
  exact inv1E_put_self s1 x _ (idle_sleeping hR.2) hR

theorem doneStep_inv1 (s : St) (x : Nat) (h : Inv1E s x) : Inv1 (doneStep s x) := by
  unfold doneStep
  have hs := idle_sleeping h.2
  refine inv1_put_final _ x _ _ _ ?_ ?_ ?_ ?_ ?_
  · refine inv1E_plain (s := s) ((if s.waiter = .sleeping then [Cb.waiterRun] else []) ++
      (s.jobDeps x).map (fun (p : Nat × Nat) => Cb.check p.1 p.2)) rfl rfl rfl rfl ?_ h
    intro cb hcb
    simp only [List.mem_append] at hcb
    rcases hcb with hcb | hcb
    · split at hcb <;> simp at hcb
      subst hcb; trivial
    · exact plain_map_check _ cb hcb
  · intro i hi; simp [hi, Ne.symm hi]
  · simp [pcKind]
  · simp [pcKind, slN, hs]
  · simp [pcKind]

theorem resume_inv1 (fl : Flags) (s : St) (x : Nat) (h : Inv1E s x) (hk : pcKind (s.jobs x).pc = 3) :
    Inv1 (s.resume fl x) := by
  cases hp : (s.jobs x).pc with
  | lockEnter => rw [resume_lockEnter fl s x hp]; exact enterTail_inv1 fl _ x (acquireAll_inv1E s x _ 0 h)
  | lockExitAbort => rw [resume_lockExitAbort fl s x hp]; exact abortTail_inv1 fl _ x (releaseAll_inv1E s x _ h)
  | lockExitRun =>
    rw [resume_lockExitRun fl s x hp]
    have hs := idle_sleeping h.2
    refine inv1_put_final _ x _ _ _ h ?_ ?_ ?_ ?_
    · intro i hi; simp [hi, Ne.symm hi]
    · simp [pcKind]
    · simp [pcKind, slN, hs]
    · simp [pcKind]
  | codeWait => rw [resume_codeWait fl s x hp]; exact codeTail_inv1 _ x (releaseAll_inv1E s x _ h)
  | doneHandler => rw [resume_doneHandler fl s x hp]; exact doneStep_inv1 s x h
  | _ => simp [hp, pcKind] at hk



/-! ### frame: what no callback ever changes -/

/-- the submission-time constants of a job record. -/
def SameConst (jb jb' : Job) : Prop :=
  jb'.ident = jb.ident ∧ jb'.code = jb.code ∧ jb'.marker = jb.marker ∧
  jb'.deps.map (·.origin) = jb.deps.map (·.origin)

theorem SameConst.refl (jb : Job) : SameConst jb jb := ⟨rfl, rfl, rfl, rfl⟩
theorem SameConst.trans {a b c : Job} (h1 : SameConst a b) (h2 : SameConst b c) : SameConst a c :=
  ⟨h2.1.trans h1.1, h2.2.1.trans h1.2.1, h2.2.2.1.trans h1.2.2.1, h2.2.2.2.trans h1.2.2.2⟩

/-- `s'` differs from `s` at most in the dynamic part of job `x` and in the queues / counters. -/
def Frame (s s' : St) (x : Nat) : Prop :=
  s'.n = s.n ∧ s'.eff = s.eff ∧ s'.ntok = s.ntok ∧ s'.total = s.total ∧
  (∀ i, i ≠ x → s'.jobs i = s.jobs i) ∧ SameConst (s.jobs x) (s'.jobs x)

theorem Frame.refl (s : St) (x : Nat) : Frame s s x := ⟨rfl, rfl, rfl, rfl, fun _ _ => rfl, SameConst.refl _⟩
theorem Frame.trans {a b c : St} {x : Nat} (h1 : Frame a b x) (h2 : Frame b c x) : Frame a c x :=
  ⟨h2.1.trans h1.1, h2.2.1.trans h1.2.1, h2.2.2.1.trans h1.2.2.1, h2.2.2.2.1.trans h1.2.2.2.1,
   fun i hi => (h2.2.2.2.2.1 i hi).trans (h1.2.2.2.2.1 i hi), h1.2.2.2.2.2.trans h2.2.2.2.2.2⟩

/-- a state that agrees with `s` on `n, eff, ntok, total, jobs`. -/
theorem Frame.of_eq {s s' : St} (x : Nat) (h1 : s'.n = s.n) (h2 : s'.eff = s.eff) (h3 : s'.ntok = s.ntok)
    (h4 : s'.total = s.total) (h5 : s'.jobs = s.jobs) : Frame s s' x :=
  ⟨h1, h2, h3, h4, fun i _ => by rw [h5], by rw [h5]; exact SameConst.refl _⟩

theorem Frame.put (s : St) (x : Nat) (jb : Job) (cbs : List Cb) (ths : List (TK × Nat))
    (h : SameConst (s.jobs x) jb) : Frame s (s.put x jb cbs ths) x :=
  ⟨rfl, rfl, rfl, rfl, fun i hi => by simp [upd_ne _ _ hi], by simpa using h⟩

theorem set_cur_origins (l : List Dep) (d : Nat) (c : DS) :
    (l.set d { (l.getD d default) with cur := c }).map (·.origin) = l.map (·.origin) := by
  induction l generalizing d with
  | nil => simp
  | cons a l ih =>
    cases d with
    | zero => simp
    | succ d => simpa using ih d

theorem eventSet_const (jb : Job) : SameConst jb (eventSet jb).1 := by
  have := eventSet_frame jb
  exact ⟨this.2.2.2.2.2.1, this.2.2.2.1, this.2.2.2.2.1, by rw [this.2.2.2.2.2.2.2.2.1]⟩

theorem depChanged_const (fl : Flags) (jb : Job) (d : Nat) (st : DS) : SameConst jb (depChanged fl jb d st).1 := by
  have key : ∀ jb' : Job, jb'.deps = jb.deps → jb'.ident = jb.ident → jb'.code = jb.code → jb'.marker = jb.marker →
      SameConst jb { jb' with deps := jb'.deps.set d { (jb'.deps.getD d default) with cur := st } } := by
    intro jb' h1 h2 h3 h4
    refine ⟨h2, h3, h4, ?_⟩
    simp only [set_cur_origins, h1]
  unfold depChanged
  simp only
  split
  · exact SameConst.refl _
  · have e1 := fun jb => eventSet_frame jb
    split <;> split <;> apply key <;> simp [e1]

theorem check_frame (fl : Flags) (s : St) (j d : Nat) : Frame s (s.check fl j d) j := by
  unfold St.check
  exact Frame.put s j _ _ _ (depChanged_const fl _ d _)

theorem check_pc (fl : Flags) (s : St) (j d i : Nat) : ((s.check fl j d).jobs i).pc = (s.jobs i).pc := by
  unfold St.check
  by_cases hi : i = j
  · subst hi; simp [(depChanged_ctl fl _ d _).1]
  · simp [upd_ne _ _ hi]

/-- `Frame` for a different bystander: if only job `j` changed, then for `x ≠ j` … we keep it simple: any `x`. -/
theorem Frame.weaken {s s' : St} {j : Nat} (h : Frame s s' j) (x : Nat) (hx : x = j) : Frame s s' x := by
  subst hx; exact h

theorem regOne_frameF (s : St) (j d x : Nat) : Frame s (regOne s j d) x := by
  have f := regOne_frame s j d
  exact Frame.of_eq x f.2.2.2.1 f.2.2.2.2.2.2.2.2.2.2 (by unfold regOne; split <;> rfl) (by unfold regOne; split <;> rfl) f.1

theorem relOne_frameF (s : St) (j d x : Nat) : Frame s (relOne s j d) x := by
  have f := relOne_frame s j d
  exact Frame.of_eq x f.2.2.1 f.2.2.2.2.2.2.2.2.1 (by unfold relOne; split <;> rfl) (by unfold relOne; split <;> rfl) f.1

theorem acqOne_frameF (s : St) (x d : Nat) : Frame s (acqOne s x d) x := by
  unfold acqOne
  split
  · exact Frame.put s x _ _ _ ⟨rfl, rfl, rfl, rfl⟩
  · exact Frame.put _ x _ _ _ ⟨rfl, rfl, rfl, rfl⟩

theorem registerDeps_frame (fl : Flags) (s : St) (x k d : Nat) : Frame s (St.registerDeps fl s x k d) x :=
  registerDeps_ind (fun s' => Frame s s' x) fl x (d + k)
    (fun s' d _ h => h.trans (regOne_frameF s' x d x)) (fun s' d _ h => h.trans (check_frame fl s' x d)) k d s rfl (Frame.refl s x)

theorem releaseAll_frame (s : St) (x : Nat) (ds : List Nat) : Frame s (St.releaseAll s x ds) x :=
  releaseAll_ind (fun s' => Frame s s' x) x (fun _ => True)
    (fun s' d _ h => h.trans (relOne_frameF s' x d x))
    (fun s' h => h.trans (Frame.put s' x _ _ _ ⟨rfl, rfl, rfl, rfl⟩)) ds s (fun _ _ => trivial) (Frame.refl s x)

theorem acquireAll_frame (s : St) (x k d : Nat) : Frame s (St.acquireAll s x k d).1 x :=
  (acquireAll_ind (fun s' => Frame s s' x) x (d + k) (fun s' d _ _ h => h.trans (acqOne_frameF s' x d)) k d s rfl (Frame.refl s x)).1

theorem finish_frame (s : St) (x : Nat) : Frame s (s.finish x) x := by
  unfold St.finish
  simp only
  split
  · exact (Frame.of_eq (s := s) x rfl rfl rfl rfl rfl).trans (Frame.put _ x _ _ _ ⟨rfl, rfl, rfl, rfl⟩)
  · exact Frame.put _ x _ _ _ ⟨rfl, rfl, rfl, rfl⟩

theorem loopHead_frame (s : St) (x : Nat) : Frame s (s.loopHead x) x := by
  unfold St.loopHead
  simp only
  split
  · exact finish_frame s x
  · split
    · split <;> exact Frame.put _ x _ _ _ ⟨rfl, rfl, rfl, rfl⟩
    · exact Frame.put _ x _ _ _ ⟨rfl, rfl, rfl, rfl⟩

theorem startJob_frame (fl : Flags) (s : St) (x : Nat) : Frame s (s.startJob fl x) x := by
  unfold St.startJob
  simp only
  refine Frame.trans ?_ (loopHead_frame _ x)
  have h1 : Frame s (s.put x { (s.jobs x) with state := .waiting, event := false, sleeping := false }) x :=
    Frame.put s x _ _ _ ⟨rfl, rfl, rfl, rfl⟩
  have h2 : ∀ s' : St, Frame s s' x →
      Frame s (if (s'.jobs x).marker then s'.put x { (s'.jobs x) with state := .done } else s') x := by
    intro s' h'
    split
    · exact h'.trans (Frame.put s' x _ _ _ ⟨rfl, rfl, rfl, rfl⟩)
    · exact h'
  apply h2
  split
  · exact h1.trans (Frame.put _ x _ _ _ (by simp; exact ⟨rfl, rfl, rfl, rfl⟩))
  · refine Frame.trans (h1.trans (Frame.put _ x _ _ _ (by simp; exact ⟨rfl, rfl, rfl, rfl⟩))) (registerDeps_frame fl _ x _ _)



/-- the job a callback works on. -/
def target : Cb → Nat
  | .register j | .start j | .wake j | .resume j | .check j _ | .notifyCheck j _ => j
  | .waiterRun => 0

theorem abortRelease_frame (fl : Flags) (s : St) (x : Nat) : Frame s (abortRelease fl s x) x := by
  unfold abortRelease; split
  · exact releaseAll_frame s x _
  · exact Frame.refl s x

theorem enterTail_frame (fl : Flags) (s : St) (r : St × Option Nat) (x : Nat) (h : Frame s r.1 x) :
    Frame s (enterTail fl r x) x := by
  obtain ⟨s1, fa⟩ := r
  unfold enterTail
  cases fa with
  | some d => exact ((h.trans (abortRelease_frame fl s1 x)).trans (check_frame fl _ x d)).trans (Frame.put _ x _ _ _ ⟨rfl, rfl, rfl, rfl⟩)
  | none => exact h.trans (Frame.put _ x _ _ _ ⟨rfl, rfl, rfl, rfl⟩)

theorem abortTail_frame (fl : Flags) (s : St) (x : Nat) : Frame s (abortTail fl s x) x := by
  unfold abortTail
  simp only
  refine Frame.trans (Frame.put s x _ _ _ ?_) (loopHead_frame _ x)
  split
  · exact (show SameConst (s.jobs x) { (s.jobs x) with state := .ready } from ⟨rfl, rfl, rfl, rfl⟩).trans (eventSet_const _)
  · exact ⟨rfl, rfl, rfl, rfl⟩

theorem codeTail_frame (s : St) (x : Nat) : Frame s (codeTail s x) x := by
  unfold codeTail
  refine Frame.trans ?_ (finish_frame _ x)
  exact Frame.put s x _ _ _ ⟨rfl, rfl, rfl, rfl⟩

theorem doneStep_frame (s : St) (x : Nat) : Frame s (doneStep s x) x := by
  unfold doneStep
  exact (Frame.of_eq (s := s) x rfl rfl rfl rfl rfl).trans (Frame.put _ x _ _ _ ⟨rfl, rfl, rfl, rfl⟩)

theorem resume_frame (fl : Flags) (s : St) (x : Nat) : Frame s (s.resume fl x) x := by
  cases hp : (s.jobs x).pc with
  | lockEnter => rw [resume_lockEnter fl s x hp]; exact enterTail_frame fl s _ x (acquireAll_frame s x _ 0)
  | lockExitAbort => rw [resume_lockExitAbort fl s x hp]; exact (releaseAll_frame s x _).trans (abortTail_frame fl _ x)
  | lockExitRun => rw [resume_lockExitRun fl s x hp]; exact Frame.put s x _ _ _ ⟨rfl, rfl, rfl, rfl⟩
  | codeWait => rw [resume_codeWait fl s x hp]; exact (releaseAll_frame s x _).trans (codeTail_frame _ x)
  | doneHandler => rw [resume_doneHandler fl s x hp]; exact doneStep_frame s x
  | _ => rw [resume_other fl s x (by simp [hp, pcKind])]; exact Frame.refl s x

theorem register_frame (fl : Flags) (s : St) (j x : Nat) : Frame s (s.register fl j) x := by
  unfold St.register
  simp only
  split
  · split
    · split <;> exact Frame.of_eq x rfl rfl rfl rfl rfl
    · exact Frame.of_eq x rfl rfl rfl rfl rfl
  · exact Frame.of_eq x rfl rfl rfl rfl rfl

theorem waiterRun_frame (s : St) (x : Nat) : Frame s s.waiterRun x := by
  unfold St.waiterRun
  split <;> exact Frame.of_eq x rfl rfl rfl rfl rfl

theorem runCb_frame (fl : Flags) (s : St) (cb : Cb) : Frame s (s.runCb fl cb) (target cb) := by
  cases cb with
  | register j => exact register_frame fl s j j
  | start j => exact startJob_frame fl s j
  | wake j =>
    simp only [St.runCb, target]
    split
    · exact Frame.put s j _ _ _ ⟨rfl, rfl, rfl, rfl⟩
    · refine Frame.trans ?_ (loopHead_frame _ j)
      exact Frame.put s j _ _ _ ⟨rfl, rfl, rfl, rfl⟩
  | resume j => exact resume_frame fl s j
  | check j d => exact check_frame fl s j d
  | notifyCheck j d =>
    simp only [St.runCb, target]
    split
    · split
      · exact check_frame fl s j d
      · exact Frame.refl s j
    · exact check_frame fl s j d
  | waiterRun => exact waiterRun_frame s 0

/-! ### the control invariant: every callback, every event -/

theorem pop_plain {s : St} {cb : Cb} {rest : List Cb} (h : Inv1 s) (hr : s.ready = cb :: rest) (hp : plainCb cb) :
    Inv1 { s with ready := rest } := by
  intro i
  have hi := h i
  simp only [CtlAt, hr, cStart_cons, cWake_cons, cRes_cons] at hi ⊢
  cases cb <;> simp_all [plainCb]

theorem pop_start {s : St} {x : Nat} {rest : List Cb} (h : Inv1 s) (hr : s.ready = .start x :: rest) :
    Inv1E { s with ready := rest } x := by
  refine ⟨fun i hi => ?_, ?_⟩
  · have := h i
    have hxi : x ≠ i := Ne.symm hi
    simpa [CtlAt, hr, hxi] using this
  · have := h x
    simp only [CtlAt, hr, cStart_cons, cWake_cons, cRes_cons] at this
    simp only [Idle]
    grind

theorem pop_wake {s : St} {x : Nat} {rest : List Cb} (h : Inv1 s) (hr : s.ready = .wake x :: rest) :
    Inv1E { s with ready := rest } x := by
  refine ⟨fun i hi => ?_, ?_⟩
  · have := h i
    have hxi : x ≠ i := Ne.symm hi
    simpa [CtlAt, hr, hxi] using this
  · have := h x
    simp only [CtlAt, hr, cStart_cons, cWake_cons, cRes_cons] at this
    simp only [Idle]
    grind

theorem pop_resume {s : St} {x : Nat} {rest : List Cb} (h : Inv1 s) (hr : s.ready = .resume x :: rest) :
    Inv1E { s with ready := rest } x ∧ pcKind (s.jobs x).pc = 3 := by
  refine ⟨⟨fun i hi => ?_, ?_⟩, ?_⟩
  · have := h i
    have hxi : x ≠ i := Ne.symm hi
    simpa [CtlAt, hr, hxi] using this
  · have := h x
    simp only [CtlAt, hr, cStart_cons, cWake_cons, cRes_cons] at this
    simp only [Idle]
    grind
  · have := h x
    simp only [CtlAt, hr, cStart_cons, cWake_cons, cRes_cons] at this
    grind



theorem register_jobs (fl : Flags) (s : St) (j : Nat) :
    (s.register fl j).jobs = s.jobs ∧ (s.register fl j).ready = s.ready ∧ (s.register fl j).threads = s.threads
    ∧ (s.register fl j).n = s.n ∧ (s.register fl j).failed = s.failed ∧ (s.register fl j).waiter = s.waiter := by
  unfold St.register
  simp only
  split
  · split
    · split <;> simp
    · simp
  · simp

theorem waiterRun_jobs (s : St) :
    s.waiterRun.jobs = s.jobs ∧ s.waiterRun.ready = s.ready ∧ s.waiterRun.threads = s.threads
    ∧ s.waiterRun.n = s.n ∧ s.waiterRun.failed = s.failed ∧ s.waiterRun.unfinished = s.unfinished
    ∧ s.waiterRun.regResult = s.regResult := by
  unfold St.waiterRun
  split <;> simp

theorem notifyCheck_cases (fl : Flags) (s : St) (j d : Nat) :
    s.runCb fl (.notifyCheck j d) = s.check fl j d ∨ s.runCb fl (.notifyCheck j d) = s := by
  simp only [St.runCb]
  split
  · split
    · exact Or.inl rfl
    · exact Or.inr rfl
  · exact Or.inl rfl

/-- plain callbacks never move a program counter. -/
theorem plain_pc (fl : Flags) (s : St) (cb : Cb) (hp : plainCb cb) (i : Nat) :
    ((s.runCb fl cb).jobs i).pc = (s.jobs i).pc := by
  cases cb with
  | register j => simp only [St.runCb]; rw [(register_jobs fl s j).1]
  | check j d => exact check_pc fl s j d i
  | notifyCheck j d =>
    rcases notifyCheck_cases fl s j d with h | h <;> rw [h]
    exact check_pc fl s j d i
  | waiterRun => simp only [St.runCb]; rw [(waiterRun_jobs s).1]
  | _ => exact absurd hp (by simp [plainCb])

theorem inv1_same {s s' : St} (hj : s'.jobs = s.jobs) (ht : s'.threads = s.threads)
    (hr : s'.ready = s.ready) (hn : s'.n = s.n) (h : Inv1 s) : Inv1 s' :=
  inv1_plain [] hj ht (by rw [hr, List.append_nil]) hn (by simp) h

theorem runCb_inv1 (fl : Flags) (s : St) (cb : Cb) (rest : List Cb) (h : Inv1 s) (hr : s.ready = cb :: rest) :
    Inv1 (({ s with ready := rest } : St).runCb fl cb) := by
  cases cb with
  | register j =>
    have h0 := pop_plain h hr trivial
    have f := register_jobs fl { s with ready := rest } j
    exact inv1_same f.1 f.2.2.1 f.2.1 f.2.2.2.1 h0
  | start j => exact startJob_inv1 fl _ j (pop_start h hr)
  | wake j => exact wake_inv1 fl _ j (pop_wake h hr)
  | resume j =>
    have := pop_resume h hr
    exact resume_inv1 fl _ j this.1 this.2
  | check j d => exact check_inv1 fl _ j d (pop_plain h hr trivial)
  | notifyCheck j d =>
    have h0 := pop_plain h hr trivial
    rcases notifyCheck_cases fl { s with ready := rest } j d with e | e <;> rw [e]
    · exact check_inv1 fl _ j d h0
    · exact h0
  | waiterRun =>
    have h0 := pop_plain h hr trivial
    have f := waiterRun_jobs { s with ready := rest }
    exact inv1_same f.1 f.2.2.1 f.2.1 f.2.2.2.1 h0

theorem step_inv1 (fl : Flags) (s : St) (h : Inv1 s) : Inv1 (s.step fl) := by
  unfold St.step
  split
  · exact h
  · rename_i cb rest hr
    exact runCb_inv1 fl s cb rest h hr

/-- a job without coroutine keeps its program counter through any step. -/
theorem step_kind0 (fl : Flags) (s : St) (h : Inv1 s) (j : Nat) (hk : pcKind (s.jobs j).pc = 0) :
    ((s.step fl).jobs j).pc = (s.jobs j).pc := by
  unfold St.step
  split
  · rfl
  · rename_i cb rest hr
    have hj := h j
    simp only [CtlAt, hr, cStart_cons, cWake_cons, cRes_cons, hk] at hj
    by_cases hp : plainCb cb
    · exact plain_pc fl _ cb hp j
    · have hF := runCb_frame fl { s with ready := rest } cb
      have : j ≠ target cb := by
        intro e
        cases cb <;> simp [plainCb, target] at hp e <;> subst e <;> simp at hj
      rw [hF.2.2.2.2.1 j this]

theorem step_n (fl : Flags) (s : St) : (s.step fl).n = s.n := by
  unfold St.step
  split
  · rfl
  · rename_i cb rest hr
    exact (runCb_frame fl { s with ready := rest } cb).1

theorem steps_ind (P : St → Prop) (fl : Flags) (hstep : ∀ s, P s → P (s.step fl)) :
    ∀ k s, P s → P (St.steps fl s k) := by
  intro k
  induction k with
  | zero => intro s h; exact h
  | succ k ih => intro s h; exact ih _ (hstep s h)

/-- the record stored by `submit`. -/
def newJob (s : St) (ident : Nat) (deps : List Origin) (code : Nat) (marker : Bool) : Job :=
  { ident := ident, deps := deps.map (fun o => match o with
      | .job d => { origin := .job (s.eff d) : Dep }
      | o => { origin := o }), code := code, marker := marker }

/-- `submit`, first half: the record is stored and the registration callback queued. -/
def submitPre (s : St) (ident : Nat) (deps : List Origin) (code : Nat) (marker : Bool) : St :=
  { s with n := s.n + 1,
           jobs := upd s.jobs s.n (newJob s ident deps code marker),
           regResult := none, ready := s.ready ++ [Cb.register s.n] }

/-- `submit`, second half: after the registration ran, the task is created unless another job stands for it. -/
def submitPost (s : St) (j : Nat) : St :=
  match s.regResult with
  | some (some o) => { s with eff := upd s.eff j o }
  | _ => ({ s with eff := upd s.eff j j }).put j { (s.jobs j) with pc := .created } [.start j]

theorem apply_submit (fl : Flags) (s : St) (ident : Nat) (deps : List Origin) (code : Nat) (marker : Bool) :
    s.apply fl (.submit ident deps code marker)
      = submitPost (St.steps fl (submitPre s ident deps code marker) (s.ready.length + 1)) s.n := rfl

theorem submitPre_inv1 (s : St) (ident : Nat) (deps : List Origin) (code : Nat) (marker : Bool) (h : Inv1 s) :
    Inv1 (submitPre s ident deps code marker) := by
  intro i
  have hi := h i
  by_cases hin : i = s.n
  · subst hin
    have hk0 := hi.2.2.2 (Nat.le_refl _)
    simp only [CtlAt, hk0] at hi
    simp [slN] at hi
    simp [submitPre, newJob, CtlAt, pcKind, slN, plainCb]
    simp [hi]
  · simp [submitPre, newJob, CtlAt, upd_ne _ _ hin, plainCb] at hi ⊢
    refine ⟨hi.1, hi.2.1, hi.2.2.1, fun hle => hi.2.2.2 (by omega)⟩

theorem submitPost_inv1 (s2 : St) (j : Nat) (hI : Inv1 s2) (hk : pcKind (s2.jobs j).pc = 0) (hn : j < s2.n) :
    Inv1 (submitPost s2 j) := by
  unfold submitPost
  split
  · exact inv1_same rfl rfl rfl rfl hI
  · refine inv1_put_final _ j _ _ _ ?_ ?_ ?_ ?_ ?_
    · refine ⟨fun i _ => hI i, ?_⟩
      have := hI j
      simp only [CtlAt, hk] at this
      simp only [Idle]
      refine ⟨by simpa using this.1, by simpa using this.2.1, by simpa using this.2.2.1, hn⟩
    · intro i hi; simp [hi, Ne.symm hi]
    · simp [pcKind]
    · have := (hI j).2.1
      simp only [hk] at this
      simp [pcKind, slN] at this ⊢
      exact this.2
    · simp [pcKind]

theorem apply_inv1 (fl : Flags) (s : St) (ev : Ev) (h : Inv1 s) : Inv1 (s.apply fl ev) := by
  cases ev with
  | step => exact step_inv1 fl s h
  | wait => exact inv1_plain (s := s) [Cb.waiterRun] rfl rfl rfl rfl (by simp [plainCb]) h
  | deliver k =>
    simp only [St.apply]
    split
    · rename_i tk j hk
      intro i
      have hi := h i
      have e := cThr_eraseIdx i s.threads k (tk, j) hk
      simp only [CtlAt, cStart_append, cWake_append, cRes_append, cStart_cons, cWake_cons, cRes_cons,
        cStart_nil, cWake_nil, cRes_nil] at hi ⊢
      simp at hi ⊢
      simp only [e] at hi
      by_cases hji : j = i <;> simp [hji] at hi ⊢ <;> omega
    · exact h
  | submit ident deps code marker =>
    rw [apply_submit]
    have h1 : Inv1 (submitPre s ident deps code marker) ∧ pcKind ((submitPre s ident deps code marker).jobs s.n).pc = 0
        ∧ (submitPre s ident deps code marker).n = s.n + 1 :=
      ⟨submitPre_inv1 s ident deps code marker h, by simp [submitPre, newJob, pcKind], rfl⟩
    have h2 := steps_ind (fun s' => Inv1 s' ∧ pcKind (s'.jobs s.n).pc = 0 ∧ s'.n = s.n + 1) fl
      (fun s' hs' => ⟨step_inv1 fl s' hs'.1, by rw [step_kind0 fl s' hs'.1 _ hs'.2.1]; exact hs'.2.1,
        by rw [step_n]; exact hs'.2.2⟩) (s.ready.length + 1) _ h1
    exact submitPost_inv1 _ s.n h2.1 h2.2.1 (by rw [h2.2.2]; omega)

theorem init_inv1 (totals : List Nat) : Inv1 (St.init totals) := by
  intro i; simp [CtlAt, St.init, pcKind, slN]

theorem reachable_inv1 {fl : Flags} {totals : List Nat} {s : St} (h : Reachable fl totals s) : Inv1 s := by
  induction h with
  | init => exact init_inv1 totals
  | next _ _ ih => exact apply_inv1 fl _ _ ih



/-! ### record-local truthfulness invariant -/

def pcEarly : PC → Bool
  | .none | .created | .evtWait | .lockEnter | .lockExitAbort => true
  | _ => false
def pcRun : PC → Bool
  | .lockExitRun | .codeWait => true
  | _ => false
def pcEnd : PC → Bool
  | .doneHandler | .finished _ => true
  | _ => false

/-- what one job record says about itself, whatever the rest of the state. -/
def JLocal (jb : Job) : Prop :=
  (pcEnd jb.pc = true → jb.state.finished = true) ∧
  (∀ r, jb.pc = .finished r → jb.state = r) ∧
  (pcEarly jb.pc = true → jb.launches = 0) ∧
  (pcRun jb.pc = true → jb.launches = 1) ∧
  jb.launches ≤ 1 ∧
  (jb.state = .done → jb.marker = true ∨ (jb.launches = 1 ∧ jb.code = 0)) ∧
  (jb.marker = true → jb.launches = 0 ∧ (jb.pc = .none ∨ jb.pc = .created ∨ (jb.state = .done ∧ pcEnd jb.pc = true))) ∧
  (jb.launches = 1 → pcEnd jb.pc = true → jb.state = if jb.code = 0 then .done else .error) ∧
  (jb.state = .error → jb.launches = 0 → jb.failedDep = true)

/-- all that `dependencychanged` can do to the state of a record. -/
theorem depChanged_state (fl : Flags) (jb : Job) (d : Nat) (st : DS) :
    (depChanged fl jb d st).1.pc = jb.pc ∧ (depChanged fl jb d st).1.launches = jb.launches ∧
    (depChanged fl jb d st).1.code = jb.code ∧ (depChanged fl jb d st).1.marker = jb.marker ∧
    (depChanged fl jb d st).1.held = jb.held ∧
    (((depChanged fl jb d st).1.state = jb.state ∧ (depChanged fl jb d st).1.failedDep = jb.failedDep)
     ∨ (jb.state.finished = false ∧ st = .fail ∧ (depChanged fl jb d st).1.state = .error ∧ (depChanged fl jb d st).1.failedDep = true)
     ∨ ((depChanged fl jb d st).1.state = .ready ∧ (depChanged fl jb d st).1.unsat = 0 ∧
        (fl.readyGuarded = true → jb.state = .waiting ∧ (depChanged fl jb d st).1.failedDep = jb.failedDep))) := by
  have e := fun jb => eventSet_frame jb
  unfold depChanged
  simp only
  split
  · simp
  · split
    · rename_i hc1
      split
      · rename_i hc2
        simp only [e] at hc2 ⊢
        grind
      · simp only [e]
        grind
    · split
      · rename_i hc2
        simp only [e] at hc2 ⊢
        grind
      · simp

theorem depChanged_jlocal (fl : Flags) (hg : fl.readyGuarded = true) (jb : Job) (d : Nat) (st : DS) (h : JLocal jb) :
    JLocal (depChanged fl jb d st).1 := by
  have f := depChanged_state fl jb d st
  generalize (depChanged fl jb d st).1 = r at f
  obtain ⟨f1, f2, f3, f4, _, f5⟩ := f
  simp only [hg, true_implies] at f5
  unfold JLocal at h ⊢
  rw [f1, f2, f3, f4]
  rcases f5 with ⟨a, b⟩ | ⟨a, _, b, c⟩ | ⟨a, _, b, c⟩
  · rw [a, b]; exact h
  · rw [b, c]
    cases hs : jb.state <;> simp [hs, JS.finished] at a <;> simp_all [JS.finished] <;> grind [pcEnd, pcEarly, pcRun]
  · rw [a, c]
    simp_all [JS.finished]
    grind [pcEnd, pcEarly, pcRun]

theorem depChanged_final (fl : Flags) (hg : fl.readyGuarded = true) (jb : Job) (d : Nat) (st : DS)
    (h : jb.state.finished = true) :
    (depChanged fl jb d st).1.state = jb.state ∧ (depChanged fl jb d st).1.pc = jb.pc
    ∧ (depChanged fl jb d st).1.failedDep = jb.failedDep ∧ (depChanged fl jb d st).1.launches = jb.launches := by
  have f := depChanged_state fl jb d st
  generalize (depChanged fl jb d st).1 = r at f
  obtain ⟨f1, f2, f3, f4, _, f5⟩ := f
  simp only [hg, true_implies] at f5
  rcases f5 with ⟨a, b⟩ | ⟨a, _⟩ | ⟨_, _, a, _⟩
  · exact ⟨a, f1, b, f2⟩
  · rw [h] at a; cases a
  · rw [a] at h; cases h



/-- the record written by `loopHead`. -/
def loopHeadJ (jb : Job) : Job :=
  if jb.state.finished then { jb with pc := .doneHandler }
  else if jb.event then
    if jb.state = .ready then { jb with event := false, pc := .lockEnter }
    else { jb with event := false, pc := .evtWait, sleeping := true }
  else { jb with pc := .evtWait, sleeping := true }

theorem finish_job (s : St) (x : Nat) : (s.finish x).jobs x = { (s.jobs x) with pc := .doneHandler } := by
  unfold St.finish; simp only; split <;> simp

theorem loopHead_job (s : St) (x : Nat) : (s.loopHead x).jobs x = loopHeadJ (s.jobs x) := by
  unfold St.loopHead loopHeadJ
  simp only
  split
  · exact finish_job s x
  · split
    · split <;> simp
    · simp

theorem check_job (fl : Flags) (s : St) (j d : Nat) :
    (s.check fl j d).jobs j = (depChanged fl (s.jobs j) d (s.status ((s.jobs j).deps.getD d default).origin)).1 := by
  unfold St.check; simp

theorem check_job_ne (fl : Flags) (s : St) (j d i : Nat) (h : i ≠ j) : (s.check fl j d).jobs i = s.jobs i := by
  unfold St.check; simp [upd_ne _ _ h]

/-- preconditions under which entering the final segment keeps the record truthful. -/
def FinOK (jb : Job) : Prop :=
  jb.state.finished = true ∧ (jb.marker = true → jb.state = .done) ∧
  (jb.launches = 1 → jb.state = if jb.code = 0 then .done else .error)

theorem jlocal_doneHandler (jb : Job) (h : JLocal jb) (hf : FinOK jb) : JLocal { jb with pc := .doneHandler } := by
  unfold JLocal FinOK at *
  simp only [pcEnd, pcEarly, pcRun]
  grind

theorem loopHeadJ_jlocal (jb : Job) (h : JLocal jb)
    (hpc : jb.pc = .created ∨ jb.pc = .evtWait ∨ jb.pc = .lockExitAbort)
    (hm : jb.marker = true → jb.state = .done) : JLocal (loopHeadJ jb) := by
  have hl : jb.launches = 0 := h.2.2.1 (by rcases hpc with e | e | e <;> simp [e, pcEarly])
  unfold loopHeadJ
  split
  · rename_i hf
    exact jlocal_doneHandler jb h ⟨hf, hm, by omega⟩
  · rename_i hf
    have hm' : jb.marker = false := by
      cases hmk : jb.marker
      · rfl
      · rw [hm hmk] at hf; simp [JS.finished] at hf
    unfold JLocal at h ⊢
    split
    · split
      · simp only [pcEnd, pcEarly, pcRun]; grind
      · simp only [pcEnd, pcEarly, pcRun]; grind
    · simp only [pcEnd, pcEarly, pcRun]; grind

theorem check_jl (fl : Flags) (hg : fl.readyGuarded = true) (s : St) (j d i : Nat) (h : JLocal (s.jobs i)) :
    JLocal ((s.check fl j d).jobs i) := by
  by_cases hi : i = j
  · subst hi; rw [check_job]; exact depChanged_jlocal fl hg _ d _ h
  · rw [check_job_ne _ _ _ _ _ hi]; exact h

theorem startJob_jl (fl : Flags) (hg : fl.readyGuarded = true) (s : St) (x : Nat) (h : JLocal (s.jobs x))
    (hpc : (s.jobs x).pc = .created) : JLocal ((s.startJob fl x).jobs x) := by
  unfold St.startJob
  simp only
  rw [loopHead_job]
  -- invariant of the first segment
  have key : ∀ s' : St, (JLocal (s'.jobs x) ∧ (s'.jobs x).pc = .created) →
      JLocal (loopHeadJ ((if (s'.jobs x).marker then s'.put x { (s'.jobs x) with state := .done } else s').jobs x)) := by
    intro s' ⟨hj, hp⟩
    split
    · rename_i hm
      simp only [put_jobs, upd_same]
      refine loopHeadJ_jlocal _ ?_ (Or.inl hp) (fun _ => rfl)
      unfold JLocal at hj ⊢
      simp only [hp, pcEnd, pcEarly, pcRun] at hj ⊢
      grind
    · rename_i hm
      exact loopHeadJ_jlocal _ hj (Or.inl hp) (fun h => absurd h hm)
  apply key
  have h1 : JLocal { (s.jobs x) with state := JS.waiting, event := false, sleeping := false } := by
    unfold JLocal at h ⊢
    simp only [hpc, pcEnd, pcEarly, pcRun] at h ⊢
    grind
  split
  · simp only [put_jobs, upd_same]
    refine ⟨?_, hpc⟩
    unfold JLocal at h ⊢
    simp only [hpc, pcEnd, pcEarly, pcRun] at h ⊢
    grind
  · refine registerDeps_ind (fun s' => JLocal (s'.jobs x) ∧ (s'.jobs x).pc = .created) fl x _
      (fun s' d _ h' => by rw [(regOne_frame s' x d).1]; exact h')
      (fun s' d _ h' => ⟨check_jl fl hg s' x d x h'.1, by rw [check_pc]; exact h'.2⟩) _ 0 _ (Nat.zero_add _) ?_
    simp only [put_jobs, upd_same]
    refine ⟨?_, hpc⟩
    unfold JLocal at h ⊢
    simp only [hpc, pcEnd, pcEarly, pcRun] at h ⊢
    grind



theorem wake_jl (fl : Flags) (s : St) (x : Nat) (h : JLocal (s.jobs x))
    (hpc : (s.jobs x).pc = .evtWait) : JLocal (((s.runCb fl (.wake x))).jobs x) := by
  have hm' : (s.jobs x).marker = false := by
    cases hmk : (s.jobs x).marker
    · rfl
    · have := (h.2.2.2.2.2.2.1 hmk).2
      simp [hpc, pcEnd] at this
  simp only [St.runCb]
  split
  · simp only [put_jobs, upd_same]
    unfold JLocal at h ⊢
    simp only [hpc, pcEnd, pcEarly, pcRun] at h ⊢
    grind
  · rw [loopHead_job]
    simp only [put_jobs, upd_same]
    refine loopHeadJ_jlocal _ ?_ (Or.inr (Or.inl hpc)) (by simp [hm'])
    unfold JLocal at h ⊢
    simp only [hpc, pcEnd, pcEarly, pcRun] at h ⊢
    grind

/-- job `x`'s record after `releaseAll` only lost its `held` list. -/
theorem releaseAll_job (s : St) (x : Nat) (ds : List Nat) :
    (St.releaseAll s x ds).jobs x = { (s.jobs x) with held := [] } := by
  induction ds generalizing s with
  | nil => simp [St.releaseAll]
  | cons d ds ih => rw [releaseAll_cons, ih, (relOne_frame s x d).1]

/-- job `x`'s record after `acquireAll` only gained entries in `held`. -/
theorem acquireAll_job (s : St) (x k d : Nat) :
    ∃ hl, ((St.acquireAll s x k d).1.jobs x) = { (s.jobs x) with held := hl } :=
  (acquireAll_ind (fun s' => ∃ hl, (s'.jobs x) = { (s.jobs x) with held := hl }) x (d + k)
    (fun s' d _ _ h => by
      obtain ⟨hl, e⟩ := h
      unfold acqOne
      split <;> exact ⟨hl ++ [d], by simp [e]⟩) k d s rfl ⟨(s.jobs x).held, rfl⟩).1

theorem jlocal_held (jb : Job) (hl : List Nat) (h : JLocal jb) : JLocal { jb with held := hl } := h

theorem abortRelease_job (fl : Flags) (s : St) (x : Nat) :
    ∃ hl, (abortRelease fl s x).jobs x = { (s.jobs x) with held := hl } := by
  unfold abortRelease; split
  · exact ⟨[], releaseAll_job s x _⟩
  · exact ⟨(s.jobs x).held, rfl⟩

theorem enterTail_jl (fl : Flags) (hg : fl.readyGuarded = true) (r : St × Option Nat) (x : Nat)
    (h : JLocal (r.1.jobs x)) (hpc : (r.1.jobs x).pc = .lockEnter) : JLocal ((enterTail fl r x).jobs x) := by
  obtain ⟨s1, fa⟩ := r
  unfold enterTail
  cases fa with
  | some d =>
    simp only [put_jobs, upd_same]
    obtain ⟨hl, e⟩ := abortRelease_job fl s1 x
    have hc := check_jl fl hg (abortRelease fl s1 x) x d x (by rw [e]; exact h)
    have hp : (((abortRelease fl s1 x).check fl x d).jobs x).pc = .lockEnter := by rw [check_pc, e]; exact hpc
    generalize ((abortRelease fl s1 x).check fl x d).jobs x = jb at hc hp
    unfold JLocal at hc ⊢
    simp only [hp, pcEnd, pcEarly, pcRun] at hc ⊢
    grind
  | none =>
    simp only [put_jobs, upd_same]
    simp only at h hpc
    generalize s1.jobs x = jb at h hpc
    unfold JLocal at h ⊢
    simp only [hpc, pcEnd, pcEarly, pcRun] at h ⊢
    grind

theorem abortTail_jl (fl : Flags) (s1 : St) (x : Nat) (h : JLocal (s1.jobs x))
    (hpc : (s1.jobs x).pc = .lockExitAbort) : JLocal ((abortTail fl s1 x).jobs x) := by
  unfold abortTail
  simp only
  rw [loopHead_job]
  simp only [put_jobs, upd_same]
  have hm' : (s1.jobs x).marker = false := by
    cases hmk : (s1.jobs x).marker
    · rfl
    · have := (h.2.2.2.2.2.2.1 hmk).2
      simp [hpc, pcEnd] at this
  have e := eventSet_frame { (s1.jobs x) with state := JS.ready }
  have base : ∀ st : JS, st = .waiting ∨ st = .ready → JLocal { (s1.jobs x) with state := st } := by
    intro st hst
    unfold JLocal at h ⊢
    simp only [hpc, pcEnd, pcEarly, pcRun] at h ⊢
    grind
  split
  · refine loopHeadJ_jlocal _ ?_ (Or.inr (Or.inr (by rw [e.1]; exact hpc))) (by rw [e.2.2.2.2.1]; simp [hm'])
    have b := base .ready (Or.inr rfl)
    unfold JLocal at b ⊢
    simp only [e] at b ⊢
    exact b
  · exact loopHeadJ_jlocal _ (base .waiting (Or.inl rfl)) (Or.inr (Or.inr hpc)) (by simp [hm'])

theorem codeTail_jl (s1 : St) (x : Nat) (h : JLocal (s1.jobs x))
    (hpc : (s1.jobs x).pc = .codeWait) : JLocal ((codeTail s1 x).jobs x) := by
  unfold codeTail
  rw [finish_job]
  simp only [put_jobs, upd_same]
  generalize s1.jobs x = jb at h hpc
  unfold JLocal at h ⊢
  simp only [hpc, pcEnd, pcEarly, pcRun] at h ⊢
  grind [JS.finished]

theorem doneStep_jl (s : St) (x : Nat) (h : JLocal (s.jobs x))
    (hpc : (s.jobs x).pc = .doneHandler) : JLocal ((doneStep s x).jobs x) := by
  unfold doneStep
  simp only [put_jobs, upd_same]
  generalize s.jobs x = jb at h hpc
  unfold JLocal at h ⊢
  simp only [hpc, pcEnd, pcEarly, pcRun] at h ⊢
  grind

theorem resume_jl (fl : Flags) (hg : fl.readyGuarded = true) (s : St) (x : Nat) (h : JLocal (s.jobs x)) :
    JLocal ((s.resume fl x).jobs x) := by
  cases hp : (s.jobs x).pc with
  | lockEnter =>
    rw [resume_lockEnter fl s x hp]
    obtain ⟨hl, e⟩ := acquireAll_job s x (s.jobs x).deps.length 0
    exact enterTail_jl fl hg _ x (by rw [e]; exact h) (by rw [e]; exact hp)
  | lockExitAbort =>
    rw [resume_lockExitAbort fl s x hp]
    exact abortTail_jl fl _ x (by rw [releaseAll_job]; exact h) (by rw [releaseAll_job]; exact hp)
  | lockExitRun =>
    rw [resume_lockExitRun fl s x hp]
    simp only [put_jobs, upd_same]
    generalize s.jobs x = jb at h hp
    unfold JLocal at h ⊢
    simp only [hp, pcEnd, pcEarly, pcRun] at h ⊢
    grind
  | codeWait =>
    rw [resume_codeWait fl s x hp]
    exact codeTail_jl _ x (by rw [releaseAll_job]; exact h) (by rw [releaseAll_job]; exact hp)
  | doneHandler => rw [resume_doneHandler fl s x hp]; exact doneStep_jl s x h hp
  | _ => rw [resume_other fl s x (by simp [hp, pcKind])]; exact h



theorem pcKind_one {pc : PC} (h : pcKind pc = 1) : pc = .created := by cases pc <;> simp [pcKind] at h ⊢
theorem pcKind_two {pc : PC} (h : pcKind pc = 2) : pc = .evtWait := by cases pc <;> simp [pcKind] at h ⊢

theorem head_start_pc {s : St} {x : Nat} {rest : List Cb} (h : Inv1 s) (hr : s.ready = .start x :: rest) :
    (s.jobs x).pc = .created := by
  apply pcKind_one
  have := (h x).1
  simp only [hr, cStart_cons] at this
  grind

theorem head_wake_pc {s : St} {x : Nat} {rest : List Cb} (h : Inv1 s) (hr : s.ready = .wake x :: rest) :
    (s.jobs x).pc = .evtWait := by
  apply pcKind_two
  have := (h x).2.1
  simp only [hr, cWake_cons] at this
  grind

/-- every record is truthful about itself. -/
def JL (s : St) : Prop := ∀ i, JLocal (s.jobs i)

theorem runCb_jl (fl : Flags) (hg : fl.readyGuarded = true) (s : St) (cb : Cb) (rest : List Cb) (hI : Inv1 s)
    (hr : s.ready = cb :: rest) (h : JL s) : JL (({ s with ready := rest } : St).runCb fl cb) := by
  intro i
  have hF := runCb_frame fl { s with ready := rest } cb
  by_cases hi : i = target cb
  · subst hi
    cases cb with
    | register j => simp only [St.runCb]; rw [(register_jobs fl _ j).1]; exact h _
    | start j => exact startJob_jl fl hg _ j (h j) (head_start_pc (s := s) hI hr)
    | wake j => exact wake_jl fl _ j (h j) (head_wake_pc (s := s) hI hr)
    | resume j => exact resume_jl fl hg _ j (h j)
    | check j d => exact check_jl fl hg _ j d j (h j)
    | notifyCheck j d =>
      rcases notifyCheck_cases fl { s with ready := rest } j d with e | e <;> rw [e]
      · exact check_jl fl hg _ j d j (h j)
      · exact h j
    | waiterRun => simp only [St.runCb]; rw [(waiterRun_jobs _).1]; exact h _
  · rw [hF.2.2.2.2.1 i hi]; exact h i

theorem step_jl (fl : Flags) (hg : fl.readyGuarded = true) (s : St) (hI : Inv1 s) (h : JL s) : JL (s.step fl) := by
  unfold St.step
  split
  · exact h
  · rename_i cb rest hr
    exact runCb_jl fl hg s cb rest hI hr h

/-- jobs not yet submitted are blank. -/
def InvN (s : St) : Prop := ∀ i, s.n ≤ i → (s.jobs i).pc = .none

/-- first layer of the invariant: control tokens, truthful records, blank future records. -/
structure InvA (s : St) : Prop where
  ctl : Inv1 s
  loc : JL s
  blank : InvN s

theorem step_invA (fl : Flags) (hg : fl.readyGuarded = true) (s : St) (h : InvA s) : InvA (s.step fl) :=
  ⟨step_inv1 fl s h.ctl, step_jl fl hg s h.ctl h.loc, fun i hi => by
    rw [step_n] at hi
    have := h.blank i hi
    rw [step_kind0 fl s h.ctl i (by rw [this]; rfl)]; exact this⟩

theorem submitPre_jobs_ne (s : St) (ident : Nat) (deps : List Origin) (code : Nat) (marker : Bool) (i : Nat)
    (h : i ≠ s.n) : (submitPre s ident deps code marker).jobs i = s.jobs i := by
  simp [submitPre, newJob, upd_ne _ _ h]

theorem submitPost_jobs_ne (s : St) (j i : Nat) (h : i ≠ j) : (submitPost s j).jobs i = s.jobs i := by
  unfold submitPost; split <;> simp [upd_ne _ _ h]

theorem submitPost_n (s : St) (j : Nat) : (submitPost s j).n = s.n := by
  unfold submitPost; split <;> simp

theorem steps_n (fl : Flags) (s : St) (k : Nat) : (St.steps fl s k).n = s.n :=
  steps_ind (fun s' => s'.n = s.n) fl (fun s' h => by rw [step_n]; exact h) k s rfl

/-- inside `submit`: the new record stays untouched until `submitPost`. -/
theorem steps_invA (fl : Flags) (hg : fl.readyGuarded = true) (j : Nat) (k : Nat) (s : St)
    (h : InvA s ∧ (s.jobs j).pc = .none) :
    InvA (St.steps fl s k) ∧ ((St.steps fl s k).jobs j).pc = .none :=
  steps_ind (fun s' => InvA s' ∧ (s'.jobs j).pc = .none) fl
    (fun s' hs' => ⟨step_invA fl hg s' hs'.1, by
      rw [step_kind0 fl s' hs'.1.ctl j (by rw [hs'.2]; rfl)]; exact hs'.2⟩) k s h

theorem submitPre_invA (s : St) (ident : Nat) (deps : List Origin) (code : Nat) (marker : Bool) (h : InvA s) :
    InvA (submitPre s ident deps code marker) := by
  refine ⟨submitPre_inv1 s ident deps code marker h.ctl, fun i => ?_, fun i hi => ?_⟩
  · by_cases hi : i = s.n
    · subst hi
      simp only [submitPre, newJob, upd_same]
      unfold JLocal
      simp [pcEnd, pcEarly, pcRun]
    · rw [submitPre_jobs_ne _ _ _ _ _ _ hi]; exact h.loc i
  · have hi' : s.n + 1 ≤ i := hi
    rw [submitPre_jobs_ne _ _ _ _ _ _ (by omega)]
    exact h.blank i (by omega)

theorem submitPost_invA (s2 : St) (j : Nat) (h : InvA s2) (hpc : (s2.jobs j).pc = .none) (hn : j < s2.n) :
    InvA (submitPost s2 j) := by
  refine ⟨submitPost_inv1 s2 j h.ctl (by rw [hpc]; rfl) hn, fun i => ?_, fun i hi => ?_⟩
  · by_cases hi : i = j
    · subst hi
      have hj := h.loc i
      unfold submitPost
      split
      · exact hj
      · simp only [put_jobs, upd_same]
        generalize s2.jobs i = jb at hj hpc
        unfold JLocal at hj ⊢
        simp only [hpc, pcEnd, pcEarly, pcRun] at hj ⊢
        grind
    · rw [submitPost_jobs_ne _ _ _ hi]; exact h.loc i
  · rw [submitPost_n] at hi
    rw [submitPost_jobs_ne _ _ _ (by omega)]
    exact h.blank i hi

theorem apply_invA (fl : Flags) (hg : fl.readyGuarded = true) (s : St) (ev : Ev) (h : InvA s) :
    InvA (s.apply fl ev) := by
  cases ev with
  | step => exact step_invA fl hg s h
  | wait => exact ⟨apply_inv1 fl s .wait h.ctl, h.loc, h.blank⟩
  | deliver k =>
    refine ⟨apply_inv1 fl s (.deliver k) h.ctl, ?_, ?_⟩ <;> simp only [St.apply] <;> split
    · exact h.loc
    · exact h.loc
    · exact h.blank
    · exact h.blank
  | submit ident deps code marker =>
    rw [apply_submit]
    have h1 := steps_invA fl hg s.n (s.ready.length + 1) _
      ⟨submitPre_invA s ident deps code marker h, by simp [submitPre, newJob]⟩
    exact submitPost_invA _ s.n h1.1 h1.2 (by rw [steps_n]; simp [submitPre, newJob])

theorem init_invA (totals : List Nat) : InvA (St.init totals) :=
  ⟨init_inv1 totals, fun i => by simp [St.init, JLocal, pcEnd, pcEarly, pcRun], fun i _ => rfl⟩

theorem reachable_invA {fl : Flags} (hg : fl.readyGuarded = true) {totals : List Nat} {s : St}
    (h : Reachable fl totals s) : InvA s := by
  induction h with
  | init => exact init_invA totals
  | next _ _ ih => exact apply_invA fl hg _ _ ih

/-! ### stability of a returned coroutine -/

/-- a job whose coroutine does not exist (never scheduled, or returned) keeps its program counter through any event,
    provided it was already submitted. -/
theorem apply_kind0 (fl : Flags) (hg : fl.readyGuarded = true) (s : St) (ev : Ev) (h : InvA s) (j : Nat)
    (hj : j < s.n) (hk : pcKind (s.jobs j).pc = 0) : ((s.apply fl ev).jobs j).pc = (s.jobs j).pc := by
  cases ev with
  | step => exact step_kind0 fl s h.ctl j hk
  | wait => rfl
  | deliver k => simp only [St.apply]; split <;> rfl
  | submit ident deps code marker =>
    rw [apply_submit, submitPost_jobs_ne _ _ _ (by omega)]
    have hne : j ≠ s.n := by omega
    have h0 := submitPre_invA s ident deps code marker h
    have := steps_ind (fun s' => InvA s' ∧ (s'.jobs j).pc = (s.jobs j).pc) fl
      (fun s' hs' => ⟨step_invA fl hg s' hs'.1, by
        rw [step_kind0 fl s' hs'.1.ctl j (by rw [hs'.2]; exact hk)]; exact hs'.2⟩)
      (s.ready.length + 1) _ ⟨h0, by rw [submitPre_jobs_ne _ _ _ _ _ _ hne]⟩
    exact this.2



/-! ### second frame: counters and queue growth -/

def isReg : Cb → Bool
  | .register _ => true
  | _ => false

/-- number of registration callbacks in a queue. -/
def nReg (l : List Cb) : Nat := l.countP isReg

@[simp] theorem nReg_nil : nReg [] = 0 := rfl
@[simp] theorem nReg_append (l m : List Cb) : nReg (l ++ m) = nReg l + nReg m := by simp [nReg]
@[simp] theorem nReg_cons (cb : Cb) (l : List Cb) : nReg (cb :: l) = nReg l + (if isReg cb then 1 else 0) := by
  simp [nReg, List.countP_cons]
theorem nReg_map_check (l : List (Nat × Nat)) : nReg (l.map (fun (p : Nat × Nat) => Cb.check p.1 p.2)) = 0 := by
  simp only [nReg, List.countP_eq_zero, List.mem_map]
  rintro cb ⟨p, _, rfl⟩; simp [isReg]
theorem nReg_map_notify (l : List (Nat × Nat)) : nReg (l.map (fun (p : Nat × Nat) => Cb.notifyCheck p.1 p.2)) = 0 := by
  simp only [nReg, List.countP_eq_zero, List.mem_map]
  rintro cb ⟨p, _, rfl⟩; simp [isReg]

theorem nReg_wake (b : Bool) (x : Nat) : nReg (if b = true then [Cb.wake x] else []) = 0 := by
  cases b <;> simp [isReg]

/-- `s'` has the same counters as `s`, and its queue is the queue of `s` plus callbacks that are not registrations. -/
def FrameQ (s s' : St) : Prop :=
  s'.unfinished = s.unfinished ∧ s'.regResult = s.regResult ∧ s'.registry = s.registry ∧
  ∃ new, s'.ready = s.ready ++ new ∧ nReg new = 0

theorem FrameQ.refl (s : St) : FrameQ s s := ⟨rfl, rfl, rfl, [], by simp, rfl⟩
theorem FrameQ.trans {a b c : St} (h1 : FrameQ a b) (h2 : FrameQ b c) : FrameQ a c := by
  obtain ⟨a1, a2, a3, n1, e1, z1⟩ := h1
  obtain ⟨b1, b2, b3, n2, e2, z2⟩ := h2
  exact ⟨b1.trans a1, b2.trans a2, b3.trans a3, n1 ++ n2, by rw [e2, e1, List.append_assoc], by simp [z1, z2]⟩

theorem FrameQ.of_eq {s s' : St} (h1 : s'.unfinished = s.unfinished) (h2 : s'.regResult = s.regResult)
    (h3 : s'.registry = s.registry) (h4 : s'.ready = s.ready) : FrameQ s s' :=
  ⟨h1, h2, h3, [], by simp [h4], rfl⟩

theorem FrameQ.put (s : St) (x : Nat) (jb : Job) (cbs : List Cb) (ths : List (TK × Nat)) (h : nReg cbs = 0) :
    FrameQ s (s.put x jb cbs ths) := ⟨rfl, rfl, rfl, cbs, rfl, h⟩

theorem check_frameQ (fl : Flags) (s : St) (j d : Nat) : FrameQ s (s.check fl j d) := by
  unfold St.check
  refine FrameQ.put s j _ _ _ ?_
  split <;> simp [isReg]

theorem regOne_frameQ (s : St) (j d : Nat) : FrameQ s (regOne s j d) := by
  have f := regOne_frame s j d
  exact FrameQ.of_eq f.2.2.2.2.1 f.2.2.2.2.2.2.2.1 f.2.2.2.2.2.2.2.2.2.1 f.2.1

theorem relOne_frameQ (s : St) (j d : Nat) : FrameQ s (relOne s j d) := by
  unfold relOne
  split
  · exact FrameQ.refl s
  · exact ⟨rfl, rfl, rfl, _, rfl, nReg_map_notify _⟩

theorem acqOne_frameQ (s : St) (x d : Nat) : FrameQ s (acqOne s x d) := by
  unfold acqOne
  split
  · exact FrameQ.put s x _ _ _ rfl
  · exact (FrameQ.of_eq (s := s) rfl rfl rfl rfl).trans (FrameQ.put _ x _ _ _ rfl)

theorem registerDeps_frameQ (fl : Flags) (s : St) (x k d : Nat) : FrameQ s (St.registerDeps fl s x k d) :=
  registerDeps_ind (fun s' => FrameQ s s') fl x (d + k)
    (fun s' d _ h => h.trans (regOne_frameQ s' x d)) (fun s' d _ h => h.trans (check_frameQ fl s' x d)) k d s rfl (FrameQ.refl s)

theorem releaseAll_frameQ (s : St) (x : Nat) (ds : List Nat) : FrameQ s (St.releaseAll s x ds) :=
  releaseAll_ind (fun s' => FrameQ s s') x (fun _ => True)
    (fun s' d _ h => h.trans (relOne_frameQ s' x d))
    (fun s' h => h.trans (FrameQ.put s' x _ _ _ rfl)) ds s (fun _ _ => trivial) (FrameQ.refl s)

theorem acquireAll_frameQ (s : St) (x k d : Nat) : FrameQ s (St.acquireAll s x k d).1 :=
  (acquireAll_ind (fun s' => FrameQ s s') x (d + k) (fun s' d _ _ h => h.trans (acqOne_frameQ s' x d)) k d s rfl (FrameQ.refl s)).1

theorem finish_frameQ (s : St) (x : Nat) : FrameQ s (s.finish x) := by
  unfold St.finish
  simp only
  split
  · exact (FrameQ.of_eq (s := s) rfl rfl rfl rfl).trans (FrameQ.put _ x _ _ _ rfl)
  · exact FrameQ.put _ x _ _ _ rfl

theorem loopHead_frameQ (s : St) (x : Nat) : FrameQ s (s.loopHead x) := by
  unfold St.loopHead
  simp only
  split
  · exact finish_frameQ s x
  · split
    · split <;> exact FrameQ.put _ x _ _ _ rfl
    · exact FrameQ.put _ x _ _ _ rfl

theorem startJob_frameQ (fl : Flags) (s : St) (x : Nat) : FrameQ s (s.startJob fl x) := by
  unfold St.startJob
  simp only
  refine FrameQ.trans ?_ (loopHead_frameQ _ x)
  have h1 : FrameQ s (s.put x { (s.jobs x) with state := .waiting, event := false, sleeping := false }) :=
    FrameQ.put s x _ _ _ rfl
  have h2 : ∀ s' : St, FrameQ s s' →
      FrameQ s (if (s'.jobs x).marker then s'.put x { (s'.jobs x) with state := .done } else s') := by
    intro s' h'
    split
    · exact h'.trans (FrameQ.put s' x _ _ _ rfl)
    · exact h'
  apply h2
  split
  · exact h1.trans (FrameQ.put _ x _ _ _ rfl)
  · exact (h1.trans (FrameQ.put _ x _ _ _ rfl)).trans (registerDeps_frameQ fl _ x _ _)

theorem abortRelease_frameQ (fl : Flags) (s : St) (x : Nat) : FrameQ s (abortRelease fl s x) := by
  unfold abortRelease; split
  · exact releaseAll_frameQ s x _
  · exact FrameQ.refl s

theorem enterTail_frameQ (fl : Flags) (s : St) (r : St × Option Nat) (x : Nat) (h : FrameQ s r.1) :
    FrameQ s (enterTail fl r x) := by
  obtain ⟨s1, fa⟩ := r
  unfold enterTail
  cases fa with
  | some d => exact ((h.trans (abortRelease_frameQ fl s1 x)).trans (check_frameQ fl _ x d)).trans (FrameQ.put _ x _ _ _ rfl)
  | none => exact h.trans (FrameQ.put _ x _ _ _ rfl)

theorem abortTail_frameQ (fl : Flags) (s : St) (x : Nat) : FrameQ s (abortTail fl s x) := by
  unfold abortTail
  simp only
  refine FrameQ.trans (FrameQ.put s x _ _ _ ?_) (loopHead_frameQ _ x)
  exact nReg_wake _ x

theorem codeTail_frameQ (s : St) (x : Nat) : FrameQ s (codeTail s x) := by
  unfold codeTail
  refine FrameQ.trans ?_ (finish_frameQ _ x)
  exact FrameQ.put s x _ _ _ rfl

/-- `resume` at any program counter but `doneHandler`. -/
theorem resume_frameQ (fl : Flags) (s : St) (x : Nat) (hnd : (s.jobs x).pc ≠ .doneHandler) :
    FrameQ s (s.resume fl x) := by
  cases hp : (s.jobs x).pc with
  | lockEnter => rw [resume_lockEnter fl s x hp]; exact enterTail_frameQ fl s _ x (acquireAll_frameQ s x _ 0)
  | lockExitAbort => rw [resume_lockExitAbort fl s x hp]; exact (releaseAll_frameQ s x _).trans (abortTail_frameQ fl _ x)
  | lockExitRun => rw [resume_lockExitRun fl s x hp]; exact FrameQ.put s x _ _ _ rfl
  | codeWait => rw [resume_codeWait fl s x hp]; exact (releaseAll_frameQ s x _).trans (codeTail_frameQ _ x)
  | doneHandler => exact absurd hp hnd
  | _ => rw [resume_other fl s x (by simp [hp, pcKind])]; exact FrameQ.refl s

theorem wake_frameQ (fl : Flags) (s : St) (j : Nat) : FrameQ s (s.runCb fl (.wake j)) := by
  simp only [St.runCb]
  split
  · exact FrameQ.put s j _ _ _ rfl
  · refine FrameQ.trans ?_ (loopHead_frameQ _ j)
    exact FrameQ.put s j _ _ _ rfl

theorem waiterRun_frameQ (s : St) : FrameQ s s.waiterRun := by
  unfold St.waiterRun
  split <;> exact FrameQ.of_eq rfl rfl rfl rfl

/-- every callback except a registration and the `doneHandler` segment. -/
theorem runCb_frameQ (fl : Flags) (s : St) (cb : Cb) (hr : isReg cb = false)
    (hd : ∀ x, cb = .resume x → (s.jobs x).pc ≠ .doneHandler) : FrameQ s (s.runCb fl cb) := by
  cases cb with
  | register j => simp [isReg] at hr
  | start j => exact startJob_frameQ fl s j
  | wake j => exact wake_frameQ fl s j
  | resume j => exact resume_frameQ fl s j (hd j rfl)
  | check j d => exact check_frameQ fl s j d
  | notifyCheck j d =>
    rcases notifyCheck_cases fl s j d with e | e <;> rw [e]
    · exact check_frameQ fl s j d
    · exact FrameQ.refl s
  | waiterRun => exact waiterRun_frameQ s



/-! ### counting the jobs whose coroutine is alive -/

def sumTo (f : Nat → Nat) (n : Nat) : Nat := ((List.range n).map f).sum

theorem sumTo_succ (f : Nat → Nat) (n : Nat) : sumTo f (n + 1) = sumTo f n + f n := by
  simp [sumTo, List.range_succ]

theorem sumTo_congr (f g : Nat → Nat) (n : Nat) (h : ∀ i, i < n → f i = g i) : sumTo f n = sumTo g n := by
  induction n with
  | zero => rfl
  | succ n ih => rw [sumTo_succ, sumTo_succ, ih (fun i hi => h i (by omega)), h n (by omega)]

theorem sumTo_upd (f g : Nat → Nat) (n x : Nat) (hx : x < n) (h : ∀ i, i ≠ x → f i = g i) :
    sumTo f n + g x = sumTo g n + f x := by
  induction n with
  | zero => omega
  | succ n ih =>
    rw [sumTo_succ, sumTo_succ]
    by_cases hxn : x = n
    · subst hxn
      rw [sumTo_congr f g x (fun i hi => h i (by omega))]; omega
    · have := ih (by omega)
      rw [h n (fun e => hxn e.symm)]; omega

theorem sumTo_zero (f : Nat → Nat) (n : Nat) (h : sumTo f n = 0) : ∀ i, i < n → f i = 0 := by
  induction n with
  | zero => intro i hi; omega
  | succ n ih =>
    rw [sumTo_succ] at h
    intro i hi
    by_cases hin : i = n
    · subst hin; omega
    · exact ih (by omega) i (by omega)

/-- 1 if the coroutine of the record exists and has not returned. -/
def act (jb : Job) : Nat := if pcKind jb.pc = 0 then 0 else 1

/-- number of submitted jobs whose coroutine exists and has not returned. -/
def actN (s : St) : Nat := sumTo (fun i => act (s.jobs i)) s.n

/-- `unfinished` equals the number of live coroutines plus a credit `c`. -/
def CountC (s : St) (c : Int) : Prop := s.unfinished = (actN s : Int) + c

theorem act_pos {jb : Job} (h : pcKind jb.pc ≠ 0) : act jb = 1 := by simp [act, h]

theorem loopHeadJ_kind (jb : Job) : pcKind (loopHeadJ jb).pc = 3 ∨ pcKind (loopHeadJ jb).pc = 2 := by
  unfold loopHeadJ
  split
  · simp [pcKind]
  · split
    · split <;> simp [pcKind]
    · simp [pcKind]

theorem startJob_job_kind (fl : Flags) (s : St) (x : Nat) : pcKind ((s.startJob fl x).jobs x).pc ≠ 0 := by
  unfold St.startJob
  simp only
  rw [loopHead_job]
  have := loopHeadJ_kind
  grind

theorem wake_job_kind (fl : Flags) (s : St) (x : Nat) : pcKind ((s.runCb fl (.wake x)).jobs x).pc ≠ 0 := by
  simp only [St.runCb]
  split
  · simp [pcKind]
  · rw [loopHead_job]
    have := loopHeadJ_kind
    grind

theorem resume_job_kind (fl : Flags) (s : St) (x : Nat) (hk : pcKind (s.jobs x).pc = 3)
    (hnd : (s.jobs x).pc ≠ .doneHandler) : pcKind ((s.resume fl x).jobs x).pc ≠ 0 := by
  cases hp : (s.jobs x).pc with
  | lockEnter =>
    rw [resume_lockEnter fl s x hp]
    generalize St.acquireAll s x (s.jobs x).deps.length 0 = r
    obtain ⟨s1, fa⟩ := r
    unfold enterTail
    cases fa <;> simp [pcKind]
  | lockExitAbort =>
    rw [resume_lockExitAbort fl s x hp]
    unfold abortTail
    simp only
    rw [loopHead_job]
    have := loopHeadJ_kind
    grind
  | lockExitRun => rw [resume_lockExitRun fl s x hp]; simp [pcKind]
  | codeWait => rw [resume_codeWait fl s x hp]; unfold codeTail; rw [finish_job]; simp [pcKind]
  | doneHandler => exact absurd hp hnd
  | _ => simp [hp, pcKind] at hk

theorem head_resume_kind {s : St} {x : Nat} {rest : List Cb} (h : Inv1 s) (hr : s.ready = .resume x :: rest) :
    pcKind (s.jobs x).pc = 3 := (pop_resume h hr).2

/-- a callback other than the `doneHandler` segment leaves every coroutine alive or dead as it was. -/
theorem runCb_act (fl : Flags) (s : St) (cb : Cb) (rest : List Cb) (hI : Inv1 s) (hr : s.ready = cb :: rest)
    (hd : ∀ x, cb = .resume x → (s.jobs x).pc ≠ .doneHandler) (i : Nat) :
    act ((({ s with ready := rest } : St).runCb fl cb).jobs i) = act (s.jobs i) := by
  have hF := runCb_frame fl { s with ready := rest } cb
  by_cases hi : i = target cb
  · subst hi
    by_cases hp : plainCb cb
    · unfold act; rw [plain_pc fl _ cb hp]
    · cases cb with
      | start j =>
        have h1 := head_start_pc hI hr
        have h2 := startJob_job_kind fl { s with ready := rest } j
        show act ((St.startJob fl _ j).jobs j) = act (s.jobs j)
        rw [act_pos h2, act_pos (by rw [h1]; simp [pcKind])]
      | wake j =>
        have h1 := head_wake_pc hI hr
        have h2 := wake_job_kind fl { s with ready := rest } j
        show act ((St.runCb fl _ (.wake j)).jobs j) = act (s.jobs j)
        rw [act_pos h2, act_pos (by rw [h1]; simp [pcKind])]
      | resume j =>
        have h1 := head_resume_kind hI hr
        have h2 := resume_job_kind fl { s with ready := rest } j h1 (hd j rfl)
        show act ((St.resume fl _ j).jobs j) = act (s.jobs j)
        rw [act_pos h2, act_pos (by rw [h1]; simp)]
      | _ => simp [plainCb] at hp
  · rw [hF.2.2.2.2.1 i hi]

theorem actN_congr {s s' : St} (hn : s'.n = s.n) (h : ∀ i, act (s'.jobs i) = act (s.jobs i)) : actN s' = actN s := by
  unfold actN; rw [hn]; exact sumTo_congr _ _ _ (fun i _ => h i)

/-- the `doneHandler` segment: one coroutine returns and the counter goes down by one. -/
theorem doneStep_count (s : St) (x : Nat) (hx : x < s.n) (hp : (s.jobs x).pc = .doneHandler) (c : Int)
    (h : CountC s c) : CountC (doneStep s x) c := by
  have e := sumTo_upd (fun i => act ((doneStep s x).jobs i)) (fun i => act (s.jobs i)) s.n x hx
    (fun i hi => by simp [doneStep, upd_ne _ _ hi])
  have a1 : act ((doneStep s x).jobs x) = 0 := by simp [doneStep, act, pcKind]
  have a2 : act (s.jobs x) = 1 := by simp [act, hp, pcKind]
  have hn : (doneStep s x).n = s.n := rfl
  have hu : (doneStep s x).unfinished = s.unfinished - 1 := rfl
  unfold CountC actN at h ⊢
  rw [hn, hu, h]
  simp only [a1, a2] at e
  omega

theorem doneStep_frameQ' (s : St) (x : Nat) :
    (doneStep s x).regResult = s.regResult ∧ (doneStep s x).registry = s.registry ∧
    ∃ new, (doneStep s x).ready = s.ready ++ new ∧ nReg new = 0 := by
  refine ⟨rfl, rfl, (if s.waiter = WS.sleeping then [Cb.waiterRun] else []) ++
      (s.jobDeps x).map (fun (p : Nat × Nat) => Cb.check p.1 p.2), by simp [doneStep], ?_⟩
  simp only [nReg_append, nReg_map_check]
  split <;> simp [isReg]

/-- effect of any callback that is not a registration on the counters and the queue. -/
theorem runCb_count (fl : Flags) (s : St) (cb : Cb) (rest : List Cb) (hI : Inv1 s) (hr : s.ready = cb :: rest)
    (hreg : isReg cb = false) (c : Int) (h : CountC s c) :
    CountC (({ s with ready := rest } : St).runCb fl cb) c ∧
    (({ s with ready := rest } : St).runCb fl cb).regResult = s.regResult ∧
    (({ s with ready := rest } : St).runCb fl cb).registry = s.registry ∧
    ∃ new, (({ s with ready := rest } : St).runCb fl cb).ready = rest ++ new ∧ nReg new = 0 := by
  by_cases hd : ∀ x, cb = .resume x → (s.jobs x).pc ≠ .doneHandler
  · have hQ := runCb_frameQ fl { s with ready := rest } cb hreg hd
    have hA := runCb_act fl s cb rest hI hr hd
    have hn := (runCb_frame fl { s with ready := rest } cb).1
    refine ⟨?_, hQ.2.1, hQ.2.2.1, hQ.2.2.2⟩
    unfold CountC at h ⊢
    rw [actN_congr hn hA, hQ.1]; exact h
  · have : ∃ x, cb = .resume x ∧ (s.jobs x).pc = .doneHandler := by
      apply Classical.byContradiction
      intro hne
      apply hd
      intro x hx hp
      exact hne ⟨x, hx, hp⟩
    obtain ⟨x, rfl, hp⟩ := this
    have hx : x < s.n := (pop_resume hI hr).1.2.2.2.2
    simp only [St.runCb]
    rw [resume_doneHandler fl ({ s with ready := rest } : St) x hp]
    have hq := doneStep_frameQ' { s with ready := rest } x
    exact ⟨doneStep_count { s with ready := rest } x hx hp c h, hq.1, hq.2.1, hq.2.2⟩



/-! ### the counter `unfinished`: between events, and inside `submit` -/

theorem register_effect (fl : Flags) (hf : fl.resubmitRegisters = true) (s : St) (j : Nat) :
    ((s.register fl j).regResult = some none ∧ (s.register fl j).unfinished = s.unfinished + 1) ∨
    (∃ o, (s.register fl j).regResult = some (some o) ∧ (s.register fl j).unfinished = s.unfinished) := by
  unfold St.register
  simp only [hf, if_true]
  split
  · split
    · exact Or.inl ⟨rfl, rfl⟩
    · exact Or.inr ⟨_, rfl, rfl⟩
  · exact Or.inl ⟨rfl, rfl⟩

/-- inside `submit`, before the registration ran: `m` callbacks are ahead of it. -/
def PhA (s : St) (j m : Nat) : Prop :=
  ∃ r extra, s.ready = r ++ Cb.register j :: extra ∧ r.length = m ∧ nReg r = 0 ∧ nReg extra = 0 ∧
    s.regResult = none ∧ CountC s 0

/-- inside `submit`, after the registration ran: the new job is counted in advance iff it will be scheduled. -/
def PhB (s : St) : Prop :=
  nReg s.ready = 0 ∧ ((s.regResult = some none ∧ CountC s 1) ∨ (∃ o, s.regResult = some (some o) ∧ CountC s 0))

theorem isReg_of_nReg {cb : Cb} {l : List Cb} (h : nReg (cb :: l) = 0) : isReg cb = false ∧ nReg l = 0 := by
  rw [nReg_cons] at h
  cases hc : isReg cb <;> simp [hc] at h ⊢ <;> omega

theorem stepA_succ (fl : Flags) (s : St) (j m : Nat) (hI : Inv1 s) (h : PhA s j (m + 1)) : PhA (s.step fl) j m := by
  obtain ⟨r, extra, hr, hl, hz, hze, hrr, hc⟩ := h
  cases r with
  | nil => simp at hl
  | cons cb r' =>
    have hcb := isReg_of_nReg hz
    have hr' : s.ready = cb :: (r' ++ Cb.register j :: extra) := by rw [hr]; rfl
    have hq := runCb_count fl s cb _ hI hr' hcb.1 0 hc
    unfold St.step
    rw [hr']
    simp only
    obtain ⟨q1, q2, _, new, q4, q5⟩ := hq
    refine ⟨r', extra ++ new, ?_, by simpa using hl, hcb.2, by simp [hze, q5], by rw [q2]; exact hrr, q1⟩
    rw [q4]; simp

theorem stepA_zero (fl : Flags) (hf : fl.resubmitRegisters = true) (s : St) (j : Nat) (h : PhA s j 0) :
    PhB (s.step fl) := by
  obtain ⟨r, extra, hr, hl, hz, hze, hrr, hc⟩ := h
  have : r = [] := List.eq_nil_of_length_eq_zero hl
  subst this
  simp only [List.nil_append] at hr
  unfold St.step
  rw [hr]
  simp only [St.runCb]
  have f := register_jobs fl ({ s with ready := extra } : St) j
  have e := register_effect fl hf ({ s with ready := extra } : St) j
  refine ⟨by rw [f.2.1]; exact hze, ?_⟩
  have hact : actN (St.register fl ({ s with ready := extra } : St) j) = actN s :=
    actN_congr f.2.2.2.1 (fun i => by rw [f.1])
  unfold CountC at hc ⊢
  rcases e with ⟨e1, e2⟩ | ⟨o, e1, e2⟩
  · refine Or.inl ⟨e1, ?_⟩
    rw [hact, e2]; simp only; omega
  · refine Or.inr ⟨o, e1, ?_⟩
    rw [hact, e2]; simp only; omega

theorem stepB (fl : Flags) (s : St) (hI : Inv1 s) (h : PhB s) : PhB (s.step fl) := by
  obtain ⟨hz, hc⟩ := h
  unfold St.step
  split
  · exact ⟨hz, hc⟩
  · rename_i cb rest hr
    rw [hr] at hz
    have hcb := isReg_of_nReg hz
    rcases hc with ⟨e, hc⟩ | ⟨o, e, hc⟩
    · obtain ⟨q1, q2, _, new, q4, q5⟩ := runCb_count fl s cb rest hI hr hcb.1 _ hc
      exact ⟨by rw [q4]; simp [hcb.2, q5], Or.inl ⟨by rw [q2]; exact e, q1⟩⟩
    · obtain ⟨q1, q2, _, new, q4, q5⟩ := runCb_count fl s cb rest hI hr hcb.1 _ hc
      exact ⟨by rw [q4]; simp [hcb.2, q5], Or.inr ⟨o, by rw [q2]; exact e, q1⟩⟩

/-- the registration is reached after exactly the callbacks queued before it. -/
theorem steps_phaseA (fl : Flags) (hg : fl.readyGuarded = true) (j : Nat) :
    ∀ m k s, InvA s → PhA s j k → m ≤ k → InvA (St.steps fl s m) ∧ PhA (St.steps fl s m) j (k - m) := by
  intro m
  induction m with
  | zero => intro k s hA hP _; exact ⟨hA, hP⟩
  | succ m ih =>
    intro k s hA hP hm
    obtain ⟨k', rfl⟩ : ∃ k', k = k' + 1 := ⟨k - 1, by omega⟩
    have := ih k' (s.step fl) (step_invA fl hg s hA) (stepA_succ fl s j k' hA.ctl hP) (by omega)
    simpa [St.steps, Nat.add_sub_add_right] using this

theorem steps_phaseB (fl : Flags) (hg : fl.readyGuarded = true) (hf : fl.resubmitRegisters = true) (j : Nat)
    (k : Nat) (s : St) (hA : InvA s) (hP : PhA s j k) : PhB (St.steps fl s (k + 1)) := by
  have h1 := steps_phaseA fl hg j k k s hA hP (Nat.le_refl _)
  rw [Nat.sub_self] at h1
  have : St.steps fl s (k + 1) = (St.steps fl s k).step fl := by
    clear h1 hP hA
    induction k generalizing s with
    | zero => rfl
    | succ k ih => simp only [St.steps]; exact ih _
  rw [this]
  exact stepA_zero fl hf _ j h1.2

/-- second layer: no registration is pending between events and `unfinished` counts the live coroutines. -/
structure InvB (s : St) : Prop where
  noreg : nReg s.ready = 0
  count : CountC s 0

theorem submitPre_phaseA (s : St) (ident : Nat) (deps : List Origin) (code : Nat) (marker : Bool) (h : InvB s) :
    PhA (submitPre s ident deps code marker) s.n s.ready.length := by
  refine ⟨s.ready, [], rfl, rfl, h.noreg, rfl, rfl, ?_⟩
  have hc := h.count
  unfold CountC actN at hc ⊢
  have e1 : (submitPre s ident deps code marker).n = s.n + 1 := rfl
  have e2 : (submitPre s ident deps code marker).unfinished = s.unfinished := rfl
  rw [e1, e2, sumTo_succ, sumTo_congr _ (fun i => act (s.jobs i)) s.n
    (fun i hi => by rw [submitPre_jobs_ne _ _ _ _ _ _ (by omega)])]
  have : act ((submitPre s ident deps code marker).jobs s.n) = 0 := by simp [submitPre, newJob, act, pcKind]
  rw [this, hc]; simp

theorem submitPost_invB (s2 : St) (j : Nat) (hpc : (s2.jobs j).pc = .none) (hn : j < s2.n) (h : PhB s2) :
    InvB (submitPost s2 j) := by
  obtain ⟨hz, hc⟩ := h
  unfold submitPost
  rcases hc with ⟨e, hc⟩ | ⟨o, e, hc⟩
  · rw [e]
    simp only
    refine ⟨by simp [hz, isReg], ?_⟩
    have key : ∀ s3 : St, s3.n = s2.n → s3.unfinished = s2.unfinished →
        s3.jobs = upd s2.jobs j { (s2.jobs j) with pc := .created } → CountC s3 0 := by
      intro s3 e1 e2 e3
      have es := sumTo_upd (fun i => act (s3.jobs i)) (fun i => act (s2.jobs i)) s2.n j hn
        (fun i hi => by simp [e3, upd_ne _ _ hi])
      have a1 : act (s3.jobs j) = 1 := by simp [e3, act, pcKind]
      have a2 : act (s2.jobs j) = 0 := by simp [act, hpc, pcKind]
      unfold CountC actN at hc ⊢
      rw [a1, a2] at es
      rw [e1, e2, hc]; omega
    exact key _ rfl rfl rfl
  · rw [e]
    exact ⟨hz, hc⟩

theorem apply_invB (fl : Flags) (hg : fl.readyGuarded = true) (hf : fl.resubmitRegisters = true) (s : St) (ev : Ev)
    (hA : InvA s) (h : InvB s) : InvB (s.apply fl ev) := by
  cases ev with
  | step =>
    simp only [St.apply]
    unfold St.step
    split
    · exact h
    · rename_i cb rest hr
      have hz := h.noreg
      rw [hr] at hz
      have hcb := isReg_of_nReg hz
      obtain ⟨q1, _, _, new, q4, q5⟩ := runCb_count fl s cb rest hA.ctl hr hcb.1 0 h.count
      exact ⟨by rw [q4]; simp [hcb.2, q5], q1⟩
  | wait => exact ⟨by simp [St.apply, h.noreg, isReg], h.count⟩
  | deliver k =>
    simp only [St.apply]
    split
    · exact ⟨by simp [h.noreg, isReg], h.count⟩
    · exact h
  | submit ident deps code marker =>
    rw [apply_submit]
    have h0 := submitPre_invA s ident deps code marker hA
    have hB := steps_phaseB fl hg hf s.n _ _ h0 (submitPre_phaseA s ident deps code marker h)
    have h1 := steps_invA fl hg s.n (s.ready.length + 1) _ ⟨h0, by simp [submitPre, newJob]⟩
    exact submitPost_invB _ s.n h1.2 (by rw [steps_n]; simp [submitPre, newJob]) hB

theorem init_invB (totals : List Nat) : InvB (St.init totals) :=
  ⟨rfl, by simp [CountC, actN, sumTo, St.init]⟩

theorem reachable_invB {fl : Flags} (hg : fl.readyGuarded = true) (hf : fl.resubmitRegisters = true)
    {totals : List Nat} {s : St} (h : Reachable fl totals s) : InvB s := by
  induction h with
  | init => exact init_invB totals
  | next hr _ ih => exact apply_invB fl hg hf _ _ (reachable_invA hg hr) ih



/-! ### micro-states (inside `submit`) and the waiter -/

/-- states in which a callback may run: the reachable states and the intermediate states of a `submit` event. -/
inductive MReach (fl : Flags) (totals : List Nat) : St → Prop
  | atEvent {s : St} : Reachable fl totals s → MReach fl totals s
  | inSubmit {s : St} (ident : Nat) (deps : List Origin) (code : Nat) (marker : Bool) (k : Nat) :
      Reachable fl totals s → EvOK s (.submit ident deps code marker) → k ≤ s.ready.length + 1 →
      MReach fl totals (St.steps fl (submitPre s ident deps code marker) k)

theorem pcKind_zero {pc : PC} : pcKind pc = 0 ↔ pc = .none ∨ ∃ r, pc = .finished r := by
  cases pc <;> simp [pcKind]

/-- every scheduled job has returned. -/
def AllFinal (s : St) : Prop := ∀ j, j < s.n → (s.jobs j).pc = .none ∨ ∃ r, (s.jobs j).pc = .finished r

theorem actN_zero_iff (s : St) : actN s = 0 ↔ AllFinal s := by
  constructor
  · intro h j hj
    have := sumTo_zero _ _ h j hj
    simp only [act] at this
    apply pcKind_zero.1
    grind
  · intro h
    unfold actN
    have : sumTo (fun i => act (s.jobs i)) s.n = sumTo (fun _ => 0) s.n :=
      sumTo_congr _ _ _ (fun i hi => by simp [act, pcKind_zero.2 (h i hi)])
    rw [this]
    clear this h
    induction s.n with
    | zero => rfl
    | succ n ih => rw [sumTo_succ, ih]

theorem micro_count {fl : Flags} (hg : fl.readyGuarded = true) (hf : fl.resubmitRegisters = true)
    {totals : List Nat} {s : St} (h : MReach fl totals s) : InvA s ∧ ∃ c : Int, 0 ≤ c ∧ CountC s c := by
  cases h with
  | atEvent hr => exact ⟨reachable_invA hg hr, 0, Int.le_refl _, (reachable_invB hg hf hr).count⟩
  | @inSubmit s0 ident deps code marker k hr _ hk =>
    have hA := reachable_invA hg hr
    have hB := reachable_invB hg hf hr
    have h0 := submitPre_invA s0 ident deps code marker hA
    have hP := submitPre_phaseA s0 ident deps code marker hB
    refine ⟨(steps_invA fl hg s0.n k _ ⟨h0, by simp [submitPre, newJob]⟩).1, ?_⟩
    by_cases hk' : k ≤ s0.ready.length
    · obtain ⟨_, _, _, _, _, _, _, hc⟩ := (steps_phaseA fl hg s0.n k _ _ h0 hP hk').2
      exact ⟨0, Int.le_refl _, hc⟩
    · have : k = s0.ready.length + 1 := by omega
      subst this
      obtain ⟨_, hc⟩ := steps_phaseB fl hg hf s0.n _ _ h0 hP
      rcases hc with ⟨_, hc⟩ | ⟨_, _, hc⟩
      · exact ⟨1, by omega, hc⟩
      · exact ⟨0, Int.le_refl _, hc⟩

theorem waiterRun_cases (s : St) :
    (s.unfinished = 0 ∧ s.waiterRun.waiter = (if s.failed.isEmpty then WS.returned else WS.raised)) ∨
    (s.unfinished ≠ 0 ∧ s.waiterRun.waiter = .sleeping) := by
  unfold St.waiterRun
  split
  · rename_i h; exact Or.inl ⟨h, rfl⟩
  · rename_i h; exact Or.inr ⟨h, rfl⟩

/-- sum of indicators = length of the filtered range. -/
def pcLive : PC → Bool
  | .none => false
  | .finished _ => false
  | _ => true

theorem act_eq_live (jb : Job) : act jb = if pcLive jb.pc then 1 else 0 := by
  unfold act; cases jb.pc <;> simp [pcKind, pcLive]

theorem sumTo_filter (p : Nat → Bool) (n : Nat) :
    sumTo (fun i => if p i then 1 else 0) n = ((List.range n).filter p).length := by
  induction n with
  | zero => rfl
  | succ n ih =>
    rw [sumTo_succ, ih, List.range_succ, List.filter_append, List.length_append]
    cases hp : p n <;> simp [hp]

theorem actN_eq_filter (s : St) : actN s = ((List.range s.n).filter (fun j => pcLive (s.jobs j).pc)).length := by
  unfold actN
  rw [← sumTo_filter]
  exact sumTo_congr _ _ _ (fun i _ => act_eq_live _)

/-! ### stability over any continuation -/

theorem stable_foldl (fl : Flags) (hg : fl.readyGuarded = true) (j : Nat) (r : JS) :
    ∀ (evs : List Ev) (s : St), InvA s → (s.jobs j).pc = .finished r →
      InvA (evs.foldl (St.apply fl) s) ∧ ((evs.foldl (St.apply fl) s).jobs j).pc = .finished r := by
  intro evs
  induction evs with
  | nil => intro s hA hp; exact ⟨hA, hp⟩
  | cons ev evs ih =>
    intro s hA hp
    have hj : j < s.n := by
      apply Classical.byContradiction
      intro hn
      have := hA.blank j (by omega)
      rw [hp] at this; cases this
    have h1 := apply_kind0 fl hg s ev hA j hj (by rw [hp]; rfl)
    exact ih (s.apply fl ev) (apply_invA fl hg s ev hA) (by rw [h1]; exact hp)

theorem apply_n_le (fl : Flags) (s : St) (ev : Ev) : s.n ≤ (s.apply fl ev).n := by
  cases ev with
  | step => simp only [St.apply]; rw [step_n]; exact Nat.le_refl _
  | wait => exact Nat.le_refl _
  | deliver k => simp only [St.apply]; split <;> exact Nat.le_refl _
  | submit ident deps code marker =>
    rw [apply_submit, submitPost_n, steps_n]; simp [submitPre, newJob]



/-! ### consequences of the record-local invariant for a returned coroutine -/

theorem jlocal_final {jb : Job} {r : JS} (h : JLocal jb) (hp : jb.pc = .finished r) :
    (r = .done ∨ r = .error) ∧ jb.state = r := by
  have h1 := h.1 (by rw [hp]; rfl)
  have h2 := h.2.1 r hp
  rw [h2] at h1
  refine ⟨?_, h2⟩
  cases r <;> simp [JS.finished] at h1 ⊢

theorem jlocal_done_iff {jb : Job} {r : JS} (h : JLocal jb) (hp : jb.pc = .finished r) :
    r = .done ↔ (jb.marker = true ∨ (jb.launches = 1 ∧ jb.code = 0)) := by
  have hs := (jlocal_final h hp).2
  obtain ⟨_, _, _, _, _, h6, h7, h8, _⟩ := h
  constructor
  · intro hr; exact h6 (by rw [hs, hr])
  · rintro (hm | ⟨hl, hc⟩)
    · have := (h7 hm).2
      rw [hp] at this
      rcases this with h | h | ⟨h, _⟩
      · cases h
      · cases h
      · rw [← hs]; exact h
    · have := h8 hl (by rw [hp]; rfl)
      rw [← hs, this, hc]; rfl

theorem jlocal_error_iff {jb : Job} {r : JS} (h : JLocal jb) (hp : jb.pc = .finished r) :
    r = .error ↔ (jb.marker = false ∧ ((jb.launches = 1 ∧ jb.code ≠ 0) ∨ (jb.launches = 0 ∧ jb.failedDep = true))) := by
  have hf := jlocal_final h hp
  have hd := jlocal_done_iff h hp
  have hl := h.2.2.2.2.1
  have h9 := h.2.2.2.2.2.2.2.2
  have h7 := h.2.2.2.2.2.2.1
  constructor
  · intro hr
    have hnd : ¬ (jb.marker = true ∨ (jb.launches = 1 ∧ jb.code = 0)) := by
      intro hx; have := hd.2 hx; rw [hr] at this; cases this
    refine ⟨by cases hm : jb.marker <;> simp_all, ?_⟩
    by_cases h1 : jb.launches = 1
    · exact Or.inl ⟨h1, fun hc => hnd (Or.inr ⟨h1, hc⟩)⟩
    · have h0 : jb.launches = 0 := by omega
      exact Or.inr ⟨h0, h9 (by rw [hf.2, hr]) h0⟩
  · rintro ⟨hm, hx⟩
    rcases hf.1 with hr | hr
    · exfalso
      rcases hd.1 hr with hm' | ⟨h1, hc⟩
      · rw [hm] at hm'; cases hm'
      · rcases hx with ⟨_, hc'⟩ | ⟨h0, _⟩
        · exact hc' hc
        · omega
    · exact hr

theorem jlocal_marker {jb : Job} (h : JLocal jb) (hm : jb.marker = true) : jb.launches = 0 :=
  (h.2.2.2.2.2.2.1 hm).1



/-! ### concrete reachable states (for `example`s) -/

def evOKb (s : St) : Ev → Bool
  | .submit _ deps _ _ => deps.all (fun o => match o with
      | .job d => decide (d < s.n)
      | .tok t c => decide (t < s.ntok) && decide (0 < c))
  | _ => true

theorem evOKb_sound (s : St) (ev : Ev) (h : evOKb s ev = true) : EvOK s ev := by
  cases ev with
  | submit ident deps code marker =>
    simp only [evOKb, List.all_eq_true] at h
    intro o ho
    have := h o ho
    cases o <;> simp_all
  | _ => trivial

/-- run a list of events, checking well-formedness on the way. -/
def runOK (fl : Flags) : St → List Ev → Bool
  | _, [] => true
  | s, ev :: evs => evOKb s ev && runOK fl (s.apply fl ev) evs

theorem reachable_foldl {fl : Flags} {totals : List Nat} (evs : List Ev) :
    ∀ s, Reachable fl totals s → runOK fl s evs = true → Reachable fl totals (evs.foldl (St.apply fl) s) := by
  induction evs with
  | nil => intro s h _; exact h
  | cons ev evs ih =>
    intro s h hok
    simp only [runOK, Bool.and_eq_true] at hok
    exact ih _ (.next h (evOKb_sound s ev hok.1)) hok.2

/-- the state after a list of events from `init`. -/
def runEvs (fl : Flags) (totals : List Nat) (evs : List Ev) : St := evs.foldl (St.apply fl) (St.init totals)

theorem reachable_runEvs {fl : Flags} {totals : List Nat} (evs : List Ev)
    (h : runOK fl (St.init totals) evs = true) : Reachable fl totals (runEvs fl totals evs) :=
  reachable_foldl evs _ .init h



/-! ## third layer: dependency statuses, the counter `unsat`, failed dependencies -/

/-- number of dependencies whose recorded status is not OK. -/
def cntBad : List Dep → Int
  | [] => 0
  | dp :: l => (if dp.cur = .ok then 0 else 1) + cntBad l

theorem cntBad_set (l : List Dep) (d : Nat) (hd : d < l.length) (st : DS) :
    cntBad (l.set d { (l.getD d default) with cur := st }) = cntBad l - (val st - val (l.getD d default).cur) := by
  induction l generalizing d with
  | nil => simp at hd
  | cons a l ih =>
    cases d with
    | zero =>
      simp only [List.set_cons_zero, cntBad, List.getD_cons_zero]
      cases st <;> cases a.cur <;> simp [val] <;> omega
    | succ d =>
      simp only [List.set_cons_succ, cntBad, List.getD_cons_succ]
      rw [ih d (by simpa using hd)]; omega

theorem cntBad_nonneg (l : List Dep) : 0 ≤ cntBad l := by
  induction l with
  | nil => simp [cntBad]
  | cons a l ih => simp only [cntBad]; split <;> omega

theorem cntBad_zero (l : List Dep) (h : cntBad l = 0) : ∀ i, i < l.length → (l.getD i default).cur = .ok := by
  induction l with
  | nil => intro i hi; simp at hi
  | cons a l ih =>
    have := cntBad_nonneg l
    simp only [cntBad] at h
    intro i hi
    cases i with
    | zero => simp only [List.getD_cons_zero]; split at h <;> first | assumption | omega
    | succ i =>
      simp only [List.getD_cons_succ]
      exact ih (by split at h <;> omega) i (by simpa using hi)

theorem cntBad_pos (l : List Dep) (h : 0 < cntBad l) : ∃ i, i < l.length ∧ (l.getD i default).cur ≠ .ok := by
  induction l with
  | nil => simp [cntBad] at h
  | cons a l ih =>
    simp only [cntBad] at h
    by_cases ha : a.cur = .ok
    · simp only [ha, if_true] at h
      obtain ⟨i, hi, hc⟩ := ih (by omega)
      exact ⟨i + 1, by simpa using hi, by simpa using hc⟩
    · exact ⟨0, by simp, by simpa using ha⟩

theorem cntBad_all_wait (l : List Dep) (h : ∀ i, i < l.length → (l.getD i default).cur = .wait) :
    cntBad l = l.length := by
  induction l with
  | nil => rfl
  | cons a l ih =>
    have h0 := h 0 (by simp)
    simp only [List.getD_cons_zero] at h0
    simp only [cntBad, h0, List.length_cons]
    rw [ih (fun i hi => by simpa using h (i + 1) (by simpa using hi))]
    simp; omega

theorem getD_set_dep (l : List Dep) (d i : Nat) (v : Dep) :
    (l.set d v).getD i default = if i = d ∧ d < l.length then v else l.getD i default := by
  simp only [List.getD_eq_getElem?_getD, List.getElem?_set]
  by_cases h : d = i
  · subst h
    by_cases hd : d < l.length <;> simp [hd]
  · have : ¬ i = d := fun e => h e.symm
    simp [h, this]

def isJobO : Origin → Bool
  | .job _ => true
  | .tok _ _ => false

/-- the `i`-th dependency of a record. -/
def depAt (jb : Job) (i : Nat) : Dep := jb.deps.getD i default

/-- record-level part of the third layer. -/
structure JDeep (jb : Job) : Prop where
  /-- DONE is only ever shown by a job in its final segments -/
  doneEnd : jb.state = .done → pcEnd jb.pc = true
  /-- the record state while the start / the process is in progress -/
  lockReady : jb.pc = .lockEnter ∨ jb.pc = .lockExitAbort → jb.state = .ready
  runRunning : pcRun jb.pc = true → jb.state = .running
  /-- before the coroutine's first segment nothing has happened to the record -/
  fresh : jb.state = .unscheduled → (jb.pc = .none ∨ jb.pc = .created)
  pristine : jb.state = .unscheduled → jb.failedDep = false ∧ jb.unsat = 0 ∧ ∀ i, i < jb.deps.length → (depAt jb i).cur = .wait
  /-- invariant A: the counter of unsatisfied dependencies -/
  counter : jb.state ≠ .unscheduled → jb.unsat = cntBad jb.deps
  /-- a READY / RUNNING job has all its job dependencies OK -/
  readyDeps : jb.state = .ready ∨ jb.state = .running → ∀ i, i < jb.deps.length → isJobO (depAt jb i).origin = true → (depAt jb i).cur = .ok
  /-- token dependencies never fail -/
  tokNoFail : ∀ i, i < jb.deps.length → isJobO (depAt jb i).origin = false → (depAt jb i).cur ≠ .fail
  /-- `failedDep` is witnessed by a failed dependency -/
  failedWit : jb.failedDep = true → ∃ i, i < jb.deps.length ∧ (depAt jb i).cur = .fail
  /-- a job with a failed dependency was never launched -/
  failedNoLaunch : jb.failedDep = true → jb.launches = 0

/-- the status `st` computed for the `d`-th dependency is consistent with what the record already knows. -/
structure StatusOK (jb : Job) (d : Nat) (st : DS) : Prop where
  inRange : d < jb.deps.length
  okStays : isJobO (depAt jb d).origin = true → (depAt jb d).cur = .ok → st = .ok
  failStays : (depAt jb d).cur = .fail → st = .fail
  tokNoFail : isJobO (depAt jb d).origin = false → st ≠ .fail

/-- how `dependencychanged` rewrites the dependency list and the counter. -/
theorem depChanged_deps (fl : Flags) (jb : Job) (d : Nat) (st : DS) :
    (st = (depAt jb d).cur ∧ depChanged fl jb d st = (jb, false)) ∨
    (st ≠ (depAt jb d).cur ∧
      (depChanged fl jb d st).1.deps = jb.deps.set d { (depAt jb d) with cur := st } ∧
      (depChanged fl jb d st).1.unsat = jb.unsat - (val st - val (depAt jb d).cur)) := by
  have e := fun jb => eventSet_frame jb
  unfold depChanged depAt
  simp only
  split
  · rename_i h; exact Or.inl ⟨h, rfl⟩
  · rename_i h
    refine Or.inr ⟨h, ?_, ?_⟩
    · split <;> split <;> simp [e]
    · split <;> split <;> simp [e]



theorem pc_classes (pc : PC) : pcEarly pc = true ∨ pcRun pc = true ∨ pcEnd pc = true := by
  cases pc <;> simp [pcEarly, pcRun, pcEnd]

/-- with a consistent status, a READY / RUNNING record never sees a failing dependency. -/
theorem statusOK_not_fail {jb : Job} {d : Nat} {st : DS} (h : JDeep jb) (hs : StatusOK jb d st)
    (hr : jb.state = .ready ∨ jb.state = .running) : st ≠ .fail := by
  cases hj : isJobO (depAt jb d).origin
  · exact hs.tokNoFail hj
  · have := hs.okStays hj (h.readyDeps hr d hs.inRange hj)
    rw [this]; simp

theorem depChanged_jdeep (fl : Flags) (hg : fl.readyGuarded = true) (jb : Job) (d : Nat) (st : DS)
    (hL : JLocal jb) (h : JDeep jb) (hst : jb.state ≠ .unscheduled) (hs : StatusOK jb d st) :
    JDeep (depChanged fl jb d st).1 := by
  rcases depChanged_deps fl jb d st with ⟨_, e⟩ | ⟨hne, hdeps, hunsat⟩
  · rw [e]; exact h
  · have f := depChanged_state fl jb d st
    generalize (depChanged fl jb d st).1 = r at f hdeps hunsat
    obtain ⟨f1, f2, f3, f4, _, f5⟩ := f
    simp only [hg, true_implies] at f5
    have hlen : r.deps.length = jb.deps.length := by rw [hdeps]; simp
    have hdep : ∀ i, depAt r i = if i = d then { (depAt jb d) with cur := st } else depAt jb i := by
      intro i
      unfold depAt
      rw [hdeps, getD_set_dep]
      by_cases hi : i = d <;> simp [hi, hs.inRange, depAt]
    have horig : ∀ i, (depAt r i).origin = (depAt jb i).origin := by
      intro i; rw [hdep]; split
      · rename_i hi; subst hi; rfl
      · rfl
    have hcur : ∀ i, i ≠ d → (depAt r i).cur = (depAt jb i).cur := by
      intro i hi; rw [hdep]; simp [hi]
    have hcurd : (depAt r d).cur = st := by rw [hdep]; simp
    have hcnt : r.unsat = cntBad r.deps := by
      rw [hunsat, hdeps, h.counter hst]
      exact (cntBad_set jb.deps d hs.inRange st).symm
    -- the dependency `d` is not an OK job dependency, nor a failed one
    have hd_notokjob : isJobO (depAt jb d).origin = true → (depAt jb d).cur ≠ .ok :=
      fun hj hc => hne ((hs.okStays hj hc).trans hc.symm)
    have hd_notfail : (depAt jb d).cur ≠ .fail := fun hc => hne ((hs.failStays hc).trans hc.symm)
    have htok : ∀ i, i < r.deps.length → isJobO (depAt r i).origin = false → (depAt r i).cur ≠ .fail := by
      intro i hi hj
      rw [hlen] at hi; rw [horig] at hj
      by_cases hid : i = d
      · subst hid; rw [hcurd]; exact hs.tokNoFail hj
      · rw [hcur i hid]; exact h.tokNoFail i hi hj
    have hwit : jb.failedDep = true → ∃ i, i < r.deps.length ∧ (depAt r i).cur = .fail := by
      intro hf
      obtain ⟨i, hi, hc⟩ := h.failedWit hf
      have hid : i ≠ d := fun e => hd_notfail (e ▸ hc)
      exact ⟨i, by rw [hlen]; exact hi, by rw [hcur i hid]; exact hc⟩
    have hfresh : r.state ≠ .unscheduled → (r.state = .unscheduled → (r.pc = .none ∨ r.pc = .created)) :=
      fun hr hx => absurd hx hr
    rcases f5 with ⟨a, b⟩ | ⟨a, afail, b, c⟩ | ⟨a, aun, b, c⟩
    · -- state and failedDep unchanged
      refine { doneEnd := ?_, lockReady := ?_, runRunning := ?_, fresh := ?_, pristine := ?_, counter := ?_,
               readyDeps := ?_, tokNoFail := htok, failedWit := ?_, failedNoLaunch := ?_ }
      · rw [a, f1]; exact h.doneEnd
      · rw [a, f1]; exact h.lockReady
      · rw [a, f1]; exact h.runRunning
      · rw [a, f1]; exact h.fresh
      · intro hu; rw [a] at hu; exact absurd hu hst
      · intro _; exact hcnt
      · intro hr i hi hj
        rw [a] at hr; rw [hlen] at hi; rw [horig] at hj
        by_cases hid : i = d
        · subst hid; exact absurd (h.readyDeps hr i hi hj) (hd_notokjob hj)
        · rw [hcur i hid]; exact h.readyDeps hr i hi hj
      · intro hf; rw [b] at hf; exact hwit hf
      · intro hf; rw [b] at hf; rw [f2]; exact h.failedNoLaunch hf
    · -- the dependency failed: the record goes to ERROR
      have hnr : ¬ (jb.state = .ready ∨ jb.state = .running) := fun hr => statusOK_not_fail h hs hr afail
      have hre : r.state ≠ .unscheduled := by rw [b]; intro hx; cases hx
      refine { doneEnd := ?_, lockReady := ?_, runRunning := ?_, fresh := hfresh hre, pristine := ?_, counter := ?_,
               readyDeps := ?_, tokNoFail := htok, failedWit := ?_, failedNoLaunch := ?_ }
      · rw [b]; intro hx; cases hx
      · intro hp; rw [f1] at hp; exact absurd (Or.inl (h.lockReady hp)) hnr
      · intro hp; rw [f1] at hp; exact absurd (Or.inr (h.runRunning hp)) hnr
      · intro hu; exact absurd hu hre
      · intro _; exact hcnt
      · rw [b]; intro hx; rcases hx with hx | hx <;> cases hx
      · intro _; exact ⟨d, by rw [hlen]; exact hs.inRange, by rw [hcurd]; exact afail⟩
      · intro _
        rw [f2]
        rcases pc_classes jb.pc with hp | hp | hp
        · exact hL.2.2.1 hp
        · exact absurd (Or.inr (h.runRunning hp)) hnr
        · have := hL.1 hp; rw [a] at this; cases this
    · -- all dependencies satisfied: the WAITING record goes to READY
      have c1 := b
      have c2 := c
      have hallok := cntBad_zero r.deps (by rw [← hcnt]; exact aun)
      have hre : r.state ≠ .unscheduled := by rw [a]; intro hx; cases hx
      refine { doneEnd := ?_, lockReady := ?_, runRunning := ?_, fresh := hfresh hre, pristine := ?_, counter := ?_,
               readyDeps := ?_, tokNoFail := htok, failedWit := ?_, failedNoLaunch := ?_ }
      · rw [a]; intro hx; cases hx
      · intro _; exact a
      · intro hp; rw [f1] at hp; have := h.runRunning hp; rw [c1] at this; cases this
      · intro hu; exact absurd hu hre
      · intro _; exact hcnt
      · intro _ i hi _; exact hallok i hi
      · intro hf; rw [c2] at hf; exact hwit hf
      · intro hf; rw [c2] at hf; rw [f2]; exact h.failedNoLaunch hf



/-! ### static well-formedness: dependency graph, `eff`, registry -/

theorem sameConst_origin {jb jb' : Job} (h : SameConst jb jb') :
    jb'.deps.length = jb.deps.length ∧ ∀ i, (depAt jb' i).origin = (depAt jb i).origin := by
  have hm := h.2.2.2
  have hl : jb'.deps.length = jb.deps.length := by
    have := congrArg List.length hm
    simpa using this
  refine ⟨hl, fun i => ?_⟩
  unfold depAt
  by_cases hi : i < jb.deps.length
  · have h1 : (jb'.deps.map (·.origin))[i]? = (jb.deps.map (·.origin))[i]? := by rw [hm]
    simp only [List.getElem?_map] at h1
    simp only [List.getD_eq_getElem?_getD]
    rw [List.getElem?_eq_getElem (by omega)] at h1 ⊢
    rw [List.getElem?_eq_getElem hi] at h1 ⊢
    simpa using h1
  · simp only [List.getD_eq_getElem?_getD]
    rw [List.getElem?_eq_none (by omega), List.getElem?_eq_none (by omega)]

structure InvS (s : St) : Prop where
  blankDeps : ∀ j, s.n ≤ j → (s.jobs j).deps = []
  acyclic : ∀ j i o, i < (s.jobs j).deps.length → (depAt (s.jobs j) i).origin = .job o → o < j
  tokOK : ∀ j i t c, i < (s.jobs j).deps.length → (depAt (s.jobs j) i).origin = .tok t c → t < s.ntok ∧ 0 < c
  effLe : ∀ d, s.eff d ≤ d
  regLt : ∀ p, p ∈ s.registry → p.2 < s.n
  resLt : ∀ o, s.regResult = some (some o) → o < s.n
  regCb : ∀ j, Cb.register j ∈ s.ready → j < s.n

theorem lookup_mem (k : Nat) (l : List (Nat × Nat)) (o : Nat) (h : lookup k l = some o) : (k, o) ∈ l := by
  induction l with
  | nil => simp [lookup] at h
  | cons p l ih =>
    obtain ⟨a, b⟩ := p
    simp only [lookup] at h
    split at h
    · rename_i hk; simp at h; subst hk; subst h; exact List.mem_cons_self ..
    · exact List.mem_cons_of_mem _ (ih h)

/-- queue growth and registration data for every callback that is not a registration. -/
theorem runCb_queue (fl : Flags) (s : St) (cb : Cb) (hreg : isReg cb = false) :
    (s.runCb fl cb).regResult = s.regResult ∧ (s.runCb fl cb).registry = s.registry ∧
    ∃ new, (s.runCb fl cb).ready = s.ready ++ new ∧ nReg new = 0 := by
  by_cases hd : ∀ x, cb = .resume x → (s.jobs x).pc ≠ .doneHandler
  · have hQ := runCb_frameQ fl s cb hreg hd
    exact ⟨hQ.2.1, hQ.2.2.1, hQ.2.2.2⟩
  · have : ∃ x, cb = .resume x ∧ (s.jobs x).pc = .doneHandler := by
      apply Classical.byContradiction
      intro hne
      apply hd
      intro x hx hp
      exact hne ⟨x, hx, hp⟩
    obtain ⟨x, rfl, hp⟩ := this
    simp only [St.runCb]
    rw [resume_doneHandler fl s x hp]
    exact doneStep_frameQ' s x

theorem nReg_zero_mem {l : List Cb} (h : nReg l = 0) (j : Nat) : Cb.register j ∉ l := by
  intro hm
  simp only [nReg, List.countP_eq_zero] at h
  have := h _ hm
  simp [isReg] at this

theorem frame_static {s s' : St} {x : Nat} (hF : Frame s s' x) (h : InvS s)
    (hreg : s'.registry = s.registry) (hres : s'.regResult = s.regResult)
    (hcb : ∀ j, Cb.register j ∈ s'.ready → j < s.n) : InvS s' := by
  obtain ⟨fn, fe, ft, _, fj, fc⟩ := hF
  have hc := sameConst_origin fc
  have hdeps : ∀ j, (s'.jobs j).deps.length = (s.jobs j).deps.length ∧
      ∀ i, (depAt (s'.jobs j) i).origin = (depAt (s.jobs j) i).origin := by
    intro j
    by_cases hj : j = x
    · subst hj; exact hc
    · rw [fj j hj]; exact ⟨rfl, fun _ => rfl⟩
  refine ⟨?_, ?_, ?_, by rw [fe]; exact h.effLe, by rw [hreg, fn]; exact h.regLt, by rw [hres, fn]; exact h.resLt,
    by rw [fn]; exact hcb⟩
  · intro j hj
    rw [fn] at hj
    have := (hdeps j).1
    rw [h.blankDeps j hj] at this
    exact List.eq_nil_of_length_eq_zero this
  · intro j i o hi ho
    rw [(hdeps j).1] at hi; rw [(hdeps j).2] at ho
    exact h.acyclic j i o hi ho
  · intro j i t c hi ho
    rw [(hdeps j).1] at hi; rw [(hdeps j).2] at ho; rw [ft]
    exact h.tokOK j i t c hi ho

theorem step_invS (fl : Flags) (s : St) (h : InvS s) : InvS (s.step fl) := by
  unfold St.step
  split
  · exact h
  · rename_i cb rest hr
    have hmem : ∀ j, Cb.register j ∈ rest → j < s.n := fun j hj => h.regCb j (by rw [hr]; exact List.mem_cons_of_mem _ hj)
    have hF := runCb_frame fl ({ s with ready := rest } : St) cb
    by_cases hreg : isReg cb = true
    · cases cb with
      | register j =>
        have hj : j < s.n := h.regCb j (by rw [hr]; exact List.mem_cons_self ..)
        have f := register_jobs fl ({ s with ready := rest } : St) j
        have h0 : InvS ({ s with ready := rest } : St) :=
          ⟨h.blankDeps, h.acyclic, h.tokOK, h.effLe, h.regLt, h.resLt, hmem⟩
        obtain ⟨fn, fe, ft, _, fj, fc⟩ := hF
        have hjobs : (St.runCb fl ({ s with ready := rest } : St) (.register j)).jobs = s.jobs := f.1
        refine ⟨by rw [hjobs, fn]; exact h.blankDeps, by rw [hjobs]; exact h.acyclic,
          by rw [hjobs, ft]; exact h.tokOK, by rw [fe]; exact h.effLe, ?_, ?_, ?_⟩
        · rw [fn]
          intro p hp
          simp only [St.runCb, St.register] at hp
          split at hp
          · split at hp
            · split at hp
              · simp only [List.mem_cons] at hp
                rcases hp with hp | hp
                · rw [hp]; exact hj
                · exact h.regLt p hp
              · exact h.regLt p hp
            · exact h.regLt p hp
          · simp only [List.mem_cons] at hp
            rcases hp with hp | hp
            · rw [hp]; exact hj
            · exact h.regLt p hp
        · rw [fn]
          intro o ho
          simp only [St.runCb, St.register] at ho
          split at ho
          · rename_i o' hl
            split at ho
            · simp at ho
            · simp at ho
              subst ho
              exact h.regLt _ (lookup_mem _ _ _ hl)
          · simp at ho
        · rw [fn]
          intro j' hj'
          have : (St.runCb fl ({ s with ready := rest } : St) (.register j)).ready = rest := f.2.1
          rw [this] at hj'
          exact hmem j' hj'
      | _ => simp [isReg] at hreg
    · have hreg' : isReg cb = false := by cases h : isReg cb <;> simp_all
      obtain ⟨q1, q2, new, q3, q4⟩ := runCb_queue fl ({ s with ready := rest } : St) cb hreg'
      refine frame_static hF ⟨h.blankDeps, h.acyclic, h.tokOK, h.effLe, h.regLt, h.resLt, hmem⟩ q2 q1 ?_
      intro j hj
      rw [q3] at hj
      simp only [List.mem_append] at hj
      rcases hj with hj | hj
      · exact hmem j hj
      · exact absurd hj (nReg_zero_mem q4 j)



theorem steps_invS (fl : Flags) (k : Nat) (s : St) (h : InvS s) : InvS (St.steps fl s k) :=
  steps_ind InvS fl (fun s' h' => step_invS fl s' h') k s h

theorem depAt_map (deps : List Origin) (f : Origin → Dep) (i : Nat) (hi : i < deps.length) :
    depAt { ident := 0, deps := deps.map f } i = f (deps[i]'hi) := by
  simp [depAt, List.getD_eq_getElem?_getD, hi]

theorem submitPre_invS (s : St) (ident : Nat) (deps : List Origin) (code : Nat) (marker : Bool)
    (hok : EvOK s (.submit ident deps code marker)) (h : InvS s) : InvS (submitPre s ident deps code marker) := by
  have hnew : ∀ i (hi : i < deps.length),
      (depAt ((submitPre s ident deps code marker).jobs s.n) i).origin =
        (match deps[i]'hi with | .job d => .job (s.eff d) | o => o) := by
    intro i hi
    simp only [submitPre, newJob, upd_same, depAt, List.getD_eq_getElem?_getD]
    rw [List.getElem?_eq_getElem (by simpa using hi)]
    simp only [List.getElem_map, Option.getD_some]
    split <;> simp_all
  have hlen : ((submitPre s ident deps code marker).jobs s.n).deps.length = deps.length := by
    simp [submitPre, newJob]
  refine ⟨?_, ?_, ?_, h.effLe, ?_, ?_, ?_⟩
  · intro j hj
    have hj' : s.n + 1 ≤ j := hj
    rw [submitPre_jobs_ne _ _ _ _ _ _ (by omega)]
    exact h.blankDeps j (by omega)
  · intro j i o hi ho
    by_cases hj : j = s.n
    · subst hj
      rw [hlen] at hi
      rw [hnew i hi] at ho
      have hm := hok _ (List.getElem_mem hi)
      split at ho
      · rename_i d hd
        rw [hd] at hm
        simp only [Origin.job.injEq] at ho
        subst ho
        have := h.effLe d
        simp only at hm
        omega
      · rename_i hnj
        cases hdi : deps[i] with
        | job d => exact absurd hdi (hnj d)
        | tok t c => rw [hdi] at ho; cases ho
    · rw [submitPre_jobs_ne _ _ _ _ _ _ hj] at hi ho
      exact h.acyclic j i o hi ho
  · intro j i t c hi ho
    by_cases hj : j = s.n
    · subst hj
      rw [hlen] at hi
      rw [hnew i hi] at ho
      have hm := hok _ (List.getElem_mem hi)
      split at ho
      · cases ho
      · rw [ho] at hm; exact hm
    · rw [submitPre_jobs_ne _ _ _ _ _ _ hj] at hi ho
      exact h.tokOK j i t c hi ho
  · intro p hp
    have := h.regLt p hp
    show p.2 < s.n + 1
    omega
  · intro o ho; simp [submitPre, newJob] at ho
  · intro j hj
    show j < s.n + 1
    simp only [submitPre, newJob, List.mem_append, List.mem_singleton, Cb.register.injEq] at hj
    rcases hj with hj | hj
    · have := h.regCb j hj; omega
    · omega

theorem submitPost_invS (s : St) (j : Nat) (hj : s.n = j + 1) (h : InvS s) : InvS (submitPost s j) := by
  unfold submitPost
  split
  · rename_i o ho
    have := h.resLt o ho
    refine ⟨h.blankDeps, h.acyclic, h.tokOK, ?_, h.regLt, h.resLt, h.regCb⟩
    intro d
    simp only [upd]
    split
    · rename_i hd; subst hd; omega
    · exact h.effLe d
  · refine ⟨?_, ?_, ?_, ?_, h.regLt, h.resLt, ?_⟩
    · intro i hi
      simp only [put_n] at hi
      simp only [put_jobs]
      rw [upd_ne _ _ (by omega)]
      exact h.blankDeps i hi
    · intro i k o hk ho
      simp only [put_jobs] at hk ho
      by_cases hi : i = j
      · subst hi
        simp only [upd_same] at hk ho
        exact h.acyclic i k o hk ho
      · rw [upd_ne _ _ hi] at hk ho
        exact h.acyclic i k o hk ho
    · intro i k t c hk ho
      simp only [put_jobs] at hk ho
      by_cases hi : i = j
      · subst hi
        simp only [upd_same] at hk ho
        exact h.tokOK i k t c hk ho
      · rw [upd_ne _ _ hi] at hk ho
        exact h.tokOK i k t c hk ho
    · intro d
      simp only [put_eff, upd]
      split
      · rename_i hd; subst hd; exact Nat.le_refl _
      · exact h.effLe d
    · intro i hi
      simp only [put_ready, List.mem_append, List.mem_singleton] at hi
      rcases hi with hi | hi
      · exact h.regCb i hi
      · cases hi

theorem apply_invS (fl : Flags) (s : St) (ev : Ev) (hok : EvOK s ev) (h : InvS s) : InvS (s.apply fl ev) := by
  cases ev with
  | step => exact step_invS fl s h
  | wait =>
    refine ⟨h.blankDeps, h.acyclic, h.tokOK, h.effLe, h.regLt, h.resLt, ?_⟩
    intro j hj
    simp only [St.apply, List.mem_append, List.mem_singleton] at hj
    rcases hj with hj | hj
    · exact h.regCb j hj
    · cases hj
  | deliver k =>
    simp only [St.apply]
    split
    · refine ⟨h.blankDeps, h.acyclic, h.tokOK, h.effLe, h.regLt, h.resLt, ?_⟩
      intro j hj
      simp only [List.mem_append, List.mem_singleton] at hj
      rcases hj with hj | hj
      · exact h.regCb j hj
      · cases hj
    · exact h
  | submit ident deps code marker =>
    rw [apply_submit]
    refine submitPost_invS _ s.n (by rw [steps_n]; simp [submitPre, newJob]) ?_
    exact steps_invS fl _ _ (submitPre_invS s ident deps code marker hok h)

theorem init_invS (totals : List Nat) : InvS (St.init totals) :=
  ⟨fun _ _ => rfl, fun j i o hi _ => by simp [St.init] at hi, fun j i t c hi _ => by simp [St.init] at hi,
   fun d => Nat.le_refl _, fun p hp => by simp [St.init] at hp, fun o ho => by simp [St.init] at ho,
   fun j hj => by simp [St.init] at hj⟩

theorem reachable_invS {fl : Flags} {totals : List Nat} {s : St} (h : Reachable fl totals s) : InvS s := by
  induction h with
  | init => exact init_invS totals
  | next _ hok ih => exact apply_invS fl _ _ hok ih



/-! ### third layer, state level -/

/-- the first segment of the coroutine has begun. -/
def Started (s : St) (j : Nat) : Prop := (s.jobs j).state ≠ .unscheduled

/-- `(j, d)` names a dependency of a started job. -/
def DepOK (s : St) (j d : Nat) : Prop := Started s j ∧ d < (s.jobs j).deps.length

/-- pending checks and registered dependents refer to dependencies of started jobs, under the right origin. -/
structure InvK (s : St) : Prop where
  cbOK : ∀ j d, (Cb.check j d ∈ s.ready ∨ Cb.notifyCheck j d ∈ s.ready) → DepOK s j d
  jobDepsOK : ∀ o p, p ∈ s.jobDeps o → DepOK s p.1 p.2 ∧ (depAt (s.jobs p.1) p.2).origin = .job o
  tokDepsOK : ∀ t p, p ∈ s.tokDeps t → DepOK s p.1 p.2 ∧ ∃ c, (depAt (s.jobs p.1) p.2).origin = .tok t c

/-- a recorded OK / FAIL of a job dependency is the truth about its origin. -/
def XInv (s : St) : Prop :=
  ∀ j i o, i < (s.jobs j).deps.length → (depAt (s.jobs j) i).origin = .job o →
    ((depAt (s.jobs j) i).cur = .ok → (s.jobs o).state = .done) ∧
    ((depAt (s.jobs j) i).cur = .fail → (s.jobs o).state = .error)

/-- nobody has seen a final state of job `x` yet. -/
def NoDeps (s : St) (x : Nat) : Prop :=
  ∀ j i, i < (s.jobs j).deps.length → (depAt (s.jobs j) i).origin = .job x → (depAt (s.jobs j) i).cur = .wait

def JD (s : St) : Prop := ∀ j, JDeep (s.jobs j)

structure InvD (s : St) : Prop where
  recs : JD s
  truth : XInv s
  wf : InvK s

theorem status_job_ok (s : St) (o : Nat) : s.status (.job o) = .ok ↔ (s.jobs o).state = .done := by
  simp only [St.status]; cases (s.jobs o).state <;> simp
theorem status_job_fail (s : St) (o : Nat) : s.status (.job o) = .fail ↔ (s.jobs o).state = .error := by
  simp only [St.status]; cases (s.jobs o).state <;> simp
theorem status_tok_nofail (s : St) (t c : Nat) : s.status (.tok t c) ≠ .fail := by
  simp only [St.status]; split <;> simp

theorem isJobO_job {o : Origin} (h : isJobO o = true) : ∃ k, o = .job k := by
  cases o <;> simp [isJobO] at h ⊢
theorem isJobO_tok {o : Origin} (h : isJobO o = false) : ∃ t c, o = .tok t c := by
  cases o <;> simp [isJobO] at h ⊢

theorem statusOK_of_X {s : St} {j d : Nat} (hJ : JDeep (s.jobs j)) (hX : XInv s) (hd : d < (s.jobs j).deps.length) :
    StatusOK (s.jobs j) d (s.status (depAt (s.jobs j) d).origin) := by
  refine ⟨hd, ?_, ?_, ?_⟩
  · intro hj hc
    obtain ⟨o, ho⟩ := isJobO_job hj
    rw [ho, status_job_ok]
    exact (hX j d o hd ho).1 hc
  · intro hc
    cases hj : isJobO (depAt (s.jobs j) d).origin
    · exact absurd hc (hJ.tokNoFail d hd hj)
    · obtain ⟨o, ho⟩ := isJobO_job hj
      rw [ho, status_job_fail]
      exact (hX j d o hd ho).2 hc
  · intro hj
    obtain ⟨t, c, ho⟩ := isJobO_tok hj
    rw [ho]; exact status_tok_nofail s t c

/-- how `dependencychanged` rewrites the dependency list, seen through `depAt`. -/
theorem depChanged_depAt (fl : Flags) (jb : Job) (d : Nat) (st : DS) (hd : d < jb.deps.length) :
    (depChanged fl jb d st).1.deps.length = jb.deps.length ∧
    (∀ i, (depAt (depChanged fl jb d st).1 i).origin = (depAt jb i).origin) ∧
    (∀ i, i ≠ d → (depAt (depChanged fl jb d st).1 i).cur = (depAt jb i).cur) ∧
    (depAt (depChanged fl jb d st).1 d).cur = st := by
  rcases depChanged_deps fl jb d st with ⟨e1, e2⟩ | ⟨_, hdeps, _⟩
  · rw [e2]; exact ⟨rfl, fun _ => rfl, fun _ _ => rfl, e1.symm⟩
  · have hdep : ∀ i, depAt (depChanged fl jb d st).1 i
        = if i = d then { (depAt jb d) with cur := st } else depAt jb i := by
      intro i
      unfold depAt
      rw [hdeps, getD_set_dep]
      by_cases hi : i = d <;> simp [hi, hd, depAt]
    refine ⟨by rw [hdeps]; simp, fun i => ?_, fun i hi => by rw [hdep]; simp [hi], by rw [hdep]; simp⟩
    rw [hdep]; split
    · rename_i hi; subst hi; rfl
    · rfl

theorem depChanged_mono (fl : Flags) (hg : fl.readyGuarded = true) (jb : Job) (d : Nat) (st : DS) :
    (jb.state ≠ .unscheduled → (depChanged fl jb d st).1.state ≠ .unscheduled) ∧
    (jb.state = .done → (depChanged fl jb d st).1.state = .done) ∧
    (jb.state = .error → (depChanged fl jb d st).1.state = .error) := by
  have f := (depChanged_state fl jb d st).2.2.2.2.2
  simp only [hg, true_implies] at f
  rcases f with ⟨a, _⟩ | ⟨a, _, b, _⟩ | ⟨a, _, b, _⟩
  · rw [a]; exact ⟨id, id, id⟩
  · rw [b]
    refine ⟨fun _ h => (by cases h), fun h => ?_, fun _ => rfl⟩
    rw [h] at a; cases a
  · rw [a]
    refine ⟨fun _ h => (by cases h), fun h => ?_, fun h => ?_⟩ <;> rw [h] at b <;> cases b

theorem check_invD (fl : Flags) (hg : fl.readyGuarded = true) (s : St) (j d : Nat)
    (hL : JLocal (s.jobs j)) (h : InvD s) (hok : DepOK s j d) : InvD (s.check fl j d) := by
  have hst := statusOK_of_X (h.recs j) h.truth hok.2
  have hA := depChanged_depAt fl (s.jobs j) d (s.status (depAt (s.jobs j) d).origin) hok.2
  have hM := depChanged_mono fl hg (s.jobs j) d (s.status (depAt (s.jobs j) d).origin)
  have hJ := depChanged_jdeep fl hg (s.jobs j) d _ hL (h.recs j) hok.1 hst
  have ej : (s.check fl j d).jobs j = (depChanged fl (s.jobs j) d (s.status (depAt (s.jobs j) d).origin)).1 :=
    check_job fl s j d
  have ene : ∀ i, i ≠ j → (s.check fl j d).jobs i = s.jobs i := fun i hi => check_job_ne fl s j d i hi
  -- facts about every record after the check
  have hlen : ∀ i, ((s.check fl j d).jobs i).deps.length = (s.jobs i).deps.length := by
    intro i; by_cases hi : i = j
    · subst hi; rw [ej]; exact hA.1
    · rw [ene i hi]
  have horig : ∀ i k, (depAt ((s.check fl j d).jobs i) k).origin = (depAt (s.jobs i) k).origin := by
    intro i k; by_cases hi : i = j
    · subst hi; rw [ej]; exact hA.2.1 k
    · rw [ene i hi]
  have hstart : ∀ i, Started s i → Started (s.check fl j d) i := by
    intro i hi; unfold Started; by_cases hij : i = j
    · subst hij; rw [ej]; exact hM.1 hi
    · rw [ene i hij]; exact hi
  have hdone : ∀ o, (s.jobs o).state = .done → ((s.check fl j d).jobs o).state = .done := by
    intro o ho; by_cases hoj : o = j
    · subst hoj; rw [ej]; exact hM.2.1 ho
    · rw [ene o hoj]; exact ho
  have herr : ∀ o, (s.jobs o).state = .error → ((s.check fl j d).jobs o).state = .error := by
    intro o ho; by_cases hoj : o = j
    · subst hoj; rw [ej]; exact hM.2.2 ho
    · rw [ene o hoj]; exact ho
  have hdepok : ∀ i k, DepOK s i k → DepOK (s.check fl j d) i k :=
    fun i k hik => ⟨hstart i hik.1, by rw [hlen]; exact hik.2⟩
  refine ⟨?_, ?_, ?_⟩
  · intro i; by_cases hi : i = j
    · subst hi; rw [ej]; exact hJ
    · rw [ene i hi]; exact h.recs i
  · intro j' i o hi ho
    rw [hlen] at hi; rw [horig] at ho
    by_cases hj' : j' = j
    · subst hj'
      by_cases hid : i = d
      · subst hid
        rw [ej, hA.2.2.2, ho]
        exact ⟨fun hc => hdone o ((status_job_ok s o).1 hc), fun hc => herr o ((status_job_fail s o).1 hc)⟩
      · rw [ej, hA.2.2.1 i hid]
        have := h.truth j' i o hi ho
        exact ⟨fun hc => hdone o (this.1 hc), fun hc => herr o (this.2 hc)⟩
    · rw [ene j' hj']
      have := h.truth j' i o hi ho
      exact ⟨fun hc => hdone o (this.1 hc), fun hc => herr o (this.2 hc)⟩
  · have hr : ∀ cb, cb ∈ (s.check fl j d).ready → cb ∈ s.ready ∨ cb = .wake j := by
      intro cb hcb
      unfold St.check at hcb
      simp only [put_ready, List.mem_append] at hcb
      rcases hcb with hcb | hcb
      · exact Or.inl hcb
      · split at hcb <;> simp at hcb
        exact Or.inr hcb
    refine ⟨?_, ?_, ?_⟩
    · intro j' d' hm
      apply hdepok
      apply h.wf.cbOK
      rcases hm with hm | hm
      · rcases hr _ hm with hm | hm
        · exact Or.inl hm
        · cases hm
      · rcases hr _ hm with hm | hm
        · exact Or.inr hm
        · cases hm
    · intro o p hp
      have : (s.check fl j d).jobDeps = s.jobDeps := by unfold St.check; rfl
      rw [this] at hp
      have := h.wf.jobDepsOK o p hp
      exact ⟨hdepok _ _ this.1, by rw [horig]; exact this.2⟩
    · intro t p hp
      have : (s.check fl j d).tokDeps = s.tokDeps := by unfold St.check; rfl
      rw [this] at hp
      have := h.wf.tokDepsOK t p hp
      exact ⟨hdepok _ _ this.1, by rw [horig]; exact this.2⟩

theorem check_noDeps (fl : Flags) (s : St) (j d x : Nat) (hd : d < (s.jobs j).deps.length)
    (hne : (depAt (s.jobs j) d).origin ≠ .job x) (h : NoDeps s x) : NoDeps (s.check fl j d) x := by
  have hA := depChanged_depAt fl (s.jobs j) d (s.status (depAt (s.jobs j) d).origin) hd
  intro j' i hi ho
  by_cases hj' : j' = j
  · subst hj'
    have ej : (s.check fl j' d).jobs j' = (depChanged fl (s.jobs j') d (s.status (depAt (s.jobs j') d).origin)).1 :=
      check_job fl s j' d
    rw [ej] at hi ho ⊢
    rw [hA.1] at hi; rw [hA.2.1] at ho
    by_cases hid : i = d
    · subst hid; exact absurd ho hne
    · rw [hA.2.2.1 i hid]; exact h j' i hi ho
  · rw [check_job_ne _ _ _ _ _ hj'] at hi ho ⊢
    exact h j' i hi ho



/-- a callback that is not a dependency check. -/
def notChk : Cb → Prop
  | .check _ _ | .notifyCheck _ _ => False
  | _ => True

/-- the third layer reads only `jobs`, `ready`, `jobDeps`, `tokDeps`; the queue may grow by well-formed checks. -/
theorem invD_grow {s s' : St} (new : List Cb) (hj : s'.jobs = s.jobs) (hr : s'.ready = s.ready ++ new)
    (hjd : s'.jobDeps = s.jobDeps) (htd : s'.tokDeps = s.tokDeps)
    (hnew : ∀ j d, (Cb.check j d ∈ new ∨ Cb.notifyCheck j d ∈ new) → DepOK s j d) (h : InvD s) : InvD s' := by
  refine ⟨by intro j; rw [hj]; exact h.recs j, by unfold XInv; rw [hj]; exact h.truth, ?_, ?_, ?_⟩
  · intro j d hm
    unfold DepOK Started; rw [hj]
    rw [hr] at hm
    simp only [List.mem_append] at hm
    rcases hm with (hm | hm) | (hm | hm)
    · exact h.wf.cbOK j d (Or.inl hm)
    · exact hnew j d (Or.inl hm)
    · exact h.wf.cbOK j d (Or.inr hm)
    · exact hnew j d (Or.inr hm)
  · intro o p hp; unfold DepOK Started; rw [hj]; rw [hjd] at hp; exact h.wf.jobDepsOK o p hp
  · intro t p hp; unfold DepOK Started; rw [hj]; rw [htd] at hp; exact h.wf.tokDepsOK t p hp

theorem invD_same {s s' : St} (hj : s'.jobs = s.jobs) (hr : s'.ready = s.ready)
    (hjd : s'.jobDeps = s.jobDeps) (htd : s'.tokDeps = s.tokDeps) (h : InvD s) : InvD s' :=
  invD_grow [] hj (by rw [hr, List.append_nil]) hjd htd (by intro j d hm; simp at hm) h

theorem noDeps_same {s s' : St} {x : Nat} (hj : s'.jobs = s.jobs) (h : NoDeps s x) : NoDeps s' x := by
  unfold NoDeps; rw [hj]; exact h

/-- job `x` rewrites its own record: dependency list untouched, a final state is kept (or nobody looked yet). -/
theorem put_invD (s : St) (x : Nat) (jb : Job) (cbs : List Cb) (ths : List (TK × Nat)) (h : InvD s)
    (hJ : JDeep jb) (hdeps : jb.deps = (s.jobs x).deps) (hstart : Started s x → jb.state ≠ .unscheduled)
    (hmono : ((s.jobs x).state = .done → jb.state = .done) ∧ ((s.jobs x).state = .error → jb.state = .error) ∨ NoDeps s x)
    (hcbs : ∀ cb ∈ cbs, notChk cb) : InvD (s.put x jb cbs ths) := by
  have hdepAt : ∀ i k, depAt ((s.put x jb cbs ths).jobs i) k = depAt (s.jobs i) k := by
    intro i k
    by_cases hi : i = x
    · subst hi; simp [depAt, hdeps]
    · simp [upd_ne _ _ hi]
  have hlen : ∀ i, ((s.put x jb cbs ths).jobs i).deps.length = (s.jobs i).deps.length := by
    intro i
    by_cases hi : i = x
    · subst hi; simp [hdeps]
    · simp [upd_ne _ _ hi]
  have hdepok : ∀ i k, DepOK s i k → DepOK (s.put x jb cbs ths) i k := by
    intro i k hik
    refine ⟨?_, by rw [hlen]; exact hik.2⟩
    unfold Started
    by_cases hi : i = x
    · subst hi; simp only [put_jobs, upd_same]; exact hstart hik.1
    · simp only [put_jobs, upd_ne _ _ hi]; exact hik.1
  refine ⟨?_, ?_, ?_, ?_, ?_⟩
  · intro i
    by_cases hi : i = x
    · subst hi; simp only [put_jobs, upd_same]; exact hJ
    · simp only [put_jobs, upd_ne _ _ hi]; exact h.recs i
  · intro j i o hi ho
    rw [hlen] at hi; rw [hdepAt] at ho ⊢
    have hX := h.truth j i o hi ho
    by_cases hox : o = x
    · subst hox
      simp only [put_jobs, upd_same]
      rcases hmono with hm | hm
      · exact ⟨fun hc => hm.1 (hX.1 hc), fun hc => hm.2 (hX.2 hc)⟩
      · have := hm j i hi ho
        rw [this]; exact ⟨fun hc => (by cases hc), fun hc => (by cases hc)⟩
    · simp only [put_jobs, upd_ne _ _ hox]; exact hX
  · intro j d hm
    apply hdepok
    apply h.wf.cbOK
    simp only [put_ready, List.mem_append] at hm
    rcases hm with (hm | hm) | (hm | hm)
    · exact Or.inl hm
    · exact absurd (hcbs _ hm) (by simp [notChk])
    · exact Or.inr hm
    · exact absurd (hcbs _ hm) (by simp [notChk])
  · intro o p hp
    have := h.wf.jobDepsOK o p hp
    exact ⟨hdepok _ _ this.1, by rw [hdepAt]; exact this.2⟩
  · intro t p hp
    have := h.wf.tokDepsOK t p hp
    exact ⟨hdepok _ _ this.1, by rw [hdepAt]; exact this.2⟩

theorem put_noDeps (s : St) (x y : Nat) (jb : Job) (cbs : List Cb) (ths : List (TK × Nat))
    (hdeps : jb.deps = (s.jobs x).deps) (h : NoDeps s y) : NoDeps (s.put x jb cbs ths) y := by
  intro j i hi ho
  by_cases hj : j = x
  · subst hj
    simp only [put_jobs, upd_same, depAt, hdeps] at hi ho ⊢
    exact h j i hi ho
  · simp only [put_jobs, upd_ne _ _ hj] at hi ho ⊢
    exact h j i hi ho

theorem regOne_invD (s : St) (j d : Nat) (hok : DepOK s j d) (h : InvD s) : InvD (regOne s j d) := by
  have hjobs : (regOne s j d).jobs = s.jobs := (regOne_frame s j d).1
  have hready : (regOne s j d).ready = s.ready := (regOne_frame s j d).2.1
  refine ⟨by intro i; rw [hjobs]; exact h.recs i, by unfold XInv; rw [hjobs]; exact h.truth, ?_, ?_, ?_⟩
  · intro i k hm; unfold DepOK Started; rw [hjobs]; rw [hready] at hm; exact h.wf.cbOK i k hm
  · intro o p hp
    unfold DepOK Started; rw [hjobs]
    unfold regOne at hp
    split at hp
    · rename_i o' ho'
      simp only [upd] at hp
      split at hp
      · rename_i hoo; subst hoo
        simp only [List.mem_append, List.mem_singleton] at hp
        rcases hp with hp | hp
        · exact h.wf.jobDepsOK o p hp
        · subst hp; exact ⟨hok, ho'⟩
      · exact h.wf.jobDepsOK o p hp
    · exact h.wf.jobDepsOK o p hp
  · intro t p hp
    unfold DepOK Started; rw [hjobs]
    unfold regOne at hp
    split at hp
    · exact h.wf.tokDepsOK t p hp
    · rename_i t' c' ho'
      simp only [upd] at hp
      split at hp
      · rename_i htt; subst htt
        simp only [List.mem_append, List.mem_singleton] at hp
        rcases hp with hp | hp
        · exact h.wf.tokDepsOK t p hp
        · subst hp; exact ⟨hok, c', ho'⟩
      · exact h.wf.tokDepsOK t p hp

theorem relOne_invD (s : St) (j d : Nat) (h : InvD s) : InvD (relOne s j d) := by
  unfold relOne
  split
  · exact h
  · rename_i t c _
    refine invD_grow (s := s) ((s.tokDeps t).map (fun (p : Nat × Nat) => Cb.notifyCheck p.1 p.2)) rfl rfl rfl rfl ?_ h
    intro j' d' hm
    simp only [List.mem_map] at hm
    rcases hm with ⟨p, _, hp⟩ | ⟨p, hp, e⟩
    · cases hp
    · simp only [Cb.notifyCheck.injEq] at e
      have := (h.wf.tokDepsOK t p hp).1
      rw [e.1, e.2] at this; exact this

theorem jdeep_held {jb : Job} (hl : List Nat) (h : JDeep jb) : JDeep { jb with held := hl } :=
  ⟨h.doneEnd, h.lockReady, h.runRunning, h.fresh, h.pristine, h.counter, h.readyDeps, h.tokNoFail, h.failedWit,
   h.failedNoLaunch⟩

theorem acqOne_invD (s : St) (x d : Nat) (h : InvD s) : InvD (acqOne s x d) := by
  unfold acqOne
  split
  · exact put_invD s x _ _ _ h (jdeep_held _ (h.recs x)) rfl id (Or.inl ⟨id, id⟩) (by simp)
  · refine put_invD _ x _ _ _ (invD_same (s := s) rfl rfl rfl rfl h) (jdeep_held _ (h.recs x)) rfl id (Or.inl ⟨id, id⟩) (by simp)



/-! ### shapes: the net effect of the straight-line tails on the state -/

/-- `s'` is `s` with job `x` replaced by `jb` and `cbs` appended, as far as the third layer can see. -/
structure Shape (s s' : St) (x : Nat) (jb : Job) (cbs : List Cb) : Prop where
  jobs : s'.jobs = upd s.jobs x jb
  ready : s'.ready = s.ready ++ cbs
  jobDeps : s'.jobDeps = s.jobDeps
  tokDeps : s'.tokDeps = s.tokDeps
  avail : s'.avail = s.avail

theorem Shape.put (s : St) (x : Nat) (jb : Job) (cbs : List Cb) (ths : List (TK × Nat)) :
    Shape s (s.put x jb cbs ths) x jb cbs := ⟨rfl, rfl, rfl, rfl, rfl⟩

/-- a shape after a shape on the same job. -/
theorem Shape.trans {a b c : St} {x : Nat} {jb1 jb2 : Job} {c1 c2 : List Cb} (h1 : Shape a b x jb1 c1)
    (h2 : Shape b c x jb2 c2) : Shape a c x jb2 (c1 ++ c2) := by
  refine ⟨?_, by rw [h2.ready, h1.ready, List.append_assoc], h2.jobDeps.trans h1.jobDeps, h2.tokDeps.trans h1.tokDeps,
    h2.avail.trans h1.avail⟩
  rw [h2.jobs, h1.jobs]
  funext i
  simp only [upd]
  split <;> rfl

theorem shape_invD {s s' : St} {x : Nat} {jb : Job} {cbs : List Cb} (hs : Shape s s' x jb cbs) (h : InvD s)
    (hJ : JDeep jb) (hdeps : jb.deps = (s.jobs x).deps) (hstart : Started s x → jb.state ≠ .unscheduled)
    (hmono : ((s.jobs x).state = .done → jb.state = .done) ∧ ((s.jobs x).state = .error → jb.state = .error) ∨ NoDeps s x)
    (hcbs : ∀ cb ∈ cbs, notChk cb) : InvD s' :=
  invD_same (s := s.put x jb cbs []) hs.jobs hs.ready hs.jobDeps hs.tokDeps
    (put_invD s x jb cbs [] h hJ hdeps hstart hmono hcbs)

theorem finish_shape (s : St) (x : Nat) : Shape s (s.finish x) x { (s.jobs x) with pc := .doneHandler } [] := by
  unfold St.finish
  simp only
  split <;> exact ⟨rfl, by simp, rfl, rfl, rfl⟩

theorem loopHead_shape (s : St) (x : Nat) : Shape s (s.loopHead x) x (loopHeadJ (s.jobs x)) [] := by
  unfold St.loopHead loopHeadJ
  simp only
  split
  · exact finish_shape s x
  · split
    · split <;> exact ⟨rfl, by simp, rfl, rfl, rfl⟩
    · exact ⟨rfl, by simp, rfl, rfl, rfl⟩

/-- a put on `x` followed by `loopHead`. -/
theorem put_loopHead_shape (s : St) (x : Nat) (jb : Job) (cbs : List Cb) (ths : List (TK × Nat)) :
    Shape s ((s.put x jb cbs ths).loopHead x) x (loopHeadJ jb) cbs := by
  have := (Shape.put s x jb cbs ths).trans (loopHead_shape (s.put x jb cbs ths) x)
  simpa using this

/-! ### record-level steps -/

/-- a record update that keeps the dependency bookkeeping. -/
theorem jdeep_step {jb jb' : Job} (h : JDeep jb) (hst : jb.state ≠ .unscheduled)
    (hdeps : jb'.deps = jb.deps) (hunsat : jb'.unsat = jb.unsat) (hfd : jb'.failedDep = jb.failedDep)
    (hl : jb'.launches = jb.launches ∨ jb.failedDep = false)
    (hst' : jb'.state ≠ .unscheduled)
    (h1 : jb'.state = .done → pcEnd jb'.pc = true)
    (h2 : jb'.pc = .lockEnter ∨ jb'.pc = .lockExitAbort → jb'.state = .ready)
    (h3 : pcRun jb'.pc = true → jb'.state = .running)
    (h4 : jb'.state = .ready ∨ jb'.state = .running → (jb.state = .ready ∨ jb.state = .running) ∨ jb'.unsat = 0) :
    JDeep jb' := by
  have hdep : ∀ i, depAt jb' i = depAt jb i := fun i => by simp [depAt, hdeps]
  refine ⟨h1, h2, h3, fun hx => absurd hx hst', fun hx => absurd hx hst', ?_, ?_, ?_, ?_, ?_⟩
  · intro _; rw [hunsat, hdeps]; exact h.counter hst
  · intro hr i hi hj
    rw [hdeps] at hi; rw [hdep] at hj ⊢
    rcases h4 hr with hr' | hz
    · exact h.readyDeps hr' i hi hj
    · have := h.counter hst
      rw [hunsat] at hz
      exact cntBad_zero jb.deps (by rw [← this]; exact hz) i hi
  · intro i hi hj; rw [hdeps] at hi; rw [hdep] at hj ⊢; exact h.tokNoFail i hi hj
  · intro hf; rw [hfd] at hf
    obtain ⟨i, hi, hc⟩ := h.failedWit hf
    exact ⟨i, by rw [hdeps]; exact hi, by rw [hdep]; exact hc⟩
  · intro hf; rw [hfd] at hf
    rcases hl with hl | hl
    · rw [hl]; exact h.failedNoLaunch hf
    · rw [hl] at hf; cases hf

theorem eventSet_jdeep {jb : Job} (h : JDeep jb) : JDeep (eventSet jb).1 := by
  have e := eventSet_frame jb
  obtain ⟨e1, e2, e3, _, _, _, e7, _, e9, e10, _⟩ := e
  have hdep : ∀ i, depAt (eventSet jb).1 i = depAt jb i := fun i => by simp [depAt, e9]
  refine ⟨by rw [e1, e2]; exact h.doneEnd, by rw [e1, e2]; exact h.lockReady, by rw [e1, e2]; exact h.runRunning,
    by rw [e1, e2]; exact h.fresh, ?_, by rw [e2, e9, e10]; exact h.counter, ?_, ?_, ?_,
    by rw [e7, e3]; exact h.failedNoLaunch⟩
  · rw [e2, e7, e10, e9]; intro hx; have := h.pristine hx
    exact ⟨this.1, this.2.1, fun i hi => by rw [hdep]; exact this.2.2 i hi⟩
  · rw [e2, e9]; intro hr i hi hj; rw [hdep] at hj ⊢; exact h.readyDeps hr i hi hj
  · rw [e9]; intro i hi hj; rw [hdep] at hj ⊢; exact h.tokNoFail i hi hj
  · rw [e7, e9]; intro hf; obtain ⟨i, hi, hc⟩ := h.failedWit hf; exact ⟨i, hi, by rw [hdep]; exact hc⟩

theorem loopHeadJ_frame (jb : Job) :
    (loopHeadJ jb).deps = jb.deps ∧ (loopHeadJ jb).unsat = jb.unsat ∧ (loopHeadJ jb).failedDep = jb.failedDep ∧
    (loopHeadJ jb).launches = jb.launches ∧ (loopHeadJ jb).state = jb.state ∧
    ((loopHeadJ jb).pc = .doneHandler ∧ jb.state.finished = true ∨
     (loopHeadJ jb).pc = .lockEnter ∧ jb.state = .ready ∨
     (loopHeadJ jb).pc = .evtWait ∧ jb.state.finished = false) := by
  unfold loopHeadJ
  split
  · rename_i h; simp [h]
  · rename_i h
    split
    · split
      · rename_i h2; simp [h2]
      · simp; simpa using h
    · simp; simpa using h

/-- `loopHead` applied to a record `jbw` that differs from a good record `jb` only in state / event / pc. -/
theorem loopHeadJ_jdeep {jb jbw : Job} (h : JDeep jb) (hst : jb.state ≠ .unscheduled)
    (hdeps : jbw.deps = jb.deps) (hunsat : jbw.unsat = jb.unsat) (hfd : jbw.failedDep = jb.failedDep)
    (hl : jbw.launches = jb.launches) (hst' : jbw.state ≠ .unscheduled)
    (h4 : jbw.state = .ready ∨ jbw.state = .running → (jb.state = .ready ∨ jb.state = .running) ∨ jbw.unsat = 0) :
    JDeep (loopHeadJ jbw) := by
  obtain ⟨f1, f2, f3, f4, f5, f6⟩ := loopHeadJ_frame jbw
  refine jdeep_step h hst (f1.trans hdeps) (f2.trans hunsat) (f3.trans hfd) (Or.inl (f4.trans hl))
    (by rw [f5]; exact hst') ?_ ?_ ?_ (by rw [f5, f2]; exact h4)
  · intro hd
    rcases f6 with ⟨p, _⟩ | ⟨_, r⟩ | ⟨_, r⟩
    · rw [p]; rfl
    · rw [f5, r] at hd; cases hd
    · rw [f5] at hd; rw [hd] at r; cases r
  · intro hp
    rcases f6 with ⟨p, _⟩ | ⟨_, r⟩ | ⟨p, _⟩
    · rw [p] at hp; rcases hp with hp | hp <;> cases hp
    · rw [f5]; exact r
    · rw [p] at hp; rcases hp with hp | hp <;> cases hp
  · intro hp
    rcases f6 with ⟨p, _⟩ | ⟨p, _⟩ | ⟨p, _⟩ <;> rw [p] at hp <;> cases hp

/-- a READY / RUNNING record has no failed dependency. -/
theorem jdeep_ready_nofail {jb : Job} (h : JDeep jb) (hr : jb.state = .ready ∨ jb.state = .running) :
    jb.failedDep = false := by
  cases hf : jb.failedDep
  · rfl
  · obtain ⟨i, hi, hc⟩ := h.failedWit hf
    cases hj : isJobO (depAt jb i).origin
    · exact absurd hc (h.tokNoFail i hi hj)
    · have := h.readyDeps hr i hi hj
      rw [this] at hc; cases hc

/-- the first assignment of the coroutine, dependencies present. -/
theorem jdeep_start {jb : Job} (h : JDeep jb) (hu : jb.state = .unscheduled) :
    JDeep { jb with state := .waiting, event := false, sleeping := false, unsat := jb.deps.length } := by
  obtain ⟨p1, _, p3⟩ := h.pristine hu
  refine ⟨fun hx => (by cases hx), ?_, ?_, fun hx => (by cases hx), fun hx => (by cases hx), ?_, ?_, ?_, ?_, ?_⟩
  · intro hp
    rcases h.fresh hu with e | e <;> rcases hp with hp | hp <;> simp only at hp <;> rw [e] at hp <;> cases hp
  · intro hp
    simp only at hp
    rcases h.fresh hu with e | e <;> rw [e] at hp <;> cases hp
  · intro _; exact (cntBad_all_wait jb.deps p3).symm
  · intro hr; rcases hr with hr | hr <;> cases hr
  · exact h.tokNoFail
  · intro hf; simp only at hf; rw [p1] at hf; cases hf
  · intro hf; simp only at hf; rw [p1] at hf; cases hf

/-- the first assignment of the coroutine, no dependencies. -/
theorem jdeep_start_nodeps {jb : Job} (h : JDeep jb) (hu : jb.state = .unscheduled) (hd : jb.deps = []) :
    JDeep { jb with state := .ready, event := true, sleeping := false } := by
  obtain ⟨p1, p2, _⟩ := h.pristine hu
  refine ⟨fun hx => (by cases hx), fun _ => rfl, ?_, fun hx => (by cases hx), fun hx => (by cases hx), ?_, ?_, ?_, ?_, ?_⟩
  · intro hp
    simp only at hp
    rcases h.fresh hu with e | e <;> rw [e] at hp <;> cases hp
  · intro _; simp only [hd, cntBad]; exact p2
  · intro _ i hi; simp [hd] at hi
  · intro i hi; simp [hd] at hi
  · intro hf; simp only at hf; rw [p1] at hf; cases hf
  · intro hf; simp only at hf; rw [p1] at hf; cases hf



theorem noDeps_of_unscheduled {s : St} {x : Nat} (hX : XInv s) (hu : (s.jobs x).state = .unscheduled) :
    NoDeps s x := by
  intro j i hi ho
  have := hX j i x hi ho
  cases hc : (depAt (s.jobs j) i).cur
  · rfl
  · have := this.1 hc; rw [hu] at this; cases this
  · have := this.2 hc; rw [hu] at this; cases this

/-- the marker test followed by `loopHead`, as a shape. -/
theorem marker_loopHead_shape (s : St) (x : Nat) :
    Shape s ((if (s.jobs x).marker then s.put x { (s.jobs x) with state := .done } else s).loopHead x) x
      (loopHeadJ (if (s.jobs x).marker then { (s.jobs x) with state := .done } else s.jobs x)) [] := by
  split
  · exact put_loopHead_shape s x _ [] []
  · exact loopHead_shape s x

def startRec (jb : Job) : Job := { jb with state := .waiting, event := false, sleeping := false }
def startRecDeps (jb : Job) : Job := { startRec jb with unsat := jb.deps.length }
def startRecNoDeps (jb : Job) : Job := { startRec jb with event := true, state := .ready }

theorem jdeep_startRecDeps {jb : Job} (h : JDeep jb) (hu : jb.state = .unscheduled) : JDeep (startRecDeps jb) := by
  have := jdeep_start h hu
  exact this

theorem jdeep_startRecNoDeps {jb : Job} (h : JDeep jb) (hu : jb.state = .unscheduled) (hd : jb.deps = []) :
    JDeep (startRecNoDeps jb) := by
  have := jdeep_start_nodeps h hu hd
  exact this

/-- the first segment up to (excluding) the marker test. -/
def regPhase (fl : Flags) (s : St) (x : Nat) : St :=
  if (s.jobs x).deps.isEmpty then (s.put x (startRec (s.jobs x))).put x (startRecNoDeps (s.jobs x))
  else St.registerDeps fl ((s.put x (startRec (s.jobs x))).put x (startRecDeps (s.jobs x))) x (s.jobs x).deps.length 0

theorem startJob_eq (fl : Flags) (s : St) (x : Nat) :
    s.startJob fl x = (if ((regPhase fl s x).jobs x).marker
      then (regPhase fl s x).put x { ((regPhase fl s x).jobs x) with state := .done }
      else regPhase fl s x).loopHead x := by
  unfold St.startJob regPhase
  simp only [startRec, startRecDeps, startRecNoDeps]
  split <;> rfl

theorem put_put_shape (s : St) (x : Nat) (a b : Job) :
    Shape s ((s.put x a).put x b) x b [] := by
  simpa using (Shape.put s x a [] []).trans (Shape.put (s.put x a) x b [] [])

/-- what holds in the first segment once the record is initialised. -/
def StartQ (s s' : St) (x : Nat) : Prop :=
  InvD s' ∧ NoDeps s' x ∧ Started s' x ∧ JLocal (s'.jobs x) ∧ Frame s s' x

theorem startRec_jlocal {jb : Job} (hL : JLocal jb) (hp : jb.pc = .none ∨ jb.pc = .created) (jb' : Job)
    (h1 : jb'.pc = jb.pc) (h2 : jb'.launches = jb.launches) (h3 : jb'.marker = jb.marker) (h4 : jb'.code = jb.code)
    (h5 : jb'.state = .waiting ∨ jb'.state = .ready) : JLocal jb' := by
  unfold JLocal at hL ⊢
  rw [h1, h2, h3, h4]
  rcases hp with hp | hp <;> rcases h5 with h5 | h5 <;> simp only [hp, h5, pcEnd, pcEarly, pcRun] at hL ⊢ <;> grind

theorem startQ_len {s s' : St} {x : Nat} (hq : StartQ s s' x) :
    (s'.jobs x).deps.length = (s.jobs x).deps.length ∧
    ∀ i, (depAt (s'.jobs x) i).origin = (depAt (s.jobs x) i).origin :=
  sameConst_origin hq.2.2.2.2.2.2.2.2.2

theorem startQ_regOne (s s' : St) (x d : Nat) (hd : d < (s.jobs x).deps.length) (hq : StartQ s s' x) :
    StartQ s (regOne s' x d) x := by
  have hlen := startQ_len hq
  obtain ⟨hD, hN, hSt, hLs, hF⟩ := hq
  have hjobs := (regOne_frame s' x d).1
  refine ⟨regOne_invD s' x d ⟨hSt, by rw [hlen.1]; exact hd⟩ hD, noDeps_same hjobs hN, ?_, ?_,
    hF.trans (regOne_frameF s' x d x)⟩
  · unfold Started; rw [hjobs]; exact hSt
  · rw [hjobs]; exact hLs

theorem startQ_check (fl : Flags) (hg : fl.readyGuarded = true) (s s' : St) (x d : Nat) (hS : InvS s)
    (hd : d < (s.jobs x).deps.length) (hq : StartQ s s' x) : StartQ s (s'.check fl x d) x := by
  have hlen := startQ_len hq
  obtain ⟨hD, hN, hSt, hLs, hF⟩ := hq
  have hd' : d < (s'.jobs x).deps.length := by rw [hlen.1]; exact hd
  refine ⟨check_invD fl hg s' x d hLs hD ⟨hSt, hd'⟩, check_noDeps fl s' x d x hd' ?_ hN, ?_,
    check_jl fl hg s' x d x hLs, hF.trans (check_frame fl s' x d)⟩
  · intro ho
    rw [hlen.2] at ho
    exact Nat.lt_irrefl x (hS.acyclic x d x hd ho)
  · unfold Started
    rw [check_job]
    exact (depChanged_mono fl hg _ _ _).1 hSt

theorem regPhase_Q (fl : Flags) (hg : fl.readyGuarded = true) (s : St) (x : Nat)
    (hL : JLocal (s.jobs x)) (hS : InvS s) (h : InvD s) (hu : (s.jobs x).state = .unscheduled) :
    StartQ s (regPhase fl s x) x := by
  have hND := noDeps_of_unscheduled h.truth hu
  have hJ0 := h.recs x
  have hp := hJ0.fresh hu
  unfold regPhase
  split
  · rename_i hemp
    have hd : (s.jobs x).deps = [] := by simpa using hemp
    refine ⟨shape_invD (put_put_shape s x _ _) h (jdeep_startRecNoDeps hJ0 hu hd) rfl (fun _ => by simp [startRecNoDeps])
      (Or.inr hND) (by simp), ?_, ?_, ?_, ?_⟩
    · exact put_noDeps _ x x _ _ _ (by simp [startRecNoDeps, startRecDeps, startRec]) (put_noDeps s x x _ _ _ rfl hND)
    · simp [Started, startRecNoDeps]
    · simp only [put_jobs, upd_same]
      exact startRec_jlocal hL hp _ rfl rfl rfl rfl (Or.inr rfl)
    · exact (Frame.put s x (startRec (s.jobs x)) [] [] ⟨rfl, rfl, rfl, rfl⟩).trans (Frame.put (s.put x (startRec (s.jobs x))) x _ [] [] (by rw [put_jobs, upd_same]; exact ⟨rfl, rfl, rfl, rfl⟩))
  · have hQ1 : StartQ s ((s.put x (startRec (s.jobs x))).put x (startRecDeps (s.jobs x))) x := by
      refine ⟨shape_invD (put_put_shape s x _ _) h (jdeep_startRecDeps hJ0 hu) rfl (fun _ => by simp [startRecDeps, startRec])
        (Or.inr hND) (by simp), ?_, ?_, ?_, ?_⟩
      · exact put_noDeps _ x x _ _ _ (by simp [startRecNoDeps, startRecDeps, startRec]) (put_noDeps s x x _ _ _ rfl hND)
      · simp [Started, startRecDeps, startRec]
      · simp only [put_jobs, upd_same]
        exact startRec_jlocal hL hp _ rfl rfl rfl rfl (Or.inl rfl)
      · exact (Frame.put s x (startRec (s.jobs x)) [] [] ⟨rfl, rfl, rfl, rfl⟩).trans (Frame.put (s.put x (startRec (s.jobs x))) x _ [] [] (by rw [put_jobs, upd_same]; exact ⟨rfl, rfl, rfl, rfl⟩))
    refine registerDeps_ind (fun s' => StartQ s s' x) fl x (s.jobs x).deps.length ?_ ?_ _ 0 _ (Nat.zero_add _) hQ1
    · intro s' d hd hq; exact startQ_regOne s s' x d hd hq
    · intro s' d hd hq; exact startQ_check fl hg s s' x d hS hd hq

theorem startJob_invD (fl : Flags) (hg : fl.readyGuarded = true) (s : St) (x : Nat)
    (hL : JLocal (s.jobs x)) (hS : InvS s) (h : InvD s) (hu : (s.jobs x).state = .unscheduled) :
    InvD (s.startJob fl x) := by
  rw [startJob_eq]
  obtain ⟨hD, hN, hSt, _, _⟩ := regPhase_Q fl hg s x hL hS h hu
  generalize regPhase fl s x = s2 at hD hN hSt
  refine shape_invD (marker_loopHead_shape s2 x) hD ?_ ?_ ?_ (Or.inr hN) (by simp)
  · refine loopHeadJ_jdeep (hD.recs x) hSt ?_ ?_ ?_ ?_ ?_ ?_ <;> split <;> (try rfl)
    · simp
    · exact hSt
    · intro hr; simp at hr
    · intro hr; exact Or.inl hr
  · rw [(loopHeadJ_frame _).1]; split <;> rfl
  · intro _; rw [(loopHeadJ_frame _).2.2.2.2.1]; split
    · simp
    · exact hSt



theorem started_of_pc {jb : Job} (h : JDeep jb) (hp : jb.pc ≠ .none ∧ jb.pc ≠ .created) : jb.state ≠ .unscheduled := by
  intro hu
  rcases h.fresh hu with e | e
  · exact hp.1 e
  · exact hp.2 e

theorem mono_refl (jb jb' : Job) (h : jb'.state = jb.state) :
    (jb.state = .done → jb'.state = .done) ∧ (jb.state = .error → jb'.state = .error) := by
  rw [h]; exact ⟨id, id⟩

theorem mono_of_ready (jb jb' : Job) (h : jb.state = .ready ∨ jb.state = .running) :
    (jb.state = .done → jb'.state = .done) ∧ (jb.state = .error → jb'.state = .error) := by
  rcases h with h | h <;> rw [h] <;> exact ⟨fun e => (by cases e), fun e => (by cases e)⟩

theorem notChk_wake (b : Bool) (x : Nat) : ∀ cb ∈ (if b = true then [Cb.wake x] else []), notChk cb := by
  cases b <;> simp [notChk]

theorem wake_invD (fl : Flags) (s : St) (x : Nat) (h : InvD s) (hpc : (s.jobs x).pc = .evtWait) :
    InvD (s.runCb fl (.wake x)) := by
  have hJ := h.recs x
  have hst := started_of_pc hJ (by rw [hpc]; exact ⟨fun e => (by cases e), fun e => (by cases e)⟩)
  simp only [St.runCb]
  split
  · rename_i hr
    refine put_invD s x _ _ _ h ?_ rfl (fun _ => hst) (Or.inl (mono_refl _ _ rfl)) (by simp)
    exact jdeep_step hJ hst rfl rfl rfl (Or.inl rfl) hst (fun e => by rw [hr] at e; cases e) (fun _ => hr)
      (fun e => by cases e) (fun e => Or.inl e)
  · refine shape_invD (put_loopHead_shape s x _ [] []) h ?_ ?_ ?_ (Or.inl ?_) (by simp)
    · exact loopHeadJ_jdeep hJ hst rfl rfl rfl rfl hst (fun e => Or.inl e)
    · rw [(loopHeadJ_frame _).1]
    · intro _; rw [(loopHeadJ_frame _).2.2.2.2.1]; exact hst
    · exact mono_refl _ _ (by rw [(loopHeadJ_frame _).2.2.2.2.1])

theorem releaseAll_invD (s : St) (x : Nat) (ds : List Nat) (h : InvD s) : InvD (St.releaseAll s x ds) :=
  releaseAll_ind InvD x (fun _ => True)
    (fun s' d _ h' => relOne_invD s' x d h')
    (fun s' h' => put_invD s' x _ _ _ h' (jdeep_held _ (h'.recs x)) rfl id (Or.inl ⟨id, id⟩) (by simp))
    ds s (fun _ _ => trivial) h

theorem acquireAll_invD (s : St) (x k d : Nat) (h : InvD s) :
    InvD (St.acquireAll s x k d).1 ∧ ∀ e, (St.acquireAll s x k d).2 = some e → e < d + k :=
  let r := acquireAll_ind InvD x (d + k) (fun s' d _ _ h' => acqOne_invD s' x d h') k d s rfl h
  ⟨r.1, fun e he => (r.2 e he).1⟩

theorem abortRelease_invD (fl : Flags) (s : St) (x : Nat) (h : InvD s) : InvD (abortRelease fl s x) := by
  unfold abortRelease; split
  · exact releaseAll_invD s x _ h
  · exact h

theorem enterTail_invD (fl : Flags) (hg : fl.readyGuarded = true) (r : St × Option Nat) (x : Nat)
    (hL : JLocal (r.1.jobs x)) (h : InvD r.1) (hpc : (r.1.jobs x).pc = .lockEnter)
    (hlt : ∀ e, r.2 = some e → e < (r.1.jobs x).deps.length) : InvD (enterTail fl r x) := by
  obtain ⟨s1, fa⟩ := r
  simp only at hL h hpc hlt
  have hJ := h.recs x
  have hst := started_of_pc hJ (by rw [hpc]; exact ⟨fun e => (by cases e), fun e => (by cases e)⟩)
  unfold enterTail
  cases fa with
  | some d =>
    simp only
    obtain ⟨hl, e⟩ := abortRelease_job fl s1 x
    have hc := check_invD fl hg (abortRelease fl s1 x) x d (by rw [e]; exact hL) (abortRelease_invD fl s1 x h)
      ⟨by unfold Started; rw [e]; exact hst, by rw [e]; exact hlt d rfl⟩
    have hpc' : (((abortRelease fl s1 x).check fl x d).jobs x).pc = .lockEnter := by rw [check_pc, e]; exact hpc
    have hJ' := hc.recs x
    have hst' := started_of_pc hJ' (by rw [hpc']; exact ⟨fun e => (by cases e), fun e => (by cases e)⟩)
    have hr := hJ'.lockReady (Or.inl hpc')
    refine put_invD _ x _ _ _ hc ?_ rfl (fun _ => hst') (Or.inl (mono_refl _ _ rfl)) (by simp)
    exact jdeep_step hJ' hst' rfl rfl rfl (Or.inl rfl) hst' (fun e => by rw [hr] at e; cases e) (fun _ => hr)
      (fun e => by cases e) (fun e => Or.inl e)
  | none =>
    simp only
    have hr := hJ.lockReady (Or.inl hpc)
    refine put_invD _ x _ _ _ h ?_ rfl (fun _ => by simp) (Or.inl (mono_of_ready _ _ (Or.inl hr))) (by simp)
    exact jdeep_step hJ hst rfl rfl rfl (Or.inr (jdeep_ready_nofail hJ (Or.inl hr))) (by simp)
      (fun e => by cases e) (fun e => by rcases e with e | e <;> cases e) (fun _ => rfl) (fun _ => Or.inl (Or.inl hr))

theorem abortTail_invD (fl : Flags) (s1 : St) (x : Nat) (h : InvD s1) (hpc : (s1.jobs x).pc = .lockExitAbort) :
    InvD (abortTail fl s1 x) := by
  have hJ := h.recs x
  have hst := started_of_pc hJ (by rw [hpc]; exact ⟨fun e => (by cases e), fun e => (by cases e)⟩)
  have hr := hJ.lockReady (Or.inr hpc)
  unfold abortTail
  simp only
  have e := eventSet_frame { (s1.jobs x) with state := JS.ready }
  refine shape_invD (put_loopHead_shape s1 x _ _ []) h ?_ ?_ ?_ (Or.inl (mono_of_ready _ _ (Or.inl hr))) ?_
  · split
    · refine loopHeadJ_jdeep hJ hst e.2.2.2.2.2.2.2.2.1 e.2.2.2.2.2.2.2.2.2.1 e.2.2.2.2.2.2.1 e.2.2.1 ?_
        (fun _ => Or.inl (Or.inl hr))
      rw [e.2.1]; simp
    · exact loopHeadJ_jdeep hJ hst rfl rfl rfl rfl (by simp) (fun e => by rcases e with e | e <;> cases e)
  · rw [(loopHeadJ_frame _).1]
    split
    · exact e.2.2.2.2.2.2.2.2.1
    · rfl
  · intro _; rw [(loopHeadJ_frame _).2.2.2.2.1]
    split
    · rw [e.2.1]; simp
    · simp
  · exact notChk_wake _ x

theorem codeTail_invD (s1 : St) (x : Nat) (h : InvD s1) (hpc : (s1.jobs x).pc = .codeWait) :
    InvD (codeTail s1 x) := by
  have hJ := h.recs x
  have hst := started_of_pc hJ (by rw [hpc]; exact ⟨fun e => (by cases e), fun e => (by cases e)⟩)
  have hr := hJ.runRunning (by rw [hpc]; rfl)
  unfold codeTail
  have hs := (Shape.put s1 x { (s1.jobs x) with state := if (s1.jobs x).code = 0 then JS.done else JS.error } [] []).trans
    (finish_shape _ x)
  simp only [put_jobs, upd_same, List.append_nil] at hs
  refine shape_invD hs h ?_ rfl (fun _ => by simp only; split <;> simp)
    (Or.inl (mono_of_ready _ _ (Or.inr hr))) (by simp)
  refine jdeep_step hJ hst rfl rfl rfl (Or.inl rfl) (by simp only; split <;> simp) (fun _ => rfl)
    (fun e => by rcases e with e | e <;> cases e) (fun e => by cases e) ?_
  intro e
  simp only at e
  split at e <;> rcases e with e | e <;> cases e

theorem doneStep_invD (s : St) (x : Nat) (h : InvD s) (hpc : (s.jobs x).pc = .doneHandler) :
    InvD (doneStep s x) := by
  have hJ := h.recs x
  have hst := started_of_pc hJ (by rw [hpc]; exact ⟨fun e => (by cases e), fun e => (by cases e)⟩)
  unfold doneStep
  refine put_invD _ x _ _ _ ?_ ?_ rfl (fun _ => hst) (Or.inl (mono_refl _ _ rfl)) (by simp)
  · refine invD_grow (s := s) ((if s.waiter = WS.sleeping then [Cb.waiterRun] else []) ++
      (s.jobDeps x).map (fun (p : Nat × Nat) => Cb.check p.1 p.2)) rfl rfl rfl rfl ?_ h
    intro j d hm
    simp only [List.mem_append, List.mem_map] at hm
    rcases hm with (hm | ⟨p, hp, e⟩) | (hm | ⟨p, _, e⟩)
    · split at hm <;> simp at hm
    · simp only [Cb.check.injEq] at e
      have := (h.wf.jobDepsOK x p hp).1
      rw [e.1, e.2] at this; exact this
    · split at hm <;> simp at hm
    · cases e
  · exact jdeep_step hJ hst rfl rfl rfl (Or.inl rfl) hst (fun _ => rfl) (fun e => by rcases e with e | e <;> cases e)
      (fun e => by cases e) (fun e => Or.inl e)

theorem resume_invD (fl : Flags) (hg : fl.readyGuarded = true) (s : St) (x : Nat) (hL : JLocal (s.jobs x))
    (h : InvD s) : InvD (s.resume fl x) := by
  cases hp : (s.jobs x).pc with
  | lockEnter =>
    rw [resume_lockEnter fl s x hp]
    obtain ⟨hl, e⟩ := acquireAll_job s x (s.jobs x).deps.length 0
    have hA := acquireAll_invD s x (s.jobs x).deps.length 0 h
    refine enterTail_invD fl hg _ x (by rw [e]; exact hL) hA.1 (by rw [e]; exact hp) ?_
    intro d hd
    rw [e]
    have := hA.2 d hd
    simpa using this
  | lockExitAbort =>
    rw [resume_lockExitAbort fl s x hp]
    exact abortTail_invD fl _ x (releaseAll_invD s x _ h) (by rw [releaseAll_job]; exact hp)
  | lockExitRun =>
    rw [resume_lockExitRun fl s x hp]
    have hJ := h.recs x
    have hst := started_of_pc hJ (by rw [hp]; exact ⟨fun e => (by cases e), fun e => (by cases e)⟩)
    have hr := hJ.runRunning (by rw [hp]; rfl)
    refine put_invD s x _ _ _ h ?_ rfl (fun _ => hst) (Or.inl (mono_refl _ _ rfl)) (by simp)
    exact jdeep_step hJ hst rfl rfl rfl (Or.inl rfl) hst (fun e => by rw [hr] at e; cases e)
      (fun e => by rcases e with e | e <;> cases e) (fun _ => hr) (fun e => Or.inl e)
  | codeWait =>
    rw [resume_codeWait fl s x hp]
    exact codeTail_invD _ x (releaseAll_invD s x _ h) (by rw [releaseAll_job]; exact hp)
  | doneHandler => rw [resume_doneHandler fl s x hp]; exact doneStep_invD s x h hp
  | _ => rw [resume_other fl s x (by simp [hp, pcKind])]; exact h



/-- before its first segment a job record still shows UNSCHEDULED. -/
def InvF (s : St) : Prop := ∀ j, ((s.jobs j).pc = .none ∨ (s.jobs j).pc = .created) → (s.jobs j).state = .unscheduled

theorem kind23_not_fresh {pc : PC} (h : pcKind pc = 3 ∨ pcKind pc = 2) : ¬ (pc = .none ∨ pc = .created) := by
  intro hp; rcases hp with hp | hp <;> rw [hp] at h <;> simp [pcKind] at h

theorem startJob_not_fresh (fl : Flags) (s : St) (x : Nat) :
    ¬ (((s.startJob fl x).jobs x).pc = .none ∨ ((s.startJob fl x).jobs x).pc = .created) := by
  apply kind23_not_fresh
  unfold St.startJob
  simp only
  rw [loopHead_job]
  exact loopHeadJ_kind _

theorem wake_not_fresh (fl : Flags) (s : St) (x : Nat) :
    ¬ (((s.runCb fl (.wake x)).jobs x).pc = .none ∨ ((s.runCb fl (.wake x)).jobs x).pc = .created) := by
  simp only [St.runCb]
  split
  · simp
  · apply kind23_not_fresh
    rw [loopHead_job]
    exact loopHeadJ_kind _

theorem resume_not_fresh (fl : Flags) (s : St) (x : Nat) (hk : pcKind (s.jobs x).pc = 3) :
    ¬ (((s.resume fl x).jobs x).pc = .none ∨ ((s.resume fl x).jobs x).pc = .created) := by
  cases hp : (s.jobs x).pc with
  | lockEnter =>
    rw [resume_lockEnter fl s x hp]
    generalize St.acquireAll s x (s.jobs x).deps.length 0 = r
    obtain ⟨s1, fa⟩ := r
    unfold enterTail
    cases fa <;> simp
  | lockExitAbort =>
    rw [resume_lockExitAbort fl s x hp]
    unfold abortTail
    simp only
    rw [loopHead_job]
    exact kind23_not_fresh (loopHeadJ_kind _)
  | lockExitRun => rw [resume_lockExitRun fl s x hp]; simp
  | codeWait => rw [resume_codeWait fl s x hp]; unfold codeTail; rw [finish_job]; simp
  | doneHandler => rw [resume_doneHandler fl s x hp]; simp [doneStep]
  | _ => simp [hp, pcKind] at hk

theorem pop_invD {s : St} {cb : Cb} {rest : List Cb} (h : InvD s) (hr : s.ready = cb :: rest) :
    InvD ({ s with ready := rest } : St) :=
  ⟨h.recs, h.truth, ⟨fun j d hm => h.wf.cbOK j d (by
      rw [hr]; rcases hm with hm | hm
      · exact Or.inl (List.mem_cons_of_mem _ hm)
      · exact Or.inr (List.mem_cons_of_mem _ hm)), h.wf.jobDepsOK, h.wf.tokDepsOK⟩⟩

/-- third layer plus `InvF`, preserved by every callback. -/
theorem runCb_invD (fl : Flags) (hg : fl.readyGuarded = true) (s : St) (cb : Cb) (rest : List Cb)
    (hA : InvA s) (hS : InvS s) (hr : s.ready = cb :: rest) (hF : InvF s) (h : InvD s) :
    InvD (({ s with ready := rest } : St).runCb fl cb) ∧ InvF (({ s with ready := rest } : St).runCb fl cb) := by
  have h0 := pop_invD h hr
  have hFr := runCb_frame fl ({ s with ready := rest } : St) cb
  have hS0 : InvS ({ s with ready := rest } : St) :=
    ⟨hS.blankDeps, hS.acyclic, hS.tokOK, hS.effLe, hS.regLt, hS.resLt,
     fun j hj => hS.regCb j (by rw [hr]; exact List.mem_cons_of_mem _ hj)⟩
  -- `InvF` for every job but the target
  have hFother : ∀ i, i ≠ target cb →
      (((({ s with ready := rest } : St).runCb fl cb).jobs i).pc = .none ∨
       ((({ s with ready := rest } : St).runCb fl cb).jobs i).pc = .created) →
      ((({ s with ready := rest } : St).runCb fl cb).jobs i).state = .unscheduled := by
    intro i hi; rw [hFr.2.2.2.2.1 i hi]; exact hF i
  have hFof : (¬ ((((({ s with ready := rest } : St).runCb fl cb).jobs (target cb)).pc = .none ∨
       ((({ s with ready := rest } : St).runCb fl cb).jobs (target cb)).pc = .created))) →
      InvF (({ s with ready := rest } : St).runCb fl cb) := by
    intro hn i hp
    by_cases hi : i = target cb
    · subst hi; exact absurd hp hn
    · exact hFother i hi hp
  have hFsame : (({ s with ready := rest } : St).runCb fl cb).jobs = s.jobs → InvF (({ s with ready := rest } : St).runCb fl cb) := by
    intro e; unfold InvF; rw [e]; exact hF
  have hchk : ∀ j d, DepOK s j d →
      InvD (St.check fl ({ s with ready := rest } : St) j d) ∧ InvF (St.check fl ({ s with ready := rest } : St) j d) := by
    intro j d hok
    refine ⟨check_invD fl hg _ j d (hA.loc j) h0 hok, ?_⟩
    intro i hp
    rw [check_pc] at hp
    by_cases hi : i = j
    · subst hi
      exact absurd (hF i hp) hok.1
    · rw [check_job_ne _ _ _ _ _ hi]; exact hF i hp
  cases cb with
  | register j =>
    have f := register_jobs fl ({ s with ready := rest } : St) j
    have e1 : (St.register fl ({ s with ready := rest } : St) j).jobDeps = s.jobDeps := by
      unfold St.register; simp only; split
      · split
        · split <;> rfl
        · rfl
      · rfl
    have e2 : (St.register fl ({ s with ready := rest } : St) j).tokDeps = s.tokDeps := by
      unfold St.register; simp only; split
      · split
        · split <;> rfl
        · rfl
      · rfl
    exact ⟨invD_same (s := ({ s with ready := rest } : St)) f.1 f.2.1 e1 e2 h0, hFsame f.1⟩
  | start j =>
    have hpc := head_start_pc hA.ctl hr
    exact ⟨startJob_invD fl hg _ j (hA.loc j) hS0 h0 (hF j (Or.inr hpc)), hFof (startJob_not_fresh fl _ j)⟩
  | wake j =>
    exact ⟨wake_invD fl _ j h0 (head_wake_pc (s := s) hA.ctl hr), hFof (wake_not_fresh fl _ j)⟩
  | resume j =>
    exact ⟨resume_invD fl hg _ j (hA.loc j) h0, hFof (resume_not_fresh fl _ j (head_resume_kind (s := s) hA.ctl hr))⟩
  | check j d => exact hchk j d (h.wf.cbOK j d (Or.inl (by rw [hr]; exact List.mem_cons_self ..)))
  | notifyCheck j d =>
    rcases notifyCheck_cases fl ({ s with ready := rest } : St) j d with e | e <;> rw [e]
    · exact hchk j d (h.wf.cbOK j d (Or.inr (by rw [hr]; exact List.mem_cons_self ..)))
    · exact ⟨h0, hF⟩
  | waiterRun =>
    have f := waiterRun_jobs ({ s with ready := rest } : St)
    have e1 : (St.waiterRun ({ s with ready := rest } : St)).jobDeps = s.jobDeps := by
      unfold St.waiterRun; split <;> rfl
    have e2 : (St.waiterRun ({ s with ready := rest } : St)).tokDeps = s.tokDeps := by
      unfold St.waiterRun; split <;> rfl
    exact ⟨invD_same (s := ({ s with ready := rest } : St)) f.1 f.2.1 e1 e2 h0, hFsame f.1⟩



/-- everything proved so far that is preserved step by step (the counter layer `InvB` is event-level). -/
structure InvC (s : St) : Prop where
  a : InvA s
  st : InvS s
  f : InvF s
  d : InvD s

theorem step_invC (fl : Flags) (hg : fl.readyGuarded = true) (s : St) (h : InvC s) : InvC (s.step fl) := by
  refine ⟨step_invA fl hg s h.a, step_invS fl s h.st, ?_, ?_⟩
  · unfold St.step; split
    · exact h.f
    · rename_i cb rest hr; exact (runCb_invD fl hg s cb rest h.a h.st hr h.f h.d).2
  · unfold St.step; split
    · exact h.d
    · rename_i cb rest hr; exact (runCb_invD fl hg s cb rest h.a h.st hr h.f h.d).1

theorem depAt_fresh (deps : List Dep) (i : Nat) (jb : Job) (hd : jb.deps = deps)
    (hall : ∀ dp ∈ deps, dp.cur = .wait) (hi : i < deps.length) : (depAt jb i).cur = .wait := by
  unfold depAt
  rw [hd, List.getD_eq_getElem?_getD, List.getElem?_eq_getElem hi]
  exact hall _ (List.getElem_mem hi)

theorem submitPre_invC (s : St) (ident : Nat) (deps : List Origin) (code : Nat) (marker : Bool)
    (hok : EvOK s (.submit ident deps code marker)) (h : InvC s) : InvC (submitPre s ident deps code marker) := by
  have hpcn := h.a.blank s.n (Nat.le_refl _)
  have hun : (s.jobs s.n).state = .unscheduled := h.f s.n (Or.inl hpcn)
  have hND := noDeps_of_unscheduled h.d.truth hun
  have hne := fun i (hi : i ≠ s.n) => submitPre_jobs_ne s ident deps code marker i hi
  have hnew : (submitPre s ident deps code marker).jobs s.n = newJob s ident deps code marker := by
    simp only [submitPre, upd_same]
  have hcur : ∀ i, i < ((submitPre s ident deps code marker).jobs s.n).deps.length →
      (depAt ((submitPre s ident deps code marker).jobs s.n) i).cur = .wait := by
    intro i hi
    refine depAt_fresh _ i _ rfl ?_ hi
    intro dp hdp
    rw [hnew] at hdp
    simp only [newJob, List.mem_map] at hdp
    obtain ⟨o, _, rfl⟩ := hdp
    split <;> rfl
  have hstarted : ∀ j, Started s j → j ≠ s.n := fun j hj e => hj (e ▸ hun)
  have hdepok : ∀ j d, DepOK s j d → DepOK (submitPre s ident deps code marker) j d := by
    intro j d hjd
    have := hstarted j hjd.1
    unfold DepOK Started; rw [hne j this]; exact hjd
  refine ⟨submitPre_invA s ident deps code marker h.a, submitPre_invS s ident deps code marker hok h.st, ?_, ?_, ?_, ?_⟩
  · intro j hp
    by_cases hj : j = s.n
    · subst hj; rw [hnew]; rfl
    · rw [hne j hj] at hp ⊢; exact h.f j hp
  · intro j
    by_cases hj : j = s.n
    · subst hj
      have e1 : ((submitPre s ident deps code marker).jobs s.n).state = .unscheduled := by rw [hnew]; rfl
      have e2 : ((submitPre s ident deps code marker).jobs s.n).pc = .none := by rw [hnew]; rfl
      have e3 : ((submitPre s ident deps code marker).jobs s.n).failedDep = false := by rw [hnew]; rfl
      have e4 : ((submitPre s ident deps code marker).jobs s.n).unsat = 0 := by rw [hnew]; rfl
      refine ⟨?_, ?_, ?_, ?_, ?_, ?_, ?_, ?_, ?_, ?_⟩
      · rw [e1]; intro e; cases e
      · rw [e2]; intro e; rcases e with e | e <;> cases e
      · rw [e2]; intro e; cases e
      · intro _; exact Or.inl e2
      · intro _; exact ⟨e3, e4, hcur⟩
      · intro e; exact absurd e1 e
      · rw [e1]; intro e; rcases e with e | e <;> cases e
      · intro i hi _; rw [hcur i hi]; simp
      · rw [e3]; intro e; cases e
      · rw [e3]; intro e; cases e
    · rw [hne j hj]; exact h.d.recs j
  · intro j i o hi ho
    by_cases hj : j = s.n
    · subst hj
      rw [hcur i hi]
      exact ⟨fun e => (by cases e), fun e => (by cases e)⟩
    · rw [hne j hj] at hi ho ⊢
      by_cases hon : o = s.n
      · subst hon
        rw [hND j i hi ho]
        exact ⟨fun e => (by cases e), fun e => (by cases e)⟩
      · rw [hne o hon]; exact h.d.truth j i o hi ho
  · refine ⟨?_, ?_, ?_⟩
    · intro j d hm
      apply hdepok
      apply h.d.wf.cbOK
      simp only [submitPre, newJob, List.mem_append, List.mem_singleton] at hm
      rcases hm with (hm | hm) | (hm | hm)
      · exact Or.inl hm
      · cases hm
      · exact Or.inr hm
      · cases hm
    · intro o p hp
      have := h.d.wf.jobDepsOK o p hp
      have hpn := hstarted p.1 this.1.1
      exact ⟨hdepok _ _ this.1, by rw [hne _ hpn]; exact this.2⟩
    · intro t p hp
      have := h.d.wf.tokDepsOK t p hp
      have hpn := hstarted p.1 this.1.1
      exact ⟨hdepok _ _ this.1, by rw [hne _ hpn]; exact this.2⟩

theorem submitPost_invC (s2 : St) (j : Nat) (h : InvC s2) (hpc : (s2.jobs j).pc = .none) (hn : s2.n = j + 1) :
    InvC (submitPost s2 j) := by
  refine ⟨submitPost_invA s2 j h.a hpc (by omega), submitPost_invS s2 j hn h.st, ?_, ?_⟩
  · have hun := h.f j (Or.inl hpc)
    unfold submitPost
    split
    · exact h.f
    · intro i hp
      by_cases hi : i = j
      · subst hi; simp only [put_jobs, upd_same]; exact hun
      · simp only [put_jobs, upd_ne _ _ hi] at hp ⊢; exact h.f i hp
  · have hun := h.f j (Or.inl hpc)
    have hJ := h.d.recs j
    unfold submitPost
    split
    · exact invD_same (s := s2) rfl rfl rfl rfl h.d
    · refine put_invD _ j _ _ _ (invD_same (s := s2) rfl rfl rfl rfl h.d) ?_ rfl (fun hs => absurd hun hs)
        (Or.inl (mono_refl _ _ rfl)) (by simp [notChk])
      refine ⟨?_, ?_, ?_, fun _ => Or.inr rfl, hJ.pristine, hJ.counter, hJ.readyDeps, hJ.tokNoFail, hJ.failedWit,
        hJ.failedNoLaunch⟩
      · intro e; simp only at e; rw [hun] at e; cases e
      · intro e; rcases e with e | e <;> cases e
      · intro e; cases e

theorem apply_invC (fl : Flags) (hg : fl.readyGuarded = true) (s : St) (ev : Ev) (hok : EvOK s ev) (h : InvC s) :
    InvC (s.apply fl ev) := by
  cases ev with
  | step => exact step_invC fl hg s h
  | wait =>
    refine ⟨apply_invA fl hg s .wait h.a, apply_invS fl s .wait hok h.st, h.f, ?_⟩
    exact invD_grow (s := s) [Cb.waiterRun] rfl rfl rfl rfl (by intro j d hm; simp at hm) h.d
  | deliver k =>
    refine ⟨apply_invA fl hg s (.deliver k) h.a, apply_invS fl s (.deliver k) hok h.st, ?_, ?_⟩
    · simp only [St.apply]; split
      · exact h.f
      · exact h.f
    · simp only [St.apply]; split
      · rename_i tk j _
        exact invD_grow (s := s) [Cb.resume j] rfl rfl rfl rfl (by intro j d hm; simp at hm) h.d
      · exact h.d
  | submit ident deps code marker =>
    rw [apply_submit]
    have h0 := submitPre_invC s ident deps code marker hok h
    have h1 := steps_ind (fun s' => InvC s' ∧ (s'.jobs s.n).pc = .none) fl
      (fun s' hs' => ⟨step_invC fl hg s' hs'.1, by
        rw [step_kind0 fl s' hs'.1.a.ctl s.n (by rw [hs'.2]; rfl)]; exact hs'.2⟩)
      (s.ready.length + 1) _ ⟨h0, by simp [submitPre, newJob]⟩
    exact submitPost_invC _ s.n h1.1 h1.2 (by rw [steps_n]; simp [submitPre, newJob])

theorem init_invC (totals : List Nat) : InvC (St.init totals) := by
  refine ⟨init_invA totals, init_invS totals, fun j _ => rfl, ?_, ?_, ?_⟩
  · intro j
    refine ⟨?_, ?_, ?_, fun _ => Or.inl rfl, fun _ => ⟨rfl, rfl, fun i hi => by simp [St.init] at hi⟩, ?_, ?_, ?_, ?_, ?_⟩
    · intro e; cases e
    · intro e; rcases e with e | e <;> cases e
    · intro e; cases e
    · intro e; exact absurd rfl e
    · intro e; rcases e with e | e <;> cases e
    · intro i hi; simp [St.init] at hi
    · intro e; cases e
    · intro e; cases e
  · intro j i o hi; simp [St.init] at hi
  · exact ⟨fun j d hm => by simp [St.init] at hm, fun o p hp => by simp [St.init] at hp,
      fun t p hp => by simp [St.init] at hp⟩

theorem reachable_invC {fl : Flags} (hg : fl.readyGuarded = true) {totals : List Nat} {s : St}
    (h : Reachable fl totals s) : InvC s := by
  induction h with
  | init => exact init_invC totals
  | next _ hok ih => exact apply_invC fl hg _ _ hok ih



/-! ## fourth layer: who sleeps, who holds (invariants B, G, H of the design) -/

/-- structural principle for `dependencychanged`: it is a composition of a counter update, at most two
    "assign state, then `event.set()`" steps, and the update of the dependency list. -/
theorem depChanged_ind (P : Job → Prop) (fl : Flags) (jb : Job) (d : Nat) (st : DS)
    (h1 : ∀ x u, P x → P { x with unsat := u })
    (h2 : ∀ x, st = .fail → x.state.finished = false → P x → P (eventSet { x with state := .error, failedDep := true }).1)
    (h3 : ∀ x, x.unsat = 0 → (fl.readyGuarded = false ∨ x.state = .waiting) → P x →
      P (eventSet { x with state := .ready }).1)
    (h4 : ∀ x dps, P x → P { x with deps := dps })
    (h : P jb) : P (depChanged fl jb d st).1 := by
  unfold depChanged
  simp only
  split
  · exact h
  · have ha := h1 jb (jb.unsat - (val st - val (jb.deps.getD d default).cur)) h
    split
    · rename_i hc
      have hb := h2 _ hc.1 (by simpa using hc.2) ha
      split
      · rename_i hc2
        apply h4
        exact h3 _ hc2.1 (by simpa using hc2.2) hb
      · apply h4; exact hb
    · split
      · rename_i hc2
        apply h4
        exact h3 _ hc2.1 (by simpa using hc2.2) ha
      · apply h4; exact ha

/-- `dependencychanged` that leaves the event unset did not touch state, event, sleeper. -/
theorem depChanged_quiet (fl : Flags) (jb : Job) (d : Nat) (st : DS)
    (h : (depChanged fl jb d st).1.event = false) :
    (depChanged fl jb d st).1.state = jb.state ∧ (depChanged fl jb d st).1.sleeping = jb.sleeping ∧
    jb.event = false := by
  have e := fun jb => (eventSet_frame jb).2.2.2.2.2.2.2.2.2.2
  refine depChanged_ind (fun r => r.event = false → r.state = jb.state ∧ r.sleeping = jb.sleeping ∧ jb.event = false)
    fl jb d st (fun x u hx => hx) ?_ ?_ (fun x dps hx => hx) (fun hx => ⟨rfl, rfl, hx⟩) h
  · intro x _ _ _ hev; rw [e] at hev; cases hev
  · intro x _ _ _ hev; rw [e] at hev; cases hev

/-- a sleeper is registered only on an unset event. -/
def SE (jb : Job) : Prop := jb.sleeping = true → jb.event = false

theorem eventSet_SE (jb : Job) (h : SE jb) : SE (eventSet jb).1 := by
  unfold eventSet SE at *
  split
  · exact h
  · split
    · simp
    · rename_i h2; intro hs; exact absurd hs h2

theorem depChanged_SE (fl : Flags) (jb : Job) (d : Nat) (st : DS) (h : SE jb) : SE (depChanged fl jb d st).1 :=
  depChanged_ind SE fl jb d st (fun x u hx => hx) (fun x _ _ hx => eventSet_SE _ hx) (fun x _ _ hx => eventSet_SE _ hx)
    (fun x dps hx => hx) h

/-- a READY record has its event set (valid while the coroutine has not yet looked at it). -/
def RE (jb : Job) : Prop := jb.state = .ready → jb.event = true

theorem depChanged_RE (fl : Flags) (hg : fl.readyGuarded = true) (jb : Job) (d : Nat) (st : DS) (h : RE jb) :
    RE (depChanged fl jb d st).1 := by
  have e := fun jb => eventSet_frame jb
  refine depChanged_ind RE fl jb d st (fun x u hx => hx) ?_ ?_ (fun x dps hx => hx) h
  · intro x _ _ _ _; exact (e _).2.2.2.2.2.2.2.2.2.2
  · intro x _ _ _ _; exact (e _).2.2.2.2.2.2.2.2.2.2



/-- after a real change, a record left WAITING still has unsatisfied dependencies
    (otherwise the second test of `dependencychanged` made it READY). -/
theorem depChanged_waitUnsat (fl : Flags) (jb : Job) (d : Nat) (st : DS) (hne : st ≠ (depAt jb d).cur)
    (hw : (depChanged fl jb d st).1.state = .waiting) : (depChanged fl jb d st).1.unsat ≠ 0 := by
  have e := fun jb => eventSet_frame jb
  unfold depAt at hne
  unfold depChanged at hw ⊢
  simp only [hne, if_false] at hw ⊢
  split at hw
  · split at hw
    · simp only [e] at hw; cases hw
    · simp only [e] at hw; cases hw
  · rename_i h1
    simp only [h1, if_false]
    split at hw
    · simp only [e] at hw; cases hw
    · rename_i h2
      simp only [h2, if_false]
      simp only at hw h2
      intro hz
      exact h2 ⟨hz, Or.inr hw⟩

/-- a failing dependency takes a non-final record out of its state. -/
theorem depChanged_fail (fl : Flags) (jb : Job) (d : Nat) (hne : DS.fail ≠ (depAt jb d).cur)
    (hnf : jb.state.finished = false) :
    (depChanged fl jb d .fail).1.state = .error ∨ (depChanged fl jb d .fail).1.state = .ready := by
  have e := fun jb => eventSet_frame jb
  unfold depAt at hne
  unfold depChanged
  simp only [hne, if_false, hnf]
  simp only [Bool.not_false, and_self, if_true]
  split
  · right; simp only [e]
  · left; simp only [e]

/-- sleeping / waiting facts of a record (everything of the fourth layer but `held`). -/
structure JQ' (jb : Job) : Prop where
  se : SE jb
  waitState : jb.pc = .evtWait → jb.state = .waiting ∨ jb.state = .ready ∨ jb.state = .error
  evtClear : jb.pc = .evtWait → jb.event = false → jb.state = .waiting
  waitUnsat : jb.state = .waiting → jb.unsat ≠ 0
  waitNoFail : jb.state = .waiting → ∀ i, i < jb.deps.length → (depAt jb i).cur ≠ .fail

/-- invariant G: locks are held only between a start and its lock-release segment. -/
def HeldPc (fl : Flags) (jb : Job) : Prop :=
  jb.held ≠ [] → (fl.abortReleases = false ∧ jb.pc = .lockExitAbort) ∨ jb.pc = .lockExitRun ∨ jb.pc = .codeWait

def JQ (fl : Flags) (jb : Job) : Prop := JQ' jb ∧ HeldPc fl jb

theorem dc_waitUnsat (fl : Flags) (jb : Job) (d : Nat) (st : DS) (h : jb.state = .waiting → jb.unsat ≠ 0)
    (hw : (depChanged fl jb d st).1.state = .waiting) : (depChanged fl jb d st).1.unsat ≠ 0 := by
  rcases depChanged_deps fl jb d st with ⟨_, e⟩ | ⟨hne, _, _⟩
  · rw [e] at hw ⊢; exact h hw
  · exact depChanged_waitUnsat fl jb d st hne hw

theorem dc_state_back (fl : Flags) (hg : fl.readyGuarded = true) (jb : Job) (d : Nat) (st : DS)
    (hw : (depChanged fl jb d st).1.state = .waiting) : jb.state = .waiting := by
  have f5 := (depChanged_state fl jb d st).2.2.2.2.2
  simp only [hg, true_implies] at f5
  rcases f5 with ⟨a, _⟩ | ⟨_, _, a, _⟩ | ⟨a, _⟩
  · rw [← a]; exact hw
  · rw [a] at hw; cases hw
  · rw [a] at hw; cases hw

theorem dc_waitNoFail (fl : Flags) (hg : fl.readyGuarded = true) (jb : Job) (d : Nat) (st : DS)
    (hd : d < jb.deps.length)
    (h : jb.state = .waiting → ∀ i, i < jb.deps.length → (depAt jb i).cur ≠ .fail)
    (hw : (depChanged fl jb d st).1.state = .waiting) :
    ∀ i, i < (depChanged fl jb d st).1.deps.length → (depAt (depChanged fl jb d st).1 i).cur ≠ .fail := by
  have hA := depChanged_depAt fl jb d st hd
  have hjw := dc_state_back fl hg jb d st hw
  intro i hi
  rw [hA.1] at hi
  by_cases hid : i = d
  · subst hid
    rw [hA.2.2.2]
    intro hst; subst hst
    by_cases hne : DS.fail = (depAt jb i).cur
    · exact h hjw i hi hne.symm
    · rcases depChanged_fail fl jb i hne (by rw [hjw]; rfl) with e | e <;> rw [e] at hw <;> cases hw
  · rw [hA.2.2.1 i hid]; exact h hjw i hi

theorem dc_state3 (fl : Flags) (hg : fl.readyGuarded = true) (jb : Job) (d : Nat) (st : DS)
    (h : jb.state = .waiting ∨ jb.state = .ready ∨ jb.state = .error) :
    (depChanged fl jb d st).1.state = .waiting ∨ (depChanged fl jb d st).1.state = .ready ∨
    (depChanged fl jb d st).1.state = .error := by
  have f5 := (depChanged_state fl jb d st).2.2.2.2.2
  simp only [hg, true_implies] at f5
  rcases f5 with ⟨a, _⟩ | ⟨_, _, a, _⟩ | ⟨a, _⟩
  · rw [a]; exact h
  · exact Or.inr (Or.inr a)
  · exact Or.inr (Or.inl a)

theorem depChanged_jq' (fl : Flags) (hg : fl.readyGuarded = true) (jb : Job) (d : Nat) (st : DS)
    (hd : d < jb.deps.length) (h : JQ' jb) : JQ' (depChanged fl jb d st).1 := by
  have f1 := (depChanged_state fl jb d st).1
  refine ⟨depChanged_SE fl jb d st h.se, ?_, ?_, dc_waitUnsat fl jb d st h.waitUnsat,
    dc_waitNoFail fl hg jb d st hd h.waitNoFail⟩
  · intro hp; rw [f1] at hp; exact dc_state3 fl hg jb d st (h.waitState hp)
  · intro hp he; rw [f1] at hp
    obtain ⟨q1, _, q3⟩ := depChanged_quiet fl jb d st he
    rw [q1]; exact h.evtClear hp q3

theorem depChanged_heldPc (fl fl' : Flags) (jb : Job) (d : Nat) (st : DS) (h : HeldPc fl' jb) :
    HeldPc fl' (depChanged fl jb d st).1 := by
  have f := depChanged_state fl jb d st
  unfold HeldPc; rw [f.1, f.2.2.2.2.1]; exact h

/-- `loopHead` establishes the sleeping / waiting facts. -/
theorem loopHeadJ_jq (fl : Flags) (jbw : Job) (hheld : jbw.held = [])
    (hst : jbw.state = .waiting ∨ jbw.state = .ready ∨ jbw.state = .error ∨ jbw.state = .done)
    (hre : RE jbw) (hse : SE jbw) (hwu : jbw.state = .waiting → jbw.unsat ≠ 0)
    (hwf : jbw.state = .waiting → ∀ i, i < jbw.deps.length → (depAt jbw i).cur ≠ .fail) : JQ fl (loopHeadJ jbw) := by
  have hw : jbw.state.finished = false → jbw.state ≠ .ready → jbw.state = .waiting := by
    intro hf hr
    rcases hst with h | h | h | h
    · exact h
    · exact absurd h hr
    · rw [h] at hf; cases hf
    · rw [h] at hf; cases hf
  unfold loopHeadJ
  split
  · exact ⟨⟨hse, fun hp => (by cases hp), fun hp => (by cases hp), hwu, hwf⟩, fun hh => absurd hheld hh⟩
  · rename_i hf
    have hf' : jbw.state.finished = false := by simpa using hf
    split
    · split
      · refine ⟨⟨fun _ => rfl, fun hp => (by cases hp), fun hp => (by cases hp), hwu, hwf⟩, fun hh => absurd hheld hh⟩
      · rename_i hr
        refine ⟨⟨fun _ => rfl, fun _ => ?_, fun _ _ => hw hf' hr, hwu, hwf⟩, fun hh => absurd hheld hh⟩
        exact Or.inl (hw hf' hr)
    · rename_i he
      have hr : jbw.state ≠ .ready := fun hr => he (hre hr)
      refine ⟨⟨fun _ => (by simpa using he), fun _ => Or.inl (hw hf' hr), fun _ _ => hw hf' hr, hwu, hwf⟩,
        fun hh => absurd hheld hh⟩



theorem acquireAll_lt (s : St) (x k d : Nat) : ∀ e, (St.acquireAll s x k d).2 = some e → e < d + k :=
  fun e he => ((acquireAll_ind (fun _ => True) x (d + k) (fun _ _ _ _ _ => trivial) k d s rfl trivial).2 e he).1

theorem heldPc_nil {fl : Flags} {jb : Job} (h : HeldPc fl jb) (hp : jb.pc ≠ .lockExitAbort ∧ jb.pc ≠ .lockExitRun ∧ jb.pc ≠ .codeWait) :
    jb.held = [] := by
  cases hh : jb.held with
  | nil => rfl
  | cons a l =>
    have := h (by rw [hh]; simp)
    rcases this with ⟨_, e⟩ | e | e
    · exact absurd e hp.1
    · exact absurd e hp.2.1
    · exact absurd e hp.2.2

/-- no recorded failure among the dependencies of a READY / RUNNING record. -/
theorem jdeep_ready_nofail_all {jb : Job} (h : JDeep jb) (hr : jb.state = .ready ∨ jb.state = .running) :
    ∀ i, i < jb.deps.length → (depAt jb i).cur ≠ .fail := by
  intro i hi
  cases hj : isJobO (depAt jb i).origin
  · exact h.tokNoFail i hi hj
  · rw [h.readyDeps hr i hi hj]; simp

/-- the record of `x` while its first segment registers the dependencies. -/
structure RQ (jb : Job) : Prop where
  held : jb.held = []
  st3 : jb.state = .waiting ∨ jb.state = .ready ∨ jb.state = .error
  re : RE jb
  se : SE jb
  waitUnsat : jb.state = .waiting → jb.unsat ≠ 0
  waitNoFail : jb.state = .waiting → ∀ i, i < jb.deps.length → (depAt jb i).cur ≠ .fail

theorem depChanged_rq (fl : Flags) (hg : fl.readyGuarded = true) (jb : Job) (d : Nat) (st : DS)
    (hd : d < jb.deps.length) (h : RQ jb) : RQ (depChanged fl jb d st).1 :=
  ⟨by rw [(depChanged_state fl jb d st).2.2.2.2.1]; exact h.held, dc_state3 fl hg jb d st h.st3,
   depChanged_RE fl hg jb d st h.re, depChanged_SE fl jb d st h.se, dc_waitUnsat fl jb d st h.waitUnsat,
   dc_waitNoFail fl hg jb d st hd h.waitNoFail⟩

theorem regPhase_rq (fl : Flags) (hg : fl.readyGuarded = true) (s : St) (x : Nat) (hJ : JDeep (s.jobs x))
    (hQ : JQ fl (s.jobs x)) (hu : (s.jobs x).state = .unscheduled) : RQ ((regPhase fl s x).jobs x) := by
  have hp := hJ.fresh hu
  have hheld : (s.jobs x).held = [] :=
    heldPc_nil hQ.2 (by rcases hp with e | e <;> rw [e] <;> exact ⟨fun e => (by cases e), fun e => (by cases e), fun e => (by cases e)⟩)
  obtain ⟨_, _, p3⟩ := hJ.pristine hu
  unfold regPhase
  split
  · simp only [put_jobs, upd_same]
    exact ⟨hheld, Or.inr (Or.inl rfl), fun _ => rfl, fun hs => (by cases hs), fun hw => (by cases hw), fun hw => (by cases hw)⟩
  · rename_i hne
    have hlen : (s.jobs x).deps.length ≠ 0 := by
      intro h0; apply hne; simp [List.length_eq_zero_iff.1 h0]
    have h0 : RQ (startRecDeps (s.jobs x)) := by
      refine ⟨hheld, Or.inl rfl, fun hr => (by cases hr), fun hs => (by cases hs), fun _ => ?_, fun _ i hi => ?_⟩
      · show ((s.jobs x).deps.length : Int) ≠ 0
        omega
      · have := p3 i hi
        show (depAt (s.jobs x) i).cur ≠ .fail
        rw [this]; simp
    refine (registerDeps_ind (fun s' => RQ (s'.jobs x) ∧ (s'.jobs x).deps.length = (s.jobs x).deps.length) fl x
      (s.jobs x).deps.length ?_ ?_ _ 0 _ (Nat.zero_add _) ⟨by simpa using h0, by simp [startRecDeps, startRec]⟩).1
    · intro s' d _ h'; rw [(regOne_frame s' x d).1]; exact h'
    · intro s' d hd h'
      rw [check_job]
      exact ⟨depChanged_rq fl hg _ d _ (by rw [h'.2]; exact hd) h'.1,
        by rw [(depChanged_depAt fl _ d _ (by rw [h'.2]; exact hd)).1]; exact h'.2⟩

theorem startJob_job (fl : Flags) (s : St) (x : Nat) :
    (s.startJob fl x).jobs x = loopHeadJ (if ((regPhase fl s x).jobs x).marker
      then { ((regPhase fl s x).jobs x) with state := .done } else (regPhase fl s x).jobs x) := by
  rw [startJob_eq, loopHead_job]
  split <;> simp

theorem startJob_jq (fl : Flags) (hg : fl.readyGuarded = true) (s : St) (x : Nat) (hJ : JDeep (s.jobs x))
    (hQ : JQ fl (s.jobs x)) (hu : (s.jobs x).state = .unscheduled) : JQ fl ((s.startJob fl x).jobs x) := by
  rw [startJob_job]
  have h := regPhase_rq fl hg s x hJ hQ hu
  generalize (regPhase fl s x).jobs x = jb2 at h
  split
  · exact loopHeadJ_jq fl _ h.held (Or.inr (Or.inr (Or.inr rfl))) (fun hr => (by cases hr)) h.se
      (fun hw => (by cases hw)) (fun hw => (by cases hw))
  · refine loopHeadJ_jq fl _ h.held ?_ h.re h.se h.waitUnsat h.waitNoFail
    rcases h.st3 with e | e | e
    · exact Or.inl e
    · exact Or.inr (Or.inl e)
    · exact Or.inr (Or.inr (Or.inl e))

theorem wake_jq (fl : Flags) (s : St) (x : Nat) (hQ : JQ fl (s.jobs x)) (hpc : (s.jobs x).pc = .evtWait) :
    JQ fl ((s.runCb fl (.wake x)).jobs x) := by
  have hheld : (s.jobs x).held = [] :=
    heldPc_nil hQ.2 (by rw [hpc]; exact ⟨fun e => (by cases e), fun e => (by cases e), fun e => (by cases e)⟩)
  simp only [St.runCb]
  split
  · rename_i hr
    simp only [put_jobs, upd_same]
    exact ⟨⟨fun _ => rfl, fun hp => (by cases hp), fun hp => (by cases hp), hQ.1.waitUnsat, hQ.1.waitNoFail⟩,
      fun hh => absurd hheld hh⟩
  · rename_i hr
    rw [loopHead_job]
    simp only [put_jobs, upd_same]
    refine loopHeadJ_jq fl _ hheld ?_ (fun h => absurd h hr) (fun _ => rfl) hQ.1.waitUnsat hQ.1.waitNoFail
    rcases hQ.1.waitState hpc with e | e | e
    · exact Or.inl e
    · exact Or.inr (Or.inl e)
    · exact Or.inr (Or.inr (Or.inl e))

theorem jq'_held {jb : Job} (hl : List Nat) (h : JQ' jb) : JQ' { jb with held := hl } :=
  ⟨h.se, h.waitState, h.evtClear, h.waitUnsat, h.waitNoFail⟩

theorem enterTail_jq (fl : Flags) (hg : fl.readyGuarded = true) (r : St × Option Nat) (x : Nat)
    (hJ : ∀ jb, jb = (enterTail fl r x).jobs x → JDeep jb) (hQ : JQ' (r.1.jobs x))
    (hlt : ∀ e, r.2 = some e → e < (r.1.jobs x).deps.length) : JQ fl ((enterTail fl r x).jobs x) := by
  have hJ' := hJ _ rfl
  revert hJ'
  obtain ⟨s1, fa⟩ := r
  unfold enterTail
  cases fa with
  | some d =>
    simp only [put_jobs, upd_same]
    intro hJ'
    have hr := hJ'.lockReady (Or.inr rfl)
    simp only at hr
    obtain ⟨hl, e⟩ := abortRelease_job fl s1 x
    have hc : JQ' (((abortRelease fl s1 x).check fl x d).jobs x) := by
      rw [check_job]; exact depChanged_jq' fl hg _ d _ (by rw [e]; exact hlt d rfl) (by rw [e]; exact jq'_held hl hQ)
    refine ⟨⟨hc.se, fun hp => (by cases hp), fun hp => (by cases hp), fun hw => ?_, fun hw => ?_⟩, fun hh => ?_⟩
    · simp only at hw; rw [hr] at hw; cases hw
    · simp only at hw; rw [hr] at hw; cases hw
    · left
      refine ⟨?_, rfl⟩
      cases hfl : fl.abortReleases
      · rfl
      · exfalso
        apply hh
        show (((abortRelease fl s1 x).check fl x d).jobs x).held = []
        rw [check_job, (depChanged_state fl _ d _).2.2.2.2.1]
        unfold abortRelease
        rw [hfl]; simp only [if_true]
        rw [releaseAll_job]
  | none =>
    simp only [put_jobs, upd_same]
    intro _
    exact ⟨⟨hQ.se, fun hp => (by cases hp), fun hp => (by cases hp), fun hw => (by cases hw), fun hw => (by cases hw)⟩,
      fun _ => Or.inr (Or.inl rfl)⟩

theorem abortTail_jq (fl : Flags) (ha : fl.abortRechecks = true) (s1 : St) (x : Nat) (hJ : JDeep (s1.jobs x))
    (hQ : JQ' (s1.jobs x)) (hheld : (s1.jobs x).held = []) (hpc : (s1.jobs x).pc = .lockExitAbort) :
    JQ fl ((abortTail fl s1 x).jobs x) := by
  have hr := hJ.lockReady (Or.inr hpc)
  have hnf := jdeep_ready_nofail_all hJ (Or.inl hr)
  unfold abortTail
  simp only
  rw [loopHead_job]
  simp only [put_jobs, upd_same]
  have e := eventSet_frame { (s1.jobs x) with state := JS.ready }
  split
  · refine loopHeadJ_jq fl _ (by rw [e.2.2.2.2.2.2.2.1]; exact hheld) (Or.inr (Or.inl e.2.1))
      (fun _ => e.2.2.2.2.2.2.2.2.2.2) (eventSet_SE _ hQ.se) (fun hw => ?_) (fun hw => ?_)
    · rw [e.2.1] at hw; cases hw
    · rw [e.2.1] at hw; cases hw
  · rename_i hc
    refine loopHeadJ_jq fl _ hheld (Or.inl rfl) (fun h => (by cases h)) hQ.se (fun _ => ?_) (fun _ => hnf)
    intro hz
    exact hc ⟨ha, hz⟩

theorem codeTail_jq (fl : Flags) (s1 : St) (x : Nat) (hQ : JQ' (s1.jobs x)) (hheld : (s1.jobs x).held = []) :
    JQ fl ((codeTail s1 x).jobs x) := by
  unfold codeTail
  rw [finish_job]
  simp only [put_jobs, upd_same]
  refine ⟨⟨hQ.se, fun hp => (by cases hp), fun hp => (by cases hp), fun hw => ?_, fun hw => ?_⟩, fun hh => absurd hheld hh⟩
  · simp only at hw; split at hw <;> cases hw
  · simp only at hw; split at hw <;> cases hw

theorem resume_jq (fl : Flags) (hg : fl.readyGuarded = true) (ha : fl.abortRechecks = true) (s : St) (x : Nat)
    (hJ : JDeep (s.jobs x)) (hJ' : JDeep ((s.resume fl x).jobs x)) (hQ : JQ fl (s.jobs x)) :
    JQ fl ((s.resume fl x).jobs x) := by
  cases hp : (s.jobs x).pc with
  | lockEnter =>
    rw [resume_lockEnter fl s x hp] at hJ' ⊢
    obtain ⟨hl, e⟩ := acquireAll_job s x (s.jobs x).deps.length 0
    refine enterTail_jq fl hg _ x (fun jb hjb => hjb ▸ hJ') (by rw [e]; exact jq'_held hl hQ.1) ?_
    intro d hd
    rw [e]
    simpa using acquireAll_lt s x _ 0 d hd
  | lockExitAbort =>
    rw [resume_lockExitAbort fl s x hp]
    refine abortTail_jq fl ha _ x ?_ ?_ ?_ ?_ <;> rw [releaseAll_job]
    · exact jdeep_held [] hJ
    · exact jq'_held [] hQ.1
    · exact hp
  | lockExitRun =>
    rw [resume_lockExitRun fl s x hp]
    simp only [put_jobs, upd_same]
    have hr := hJ.runRunning (by rw [hp]; rfl)
    exact ⟨⟨hQ.1.se, fun hp => (by cases hp), fun hp => (by cases hp), hQ.1.waitUnsat, hQ.1.waitNoFail⟩,
      fun _ => Or.inr (Or.inr rfl)⟩
  | codeWait =>
    rw [resume_codeWait fl s x hp]
    refine codeTail_jq fl _ x ?_ ?_ <;> rw [releaseAll_job]
    · exact jq'_held [] hQ.1
  | doneHandler =>
    rw [resume_doneHandler fl s x hp]
    have hheld : (s.jobs x).held = [] :=
      heldPc_nil hQ.2 (by rw [hp]; exact ⟨fun e => (by cases e), fun e => (by cases e), fun e => (by cases e)⟩)
    simp only [doneStep, put_jobs, upd_same]
    exact ⟨⟨hQ.1.se, fun hp => (by cases hp), fun hp => (by cases hp), hQ.1.waitUnsat, hQ.1.waitNoFail⟩,
      fun hh => absurd hheld hh⟩
  | _ => rw [resume_other fl s x (by simp [hp, pcKind])]; exact hQ



def JQs (fl : Flags) (s : St) : Prop := ∀ i, JQ fl (s.jobs i)

theorem runCb_jq (fl : Flags) (hg : fl.readyGuarded = true) (ha : fl.abortRechecks = true) (s : St) (cb : Cb)
    (rest : List Cb) (hC : InvC s) (hr : s.ready = cb :: rest) (h : JQs fl s) :
    JQs fl (({ s with ready := rest } : St).runCb fl cb) := by
  intro i
  have hF := runCb_frame fl ({ s with ready := rest } : St) cb
  have hD' := (runCb_invD fl hg s cb rest hC.a hC.st hr hC.f hC.d).1
  have hchk : ∀ j d, DepOK s j d → JQ fl ((St.check fl ({ s with ready := rest } : St) j d).jobs j) := by
    intro j d hok
    rw [check_job]
    exact ⟨depChanged_jq' fl hg _ d _ hok.2 (h j).1, depChanged_heldPc fl fl _ d _ (h j).2⟩
  by_cases hi : i = target cb
  · subst hi
    cases cb with
    | register j => simp only [St.runCb]; rw [(register_jobs fl _ j).1]; exact h _
    | start j =>
      have hpc := head_start_pc (s := s) hC.a.ctl hr
      exact startJob_jq fl hg _ j (hC.d.recs j) (h j) (hC.f j (Or.inr hpc))
    | wake j => exact wake_jq fl _ j (h j) (head_wake_pc (s := s) hC.a.ctl hr)
    | resume j => exact resume_jq fl hg ha _ j (hC.d.recs j) (hD'.recs j) (h j)
    | check j d => exact hchk j d (hC.d.wf.cbOK j d (Or.inl (by rw [hr]; exact List.mem_cons_self ..)))
    | notifyCheck j d =>
      rcases notifyCheck_cases fl ({ s with ready := rest } : St) j d with e | e <;> rw [e]
      · exact hchk j d (hC.d.wf.cbOK j d (Or.inr (by rw [hr]; exact List.mem_cons_self ..)))
      · exact h j
    | waiterRun => simp only [St.runCb]; rw [(waiterRun_jobs _).1]; exact h _
  · rw [hF.2.2.2.2.1 i hi]; exact h i

/-- all step-level layers together. -/
structure InvE (fl : Flags) (s : St) : Prop where
  c : InvC s
  q : JQs fl s

theorem step_invE (fl : Flags) (hg : fl.readyGuarded = true) (ha : fl.abortRechecks = true) (s : St) (h : InvE fl s) :
    InvE fl (s.step fl) := by
  refine ⟨step_invC fl hg s h.c, ?_⟩
  unfold St.step; split
  · exact h.q
  · rename_i cb rest hr; exact runCb_jq fl hg ha s cb rest h.c hr h.q

theorem apply_invE (fl : Flags) (hg : fl.readyGuarded = true) (ha : fl.abortRechecks = true) (s : St) (ev : Ev)
    (hok : EvOK s ev) (h : InvE fl s) : InvE fl (s.apply fl ev) := by
  cases ev with
  | step => exact step_invE fl hg ha s h
  | wait => exact ⟨apply_invC fl hg s .wait hok h.c, h.q⟩
  | deliver k =>
    refine ⟨apply_invC fl hg s (.deliver k) hok h.c, ?_⟩
    simp only [St.apply]; split
    · exact h.q
    · exact h.q
  | submit ident deps code marker =>
    refine ⟨apply_invC fl hg s _ hok h.c, ?_⟩
    rw [apply_submit]
    have hpcn := h.c.a.blank s.n (Nat.le_refl _)
    have h0 : InvE fl (submitPre s ident deps code marker) := by
      refine ⟨submitPre_invC s ident deps code marker hok h.c, ?_⟩
      intro i
      by_cases hi : i = s.n
      · subst hi
        simp only [submitPre, upd_same]
        exact ⟨⟨fun hs => (by cases hs), fun hp => (by cases hp), fun hp => (by cases hp), fun hw => (by cases hw),
          fun hw => (by cases hw)⟩, fun hh => absurd rfl hh⟩
      · rw [submitPre_jobs_ne _ _ _ _ _ _ hi]; exact h.q i
    have h1 := steps_ind (fun s' => InvE fl s' ∧ (s'.jobs s.n).pc = .none) fl
      (fun s' hs' => ⟨step_invE fl hg ha s' hs'.1, by
        rw [step_kind0 fl s' hs'.1.c.a.ctl s.n (by rw [hs'.2]; rfl)]; exact hs'.2⟩)
      (s.ready.length + 1) _ ⟨h0, by simp [submitPre, newJob]⟩
    generalize St.steps fl (submitPre s ident deps code marker) (s.ready.length + 1) = s2 at h1
    obtain ⟨hE, hpc⟩ := h1
    intro i
    by_cases hi : i = s.n
    · subst hi
      have hq := hE.q s.n
      have hheld : (s2.jobs s.n).held = [] :=
        heldPc_nil hq.2 (by rw [hpc]; exact ⟨fun e => (by cases e), fun e => (by cases e), fun e => (by cases e)⟩)
      unfold submitPost
      split
      · exact hq
      · simp only [put_jobs, upd_same]
        exact ⟨⟨hq.1.se, fun hp => (by cases hp), fun hp => (by cases hp), hq.1.waitUnsat, hq.1.waitNoFail⟩,
          fun hh => absurd hheld hh⟩
    · rw [submitPost_jobs_ne _ _ _ hi]; exact hE.q i

theorem init_invE (totals : List Nat) : InvE fl (St.init totals) :=
  ⟨init_invC totals, fun i => ⟨⟨fun hs => (by cases hs), fun hp => (by cases hp), fun hp => (by cases hp),
    fun hw => (by cases hw), fun hw => (by cases hw)⟩, fun hh => absurd rfl hh⟩⟩

theorem reachable_invE {fl : Flags} (hg : fl.readyGuarded = true) (ha : fl.abortRechecks = true)
    {totals : List Nat} {s : St} (h : Reachable fl totals s) : InvE fl s := by
  induction h with
  | init => exact init_invE totals
  | next _ hok ih => exact apply_invE fl hg ha _ _ hok ih



/-! ## fifth layer: no lost notification (invariants C and D of the design) -/

theorem registerDeps_ind2 (P : Nat → St → Prop) (fl : Flags) (j D : Nat)
    (hstep : ∀ s d, d < D → P d s → P (d + 1) ((regOne s j d).check fl j d)) :
    ∀ k d s, d + k = D → P d s → P D (St.registerDeps fl s j k d) := by
  intro k
  induction k with
  | zero => intro d s hd h; have : d = D := by omega
            subst this; exact h
  | succ k ih =>
    intro d s hd h
    rw [registerDeps_succ]
    exact ih (d + 1) _ (by omega) (hstep s d (by omega) h)

/-- a check of the `i`-th dependency of `j` is queued. -/
def Pend (s : St) (j i : Nat) : Prop := Cb.check j i ∈ s.ready ∨ Cb.notifyCheck j i ∈ s.ready

/-- the dependency `(j, i)` has been registered with its origin (job `x` is registering: only indices `< d`). -/
def InScope (s : St) (R : Nat → Nat → Prop) (j i : Nat) : Prop :=
  Started s j ∧ i < (s.jobs j).deps.length ∧ R j i

/-- no lost notification, for the registered dependencies except the pair `ex` that is about to be checked. -/
structure InvQ (s : St) (R : Nat → Nat → Prop) (ex : Option (Nat × Nat)) : Prop where
  tokComplete : ∀ j i t c, InScope s R j i → (depAt (s.jobs j) i).origin = .tok t c → (j, i) ∈ s.tokDeps t
  jobComplete : ∀ j i o, InScope s R j i → (depAt (s.jobs j) i).origin = .job o → (j, i) ∈ s.jobDeps o
  tokWait : ∀ j i t c, InScope s R j i → ex ≠ some (j, i) → (depAt (s.jobs j) i).origin = .tok t c →
    (depAt (s.jobs j) i).cur = .wait → s.avail t < c ∨ Pend s j i
  jobWait : ∀ j i o r, InScope s R j i → ex ≠ some (j, i) → (depAt (s.jobs j) i).origin = .job o →
    (depAt (s.jobs j) i).cur = .wait → (s.jobs o).pc = .finished r → Pend s j i

/-- monotone transfer: nothing in scope is added, records look the same, no origin finishes, no token is given back,
    nothing pending or registered is lost. -/
theorem invQ_transfer {s s' : St} {R R' : Nat → Nat → Prop} {ex : Option (Nat × Nat)}
    (hsc : ∀ j i, InScope s' R' j i → InScope s R j i)
    (hdep : ∀ j i, InScope s' R' j i → depAt (s'.jobs j) i = depAt (s.jobs j) i)
    (hfin : ∀ o r, (s'.jobs o).pc = .finished r → (s.jobs o).pc = .finished r)
    (hav : ∀ t, s'.avail t ≤ s.avail t)
    (hpend : ∀ j i, Pend s j i → Pend s' j i)
    (htd : ∀ t p, p ∈ s.tokDeps t → p ∈ s'.tokDeps t) (hjd : ∀ o p, p ∈ s.jobDeps o → p ∈ s'.jobDeps o)
    (h : InvQ s R ex) : InvQ s' R' ex := by
  refine ⟨?_, ?_, ?_, ?_⟩
  · intro j i t c hs ho
    rw [hdep j i hs] at ho
    exact htd t _ (h.tokComplete j i t c (hsc j i hs) ho)
  · intro j i o hs ho
    rw [hdep j i hs] at ho
    exact hjd o _ (h.jobComplete j i o (hsc j i hs) ho)
  · intro j i t c hs hex ho hc
    rw [hdep j i hs] at ho hc
    rcases h.tokWait j i t c (hsc j i hs) hex ho hc with ha | hp
    · exact Or.inl (Int.lt_of_le_of_lt (hav t) ha)
    · exact Or.inr (hpend j i hp)
  · intro j i o r hs hex ho hc hf
    rw [hdep j i hs] at ho hc
    exact hpend j i (h.jobWait j i o r (hsc j i hs) hex ho hc (hfin o r hf))

/-- dropping the exemption when it is not in scope or is known to be fine. -/
theorem invQ_unexempt {s : St} {R : Nat → Nat → Prop} {p : Nat × Nat} (h : InvQ s R (some p))
    (htok : ∀ t c, InScope s R p.1 p.2 → (depAt (s.jobs p.1) p.2).origin = .tok t c →
      (depAt (s.jobs p.1) p.2).cur = .wait → s.avail t < c ∨ Pend s p.1 p.2)
    (hjob : ∀ o r, InScope s R p.1 p.2 → (depAt (s.jobs p.1) p.2).origin = .job o →
      (depAt (s.jobs p.1) p.2).cur = .wait → (s.jobs o).pc = .finished r → Pend s p.1 p.2) :
    InvQ s R none := by
  refine ⟨h.tokComplete, h.jobComplete, ?_, ?_⟩
  · intro j i t c hs _ ho hc
    by_cases he : (j, i) = p
    · subst he; exact htok t c hs ho hc
    · exact h.tokWait j i t c hs (fun e => he (by simpa using e.symm)) ho hc
  · intro j i o r hs _ ho hc hf
    by_cases he : (j, i) = p
    · subst he; exact hjob o r hs ho hc hf
    · exact h.jobWait j i o r hs (fun e => he (by simpa using e.symm)) ho hc hf

theorem invQ_exempt {s : St} {R : Nat → Nat → Prop} (p : Nat × Nat) (h : InvQ s R none) : InvQ s R (some p) :=
  ⟨h.tokComplete, h.jobComplete, fun j i t c hs _ => h.tokWait j i t c hs (by simp),
   fun j i o r hs _ => h.jobWait j i o r hs (by simp)⟩



theorem check_fields (fl : Flags) (s : St) (j d : Nat) :
    (s.check fl j d).avail = s.avail ∧ (s.check fl j d).tokDeps = s.tokDeps ∧ (s.check fl j d).jobDeps = s.jobDeps ∧
    (∀ cb, cb ∈ s.ready → cb ∈ (s.check fl j d).ready) ∧
    (∀ cb, cb ∈ (s.check fl j d).ready → cb ∈ s.ready ∨ cb = .wake j) := by
  unfold St.check
  refine ⟨rfl, rfl, rfl, fun cb h => ?_, fun cb h => ?_⟩
  · simp only [put_ready, List.mem_append]; exact Or.inl h
  · simp only [put_ready, List.mem_append] at h
    rcases h with h | h
    · exact Or.inl h
    · split at h <;> simp at h
      exact Or.inr h

theorem pend_check (fl : Flags) (s : St) (j d j' i' : Nat) : Pend (s.check fl j d) j' i' ↔ Pend s j' i' := by
  have f := check_fields fl s j d
  unfold Pend
  constructor
  · rintro (h | h)
    · rcases f.2.2.2.2 _ h with h | h
      · exact Or.inl h
      · cases h
    · rcases f.2.2.2.2 _ h with h | h
      · exact Or.inr h
      · cases h
  · rintro (h | h)
    · exact Or.inl (f.2.2.2.1 _ h)
    · exact Or.inr (f.2.2.2.1 _ h)

/-- running the check of `(j, i)` re-establishes "no lost notification" for that pair. -/
theorem check_invQ (fl : Flags) (hg : fl.readyGuarded = true) (s : St) (j i : Nat) (R : Nat → Nat → Prop) (ex : Option (Nat × Nat))
    (hL : JL s) (hok : DepOK s j i) (hex : ∀ p, ex = some p → p = (j, i)) (h : InvQ s R ex) :
    InvQ (s.check fl j i) R none := by
  have hA := depChanged_depAt fl (s.jobs j) i (s.status (depAt (s.jobs j) i).origin) hok.2
  have hM := depChanged_mono fl hg (s.jobs j) i (s.status (depAt (s.jobs j) i).origin)
  have ej : (s.check fl j i).jobs j = (depChanged fl (s.jobs j) i (s.status (depAt (s.jobs j) i).origin)).1 :=
    check_job fl s j i
  have ene : ∀ k, k ≠ j → (s.check fl j i).jobs k = s.jobs k := fun k hk => check_job_ne fl s j i k hk
  have f := check_fields fl s j i
  have hlen : ∀ k, ((s.check fl j i).jobs k).deps.length = (s.jobs k).deps.length := by
    intro k; by_cases hk : k = j
    · subst hk; rw [ej]; exact hA.1
    · rw [ene k hk]
  have horig : ∀ k m, (depAt ((s.check fl j i).jobs k) m).origin = (depAt (s.jobs k) m).origin := by
    intro k m; by_cases hk : k = j
    · subst hk; rw [ej]; exact hA.2.1 m
    · rw [ene k hk]
  have hcur : ∀ k m, (k, m) ≠ (j, i) → (depAt ((s.check fl j i).jobs k) m).cur = (depAt (s.jobs k) m).cur := by
    intro k m hkm; by_cases hk : k = j
    · subst hk; rw [ej]; exact hA.2.2.1 m (fun e => hkm (by rw [e]))
    · rw [ene k hk]
  have hcur' : (depAt ((s.check fl j i).jobs j) i).cur = s.status (depAt (s.jobs j) i).origin := by
    rw [ej]; exact hA.2.2.2
  have hsc : ∀ k m, InScope (s.check fl j i) R k m → InScope s R k m := by
    intro k m ⟨h1, h2, h3⟩
    refine ⟨?_, by rw [hlen] at h2; exact h2, h3⟩
    by_cases hk : k = j
    · subst hk; exact hok.1
    · unfold Started at h1 ⊢; rw [ene k hk] at h1; exact h1
  refine ⟨?_, ?_, ?_, ?_⟩
  · intro k m t c hs ho
    rw [horig] at ho; rw [f.2.1]
    exact h.tokComplete k m t c (hsc k m hs) ho
  · intro k m o hs ho
    rw [horig] at ho; rw [f.2.2.1]
    exact h.jobComplete k m o (hsc k m hs) ho
  · intro k m t c hs _ ho hc
    rw [horig] at ho
    rw [f.1, pend_check]
    by_cases hkm : (k, m) = (j, i)
    · simp only [Prod.mk.injEq] at hkm
      obtain ⟨rfl, rfl⟩ := hkm
      rw [hcur', ho] at hc
      simp only [St.status] at hc
      split at hc
      · cases hc
      · rename_i hlt; exact Or.inl (by omega)
    · rw [hcur k m hkm] at hc
      exact h.tokWait k m t c (hsc k m hs) (fun e => hkm (hex _ e)) ho hc
  · intro k m o r hs _ ho hc hf
    rw [horig] at ho
    rw [check_pc] at hf
    rw [pend_check]
    by_cases hkm : (k, m) = (j, i)
    · simp only [Prod.mk.injEq] at hkm
      obtain ⟨rfl, rfl⟩ := hkm
      exfalso
      rw [hcur', ho] at hc
      have hfin := jlocal_final (hL o) hf
      simp only [St.status] at hc
      rw [hfin.2] at hc
      rcases hfin.1 with e | e <;> rw [e] at hc <;> cases hc
    · rw [hcur k m hkm] at hc
      exact h.jobWait k m o r (hsc k m hs) (fun e => hkm (hex _ e)) ho hc hf

/-- the pair a callback is going to check. -/
def pairOf : Cb → Option (Nat × Nat)
  | .check j i => some (j, i)
  | .notifyCheck j i => some (j, i)
  | _ => none

theorem pop_invQ {s : St} {cb : Cb} {rest : List Cb} {R : Nat → Nat → Prop} (h : InvQ s R none) (hr : s.ready = cb :: rest) :
    InvQ ({ s with ready := rest } : St) R (pairOf cb) := by
  have hp : ∀ j i, pairOf cb ≠ some (j, i) → Pend s j i → Pend ({ s with ready := rest } : St) j i := by
    intro j i hne hp
    unfold Pend at hp ⊢
    rw [hr] at hp
    simp only [List.mem_cons] at hp
    rcases hp with (e | e) | (e | e)
    · exact absurd (by rw [← e]; rfl) hne
    · exact Or.inl e
    · exact absurd (by rw [← e]; rfl) hne
    · exact Or.inr e
  refine ⟨h.tokComplete, h.jobComplete, ?_, ?_⟩
  · intro j i t c hs hex ho hc
    rcases h.tokWait j i t c hs (by simp) ho hc with ha | hq
    · exact Or.inl ha
    · exact Or.inr (hp j i hex hq)
  · intro j i o r hs hex ho hc hf
    exact hp j i hex (h.jobWait j i o r hs (by simp) ho hc hf)



/-- giving back `c` units of token `t`. -/
def relTok (s : St) (t c : Nat) : St :=
  { s with avail := upd s.avail t (s.avail t + c),
           ready := s.ready ++ (s.tokDeps t).map (fun (p : Nat × Nat) => Cb.notifyCheck p.1 p.2) }

theorem relOne_eq (s : St) (j k : Nat) :
    relOne s j k = match ((s.jobs j).deps.getD k default).origin with
      | .job _ => s
      | .tok t c => relTok s t c := rfl

/-- releasing a token notifies every registered dependent of that token. -/
theorem relTok_invQ (s : St) (t c : Nat) (R : Nat → Nat → Prop) (ex : Option (Nat × Nat)) (h : InvQ s R ex) :
    InvQ (relTok s t c) R ex := by
  have hpend : ∀ j' i', Pend s j' i' → Pend (relTok s t c) j' i' := by
    intro j' i' hp
    unfold Pend at hp ⊢
    simp only [relTok, List.mem_append]
    rcases hp with hp | hp
    · exact Or.inl (Or.inl hp)
    · exact Or.inr (Or.inl hp)
  refine ⟨h.tokComplete, h.jobComplete, ?_, ?_⟩
  · intro j' i' t' c' hs hex ho hc
    by_cases ht : t' = t
    · subst ht
      right
      have := h.tokComplete j' i' t' c' hs ho
      unfold Pend
      right
      simp only [relTok, List.mem_append, List.mem_map]
      exact Or.inr ⟨(j', i'), this, rfl⟩
    · rcases h.tokWait j' i' t' c' hs hex ho hc with ha | hp
      · left; simp only [relTok, upd, ht, if_false]; exact ha
      · exact Or.inr (hpend j' i' hp)
  · intro j' i' o r hs hex ho hc hf
    exact hpend j' i' (h.jobWait j' i' o r hs hex ho hc hf)

theorem relOne_invQ (s : St) (j k : Nat) (R : Nat → Nat → Prop) (ex : Option (Nat × Nat)) (h : InvQ s R ex) :
    InvQ (relOne s j k) R ex := by
  rw [relOne_eq]
  split
  · exact h
  · exact relTok_invQ s _ _ R ex h

/-- job `y` rewrites its own record (dependencies untouched, it does not return), possibly queuing callbacks. -/
theorem put_invQ (s : St) (y : Nat) (jb : Job) (cbs : List Cb) (ths : List (TK × Nat)) (R : Nat → Nat → Prop)
    (ex : Option (Nat × Nat)) (hdeps : jb.deps = (s.jobs y).deps)
    (hst : jb.state ≠ .unscheduled → (s.jobs y).state ≠ .unscheduled ∨ (∀ i, ¬ R y i))
    (hfin : ∀ r, jb.pc = .finished r → (s.jobs y).pc = .finished r) (h : InvQ s R ex) :
    InvQ (s.put y jb cbs ths) R ex := by
  refine invQ_transfer (s := s) ?_ ?_ ?_ (fun t => Int.le_refl _) ?_ (fun t p hp => hp) (fun o p hp => hp) h
  · intro j i ⟨h1, h2, h3⟩
    by_cases hj : j = y
    · subst hj
      simp only [Started, put_jobs, upd_same, hdeps] at h1 h2
      rcases hst h1 with e | e
      · exact ⟨e, h2, h3⟩
      · exact absurd h3 (e i)
    · simp only [Started, put_jobs, upd_ne _ _ hj] at h1 h2
      exact ⟨h1, h2, h3⟩
  · intro j i _
    by_cases hj : j = y
    · subst hj; simp [depAt, hdeps]
    · simp [upd_ne _ _ hj]
  · intro o r hf
    by_cases ho : o = y
    · subst ho; simp only [put_jobs, upd_same] at hf; exact hfin r hf
    · simp only [put_jobs, upd_ne _ _ ho] at hf; exact hf
  · intro j i hp
    unfold Pend at hp ⊢
    simp only [put_ready, List.mem_append]
    rcases hp with hp | hp
    · exact Or.inl (Or.inl hp)
    · exact Or.inr (Or.inl hp)

/-- only fields the fifth layer does not read changed, `avail` may only go down, the queue may only grow. -/
theorem invQ_fields {s s' : St} {R : Nat → Nat → Prop} {ex : Option (Nat × Nat)} (hj : s'.jobs = s.jobs)
    (hav : ∀ t, s'.avail t ≤ s.avail t) (hr : ∀ cb, cb ∈ s.ready → cb ∈ s'.ready)
    (htd : s'.tokDeps = s.tokDeps) (hjd : s'.jobDeps = s.jobDeps) (h : InvQ s R ex) : InvQ s' R ex := by
  refine invQ_transfer (s := s) ?_ ?_ ?_ hav ?_ (by rw [htd]; exact fun t p hp => hp) (by rw [hjd]; exact fun t p hp => hp) h
  · intro j i hs; unfold InScope Started at hs ⊢; rw [hj] at hs; exact hs
  · intro j i _; rw [hj]
  · intro o r hf; rw [hj] at hf; exact hf
  · intro j i hp; unfold Pend at hp ⊢
    rcases hp with hp | hp
    · exact Or.inl (hr _ hp)
    · exact Or.inr (hr _ hp)

theorem acqOne_invQ (s : St) (y k : Nat) (R : Nat → Nat → Prop) (ex : Option (Nat × Nat)) (h : InvQ s R ex) :
    InvQ (acqOne s y k) R ex := by
  unfold acqOne
  split
  · exact put_invQ s y _ _ _ R ex rfl (fun e => Or.inl e) (fun r e => e) h
  · rename_i t c _
    refine put_invQ _ y _ _ _ R ex rfl (fun e => Or.inl e) (fun r e => e) ?_
    refine invQ_fields (s := s) rfl ?_ (fun cb hcb => hcb) rfl rfl h
    intro t'
    simp only [upd]
    split
    · rename_i e; subst e; omega
    · exact Int.le_refl _

/-- the `doneHandler` segment: every registered dependent of the finishing job gets a check. -/
theorem doneStep_invQ (s : St) (y : Nat) (R : Nat → Nat → Prop) (ex : Option (Nat × Nat)) (h : InvQ s R ex) :
    InvQ (doneStep s y) R ex := by
  have hpend : ∀ j i, Pend s j i → Pend (doneStep s y) j i := by
    intro j i hp
    unfold Pend at hp ⊢
    simp only [doneStep, put_ready, List.mem_append]
    rcases hp with hp | hp
    · exact Or.inl (Or.inl (Or.inl hp))
    · exact Or.inr (Or.inl (Or.inl hp))
  have hjobs : ∀ k, k ≠ y → (doneStep s y).jobs k = s.jobs k := fun k hk => by simp [doneStep, upd_ne _ _ hk]
  have hdepAt : ∀ k m, depAt ((doneStep s y).jobs k) m = depAt (s.jobs k) m := by
    intro k m; by_cases hk : k = y
    · subst hk; simp [doneStep, depAt]
    · rw [hjobs k hk]
  have hsc : ∀ k m, InScope (doneStep s y) R k m → InScope s R k m := by
    intro k m ⟨h1, h2, h3⟩
    by_cases hk : k = y
    · subst hk; simp only [Started, doneStep, put_jobs, upd_same] at h1 h2; exact ⟨h1, h2, h3⟩
    · simp only [Started, hjobs k hk] at h1 h2; exact ⟨h1, h2, h3⟩
  refine ⟨?_, ?_, ?_, ?_⟩
  · intro j i t c hs ho; rw [hdepAt] at ho; exact h.tokComplete j i t c (hsc j i hs) ho
  · intro j i o hs ho; rw [hdepAt] at ho; exact h.jobComplete j i o (hsc j i hs) ho
  · intro j i t c hs hex ho hc
    rw [hdepAt] at ho hc
    rcases h.tokWait j i t c (hsc j i hs) hex ho hc with ha | hp
    · exact Or.inl ha
    · exact Or.inr (hpend j i hp)
  · intro j i o r hs hex ho hc hf
    rw [hdepAt] at ho hc
    by_cases hoy : o = y
    · subst hoy
      have := h.jobComplete j i o (hsc j i hs) ho
      unfold Pend
      left
      simp only [doneStep, put_ready, List.mem_append, List.mem_map]
      exact Or.inl (Or.inr (Or.inr ⟨(j, i), this, rfl⟩))
    · rw [hjobs o hoy] at hf
      exact hpend j i (h.jobWait j i o r (hsc j i hs) hex ho hc hf)

/-- registering the `d`-th dependency of `x` brings it into scope, exempt until its check has run. -/
theorem regOne_invQ (s : St) (x d : Nat) (R R' : Nat → Nat → Prop) (hR : ∀ j i, R' j i → (j, i) ≠ (x, d) → R j i)
    (h : InvQ s R none) : InvQ (regOne s x d) R' (some (x, d)) := by
  have f := regOne_frame s x d
  have hjobs : (regOne s x d).jobs = s.jobs := f.1
  have hready : (regOne s x d).ready = s.ready := f.2.1
  have hav : (regOne s x d).avail = s.avail := f.2.2.2.2.2.2.2.2.1
  have htd : ∀ t p, p ∈ s.tokDeps t → p ∈ (regOne s x d).tokDeps t := by
    intro t p hp; unfold regOne; split
    · exact hp
    · simp only [upd]; split
      · rename_i e; subst e; exact List.mem_append_left _ hp
      · exact hp
  have hjd : ∀ o p, p ∈ s.jobDeps o → p ∈ (regOne s x d).jobDeps o := by
    intro o p hp; unfold regOne; split
    · simp only [upd]; split
      · rename_i e; subst e; exact List.mem_append_left _ hp
      · exact hp
    · exact hp
  have hsc : ∀ j i, InScope (regOne s x d) R' j i → (j, i) ≠ (x, d) → InScope s R j i := by
    intro j i ⟨h1, h2, h3⟩ hne
    unfold Started at h1; rw [hjobs] at h1 h2
    exact ⟨h1, h2, hR j i h3 hne⟩
  refine ⟨?_, ?_, ?_, ?_⟩
  · intro j i t c hs ho
    by_cases hne : (j, i) = (x, d)
    · simp only [Prod.mk.injEq] at hne
      obtain ⟨rfl, rfl⟩ := hne
      rw [hjobs] at ho
      have ho' : ((s.jobs j).deps.getD i default).origin = .tok t c := ho
      unfold regOne
      split
      · rename_i o' ho''; rw [ho'] at ho''; cases ho''
      · rename_i t' c' ho''; rw [ho'] at ho''; cases ho''; simp [upd]
    · rw [hjobs] at ho
      exact htd t _ (h.tokComplete j i t c (hsc j i hs hne) ho)
  · intro j i o hs ho
    by_cases hne : (j, i) = (x, d)
    · simp only [Prod.mk.injEq] at hne
      obtain ⟨rfl, rfl⟩ := hne
      rw [hjobs] at ho
      have ho' : ((s.jobs j).deps.getD i default).origin = .job o := ho
      unfold regOne
      split
      · rename_i o' ho''; rw [ho'] at ho''; cases ho''; simp [upd]
      · rename_i t' c' ho''; rw [ho'] at ho''; cases ho''
    · rw [hjobs] at ho
      exact hjd o _ (h.jobComplete j i o (hsc j i hs hne) ho)
  · intro j i t c hs hex ho hc
    have hne : (j, i) ≠ (x, d) := fun e => hex (by rw [e])
    rw [hjobs] at ho hc
    unfold Pend; rw [hready, hav]
    exact h.tokWait j i t c (hsc j i hs hne) (by simp) ho hc
  · intro j i o r hs hex ho hc hf
    have hne : (j, i) ≠ (x, d) := fun e => hex (by rw [e])
    rw [hjobs] at ho hc hf
    unfold Pend; rw [hready]
    exact h.jobWait j i o r (hsc j i hs hne) (by simp) ho hc hf



/-- "no lost notification" for every registered dependency. -/
def InvQF (s : St) : Prop := InvQ s (fun _ _ => True) none

theorem invQ_rescope {s : St} {R R' : Nat → Nat → Prop} {ex : Option (Nat × Nat)}
    (hR : ∀ j i, Started s j → i < (s.jobs j).deps.length → R' j i → R j i) (h : InvQ s R ex) : InvQ s R' ex :=
  invQ_transfer (s := s) (fun j i hs => ⟨hs.1, hs.2.1, hR j i hs.1 hs.2.1 hs.2.2⟩) (fun _ _ _ => rfl)
    (fun _ _ hf => hf) (fun _ => Int.le_refl _) (fun _ _ hp => hp) (fun _ _ hp => hp) (fun _ _ hp => hp) h

theorem invQ_congr {s s' : St} {R : Nat → Nat → Prop} {ex : Option (Nat × Nat)} (hj : s'.jobs = s.jobs)
    (hav : s'.avail = s.avail) (hr : s'.ready = s.ready) (htd : s'.tokDeps = s.tokDeps) (hjd : s'.jobDeps = s.jobDeps)
    (h : InvQ s R ex) : InvQ s' R ex :=
  invQ_fields hj (by rw [hav]; exact fun _ => Int.le_refl _) (by rw [hr]; exact fun _ hcb => hcb) htd hjd h

theorem shape_invQ {s s' : St} {y : Nat} {jb : Job} {cbs : List Cb} {R : Nat → Nat → Prop}
    {ex : Option (Nat × Nat)} (hs : Shape s s' y jb cbs) (hdeps : jb.deps = (s.jobs y).deps)
    (hst : jb.state ≠ .unscheduled → (s.jobs y).state ≠ .unscheduled ∨ (∀ i, ¬ R y i))
    (hfin : ∀ r, jb.pc = .finished r → (s.jobs y).pc = .finished r) (h : InvQ s R ex) : InvQ s' R ex :=
  invQ_congr (s := s.put y jb cbs []) hs.jobs hs.avail hs.ready hs.tokDeps hs.jobDeps
    (put_invQ s y jb cbs [] R ex hdeps hst hfin h)

theorem loopHeadJ_not_finished (jb : Job) (r : JS) : (loopHeadJ jb).pc ≠ .finished r := by
  intro h
  have := loopHeadJ_kind jb
  rw [h] at this
  simp [pcKind] at this

/-- scope while job `x` registers its dependencies: only the first `d`. -/
def Rd (x d : Nat) : Nat → Nat → Prop := fun j i => j = x → i < d

theorem regPhase_invQ (fl : Flags) (hg : fl.readyGuarded = true) (s : St) (x : Nat)
    (hL : JL s) (hS : InvS s) (hD : InvD s) (hu : (s.jobs x).state = .unscheduled) (h : InvQF s) :
    InvQF (regPhase fl s x) := by
  have hq0 : InvQ s (Rd x 0) none := invQ_rescope (fun _ _ _ _ _ => trivial) h
  have hno : ∀ i, ¬ Rd x 0 x i := fun i hi => by have := hi rfl; omega
  unfold regPhase
  split
  · rename_i hemp
    have hd : (s.jobs x).deps = [] := by simpa using hemp
    have h2 : InvQ ((s.put x (startRec (s.jobs x))).put x (startRecNoDeps (s.jobs x))) (Rd x 0) none :=
      shape_invQ (put_put_shape s x _ _) rfl (fun _ => Or.inr hno) (fun r e => (by cases hp : (s.jobs x).pc <;> simp_all [startRecNoDeps, startRec])) hq0
    refine invQ_rescope ?_ h2
    intro j i _ hi _ hj
    subst hj
    simp [startRecNoDeps, startRec, hd] at hi
  · have hQ1 := (regPhase_Q fl hg s x (hL x) hS hD hu)
    have hq1 : InvQ ((s.put x (startRec (s.jobs x))).put x (startRecDeps (s.jobs x))) (Rd x 0) none :=
      shape_invQ (put_put_shape s x _ _) rfl (fun _ => Or.inr hno) (fun r e => (by cases hp : (s.jobs x).pc <;> simp_all [startRecDeps, startRec])) hq0
    -- the registration loop, with the scope growing one dependency at a time
    have hStartQ1 : StartQ s ((s.put x (startRec (s.jobs x))).put x (startRecDeps (s.jobs x))) x := by
      have hND := noDeps_of_unscheduled hD.truth hu
      have hJ0 := hD.recs x
      have hp := hJ0.fresh hu
      refine ⟨shape_invD (put_put_shape s x _ _) hD (jdeep_startRecDeps hJ0 hu) rfl (fun _ => by simp [startRecDeps, startRec])
        (Or.inr hND) (by simp), ?_, ?_, ?_, ?_⟩
      · exact put_noDeps _ x x _ _ _ (by simp [startRecNoDeps, startRecDeps, startRec]) (put_noDeps s x x _ _ _ rfl hND)
      · simp [Started, startRecDeps, startRec]
      · simp only [put_jobs, upd_same]
        exact startRec_jlocal (hL x) hp _ rfl rfl rfl rfl (Or.inl rfl)
      · exact (Frame.put s x (startRec (s.jobs x)) [] [] ⟨rfl, rfl, rfl, rfl⟩).trans (Frame.put (s.put x (startRec (s.jobs x))) x _ [] [] (by rw [put_jobs, upd_same]; exact ⟨rfl, rfl, rfl, rfl⟩))
    have hJL1 : JL ((s.put x (startRec (s.jobs x))).put x (startRecDeps (s.jobs x))) := by
      intro i
      by_cases hi : i = x
      · subst hi; exact hStartQ1.2.2.2.1
      · simp only [put_jobs, upd_ne _ _ hi]; exact hL i
    have key := registerDeps_ind2
      (fun d s' => StartQ s s' x ∧ JL s' ∧ InvQ s' (Rd x d) none) fl x (s.jobs x).deps.length ?_
      (s.jobs x).deps.length 0 _ (Nat.zero_add _) ⟨hStartQ1, hJL1, hq1⟩
    · obtain ⟨hq, _, hi⟩ := key
      refine invQ_rescope ?_ hi
      intro j i _ hi' _ hj
      subst hj
      rw [(startQ_len hq).1] at hi'; exact hi'
    · intro s' d hd ⟨hq, hjl, hi⟩
      have hq' := startQ_regOne s s' x d hd hq
      have hjl' : JL (regOne s' x d) := by intro i; rw [(regOne_frame s' x d).1]; exact hjl i
      have hi' := regOne_invQ s' x d (Rd x d) (Rd x (d + 1)) (by
        intro j i hR hne hj
        have := hR hj
        have : i ≠ d := fun e => hne (by rw [hj, e])
        omega) hi
      refine ⟨startQ_check fl hg s _ x d hS hd hq', fun i => check_jl fl hg _ x d i (hjl' i), ?_⟩
      refine check_invQ fl hg _ x d _ _ hjl' ⟨hq'.2.2.1, by rw [(startQ_len hq').1]; exact hd⟩ ?_ hi'
      intro p hp; simp at hp; exact hp.symm

theorem startJob_invQ (fl : Flags) (hg : fl.readyGuarded = true) (s : St) (x : Nat)
    (hL : JL s) (hS : InvS s) (hD : InvD s) (hu : (s.jobs x).state = .unscheduled) (h : InvQF s) :
    InvQF (s.startJob fl x) := by
  rw [startJob_eq]
  have h2 := regPhase_invQ fl hg s x hL hS hD hu h
  have hSt := (regPhase_Q fl hg s x (hL x) hS hD hu).2.2.1
  generalize regPhase fl s x = s2 at h2 hSt
  refine shape_invQ (marker_loopHead_shape s2 x) ?_ (fun _ => Or.inl hSt) (fun r e => absurd e (loopHeadJ_not_finished _ r)) h2
  rw [(loopHeadJ_frame _).1]; split <;> rfl



theorem wake_invQ (fl : Flags) (s : St) (x : Nat) (hst : (s.jobs x).state ≠ .unscheduled) (h : InvQF s) :
    InvQF (s.runCb fl (.wake x)) := by
  simp only [St.runCb]
  split
  · exact put_invQ s x _ _ _ _ none rfl (fun _ => Or.inl hst) (fun r e => (by cases e)) h
  · refine shape_invQ (put_loopHead_shape s x _ [] []) ?_ (fun _ => Or.inl hst)
      (fun r e => absurd e (loopHeadJ_not_finished _ r)) h
    rw [(loopHeadJ_frame _).1]

theorem releaseAll_invQ (s : St) (x : Nat) (ds : List Nat) (R : Nat → Nat → Prop) (ex : Option (Nat × Nat))
    (h : InvQ s R ex) : InvQ (St.releaseAll s x ds) R ex :=
  releaseAll_ind (fun s' => InvQ s' R ex) x (fun _ => True)
    (fun s' d _ h' => relOne_invQ s' x d R ex h')
    (fun s' h' => put_invQ s' x _ _ _ R ex rfl (fun e => Or.inl e) (fun r e => e) h')
    ds s (fun _ _ => trivial) h

theorem acquireAll_invQ (s : St) (x k d : Nat) (R : Nat → Nat → Prop) (ex : Option (Nat × Nat))
    (h : InvQ s R ex) : InvQ (St.acquireAll s x k d).1 R ex :=
  (acquireAll_ind (fun s' => InvQ s' R ex) x (d + k) (fun s' d _ _ h' => acqOne_invQ s' x d R ex h') k d s rfl h).1

theorem abortRelease_invQ (fl : Flags) (s : St) (x : Nat) (R : Nat → Nat → Prop) (ex : Option (Nat × Nat))
    (h : InvQ s R ex) : InvQ (abortRelease fl s x) R ex := by
  unfold abortRelease; split
  · exact releaseAll_invQ s x _ R ex h
  · exact h

theorem abortRelease_jl (fl : Flags) (s : St) (x : Nat) (h : JL s) : JL (abortRelease fl s x) := by
  intro i
  by_cases hi : i = x
  · subst hi
    obtain ⟨hl, e⟩ := abortRelease_job fl s i
    rw [e]; exact h i
  · rw [(abortRelease_frame fl s x).2.2.2.2.1 i hi]; exact h i

theorem enterTail_invQ (fl : Flags) (hg : fl.readyGuarded = true) (r : St × Option Nat) (x : Nat)
    (hL : JL r.1) (hst : (r.1.jobs x).state ≠ .unscheduled)
    (hlt : ∀ e, r.2 = some e → e < (r.1.jobs x).deps.length) (h : InvQF r.1) : InvQF (enterTail fl r x) := by
  obtain ⟨s1, fa⟩ := r
  simp only at hL hst hlt h
  unfold enterTail
  cases fa with
  | some d =>
    simp only
    obtain ⟨hl, e⟩ := abortRelease_job fl s1 x
    have hstA : ((abortRelease fl s1 x).jobs x).state ≠ .unscheduled := by rw [e]; exact hst
    have hc := check_invQ fl hg (abortRelease fl s1 x) x d _ none (abortRelease_jl fl s1 x hL)
      ⟨hstA, by rw [e]; exact hlt d rfl⟩ (by intro p hp; cases hp) (abortRelease_invQ fl s1 x _ none h)
    have hst' : (((abortRelease fl s1 x).check fl x d).jobs x).state ≠ .unscheduled := by
      rw [check_job]; exact (depChanged_mono fl hg _ _ _).1 hstA
    exact put_invQ _ x _ _ _ _ none rfl (fun _ => Or.inl hst') (fun r e => (by cases e)) hc
  | none =>
    simp only
    exact put_invQ _ x _ _ _ _ none rfl (fun _ => Or.inl hst) (fun r e => (by cases e)) h

theorem abortTail_invQ (fl : Flags) (s1 : St) (x : Nat) (hst : (s1.jobs x).state ≠ .unscheduled) (h : InvQF s1) :
    InvQF (abortTail fl s1 x) := by
  unfold abortTail
  simp only
  refine shape_invQ (put_loopHead_shape s1 x _ _ []) ?_ (fun _ => Or.inl hst)
    (fun r e => absurd e (loopHeadJ_not_finished _ r)) h
  rw [(loopHeadJ_frame _).1]
  split
  · exact (eventSet_frame _).2.2.2.2.2.2.2.2.1
  · rfl

theorem codeTail_invQ (s1 : St) (x : Nat) (hst : (s1.jobs x).state ≠ .unscheduled) (h : InvQF s1) :
    InvQF (codeTail s1 x) := by
  unfold codeTail
  have hs := (Shape.put s1 x { (s1.jobs x) with state := if (s1.jobs x).code = 0 then JS.done else JS.error } [] []).trans
    (finish_shape _ x)
  simp only [put_jobs, upd_same, List.append_nil] at hs
  exact shape_invQ hs rfl (fun _ => Or.inl hst) (fun r e => (by cases e)) h

theorem resume_invQ (fl : Flags) (hg : fl.readyGuarded = true) (s : St) (x : Nat) (hL : JL s)
    (hst : (s.jobs x).state ≠ .unscheduled) (h : InvQF s) : InvQF (s.resume fl x) := by
  cases hp : (s.jobs x).pc with
  | lockEnter =>
    rw [resume_lockEnter fl s x hp]
    obtain ⟨hl, e⟩ := acquireAll_job s x (s.jobs x).deps.length 0
    have hF := acquireAll_frame s x (s.jobs x).deps.length 0
    refine enterTail_invQ fl hg _ x ?_ (by rw [e]; exact hst) ?_ (acquireAll_invQ s x _ 0 _ none h)
    · intro i
      by_cases hi : i = x
      · subst hi; rw [e]; exact hL i
      · rw [hF.2.2.2.2.1 i hi]; exact hL i
    · intro d hd; rw [e]; simpa using acquireAll_lt s x _ 0 d hd
  | lockExitAbort =>
    rw [resume_lockExitAbort fl s x hp]
    exact abortTail_invQ fl _ x (by rw [releaseAll_job]; exact hst) (releaseAll_invQ s x _ _ none h)
  | lockExitRun =>
    rw [resume_lockExitRun fl s x hp]
    exact put_invQ s x _ _ _ _ none rfl (fun _ => Or.inl hst) (fun r e => (by cases e)) h
  | codeWait =>
    rw [resume_codeWait fl s x hp]
    exact codeTail_invQ _ x (by rw [releaseAll_job]; exact hst) (releaseAll_invQ s x _ _ none h)
  | doneHandler => rw [resume_doneHandler fl s x hp]; exact doneStep_invQ s x _ none h
  | _ => rw [resume_other fl s x (by simp [hp, pcKind])]; exact h

/-- `notifyCheck`: either the check runs, or the token has nothing available. -/
theorem notifyCheck_cases2 (fl : Flags) (s : St) (j d : Nat) :
    s.runCb fl (.notifyCheck j d) = s.check fl j d ∨
    (s.runCb fl (.notifyCheck j d) = s ∧ ∃ t c, (depAt (s.jobs j) d).origin = .tok t c ∧ s.avail t ≤ 0) := by
  simp only [St.runCb]
  split
  · rename_i t c ho
    split
    · exact Or.inl rfl
    · rename_i hle; exact Or.inr ⟨rfl, t, c, ho, by omega⟩
  · exact Or.inl rfl

theorem runCb_invQ (fl : Flags) (hg : fl.readyGuarded = true) (s : St) (cb : Cb) (rest : List Cb)
    (hC : InvC s) (hr : s.ready = cb :: rest) (h : InvQF s) : InvQF (({ s with ready := rest } : St).runCb fl cb) := by
  have h0 := pop_invQ h hr
  have hL0 : JL ({ s with ready := rest } : St) := hC.a.loc
  have hstart : ∀ x, pcKind (s.jobs x).pc = 2 ∨ pcKind (s.jobs x).pc = 3 → (s.jobs x).state ≠ .unscheduled := by
    intro x hk hu
    have := (hC.d.recs x).fresh hu
    rcases this with e | e <;> rw [e] at hk <;> simp [pcKind] at hk
  cases cb with
  | register j =>
    have f := register_jobs fl ({ s with ready := rest } : St) j
    refine invQ_congr (s := ({ s with ready := rest } : St)) f.1 ?_ f.2.1 ?_ ?_ h0 <;>
    · simp only [St.runCb]; unfold St.register; simp only; split
      · split
        · split <;> rfl
        · rfl
      · rfl
  | start j =>
    have hpc := head_start_pc (s := s) hC.a.ctl hr
    have hS0 : InvS ({ s with ready := rest } : St) :=
      ⟨hC.st.blankDeps, hC.st.acyclic, hC.st.tokOK, hC.st.effLe, hC.st.regLt, hC.st.resLt,
       fun j hj => hC.st.regCb j (by rw [hr]; exact List.mem_cons_of_mem _ hj)⟩
    exact startJob_invQ fl hg _ j hL0 hS0 (pop_invD hC.d hr) (hC.f j (Or.inr hpc)) h0
  | wake j =>
    have hpc := head_wake_pc (s := s) hC.a.ctl hr
    exact wake_invQ fl _ j (hstart j (Or.inl (by rw [hpc]; rfl))) h0
  | resume j =>
    exact resume_invQ fl hg _ j hL0 (hstart j (Or.inr (head_resume_kind (s := s) hC.a.ctl hr))) h0
  | check j d =>
    have hok := hC.d.wf.cbOK j d (Or.inl (by rw [hr]; exact List.mem_cons_self ..))
    exact check_invQ fl hg _ j d _ _ hL0 hok (by intro p hp; simp [pairOf] at hp; exact hp.symm) h0
  | notifyCheck j d =>
    have hok := hC.d.wf.cbOK j d (Or.inr (by rw [hr]; exact List.mem_cons_self ..))
    rcases notifyCheck_cases2 fl ({ s with ready := rest } : St) j d with e | ⟨e, t, c, ho, hle⟩ <;> rw [e]
    · exact check_invQ fl hg _ j d _ _ hL0 hok (by intro p hp; simp [pairOf] at hp; exact hp.symm) h0
    · refine invQ_unexempt (p := (j, d)) h0 ?_ ?_
      · intro t' c' _ ho' _
        have ho'' : (depAt (s.jobs j) d).origin = .tok t' c' := ho'
        have ho2 : (depAt (s.jobs j) d).origin = .tok t c := ho
        rw [ho2] at ho''
        simp only [Origin.tok.injEq] at ho''
        obtain ⟨rfl, rfl⟩ := ho''
        have := (hC.st.tokOK j d t c hok.2 ho2).2
        left
        show s.avail t < c
        have hle' : s.avail t ≤ 0 := hle
        omega
      · intro o r _ ho' _ _
        have ho'' : (depAt (s.jobs j) d).origin = .job o := ho'
        have ho2 : (depAt (s.jobs j) d).origin = .tok t c := ho
        rw [ho2] at ho''; cases ho''
  | waiterRun =>
    have f := waiterRun_jobs ({ s with ready := rest } : St)
    refine invQ_congr (s := ({ s with ready := rest } : St)) f.1 ?_ f.2.1 ?_ ?_ h0 <;>
    · simp only [St.runCb]; unfold St.waiterRun; split <;> rfl



/-- all step-level layers, including "no lost notification". -/
structure InvG (fl : Flags) (s : St) : Prop where
  e : InvE fl s
  nolost : InvQF s

theorem step_invG (fl : Flags) (hg : fl.readyGuarded = true) (ha : fl.abortRechecks = true) (s : St) (h : InvG fl s) :
    InvG fl (s.step fl) := by
  refine ⟨step_invE fl hg ha s h.e, ?_⟩
  unfold St.step; split
  · exact h.nolost
  · rename_i cb rest hr; exact runCb_invQ fl hg s cb rest h.e.c hr h.nolost

theorem apply_invG (fl : Flags) (hg : fl.readyGuarded = true) (ha : fl.abortRechecks = true) (s : St) (ev : Ev)
    (hok : EvOK s ev) (h : InvG fl s) : InvG fl (s.apply fl ev) := by
  cases ev with
  | step => exact step_invG fl hg ha s h
  | wait =>
    refine ⟨apply_invE fl hg ha s .wait hok h.e, ?_⟩
    exact invQ_fields (s := s) rfl (fun _ => Int.le_refl _)
      (fun cb hcb => by simp only [St.apply, List.mem_append]; exact Or.inl hcb) rfl rfl h.nolost
  | deliver k =>
    refine ⟨apply_invE fl hg ha s (.deliver k) hok h.e, ?_⟩
    simp only [St.apply]; split
    · exact invQ_fields (s := s) rfl (fun _ => Int.le_refl _)
        (fun cb hcb => by simp only [List.mem_append]; exact Or.inl hcb) rfl rfl h.nolost
    · exact h.nolost
  | submit ident deps code marker =>
    refine ⟨apply_invE fl hg ha s _ hok h.e, ?_⟩
    rw [apply_submit]
    have hpcn := h.e.c.a.blank s.n (Nat.le_refl _)
    have hun : (s.jobs s.n).state = .unscheduled := h.e.c.f s.n (Or.inl hpcn)
    have hE0 : InvE fl (submitPre s ident deps code marker) := by
      have := apply_invE fl hg ha s (.submit ident deps code marker) hok h.e
      -- rebuild from the parts (the event-level lemma is about the whole event): use the pre-state lemmas directly
      refine ⟨submitPre_invC s ident deps code marker hok h.e.c, ?_⟩
      intro i
      by_cases hi : i = s.n
      · subst hi
        simp only [submitPre, upd_same]
        exact ⟨⟨fun hs => (by cases hs), fun hp => (by cases hp), fun hp => (by cases hp), fun hw => (by cases hw),
          fun hw => (by cases hw)⟩, fun hh => absurd rfl hh⟩
      · rw [submitPre_jobs_ne _ _ _ _ _ _ hi]; exact h.e.q i
    have hQ0 : InvQF (submitPre s ident deps code marker) := by
      refine invQ_transfer (s := s) ?_ ?_ ?_ (fun _ => Int.le_refl _) ?_ (fun _ _ hp => hp) (fun _ _ hp => hp) h.nolost
      · intro j i ⟨h1, h2, h3⟩
        by_cases hj : j = s.n
        · subst hj; exact absurd (by simp [submitPre, newJob]) h1
        · unfold Started at h1; rw [submitPre_jobs_ne _ _ _ _ _ _ hj] at h1 h2; exact ⟨h1, h2, h3⟩
      · intro j i ⟨h1, _, _⟩
        by_cases hj : j = s.n
        · subst hj; exact absurd (by simp [submitPre, newJob]) h1
        · rw [submitPre_jobs_ne _ _ _ _ _ _ hj]
      · intro o r hf
        by_cases ho : o = s.n
        · subst ho; simp [submitPre, newJob] at hf
        · rw [submitPre_jobs_ne _ _ _ _ _ _ ho] at hf; exact hf
      · intro j i hp
        unfold Pend at hp ⊢
        simp only [submitPre, List.mem_append]
        rcases hp with hp | hp
        · exact Or.inl (Or.inl hp)
        · exact Or.inr (Or.inl hp)
    have h1 := steps_ind (fun s' => InvG fl s' ∧ (s'.jobs s.n).pc = .none) fl
      (fun s' hs' => ⟨step_invG fl hg ha s' hs'.1, by
        rw [step_kind0 fl s' hs'.1.e.c.a.ctl s.n (by rw [hs'.2]; rfl)]; exact hs'.2⟩)
      (s.ready.length + 1) _ ⟨⟨hE0, hQ0⟩, by simp [submitPre, newJob]⟩
    generalize St.steps fl (submitPre s ident deps code marker) (s.ready.length + 1) = s2 at h1
    obtain ⟨hG, hpc⟩ := h1
    have hun2 : (s2.jobs s.n).state = .unscheduled := hG.e.c.f s.n (Or.inl hpc)
    unfold submitPost
    split
    · exact invQ_congr (s := s2) rfl rfl rfl rfl rfl hG.nolost
    · refine put_invQ _ s.n _ _ _ _ none rfl (fun hs => absurd hun2 hs) (fun r e => (by cases e)) ?_
      exact invQ_congr (s := s2) rfl rfl rfl rfl rfl hG.nolost

theorem init_invG (totals : List Nat) : InvG fl (St.init totals) := by
  refine ⟨init_invE totals, ?_, ?_, ?_, ?_⟩
  · intro j i t c hs; simp [InScope, St.init] at hs
  · intro j i o hs; simp [InScope, St.init] at hs
  · intro j i t c hs; simp [InScope, St.init] at hs
  · intro j i o r hs; simp [InScope, St.init] at hs

theorem reachable_invG {fl : Flags} (hg : fl.readyGuarded = true) (ha : fl.abortRechecks = true)
    {totals : List Nat} {s : St} (h : Reachable fl totals s) : InvG fl s := by
  induction h with
  | init => exact init_invG totals
  | next _ hok ih => exact apply_invG fl hg ha _ _ hok ih



/-! ## sixth layer: every dependency points to a scheduled job -/

/-- what a step never undoes: scheduled jobs stay scheduled; `eff`, `n` and the dependency origins are fixed. -/
structure Mono (s s' : St) : Prop where
  pcs : ∀ j, (s.jobs j).pc ≠ .none → (s'.jobs j).pc ≠ .none
  eff : s'.eff = s.eff
  n : s'.n = s.n
  lens : ∀ j, (s'.jobs j).deps.length = (s.jobs j).deps.length
  origins : ∀ j i, (depAt (s'.jobs j) i).origin = (depAt (s.jobs j) i).origin

theorem runCb_mono (fl : Flags) (s : St) (cb : Cb) (rest : List Cb) (hI : Inv1 s) (hr : s.ready = cb :: rest) :
    Mono s (({ s with ready := rest } : St).runCb fl cb) := by
  have hF := runCb_frame fl ({ s with ready := rest } : St) cb
  obtain ⟨fn, fe, _, _, fj, fc⟩ := hF
  have hc := sameConst_origin fc
  refine ⟨?_, fe, fn, ?_, ?_⟩
  · intro j hj
    by_cases hjt : j = target cb
    · subst hjt
      by_cases hp : plainCb cb
      · rw [plain_pc fl _ cb hp]; exact hj
      · cases cb with
        | start x => exact fun e => startJob_not_fresh fl _ x (Or.inl e)
        | wake x => exact fun e => wake_not_fresh fl _ x (Or.inl e)
        | resume x => exact fun e => resume_not_fresh fl ({ s with ready := rest } : St) x (head_resume_kind (s := s) hI hr) (Or.inl e)
        | _ => simp [plainCb] at hp
    · rw [fj j hjt]; exact hj
  · intro j
    by_cases hjt : j = target cb
    · subst hjt; exact hc.1
    · rw [fj j hjt]
  · intro j i
    by_cases hjt : j = target cb
    · subst hjt; exact hc.2 i
    · rw [fj j hjt]

/-- scheduled origins: `eff d` for `d < m`, and every job dependency. -/
structure OE (s : St) (m : Nat) : Prop where
  effSch : ∀ d, d < m → (s.jobs (s.eff d)).pc ≠ .none
  origSch : ∀ j i o, i < (s.jobs j).deps.length → (depAt (s.jobs j) i).origin = .job o → (s.jobs o).pc ≠ .none

def RegSch (s : St) : Prop := ∀ p, p ∈ s.registry → (s.jobs p.2).pc ≠ .none

theorem oe_mono {s s' : St} {m : Nat} (hM : Mono s s') (h : OE s m) : OE s' m :=
  ⟨fun d hd => by rw [hM.eff]; exact hM.pcs _ (h.effSch d hd),
   fun j i o hi ho => by rw [hM.lens] at hi; rw [hM.origins] at ho; exact hM.pcs _ (h.origSch j i o hi ho)⟩

/-- after the registration: what the registry and the result say about the new job `j`. -/
def B2 (s : St) (j : Nat) : Prop :=
  (s.regResult = some none ∧ ∀ p, p ∈ s.registry → (s.jobs p.2).pc ≠ .none ∨ p.2 = j) ∨
  (∃ o, s.regResult = some (some o) ∧ (s.jobs o).pc ≠ .none ∧ RegSch s)

theorem register_registry (fl : Flags) (s : St) (j : Nat) :
    ((s.register fl j).regResult = some none ∧
      ((s.register fl j).registry = ((s.jobs j).ident, j) :: s.registry ∨ (s.register fl j).registry = s.registry)) ∨
    (∃ o, (s.register fl j).regResult = some (some o) ∧ (s.register fl j).registry = s.registry ∧
      ((s.jobs j).ident, o) ∈ s.registry) := by
  unfold St.register
  simp only
  split
  · rename_i o ho
    split
    · split
      · exact Or.inl ⟨rfl, Or.inl rfl⟩
      · exact Or.inl ⟨rfl, Or.inr rfl⟩
    · exact Or.inr ⟨o, rfl, rfl, lookup_mem _ _ _ ho⟩
  · exact Or.inl ⟨rfl, Or.inl rfl⟩

/-- a non-registration step inside (or outside) `submit` keeps the registry facts. -/
theorem step_regSch (fl : Flags) (s : St) (hI : Inv1 s) (hz : nReg s.ready = 0) :
    Mono s (s.step fl) ∧ (s.step fl).registry = s.registry ∧ (s.step fl).regResult = s.regResult := by
  unfold St.step
  split
  · exact ⟨⟨fun _ h => h, rfl, rfl, fun _ => rfl, fun _ _ => rfl⟩, rfl, rfl⟩
  · rename_i cb rest hr
    rw [hr] at hz
    have hcb := isReg_of_nReg hz
    obtain ⟨q1, q2, _⟩ := runCb_queue fl ({ s with ready := rest } : St) cb hcb.1
    exact ⟨runCb_mono fl s cb rest hI hr, q2, q1⟩

theorem stepA_succ2 (fl : Flags) (s : St) (j m : Nat) (hI : Inv1 s) (h : PhA s j (m + 1)) (hR : RegSch s) :
    Mono s (s.step fl) ∧ RegSch (s.step fl) := by
  obtain ⟨r, extra, hr, hl, hz, hze, hrr, hc⟩ := h
  cases r with
  | nil => simp at hl
  | cons cb r' =>
    have hcb := isReg_of_nReg hz
    have hr' : s.ready = cb :: (r' ++ Cb.register j :: extra) := by rw [hr]; rfl
    have hM : Mono s (s.step fl) := by
      unfold St.step; rw [hr']; exact runCb_mono fl s cb _ hI hr'
    have hreg : (s.step fl).registry = s.registry := by
      unfold St.step; rw [hr']; simp only
      exact (runCb_queue fl _ cb hcb.1).2.1
    exact ⟨hM, fun p hp => by rw [hreg] at hp; exact hM.pcs _ (hR p hp)⟩

theorem stepA_zero2 (fl : Flags) (s : St) (j : Nat) (h : PhA s j 0) (hR : RegSch s) :
    Mono s (s.step fl) ∧ B2 (s.step fl) j := by
  obtain ⟨r, extra, hr, hl, hz, hze, hrr, hc⟩ := h
  have : r = [] := List.eq_nil_of_length_eq_zero hl
  subst this
  simp only [List.nil_append] at hr
  have hstep : s.step fl = St.register fl ({ s with ready := extra } : St) j := by
    unfold St.step; rw [hr]; rfl
  have f := register_jobs fl ({ s with ready := extra } : St) j
  have hF := register_frame fl ({ s with ready := extra } : St) j j
  have hjobs : (s.step fl).jobs = s.jobs := by rw [hstep]; exact f.1
  have hM : Mono s (s.step fl) :=
    ⟨fun k hk => by rw [hjobs]; exact hk, by rw [hstep]; exact hF.2.1, by rw [hstep]; exact hF.1,
     fun k => by rw [hjobs], fun k i => by rw [hjobs]⟩
  refine ⟨hM, ?_⟩
  unfold B2
  rw [hjobs]
  rw [hstep]
  have hR' : ∀ p, p ∈ s.registry → (s.jobs p.2).pc ≠ .none := hR
  rcases register_registry fl ({ s with ready := extra } : St) j with ⟨e1, e2⟩ | ⟨o, e1, e2, e3⟩
  · left
    refine ⟨e1, ?_⟩
    intro p hp
    rcases e2 with e2 | e2 <;> rw [e2] at hp
    · simp only [List.mem_cons] at hp
      rcases hp with hp | hp
      · right; rw [hp]
      · exact Or.inl (hR' p hp)
    · exact Or.inl (hR' p hp)
  · right
    refine ⟨o, e1, hR' _ e3, ?_⟩
    intro p hp; rw [e2] at hp
    show ((St.register fl ({ s with ready := extra } : St) j).jobs p.2).pc ≠ .none
    rw [f.1]; exact hR' p hp

theorem stepB2 (fl : Flags) (s : St) (j : Nat) (hI : Inv1 s) (hB : PhB s) (h : B2 s j) :
    Mono s (s.step fl) ∧ B2 (s.step fl) j := by
  obtain ⟨hM, hreg, hres⟩ := step_regSch fl s hI hB.1
  refine ⟨hM, ?_⟩
  unfold B2
  rw [hres]
  rcases h with ⟨e, h⟩ | ⟨o, e, ho, h⟩
  · left
    refine ⟨e, fun p hp => ?_⟩
    rw [hreg] at hp
    rcases h p hp with h | h
    · exact Or.inl (hM.pcs _ h)
    · exact Or.inr h
  · right
    exact ⟨o, e, hM.pcs _ ho, fun p hp => by rw [hreg] at hp; exact hM.pcs _ (h p hp)⟩



/-- event-level: the registry, `eff` and every job dependency point to scheduled jobs. -/
structure InvH (s : St) : Prop where
  reg : RegSch s
  oe : OE s s.n

theorem steps_phaseA2 (fl : Flags) (hg : fl.readyGuarded = true) (j : Nat) :
    ∀ m k s, InvA s → PhA s j k → RegSch s → OE s j → m ≤ k →
      InvA (St.steps fl s m) ∧ PhA (St.steps fl s m) j (k - m) ∧ RegSch (St.steps fl s m) ∧ OE (St.steps fl s m) j := by
  intro m
  induction m with
  | zero => intro k s hA hP hR hO _; exact ⟨hA, hP, hR, hO⟩
  | succ m ih =>
    intro k s hA hP hR hO hm
    obtain ⟨k', rfl⟩ : ∃ k', k = k' + 1 := ⟨k - 1, by omega⟩
    obtain ⟨hM, hR'⟩ := stepA_succ2 fl s j k' hA.ctl hP hR
    have := ih k' (s.step fl) (step_invA fl hg s hA) (stepA_succ fl s j k' hA.ctl hP) hR' (oe_mono hM hO) (by omega)
    simpa [St.steps, Nat.add_sub_add_right] using this

theorem steps_succ_eq (fl : Flags) (s : St) (k : Nat) : St.steps fl s (k + 1) = (St.steps fl s k).step fl := by
  induction k generalizing s with
  | zero => rfl
  | succ k ih => simp only [St.steps]; exact ih _

theorem apply_invH (fl : Flags) (hg : fl.readyGuarded = true) (hf : fl.resubmitRegisters = true) (s : St) (ev : Ev)
    (hok : EvOK s ev) (hA : InvA s) (hB : InvB s) (hS : InvS s) (h : InvH s) : InvH (s.apply fl ev) := by
  cases ev with
  | step =>
    obtain ⟨hM, hreg, _⟩ := step_regSch fl s hA.ctl hB.noreg
    refine ⟨fun p hp => ?_, ?_⟩
    · simp only [St.apply] at hp ⊢; rw [hreg] at hp; exact hM.pcs _ (h.reg p hp)
    · have := oe_mono hM h.oe
      simp only [St.apply]; rw [hM.n]; exact this
  | wait => exact ⟨fun p hp => h.reg p hp, ⟨fun d hd => h.oe.effSch d hd, fun j i o hi ho => h.oe.origSch j i o hi ho⟩⟩
  | deliver k =>
    simp only [St.apply]; split
    · exact ⟨fun p hp => h.reg p hp, ⟨fun d hd => h.oe.effSch d hd, fun j i o hi ho => h.oe.origSch j i o hi ho⟩⟩
    · exact h
  | submit ident deps code marker =>
    rw [apply_submit]
    have hne := fun i (hi : i ≠ s.n) => submitPre_jobs_ne s ident deps code marker i hi
    -- the pre-state
    have hR1 : RegSch (submitPre s ident deps code marker) := by
      intro p hp
      have hp' : p ∈ s.registry := hp
      have := hS.regLt p hp'
      rw [hne _ (by omega)]; exact h.reg p hp'
    have hO1 : OE (submitPre s ident deps code marker) s.n := by
      refine ⟨fun d hd => ?_, fun j' i o hi ho => ?_⟩
      · have := hS.effLe d
        show ((submitPre s ident deps code marker).jobs (s.eff d)).pc ≠ .none
        rw [hne _ (by omega)]; exact h.oe.effSch d hd
      · by_cases hj' : j' = s.n
        · subst hj'
          have hlen : ((submitPre s ident deps code marker).jobs s.n).deps.length = deps.length := by
            simp [submitPre, newJob]
          rw [hlen] at hi
          have hnew : (depAt ((submitPre s ident deps code marker).jobs s.n) i).origin =
              (match deps[i]'hi with | .job d => .job (s.eff d) | o => o) := by
            simp only [submitPre, newJob, upd_same, depAt, List.getD_eq_getElem?_getD]
            rw [List.getElem?_eq_getElem (by simpa using hi)]
            simp only [List.getElem_map, Option.getD_some]
            split <;> simp_all
          rw [hnew] at ho
          have hm := hok _ (List.getElem_mem hi)
          split at ho
          · rename_i d hd
            rw [hd] at hm
            simp only [Origin.job.injEq] at ho
            subst ho
            have := hS.effLe d
            simp only at hm
            rw [hne _ (by omega)]; exact h.oe.effSch d hm
          · rename_i hnj
            cases hdi : deps[i] with
            | job d => exact absurd hdi (hnj d)
            | tok t c => rw [hdi] at ho; cases ho
        · rw [hne j' hj'] at hi ho
          have hlt := hS.acyclic j' i o hi ho
          have hj'n : j' < s.n := by
            apply Classical.byContradiction
            intro hge
            have := hS.blankDeps j' (by omega)
            rw [this] at hi; simp at hi
          rw [hne o (by omega)]; exact h.oe.origSch j' i o hi ho
    have hA1 := submitPre_invA s ident deps code marker hA
    have hP1 := submitPre_phaseA s ident deps code marker hB
    obtain ⟨hA2, hP2, hR2, hO2⟩ := steps_phaseA2 fl hg s.n s.ready.length s.ready.length _ hA1 hP1 hR1 hO1 (Nat.le_refl _)
    rw [Nat.sub_self] at hP2
    obtain ⟨hM3, hB3⟩ := stepA_zero2 fl _ s.n hP2 hR2
    have hO3 := oe_mono hM3 hO2
    rw [← steps_succ_eq] at hB3 hO3
    have hfin := steps_invA fl hg s.n (s.ready.length + 1) _ ⟨hA1, by simp [submitPre, newJob]⟩
    have hn3 : (St.steps fl (submitPre s ident deps code marker) (s.ready.length + 1)).n = s.n + 1 := by
      rw [steps_n]; rfl
    have hS3 := steps_invS fl (s.ready.length + 1) _ (submitPre_invS s ident deps code marker hok hS)
    generalize St.steps fl (submitPre s ident deps code marker) (s.ready.length + 1) = s3 at hB3 hO3 hfin hn3 hS3
    obtain ⟨_, hpc3⟩ := hfin
    unfold submitPost
    split
    · rename_i o' ho'
      rcases hB3 with ⟨e, _⟩ | ⟨o, e, ho, hreg⟩
      · rw [e] at ho'; cases ho'
      · rw [e] at ho'
        simp only [Option.some.injEq] at ho'
        subst ho'
        refine ⟨hreg, ⟨fun d hd => ?_, hO3.origSch⟩⟩
        simp only [hn3] at hd
        show (s3.jobs (upd s3.eff s.n o d)).pc ≠ .none
        simp only [upd]
        split
        · exact ho
        · exact hO3.effSch d (by omega)
    · rename_i hnot
      rcases hB3 with ⟨e, hreg⟩ | ⟨o, e, _, _⟩
      · have hjob : ∀ k, k ≠ s.n → ((({ s3 with eff := upd s3.eff s.n s.n } : St).put s.n
            { (s3.jobs s.n) with pc := .created } [.start s.n]).jobs k) = s3.jobs k := by
          intro k hk; simp [upd_ne _ _ hk]
        refine ⟨fun p hp => ?_, ⟨fun d hd => ?_, fun j' i o' hi ho' => ?_⟩⟩
        · by_cases hpn : p.2 = s.n
          · rw [hpn]; simp
          · rw [hjob _ hpn]
            rcases hreg p hp with h1 | h1
            · exact h1
            · exact absurd h1 hpn
        · simp only [put_n, hn3] at hd
          simp only [put_eff, upd]
          split
          · simp
          · rename_i hdn
            have := hS3.effLe d
            rw [hjob _ (by omega)]
            exact hO3.effSch d (by omega)
        · have hdep : ∀ k m, depAt ((({ s3 with eff := upd s3.eff s.n s.n } : St).put s.n
              { (s3.jobs s.n) with pc := .created } [.start s.n]).jobs k) m = depAt (s3.jobs k) m := by
            intro k m
            by_cases hk : k = s.n
            · subst hk; simp [depAt]
            · rw [hjob k hk]
          have hlen : ∀ k, ((({ s3 with eff := upd s3.eff s.n s.n } : St).put s.n
              { (s3.jobs s.n) with pc := .created } [.start s.n]).jobs k).deps.length = (s3.jobs k).deps.length := by
            intro k
            by_cases hk : k = s.n
            · subst hk; simp
            · rw [hjob k hk]
          rw [hlen] at hi; rw [hdep] at ho'
          by_cases hon : o' = s.n
          · rw [hon]; simp
          · rw [hjob _ hon]; exact hO3.origSch j' i o' hi ho'
      · exact absurd e (hnot o)

theorem init_invH (totals : List Nat) : InvH (St.init totals) :=
  ⟨fun p hp => by simp [St.init] at hp, ⟨fun d hd => by simp [St.init] at hd, fun j i o hi => by simp [St.init] at hi⟩⟩

theorem reachable_invH {fl : Flags} (hg : fl.readyGuarded = true) (hf : fl.resubmitRegisters = true)
    {totals : List Nat} {s : St} (h : Reachable fl totals s) : InvH s := by
  induction h with
  | init => exact init_invH totals
  | next hr hok ih =>
    exact apply_invH fl hg hf _ _ hok (reachable_invA hg hr) (reachable_invB hg hf hr) (reachable_invS hr) ih



/-! ## deadlock freedom at quiescence -/

/-- reachability in the sense of `Proofs/SchedCap.lean` (any event list). -/
theorem reachable_cap {fl : Flags} {totals : List Nat} {s : St} (h : Reachable fl totals s) :
    XpmVerif.Sched.Reachable fl totals s := by
  induction h with
  | init => exact ⟨[], rfl⟩
  | @next s ev _ _ ih =>
    obtain ⟨evs, e⟩ := ih
    exact ⟨evs ++ [ev], by rw [List.foldl_append, ← e]; rfl⟩

/-- no job asks for more units of a token than the token has. -/
def TokFit (s : St) : Prop :=
  ∀ j i t c, i < (s.jobs j).deps.length → (depAt (s.jobs j) i).origin = .tok t c → c ≤ s.total t

/-- at quiescence every token is full and nobody holds a lock (from the capacity invariant of C08). -/
theorem quiescent_tokens_full {fl : Flags} {totals : List Nat} {s : St} (h : Reachable fl totals s)
    (hr : s.ready = []) (ht : s.threads = []) : (∀ t, s.avail t = s.total t) ∧ ∀ j, (s.jobs j).held = [] := by
  obtain ⟨N, hi⟩ := (reachable_cap h).inv
  exact ⟨fun t => (hi.idle_full hr ht t).1, (hi.idle_full hr ht 0).2⟩

/-- invariant B + H at quiescence: a job whose coroutine is alive sleeps on its event, WAITING, with an
    unsatisfied dependency recorded as WAIT. -/
theorem quiescent_alive_sleeps {fl : Flags} {s : St} (hG : InvG fl s) (hr : s.ready = []) (ht : s.threads = []) (j : Nat)
    (hk : pcKind (s.jobs j).pc ≠ 0) :
    (s.jobs j).pc = .evtWait ∧ (s.jobs j).state = .waiting ∧
    ∃ i, i < (s.jobs j).deps.length ∧ (depAt (s.jobs j) i).cur = .wait := by
  have hc := hG.e.c.a.ctl j
  simp only [CtlAt, hr, ht, cStart_nil, cWake_nil, cRes_nil, cThr_nil] at hc
  obtain ⟨h1, h2, h3, _⟩ := hc
  have hk2 : pcKind (s.jobs j).pc = 2 := by
    by_cases e1 : pcKind (s.jobs j).pc = 1
    · simp [e1] at h1
    · by_cases e3 : pcKind (s.jobs j).pc = 3
      · simp [e3] at h3
      · by_cases e2 : pcKind (s.jobs j).pc = 2
        · exact e2
        · exfalso
          revert hk e1 e2 e3
          cases (s.jobs j).pc <;> simp [pcKind]
  have hpc := pcKind_two hk2
  have hsl : (s.jobs j).sleeping = true := by
    simp only [hk2, slN] at h2
    cases hs : (s.jobs j).sleeping
    · simp [hs] at h2
    · rfl
  have hq := (hG.e.q j).1
  have hev := hq.se hsl
  have hw := hq.evtClear hpc hev
  have hJ := hG.e.c.d.recs j
  have hcnt := hJ.counter (by rw [hw]; intro e; cases e)
  have hne := hq.waitUnsat hw
  have hpos : 0 < cntBad (s.jobs j).deps := by
    have := cntBad_nonneg (s.jobs j).deps
    omega
  obtain ⟨i, hi, hc⟩ := cntBad_pos _ hpos
  refine ⟨hpc, hw, i, hi, ?_⟩
  have hnf := hq.waitNoFail hw i hi
  cases hcur : (depAt (s.jobs j) i).cur
  · rfl
  · exact absurd hcur hc
  · exact absurd hcur hnf

/-- deadlock freedom: in a reachable state with nothing queued and no helper thread pending, every scheduled job
    has returned — provided no job asks for more of a token than exists. -/
theorem quiescent_final {fl : Flags} (hg : fl.readyGuarded = true) (hf : fl.resubmitRegisters = true)
    (ha : fl.abortRechecks = true) {totals : List Nat} {s : St} (h : Reachable fl totals s)
    (hr : s.ready = []) (ht : s.threads = []) (hfit : TokFit s) : AllFinal s := by
  have hG := reachable_invG hg ha h
  have hH := reachable_invH hg hf h
  have hfull := (quiescent_tokens_full h hr ht).1
  have hnopend : ∀ j i, ¬ Pend s j i := by
    intro j i hp; unfold Pend at hp; rw [hr] at hp; simp at hp
  -- strong induction on the job index
  have key : ∀ j, pcKind (s.jobs j).pc = 0 := by
    intro j
    induction j using Nat.strongRecOn with
    | _ j ih =>
      apply Classical.byContradiction
      intro hk
      obtain ⟨hpc, hw, i, hi, hcur⟩ := quiescent_alive_sleeps hG hr ht j hk
      have hst : Started s j := by unfold Started; rw [hw]; intro e; cases e
      have hsc : InScope s (fun _ _ => True) j i := ⟨hst, hi, trivial⟩
      cases ho : (depAt (s.jobs j) i).origin with
      | tok t c =>
        rcases hG.nolost.tokWait j i t c hsc (by simp) ho hcur with hlt | hp
        · have := hfit j i t c hi ho
          rw [hfull t] at hlt
          omega
        · exact hnopend j i hp
      | job o =>
        have holt := hG.e.c.st.acyclic j i o hi ho
        have hko := ih o holt
        rcases pcKind_zero.1 hko with hn | ⟨r, hfin⟩
        · exact hH.oe.origSch j i o hi ho hn
        · exact hnopend j i (hG.nolost.jobWait j i o r hsc (by simp) ho hcur hfin)
  intro j _
  exact pcKind_zero.1 (key j)



/-! ### `TokFit` from the events -/

/-- a submission asks for at most the total of each token. -/
def EvFit (s : St) : Ev → Prop
  | .submit _ deps _ _ => ∀ o ∈ deps, match o with
      | .tok t c => c ≤ s.total t
      | _ => True
  | _ => True

theorem tokFit_frame {s s' : St} {x : Nat} (hF : Frame s s' x) (h : TokFit s) : TokFit s' := by
  obtain ⟨_, _, _, ft, fj, fc⟩ := hF
  have hc := sameConst_origin fc
  intro j i t c hi ho
  rw [ft]
  by_cases hj : j = x
  · subst hj; rw [hc.1] at hi; rw [hc.2] at ho; exact h j i t c hi ho
  · rw [fj j hj] at hi ho; exact h j i t c hi ho

theorem tokFit_step (fl : Flags) (s : St) (h : TokFit s) : TokFit (s.step fl) := by
  unfold St.step
  split
  · exact h
  · rename_i cb rest hr
    exact tokFit_frame (runCb_frame fl ({ s with ready := rest } : St) cb) h

theorem tokFit_apply (fl : Flags) (s : St) (ev : Ev) (hfit : EvFit s ev) (h : TokFit s) : TokFit (s.apply fl ev) := by
  cases ev with
  | step => exact tokFit_step fl s h
  | wait => exact h
  | deliver k => simp only [St.apply]; split <;> exact h
  | submit ident deps code marker =>
    rw [apply_submit]
    have h1 : TokFit (submitPre s ident deps code marker) := by
      intro j i t c hi ho
      by_cases hj : j = s.n
      · subst hj
        have hlen : ((submitPre s ident deps code marker).jobs s.n).deps.length = deps.length := by
          simp [submitPre, newJob]
        rw [hlen] at hi
        have hnew : (depAt ((submitPre s ident deps code marker).jobs s.n) i).origin =
            (match deps[i]'hi with | .job d => .job (s.eff d) | o => o) := by
          simp only [submitPre, newJob, upd_same, depAt, List.getD_eq_getElem?_getD]
          rw [List.getElem?_eq_getElem (by simpa using hi)]
          simp only [List.getElem_map, Option.getD_some]
          split <;> simp_all
        rw [hnew] at ho
        have hm := hfit _ (List.getElem_mem hi)
        split at ho
        · cases ho
        · rw [ho] at hm; exact hm
      · rw [submitPre_jobs_ne _ _ _ _ _ _ hj] at hi ho
        exact h j i t c hi ho
    have h2 := steps_ind TokFit fl (fun s' hs' => tokFit_step fl s' hs') (s.ready.length + 1) _ h1
    generalize St.steps fl (submitPre s ident deps code marker) (s.ready.length + 1) = s2 at h2
    unfold submitPost
    split
    · exact h2
    · intro j i t c hi ho
      by_cases hj : j = s.n
      · subst hj
        simp only [put_jobs, upd_same, put_total] at hi ho ⊢
        exact h2 _ i t c hi ho
      · simp only [put_jobs, upd_ne _ _ hj, put_total] at hi ho ⊢
        exact h2 j i t c hi ho

def evFitb (s : St) : Ev → Bool
  | .submit _ deps _ _ => deps.all (fun o => match o with
      | .tok t c => decide (c ≤ s.total t)
      | _ => true)
  | _ => true

theorem evFitb_sound (s : St) (ev : Ev) (h : evFitb s ev = true) : EvFit s ev := by
  cases ev with
  | submit ident deps code marker =>
    simp only [evFitb, List.all_eq_true] at h
    intro o ho
    have := h o ho
    cases o <;> simp_all
  | _ => trivial

/-- run a list of events, checking `EvFit` on the way. -/
def runFit (fl : Flags) : St → List Ev → Bool
  | _, [] => true
  | s, ev :: evs => evFitb s ev && runFit fl (s.apply fl ev) evs

theorem tokFit_foldl (fl : Flags) (evs : List Ev) :
    ∀ s, TokFit s → runFit fl s evs = true → TokFit (evs.foldl (St.apply fl) s) := by
  induction evs with
  | nil => intro s h _; exact h
  | cons ev evs ih =>
    intro s h hok
    simp only [runFit, Bool.and_eq_true] at hok
    exact ih _ (tokFit_apply fl s ev (evFitb_sound s ev hok.1) h) hok.2

theorem tokFit_runEvs (fl : Flags) (totals : List Nat) (evs : List Ev)
    (h : runFit fl (St.init totals) evs = true) : TokFit (runEvs fl totals evs) :=
  tokFit_foldl fl evs _ (fun j i t c hi _ => by simp [St.init] at hi) h


end XpmVerif.SchedFinal
