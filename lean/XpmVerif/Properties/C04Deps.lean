import XpmVerif.Proofs.Deps
/-! C04, second sentence — "Dependencies are those implied by task-typed values reachable from its
    parameters at any depth (directly, inside lists and dicts, inside nested configurations, through task
    outputs, through pre-tasks and init tasks) and those added explicitly."
    `collectDeps` (Model/Deps.lean) mirrors `updatedependencies`; `Emb g n t` says that walking from `n`
    reaches a configuration carrying task `t` without crossing a task boundary. -/
namespace XpmVerif.C04Deps
open XpmVerif.Ident

/-- **completeness**: every embedded task is a dependency of the submitted task, for every acyclic
    parameter graph of any size and depth (`rank` witnesses acyclicity; the real code does not
    terminate on cyclic parameters). -/
theorem collectDeps_complete (g : Graph) (ld : Nat → Bool) (rank : Nat → Nat) (hr : ∀ n m, Child g ld n m → rank m < rank n)
    (hb : ∀ n, rank n ≤ g.size) (root t : Nat) (he : Emb g ld root t) (hne : t ≠ root) :
    t ∈ collectDeps g ld root := by
  unfold collectDeps
  simp only [List.mem_filter, decide_eq_true_eq]
  exact ⟨depsNode_complete g ld rank hr _ root t he (by have := hb root; omega) _, hne⟩

/-- **soundness**: only embedded tasks are collected. -/
theorem collectDeps_sound (g : Graph) (ld : Nat → Bool) (root t : Nat) (h : t ∈ collectDeps g ld root) : Emb g ld root t := by
  unfold collectDeps at h
  simp only [List.mem_filter, decide_eq_true_eq] at h
  rcases depsNode_sound g ld _ root [root] t h.1 with h1 | h1
  · simp at h1; exact absurd h1 h.2
  · exact h1

/-- non-vacuity: task 0 embeds, inside a list inside a nested configuration 1, the output 2 of task 3. -/
def gEx : Graph := { nodes := [
  { typeId := [1], args := [{ name := [97], value := .ref 1 }] },
  { typeId := [2], args := [{ name := [98], value := .list [.int 4, .ref 2] }] },
  { typeId := [3], args := [], task := some 3 },
  { typeId := [4], args := [], task := some 3 }] }
example : collectDeps gEx (fun _ => false) 0 = [3] := by decide
example : Emb gEx (fun _ => false) 0 3 :=
  .step (n := 0) (m := 1) (.arg (by decide) (by decide))
    (.step (n := 1) (m := 2) (.arg (by decide) (by decide)) (.here (n := 2) (by decide)))

/-- a *loaded* configuration (node 2, deserialised: keeps `task = 3`) is walked instead: no dependency on task 3, but on the
    task 5 embedded in its arguments. -/
def gLd : Graph := { nodes := [
  { typeId := [1], args := [{ name := [97], value := .ref 2 }] },
  { typeId := [2], args := [] },
  { typeId := [3], args := [{ name := [99], value := .ref 4 }], task := some 3 },
  { typeId := [4], args := [] },
  { typeId := [5], args := [], task := some 5 },
  { typeId := [6], args := [], task := some 5 }] }
example : collectDeps gLd (fun _ => false) 0 = [3] := by decide
example : collectDeps gLd (fun n => n == 2) 0 = [5] := by decide

end XpmVerif.C04Deps
