#!/usr/bin/env python3
"""Assemble MANIFEST.json from manifest.d/*.json fragments (one per claimed property)."""
import json
from pathlib import Path

V = Path(__file__).resolve().parents[1]
props = [json.loads(l)["id"] for l in (V / "properties.jsonl").read_text().splitlines() if l.strip()]
checks = []
for pid in props:
    f = V / "manifest.d" / f"{pid}.json"
    if not f.exists():
        continue
    frag = json.loads(f.read_text())
    c = {
        "property_id": pid,
        "quick_cmd": f"./check {pid} --tier quick",
        "thorough_cmd": f"./check {pid} --tier thorough",
        "evidence_file": f"evidence/{pid}.json",
        "replay_cmd_template": f"./check {pid} --replay {{path}}",
        "engine": frag.get("engine", "lean+correspondence"),
        "level_claimed": {"category": frag.get("category", "proof"), "text": frag["text"], "design_ref": frag.get("design_ref", "DESIGN.md §5")},
        "level_note": frag["note"],
        "technique": frag.get("technique", "Lean 4 theorems about a model + differential correspondence check against the real code"),
    }
    checks.append(c)
na_file = V / "manifest.d" / "not_applicable.json"
reasons = json.loads(na_file.read_text()) if na_file.exists() else {}
claimed = {c["property_id"] for c in checks}
na = [{"property_id": p, "reason": reasons.get(p, "not claimed yet: model and check still to be built (see DESIGN.md §5); machine-checked proof applies in principle")}
      for p in props if p not in claimed]
baseline = json.loads(Path("/root/.vp/BASELINE.json").read_text())["cmd"] if Path("/root/.vp/BASELINE.json").exists() else \
    "cd /repo && /venv/bin/python -m pytest -ra -q -p no:cacheprovider --timeout=900 --continue-on-collection-errors --junitxml=<file>"
m = {
    "version": 1,
    "setup_cmd": "cd lean && lake build",
    "hooks": {
        "guard": "XPM_VERIF_HOOKS",
        "enable": "no source hooks in /repo: every tap (asyncThreadcheck replacement, Job subclass, hash-stream tap, settrace crash wrapper, fs-watch stub) is installed by the harness from outside at run time",
        "baseline_off_cmd": baseline,
        "source_commits": [],
        "add_only": True,
    },
    "engines": [
        {"name": "lean+correspondence", "path": "lean/ + harness/xv", "serves_properties": sorted(claimed),
         "kind_free_text": "Lean 4 models and theorems (lake build + #print axioms audit), generated Lean from Python AST where noted, and a Python harness driving the real code and the Lean model on the same inputs"},
    ],
    "checks": checks,
    "not_applicable": na,
    "notes": "See DESIGN.md. Exit codes: 0 held, 1 VIOLATION line, 2 harness error/timeout (not a verdict).",
}
(V / "MANIFEST.json").write_text(json.dumps(m, indent=1) + "\n")
kf = []
for f in sorted((V / "known_findings.d").glob("*.json")):
    kf += json.loads(f.read_text())
(V / "known_findings.json").write_text(json.dumps(kf, indent=1) + "\n")
print(f"{len(checks)} checks, {len(na)} not claimed")
