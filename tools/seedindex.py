#!/usr/bin/env python3
"""writes seeded/INDEX.md: one row per seeded change, from the meta.json files (property, change, what it needs, how it is detected)"""
import json, glob, os
here = os.path.dirname(os.path.dirname(os.path.abspath(__file__)))
rows = []
for d in sorted(glob.glob(os.path.join(here, "seeded", "*", ""))):
    p = os.path.join(d, "meta.json")
    name = os.path.basename(os.path.dirname(d))
    if not os.path.exists(p):
        rows.append((name, "?", "(no meta.json yet)", "", "", ""))
        continue
    m = json.load(open(p))
    esc = lambda s: str(s).replace("|", "\\|").replace("\n", " ")
    first = "missed" if "missed" in (m.get("detected_by", "") + m.get("ran", "")).lower() else (
        "correspondence only" if "no-failing-input-found" in (m.get("detected_by", "") + m.get("ran", "")) else "caught")
    if m.get("valid_on_current_tree") is False:
        first += " (no longer a regression on the repaired tree)"
    rows.append((name, m.get("property", "?"), esc(m.get("change", "")), esc(m.get("needs_to_manifest", "")), first, esc(m.get("detected_by", ""))))
out = ["# Seeded changes (written by independent sub-agents; see DESIGN.md §12)", "",
       f"{len(rows)} changes. `first run` = what the property's own check said before any strengthening; every change is now reported",
       "with a concrete replay (`tools/seedall` re-runs them all) unless marked otherwise.", "",
       "| id | property | change | needs | first run | detected by (now) |", "|---|---|---|---|---|---|"]
out += ["| " + " | ".join(r) + " |" for r in rows]
open(os.path.join(here, "seeded", "INDEX.md"), "w").write("\n".join(out) + "\n")
from collections import Counter
print(len(rows), Counter(r[4].split(" (")[0] for r in rows))
