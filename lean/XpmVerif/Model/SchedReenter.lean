import XpmVerif.Model.Sched
/-! Entering the same `experiment` object again (`scheduler/base.py`, `experiment.__enter__` / `__exit__` / `wait`).

    The per-*object* state survives from one `with xp:` block to the next: the `Scheduler` made by `__init__`
    (`scheduler.jobs`: the registry and the job records — a configuration whose job is registered in state ERROR is
    submitted again, one that is DONE stands for the new submission), the tokens.  The per-*use* state is what `__enter__`
    sets anew: `unfinishedJobs = 0`, `failedJobs = {}`, `exitMode = False`, a new loop (`central`), a new outputs worker.
    Which of the three scheduling fields `__enter__` resets is read off the source (`Generated/XpEnterResets.lean`).

    `St` of `Model/Sched.lean` has `unfinished`, `failed`, `waiter`; `exitMode` (set by `xp.stop()` / a signal: `wait`
    stops waiting at once) is carried next to it (`XSt`). -/
namespace XpmVerif.SchedReenter
open XpmVerif.Sched

/-- which per-use fields `experiment.__enter__` sets anew. -/
structure Resets where
  failed : Bool       -- `self.failedJobs = {}`
  unfinished : Bool   -- `self.unfinishedJobs = 0`
  exitMode : Bool     -- `self.exitMode = False`
  deriving DecidableEq, Repr

def Resets.all : Resets := { failed := true, unfinished := true, exitMode := true }
/-- the initialisations moved to `__init__`: nothing is reset when the object is entered again. -/
def Resets.none : Resets := { failed := false, unfinished := false, exitMode := false }

/-- an experiment object: the scheduler state and `exitMode`. -/
structure XSt where
  s : St
  exitMode : Bool := false

/-- `__enter__` on an object that has been left: a new loop with no waiter and no pending registration; the registry, the
    job records and the tokens are those of the object; the three fields are reset or not. -/
def XSt.enter (r : Resets) (x : XSt) : XSt :=
  { s := { x.s with failed := if r.failed then [] else x.s.failed,
                    unfinished := if r.unfinished then 0 else x.s.unfinished,
                    waiter := .none, regResult := none },
    exitMode := if r.exitMode then false else x.exitMode }

/-- entering again with every field reset (the scheduler part). -/
def reenter (s : St) : St := (XSt.enter Resets.all { s := s }).s
/-- entering again when `failedJobs` is only initialised in `__init__`. -/
def reenterKeepsFailed (s : St) : St := (XSt.enter { Resets.all with failed := false } { s := s }).s

/-- `xp.stop()` / SIGINT: `exitMode = True` and the waiter is woken up. -/
def XSt.stop (x : XSt) : XSt := { x with exitMode := true }

/-- the callback of the waiter of `experiment.wait()`: in exit mode it stops waiting whatever `unfinishedJobs` says. -/
def XSt.waiterRun (x : XSt) : XSt :=
  if x.exitMode then { x with s := { x.s with waiter := if x.s.failed.isEmpty then .returned else .raised } }
  else { x with s := x.s.waiterRun }

end XpmVerif.SchedReenter
