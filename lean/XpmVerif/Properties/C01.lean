import XpmVerif.Proofs.IdentPerm
import XpmVerif.Model.IdentImpl
import XpmVerif.Generated.HashFlags
/-! C01 — a configuration's identifier is a pure function of its content.
    `rawAt`/`rawId`/`fullId` (Model/Ident.lean) are the cache-free specification;
    `reqRaw`/`reqFull` (Model/IdentImpl.lean) the implementation with caches. -/
namespace XpmVerif.C01
open XpmVerif.Ident List

/-- **keyword / declaration order.** The stream hashed for a node does not depend on the order in
    which its arguments are stored or declared (argument names are distinct). -/
theorem node_stream_argument_order (cfg : Nat → List Nat) (mt : Nat → Option Bool) (self : Nat) (nd nd' : Node)
    (ht : nd.typeId = nd'.typeId) (hk : nd.task = nd'.task) (hp : nd.args ~ nd'.args)
    (hn : ∀ a b, a ∈ nd.args → b ∈ nd.args → a.name = b.name → a = b) :
    nodeStream cfg mt self nd = nodeStream cfg mt self nd' :=
  nodeStream_args_perm cfg mt self nd nd' ht hk hp hn

/-- **dict insertion order.** Two dict values with the same items in another insertion order
    (keys distinct) are encoded identically. -/
theorem dict_insertion_order (cfg : Nat → List Nat) (mt : Nat → Option Bool)
    (ks ks' : List (List Nat)) (vs vs' : List Val)
    (hp : (ks.zip vs) ~ (ks'.zip vs'))
    (hk : ∀ a b, a ∈ ks.zip vs → b ∈ ks.zip vs → a.1 = b.1 → a = b) :
    encVal cfg mt (.dict ks vs) = encVal cfg mt (.dict ks' vs') :=
  encVal_dict_perm cfg mt ks ks' vs vs' hp hk

/-- **any depth.** If every node of two graphs has the same stream (e.g. because they differ only by
    the two reorderings above), all raw identifiers agree, for every hash function, under any stack. -/
theorem raw_identifier_congruence {D : Type} (hc : HC D) (g g' : Graph)
    (h : ∀ n cfg, nodeStream cfg g.mt n (g.node n) = nodeStream cfg g'.mt n (g'.node n)) (n : Nat)
    (hs : g.size = g'.size) :
    rawId hc g n = rawId hc g' n := by
  unfold rawId; rw [hs]; exact rawAt_congr hc g g' h _ _ _

/-- non-vacuity: a node with its two arguments swapped. -/
example : nodeStream (fun _ => []) (fun _ => none) 0
      { typeId := [97], args := [{ name := [120], value := .int 1 }, { name := [98], value := .str [65] }] }
    = nodeStream (fun _ => []) (fun _ => none) 0
      { typeId := [97], args := [{ name := [98], value := .str [65] }, { name := [120], value := .int 1 }] } := by decide

/-- obligation on the *current source*: `HashComputer.compute` stores the loop flag in the attribute
    that the cache lookup reads (false on the pinned tree: `has_loop` vs `has_loops`, finding F1). -/
theorem loop_flag_is_stored : Gen.loopFlagStored = true := by decide

/-- obligation on the current source: the tag bytes are the ones of the model. -/
theorem tags_match_model :
    [Gen.object_id, Gen.int_id, Gen.float_id, Gen.str_id, Gen.path_id, Gen.name_id, Gen.none_id, Gen.list_id,
     Gen.task_id, Gen.dict_id, Gen.enum_id, Gen.cycle_reference, Gen.init_tasks]
      = [0, 1, 2, 3, 4, 5, 6, 7, 8, 9, 10, 11, 12] := by decide

/-! Request-order independence.  Negative witness (the defect F1): if the loop flag is *not* stored,
    a sealed cycle 0 → 1 → 2 → 0 gives node 1 different identifiers depending on whether node 0's
    identifier was requested first.  With the flag stored the same history agrees with the
    specification.  (A toy hash keeps the witness kernel-checkable; it is replayed on the real code.) -/
def toyHC : HC Nat :=
  { H := fun l => l.foldl (fun a b => (a * 31 + b + 1) % 1000003) 7, emb := fun d => [256 + d], le := fun a b => a ≤ b }
def cyc : Graph :=
  { nodes := [0, 1, 2].map fun i => { typeId := [99], args := [{ name := [120], value := .ref ((i + 1) % 3) }], sealed := true } }
def idAfter (flag : Bool) (order : List Nat) (n : Nat) : Nat :=
  (reqRaw toyHC flag (order.foldl (fun s k => (reqRaw toyHC flag s k).1) { g := cyc, c := Caches.empty }) n).2

theorem request_order_matters_without_flag : idAfter false [0] 1 ≠ idAfter false [] 1 := by decide
theorem request_order_irrelevant_with_flag_witness :
    idAfter true [0] 1 = rawId toyHC cyc 1 ∧ idAfter true [2, 0] 1 = rawId toyHC cyc 1 ∧ idAfter true [] 1 = rawId toyHC cyc 1 := by decide

end XpmVerif.C01
