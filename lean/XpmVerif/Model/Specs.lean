import XpmVerif.Generated.Specs
/-! M8: launcher requests (`launcherfinder/specs.py`, `parser.py`, `registry.py`).
    Hand-written part.  `cudaMatch`, `cpuLt`, `reqMatch`, `andCopy`, `mulCopy`
    come from `Generated/Specs.lean` (translated from the Python source on every run). -/
namespace XpmVerif.Specs

/-! ### value-level algebra (what `&`, `*` compute) -/

/-- stable insertion by `memory` (Python's `list.sort()` is stable and uses `__lt__`). -/
def insertGpu (g : Cuda) : List Cuda → List Cuda
  | [] => [g]
  | x :: xs => if g.memory < x.memory then g :: x :: xs else x :: insertGpu g xs

/-- stable sort by memory: equal keys keep their order (insert each element after its equals). -/
def sortGpus (l : List Cuda) : List Cuda := l.foldl (fun acc g => insertGpu g acc) []

/-- `_add`: values after `self._add(req)`. -/
def Req.add (self req : Req) : Req :=
  { gpus := sortGpus (self.gpus ++ req.gpus)
    cpu := { memory := max req.cpu.memory self.cpu.memory, cores := max req.cpu.cores self.cpu.cores }
    duration := max req.duration self.duration }

/-- value of `self * count` (`count = 1` returns `self`; `count ≤ 0` behaves like 1). -/
def Req.mul (self : Req) (count : Nat) : Req :=
  if count = 1 then self else
  { self with gpus := sortGpus (self.gpus ++ (List.replicate (count - 1) self.gpus).flatten) }

def cpuReq (mem cores : Nat) : Req := { cpu := { memory := mem, cores := cores } }
def cudaReq (mem : Nat) : Req := { gpus := [{ memory := mem }] }
def durReq (s : Nat) : Req := { duration := s }

/-! ### heap-level model of `__and__` / `__mul__` (the defect class here is aliasing) -/

/-- a `HostSimpleRequirement` object: references to its `cpu` record and its `cuda_gpus` list. -/
structure ReqObj where
  cpuRef : Nat
  gpusRef : Nat
  duration : Nat
  deriving Repr, DecidableEq, Inhabited

def upd {α : Type} (f : Nat → α) (j : Nat) (v : α) (i : Nat) : α := if i = j then v else f i

structure Heap where
  cpus : Nat → Cpu
  gpus : Nat → List Cuda
  reqs : Nat → ReqObj
  next : Nat

/-- the value an object denotes. -/
def Heap.val (h : Heap) (r : Nat) : Req :=
  let o := h.reqs r
  { gpus := h.gpus o.gpusRef, cpu := h.cpus o.cpuRef, duration := o.duration }

/-- `copy(self)` / `deepcopy(self)`: returns the new heap and the new object's address. -/
def Heap.copyObj (k : CopyKind) (h : Heap) (r : Nat) : Heap × Nat :=
  let o := h.reqs r
  match k with
  | .shallow => ({ h with reqs := upd h.reqs h.next o, next := h.next + 1 }, h.next)
  | .deep =>
    ({ cpus := upd h.cpus (h.next + 1) (h.cpus o.cpuRef)
       gpus := upd h.gpus (h.next + 2) (h.gpus o.gpusRef)
       reqs := upd h.reqs h.next { cpuRef := h.next + 1, gpusRef := h.next + 2, duration := o.duration }
       next := h.next + 3 }, h.next)

/-- `tgt._add(src)`: mutates the records `tgt` points to. -/
def Heap.addInto (h : Heap) (tgt src : Nat) : Heap :=
  let t := h.reqs tgt
  let s := h.reqs src
  let sc := h.cpus s.cpuRef
  let tc := h.cpus t.cpuRef
  { h with
    cpus := upd h.cpus t.cpuRef { memory := max sc.memory tc.memory, cores := max sc.cores tc.cores }
    reqs := upd h.reqs tgt { t with duration := max s.duration t.duration }
    gpus := upd h.gpus t.gpusRef (sortGpus (h.gpus t.gpusRef ++ h.gpus s.gpusRef)) }

/-- `a & b` with the copy function `k`. -/
def Heap.andOp (k : CopyKind) (h : Heap) (a b : Nat) : Heap × Nat :=
  let (h1, n) := h.copyObj k a
  (h1.addInto n b, n)

/-- the `for _ in range(count-1): _self.cuda_gpus.extend(self.cuda_gpus)` loop (reads `self` live). -/
def Heap.extendLoop (h : Heap) (n self : Nat) : Nat → Heap
  | 0 => h
  | c + 1 =>
    let o := h.reqs n
    Heap.extendLoop { h with gpus := upd h.gpus o.gpusRef (h.gpus o.gpusRef ++ h.gpus (h.reqs self).gpusRef) } n self c

/-- `a * count` with the copy function `k`. -/
def Heap.mulOp (k : CopyKind) (h : Heap) (a count : Nat) : Heap × Nat :=
  if count = 1 then (h, a) else
  let (h1, n) := h.copyObj k a
  let h2 := h1.extendLoop n a (count - 1)
  let o := h2.reqs n
  ({ h2 with gpus := upd h2.gpus o.gpusRef (sortGpus (h2.gpus o.gpusRef)) }, n)

/-- all references below `next` (fresh addresses are really fresh). -/
def Heap.WF (h : Heap) : Prop :=
  ∀ r, r < h.next → (h.reqs r).cpuRef < h.next ∧ (h.reqs r).gpusRef < h.next

/-! ### alternatives (`RequirementUnion.match`, `LauncherRegistry.find`) -/

/-- the loop of `RequirementUnion.match`: `acc` is `argmax` as (score, index). -/
def unionLoop (host : Host) : List Req → Nat → Option (Int × Nat) → Option (Int × Nat)
  | [], _, acc => acc
  | r :: rs, i, acc =>
    let acc' :=
      match reqMatch r host with
      | some s =>
        (match acc with
         | none => some (s, i)                       -- max_score = -inf
         | some (ms, _) => if s > ms then some (s, i) else acc)
      | none => acc
    unionLoop host rs (i + 1) acc'

def unionMatch (reqs : List Req) (host : Host) : Option (Int × Nat) := unionLoop host reqs 0 none

/-- index of the first alternative that matches (what "tried in the order given" means). -/
def firstMatch (host : Host) : List Req → Nat → Option Nat
  | [], _ => none
  | r :: rs, i => if (reqMatch r host).isSome then some i else firstMatch host rs (i + 1)

/-! ### textual requests (`parser.py`): abstract syntax and its meaning (the visitor) -/

inductive MemSuffix where | none | M | G
  deriving Repr, DecidableEq

inductive DurUnit where | h | hours | d | days
  deriving Repr, DecidableEq

inductive SpecItem where
  | mem (n : Nat) (sfx : MemSuffix)
  | cores (n : Nat)
  deriving Repr, DecidableEq

inductive Term where
  | duration (n : Nat) (u : DurUnit)
  | cuda (items : List SpecItem) (mult : Option Nat)   -- items: only `mem`
  | cpu (items : List SpecItem)
  deriving Repr, DecidableEq

/-- `humanfriendly.parse_size` on `\d+(G|M)?` (decimal units). -/
def memBytes (n : Nat) : MemSuffix → Nat
  | .none => n | .M => n * 1000000 | .G => n * 1000000000

def durSeconds (n : Nat) : DurUnit → Nat
  | .h => n * 3600 | .hours => n * 3600 | .d => n * 86400 | .days => n * 86400

/-- `visit_specs`: dict update, last occurrence wins. -/
def lastMem : List SpecItem → Option Nat
  | [] => none
  | .mem n s :: rest => (match lastMem rest with | some m => some m | none => some (memBytes n s))
  | _ :: rest => lastMem rest

def lastCores : List SpecItem → Option Nat
  | [] => none
  | .cores n :: rest => (match lastCores rest with | some m => some m | none => some n)
  | _ :: rest => lastCores rest

/-- meaning of a term; `none` = the real parser/visitor raises (empty `cuda()` / `cpu()`). -/
def Term.eval : Term → Option Req
  | .duration n u => some (durReq (durSeconds n u))
  | .cuda items mult =>
    if items.isEmpty then none else
    let r := cudaReq ((lastMem items).getD 0)   -- `parse_size(mem) if mem else 0`
    some (match mult with | some k => r.mul k | none => r)
  | .cpu items =>
    if items.isEmpty then none else
    some (cpuReq ((lastMem items).getD 0) ((lastCores items).getD 1))

/-- `visit_one_spec`: `reduce(lambda x, el: x & el, children)`. -/
def evalConj : List Term → Option Req
  | [] => none
  | t :: ts => ts.foldl (fun acc t => match acc, t.eval with
      | some a, some b => some (a.add b) | _, _ => none) t.eval

def evalAlt (alts : List (List Term)) : Option (List Req) :=
  alts.foldr (fun c acc => match evalConj c, acc with
    | some r, some rs => some (r :: rs) | _, _ => none) (some [])

end XpmVerif.Specs
