import XpmVerif.Proofs.RestartSimF
/-! C11, adoption, FULL statement: where the queued dependency checks come from (any state, no invariant of M2 used).
    `RI2 Pc Pn Pt Pj`: the queued `check`s satisfy `Pc`, the queued `notifyCheck`s `Pn`, the entries of the dependents list of
    token `t` satisfy `Pt t`, those of job `o` satisfy `Pj o`.  A release copies entries of a token list into `notifyCheck`s,
    the done-handler of `x` copies the entries of the list of `x` into `check`s, a first segment adds `(x, d)` to the list
    of the origin of its `d`-th dependency (`runCb_ri2`). -/
set_option linter.unusedSimpArgs false
set_option linter.unusedVariables false
namespace XpmVerif.RestartFull
open XpmVerif.Sched hiding Reachable flOK submitPre submitPost sumTo
open XpmVerif.SchedFinal XpmVerif.Restart XpmVerif.RestartTerm XpmVerif.RestartAbs

structure RI2 (Pc Pn : Nat → Nat → Prop) (Pt Pj : Nat → Nat → Nat → Prop) (s : St) : Prop where
  cb : ∀ j d, Cb.check j d ∈ s.ready → Pc j d
  nf : ∀ j d, Cb.notifyCheck j d ∈ s.ready → Pn j d
  tok : ∀ t p, p ∈ s.tokDeps t → Pt t p.1 p.2
  job : ∀ o p, p ∈ s.jobDeps o → Pj o p.1 p.2

section ri2
variable {Pc Pn : Nat → Nat → Prop} {Pt Pj : Nat → Nat → Nat → Prop}

theorem RI2.same {s s' : St} (h : RI2 Pc Pn Pt Pj s) (hr : s'.ready = s.ready) (ht : s'.tokDeps = s.tokDeps)
    (hj : s'.jobDeps = s.jobDeps) : RI2 Pc Pn Pt Pj s' :=
  ⟨fun j d hm => h.cb j d (by rw [hr] at hm; exact hm), fun j d hm => h.nf j d (by rw [hr] at hm; exact hm),
   fun t p hp => h.tok t p (by rw [ht] at hp; exact hp), fun o p hp => h.job o p (by rw [hj] at hp; exact hp)⟩

theorem RI2.grow {s s' : St} (h : RI2 Pc Pn Pt Pj s) (new : List Cb) (hr : s'.ready = s.ready ++ new)
    (hc : ∀ j d, Cb.check j d ∈ new → Pc j d) (hn : ∀ j d, Cb.notifyCheck j d ∈ new → Pn j d)
    (ht : s'.tokDeps = s.tokDeps) (hj : s'.jobDeps = s.jobDeps) : RI2 Pc Pn Pt Pj s' := by
  refine ⟨?_, ?_, fun t p hp => h.tok t p (by rw [ht] at hp; exact hp), fun o p hp => h.job o p (by rw [hj] at hp; exact hp)⟩
  · intro j d hm
    rw [hr] at hm
    rcases List.mem_append.mp hm with hm | hm
    · exact h.cb j d hm
    · exact hc j d hm
  · intro j d hm
    rw [hr] at hm
    rcases List.mem_append.mp hm with hm | hm
    · exact h.nf j d hm
    · exact hn j d hm

theorem RI2.put {s : St} (h : RI2 Pc Pn Pt Pj s) (x : Nat) (jb : Job) (cbs : List Cb) (ths : List (TK × Nat))
    (hc : ∀ cb ∈ cbs, notChk cb) : RI2 Pc Pn Pt Pj (s.put x jb cbs ths) :=
  h.grow cbs rfl (fun j d hm => absurd (hc _ hm) (by simp [notChk])) (fun j d hm => absurd (hc _ hm) (by simp [notChk])) rfl rfl

theorem RI2.check {s : St} (h : RI2 Pc Pn Pt Pj s) (fl : Flags) (x d : Nat) : RI2 Pc Pn Pt Pj (s.check fl x d) := by
  unfold St.check
  exact h.put x _ _ _ (RestartAbs.notChk_wake _ x)

theorem RI2.pop {s : St} (h : RI2 Pc Pn Pt Pj s) {cb : Cb} {rest : List Cb} (hr : s.ready = cb :: rest) :
    RI2 Pc Pn Pt Pj ({ s with ready := rest } : St) :=
  ⟨fun j d hm => h.cb j d (by rw [hr]; exact List.mem_cons_of_mem _ hm),
   fun j d hm => h.nf j d (by rw [hr]; exact List.mem_cons_of_mem _ hm), h.tok, h.job⟩

theorem RI2.finish {s : St} (h : RI2 Pc Pn Pt Pj s) (x : Nat) : RI2 Pc Pn Pt Pj (s.finish x) := by
  have hs := finish_shape s x
  exact h.same (by rw [hs.ready]; simp) hs.tokDeps hs.jobDeps

theorem RI2.loopHead {s : St} (h : RI2 Pc Pn Pt Pj s) (x : Nat) : RI2 Pc Pn Pt Pj (s.loopHead x) := by
  have hs := loopHead_shape s x
  exact h.same (by rw [hs.ready]; simp) hs.tokDeps hs.jobDeps

/-- a registration: the pair goes to the list of the origin of the dependency. -/
theorem RI2.regOne {s : St} (h : RI2 Pc Pn Pt Pj s) (x d : Nat)
    (hp : (∀ o, ((s.jobs x).deps.getD d default).origin = .job o → Pj o x d) ∧
          (∀ t c, ((s.jobs x).deps.getD d default).origin = .tok t c → Pt t x d)) :
    RI2 Pc Pn Pt Pj (SchedFinal.regOne s x d) := by
  unfold SchedFinal.regOne
  split
  · rename_i o ho
    refine ⟨h.cb, h.nf, h.tok, ?_⟩
    intro o' p hpm
    simp only [upd] at hpm
    split at hpm
    · simp only [List.mem_append, List.mem_singleton] at hpm
      rcases hpm with hpm | hpm
      · rename_i e; subst e; exact h.job _ p hpm
      · rename_i e; subst e; subst hpm; exact hp.1 _ ho
    · exact h.job o' p hpm
  · rename_i t c ho
    refine ⟨h.cb, h.nf, ?_, h.job⟩
    intro t' p hpm
    simp only [upd] at hpm
    split at hpm
    · simp only [List.mem_append, List.mem_singleton] at hpm
      rcases hpm with hpm | hpm
      · rename_i e; subst e; exact h.tok _ p hpm
      · rename_i e; subst e; subst hpm; exact hp.2 _ c ho
    · exact h.tok t' p hpm

theorem origin_check (fl : Flags) (s : St) (x d e : Nat) :
    (((s.check fl x d).jobs x).deps.getD e default).origin = ((s.jobs x).deps.getD e default).origin := by
  have := (sameConst_origin (check_frame fl s x d).2.2.2.2.2).2 e
  unfold depAt at this; exact this

theorem RI2.registerDeps (fl : Flags) (x : Nat) : ∀ (k d : Nat) (s : St), RI2 Pc Pn Pt Pj s →
    (∀ d', (∀ o, ((s.jobs x).deps.getD d' default).origin = .job o → Pj o x d') ∧
           (∀ t c, ((s.jobs x).deps.getD d' default).origin = .tok t c → Pt t x d')) →
    RI2 Pc Pn Pt Pj (St.registerDeps fl s x k d) := by
  intro k
  induction k with
  | zero => intro d s h _; exact h
  | succ k ih =>
    intro d s h hp
    rw [registerDeps_succ]
    refine ih (d + 1) _ ((h.regOne x d (hp d)).check fl x d) ?_
    intro d'
    rw [origin_check, (regOne_frame s x d).1]
    exact hp d'

theorem RI2.startPrefix {s : St} (h : RI2 Pc Pn Pt Pj s) (fl : Flags) (x : Nat)
    (hp : ∀ d', (∀ o, ((s.jobs x).deps.getD d' default).origin = .job o → Pj o x d') ∧
               (∀ t c, ((s.jobs x).deps.getD d' default).origin = .tok t c → Pt t x d')) :
    RI2 Pc Pn Pt Pj (startPrefix fl s x) := by
  rw [startPrefix_eq]
  have hb : RI2 Pc Pn Pt Pj (prefBody fl s x) := by
    unfold prefBody
    simp only []
    split
    · exact (h.put x _ [] [] (by simp)).put x _ [] [] (by simp)
    · exact RI2.registerDeps fl x _ 0 _ ((h.put x _ [] [] (by simp)).put x _ [] [] (by simp))
        (fun d' => by simpa using hp d')
  unfold markStep
  split
  · exact hb.put x _ [] [] (by simp)
  · exact hb

theorem RI2.startJob {s : St} (h : RI2 Pc Pn Pt Pj s) (fl : Flags) (x : Nat)
    (hp : ∀ d', (∀ o, ((s.jobs x).deps.getD d' default).origin = .job o → Pj o x d') ∧
               (∀ t c, ((s.jobs x).deps.getD d' default).origin = .tok t c → Pt t x d')) :
    RI2 Pc Pn Pt Pj (s.startJob fl x) := by
  rw [Restart.startJob_eq]
  exact (h.startPrefix fl x hp).loopHead x

/-- a release: the dependents of the token are notified. -/
theorem RI2.relOne {s : St} (h : RI2 Pc Pn Pt Pj s) (hpn : ∀ t j d, Pt t j d → Pn j d) (x d : Nat) :
    RI2 Pc Pn Pt Pj (SchedFinal.relOne s x d) := by
  unfold SchedFinal.relOne
  split
  · exact h
  · rename_i t c _
    refine h.grow _ rfl ?_ ?_ rfl rfl
    · intro j d' hm
      simp only [List.mem_map] at hm
      obtain ⟨p, _, hp⟩ := hm; cases hp
    · intro j d' hm
      simp only [List.mem_map] at hm
      obtain ⟨p, hpm, hp⟩ := hm
      cases hp
      exact hpn t _ _ (h.tok t p hpm)

theorem RI2.releaseAll (hpn : ∀ t j d, Pt t j d → Pn j d) (x : Nat) (ds : List Nat) (s : St) (h : RI2 Pc Pn Pt Pj s) :
    RI2 Pc Pn Pt Pj (St.releaseAll s x ds) :=
  releaseAll_ind (RI2 Pc Pn Pt Pj) x (fun _ => True) (fun s' d _ h' => h'.relOne hpn x d)
    (fun s' h' => h'.put x _ [] [] (by simp)) ds s (fun _ _ => trivial) h

theorem RI2.acquireAll (x : Nat) (k d : Nat) (s : St) (h : RI2 Pc Pn Pt Pj s) : RI2 Pc Pn Pt Pj (St.acquireAll s x k d).1 :=
  (acquireAll_ind (RI2 Pc Pn Pt Pj) x (d + k) (fun s' d' _ _ h' => by
    unfold acqOne
    split
    · exact h'.put x _ [] [] (by simp)
    · rename_i t c _
      have h'' : RI2 Pc Pn Pt Pj ({ s' with avail := upd s'.avail t (s'.avail t - c) } : St) := ⟨h'.cb, h'.nf, h'.tok, h'.job⟩
      exact h''.put x _ [] [] (by simp)) k d s rfl h).1

/-- the done-handler of `x`: its dependents are checked. -/
theorem RI2.doneStep {s : St} (h : RI2 Pc Pn Pt Pj s) (x : Nat) (hjc : ∀ j d, Pj x j d → Pc j d) :
    RI2 Pc Pn Pt Pj (SchedFinal.doneStep s x) := by
  unfold SchedFinal.doneStep
  refine RI2.put (s := ({ s with unfinished := _, waiter := _, ready := _ } : St)) ?_ x _ [] [] (by simp)
  refine h.grow _ rfl ?_ ?_ rfl rfl
  · intro j d hm
    simp only [List.mem_append, List.mem_map] at hm
    rcases hm with hm | ⟨p, hpm, hp⟩
    · split at hm <;> simp at hm
    · cases hp; exact hjc _ _ (h.job x p hpm)
  · intro j d hm
    simp only [List.mem_append, List.mem_map] at hm
    rcases hm with hm | ⟨p, hpm, hp⟩
    · split at hm <;> simp at hm
    · cases hp

theorem RI2.resume {s : St} (h : RI2 Pc Pn Pt Pj s) (hpn : ∀ t j d, Pt t j d → Pn j d) (fl : Flags) (x : Nat)
    (hjc : (s.jobs x).pc = .doneHandler → ∀ j d, Pj x j d → Pc j d) : RI2 Pc Pn Pt Pj (s.resume fl x) := by
  cases hp : (s.jobs x).pc with
  | lockEnter =>
    rw [resume_lockEnter fl s x hp]
    have h1 := RI2.acquireAll x (s.jobs x).deps.length 0 s h
    generalize St.acquireAll s x (s.jobs x).deps.length 0 = r at h1
    obtain ⟨s1, fa⟩ := r
    unfold enterTail
    cases fa with
    | some d =>
      simp only []
      refine RI2.put ?_ x _ [] _ (by simp)
      refine RI2.check ?_ fl x d
      unfold abortRelease
      split
      · exact RI2.releaseAll hpn x _ s1 h1
      · exact h1
    | none => exact h1.put x _ [] _ (by simp)
  | lockExitAbort =>
    rw [resume_lockExitAbort fl s x hp]
    unfold abortTail
    simp only []
    exact ((RI2.releaseAll hpn x _ s h).put x _ _ [] (RestartAbs.notChk_wake _ x)).loopHead x
  | lockExitRun => rw [resume_lockExitRun fl s x hp]; exact h.put x _ [] _ (by simp)
  | codeWait =>
    rw [resume_codeWait fl s x hp]
    unfold codeTail
    exact ((RI2.releaseAll hpn x _ s h).put x _ [] [] (by simp)).finish x
  | doneHandler => rw [resume_doneHandler fl s x hp]; exact h.doneStep x (hjc hp)
  | none => rw [resume_other fl s x (by simp [hp, pcKind])]; exact h
  | created => rw [resume_other fl s x (by simp [hp, pcKind])]; exact h
  | evtWait => rw [resume_other fl s x (by simp [hp, pcKind])]; exact h
  | finished r => rw [resume_other fl s x (by simp [hp, pcKind])]; exact h

/-- **the sources of the queued checks, through a callback.** -/
theorem runCb_ri2 {s : St} (h : RI2 Pc Pn Pt Pj s) (hpn : ∀ t j d, Pt t j d → Pn j d) (fl : Flags) (cb : Cb)
    (hst : ∀ x, cb = .start x → ∀ d', (∀ o, ((s.jobs x).deps.getD d' default).origin = .job o → Pj o x d') ∧
      (∀ t c, ((s.jobs x).deps.getD d' default).origin = .tok t c → Pt t x d'))
    (hjc : ∀ x, cb = .resume x → (s.jobs x).pc = .doneHandler → ∀ j d, Pj x j d → Pc j d) :
    RI2 Pc Pn Pt Pj (s.runCb fl cb) := by
  cases cb with
  | register j =>
    have hf := register_frameD fl s j
    exact h.same (register_jobs fl s j).2.1 hf.1 hf.2
  | start j => exact h.startJob fl j (hst j rfl)
  | wake j =>
    simp only [St.runCb]
    split
    · exact h.put j _ [] _ (by simp)
    · exact (h.put j _ [] [] (by simp)).loopHead j
  | resume j => exact h.resume hpn fl j (hjc j rfl)
  | check j d => exact h.check fl j d
  | notifyCheck j d =>
    rcases notifyCheck_cases fl s j d with e | e <;> rw [e]
    · exact h.check fl j d
    · exact h
  | waiterRun =>
    have hf := waiterRun_frameD s
    exact h.same (waiterRun_jobs s).2.1 hf.1 hf.2

end ri2

end XpmVerif.RestartFull
