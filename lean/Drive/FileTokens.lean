import XpmVerif.Basic.JsonUtil
import XpmVerif.Model.FileTokens
import XpmVerif.Model.FileTokSteps
/-! Line-protocol driver for M2' (file-based tokens, several processes): C08 / C09 file part.
    {"op":"init","total":n,"nproc":k,"req":[[name,count],…],"tolerant":b,"notifyMissing":b}
    {"op":"ev","e":["acquireBegin",p,f] | ["acquireEnd",p] | ["release",p,f] | ["fsEvent",p]
                  | ["reclaim",p,f] | ["jobGone",f] | ["drop",p] | ["restart",p] | ["recreate",p]
                  | ["relBegin",p,f] | ["relEnd",p,f]      (the two halves of a release, Model/FileTokSteps.lean)
                  | ["watchDecide",p,f] | ["watchUnlink",p,f]  (the two halves of a watcher thread)}
    output: {"enabled":b,"ok":b,"notify":b,"disk":…,"procs":…,"ipc":…,"active":…} -/
open Lean XpmVerif XpmVerif.J XpmVerif.FileTokens

structure DSt where
  cfg : Cfg
  s : St
  nproc : Nat

def lookupReq (l : List (Nat × Nat)) (f : Nat) : Nat :=
  match l.find? (fun x => x.1 == f) with
  | some x => x.2
  | none => 0

def evJ : FsEv → Json
  | .created f => Json.arr #["c", (f : Json)]
  | .modified f => Json.arr #["m", (f : Json)]
  | .deleted f => Json.arr #["d", (f : Json)]

def sortNat (l : List Nat) : List Nat := (l.toArray.qsort (· < ·)).toList

def observe (d : DSt) (en : Bool) (o : Out) : Json :=
  let s := d.s
  let disk := (s.disk.toArray.qsort (fun a b => a.1 < b.1)).toList
  Json.mkObj [
    ("enabled", en), ("ok", o.ok), ("notify", o.notify),
    ("disk", Json.arr (disk.map fun x => Json.arr #[(x.1 : Json), (x.2 : Json)]).toArray),
    ("procs", Json.arr ((List.range d.nproc).map fun p =>
        let P := s.procs p
        Json.mkObj [("cache", Json.arr ((sortNat P.cache).map fun (f : Nat) => (f : Json)).toArray),
                    ("avail", (P.avail : Json)), ("alive", P.alive), ("dropped", P.dropped),
                    ("total", (d.cfg.total : Json)), ("nobj", (1 : Nat)),
                    ("pending", Json.arr (P.pending.map evJ).toArray),
                    ("watch", Json.arr ((sortNat P.watch).map fun (f : Nat) => (f : Json)).toArray)]).toArray),
    ("ipc", match s.ipc with | some (p, f) => Json.arr #[(p : Json), (f : Json)] | none => Json.null),
    ("active", Json.arr ((sortNat s.active).map fun (f : Nat) => (f : Json)).toArray)]

def stepJ (d : DSt) (j : Json) : DSt × Json :=
  match strF j "op" with
  | "init" =>
    let req := (arrF j "req").map fun x => (nat ((arr x).getD 0 Json.null), nat ((arr x).getD 1 Json.null))
    let cfg : Cfg := { total := natF j "total", req := lookupReq req, tolerant := boolF j "tolerant",
                       notifyMissing := boolF j "notifyMissing" }
    let d' : DSt := { cfg := cfg, s := init cfg, nproc := natF j "nproc" }
    (d', observe d' true {})
  | "ev" =>
    let e := arrF j "e"
    let a (i : Nat) : Nat := nat (e.getD i Json.null)
    let ev : Option Ev :=
      match J.str (e.getD 0 Json.null) with
      | "acquireBegin" => some (.acquireBegin (a 1) (a 2))
      | "acquireEnd" => some (.acquireEnd (a 1))
      | "release" => some (.release (a 1) (a 2))
      | "fsEvent" => some (.fsEvent (a 1))
      | "reclaim" => some (.reclaim (a 1) (a 2))
      | "jobGone" => some (.jobGone (a 1))
      | "drop" => some (.drop (a 1))
      | "restart" => some (.restart (a 1))
      | "recreate" => some (.recreate (a 1))
      | _ => none
    match J.str (e.getD 0 Json.null) with
    | "relBegin" =>
      let en := enabled d.s (.release (a 1) (a 2))
      let (s', ok) := relBegin d.cfg d.s (a 1) (a 2)
      let d' := { d with s := s' }
      (d', observe d' en { ok := ok, notify := false })
    | "relEnd" =>
      let (s', ok) := relEnd d.s (a 2)
      let d' := { d with s := s' }
      (d', observe d' true { ok := ok, notify := true })
    | "watchDecide" =>
      let en := enabled d.s (.reclaim (a 1) (a 2))
      let d' := { d with s := watchDecide d.s (a 1) (a 2) }
      (d', observe d' en {})
    | "watchUnlink" =>
      let d' := { d with s := watchUnlink d.s (a 2) }
      (d', observe d' true {})
    | _ =>
    match ev with
    | none => (d, Json.mkObj [("error", Json.str "bad-event")])
    | some ev =>
      let en := enabled d.s ev
      let (s', o) := apply d.cfg d.s ev
      let d' := { d with s := s' }
      (d', observe d' en o)
  | op => (d, Json.mkObj [("error", Json.str s!"bad-op {op}")])

def main : IO Unit :=
  J.loop stepJ { cfg := { total := 0, req := fun _ => 0, tolerant := false, notifyMissing := false }, s := {}, nproc := 0 }
