"""Deterministic single-step engine over the *real* experimaestro Scheduler.

The asyncio loop is never run: the harness pops one ready handle at a time
(`step`), and every helper thread the scheduler would start through
`asyncThreadcheck` becomes a pending item that the harness completes when it
chooses (`deliver k`).  Jobs are instances of a `Job` subclass whose `aio_run`
records the launch and returns a process with a harness-controlled exit code.
`job.dependencies` and `dependents._dependents` are insertion-ordered sets so a
run is replayable.

Events:  ["submit", j] | ["step"] | ["deliver", k] | ["wait"]
After every event `observe()` gives the canonical observable state.
"""
import asyncio
import logging
import shutil
import sys
import tempfile
from pathlib import Path

sys._called_from_test = True
# coroutines of abandoned schedules are finalised after their loop is closed: keep the noise out of the check's output
sys.unraisablehook = lambda *a, **k: None
logging.disable(logging.CRITICAL)

import experimaestro.connectors as connectors  # noqa: E402
import experimaestro.locking as locking  # noqa: E402
import experimaestro.scheduler.base as base  # noqa: E402
from experimaestro.connectors import Process  # noqa: E402
from experimaestro.locking import Lock  # noqa: E402
from experimaestro.scheduler.base import Job, JobDependency, JobState, Scheduler  # noqa: E402
from experimaestro.tokens import ProcessCounterToken  # noqa: E402


class OSet(dict):
    """insertion-ordered set"""

    def add(self, x):
        self[x] = None

    def update(self, xs):
        for x in xs:
            self[x] = None

    def remove(self, x):
        del self[x]

    # the rest of the `set` interface (a source change may use any of it: that must not look like a property violation)
    def discard(self, x):
        self.pop(x, None)

    def difference_update(self, xs):
        for x in list(xs):
            self.pop(x, None)

    def __isub__(self, xs):
        self.difference_update(xs)
        return self

    def __ior__(self, xs):
        self.update(xs)
        return self

    def __or__(self, xs):
        r = OSet(self)
        r.update(xs)
        return r

    def __sub__(self, xs):
        r = OSet(self)
        r.difference_update(xs)
        return r

    def union(self, *xss):
        r = OSet(self)
        for xs in xss:
            r.update(xs)
        return r

    def difference(self, *xss):
        r = OSet(self)
        for xs in xss:
            r.difference_update(xs)
        return r

    def intersection(self, xs):
        xs = set(xs)
        return OSet((x, None) for x in self if x in xs)

    def issubset(self, xs):
        return all(x in xs for x in self)

    def copy(self):
        return OSet(self)


class NullLock(Lock):
    def _acquire(self):
        pass

    def _release(self):
        pass


class FakeConnector:
    def lock(self, path, max_delay=-1):
        return NullLock()


class FakeLauncher:
    connector = FakeConnector()


class FakeProcess(Process):
    def __init__(self, job):
        self.job = job
        self.code = None

    def wait(self):
        return self.code


class FakeType:
    identifier = "xv.fake"


class World:
    """one scheduler + its jobs and tokens"""

    def __init__(self, spec):
        self.spec = spec
        self.loop = asyncio.new_event_loop()
        self.threads = []  # (name, func, args, kwargs, future)
        self.trace = []  # ("state", j, name) | ("launch", j) | ...
        self.ws = Path(tempfile.mkdtemp(prefix="xv-sched-"))
        world = self

        def fake_async_threadcheck(name, func, *args, **kwargs):
            fut = world.loop.create_future()
            world.threads.append((name, func, args, kwargs, fut))
            return fut

        self._saved = [(m, m.asyncThreadcheck) for m in (base, locking, connectors)]
        for m, _ in self._saved:
            m.asyncThreadcheck = fake_async_threadcheck

        class FakeJob(Job):
            def __init__(self, idx, js):
                base.Resource.__init__(self)
                self.dependents._dependents = OSet()
                self.idx = idx
                self.js = js
                self._ident = f"id{js['ident']}"
                self.name = f"J{idx}"
                self.workspace = None
                self.launcher = FakeLauncher()
                self.type = FakeType
                self.scheduler = None
                self.config = None
                self.state = JobState.UNSCHEDULED
                self.failure_status = None
                self.dependencies = OSet()
                self.watched_outputs = {}
                self._process = None
                self.unsatisfied = 0
                self.starttime = self.submittime = self.endtime = None
                self._progress = []
                self.tags = {}
                self.launches = 0
                self.proc = None

            def __setattr__(self, k, v):
                if k == "state":
                    world.trace.append(("state", self.__dict__.get("idx", -1), v.name))
                object.__setattr__(self, k, v)

            def __hash__(self):
                return id(self)

            def __eq__(self, other):
                return self is other

            identifier = property(lambda self: self._ident)
            relpath = property(lambda self: Path("xv.fake") / self._ident)
            relmainpath = relpath
            path = property(lambda self: world.ws / "jobs" / self.relpath)
            jobpath = path
            lockpath = property(lambda self: self.path / "lock")
            donepath = property(lambda self: self.path / "done")
            failedpath = property(lambda self: self.path / "failed")

            async def aio_process(self):
                return None

            async def aio_run(self):
                world.trace.append(("launch", self.idx))
                self.launches += 1
                self.state = JobState.RUNNING
                self.proc = FakeProcess(self)
                return self.proc

            def done_handler(self):
                return None

        self.FakeJob = FakeJob

        class Central:
            pass

        class XP:
            def __init__(self):
                self.unfinishedJobs = 0
                self.failedJobs = {}
                self.server = None
                self.central = Central()
                self.exitMode = False
                self.taskOutputQueueSize = 0
                self.alt_jobspaths = []
                self.jobspath = world.ws / "xp" / "jobs"

            @property
            def loop(self):
                return world.loop

        self.xp = XP()
        asyncio.events._set_running_loop(self.loop)
        try:
            self.xp.central.exitCondition = asyncio.Condition()
            self.xp.central.dependencyLock = asyncio.Lock()
        finally:
            asyncio.events._set_running_loop(None)
        self._saved_current = base.experiment.CURRENT
        base.experiment.CURRENT = self.xp
        self.sch = Scheduler(self.xp, "xv")
        self.tokens = []
        for total in spec["tokens"]:
            t = ProcessCounterToken(total)
            t.dependents._dependents = OSet()
            self.tokens.append(t)
        self.jobs = {}  # idx -> FakeJob
        self.tasks = {}  # idx -> aio_submit task
        self.effective = {}  # submission index -> index of the job that stands for it
        self.waiter = None
        self.waiter_result = "none"

    # -- events --------------------------------------------------------------
    def _run_handle(self):
        h = self.loop._ready.popleft()
        if h._cancelled:
            return
        asyncio.events._set_running_loop(self.loop)
        try:
            h._run()
        finally:
            asyncio.events._set_running_loop(None)

    def _after(self):
        if self.waiter is not None and self.waiter.done() and self.waiter_result == "pending":
            self.waiter_result = "raised" if self.waiter.exception() is not None else "returned"

    def submit(self, idx):
        """`task.submit()` as the submitting thread sees it: the registration coroutine is queued behind
        the handles already in the ready queue (FIFO), the thread blocks until it has run, and then
        schedules `aio_submit` unless another job was returned."""
        js = self.spec["jobs"][idx]
        job = self.FakeJob(idx, js)
        for d in js["deps"]:
            if d[0] == "j":
                job.dependencies.add(JobDependency(self.jobs[self.effective[d[1]]]))
            else:
                job.dependencies.add(self.tokens[d[1]].dependency(d[2]))
        if js.get("marker"):
            job.path.mkdir(parents=True, exist_ok=True)
            job.donepath.touch()
        self.jobs[idx] = job
        t = self.loop.create_task(self.sch.aio_registerJob(job))
        while not t.done():
            self._run_handle()
        other = t.result()
        self.effective[idx] = idx if other is None else other.idx
        self.trace.append(("registered", idx, None if other is None else other.idx))
        if other is None:
            self.tasks[idx] = self.loop.create_task(self.sch.aio_submit(job))
        self._after()

    def step(self):
        self._run_handle()
        self._after()

    def deliver(self, k):
        name, f, a, kw, fut = self.threads.pop(k)
        if name == "aio_code":
            job = f.__self__.job
            f.__self__.code = job.js["code"]
        r = f(*a, **kw)
        fut.set_result(r)
        self._after()

    def wait(self):
        xp = self.xp
        # the coroutine of experiment.wait(), taken from the real class
        # run the real method body up to the point where it schedules the coroutine
        captured = {}

        def fake_rct(coro, loop):
            captured["coro"] = coro

            class R:
                def result(self_inner):
                    return None
            return R()

        saved = base.asyncio.run_coroutine_threadsafe
        base.asyncio.run_coroutine_threadsafe = fake_rct
        try:
            class Proxy(base.experiment):
                def __init__(self):
                    pass
                unfinishedJobs = property(lambda s: xp.unfinishedJobs)
                taskOutputQueueSize = property(lambda s: xp.taskOutputQueueSize)
                failedJobs = property(lambda s: xp.failedJobs)
                exitMode = property(lambda s: xp.exitMode)
                central = property(lambda s: xp.central)
                loop = property(lambda s: xp.loop)
            Proxy().wait()
        finally:
            base.asyncio.run_coroutine_threadsafe = saved
        self.waiter = self.loop.create_task(captured["coro"])
        self.waiter_result = "pending"
        self._after()

    def apply(self, ev):
        k = ev[0]
        if k == "submit":
            self.submit(ev[1])
        elif k == "step":
            self.step()
        elif k == "deliver":
            self.deliver(ev[1])
        elif k == "wait":
            self.wait()
        else:
            raise ValueError(ev)

    def choices(self, pending_submits, waited):
        ch = []
        if len(self.loop._ready):
            ch.append(["step"])
        ch += [["deliver", i] for i in range(len(self.threads))]
        if pending_submits:
            ch.append(["submit", pending_submits[0]])
        if not waited and not pending_submits:
            ch.append(["wait"])
        return ch

    # -- observation -----------------------------------------------------------
    THREAD_KIND = {"lock (aenter)": "lockEnter", "lock (aexit)": "lockExit", "aio_code": "code", "End of job processing": "doneH"}

    def thread_desc(self, t):
        name, f = t[0], t[1]
        kind = self.THREAD_KIND.get(name, name)
        owner = None
        if kind == "code":
            owner = f.__self__.job.idx
        elif kind == "doneH":
            owner = f.__self__.idx
        return [kind, owner]

    def observe(self):
        n = len(self.spec["jobs"])
        states, unsat, fut, launches = [], [], [], []
        for i in range(n):
            j = self.jobs.get(i)
            if j is None:
                states.append(None)
                unsat.append(None)
                fut.append(None)
                launches.append(0)
                continue
            states.append(j.state.name)
            unsat.append(j.unsatisfied)
            t = self.tasks.get(i)
            if t is None:
                fut.append("none")
            elif not t.done():
                fut.append("pending")
            elif t.exception() is not None:
                fut.append("exc:" + type(t.exception()).__name__)
            else:
                fut.append(t.result().name)
            launches.append(j.launches)
        return {
            "states": states, "unsat": unsat, "futures": fut, "launches": launches,
            "avail": [t.available for t in self.tokens],
            "unfinished": self.xp.unfinishedJobs,
            "failed": sorted(self.xp.failedJobs.keys()),
            "nready": len([h for h in self.loop._ready if not h._cancelled]),
            "threads": [self.thread_desc(t) for t in self.threads],
            "waiter": self.waiter_result,
        }

    def close(self):
        for m, f in self._saved:
            m.asyncThreadcheck = f
        base.experiment.CURRENT = self._saved_current
        for t in list(self.tasks.values()) + ([self.waiter] if self.waiter else []):
            if not t.done():
                t.cancel()
        try:
            self.loop.close()
        except Exception:
            pass
        shutil.rmtree(self.ws, ignore_errors=True)


def run_random(spec, rng, max_events=4000):
    """random schedule; returns (events, observations, trace, quiescent)"""
    w = World(spec)
    try:
        pending = list(range(len(spec["jobs"])))
        events, obs = [], []
        waited = False
        quiescent = False
        for _ in range(max_events):
            ch = w.choices(pending, waited)
            # `wait` is always possible until used: stop when nothing else can happen
            real = [c for c in ch if c[0] != "wait"]
            if not real and (waited or spec.get("no_wait")):
                quiescent = True
                break
            if spec.get("no_wait"):
                ch = real
            ev = rng.choice(ch)
            # bias: submissions early, wait sometimes
            if ev[0] == "wait" and rng.random() < 0.7 and real:
                ev = rng.choice(real)
            w.apply(ev)
            if ev[0] == "submit":
                pending.pop(0)
            if ev[0] == "wait":
                waited = True
            events.append(ev)
            obs.append(w.observe())
        return events, obs, list(w.trace), quiescent
    finally:
        w.close()


def run_replay(spec, events):
    w = World(spec)
    try:
        obs = []
        for ev in events:
            w.apply(ev)
            obs.append(w.observe())
        return obs, list(w.trace)
    finally:
        w.close()


def run_replay_complete(spec, events, max_events=4000):
    """replays `events` as far as they are possible on this tree, then completes the run with the first
    available choice until nothing is left to run; returns (events actually run, observations, trace, quiescent)"""
    w = World(spec)
    try:
        pending = list(range(len(spec["jobs"])))
        waited = False
        done, obs = [], []
        queue = list(events)
        for _ in range(max_events):
            ch = w.choices(pending, waited)
            if not ch:
                return done, obs, list(w.trace), True
            ev = None
            while queue and ev is None:
                cand = queue.pop(0)
                if cand in ch:
                    ev = cand
            if ev is None:
                ev = ch[0]
            w.apply(ev)
            if ev[0] == "submit":
                pending.pop(0)
            if ev[0] == "wait":
                waited = True
            done.append(ev)
            obs.append(w.observe())
        return done, obs, list(w.trace), False
    finally:
        w.close()
