"""Shared machinery of the checks: context, Lean build/audit, model driver,
evidence, known findings, verdict.  Run with /venv/bin/python (repo importable
from /repo/src through the editable install)."""
import fcntl
import hashlib
import json
import os
import random
import re
import shutil
import subprocess
import sys
import tempfile
import time
from pathlib import Path

VERIF = Path(__file__).resolve().parents[2]
LEAN = VERIF / "lean"
REPO = Path(os.environ.get("XPM_REPO", "/repo"))
ALLOWED_AXIOMS = {"propext", "Classical.choice", "Quot.sound"}
FORBIDDEN = re.compile(r"sorry|admit|^\s*axiom |native_decide|bv_decide|implemented_by|unsafe |maxHeartbeats 0", re.M)

TRUSTED_BASE = [
    "Lean 4.33 kernel (leanchecker re-check in the thorough tier)",
    "axioms admitted: propext, Classical.choice, Quot.sound (audited with #print axioms on every run); no native_decide, no bv_decide, no own axioms, no sorry",
    "correspondence check (python harness + Lean driver + canonicalisation): differential testing that ties the hand-written model to /repo's current source",
]


class Ctx:
    def __init__(self, prop, tier, seed):
        self.prop = prop
        self.tier = tier
        self.seed = seed
        self.rng = random.Random(f"{prop}-{seed}")
        self.t0 = time.time()
        self.evaluations = 0
        self.nontrivial = set()  # hashes of distinct non-trivial cases
        self.samples = []
        self.hist = {}  # histogram name -> {key: count}
        self.traces_validated = 0
        self.disagreements = []  # model/implementation differences: dict(case=..., model=..., impl=...)
        self.monitor_failures = []  # implementation violates the property: dict(key=..., what=..., case=...)
        self.notes = []
        self.proof = None
        self.rule = ""
        self.extra_cov = {}
        self.assumptions = []
        self.exhaustive = False
        self._tmp = None

    # --- counting -------------------------------------------------------
    def count(self, hist, key, n=1):
        h = self.hist.setdefault(hist, {})
        h[str(key)] = h.get(str(key), 0) + n

    def case(self, case, nontrivial):
        """register one evaluated case (any JSON-serialisable description)"""
        self.evaluations += 1
        if nontrivial:
            self.nontrivial.add(hashlib.sha1(json.dumps(case, sort_keys=True, default=str).encode()).digest()[:8])
        if len(self.samples) < 3 or (self.evaluations % 997 == 0 and len(self.samples) < 6):
            self.samples.append(case)

    def quick(self):
        return self.tier == "quick"

    def scale(self, quick, thorough):
        return quick if self.tier == "quick" else thorough

    def tmpdir(self):
        if self._tmp is None:
            self._tmp = Path(tempfile.mkdtemp(prefix=f"xv-{self.prop}-"))
        return self._tmp

    def cleanup(self):
        if self._tmp is not None:
            shutil.rmtree(self._tmp, ignore_errors=True)
            self._tmp = None

    def disagree(self, case, model, impl, what=""):
        self.disagreements.append({"what": what, "case": case, "model": model, "impl": impl})

    def monitor_fail(self, key, what, case):
        """the implementation alone violates the property on `case`; `key` identifies the
        failing input/call site for matching against known_findings.json"""
        self.monitor_failures.append({"key": key, "what": what, "case": case})


# --------------------------------------------------------------------------
# Lean side


def _run(cmd, cwd=None, timeout=1800, input=None, env=None):
    p = subprocess.run(cmd, cwd=cwd, capture_output=True, text=True, timeout=timeout, input=input, env=env)
    return p.returncode, p.stdout, p.stderr


class BuildLock:
    def __enter__(self):
        (LEAN / ".lake").mkdir(exist_ok=True)
        self.f = open(LEAN / ".lake" / "xv-build.lock", "w")
        fcntl.flock(self.f, fcntl.LOCK_EX)
        return self

    def __exit__(self, *a):
        fcntl.flock(self.f, fcntl.LOCK_UN)
        self.f.close()


def lean_build(modules, timeout=3000):
    """lake build of the given modules (and the driver's imports). returns (ok, log)"""
    with BuildLock():
        rc, out, err = _run(["lake", "build"] + list(modules), cwd=LEAN, timeout=timeout)
    log = out + err
    return rc == 0, log


def theorems_of(module_file: Path):
    """property theorems declared in a Properties/*.lean file: (namespace-qualified names)"""
    text = module_file.read_text()
    # strip comments
    text_nc = re.sub(r"/-.*?-/", "", text, flags=re.S)
    text_nc = re.sub(r"--.*", "", text_nc)
    ns = re.search(r"^namespace\s+(\S+)", text_nc, re.M)
    prefix = ns.group(1) + "." if ns else ""
    return [prefix + m.group(1) for m in re.finditer(r"^theorem\s+([A-Za-z0-9_'.]+)", text_nc, re.M)]


def forbidden_hits():
    hits = []
    for f in sorted((LEAN / "XpmVerif").rglob("*.lean")):
        text = f.read_text()
        text_nc = re.sub(r"/-.*?-/", lambda m: "\n" * m.group(0).count("\n"), text, flags=re.S)
        text_nc = re.sub(r"--.*", "", text_nc)
        for m in FORBIDDEN.finditer(text_nc):
            line = text_nc.count("\n", 0, m.start()) + 1
            hits.append(f"{f.relative_to(LEAN)}:{line}: {m.group(0).strip()}")
    return hits


def lean_audit(prop_modules, required=None):
    """#print axioms for every property theorem of the modules (one lean run per module, so that a
    module that does not build does not hide the others).
    returns dict name -> sorted axiom list, or None if the theorem is missing/unbuilt"""
    res, texts = {}, []
    for mi, mod in enumerate(prop_modules):
        names = theorems_of(LEAN / (mod.replace(".", "/") + ".lean"))
        if mi == 0:
            for r in required or []:
                if r not in names:
                    names.append(r)
        src = f"import {mod}\n" + "".join(f"#print axioms {n}\n" for n in names)
        tmp = LEAN / ".lake" / f"audit-{os.getpid()}-{mi}.lean"
        tmp.write_text(src)
        try:
            rc, out, err = _run(["lake", "env", "lean", str(tmp)], cwd=LEAN, timeout=1200)
        finally:
            tmp.unlink(missing_ok=True)
        for n in names:
            res[n] = None
        text = out + err
        if "does not exist" in text or "unknown module" in text.lower() or "object file" in text:
            # the module itself did not build (one failing declaration is enough for that): elaborate its source with the
            # audit commands appended, so that the theorems that do check are still told apart from the one(s) that do not
            # (Lean goes on after a failed declaration; a failed theorem is then an unknown constant for `#print axioms`)
            body = (LEAN / (mod.replace(".", "/") + ".lean")).read_text()
            tmp.write_text(body + "\n" + "".join(f"#print axioms {n}\n" for n in names))
            try:
                rc, out, err = _run(["lake", "env", "lean", str(tmp)], cwd=LEAN, timeout=1200)
            finally:
                tmp.unlink(missing_ok=True)
            text = out + err
        texts.append(text)
        for m in re.finditer(r"'([^']+)' depends on axioms: \[([^\]]*)\]", text, re.S):
            res[m.group(1)] = sorted(a.strip() for a in m.group(2).replace("\n", " ").split(",") if a.strip())
        for m in re.finditer(r"'([^']+)' does not depend on any axioms", text):
            res[m.group(1)] = []
    return res, "\n".join(texts)


class ProofResult:
    def __init__(self):
        self.obligations = 0
        self.discharged = 0
        self.failures = []  # strings
        self.axioms = {}
        self.log = ""

    @property
    def ok(self):
        return not self.failures and self.obligations == self.discharged and self.obligations > 0


def check_proofs(ctx, prop_modules, driver=None, required=None, translate_msgs=()):
    """steps 1-2 of the check flow: build, audit axioms, grep forbidden constructs"""
    pr = ProofResult()
    for ok, msg in translate_msgs:
        if not ok:
            pr.failures.append(f"translator: {msg}")
    ok, log = lean_build(list(prop_modules))
    pr.log = log[-6000:]
    if not ok:
        errs = [l for l in log.splitlines() if l.startswith("error:") or " error: " in l]
        pr.failures.append("lake build failed: " + " | ".join(errs[:6]))
    axioms, text = lean_audit(prop_modules, required) if True else ({}, "")
    pr.axioms = axioms
    pr.obligations = len(axioms)
    for name, ax in axioms.items():
        if ax is None:
            pr.failures.append(f"theorem {name} does not check")
        elif not set(ax) <= ALLOWED_AXIOMS:
            pr.failures.append(f"theorem {name} uses inadmissible axioms {ax}")
        else:
            pr.discharged += 1
    hits = forbidden_hits()
    if hits:
        pr.failures.append("forbidden constructs: " + "; ".join(hits[:5]))
    if ctx.tier == "thorough" and ok:
        with BuildLock():
            rc, out, err = _run(["lake", "env", "leanchecker"] + list(prop_modules), cwd=LEAN, timeout=3000)
        if rc != 0:
            pr.failures.append("leanchecker rejected: " + (out + err)[-300:])
        ctx.notes.append(f"leanchecker rc={rc}")
    ctx.proof = pr
    return pr


_DRIVER_BUILT = set()


def _build_driver_imports(name):
    """the driver is interpreted from source but its imports are compiled modules: build them first (once per process), so that a
    model file changed since the last full `lake build` is never used stale (a check builds only its own property modules)"""
    if name in _DRIVER_BUILT:
        return
    _DRIVER_BUILT.add(name)
    try:
        src = (LEAN / "Drive" / f"{name}.lean").read_text()
    except OSError:
        return
    mods = [m for m in re.findall(r"^import\s+(XpmVerif\.[A-Za-z0-9_.]+)", src, re.M)]
    if mods:
        with BuildLock():
            _run(["lake", "build"] + mods, cwd=LEAN, timeout=3000)


def run_driver(name, lines, timeout=3000):
    """pipe JSON lines through `lake env lean --run Drive/<name>.lean`; returns list of parsed outputs"""
    data = "".join(json.dumps(l) + "\n" for l in lines)
    _build_driver_imports(name)
    rc, out, err = _run(["lake", "env", "lean", "--run", f"Drive/{name}.lean"], cwd=LEAN, timeout=timeout, input=data)
    outs = []
    for l in out.splitlines():
        l = l.strip()
        if not l:
            continue
        try:
            outs.append(json.loads(l))
        except json.JSONDecodeError:
            outs.append({"error": "unparsable model output", "raw": l[:200]})
    if rc != 0 or len(outs) != len(lines):
        raise DriverError(f"driver {name}: rc={rc}, {len(outs)} outputs for {len(lines)} inputs: {err[-500:]}")
    return outs


# configuration-valued parameter defaults (`x: Param[C] = C(a=1)`) in the generated class libraries of C01-C03
CFG_DEFAULTS = os.environ.get("XV_CFGDEFAULTS", "1") == "1"


class DriverError(Exception):
    pass


# --------------------------------------------------------------------------
# known findings


def load_findings(prop):
    p = VERIF / "known_findings.json"
    if not p.exists():
        return []
    return [f for f in json.loads(p.read_text()) if f["property"] == prop]


def run_script_witness(ctx, finding, timeout=120):
    """witness given as a stand-alone script (corpus/findings/*.py: public API only, exit 1 = the defect shows, exit 0 = it
    does not), run against the tree under test"""
    w = finding.get("witness") or {}
    if "script" not in w:
        return False
    env = dict(os.environ, PYTHONPATH=str(REPO / "src"))
    p = subprocess.run(["/venv/bin/python", str(VERIF / w["script"])], capture_output=True, text=True, timeout=timeout, env=env, cwd=str(ctx.tmpdir()))
    ctx.count("script_witness", f"{finding['id']}:rc={p.returncode}")
    if p.returncode == 1:
        tail = " | ".join(l for l in p.stdout.strip().splitlines()[-3:])
        ctx.monitor_fail(finding["key"], f"{tail} [witness of {finding['id']}: {w['script']}]", {"script": w["script"]})
    elif p.returncode != 0:
        ctx.notes.append(f"witness script of {finding['id']} could not run (rc={p.returncode}): {(p.stderr or p.stdout)[-300:]}")
    return True


# --------------------------------------------------------------------------
# evidence + verdict


def write_evidence(ctx, level="proof", violations=0):
    pr = ctx.proof
    cov = {
        "evaluations": ctx.evaluations,
        "distinct_nontrivial": len(ctx.nontrivial),
        "rule": ctx.rule,
        "samples": ctx.samples[:6] if ctx.samples else [],
        "traces_validated_against_impl": ctx.traces_validated,
        "disagreements_checked": ctx.evaluations,
        "disagreements_found": len(ctx.disagreements),
        "monitor_failures": len(ctx.monitor_failures),
        "histograms": ctx.hist,
        "exhaustive": ctx.exhaustive,
        "notes": ctx.notes,
    }
    if pr is not None:
        if pr.obligations >= 1 and pr.discharged >= 1:
            cov.update(obligations=pr.obligations, discharged=pr.discharged)
        else:
            # nothing was discharged (the build of the property modules failed): the schema's proof keys require >= 1, so the
            # counts are reported under their own names and the exploration counts above describe what the run covered
            cov.update(proof_obligations_found=pr.obligations, proof_obligations_discharged=pr.discharged)
        cov.update(
            checker_cmd="cd lean && lake build <property modules> && lake env lean <#print axioms of every property theorem>"
            + (" && lake env leanchecker <property modules>" if ctx.tier == "thorough" else ""),
            trusted_base=TRUSTED_BASE + [f"axioms printed this run: {sorted({a for v in pr.axioms.values() if v for a in v})}"],
            theorems={k: v for k, v in pr.axioms.items()},
            proof_failures=pr.failures,
        )
    cov.update(ctx.extra_cov)
    ev = {
        "property_id": ctx.prop,
        "tier": ctx.tier,
        "seed": ctx.seed,
        "level": level,
        "coverage": cov,
        "assumptions": ctx.assumptions,
        "wall_s": round(time.time() - ctx.t0, 2),
        "violations": violations,
    }
    # evidence/ describes runs against /repo itself; a run against another tree (tools/seedtest, tools/patchtest: XPM_REPO set)
    # leaves its record under replays/ (git-ignored) so that it never replaces the record of the real tree
    if REPO.resolve() == Path("/repo"):
        out_dir = VERIF / "evidence"
    else:
        out_dir = VERIF / "replays" / "evidence-other-tree"
        ev["repo"] = str(REPO)
    out_dir.mkdir(parents=True, exist_ok=True)
    (out_dir / f"{ctx.prop}.json").write_text(json.dumps(ev, indent=1, default=str))


def write_replay(ctx, obj, suffix=""):
    d = VERIF / "replays"
    d.mkdir(exist_ok=True)
    p = d / f"{ctx.prop}-{ctx.seed}{suffix}.json"
    p.write_text(json.dumps(obj, indent=1, default=str))
    return p.relative_to(VERIF)


def verdict(ctx, search=None, level="proof"):
    """Step 4-5 of the check flow.  `search(ctx)` is the property's implementation-only
    failing-input search, run only when a proof obligation or the correspondence broke and no
    monitor failure is at hand.  Returns the process exit code."""
    known = [f for f in load_findings(ctx.prop)]
    known_keys = {f["key"]: f for f in known if f.get("status") == "known"}
    printed = set()
    new_failures = []
    for mf in ctx.monitor_failures:
        if mf["key"] in known_keys:
            if mf["key"] not in printed:
                printed.add(mf["key"])
                print(f"KNOWN-FINDING: property={ctx.prop} {known_keys[mf['key']]['what']}")
        else:
            new_failures.append(mf)
    broken = []
    if ctx.proof is not None and not ctx.proof.ok:
        broken += ctx.proof.failures or ["obligations not all discharged"]
    if ctx.disagreements:
        broken.append(f"correspondence: {len(ctx.disagreements)} disagreement(s) between model and implementation")
    if not new_failures and broken and search is not None:
        before = len(ctx.monitor_failures)
        try:
            search(ctx)
        except Exception as e:  # the search is best effort
            ctx.notes.append(f"search raised {type(e).__name__}: {e}")
        for mf in ctx.monitor_failures[before:]:
            if mf["key"] in known_keys:
                if mf["key"] not in printed:
                    printed.add(mf["key"])
                    print(f"KNOWN-FINDING: property={ctx.prop} {known_keys[mf['key']]['what']}")
            else:
                new_failures.append(mf)
    if new_failures:
        replay = write_replay(ctx, {"property": ctx.prop, "kind": "failing-input", "failures": new_failures[:5],
                                    "broken": broken, "disagreements": ctx.disagreements[:3]})
        write_evidence(ctx, level, violations=len(new_failures))
        print(f"VIOLATION property={ctx.prop} replay={replay}")
        print(f"  {new_failures[0]['what']}")
        return 1
    if broken:
        replay = write_replay(ctx, {"property": ctx.prop, "kind": "no-longer-shown", "broken": broken,
                                    "disagreements": ctx.disagreements[:5],
                                    "proof_log": ctx.proof.log[-3000:] if ctx.proof else ""})
        write_evidence(ctx, level, violations=1)
        print(f"VIOLATION property={ctx.prop} replay={replay} no-failing-input-found")
        for b in broken[:4]:
            print(f"  {b[:300]}")
        return 1
    write_evidence(ctx, level, violations=0)
    # translators that fell back on their reference definitions in this run (the correspondence is then the only tie for that part)
    fb = sum(v for k, v in ctx.hist.get("translator", {}).items() if k.endswith(":fallback")) \
        + sum(1 for n in ctx.notes if isinstance(n, str) and n.startswith("translator(") and ("untranslated" in n or "probed" in n.lower()))
    print(f"OK property={ctx.prop} tier={ctx.tier} seed={ctx.seed} evaluations={ctx.evaluations} "
          f"nontrivial={len(ctx.nontrivial)} obligations={ctx.proof.obligations if ctx.proof else 0} "
          + (f"translator_fallbacks={fb} " if fb else "") + f"wall={time.time() - ctx.t0:.1f}s")
    return 0
