import XpmVerif.Proofs.InjectBase
/-! C03, part 2: type-directed injectivity of `encS` (unterminated strings and dicts) with the follow-set
    side conditions `safe` and `Avoid (need τ)`, for types satisfying `ok` (`Ty.Unamb` of DESIGN §4). -/
namespace XpmVerif.Ident
open List

/-- declared parameter types, as far as the byte format can tell them apart (bool shares `int`). -/
inductive STy where
  | int | float | str | enum | obj
  | opt (t : STy)
  | list (t : STy)
  | dict (t : STy)
  deriving Repr, DecidableEq, Inhabited

/-- no control character: every byte is `≥ 13` (all tags are `< 13`). -/
def noTag (s : List Nat) : Prop := ∀ b ∈ s, 13 ≤ b

/-- what may follow the OBJECT tag: a cycle reference `0b W8(k)` or one digest token `256 + d`. -/
def wtObj (toks : List Nat) : Prop :=
  (∃ k, k < 2^64 ∧ toks = 11 :: pack8 k) ∨ (∃ d, toks = [256 + d])

/-- well-typed signature values. -/
def wt : STy → SVal → Prop
  | .int, v => ∃ n, v = .int n ∧ n < 2^64
  | .float, v => ∃ b, v = .float b ∧ b < 2^64
  | .str, v => ∃ s, v = .str s ∧ noTag s
  | .enum, v => ∃ s, v = .enum s ∧ noTag s
  | .obj, v => ∃ toks, v = .obj toks ∧ wtObj toks
  | .opt t, v => v = .none ∨ wt t v
  | .list t, v => ∃ l, v = .list l ∧ l.length < 2^53 ∧ ∀ x ∈ l, wt t x
  | .dict t, v => ∃ ks vs, v = .dict ks vs ∧ ks.length = vs.length ∧ (∀ k ∈ ks, noTag k) ∧ ∀ x ∈ vs, wt t x

/-- first-tag set: the tags a value of the type can start with. -/
def fts : STy → List Nat
  | .int => [1] | .float => [2] | .str => [3] | .enum => [10] | .obj => [0]
  | .opt t => 6 :: fts t
  | .list _ => [7]
  | .dict _ => [9]

/-- value tags `t` such that a continuation `03 key t …` would be read as one more item of a dict still
    open at the right end of a value of the type. -/
def need : STy → List Nat
  | .int => [] | .float => [] | .str => [] | .enum => [] | .obj => []
  | .opt t => need t
  | .list t => need t
  | .dict t => fts t ++ need t

/-- `Ty.Unamb`: no dict nested (through lists/optionals/dicts) at the right end of a dict value can
    swallow an item of the outer dict. -/
def ok : STy → Prop
  | .int => True | .float => True | .str => True | .enum => True | .obj => True
  | .opt t => ok t
  | .list t => ok t
  | .dict t => ok t ∧ ∀ b ∈ fts t, b ∉ need t

instance : ∀ t, Decidable (ok t)
  | .int => isTrue trivial | .float => isTrue trivial | .str => isTrue trivial
  | .enum => isTrue trivial | .obj => isTrue trivial
  | .opt t => by unfold ok; exact instDecidableOk t
  | .list t => by unfold ok; exact instDecidableOk t
  | .dict t => by
    unfold ok
    have := instDecidableOk t
    exact inferInstance

/-- a continuation is safe if it is empty or starts with a tag byte. -/
def safe : List Nat → Prop
  | [] => True
  | b :: _ => b < 13

/-- `r` is not of the form `03 k t …` with control-free `k` and `t ∈ F`. -/
def Avoid (F : List Nat) (r : List Nat) : Prop :=
  ∀ k t rest, noTag k → t ∈ F → r ≠ 3 :: k ++ t :: rest

theorem noTag_nil : noTag [] := by intro b hb; simp at hb
theorem noTag_cons {a : Nat} {s : List Nat} : noTag (a :: s) ↔ 13 ≤ a ∧ noTag s := by
  simp [noTag]

/-- **unterminated strings**: two control-free strings followed by safe continuations. -/
theorem str_split {s1 s2 r1 r2 : List Nat} (h1 : noTag s1) (h2 : noTag s2)
    (hr1 : safe r1) (hr2 : safe r2) (h : s1 ++ r1 = s2 ++ r2) : s1 = s2 ∧ r1 = r2 := by
  induction s1 generalizing s2 with
  | nil =>
    cases s2 with
    | nil => simpa using h
    | cons b s2 =>
      simp only [nil_append, cons_append] at h
      subst h
      have := (noTag_cons.1 h2).1
      simp only [safe] at hr1
      omega
  | cons a s1 ih =>
    cases s2 with
    | nil =>
      simp only [nil_append, cons_append] at h
      subst h
      have := (noTag_cons.1 h1).1
      simp only [safe] at hr2
      omega
    | cons b s2 =>
      simp only [cons_append, cons.injEq] at h
      obtain ⟨hab, h⟩ := h
      have := ih (noTag_cons.1 h1).2 (noTag_cons.1 h2).2 h
      simp [hab, this]

theorem safe_cons {b : Nat} {r : List Nat} (h : b < 13) : safe (b :: r) := h

theorem avoid_nil_set (r : List Nat) : Avoid [] r := by
  intro k t rest _ ht; simp at ht

theorem avoid_of_head_ne3 (F : List Nat) (b : Nat) (r : List Nat) (h : b ≠ 3) : Avoid F (b :: r) := by
  intro k t rest _ _ heq
  simp only [cons_append, cons.injEq] at heq
  exact h heq.1

theorem avoid_nil (F : List Nat) : Avoid F [] := by
  intro k t rest _ _ heq; simp at heq

theorem Avoid.mono {F G : List Nat} {r : List Nat} (h : Avoid G r) (hs : ∀ b ∈ F, b ∈ G) : Avoid F r :=
  fun k t rest hk ht => h k t rest hk (hs t ht)

/-- all value tags. -/
def valueTags : List Nat := [0, 1, 2, 3, 6, 7, 9, 10]

theorem fts_valueTags : ∀ t, ∀ b ∈ fts t, b ∈ valueTags
  | .int => by simp [fts, valueTags] | .float => by simp [fts, valueTags]
  | .str => by simp [fts, valueTags] | .enum => by simp [fts, valueTags]
  | .obj => by simp [fts, valueTags] | .list _ => by simp [fts, valueTags]
  | .dict _ => by simp [fts, valueTags]
  | .opt t => by
    intro b hb
    simp only [fts, mem_cons] at hb
    rcases hb with rfl | hb
    · simp [valueTags]
    · exact fts_valueTags t b hb

theorem need_valueTags : ∀ t, ∀ b ∈ need t, b ∈ valueTags
  | .int => by simp [need] | .float => by simp [need] | .str => by simp [need]
  | .enum => by simp [need] | .obj => by simp [need]
  | .opt t => by simpa [need] using need_valueTags t
  | .list t => by simpa [need] using need_valueTags t
  | .dict t => by
    intro b hb
    simp only [need, mem_append] at hb
    rcases hb with hb | hb
    · exact fts_valueTags t b hb
    · exact need_valueTags t b hb

theorem valueTags_lt {b : Nat} (h : b ∈ valueTags) : b < 13 := by
  simp only [valueTags, mem_cons, not_mem_nil, or_false] at h; omega

theorem fts_lt (t : STy) {b : Nat} (h : b ∈ fts t) : b < 13 := valueTags_lt (fts_valueTags t b h)
theorem need_lt (t : STy) {b : Nat} (h : b ∈ need t) : b < 13 := valueTags_lt (need_valueTags t b h)

/-- the NAME tag `05` is never a value tag: after a top-level value, `03 name 05 …` is never mistaken
    for a dict item. -/
theorem name_tag_not_needed (t : STy) : 5 ∉ need t := by
  intro h
  have := need_valueTags t 5 h
  simp [valueTags] at this

/-- only (optional) strings start with the STR tag, and they have an empty `need`. -/
theorem need_nil_of_3_mem_fts : ∀ t, 3 ∈ fts t → need t = []
  | .int => by simp [fts] | .float => by simp [fts] | .str => by simp [need]
  | .enum => by simp [fts] | .obj => by simp [fts] | .list _ => by simp [fts]
  | .dict _ => by simp [fts]
  | .opt t => by
    intro h
    simp only [fts, mem_cons] at h
    rcases h with h | h
    · omega
    · simpa [need] using need_nil_of_3_mem_fts t h

/-- a well-typed value starts with a tag of its type's first-tag set. -/
theorem encS_head : ∀ (t : STy) (v : SVal), wt t v → ∃ b r, encS v = b :: r ∧ b ∈ fts t
  | .int, v, h => by obtain ⟨n, rfl, _⟩ := h; simp [encS, fts]
  | .float, v, h => by obtain ⟨n, rfl, _⟩ := h; simp [encS, fts]
  | .str, v, h => by obtain ⟨n, rfl, _⟩ := h; simp [encS, fts]
  | .enum, v, h => by obtain ⟨n, rfl, _⟩ := h; simp [encS, fts]
  | .obj, v, h => by obtain ⟨n, rfl, _⟩ := h; simp [encS, fts]
  | .list _, v, h => by obtain ⟨n, rfl, _⟩ := h; simp [encS, fts]
  | .dict _, v, h => by obtain ⟨ks, vs, rfl, _⟩ := h; simp [encS, fts]
  | .opt t, v, h => by
    rcases h with rfl | h
    · simp [encS, fts]
    · obtain ⟨b, r, hb, hm⟩ := encS_head t v h
      exact ⟨b, r, hb, by simp [fts, hm]⟩

/-- after a value of type `t`, a continuation that starts with another value of type `t` is safe and avoids `need t`. -/
theorem cont_of_head (t : STy) {b : Nat} (r : List Nat) (hb : b ∈ fts t) :
    safe (b :: r) ∧ Avoid (need t) (b :: r) := by
  refine ⟨fts_lt t hb, ?_⟩
  by_cases h3 : b = 3
  · subst h3; rw [need_nil_of_3_mem_fts t hb]; exact avoid_nil_set _
  · exact avoid_of_head_ne3 _ _ _ h3

/-- the injectivity statement at one type. -/
def InjAt (t : STy) : Prop :=
  ∀ (v1 v2 : SVal) (r1 r2 : List Nat), wt t v1 → wt t v2 → safe r1 → safe r2 →
    Avoid (need t) r1 → Avoid (need t) r2 → encS v1 ++ r1 = encS v2 ++ r2 → v1 = v2 ∧ r1 = r2

theorem obj_split {t1 t2 r1 r2 : List Nat} (h1 : wtObj t1) (h2 : wtObj t2)
    (h : t1 ++ r1 = t2 ++ r2) : t1 = t2 ∧ r1 = r2 := by
  rcases h1 with ⟨k1, hk1, rfl⟩ | ⟨d1, rfl⟩ <;> rcases h2 with ⟨k2, hk2, rfl⟩ | ⟨d2, rfl⟩
  · simp only [cons_append, cons.injEq, true_and] at h
    have := pack8_split hk1 hk2 h
    simp [this]
  · simp only [cons_append, cons.injEq, nil_append] at h; omega
  · simp only [cons_append, cons.injEq, nil_append] at h; omega
  · simp only [cons_append, cons.injEq, nil_append] at h
    have : d1 = d2 := by omega
    simp [this, h.2]

/-- list elements, given injectivity at the element type (the number of elements is known). -/
theorem encSL_inj_of (t : STy) (ih : InjAt t) : ∀ (l1 l2 : List SVal) (r1 r2 : List Nat),
    (∀ x ∈ l1, wt t x) → (∀ x ∈ l2, wt t x) → safe r1 → safe r2 →
    Avoid (need t) r1 → Avoid (need t) r2 → l1.length = l2.length →
    encSL l1 ++ r1 = encSL l2 ++ r2 → l1 = l2 ∧ r1 = r2
  | [], [], r1, r2, _, _, _, _, _, _, _, h => by simpa [encSL] using h
  | [], _ :: _, _, _, _, _, _, _, _, _, hl, _ => by simp at hl
  | _ :: _, [], _, _, _, _, _, _, _, _, hl, _ => by simp at hl
  | a :: l1, b :: l2, r1, r2, h1, h2, hr1, hr2, ha1, ha2, hl, h => by
    simp only [encSL, append_assoc] at h
    have hs : ∀ (l : List SVal) (r : List Nat), (∀ x ∈ l, wt t x) → safe r → Avoid (need t) r →
        safe (encSL l ++ r) ∧ Avoid (need t) (encSL l ++ r) := by
      intro l r hl hr ha
      cases l with
      | nil => simpa [encSL] using ⟨hr, ha⟩
      | cons v vs =>
        obtain ⟨b, r', hb, hm⟩ := encS_head t v (hl v (by simp))
        simp only [encSL, hb, cons_append]
        exact cont_of_head t _ hm
    have c1 := hs l1 r1 (fun x hx => h1 x (by simp [hx])) hr1 ha1
    have c2 := hs l2 r2 (fun x hx => h2 x (by simp [hx])) hr2 ha2
    have h' := ih a b _ _ (h1 a (by simp)) (h2 b (by simp)) c1.1 c2.1 c1.2 c2.2 h
    have := encSL_inj_of t ih l1 l2 r1 r2 (fun x hx => h1 x (by simp [hx])) (fun x hx => h2 x (by simp [hx]))
      hr1 hr2 ha1 ha2 (by simpa using hl) h'.2
    simp [h'.1, this]

/-- what follows a value inside a dict: the next item or the outer continuation. -/
theorem dict_cont (t : STy) (hft : ∀ b ∈ fts t, b ∉ need t) :
    ∀ (ks : List (List Nat)) (l : List SVal) (r : List Nat), ks.length = l.length →
      (∀ k ∈ ks, noTag k) → (∀ x ∈ l, wt t x) → safe r → Avoid (fts t ++ need t) r →
      safe (encSKV ks l ++ r) ∧ Avoid (need t) (encSKV ks l ++ r)
  | [], [], r, _, _, _, hr, ha => by
    simp only [encSKV, nil_append]
    exact ⟨hr, ha.mono (fun b hb => by simp [hb])⟩
  | [], _ :: _, _, hl, _, _, _, _ => by simp at hl
  | _ :: _, [], _, hl, _, _, _, _ => by simp at hl
  | k :: ks, v :: vs, r, _, hk, hv, _, _ => by
    obtain ⟨b, r', hb, hm⟩ := encS_head t v (hv v (by simp))
    simp only [encSKV, hb, cons_append, append_assoc]
    refine ⟨by simp [safe], ?_⟩
    intro k' t' rest hk' ht' heq
    simp only [cons_append, cons.injEq, true_and] at heq
    have hsplit := str_split (s1 := k) (s2 := k') (r1 := b :: (r' ++ (encSKV ks vs ++ r)))
      (r2 := t' :: rest) (hk k (by simp)) hk' (fts_lt t hm) (need_lt t ht') heq
    have : b = t' := by have := hsplit.2; simp only [cons.injEq] at this; exact this.1
    exact hft b hm (this ▸ ht')

/-- dict items, given injectivity at the value type. -/
theorem encSKV_inj_of (t : STy) (ih : InjAt t) (hft : ∀ b ∈ fts t, b ∉ need t) :
    ∀ (k1 k2 : List (List Nat)) (l1 l2 : List SVal) (r1 r2 : List Nat),
    k1.length = l1.length → k2.length = l2.length →
    (∀ k ∈ k1, noTag k) → (∀ k ∈ k2, noTag k) → (∀ x ∈ l1, wt t x) → (∀ x ∈ l2, wt t x) →
    safe r1 → safe r2 → Avoid (fts t ++ need t) r1 → Avoid (fts t ++ need t) r2 →
    encSKV k1 l1 ++ r1 = encSKV k2 l2 ++ r2 → (k1 = k2 ∧ l1 = l2) ∧ r1 = r2
  | [], [], [], [], r1, r2, _, _, _, _, _, _, _, _, _, _, h => by simpa [encSKV] using h
  | [], _, _ :: _, _, _, _, hl, _, _, _, _, _, _, _, _, _, _ => by simp at hl
  | _ :: _, _, [], _, _, _, hl, _, _, _, _, _, _, _, _, _, _ => by simp at hl
  | _, [], _, _ :: _, _, _, _, hl, _, _, _, _, _, _, _, _, _ => by simp at hl
  | _, _ :: _, _, [], _, _, _, hl, _, _, _, _, _, _, _, _, _ => by simp at hl
  | [], k :: ks, [], v :: vs, r1, r2, _, _, _, hk2, _, hv2, _, _, ha1, _, h => by
    exfalso
    obtain ⟨b, r', hb, hm⟩ := encS_head t v (hv2 v (by simp))
    simp only [encSKV, nil_append, hb, cons_append, append_assoc] at h
    exact ha1 k b _ (hk2 k (by simp)) (by simp [hm]) h
  | k :: ks, [], v :: vs, [], r1, r2, _, _, hk1, _, hv1, _, _, _, _, ha2, h => by
    exfalso
    obtain ⟨b, r', hb, hm⟩ := encS_head t v (hv1 v (by simp))
    simp only [encSKV, nil_append, hb, cons_append, append_assoc] at h
    exact ha2 k b _ (hk1 k (by simp)) (by simp [hm]) h.symm
  | ka :: ks1, kb :: ks2, va :: vs1, vb :: vs2, r1, r2, hl1, hl2, hk1, hk2, hv1, hv2, hr1, hr2, ha1, ha2, h => by
    obtain ⟨ba, ra, hba, hma⟩ := encS_head t va (hv1 va (by simp))
    obtain ⟨bb, rb, hbb, hmb⟩ := encS_head t vb (hv2 vb (by simp))
    simp only [encSKV, cons_append, append_assoc, cons.injEq, true_and] at h
    have hk1' : ∀ k ∈ ks1, noTag k := fun k hk => hk1 k (by simp [hk])
    have hk2' : ∀ k ∈ ks2, noTag k := fun k hk => hk2 k (by simp [hk])
    have hv1' : ∀ x ∈ vs1, wt t x := fun x hx => hv1 x (by simp [hx])
    have hv2' : ∀ x ∈ vs2, wt t x := fun x hx => hv2 x (by simp [hx])
    have c1 := dict_cont t hft ks1 vs1 r1 (by simpa using hl1) hk1' hv1' hr1 ha1
    have c2 := dict_cont t hft ks2 vs2 r2 (by simpa using hl2) hk2' hv2' hr2 ha2
    have hk := str_split (s1 := ka) (s2 := kb) (hk1 ka (by simp)) (hk2 kb (by simp))
      (by rw [hba]; exact fts_lt t hma) (by rw [hbb]; exact fts_lt t hmb) h
    have hv := ih va vb _ _ (hv1 va (by simp)) (hv2 vb (by simp)) c1.1 c2.1 c1.2 c2.2 hk.2
    have := encSKV_inj_of t ih hft ks1 ks2 vs1 vs2 r1 r2 (by simpa using hl1) (by simpa using hl2)
      hk1' hk2' hv1' hv2' hr1 hr2 ha1 ha2 hv.2
    simp [hk.1, hv.1, this]

theorem encS_ne_none_head : ∀ v : SVal, v ≠ .none → ∀ r r', encS v ++ r ≠ 6 :: r'
  | .none, h, _, _ => absurd rfl h
  | .int _, _, _, _ => by simp [encS]
  | .float _, _, _, _ => by simp [encS]
  | .str _, _, _, _ => by simp [encS]
  | .enum _, _, _, _ => by simp [encS]
  | .list _, _, _, _ => by simp [encS]
  | .dict _ _, _, _, _ => by simp [encS]
  | .obj _, _, _, _ => by simp [encS]
  | .unsupported, _, _, _ => by simp [encS]

/-- **type-directed injectivity of the value encoder** for every `ok` type. -/
theorem encS_inj : ∀ t : STy, ok t → InjAt t
  | .int, _ => by
    intro v1 v2 r1 r2 h1 h2 _ _ _ _ h
    obtain ⟨a, rfl, ha⟩ := h1; obtain ⟨b, rfl, hb⟩ := h2
    simp only [encS, cons_append, cons.injEq, true_and] at h
    have := pack8_split ha hb h
    simp [this]
  | .float, _ => by
    intro v1 v2 r1 r2 h1 h2 _ _ _ _ h
    obtain ⟨a, rfl, ha⟩ := h1; obtain ⟨b, rfl, hb⟩ := h2
    simp only [encS, cons_append, cons.injEq, true_and] at h
    have := pack8_split ha hb h
    simp [this]
  | .str, _ => by
    intro v1 v2 r1 r2 h1 h2 hr1 hr2 _ _ h
    obtain ⟨a, rfl, ha⟩ := h1; obtain ⟨b, rfl, hb⟩ := h2
    simp only [encS, cons_append, cons.injEq, true_and] at h
    have := str_split ha hb hr1 hr2 h
    simp [this]
  | .enum, _ => by
    intro v1 v2 r1 r2 h1 h2 hr1 hr2 _ _ h
    obtain ⟨a, rfl, ha⟩ := h1; obtain ⟨b, rfl, hb⟩ := h2
    simp only [encS, cons_append, cons.injEq, true_and] at h
    have := str_split ha hb hr1 hr2 h
    simp [this]
  | .obj, _ => by
    intro v1 v2 r1 r2 h1 h2 _ _ _ _ h
    obtain ⟨a, rfl, ha⟩ := h1; obtain ⟨b, rfl, hb⟩ := h2
    simp only [encS, cons_append, cons.injEq, true_and] at h
    have := obj_split ha hb h
    simp [this]
  | .opt t, hok => by
    intro v1 v2 r1 r2 h1 h2 hr1 hr2 ha1 ha2 h
    by_cases e1 : v1 = .none
    · by_cases e2 : v2 = .none
      · subst e1; subst e2; simpa [encS] using h
      · subst e1
        exact absurd h.symm (by simpa [encS] using encS_ne_none_head v2 e2 r2 r1)
    · by_cases e2 : v2 = .none
      · subst e2
        exact absurd h (by simpa [encS] using encS_ne_none_head v1 e1 r1 r2)
      · exact encS_inj t hok v1 v2 r1 r2 (h1.resolve_left e1) (h2.resolve_left e2) hr1 hr2 ha1 ha2 h
  | .list t, hok => by
    intro v1 v2 r1 r2 h1 h2 hr1 hr2 ha1 ha2 h
    obtain ⟨a, rfl, hla, hwa⟩ := h1; obtain ⟨b, rfl, hlb, hwb⟩ := h2
    simp only [encS, cons_append, cons.injEq, true_and, append_assoc] at h
    have hl := pack8_split (f64OfNat_lt hla) (f64OfNat_lt hlb) h
    have := encSL_inj_of t (encS_inj t hok) a b r1 r2 hwa hwb hr1 hr2 ha1 ha2
      (f64OfNat_inj hla hlb hl.1) hl.2
    simp [this]
  | .dict t, hok => by
    intro v1 v2 r1 r2 h1 h2 hr1 hr2 ha1 ha2 h
    obtain ⟨ka, a, rfl, hla, hka, hwa⟩ := h1; obtain ⟨kb, b, rfl, hlb, hkb, hwb⟩ := h2
    simp only [encS, cons_append, cons.injEq, true_and] at h
    have := encSKV_inj_of t (encS_inj t hok.1) hok.2 ka kb a b r1 r2 hla hlb hka hkb hwa hwb hr1 hr2 ha1 ha2 h
    simp [this]

/-- no dict inside the type (through optionals and lists). -/
def dictFree : STy → Bool
  | .opt t => dictFree t
  | .list t => dictFree t
  | .dict _ => false
  | _ => true

/-- a dict-free type leaves no dict open at its right end. -/
theorem dict_free_need : ∀ t, dictFree t = true → need t = [] ∧ ok t
  | .int, _ => ⟨rfl, trivial⟩ | .float, _ => ⟨rfl, trivial⟩ | .str, _ => ⟨rfl, trivial⟩
  | .enum, _ => ⟨rfl, trivial⟩ | .obj, _ => ⟨rfl, trivial⟩
  | .opt t, h => by simpa [need, ok] using dict_free_need t (by simpa [dictFree] using h)
  | .list t, h => by simpa [need, ok] using dict_free_need t (by simpa [dictFree] using h)
  | .dict _, h => by simp [dictFree] at h

end XpmVerif.Ident
