import XpmVerif.Proofs.RunnerLockIds
import XpmVerif.Properties.C10Src
/-! C10 / C05 / C16 — the run lock with inode identity (`Model/RunnerLockIds.lean`), a refinement of the abstract holder of `Model/Runner.lean`.

    * without `unlink` the name ↦ inode map is constant, every descriptor is on the named inode, at most one process holds the lock, and
      the abstract lock (`abs` = holder of the named inode) evolves exactly like `Shared.lock` under `tryLock` / `release`: the abstract
      model is a faithful quotient, `C10.mutual_exclusion` (which is keyed on `sh.lock = some (.run k)`) transfers;
    * the source never unlinks: the lock operations behind every generated path contain no `unlink` (`C10Src.no_lock_file_io`);
    * with `unlink` (seeded change C10g: `cleanup` removes the lock file before releasing it) three launches with a failure in between
      give two holders — kernel-checked counter-example; two launches alone do not show it. -/
namespace XpmVerif.C10LockIds
open XpmVerif.Runner (Holder Eff)
open XpmVerif.RunnerLockIds

/-- **the name ↦ inode map is constant**: whatever the processes do to the lock (open, acquire, release, die), as long as nobody
    removes the name it keeps pointing to the inode it pointed to. -/
theorem name_map_constant_without_unlink (ops : List Op) (fs : FS) (hn : noUnlink ops) (i : Nat) (h : fs.name = some i) :
    (run fs ops).name = some i := name_run ops fs hn i h

/-- **mutual exclusion on inodes, without unlink**: after any sequence of lock operations of any number of processes that contains no
    `unlink`, two processes that hold the run lock are the same process. -/
theorem mutual_exclusion_without_unlink (ops : List Op) (hn : noUnlink ops) (h1 h2 : Holder)
    (a : holds (run {} ops) h1) (b : holds (run {} ops) h2) : h1 = h2 := by
  have inv := inv_run ops {} hn inv_init
  have e1 := (holds_iff_abs _ inv h1).mp a
  have e2 := (holds_iff_abs _ inv h2).mp b
  rw [e1] at e2; exact Option.some.inj e2

/-- **the abstract lock is a faithful quotient** (so `C10.mutual_exclusion`, `bodies_running_le_one`, `no_body_after_done` transfer): in
    every state reached without `unlink`, (a) a process holds the lock iff the abstract lock names it, (b) open + acquire by a process
    that has nothing open is the abstract `tryLock` (taken iff free), (c) release / close / death is the abstract `release`. -/
theorem abstract_lock_is_faithful_quotient (ops : List Op) (hn : noUnlink ops) :
    let fs := run {} ops
    (∀ h, holds fs h ↔ abs fs = some h)
    ∧ (∀ h, fs.fd h = none → abs (run fs [.openL h, .acquire h]) = if abs fs = none then some h else abs fs)
    ∧ (∀ h, abs (step fs (.releaseL h)) = if abs fs = some h then none else abs fs) := by
  have inv := inv_run ops {} hn inv_init
  exact ⟨holds_iff_abs _ inv, abs_tryLock _ inv, abs_release _ inv⟩

/-- **the source never removes the lock name**: the lock operations behind every generated path of a job process (any process `h`)
    contain no `unlink` — the hypothesis of the three theorems above holds for the code as it is. -/
theorem source_paths_never_unlink (h : Holder) : ∀ p ∈ C10Src.wholePaths, noUnlink (opsOf h p) := by
  intro p hp
  exact opsOf_noUnlink h p (C10Src.no_lock_file_io.1 p hp).2

/-- L1 runs the body; L2 queues on the lock; L1 ends without success marker: its clean-up unlinks the lock file, then releases; L2 gets
    the orphaned inode; L3 starts while L2 runs: the path names nothing, a fresh inode is created and locked at once. -/
def threeLaunches : List Op :=
  [.openL (.run 1), .acquire (.run 1),            -- L1 holds inode 0
   .openL (.run 2), .acquire (.run 2),            -- L2 queued on inode 0 (not granted)
   .unlink, .releaseL (.run 1),                   -- L1's clean-up: unlink, release
   .acquire (.run 2),                             -- L2 granted inode 0 (orphaned)
   .openL (.run 3), .acquire (.run 3)]            -- L3: fresh inode 1, granted

/-- **with `unlink`, mutual exclusion fails** (seeded change C10g / C05c / C16-lockunlink): after `threeLaunches` processes 2 and 3 hold
    the run lock together (on inodes 0 and 1), and the abstract lock only knows about process 3. -/
theorem unlink_breaks_mutual_exclusion :
    let fs := run {} threeLaunches
    fs.fd (.run 2) = some 0 ∧ fs.holder 0 = some (.run 2) ∧ fs.fd (.run 3) = some 1 ∧ fs.holder 1 = some (.run 3)
    ∧ abs fs = some (.run 3) ∧ Holder.run 2 ≠ Holder.run 3 := by decide

/-- two launches alone do not show it: after L1 (unlink, release) and L2 on the orphaned inode only L2 holds a lock. -/
theorem two_launches_show_nothing :
    let fs := run {} (threeLaunches.take 7)
    fs.holder 0 = some (.run 2) ∧ fs.holder 1 = none ∧ fs.fd (.run 1) = none := by decide

/-- non-vacuity: a non-trivial sequence without unlink (the same three launches without the removal): L2 is granted after L1's release,
    L3 stays queued on the same inode. -/
example : noUnlink (threeLaunches.filter (· != .unlink)) ∧
    (run {} (threeLaunches.filter (· != .unlink))).holder 0 = some (.run 2) ∧ (run {} (threeLaunches.filter (· != .unlink))).fd (.run 3) = some 0
    ∧ (run {} (threeLaunches.filter (· != .unlink))).holder 1 = none := by
  refine ⟨by simp [noUnlink, threeLaunches], by decide, by decide, by decide⟩

end XpmVerif.C10LockIds
