"""Worker (C07, real API): programs made of several experiments run one after the other by the same process, a later
experiment re-using task objects of an earlier one (a notebook, a script made of phases).

usage: python -m xv.impl.c07x_phases_worker <in.json> <out.json>
in:  {"cases": [program], "case_timeout": seconds}
     program: {"tasks": [{"val": int, "ups": [[t, "list"|"dict"|"held"]], "root": r}],     r: first task with this configuration
               "codes": {"<r>": [exit code of the 1st, 2nd, ... process started for that configuration]},
               "phases": [{"name": str, "steps": [{"t": index} | {"wait": true}], "xp": optional key}]}
     phases with the same "xp" key are successive `with xp:` blocks on the SAME experiment object (built when the key is first
     met, with the name of that phase); without a key every phase builds its own `experiment(...)`
out: [{"phases": [{"exit": "ok"|<exception class>, "msg", "hang": bool, "waits": ["ok"|<exception class>],
                   "submitted": [t], "submit_error": {t: str}, "started": {t: [exit codes of the processes started in this phase]},
                   "states": {t: final state name of the job of every task submitted so far, read when the phase was left}}],
      "idents": {t: identifier}, "error": None|str}]

Every experiment is a real `with experiment(workdir, name, port=-1, launcher=...)` block on the same working directory; the
launcher is an `InstantLauncher` (public extension points `Launcher`/`ProcessBuilder`/`Process`): `aio_run` goes through the
real `CommandLineJob.aio_run` (script + pid file), the "process" ends at once, writing the markers the job script would write
and returning the exit code the program prescribes.  Nothing depends on timing: only what is true once an experiment has
been left is recorded.
"""
import contextlib
import io
import json
import shutil
import signal
import sys
import tempfile
import traceback
from pathlib import Path


class Hang(BaseException):
    pass


def main():
    import logging
    logging.disable(logging.CRITICAL)
    from experimaestro import experiment
    from experimaestro.connectors import Process, ProcessBuilder
    from experimaestro.connectors.local import LocalConnector
    from experimaestro.launchers.direct import DirectLauncher
    from . import c07x_tasks as T

    started = {}   # identifier -> exit codes of the processes started for it in the current phase
    nstart = {}    # identifier -> number of processes started for it since the beginning of the program
    codes_of = {}  # identifier -> prescribed exit codes

    class InstantProcess(Process):
        def __init__(self, script, code):
            self.script = Path(script)
            self.code = code

        def wait(self):
            p = self.script.with_suffix(".pid")
            if p.exists():
                p.unlink()
            if self.code != 0:
                self.script.with_suffix(".failed").write_text(str(self.code))
            else:
                self.script.with_suffix(".done").touch()
            return self.code

        def tospec(self):
            return {"type": "local", "pid": 4194000}

    class InstantBuilder(ProcessBuilder):
        def start(self, task_mode=False):
            script = Path(self.command[-1])
            ident = script.parent.name
            k = nstart.get(ident, 0)
            nstart[ident] = k + 1
            cs = codes_of.get(ident, [0])
            code = cs[min(k, len(cs) - 1)]
            started.setdefault(ident, []).append(code)
            return InstantProcess(script, code)

    class InstantLauncher(DirectLauncher):
        def processbuilder(self):
            return InstantBuilder()

    def on_alarm(signum, frame):
        raise Hang()

    signal.signal(signal.SIGALRM, on_alarm)
    data = json.loads(Path(sys.argv[1]).read_text())
    root = Path(tempfile.mkdtemp(prefix="xvc07x-"))
    out = []
    try:
        for ci, prog in enumerate(data["cases"]):
            rec = {"phases": [], "idents": {}, "error": None}
            started.clear()
            nstart.clear()
            codes_of.clear()
            try:
                ws = root / f"ws{ci}"
                ws.mkdir()
                objs = {}
                xps = {}   # "xp" key -> experiment object entered again by later phases
                tasks = prog["tasks"]

                def build(t):
                    ts = tasks[t]
                    kw = {"val": ts["val"]}
                    lst = [objs[u] for u, how in ts["ups"] if how == "list"]
                    dct = {f"k{u}": objs[u] for u, how in ts["ups"] if how == "dict"}
                    held = [objs[u] for u, how in ts["ups"] if how == "held"]
                    if lst:
                        kw["ups"] = lst
                    if dct:
                        kw["named"] = dct
                    if held:
                        kw["held"] = T.Holder(items=held)
                    return T.Node(**kw)

                aborted = False
                for pi, ph in enumerate(prog["phases"]):
                    if aborted:
                        break
                    started.clear()
                    prec = {"exit": "ok", "msg": "", "hang": False, "waits": [], "submitted": [], "submit_error": {}}
                    with contextlib.redirect_stderr(io.StringIO()):
                        signal.alarm(int(data.get("case_timeout", 60)))
                        try:
                            key = ph.get("xp")
                            xpo = xps.get(key) if key is not None else None
                            if xpo is None:
                                xpo = experiment(ws, ph["name"], port=-1, launcher=InstantLauncher(LocalConnector(ws / "conn")))
                                if key is not None:
                                    xps[key] = xpo
                            with xpo as xp:
                                for st in ph["steps"]:
                                    if st.get("wait"):
                                        try:
                                            xp.wait()
                                            prec["waits"].append("ok")
                                        except Exception as e:
                                            prec["waits"].append(type(e).__name__)
                                        continue
                                    t = st["t"]
                                    try:
                                        o = build(t)
                                        ident = o.__xpm__.identifier.all.hex()
                                        rec["idents"][str(t)] = ident
                                        codes_of[ident] = prog["codes"].get(str(tasks[t]["root"]), [0])
                                        o.submit()
                                        objs[t] = o
                                        prec["submitted"].append(t)
                                    except Exception as e:
                                        prec["submit_error"][str(t)] = f"{type(e).__name__}: {e}"[:300]
                                        raise
                        except Hang:
                            prec["hang"] = True
                            aborted = True
                        except Exception as e:
                            prec["exit"] = type(e).__name__
                            prec["msg"] = str(e)[:200]
                            if prec["submit_error"]:
                                aborted = True
                        finally:
                            signal.alarm(0)
                    prec["started"] = {str(t): list(started.get(rec["idents"][str(t)], [])) for t in prec["submitted"]}
                    prec["states"] = {str(t): (o.job.state.name if o.job is not None else None) for t, o in objs.items()}
                    rec["phases"].append(prec)
            except Exception as e:
                rec["error"] = f"{type(e).__name__}: {e}"
                rec["trace"] = traceback.format_exc()[-1200:]
            out.append(rec)
    finally:
        shutil.rmtree(root, ignore_errors=True)
    Path(sys.argv[2]).write_text(json.dumps(out))


if __name__ == "__main__":
    main()
