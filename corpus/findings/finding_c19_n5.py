"""stand-alone witness of C19-N5 (unchanged /repo): `jobs clean --ready` / `jobs list --ready` raise as soon as
`<workspace>/jobs/<type>/` holds an entry that is not a directory — a dangling symbolic link (what is left of a link
created by `deprecated list --fix` once its target was cleaned) or a plain file.  The `else` branch of `process()`
prints `job_path`, a leftover of the *first* loop (UnboundLocalError when no experiment has an index link), and the
statements after it use `info.tags` / `info.state` with `info = None` (AttributeError).  `jobs clean --perform --ready`
thus stops mid-way: the finished jobs enumerated after the stray entry are not cleaned.
Public CLI through click's runner.  exit 1 = defect shows, 0 = not."""
import json
import logging
import shutil
import sys
import tempfile
import warnings
from pathlib import Path

warnings.filterwarnings("ignore")
from click.testing import CliRunner  # noqa: E402
from experimaestro.cli import cli  # noqa: E402
import experimaestro.cli.jobs  # noqa: E402,F401  (registers the `jobs` group)

TYPES = ["a.t", "b.t", "c.t", "d.t"]


def workspace(root, stray, with_experiment):
    ws = root / "ws"
    (ws / "xp").mkdir(parents=True)
    (ws / ".__experimaestro__").touch()
    for ty in TYPES:  # two finished jobs per task type
        for i in ("0a1", "zz9"):
            d = ws / "jobs" / ty / i
            d.mkdir(parents=True)
            (d / "params.json").write_text(json.dumps({"tags": {"model": "bm25"}}))
            (d / "t.done").touch()
    for ty in TYPES:  # one stray entry per type directory, whatever the enumeration order
        if stray == "dangling-link":
            (ws / "jobs" / ty / "m00").symlink_to(ws / "jobs" / ty / "cleaned-earlier")
        else:
            (ws / "jobs" / ty / "m00").write_text("not a job directory")
    if with_experiment:  # an experiment whose index names one job: `job_path` is then bound by the first loop
        p = ws / "xp" / "e1" / "jobs" / "a.t" / "0a1"
        p.parent.mkdir(parents=True)
        p.symlink_to(ws / "jobs" / "a.t" / "0a1")
    return ws


def run(stray, with_experiment, args):
    root = Path(tempfile.mkdtemp(prefix="c19n5-"))
    ws = workspace(root, stray, with_experiment)
    logging.disable(logging.CRITICAL)
    res = CliRunner().invoke(cli, ["jobs", "--workdir", str(ws)] + args)
    logging.disable(logging.NOTSET)
    left = sorted(f"{p.parent.name}/{p.name}" for p in (ws / "jobs").glob("*/*") if p.is_dir())
    shutil.rmtree(root, ignore_errors=True)
    exc = res.exception if res.exception is not None and not (isinstance(res.exception, SystemExit) and res.exit_code == 0) else None
    return exc, left


rc = 0
for stray in ("dangling-link", "plain-file"):
    for with_experiment in (False, True):
        for args in (["clean", "--perform", "--ready"], ["list", "--ready"], ["list", "--ready", "--tags"]):
            exc, left = run(stray, with_experiment, args)
            bad = exc is not None or (args[0] == "clean" and left)
            print(f"{'DEFECT' if bad else 'ok    '} jobs {' '.join(args):24} stray={stray:13} experiment={'yes' if with_experiment else 'no '}"
                  f" -> {type(exc).__name__ + ': ' + str(exc)[:70] if exc is not None else 'no exception'}"
                  + (f"; finished jobs left uncleaned: {len(left)}/8" if args[0] == "clean" else ""))
            rc |= bool(bad)
print("C19-N5 shows" if rc else "C19-N5 does not show")
sys.exit(rc)
