import XpmVerif.Model.SerialData
import XpmVerif.Proofs.SerialLoad
namespace XpmVerif.Serial
open XpmVerif.Ident

theorem renameArg_name (dfl : DFlags) (data : List (List Nat)) (pos : Nat) (a : Arg) :
    (renameArg dfl data pos a).name = a.name := by
  unfold renameArg; split <;> rfl

theorem renameArg_reset (dfl : DFlags) (data : List (List Nat)) (pos : Nat) (a : Arg) :
    reset (renameArg dfl data pos a) = reset a := by
  unfold renameArg; split <;> rfl

theorem renameArg_flags (dfl : DFlags) (data : List (List Nat)) (pos : Nat) (a : Arg) :
    (renameArg dfl data pos a).required = a.required ∧ (renameArg dfl data pos a).default = a.default := by
  unfold renameArg; split <;> exact ⟨rfl, rfl⟩

theorem renameArg_refs (dfl : DFlags) (data : List (List Nat)) (pos : Nat) (a : Arg) :
    cfgRefs (renameArg dfl data pos a).value = cfgRefs a.value := by
  unfold renameArg
  split
  · next h => simp only [h, cfgRefs]
  · rfl

theorem cfgRefsL_rename (dfl : DFlags) (data : List (List Nat)) (pos : Nat) : ∀ (l : List Arg),
    cfgRefsL ((l.map (renameArg dfl data pos)).map (·.value)) = cfgRefsL (l.map (·.value))
  | [] => rfl
  | a :: r => by
    simp only [List.map_cons, cfgRefsL]
    rw [renameArg_refs, cfgRefsL_rename dfl data pos r]

/-- the node of the graph written into a save directory -/
def savedNode (dfl : DFlags) (lib : List Cls) (sg : SGraph) (order : List Nat) (n : Nat) : Node :=
  let nd := sg.g.node n
  if order.contains n then
    { nd with args := nd.args.map (renameArg dfl (dataNames lib sg n) (posOf order n)) }
  else nd

theorem savedGraph_size (dfl : DFlags) (lib : List Cls) (sg : SGraph) (order : List Nat) :
    (savedGraph dfl lib sg order).g.size = sg.g.size := by
  simp [savedGraph, Graph.size]

theorem savedGraph_node (dfl : DFlags) (lib : List Cls) (sg : SGraph) (order : List Nat) (n : Nat) :
    (savedGraph dfl lib sg order).g.node n = savedNode dfl lib sg order n := by
  by_cases hn : n < sg.g.size
  · simp only [savedGraph, Graph.node, List.getD_eq_getElem?_getD]
    rw [List.getElem?_map, List.getElem?_range (by simpa [Graph.size] using hn)]
    rfl
  · have hd : sg.g.node n = { typeId := [], args := [] } := by
      simp only [Graph.node, List.getD_eq_getElem?_getD]
      rw [List.getElem?_eq_none (by simpa [Graph.size] using hn)]; rfl
    have : (savedGraph dfl lib sg order).g.node n = { typeId := [], args := [] } := by
      simp only [savedGraph, Graph.node, List.getD_eq_getElem?_getD]
      rw [List.getElem?_eq_none (by simpa [Graph.size] using hn)]; rfl
    rw [this]
    unfold savedNode
    simp only [hd]
    split <;> rfl

theorem savedGraph_succAll (dfl : DFlags) (lib : List Cls) (sg : SGraph) (order : List Nat) :
    succAll (savedGraph dfl lib sg order).g = succAll sg.g := by
  funext n
  simp only [succAll, savedGraph_node, argRefs]
  unfold savedNode
  by_cases h : order.contains n = true
  · simp only [h, if_true, cfgRefsL_rename]
  · simp only [h, if_false, Bool.false_eq_true]

theorem savedGraph_order (dfl : DFlags) (lib : List Cls) (sg : SGraph) (order roots : List Nat) :
    serialOrder (savedGraph dfl lib sg order).g roots = serialOrder sg.g roots := by
  simp only [serialOrder, savedGraph_succAll, savedGraph_size]

theorem savedGraph_wf (dfl : DFlags) (lib : List Cls) (sg : SGraph) (order : List Nat) (hwf : WF sg.g) :
    WF (savedGraph dfl lib sg order).g := by
  intro n hn m hm
  rw [savedGraph_size] at hn ⊢
  rw [savedGraph_succAll] at hm
  exact hwf n hn m hm

theorem savedGraph_needed (dfl : DFlags) (lib : List Cls) (sg : SGraph) (order roots : List Nat) (n : Nat) :
    Needed (savedGraph dfl lib sg order).g roots n ↔ Needed sg.g roots n := by
  simp only [Needed, savedGraph_succAll]

theorem savedGraph_nodeOk (dfl : DFlags) (lib : List Cls) (sg : SGraph) (order : List Nat) (n : Nat)
    (hok : NodeOk lib sg n) : NodeOk lib (savedGraph dfl lib sg order) n := by
  have hcls : (savedGraph dfl lib sg order).cls n = sg.cls n := rfl
  obtain ⟨c, hc, hty, hargs⟩ := hok.cls
  constructor
  · refine ⟨c, by rw [hcls]; exact hc, ?_, ?_⟩
    · rw [savedGraph_node]; unfold savedNode; split <;> exact hty
    · rw [savedGraph_node]; unfold savedNode
      split
      · simp only [List.map_map]
        rw [hargs]
        apply List.map_congr_left
        intro a _
        exact (renameArg_reset _ _ _ a).symm
      · exact hargs
  · rw [savedGraph_node]; unfold savedNode
    split
    · simp only [List.map_map]
      have : ((fun x : Arg => x.name) ∘ renameArg dfl (dataNames lib sg n) (posOf order n)) = (fun x => x.name) := by
        funext a; exact renameArg_name _ _ _ a
      rw [this]; exact hok.names
    · exact hok.names
  · rw [savedGraph_node]; unfold savedNode
    split
    · intro a ha hreq
      obtain ⟨a0, ha0, rfl⟩ := List.mem_map.1 ha
      have := renameArg_flags dfl (dataNames lib sg n) (posOf order n) a0
      rw [this.2]
      exact hok.req a0 ha0 (this.1 ▸ hreq)
    · exact hok.req
end XpmVerif.Serial
