import XpmVerif.Proofs.XpIndex
/-! C16 — the experiment's job index lists exactly the jobs of the last completed plan.

    Property theorems only, about the model `XpmVerif.XpIndex` (M7) of `xp/<name>/jobs`,
    `xp/<name>/jobs.bak`, `xp/<name>/lock`.  A *history* is any list of operations
    (`enter p`, `submit p l`, `exitOk p`, `exitExc p`, `killed p`, and the two deaths inside `__enter__` /
    `__exit__`: `killedEntering p moved`, `killedExiting p removed`) by any number of processes, applied to
    the empty experiment (`run ops init`).  Every theorem quantifies over all histories. -/
namespace XpmVerif.C16
open XpmVerif.XpIndex

/-- **C16, first sentence** ("When an experiment block ends without an exception, its job folder links
    exactly the jobs submitted during that run, each to its job directory, and no backup index remains").
    After any history `pre` that leaves the experiment unlocked, a run of process `p` — `enter p`, then any
    operations `body` that do not end `p`'s block (its own submissions, and whatever other processes attempt
    meanwhile), then `exitOk p` — leaves `jobs` = exactly one link `l ↦ directory of l` per job `l`
    submitted by `p` in `body`, no `jobs.bak`, and the lock free. -/
theorem clean_exit_exact (pre body : List Op) (p : Proc)
    (hfree : (run pre init).lock = none) (hbody : ∀ op, op ∈ body → op.keeps p = true) :
    let s' := run (pre ++ Op.enter p :: body ++ [Op.exitOk p]) init
    s'.bak = none ∧ s'.lock = none ∧ s'.inside = [] ∧
    (∀ e, e ∈ s'.jobs ↔ (e.name ∈ submitted p body ∧ e.target = e.name)) := by
  intro s'
  obtain ⟨S, hrun, hinv, hl, _, _, _, _, _, hjobs⟩ := run_shape pre body p hfree hbody
  have : s' = step S (Op.exitOk p) := hrun _
  rw [this, exitOk_inside hinv hl]
  exact ⟨rfl, rfl, rfl, hjobs⟩

/-- **C16, second sentence, first half** ("If the block raises, the previous index is kept as backup").
    Same setting, but the block of `p` ends by an exception or by the death of `p` inside the block:
    `jobs.bak` exists and holds exactly the links that `jobs` and `jobs.bak` held before the run (an existing
    backup is *merged into*, never replaced); `jobs` holds the links of the jobs the aborted run submitted;
    the lock is free again. -/
theorem backup_kept (pre body : List Op) (p : Proc) (fin : Op)
    (hfree : (run pre init).lock = none) (hbody : ∀ op, op ∈ body → op.keeps p = true)
    (hfin : fin = Op.exitExc p ∨ fin = Op.killed p) :
    let s0 := run pre init
    let s' := run (pre ++ Op.enter p :: body ++ [fin]) init
    (∃ b, s'.bak = some b ∧ ∀ e, e ∈ b ↔ (e ∈ s0.jobs ∨ e ∈ bakList s0)) ∧
    s'.lock = none ∧ s'.inside = [] ∧
    (∀ e, e ∈ s'.jobs ↔ (e.name ∈ submitted p body ∧ e.target = e.name)) := by
  intro s0 s'
  have h0 := inv_reach pre
  obtain ⟨S, hrun, hinv, hl, hbak, _, _, _, _, hjobs⟩ := run_shape pre body p hfree hbody
  have : s' = step S fin := hrun _
  rw [this, abort_inside hinv hl fin hfin]
  refine ⟨⟨moveAll (bakList s0) s0.jobs, hbak, ?_⟩, rfl, rfl, hjobs⟩
  intro e
  constructor
  · intro he
    rcases mem_moveAll he with h | h
    · exact Or.inr h
    · exact Or.inl h
  · rintro (h | h)
    · exact mem_moveAll_of_jobs (fun x hx => h0.targeted x (by simp only [indexed, List.mem_append]; exact Or.inr hx))
        (fun x hx => h0.targeted x (by simp only [indexed, List.mem_append]; exact Or.inl hx)) h
    · exact mem_moveAll_of_bak h

/-- **Several aborted runs in a row** (what `__enter__` does when `jobs.bak` already exists: it moves the
    links of `jobs` *into* it, dropping only same-named duplicates).  After two consecutive aborted runs
    (by `p` then `q`), the backup holds everything that was indexed before the first of them *and* the links
    of the jobs submitted by the first aborted run; `jobs` holds those of the second. Nothing is dropped. -/
theorem aborts_accumulate (pre body1 body2 : List Op) (p q : Proc) (fin1 fin2 : Op)
    (hfree : (run pre init).lock = none)
    (hb1 : ∀ op, op ∈ body1 → op.keeps p = true) (hb2 : ∀ op, op ∈ body2 → op.keeps q = true)
    (hf1 : fin1 = Op.exitExc p ∨ fin1 = Op.killed p) (hf2 : fin2 = Op.exitExc q ∨ fin2 = Op.killed q) :
    let s0 := run pre init
    let s' := run ((pre ++ Op.enter p :: body1 ++ [fin1]) ++ Op.enter q :: body2 ++ [fin2]) init
    (∃ b, s'.bak = some b ∧
      ∀ e, e ∈ b ↔ (e ∈ s0.jobs ∨ e ∈ bakList s0 ∨ (e.name ∈ submitted p body1 ∧ e.target = e.name))) ∧
    (∀ e, e ∈ s'.jobs ↔ (e.name ∈ submitted q body2 ∧ e.target = e.name)) := by
  intro s0 s'
  obtain ⟨⟨b1, hb1eq, hb1m⟩, hl1, _, hj1⟩ := backup_kept pre body1 p fin1 hfree hb1 hf1
  obtain ⟨⟨b2, hb2eq, hb2m⟩, _, _, hj2⟩ :=
    backup_kept (pre ++ Op.enter p :: body1 ++ [fin1]) body2 q fin2 hl1 hb2 hf2
  refine ⟨⟨b2, hb2eq, ?_⟩, hj2⟩
  intro e
  rw [hb2m, hj1]
  simp only [bakList, hb1eq, Option.getD_some, hb1m]
  grind

/-- **C16, second sentence, second half** ("… so that jobs of the last completed plan and jobs the aborted
    run had begun to schedule are never reported as orphans").  In every reachable state — after any number
    of completed runs, aborted runs, deaths (also inside `__enter__` and `__exit__`) and lock contention —
    no job of the last completed plan (`plan`), of a run aborted since (`aborted`) or of the run in progress
    (`cur`) is in the output of `orphans`, whatever job directories exist. -/
theorem never_orphaned (ops : List Op) (dirs : List Link) (l : Link) :
    let s := run ops init
    (l ∈ s.plan ∨ l ∈ s.aborted ∨ l ∈ s.cur) → l ∉ orphans s dirs := by
  intro s hl
  have h := inv_reach ops
  have hex := (h.exact l).2 (by grind)
  intro hmem
  simp only [orphans, List.mem_filter, Bool.not_eq_eq_eq_not, Bool.not_true,
    List.contains_eq_mem, decide_eq_false_iff_not] at hmem
  obtain ⟨hd, hnr⟩ := hmem
  apply hnr
  have : ∃ e, e ∈ indexed s ∧ e.name = l := by
    rcases hex with h' | h'
    · obtain ⟨e, he, hn⟩ := mem_names.1 h'
      exact ⟨e, List.mem_append.2 (Or.inl he), hn⟩
    · obtain ⟨e, he, hn⟩ := mem_names.1 h'
      exact ⟨e, List.mem_append.2 (Or.inr he), hn⟩
  obtain ⟨e, he, hn⟩ := this
  have ht := h.targeted e he
  simp only [referenced, List.mem_map, List.mem_filter, List.contains_eq_mem, decide_eq_true_eq]
  exact ⟨e, ⟨he, by rw [ht, hn]; exact hd⟩, hn⟩

/-- **The index protects nothing else**: a name is linked in `jobs` or `jobs.bak` iff it belongs to the
    last completed plan, to a run aborted since, to the run in progress, or was left behind by a death
    inside `rmtree(jobs.bak)` (`junk`, see `junk_nil`). With `never_orphaned` this characterises `orphans`. -/
theorem index_exact (ops : List Op) (n : Link) :
    let s := run ops init
    (n ∈ names s.jobs ∨ n ∈ names (bakList s)) ↔ (n ∈ s.plan ∨ n ∈ s.aborted ∨ n ∈ s.cur ∨ n ∈ s.junk) :=
  (inv_reach ops).exact n

/-- `junk` is empty in every history without a death inside `__exit__`. -/
theorem junk_nil (ops : List Op) (h : ∀ p rm, Op.killedExiting p rm ∉ ops) : (run ops init).junk = [] := by
  suffices ∀ (s : St), s.junk = [] → (∀ p rm, Op.killedExiting p rm ∉ ops) → (run ops s).junk = [] from
    this init rfl h
  induction ops with
  | nil => intro s hs _; exact hs
  | cons op ops ih =>
    intro s hs hn
    rw [run_cons]
    apply ih (fun p rm hm => h p rm (by simp [hm])) _ _ (fun p rm hm => hn p rm (by simp [hm]))
    cases op with
    | killedExiting p rm => exact absurd (by simp) (hn p rm)
    | enter p => simp only [step]; split <;> simp [hs]
    | submit p l => simp only [step]; split <;> simp [hs]
    | exitOk p => simp only [step]; split <;> simp [hs]
    | exitExc p => simp only [step]; split <;> simp [hs]
    | killed p => simp only [step]; split <;> simp [hs]
    | killedEntering p mv => simp only [step]; split <;> simp [hs]

/-- **Meaning of the ghost fields** used by `never_orphaned`: after a run of `p` that ends without an
    exception, `plan` is what `p` submitted and `aborted` is empty; after a run that ends by an exception or
    a death, `plan` is unchanged and `aborted` has grown by what `p` submitted. -/
theorem ghost_meaning (pre body : List Op) (p : Proc) (fin : Op)
    (hfree : (run pre init).lock = none) (hbody : ∀ op, op ∈ body → op.keeps p = true) :
    let s0 := run pre init
    let s' := run (pre ++ Op.enter p :: body ++ [fin]) init
    (fin = Op.exitOk p → (∀ n, n ∈ s'.plan ↔ n ∈ submitted p body) ∧ s'.aborted = [] ∧ s'.cur = []) ∧
    ((fin = Op.exitExc p ∨ fin = Op.killed p) →
      s'.plan = s0.plan ∧ (∀ n, n ∈ s'.aborted ↔ n ∈ s0.aborted ∨ n ∈ submitted p body) ∧ s'.cur = []) := by
  intro s0 s'
  obtain ⟨S, hrun, hinv, hl, _, hplan, habt, _, hcur, _⟩ := run_shape pre body p hfree hbody
  have hs : s' = step S fin := hrun _
  constructor
  · rintro rfl
    rw [hs, exitOk_inside hinv hl]
    exact ⟨hcur, rfl, rfl⟩
  · intro hfin
    rw [hs, abort_inside hinv hl fin hfin]
    refine ⟨hplan, fun n => ?_, rfl⟩
    simp only [List.mem_append, habt, hcur, s0]

/-- **C16, third sentence** ("Two processes cannot hold the same experiment of the same workspace at
    once").  In every reachable state at most one process is inside the block, and it is the holder of the
    lock. -/
theorem xp_lock_exclusive (ops : List Op) :
    let s := run ops init
    (∀ p q, p ∈ s.inside → q ∈ s.inside → p = q) ∧ s.inside.length ≤ 1 ∧ s.inside = s.lock.toList := by
  intro s
  have h := (inv_reach ops).lockInside
  refine ⟨?_, ?_, h⟩
  · intro p q hp hq
    rw [h] at hp hq
    cases hl : s.lock <;> simp_all
  · rw [h]; cases s.lock <;> simp

/-- … and an `enter` attempted while any process holds the experiment changes nothing (it waits). -/
theorem enter_blocked (ops : List Op) (p q : Proc) (h : (run ops init).lock = some q) :
    step (run ops init) (Op.enter p) = run ops init := by
  simp [step, h]

/-- A process that dies inside `__enter__` (lock taken, some links already moved) loses no link: the names
    indexed by `jobs ∪ jobs.bak` are the same before and after. -/
theorem interrupted_enter_loses_nothing (ops : List Op) (p : Proc) (moved : List Link) (n : Link) :
    let s := run ops init
    let s' := step s (Op.killedEntering p moved)
    (n ∈ names s'.jobs ∨ n ∈ names (bakList s')) ↔ (n ∈ names s.jobs ∨ n ∈ names (bakList s)) := by
  intro s s'
  have h := inv_reach ops
  have h' := inv_step h (Op.killedEntering p moved)
  rw [h.exact n, h'.exact n]
  simp only [step]
  split <;> rfl

/-- **Death inside `__exit__`** (the block ended without an exception, the process dies while
    `rmtree(jobs.bak)` is at work, having removed any subset `removed` of the backup's links): the run's
    plan is complete — `jobs` holds exactly its links and it becomes the last completed plan — and what is
    left of the backup is a subset of the previous index; the lock is free. -/
theorem interrupted_exit (pre body : List Op) (p : Proc) (removed : List Link)
    (hfree : (run pre init).lock = none) (hbody : ∀ op, op ∈ body → op.keeps p = true) :
    let s0 := run pre init
    let s' := run (pre ++ Op.enter p :: body ++ [Op.killedExiting p removed]) init
    (∀ e, e ∈ s'.jobs ↔ (e.name ∈ submitted p body ∧ e.target = e.name)) ∧
    (∃ b, s'.bak = some b ∧ ∀ e, e ∈ b ↔ ((e ∈ s0.jobs ∨ e ∈ bakList s0) ∧ e.name ∉ removed)) ∧
    s'.lock = none ∧ s'.inside = [] ∧
    (∀ n, n ∈ s'.plan ↔ n ∈ submitted p body) ∧ s'.aborted = [] ∧ s'.cur = [] := by
  intro s0 s'
  have h0 := inv_reach pre
  obtain ⟨S, hrun, hinv, hl, hbak, _, _, _, hcur, hjobs⟩ := run_shape pre body p hfree hbody
  have : s' = step S (Op.killedExiting p removed) := hrun _
  rw [this, killedExiting_inside hinv hl]
  refine ⟨hjobs, ⟨_, rfl, ?_⟩, rfl, rfl, hcur, rfl, rfl⟩
  intro e
  simp only [bakList, hbak, Option.getD_some, List.mem_filter, Bool.not_eq_eq_eq_not, Bool.not_true,
    List.contains_eq_mem, decide_eq_false_iff_not]
  constructor
  · rintro ⟨he, hn⟩
    refine ⟨?_, hn⟩
    rcases mem_moveAll he with h | h
    · exact Or.inr h
    · exact Or.inl h
  · rintro ⟨h | h, hn⟩
    · exact ⟨mem_moveAll_of_jobs (fun x hx => h0.targeted x (by simp only [indexed, List.mem_append]; exact Or.inr hx))
        (fun x hx => h0.targeted x (by simp only [indexed, List.mem_append]; exact Or.inl hx)) h, hn⟩
    · exact ⟨mem_moveAll_of_bak h, hn⟩

/-- every link of `jobs` and `jobs.bak` points to the directory of the job it is named after, and no name
    occurs twice in a folder, in every reachable state. -/
theorem links_well_formed (ops : List Op) :
    let s := run ops init
    (∀ e, e ∈ s.jobs ∨ e ∈ bakList s → e.target = e.name) ∧ (names s.jobs).Nodup ∧ (names (bakList s)).Nodup := by
  intro s
  have h := inv_reach ops
  exact ⟨fun e he => h.targeted e (by simpa [indexed] using he), h.nodupJobs, h.nodupBak⟩

/-! ### non-vacuity: concrete histories -/

/-- a completed run, an aborted run (exception), a run that dies, with a blocked contender. -/
def demo : List Op :=
  [.enter 1, .submit 1 10, .submit 1 11, .exitOk 1,
   .enter 2, .submit 2 11, .enter 1, .submit 1 99, .submit 2 12, .exitExc 2,
   .enter 1, .submit 1 13, .killed 1]

example : (run demo init).jobs = [⟨13, 13⟩] := by decide
example : (run demo init).bak = some [⟨11, 11⟩, ⟨10, 10⟩, ⟨12, 12⟩] := by decide
example : (run demo init).lock = none ∧ (run demo init).plan = [11, 10] ∧ (run demo init).aborted = [12, 11, 13] := by decide
example : orphans (run demo init) [10, 11, 12, 13, 50] = [50] := by decide
/-- the hypotheses of `clean_exit_exact` / `backup_kept` are satisfiable with a non-empty prefix and a body
    that contains a blocked contender. -/
example : (run [.enter 1, .submit 1 10, .exitOk 1] init).lock = none ∧
    (∀ op, op ∈ [Op.submit 2 11, .enter 1, .submit 1 99, .submit 2 12] → op.keeps 2 = true) ∧
    submitted 2 [Op.submit 2 11, .enter 1, .submit 1 99, .submit 2 12] = [11, 12] := by decide
/-- a clean run after aborted ones drops the backup and keeps exactly its own jobs. -/
example : (run (demo ++ [.enter 3, .submit 3 10, .submit 3 14, .exitOk 3]) init).jobs = [⟨14, 14⟩, ⟨10, 10⟩] ∧
    (run (demo ++ [.enter 3, .submit 3 10, .submit 3 14, .exitOk 3]) init).bak = none := by decide
/-- deaths inside `__enter__` and `__exit__`. -/
example : (run (demo ++ [.killedEntering 4 [13]]) init).jobs = [] ∧
    (run (demo ++ [.killedEntering 4 [13]]) init).bak = some [⟨11, 11⟩, ⟨10, 10⟩, ⟨12, 12⟩, ⟨13, 13⟩] := by decide
example : (run (demo ++ [.enter 3, .submit 3 14, .killedExiting 3 [10, 12]]) init).bak = some [⟨11, 11⟩, ⟨13, 13⟩] ∧
    (run (demo ++ [.enter 3, .submit 3 14, .killedExiting 3 [10, 12]]) init).junk = [11, 13] ∧
    (run (demo ++ [.enter 3, .submit 3 14, .killedExiting 3 [10, 12]]) init).plan = [14] := by decide

end XpmVerif.C16
