import XpmVerif.Basic.JsonUtil
import XpmVerif.Model.XpIndexFine
/-! Line-protocol driver for M7-fine (C16, kill points derived from the generated effect sequences).
    `{"op":"reset","jobs":[[n,t]…],"bak":[[n,t]…]|null}` starts a history on a given index;
    `start / tick / enterRaises / submit / endBlock / die` are the operations of `XpFine`;
    `{"op":"progs"}` prints the three programs of a normal run (with / without exception).
    Every operation line prints `jobs`, `bak`, `lock`, and the control state of the process concerned. -/
open Lean XpmVerif XpmVerif.J XpmVerif.XpIndex XpmVerif.XpEff XpmVerif.XpFine

def entryLe (a b : Entry) : Bool := a.name < b.name || (a.name == b.name && a.target ≤ b.target)
def natJ (n : Nat) : Json := n
def entriesJ (es : List Entry) : Json :=
  Json.arr ((es.mergeSort entryLe).map (fun e => Json.arr #[natJ e.name, natJ e.target])).toArray
def entriesOf (j : Json) : List Entry := (arr j).map (fun x => match arr x with
  | [a, b] => { name := nat a, target := nat b }
  | _ => { name := 0, target := 0 })

def effName : Eff → String
  | .takeLock => "takeLock" | .mkBak => "mkBak" | .rotate _ _ _ => "rotate" | .dropBak => "dropBak"
  | .wait => "wait" | .releaseLock => "releaseLock" | .unlinkLockFile => "unlinkLockFile"
  | .mkParent => "mkParent" | .unlinkIf _ => "unlinkIf" | .symlinkIf _ => "symlinkIf" | .other => "other"

def kindName : Kind → String
  | .idle => "idle" | .entering => "entering" | .stuck => "stuck" | .inside => "inside"
  | .linking => "linking" | .exiting => "exiting"

def modeOf : String → Mode
  | "generate" => .generate
  | "dry-run" => .dryRun
  | _ => .normal

def stateJ (s : XpFine.St) (p : Proc) : Json :=
  Json.mkObj [("jobs", entriesJ s.jobs),
    ("bak", match s.bak with | none => Json.null | some b => entriesJ b),
    ("lock", match s.lock with | none => Json.null | some q => natJ q),
    ("kind", Json.str (kindName (s.ph p).kind)),
    ("next", match (s.ph p).todo with | [] => Json.null | e :: _ => Json.str (effName e)),
    ("left", natJ (s.ph p).todo.length)]

def stepJ (s : XpFine.St) (j : Json) : XpFine.St × Json :=
  let p := natF j "p"
  let go (op : XpFine.Op) : XpFine.St × Json := let s' := XpFine.step s op; (s', stateJ s' p)
  match strF j "op" with
  | "reset" =>
    let b : Option (List Entry) := if isNull (fld j "bak") then none else some (entriesOf (fld j "bak"))
    let s0 : XpFine.St := { XpFine.init with jobs := entriesOf (fld j "jobs"), bak := b }
    (s0, stateJ s0 p)
  | "start" => go (.start p (modeOf (strF j "mode")))
  | "tick" => go (.tick p (natF j "n"))
  | "enterRaises" => go (.enterRaises p)
  | "submit" => go (.submit p (natF j "l"))
  | "endBlock" => go (.endBlock p (boolF j "exc"))
  | "die" => go (.die p)
  | "progs" => (s, Json.mkObj [
      ("enter", Json.arr ((enterProg (modeOf (strF j "mode"))).map (fun e => Json.str (effName e))).toArray),
      ("exitOk", Json.arr ((exitProg (modeOf (strF j "mode")) false).map (fun e => Json.str (effName e))).toArray),
      ("exitExc", Json.arr ((exitProg (modeOf (strF j "mode")) true).map (fun e => Json.str (effName e))).toArray),
      ("link", Json.arr (linkProg.map (fun e => Json.str (effName e))).toArray)])
  | op => (s, Json.mkObj [("error", Json.str s!"bad-op {op}")])

def main : IO Unit := J.loop stepJ XpFine.init
