import XpmVerif.Model.Ident
/-! M6w: dependency collection at submission (`core/objects.py` `updatedependencies`,
    `ConfigInformation.updatedependencies`).  No visited set in the real code: a tree recursion.
    `acc` is the list of task nodes already added (`taskids`), initialised with the submitted task itself. -/
namespace XpmVerif.Ident

/-- the producing task as dependency collection sees it: `self.task and not self.loaded` — a configuration obtained by
    deserialisation (`loaded = True`: `load`, `from_task_dir`, the job itself at run time) keeps its `task` field, but its
    *arguments* are walked instead of depending on the task that once produced it. `ld n` = node `n` is loaded. -/
def effTask (g : Graph) (ld : Nat → Bool) (n : Nat) : Option Nat := if ld n then none else (g.node n).task

/-- `ConfigInformation.updatedependencies` of node `n`. -/
def depsNode (g : Graph) (ld : Nat → Bool) : Nat → Nat → List Nat → List Nat
  | 0, _, acc => acc
  | fuel + 1, n, acc =>
    let nd := g.node n
    let rec_ := depsNode g ld fuel
    let acc := walkNodes rec_ nd.preTasks acc
    let acc := walkNodes rec_ nd.initTasks acc
    match effTask g ld n with
    | some t => if acc.contains t then acc else acc ++ [t]
    | none => walkVals rec_ (nd.args.map (·.value)) acc

/-- the job dependencies of the task `root` being submitted (its own `task` field is still unset),
    without `root` itself. -/
def collectDeps (g : Graph) (ld : Nat → Bool) (root : Nat) : List Nat :=
  (depsNode g ld (g.size + 1) root [root]).filter (· ≠ root)

end XpmVerif.Ident
