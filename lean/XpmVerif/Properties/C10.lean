import XpmVerif.Proofs.Runner
/-! C10 — job directory markers stay truthful whenever the job process dies.
    Property theorems only.  Every theorem quantifies over *all* action sequences (`Reach`): any number
    of runner processes and launchers, any interleaving, SIGKILL / SIGTERM / SIGINT at any program
    location (also inside a running handler and during interpreter exit), any body outcome and length.
    `cfg` is the source variant: `current` (what `run.py` does today, finding F7) or `repaired`. -/
namespace XpmVerif.C10
open XpmVerif.Runner

/-- **first sentence, part 1: a success marker only if the task body ran to completion.**
    If the directory shows `done`, it did so initially or some process wrote it, and a process that
    wrote it had completed its body (returned, or ended itself with status 0). -/
theorem done_implies_completed {cfg : Cfg} {done : Bool} {failed : Option Nat} {s : St}
    (h : Reach cfg done failed s) (hd : s.sh.done = true) :
    done = true ∨ ∃ i, i < s.n ∧ (s.procs i).touched = true ∧ (s.procs i).completed = true := by
  rcases doneOrigin_reach h hd with h0 | ⟨i, hi, ht⟩
  · exact Or.inl h0
  · exact Or.inr ⟨i, hi, ht, ((inv_reach h).touchedDone i ht).2.1⟩

/-- **run lock = mutual exclusion of bodies** (given that the lock file admits one holder, which is the
    model rule for `flock`): two processes never run the task body at the same time. -/
theorem mutual_exclusion {cfg : Cfg} {done : Bool} {failed : Option Nat} {s : St}
    (h : Reach cfg done failed s) (i j : Nat) (hi : running s i = true) (hj : running s j = true) : i = j := by
  have inv := inv_reach h
  have key : ∀ k, running s k = true → s.sh.lock = some (.run k) := by
    intro k hk
    simp only [running, Bool.and_eq_true, decide_eq_true_eq] at hk
    obtain ⟨⟨⟨hlt, ha⟩, hb⟩, hh⟩ := hk
    apply inv.held k hlt
    · revert ha; simp only [Proc.alive]; split <;> simp_all
    · revert hh; simp only [noHandler]; split <;> simp_all
    · revert hb; simp only [inBody]; split <;> simp_all [Loc.holding]
  have := key i hi
  have := key j hj
  simp_all

/-- the same as a count: `bodiesRunning ≤ 1` in every reachable state. -/
theorem bodies_running_le_one {cfg : Cfg} {done : Bool} {failed : Option Nat} {s : St}
    (h : Reach cfg done failed s) : bodiesRunning s ≤ 1 :=
  filter_le_one _ _ List.nodup_range (fun a b _ _ ha hb => mutual_exclusion h a b ha hb)

/-- **no body after success**: a step that starts a task body happens only while no success marker
    exists; and while a success marker exists nobody is running the body. -/
theorem no_body_after_done {cfg : Cfg} {done : Bool} {failed : Option Nat} {s : St}
    (h : Reach cfg done failed s) :
    (∀ a, (act cfg s a).sh.starts ≠ s.sh.starts → s.sh.done = false ∧ (act cfg s a).sh.starts = s.sh.starts + 1) ∧
    (s.sh.done = true → ∀ i, running s i = false) := by
  have inv := inv_reach h
  constructor
  · intro a
    have := inv.notDone a.proc
    act_cases a => grind (splits := 30) [Act.proc, Loc.critical]
  · intro hd i
    cases hr : running s i with
    | false => rfl
    | true =>
      exfalso
      simp only [running, Bool.and_eq_true, decide_eq_true_eq] at hr
      obtain ⟨⟨⟨hlt, ha⟩, hb⟩, hh⟩ := hr
      have : s.sh.done = false := by
        apply inv.notDone i hlt
        · revert ha; simp only [Proc.alive]; split <;> simp_all
        · revert hh; simp only [noHandler]; split <;> simp_all
        · revert hb; simp only [inBody]; split <;> simp_all [Loc.critical]
      simp_all

/-- **at most one success**: at most one process ever writes the success marker, and none does when
    the directory already had one (used by C05 and C11). -/
theorem at_most_one_success {cfg : Cfg} {done : Bool} {failed : Option Nat} {s : St}
    (h : Reach cfg done failed s) :
    (∀ i j, (s.procs i).touched = true → (s.procs j).touched = true → i = j) ∧
    (done = true → ∀ i, (s.procs i).touched = false) := by
  have inv := inv_reach h
  refine ⟨inv.uniqueTouch, ?_⟩
  intro hd i
  cases ht : (s.procs i).touched with
  | false => rfl
  | true => have := (inv.touchedDone i ht).2.2; simp_all

/-- **the run lock dies with the process**: whoever holds the lock is alive — a runner that is not
    dead, or a launcher inside its critical section.  (Death by any signal and normal exit release it.) -/
theorem lock_dies_with_process {cfg : Cfg} {done : Bool} {failed : Option Nat} {s : St}
    (h : Reach cfg done failed s) :
    (∀ i, s.sh.lock = some (.run i) → i < s.n ∧ (s.procs i).dead = none) ∧
    (∀ l, s.sh.lock = some (.launch l) → (s.ls l).holds = true) :=
  ⟨(inv_reach h).lockRun, fun l hl => ((inv_reach h).lockLaunch l).mp hl⟩

/-- **second sentence (every interleaving): SIGTERM/SIGINT while the body runs leaves a failure marker
    and no success marker.**  For a process that received the signal while it was running the body:
    until it has written the failure marker it is still inside the body frame with the handler active,
    holds the lock, and no success marker exists; from its (first) failure-marker write on, and for as
    long as no runner has taken the run lock again (`epoch` unchanged), the directory shows a failure
    marker and no success marker.  Such a process never writes the success marker. -/
theorem signal_in_body_marks_failed {cfg : Cfg} {done : Bool} {failed : Option Nat} {s : St}
    (h : Reach cfg done failed s) (i : Nat) (hi : i < s.n) (hs : (s.procs i).sigInBody = true) :
    ((s.procs i).dead = none → (s.procs i).wroteFailed = none →
        atWrite (s.procs i) = true ∧ inBody (s.procs i) = true ∧ s.sh.lock = some (.run i) ∧ s.sh.done = false) ∧
    ((s.procs i).wroteFailed = some s.sh.epoch → s.sh.failed.isSome = true ∧ s.sh.done = false) ∧
    (s.procs i).touched = false := by
  have inv := inv_reach h
  refine ⟨inv.sigBody1 i hi hs, fun hw => ?_, ((touchLocal_reach h i hi).2 hs).2.2⟩
  have := inv.sigBody2 i hi hs hw
  exact ⟨this.1, this.2.1⟩

/-- **last sentence, on the repaired source**: a job process that ended on its own (exited, with
    whatever status, without ever receiving SIGTERM/SIGINT) leaves no process-id file behind: the pid
    file never names it. -/
theorem own_exit_leaves_no_pid {cfg : Cfg} (hc : cfg.unregOnSuccess = false) {done : Bool} {failed : Option Nat}
    {s : St} (h : Reach cfg done failed s) (q : Nat) (hq : q < s.n) (ho : endedOnOwn (s.procs q) = true) :
    s.sh.pid ≠ some q := by
  have inv := inv_reach h
  intro hp
  simp only [endedOnOwn, Bool.and_eq_true, Bool.not_eq_true'] at ho
  obtain ⟨hsig, hdead⟩ := ho
  have oc := inv.ownClean hc q hq hsig
  revert hdead
  split
  · rename_i c hdc
    intro _
    have hcl := oc.2.2.2 c hdc
    have h1 := inv.pidInv q hq hp hsig hcl
    have h2 := inv.deadLoc q c hdc
    revert h1 h2
    cases (s.procs q).loc <;> simp [Loc.atRmPid, Loc.isFinNone]
    rename_i c' st; cases c' <;> simp
  · simp

end XpmVerif.C10
