import XpmVerif.Proofs.Restart
import XpmVerif.Properties.C10
import XpmVerif.Generated.SchedFlags
/-! C05 — a task configuration is executed at most once per successful result.
    Property theorems only.

    Part (a), scheduler side, is about M2 (`Model/Sched.lean`): every theorem quantifies over *all* states
    `Reachable fl totals s` (any event list — submissions with any identifiers, dependencies, exit codes and
    markers, steps, helper-thread completions in any order, `wait` — from `St.init totals`), for *any* value
    of the three source flags `fl` (the theorems of this file do not need the scheduler repairs).
    Part (b), job-script side, is about M3 (`Model/Runner.lean`, owned by C10): any number of launchers
    (schedulers) and runner processes, any interleaving, any signal.  The mutual exclusion itself rests on the
    lock file admitting one holder (`flock`), which is the model rule, i.e. trusted. -/
namespace XpmVerif.C05
open XpmVerif.Sched XpmVerif.Restart

/-- **"creates no second job", bookkeeping part.**  In every reachable state a submission for which another job
    stands (`eff j ≠ j`: the registration returned that job) has no coroutine (`pc = none`: it was never
    scheduled) and was never launched; and this stays so forever, because `Reachable` is closed under every
    event (`Reachable.apply`). -/
theorem duplicate_never_scheduled {fl : Flags} {totals : List Nat} {s : St} (h : Reachable fl totals s)
    (j : Nat) (hj : s.eff j ≠ j) : (s.jobs j).pc = .none ∧ (s.jobs j).launches = 0 := by
  have inv := (reachable_invB h).1
  have hp := inv.dup j hj
  have hl := (inv.loc j).2.1
  simp only [view] at hl
  rw [hp] at hl
  exact ⟨hp, by simpa [launched] using hl⟩

/-- **First sentence: "Submitting a configuration identical to one already submitted (and not failed) returns the
    first submission's output and creates no second job."**  Let `s` be reachable and consider the submission of
    identifier `ident`.  `regPoint …` is the state in which its registration coroutine runs (the record exists,
    the callbacks queued before the submission have run — FIFO, proved, not assumed).  If there the identifier is
    registered to a job `o` that is not in state ERROR, then after the submission: the registration result is
    `some (some o)` (the scheduler returned job `o`, whose output `ConfigInformation.submit` hands back), `o` is an
    *earlier* submission with the same identifier, `o` stands for the new submission, and the new submission has
    no coroutine and no launch (by `duplicate_never_scheduled`, forever). -/
theorem registry_dedup {fl : Flags} {totals : List Nat} {s : St} (h : Reachable fl totals s)
    (ident : Nat) (deps : List Origin) (code : Nat) (marker : Bool) (o : Nat)
    (hreg : lookup ident (regPoint fl plain { s := s, d := () } (newJob s ident deps code marker)).s.registry = some o)
    (hst : ((regPoint fl plain { s := s, d := () } (newJob s ident deps code marker)).s.jobs o).state ≠ .error) :
    let s' := s.apply fl (.submit ident deps code marker)
    s'.regResult = some (some o) ∧ s'.eff s.n = o ∧ o < s.n ∧ (s'.jobs o).ident = ident ∧
    (s'.jobs s.n).pc = .none ∧ (s'.jobs s.n).launches = 0 := by
  have := dedupA fl plain { s := s, d := () } (reachable_invB h) ident deps code marker o hreg hst
  simpa [applyA_plain_eq] using this

/-- the registration decides by the registry alone: it returns the registered job iff the identifier is
    registered to a job that is not in state ERROR (definition of `St.register` = `aio_registerJob`). -/
theorem register_returns_iff (fl : Flags) (s : St) (j o : Nat) :
    (s.register fl j).regResult = some (some o) ↔
      (lookup (s.jobs j).ident s.registry = some o ∧ (s.jobs o).state ≠ .error) := by
  unfold St.register
  simp only []
  split
  · rename_i o' ho
    split <;> simp_all
    · intro e; subst e; assumption
    · intro e; subst e; assumption
  · simp_all

/-- **Second sentence, scheduler part: "A job whose success marker exists is never launched again."**  In every
    reachable state a job whose success marker existed when it was submitted has never been launched (and, by
    closure of `Reachable`, never will be).  The model reads the marker where `aio_submit` does (first segment). -/
theorem done_marker_never_launched {fl : Flags} {totals : List Nat} {s : St} (h : Reachable fl totals s)
    (j : Nat) (hm : (s.jobs j).marker = true) : (s.jobs j).launches = 0 :=
  (((reachable_invB h).1.loc j).2.2.1 hm).1

/-- **at most one launch per scheduled job**: `aio_run` is reached at most once for every job of a scheduler,
    whatever the schedule, the token contention (aborted starts are not launches) and the exit codes. -/
theorem launched_at_most_once {fl : Flags} {totals : List Nat} {s : St} (h : Reachable fl totals s)
    (j : Nat) : (s.jobs j).launches ≤ 1 := by
  rcases ((reachable_invB h).1.loc j).2.1 with h0 | ⟨h1, -⟩
  · simp only [view] at h0; omega
  · simp only [view] at h1; omega

/-- a launched job is past the start: it waits for the release of the job lock, for its process, or is final —
    it never re-enters the start loop (so it cannot be launched a second time later either). -/
theorem launched_is_past_start {fl : Flags} {totals : List Nat} {s : St} (h : Reachable fl totals s)
    (j : Nat) (hl : (s.jobs j).launches ≠ 0) :
    (s.jobs j).pc = .lockExitRun ∨ (s.jobs j).pc = .codeWait ∨ (s.jobs j).pc = .doneHandler ∨ ∃ r, (s.jobs j).pc = .finished r := by
  rcases ((reachable_invB h).1.loc j).2.1 with h0 | ⟨-, h1⟩
  · exact absurd h0 hl
  · simp only [view] at h1
    generalize (s.jobs j).pc = pc at *
    cases pc <;> simp [launched] at h1 ⊢

/-- **Third sentence (several schedulers launch the same job script concurrently): "its body never runs twice at the
    same time".**  M3 with any number of launchers and runner processes: at most one process is inside the task body. -/
theorem concurrent_bodies_exclusive {cfg : Runner.Cfg} {done : Bool} {failed : Option Nat} {s : Runner.St}
    (h : Runner.Reach cfg done failed s) : Runner.bodiesRunning s ≤ 1 :=
  C10.bodies_running_le_one h

/-- **"… and is not run again after it succeeded"**: a body start happens only while no success marker exists, and
    while one exists nobody is inside the body; the marker is written by at most one process, by none if it existed
    before. -/
theorem not_run_again_after_success {cfg : Runner.Cfg} {done : Bool} {failed : Option Nat} {s : Runner.St}
    (h : Runner.Reach cfg done failed s) :
    (∀ a, (Runner.act cfg s a).sh.starts ≠ s.sh.starts → s.sh.done = false) ∧
    (s.sh.done = true → ∀ i, Runner.running s i = false) ∧
    (∀ i j, (s.procs i).touched = true → (s.procs j).touched = true → i = j) ∧
    (done = true → ∀ i, (s.procs i).touched = false) :=
  ⟨fun a ha => ((C10.no_body_after_done h).1 a ha).1, (C10.no_body_after_done h).2,
   (C10.at_most_one_success h).1, (C10.at_most_one_success h).2⟩

/-! ### non-vacuity: the hypotheses are satisfiable on concrete runs -/

/-- the three repairs, as in the current source -/
def fl0 : Flags := { readyGuarded := true, resubmitRegisters := true, abortRechecks := true }

/-- two submissions of identifier 7; the first is running when the second arrives -/
def dupRun : St := [Ev.submit 7 [] 0 false, .step, .deliver 0, .step, .submit 7 [] 0 false].foldl (St.apply fl0) (St.init [])

example : Reachable fl0 [] dupRun := ⟨_, rfl⟩
example : dupRun.regResult = some (some 0) ∧ dupRun.eff 1 = 0 ∧ (dupRun.jobs 1).pc = .none ∧
    (dupRun.jobs 0).launches = 1 ∧ (dupRun.jobs 1).launches = 0 := by decide

/-- the hypothesis of `registry_dedup` holds at the registration point of the second submission -/
example :
    let s : St := [Ev.submit 7 [] 0 false, .step, .deliver 0, .step].foldl (St.apply fl0) (St.init [])
    lookup 7 (regPoint fl0 plain { s := s, d := () } (newJob s 7 [] 0 false)).s.registry = some 0 ∧
    ((regPoint fl0 plain { s := s, d := () } (newJob s 7 [] 0 false)).s.jobs 0).state = .running := by decide

/-- a job with a marker runs to DONE without a launch; one without is launched once -/
def markerRun : St :=
  [Ev.submit 1 [] 0 true, .submit 2 [] 0 false, .step, .step, .deliver 0, .deliver 0, .step, .step, .deliver 0, .step].foldl
    (St.apply fl0) (St.init [])

example : (markerRun.jobs 0).marker = true ∧ (markerRun.jobs 0).state = .done ∧ (markerRun.jobs 0).launches = 0 ∧
    (markerRun.jobs 1).launches = 1 := by decide

/-- re-submission after a failure is *not* de-duplicated (the property says "and not failed") -/
example :
    let s : St := [Ev.submit 7 [] 1 false, .step, .deliver 0, .step, .deliver 0, .step, .deliver 0, .step, .deliver 0, .step,
      .submit 7 [] 0 false].foldl (St.apply fl0) (St.init [])
    (s.jobs 0).state = .error ∧ s.regResult = some none ∧ (s.jobs 1).pc = .created := by decide

/-- obligation on the current source: the three scheduler repairs are present (the model is run with these flags) -/
theorem scheduler_flags : Gen.schedFlags.readyGuarded = true ∧ Gen.schedFlags.resubmitRegisters = true ∧ Gen.schedFlags.abortRechecks = true ∧
    Gen.schedFlags.abortReleases = true := by decide

end XpmVerif.C05
