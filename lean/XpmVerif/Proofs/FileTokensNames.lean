import XpmVerif.Model.FileTokensNames
import XpmVerif.Proofs.FileTokens
/-! Lemmas about the naming layer of M2': under `Faithful` the named step relation is included in the one of
    `Model/FileTokens.lean`, so its invariants carry over; path-level facts; the counter-example world. -/
namespace XpmVerif.FileTokensNames
open XpmVerif.FileTokens

variable {δ σ : Type}

theorem faithful_of (nm : Naming δ) (ha : DesignationsAbsolute nm) (hw : WriterResolves nm) : Faithful nm := by
  intro p f
  obtain ⟨q, hq⟩ := hw f
  rw [ha p q f]; exact hq

theorem faithful_absolute (nm : Naming δ) (h : Faithful nm) : DesignationsAbsolute nm := by
  intro p q f; rw [h p f, h q f]

theorem faithful_writer (nm : Naming δ) (h : Faithful nm) : WriterResolves nm := fun f => ⟨0, h 0 f⟩

theorem holderGone_faithful (nm : Naming δ) (h : Faithful nm) (s : St) (p : Proc) (f : Name) :
    holderGone nm s p f = !s.active.contains f := by
  simp only [holderGone, h p f]

theorem enabledN_enabled (nm : Naming δ) (h : Faithful nm) (s : St) (e : Ev) : enabledN nm s e = enabled s e := by
  cases e <;> simp only [enabledN, enabled, holderGone_faithful nm h]

theorem reachableN_reachable (nm : Naming δ) (h : Faithful nm) (cfg : Cfg) (s : St) (r : ReachableN nm cfg s) :
    Reachable cfg s := by
  induction r with
  | init => exact .init
  | step e _ en ih => exact .step e ih (by rw [← enabledN_enabled nm h]; exact en)

theorem reachable_reachableN (nm : Naming δ) (h : Faithful nm) (cfg : Cfg) (s : St) (r : Reachable cfg s) :
    ReachableN nm cfg s := by
  induction r with
  | init => exact .init
  | step e _ en ih => exact .step e ih (by rw [enabledN_enabled nm h]; exact en)

theorem reachableN_run (nm : Naming δ) (cfg : Cfg) (evs : List Ev) :
    ∀ s, ReachableN nm cfg s → allEnabledN nm cfg s evs = true → ReachableN nm cfg (run cfg s evs) := by
  induction evs with
  | nil => intro s r _; exact r
  | cons e rest ih =>
    intro s r h
    simp only [allEnabledN, Bool.and_eq_true] at h
    exact ih _ (.step e r h.1) h.2

/-! ### paths -/

theorem locate_abs (c c' : List σ) (d : Desig σ) (h : d.isAbs = true) : locate c d = locate c' d := by
  simp [locate, h]

theorem locate_absolute (c c' : List σ) (d : Desig σ) : locate c' (absolute c d) = locate c d := by
  simp [locate, absolute]

theorem resolvePath_abs (w : World σ) (p q : Proc) (d : Desig σ) (h : d.isAbs = true) :
    resolvePath w p d = resolvePath w q d := by
  simp only [resolvePath, locate_abs (w.cwd p) (w.cwd q) d h]

theorem resolvePath_same_cwd (w : World σ) (p q : Proc) (d : Desig σ) (h : w.cwd p = w.cwd q) :
    resolvePath w p d = resolvePath w q d := by
  simp only [resolvePath, h]

theorem resolvePath_absolute (w : World σ) (p q : Proc) (d : Desig σ) :
    resolvePath w q (absolute (w.cwd p) d) = resolvePath w p d := by
  simp only [resolvePath, locate_absolute]

/-! ### the counter-example world: two processes in the directories `[1]` and `[2]`; process 0 runs its jobs in `[1, f]`,
    process 1 runs job 8 in `[2, 8]`; every token file names its holder by the *relative* path `[f]`. -/

def wRel : World Nat where
  cwd := fun p => if p = 0 then [1] else [2]
  jobAt := fun l => match l with
    | [c, f] => if c = (if f = 8 then 2 else 1) then some f else none
    | _ => none

def relDesig (f : Name) : Desig Nat := { isAbs := false, segs := [f] }

def nmRel : Naming (Desig Nat) := pathNaming wRel relDesig

/-- the same world when the writer makes the path absolute before writing it. -/
def nmAbs : Naming (Desig Nat) := pathNaming wRel fun f => absolute (wRel.cwd (if f = 8 then 1 else 0)) (relDesig f)

def cfg1 : Cfg := { total := 1, req := fun _ => 1, tolerant := true, notifyMissing := true }

/-- process 0 takes the token for job 7; process 1 sees the file, its watcher resolves `7` against `[2]`, finds no pid
    file, deletes the token file of the running job 7; process 1 then takes the token for its job 8. -/
def evsRel : List Ev :=
  [.acquireBegin 0 7, .acquireEnd 0, .fsEvent 1, .fsEvent 1, .reclaim 1 7, .acquireBegin 1 8, .acquireEnd 1]

theorem nmRel_writerResolves : WriterResolves nmRel := by
  intro f
  by_cases h : f = 8
  · exact ⟨1, by subst h; decide⟩
  · exact ⟨0, by simp [nmRel, pathNaming, resolvePath, locate, relDesig, wRel, h]⟩

theorem nmRel_not_absolute : ¬ DesignationsAbsolute nmRel := by
  intro h
  have := h 0 1 7
  revert this
  decide

theorem nmAbs_faithful : Faithful nmAbs := by
  intro p f
  by_cases h : f = 8
  · subst h; simp [nmAbs, pathNaming, resolvePath, locate, absolute, relDesig, wRel]
  · simp [nmAbs, pathNaming, resolvePath, locate, absolute, relDesig, wRel, h]

end XpmVerif.FileTokensNames
