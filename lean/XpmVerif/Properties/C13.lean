import XpmVerif.Proofs.SerialInst
/-! C13 — runtime objects mirror the configuration graph and are initialised once.

    Model: Model/Serial.lean (M5).  `instanceWalk g constructed root` is the `FromPython` walk of
    `config.instance(context, objects=store)` (`ConfigWalk.__call__` with its `visited` map, stubs
    kept in the `ObjectStore`, `constructed` = configurations the store already holds an initialised
    object for); `instanceLog` the events it causes (`new`/`init` when a stub is created, `set … ;
    postInit` in `postprocess`, then `exec` of every gathered pre-task in `fromConfig`).
    `runLog (serialize … [root])` is what `run.py::run` causes when it rebuilds a task from its
    parameter file (`fromParameters(as_instance=True)`, then the task body).
    A runtime object is identified with the configuration it stands for: "exactly one object per
    distinct configuration" is "exactly one `new n` event"; an attribute that refers to configuration
    `m` holds *the* object of `m`, which exists (`… ∈ store`). -/
namespace XpmVerif.C13
open XpmVerif.Ident XpmVerif.Serial

/-- **Exactly one object per distinct configuration, wired like the graph** (direct `instance()`).
    For every graph (arbitrary sharing and cycles) and every store content: each configuration gets at
    most one new object; a new object is created exactly for the configurations the walk enters, none
    of which had one; afterwards the root and every configuration referenced by a new object (through
    parameter values at any depth, pre-tasks, init tasks) has its object in the store, so every
    attribute can be — and in the model is — the one object of the referenced configuration
    (shared and cyclic references included); every new object stands for a configuration reachable
    from the root. -/
theorem instances_one_per_node (g : Graph) (cons : List Nat) (root : Nat) (hwf : WFInst g) (hr : root < g.size) :
    let r := instanceWalk g cons root
    (∀ n, (instanceLog g cons root).count (Ev.new n) = (if n ∈ entersOf r.trace then 1 else 0)) ∧
    (∀ n, n ∈ r.store ↔ n ∈ cons ∨ n ∈ entersOf r.trace) ∧
    (∀ n ∈ entersOf r.trace, n ∉ cons) ∧
    root ∈ r.store ∧
    (∀ n ∈ entersOf r.trace, ∀ m ∈ succInst g n, m ∈ r.store) ∧
    (∀ n ∈ entersOf r.trace, Reach (succInst g) root n) := by
  intro r
  obtain ⟨h1, _, h3, _, h5, h6, h7⟩ := instanceWalk_spec g cons root hwf hr
  exact ⟨fun n => (instanceLog_count_new g cons root hwf hr n).1, h1, h3, h5, h6, h7⟩

/-- … and with a fresh store the new objects are *exactly* the configurations reachable from the root. -/
theorem instances_exactly_reachable (g : Graph) (root : Nat) (hwf : WFInst g) (hr : root < g.size) (n : Nat) :
    (Reach (succInst g) root n → (instanceLog g [] root).count (Ev.new n) = 1) ∧
    (¬ Reach (succInst g) root n → (instanceLog g [] root).count (Ev.new n) = 0) := by
  have h := (instanceLog_count_new g [] root hwf hr n).1
  have h2 := instanceWalk_fresh g root hwf hr n
  exact ⟨fun c => by rw [h, if_pos (h2.2 c)], fun c => by rw [h, if_neg (fun hn => c (h2.1 hn))]⟩

/-- **Post-initialisation once, after the parameters are set** (direct `instance()`): for every new
    object the log contains its `__init__`, then — contiguously — the assignment of every present
    parameter followed by `__post_init__`; `__post_init__` occurs nowhere else and nothing is
    assigned to the object before or after; objects that are not new see no assignment and no
    `__post_init__` at all. -/
theorem post_init_once_after_set (g : Graph) (cons : List Nat) (root : Nat) (hwf : WFInst g) (hr : root < g.size) (n : Nat) :
    (n ∈ entersOf (instanceWalk g cons root).trace →
      ∃ l1 l2, instanceLog g cons root = l1 ++ ((presentNames (g.node n)).map (Ev.set n) ++ [Ev.postInit n]) ++ l2 ∧
        Ev.postInit n ∉ l1 ∧ Ev.postInit n ∉ l2 ∧ (∀ a, Ev.set n a ∉ l1) ∧ (∀ a, Ev.set n a ∉ l2) ∧ Ev.init n ∈ l1) ∧
    (n ∉ entersOf (instanceWalk g cons root).trace →
      Ev.postInit n ∉ instanceLog g cons root ∧ ∀ a, Ev.set n a ∉ instanceLog g cons root) :=
  ⟨instanceLog_postInit g cons root hwf hr n, instanceLog_postInit_none g cons root n⟩

/-- **Every pre-task runs exactly once** (direct `instance()`): a lightweight task is executed once if
    it is a pre-task of some newly built configuration (however many list it), never otherwise; all
    executions happen after the whole graph was built and post-initialised; no task body runs. -/
theorem pretasks_once (g : Graph) (cons : List Nat) (root : Nat) :
    (∀ p, (instanceLog g cons root).count (Ev.exec p) =
      (if ∃ n ∈ exitsOf (instanceWalk g cons root).trace, p ∈ (g.node n).preTasks then 1 else 0)) ∧
    (∃ walk, instanceLog g cons root = walk ++ (instanceWalk g cons root).preTasks.map Ev.exec ∧
      (∀ p, Ev.exec p ∉ walk) ∧ (∀ n, Ev.body n ∉ instanceLog g cons root)) :=
  ⟨instanceLog_exec g cons root, instanceLog_exec_last g cons root⟩

/-- **Loaded from a parameter file: one object per configuration, post-initialised once after its
    fields** — for every configuration `n` written to the file (`serialOrder`, i.e. reachable from the
    task through values, task links, pre-tasks, init tasks: see C12) exactly one object is created,
    `__init__`-ed once and `__post_init__`-ed once, its `__init__`, the assignment of each present
    parameter and `__post_init__` being contiguous in this order; nothing for other ids. -/
theorem loaded_objects_once (fl : Flags) (lib : List Cls) (sg : SGraph) (root : Nat)
    (hwf : ∀ n, n < sg.g.size → ∀ m ∈ succAll sg.g n, m < sg.g.size) (hr : root < sg.g.size) (n : Nat) :
    let order := serialOrder sg.g [root]
    let log := runLog (serialize fl lib sg [root])
    log.count (Ev.new n) = (if n ∈ order then 1 else 0) ∧
    log.count (Ev.init n) = (if n ∈ order then 1 else 0) ∧
    log.count (Ev.postInit n) = (if n ∈ order then 1 else 0) ∧
    (n ∈ order → ∃ l1 l2, log = l1 ++ (Ev.init n :: ((presentNames (sg.g.node n)).map (Ev.set n) ++ [Ev.postInit n])) ++ l2 ∧
        (∀ a, Ev.set n a ∉ l1) ∧ (∀ a, Ev.set n a ∉ l2)) :=
  runLog_objects fl lib sg root hwf hr n

/-- **Loaded from a parameter file: pre-tasks once, then the init tasks once, then the body.**
    The log is: construction of all objects (no execution), then the pre-tasks of all loaded
    configurations — each exactly once whatever the number of configurations listing it —, then the init
    tasks of the task in the order given, then the body of the task, last. -/
theorem init_after_pre_before_body (fl : Flags) (lib : List Cls) (sg : SGraph) (root : Nat)
    (hwf : ∀ n, n < sg.g.size → ∀ m ∈ succAll sg.g n, m < sg.g.size) (hr : root < sg.g.size) :
    let order := serialOrder sg.g [root]
    let defs := serialize fl lib sg [root]
    ∃ build,
      runLog defs = build ++ (preList defs).map Ev.exec ++ ((sg.g.node root).initTasks).map Ev.exec ++ [Ev.body root] ∧
      (∀ p, Ev.exec p ∉ build) ∧ (∀ n, Ev.body n ∉ build) ∧
      (preList defs).Nodup ∧
      (∀ p, p ∈ preList defs ↔ ∃ n ∈ order, p ∈ (sg.g.node n).preTasks) := by
  intro order defs
  obtain ⟨b, h1, _, h3, h4, h5, h6⟩ := runLog_shape fl lib sg root hwf hr
  exact ⟨b, h1, h3, h4, h5, h6⟩

/-- … hence **every init task runs exactly once**, provided the init tasks of the task are listed once
    each and none of them is also a pre-task of a loaded configuration; and every pre-task exactly once
    (if it is not also an init task). -/
theorem init_tasks_once (fl : Flags) (lib : List Cls) (sg : SGraph) (root : Nat)
    (hwf : ∀ n, n < sg.g.size → ∀ m ∈ succAll sg.g n, m < sg.g.size) (hr : root < sg.g.size)
    (hnd : ((sg.g.node root).initTasks).Nodup)
    (hdis : ∀ i ∈ (sg.g.node root).initTasks, ¬ ∃ n ∈ serialOrder sg.g [root], i ∈ (sg.g.node n).preTasks) :
    (∀ i ∈ (sg.g.node root).initTasks, (runLog (serialize fl lib sg [root])).count (Ev.exec i) = 1) ∧
    (∀ p, (∃ n ∈ serialOrder sg.g [root], p ∈ (sg.g.node n).preTasks) → p ∉ (sg.g.node root).initTasks →
        (runLog (serialize fl lib sg [root])).count (Ev.exec p) = 1) := by
  refine ⟨fun i hi => ?_, fun p hp hni => ?_⟩
  · have h := runLog_exec_count fl lib sg root hwf hr i
    simp only [] at h
    rw [h, if_neg (hdis i hi), count_of_nodup _ _ hnd, if_pos hi]
  · have h := runLog_exec_count fl lib sg root hwf hr p
    simp only [] at h
    rw [h, if_pos hp, List.count_eq_zero_of_not_mem hni]

/-! ### non-vacuity: a diamond with a cycle, a pre-task shared by two nodes, one init task -/

/-- 0 → {1, 2}, 1 → 3, 2 → 3, 3 → 0 (cycle); pre-task 4 on nodes 1 and 2; init task 5 on node 0. -/
def demo : Graph :=
  { nodes := [ { typeId := [116], args := [{ name := [97], value := .ref 1 }, { name := [98], value := .list [.ref 2] }], initTasks := [5] },
               { typeId := [99], args := [{ name := [120], value := .ref 3 }], preTasks := [4] },
               { typeId := [99], args := [{ name := [120], value := .ref 3 }], preTasks := [4] },
               { typeId := [100], args := [{ name := [121], required := false, value := .ref 0 }] },
               { typeId := [108], args := [{ name := [118], value := .int 1 }] },
               { typeId := [108], args := [{ name := [118], value := .int 2 }] } ] }

example : WFInst demo := by
  intro n hn m hm
  have : n = 0 ∨ n = 1 ∨ n = 2 ∨ n = 3 ∨ n = 4 ∨ n = 5 := by simp [Graph.size, demo] at hn; omega
  rcases this with h | h | h | h | h | h <;> subst h <;>
    simp [succInst, demo, Graph.node, argRefs, cfgRefsL, cfgRefs] at hm <;> simp [Graph.size, demo] <;> omega

example : entersOf (instanceWalk demo [] 0).trace = [0, 1, 3, 4, 2, 5] ∧ (instanceWalk demo [] 0).preTasks = [4] := by decide
example : (instanceLog demo [] 0).count (Ev.exec 4) = 1 ∧ (instanceLog demo [] 0).count (Ev.postInit 3) = 1 := by decide
/-- a second call sharing the store builds nothing again and runs no pre-task again -/
example : instanceLog demo (instanceWalk demo [] 0).store 1 = [] := by decide
example : runLog (serialize ⟨false, false, false⟩ [] { g := demo, cname := [] } [0]) =
    [.new 3, .new 4, .new 1, .new 2, .new 5, .new 0,
     .init 3, .set 3 [121], .postInit 3, .init 4, .set 4 [118], .postInit 4, .init 1, .set 1 [120], .postInit 1,
     .init 2, .set 2 [120], .postInit 2, .init 5, .set 5 [118], .postInit 5, .init 0, .set 0 [97], .set 0 [98], .postInit 0,
     .exec 4, .exec 5, .body 0] := by decide

end XpmVerif.C13
