"""Shared by the identifier-family checks (C01 C02 C03 C14 C20): run case scripts on the real
code in worker subprocesses (optionally under several PYTHONHASHSEED values) and on the Lean
driver, and diff."""
import copy
import json
import os
import subprocess
import sys
from concurrent.futures import ThreadPoolExecutor
from pathlib import Path

from . import common


def run_worker(payload, tmp: Path, tag: str, hashseed=None, module="xv.impl.ident_worker"):
    fin = tmp / f"in-{tag}.json"
    fout = tmp / f"out-{tag}.json"
    fin.write_text(json.dumps(payload))
    env = dict(os.environ)
    env["PYTHONPATH"] = str(common.VERIF / "harness") + (":" + env["PYTHONPATH"] if env.get("PYTHONPATH") else "")
    if hashseed is not None:
        env["PYTHONHASHSEED"] = str(hashseed)
    env["PYTHONWARNINGS"] = "ignore"
    p = subprocess.run([sys.executable, "-m", module, str(fin), str(fout)], env=env, capture_output=True, text=True, timeout=3000)
    if p.returncode != 0 or not fout.exists():
        raise RuntimeError(f"worker {tag} failed rc={p.returncode}: {p.stderr[-1500:]}")
    return json.loads(fout.read_text())


def split(cases, k):
    k = max(1, min(k, len(cases)))
    return [cases[i::k] for i in range(k)], k


def run_cases(ctx, libs, cases, hashseeds=(None,), shards=8, module="xv.impl.ident_worker", real_flags=False):
    """returns {hashseed: [record per case]} (records in the order of `cases`).  `real_flags`: describe every argument by the flags of the real
    `Argument` object (for drivers that do not derive the flags from declarations: Drive/C20.lean)"""
    tmp = ctx.tmpdir()
    parts, k = split(list(enumerate(cases)), shards)
    jobs = []
    with ThreadPoolExecutor(max_workers=16) as ex:
        for hs in hashseeds:
            for pi, part in enumerate(parts):
                payload = {"libs": libs, "cases": [c for _, c in part]}
                if real_flags:
                    payload["real_flags"] = True
                jobs.append((hs, pi, ex.submit(run_worker, payload, tmp, f"{hs}-{pi}-{len(jobs)}", hs, module)))
        res = {hs: [None] * len(cases) for hs in hashseeds}
        for hs, pi, fut in jobs:
            recs = fut.result()
            for (ci, _), rec in zip(parts[pi], recs):
                res[hs][ci] = rec
    return res


def model_outputs(ctx, records, driver="Ident"):
    """pipes all driver lines of the records through the Lean model; returns per-record output lists"""
    lines = [l for r in records for l in r["lines"]]
    if not lines:
        return [[] for _ in records]
    flagrecs = [r["declflags"] for r in records if r.get("declflags")] if driver == "Ident" else []
    for f in flagrecs:
        if "error" in f:
            raise RuntimeError(f"declaration flags of a library cannot be read: {f['error']}")
    # the class tables of the libraries first (`lib` lines, one per library): graph lines then name (class, parameter) and
    # the model resolves the declaration in force itself
    libs, seen = [], set()
    for r in records if driver == "Ident" else []:
        t = r.get("classtable")
        if t and t["key"] not in seen:
            seen.add(t["key"])
            libs.append(t)
    nlines = len(lines)
    k = int(os.environ.get("XV_DRIVER_PARTS", "0")) or (4 if nlines > 40000 else 1)
    if k > 1 and len(records) >= k:
        # large streams (thorough tier): the records are self-contained (each starts with its `graph` line), so the stream is
        # cut at record boundaries and piped through k driver processes at once; every process first gets the class tables
        bounds, acc, target = [0], 0, nlines / k
        for ri, r in enumerate(records):
            acc += len(r["lines"])
            if acc >= target * len(bounds) and len(bounds) < k:
                bounds.append(ri + 1)
        bounds.append(len(records))
        chunks = [[l for r in records[a:b] for l in r["lines"]] for a, b in zip(bounds, bounds[1:])]
        chunks[-1] = chunks[-1] + [f["line"] for f in flagrecs]
        with ThreadPoolExecutor(max_workers=k) as ex:
            parts = list(ex.map(lambda ch: common.run_driver(driver, libs + ch)[len(libs):] if ch else [], chunks))
        outs = [o for part in parts for o in part]
    else:
        outs = common.run_driver(driver, libs + lines + [f["line"] for f in flagrecs])[len(libs):]
    res, i = [], 0
    for r in records:
        res.append(outs[i:i + len(r["lines"])])
        i += len(r["lines"])
        for k, v in (r.get("argsrc") or {}).items():
            # how many arguments reached the model as declarations (flags derived by `mkArg`) / with the real object's flags;
            # how many tags, added dependencies and submission environments the model was given
            name = "model_input_" + k.replace(":", "_")
            ctx.extra_cov[name] = ctx.extra_cov.get(name, 0) + v
    compare_decl_flags(ctx, flagrecs, outs[i:])
    return res


def compare_decl_flags(ctx, flagrecs, outs):
    """the flags `ArgDecl.classArg` derives for each parameter of each class of a generated library (declaration resolved
    through the bases by the model) vs the real `Argument` object"""
    for f, out in zip(flagrecs, outs):
        for c, mflags, iflags in zip(f["line"]["classes"], out.get("flags", []), f["impl"]["flags"]):
            ctx.count("class_flags_compared", "several bases" if c.get("bases", 0) > 1 else "one base" if c.get("bases") else "no base")
            for nm, m, im in zip(c["names"], mflags, iflags):
                if m != im:
                    ctx.disagree({"class": c["cls"], "parameter": bytes.fromhex(nm).decode(), "table": f["line"]["table"]}, m, im,
                                 f"the flags the model derives for the parameter (rule {out.get('rule')}) differ from the real Argument object")


def permute_graph(rng, g):
    """same configuration, other keyword order and dict insertion order"""
    g = copy.deepcopy(g)

    def perm(v):
        if isinstance(v, dict):
            if "l" in v:
                return {"l": [perm(x) for x in v["l"]]}
            if "d" in v:
                items = [[k, perm(x)] for k, x in v["d"]]
                rng.shuffle(items)
                return {"d": items}
        return v

    for nd in g["nodes"]:
        nd["values"] = [[k, perm(v)] for k, v in nd["values"]]
        rng.shuffle(nd["values"])
    return g


def graph_stats(g):
    """cheap structural features for the input-distribution histograms"""
    refs = 0
    shared = {}
    for nd in g["nodes"]:
        for _, v in nd["values"]:
            for r in _refs(v):
                refs += 1
                shared[r] = shared.get(r, 0) + 1
    return {"nodes": len(g["nodes"]), "refs": refs, "shared": sum(1 for c in shared.values() if c > 1),
            "cyclic": has_cycle(g), "meta": sum(1 for nd in g["nodes"] if nd["meta"] is not None),
            "pre": sum(len(nd["pre"]) for nd in g["nodes"]), "init": sum(len(nd["init"]) for nd in g["nodes"]),
            "taskout": sum(1 for nd in g["nodes"] if nd["task"] is not None)}


def _refs(v):
    if isinstance(v, dict):
        if "r" in v:
            return [v["r"]]
        if "l" in v:
            return [r for x in v["l"] for r in _refs(x)]
        if "d" in v:
            return [r for _, x in v["d"] for r in _refs(x)]
    return []


def has_cycle(g):
    adj = {i: [r for _, v in nd["values"] for r in _refs(v)] + ([nd["task"]] if nd["task"] is not None else [])
           for i, nd in enumerate(g["nodes"])}
    color = {}

    def dfs(u):
        color[u] = 1
        for w in adj[u]:
            if color.get(w) == 1 or (w not in color and dfs(w)):
                return True
        color[u] = 2
        return False

    return any(u not in color and dfs(u) for u in adj)


def submit_cases(ctx, rng, tag, nlibs, per):
    """task-rooted acyclic graphs for the submit worker; returns (libs, cases)"""
    from .gen import cfggen
    libs, cases = [], []
    for li in range(nlibs):
        lib = cfggen.gen_library(rng, f"{tag}_{ctx.seed}_{li}")
        libs.append(lib)
        tries = 0
        while sum(1 for c in cases if c["lib"] == li) < per and tries < per * 30:
            tries += 1
            g = cfggen.gen_graph(rng, lib, max_nodes=rng.choice([3, 6, 9]), cycles=False)
            cls = next(c for c in lib["classes"] if c["name"] == g["nodes"][0]["cls"])
            if cls["kind"] == "task" and not any(nd["task"] is not None for nd in g["nodes"]):
                cases.append({"lib": li, "graph": g})
    return libs, cases


def run_submit(ctx, libs, cases, shards=6):
    from concurrent.futures import ThreadPoolExecutor
    tmp = ctx.tmpdir()
    parts, k = split(list(enumerate(cases)), shards)
    recs = [None] * len(cases)
    with ThreadPoolExecutor(max_workers=8) as ex:
        futs = [(part, ex.submit(run_worker, {"libs": libs, "cases": [c for _, c in part]}, tmp, f"sub-{pi}", None, "xv.impl.submit_worker"))
                for pi, part in enumerate(parts)]
        for part, f in futs:
            for (ci, _), r in zip(part, f.result()):
                recs[ci] = r
    return recs


def inherit_rule_probe(ctx):
    """for translate/argflags: () -> "depthFirst" | "mro" | "neither: …" read off the real code on a diamond"""
    def probe():
        return run_worker({}, ctx.tmpdir(), "inhprobe", None, "xv.impl.inherit_probe")["rule"]
    return probe


def loop_flag_probe(ctx):
    """for translate/hashflags: () -> bool, True iff the witness of defect F1 (sealed cycle, identifiers requested in
    three orders) no longer makes the real code return order-dependent identifiers"""
    def probe():
        from .props import c01

        class _Proxy:
            hit = False

            def __getattr__(self, k):
                return getattr(ctx, k)

            def monitor_fail(self, *a, **k):
                self.hit = True
        px = _Proxy()
        c01.run_witness(px, {"id": "F1", "witness": {"kind": "sealed-cycle"}})
        return not px.hit
    return probe
