import XpmVerif.Proofs.FileTokens
/-! M2' — watchers: every token file held for a job of another process has a `TokenFile.watch` thread in every
    live process, or a queued file-system event of that process will start one (`WInv`, invariant of all reachable
    states, with the ghost `own` = the process that created the current file of a name unless it restarted since). -/
namespace XpmVerif.FileTokens

/-- `ww f c q`: dispatching the queue `q` in order (no recount in between) reaches a `modified f` event while
    `f` is not in the cache (`c` = "`f` is in the cache now"): `on_modified` then reads the file and starts a watcher.
    (`created f` is skipped: the file may still be empty then; when it is not, the watcher starts even earlier.) -/

def ww (f : Name) : Bool → List FsEv → Bool
  | _, [] => false
  | c, .deleted g :: r => ww f (c && decide (g ≠ f)) r
  | c, .created _ :: r => ww f c r
  | c, .modified g :: r => if g = f then (if c then ww f c r else true) else ww f c r

theorem ww_mono (f : Name) (l' : List FsEv) : ∀ (l : List FsEv) (c : Bool), ww f c l = true → ww f c (l ++ l') = true := by
  intro l
  induction l with
  | nil => intro c h; simp [ww] at h
  | cons e r ih =>
    intro c h
    cases e with
    | deleted g => simp only [List.cons_append, ww] at h ⊢; exact ih _ h
    | created g => simp only [List.cons_append, ww] at h ⊢; exact ih _ h
    | modified g =>
      simp only [List.cons_append, ww] at h ⊢
      by_cases hg : g = f
      · simp only [hg, if_true] at h ⊢
        cases c with
        | true => simp only [if_true] at h ⊢; exact ih _ h
        | false => simp
      · simp only [hg, if_false] at h ⊢; exact ih _ h

theorem ww_new (f : Name) : ∀ (l : List FsEv) (c : Bool), (c = false ∨ FsEv.deleted f ∈ l) → ww f c (l ++ [.modified f]) = true := by
  intro l
  induction l with
  | nil => intro c h; simp at h; simp [ww, h]
  | cons e r ih =>
    intro c h
    cases e with
    | deleted g =>
      simp only [List.cons_append, ww]
      apply ih
      rcases h with h | h
      · simp [h]
      · simp only [List.mem_cons, FsEv.deleted.injEq] at h
        rcases h with h | h
        · simp [h]
        · exact Or.inr h
    | created g =>
      simp only [List.cons_append, ww]
      apply ih
      rcases h with h | h
      · exact Or.inl h
      · simp only [List.mem_cons] at h
        rcases h with h | h
        · cases h
        · exact Or.inr h
    | modified g =>
      simp only [List.cons_append, ww]
      have h' : c = false ∨ FsEv.deleted f ∈ r := by
        rcases h with h | h
        · exact Or.inl h
        · simp only [List.mem_cons] at h
          rcases h with h | h
          · cases h
          · exact Or.inr h
      by_cases hg : g = f
      · simp only [hg, if_true]
        cases c with
        | true => simp only [if_true]; exact ih _ h'
        | false => simp
      · simp only [hg, if_false]; exact ih _ h'

/-- process-local: the file has a watcher thread, or a queued `modified` event will start one. -/
def WatchedP (P : PSt) (f : Name) : Prop := f ∈ P.watch ∨ ww f (decide (f ∈ P.cache)) P.pending = true

theorem watchedP_congr (P P' : PSt) (f : Name) (hw : f ∈ P.watch → f ∈ P'.watch) (hc : (f ∈ P'.cache) ↔ (f ∈ P.cache))
    (hp : P'.pending = P.pending) : WatchedP P f → WatchedP P' f := by
  intro h
  rcases h with h | h
  · exact Or.inl (hw h)
  · right; rw [hp]; simpa [hc] using h

theorem watchedP_recount (cfg : Cfg) (d) (P : PSt) (f : Name) (hf : f ∈ names d) : WatchedP P f → WatchedP (recount cfg d P) f := by
  intro h
  by_cases hc : f ∈ P.cache
  · refine watchedP_congr P (recount cfg d P) f ?_ ?_ rfl h
    · intro hw; simp [recount, hw]
    · simp [recount, hf, hc]
  · left; simp [recount, hf, hc]

theorem watchedP_recount_new (cfg : Cfg) (d) (P : PSt) (f : Name) (hf : f ∈ names d) (hc : f ∉ P.cache) : f ∈ (recount cfg d P).watch := by
  simp [recount, hf, hc]

theorem bc_pending_alive (procs : Proc → PSt) (e : FsEv) (q : Proc) (ha : (procs q).alive = true) (hd : (procs q).dropped = false) :
    (broadcast procs e q).pending = (procs q).pending ++ [e] := by
  simp [broadcast, ha, hd]

theorem bc_pending_app (procs : Proc → PSt) (e : FsEv) (q : Proc) : ∃ l, (broadcast procs e q).pending = (procs q).pending ++ l := by
  simp only [broadcast]; split
  · exact ⟨[e], rfl⟩
  · exact ⟨[], by simp⟩

theorem watchedP_bc (procs : Proc → PSt) (e : FsEv) (q : Proc) (f : Name) : WatchedP (procs q) f → WatchedP (broadcast procs e q) f := by
  intro h
  rcases h with h | h
  · left; simpa using h
  · right
    obtain ⟨l, hl⟩ := bc_pending_app procs e q
    rw [hl, bc_cache]; exact ww_mono f l _ _ h


theorem lookupW_none_of_not_mem (f : Name) (d : List (Name × Bool)) (h : f ∉ names d) : lookupW f d = none := by
  induction d with
  | nil => rfl
  | cons x r ih =>
    obtain ⟨g, w⟩ := x
    simp only [names, List.map_cons, List.mem_cons, not_or] at h
    simp only [lookupW]
    rw [if_neg (fun e => h.1 e.symm)]
    exact ih h.2

theorem lookupW_append (f g : Name) (w : Bool) (d : List (Name × Bool)) :
    lookupW f (d ++ [(g, w)]) = match lookupW f d with
      | some x => some x
      | none => if g = f then some w else none := by
  induction d with
  | nil => simp [lookupW]
  | cons x r ih =>
    obtain ⟨h, v⟩ := x
    by_cases hh : h = f
    · simp [lookupW, hh]
    · simp only [List.cons_append, lookupW, hh, if_false]; exact ih

theorem lookupW_setW (f g : Name) (w : Bool) (d : List (Name × Bool)) :
    lookupW f (setW g w d) = if g = f then (lookupW f d).map (fun _ => w) else lookupW f d := by
  induction d with
  | nil => simp [lookupW, setW]
  | cons x r ih =>
    obtain ⟨h, v⟩ := x
    simp only [setW, List.map_cons] at ih ⊢
    by_cases hg : g = f
    · subst hg
      by_cases hh : h = g
      · simp [lookupW, hh]
      · simp only [hh, if_false, lookupW, if_true] at ih ⊢; exact ih
    · by_cases hh : h = g
      · subst hh; simp only [if_true, lookupW, hg, if_false] at ih ⊢; exact ih
      · simp only [hh, if_false, lookupW, hg] at ih ⊢
        by_cases hf : h = f
        · simp [hf]
        · simp only [hf, if_false]; exact ih

theorem lookupW_rmFile (f g : Name) (d : List (Name × Bool)) :
    lookupW f (rmFile g d) = if g = f then none else lookupW f d := by
  induction d with
  | nil => simp [lookupW, rmFile]
  | cons x r ih =>
    obtain ⟨h, v⟩ := x
    simp only [rmFile] at ih
    by_cases hh : h = g
    · subst hh
      have : rmFile h ((h, v) :: r) = rmFile h r := by simp [rmFile]
      rw [this]; simp only [rmFile]; rw [ih]
      by_cases hf : h = f
      · simp [hf]
      · simp [hf, lookupW]
    · have : rmFile g ((h, v) :: r) = (h, v) :: rmFile g r := by simp [rmFile, hh]
      rw [this]; simp only [lookupW, rmFile]; rw [ih]
      by_cases hf : h = f
      · subst hf; simp [Ne.symm hh]
      · simp [hf]

theorem mem_addCache (l : List Name) (g f : Name) : f ∈ addCache l g ↔ f ∈ l ∨ f = g := by
  simp only [addCache]; split
  · rename_i h; constructor
    · exact Or.inl
    · rintro (h1 | rfl); exact h1; exact h
  · simp

/-- one dispatched event keeps "watched or will be watched" for a file that is written in the directory. -/
theorem watchedP_dispatch (cfg : Cfg) (d) (P : PSt) (e : FsEv) (rest : List FsEv) (f : Name)
    (hp : P.pending = e :: rest) (hf : lookupW f d = some true) (nd : P.cache.Nodup) (h : WatchedP P f)
    (ha : (dispatch cfg d { P with pending := rest } e).1.alive = true) :
    WatchedP (dispatch cfg d { P with pending := rest } e).1 f := by
  rcases h with h | h
  · left
    cases e with
    | deleted g => simp only [dispatch]; split <;> exact h
    | created g | modified g =>
      simp only [dispatch]; split
      · exact h
      · split
        · exact h
        · split <;> exact h
        · simp [h]
  · rw [hp] at h
    cases e with
    | deleted g =>
      simp only [ww] at h
      simp only [dispatch]; split
      · rename_i hg
        right
        show ww f (decide (f ∈ P.cache.erase g)) rest = true
        have : decide (f ∈ P.cache.erase g) = (decide (f ∈ P.cache) && decide (g ≠ f)) := by
          by_cases e : g = f
          · subst e; simp [nd.mem_erase_iff]
          · simp [nd.mem_erase_iff, e, Ne.symm e]
        rw [this]; exact h
      · rename_i hg
        right
        show ww f (decide (f ∈ P.cache)) rest = true
        have : (decide (f ∈ P.cache) && decide (g ≠ f)) = decide (f ∈ P.cache) := by
          by_cases e : g = f
          · subst e; simp [hg]
          · simp [e]
        rw [← this]; exact h
    | created g =>
      simp only [ww] at h
      simp only [dispatch]; split
      · exact Or.inr h
      · rename_i hg
        split
        · exact Or.inr h
        · split
          · exact Or.inr h
          · rename_i hl ht
            simp [dispatch, hg, hl, ht] at ha
        · by_cases e : g = f
          · left; simp [e]
          · right
            show ww f (decide (f ∈ P.cache ++ [g])) rest = true
            have : decide (f ∈ P.cache ++ [g]) = decide (f ∈ P.cache) := by simp [Ne.symm e]
            rw [this]; exact h
    | modified g =>
      simp only [ww] at h
      simp only [dispatch]; split
      · rename_i hg
        by_cases e : g = f
        · subst e; right
          show ww g (decide (g ∈ P.cache)) rest = true
          simpa [hg] using h
        · simp only [e, if_false] at h; exact Or.inr h
      · rename_i hg
        split
        · rename_i hl
          have e : g ≠ f := by intro e; subst e; rw [hf] at hl; cases hl
          simp only [e, if_false] at h; exact Or.inr h
        · rename_i hl
          have e : g ≠ f := by intro e; subst e; rw [hf] at hl; cases hl
          simp only [e, if_false] at h
          split
          · exact Or.inr h
          · rename_i ht
            simp [dispatch, hg, hl, ht] at ha
        · by_cases e : g = f
          · left; simp [e]
          · right
            simp only [e, if_false] at h
            show ww f (decide (f ∈ P.cache ++ [g])) rest = true
            have : decide (f ∈ P.cache ++ [g]) = decide (f ∈ P.cache) := by simp [Ne.symm e]
            rw [this]; exact h


/-- ghost: who created the current file of a name (reset when that process is replaced by a new one). -/
def ownStep (own : Name → Option Proc) : Ev → Name → Option Proc
  | .acquireBegin p f => upd own f (some p)
  | .restart p => fun f => if own f = some p then none else own f
  | _ => own

inductive ReachableO (cfg : Cfg) : St → (Name → Option Proc) → Prop where
  | init : ReachableO cfg (init cfg) (fun _ => none)
  | step {s : St} {own : Name → Option Proc} (e : Ev) : ReachableO cfg s own → enabled s e = true →
      ReachableO cfg (apply cfg s e).1 (ownStep own e)

theorem reachableO_reachable (cfg : Cfg) (s : St) (own) (r : ReachableO cfg s own) : Reachable cfg s := by
  induction r with
  | init => exact .init
  | step e _ en ih => exact .step e ih en

theorem reachable_has_owner (cfg : Cfg) (s : St) (r : Reachable cfg s) : ∃ own, ReachableO cfg s own := by
  induction r with
  | init => exact ⟨_, .init⟩
  | step e _ en ih => obtain ⟨own, h⟩ := ih; exact ⟨_, .step e h en⟩

def Watched (s : St) (q : Proc) (f : Name) : Prop := WatchedP (s.procs q) f

structure WInv (s : St) (own : Name → Option Proc) : Prop where
  ownIpc : ∀ p g, s.ipc = some (p, g) → own g = some p
  ipcHalf : ∀ p g, s.ipc = some (p, g) → lookupW g s.disk = some false
  half : ∀ p g q, s.ipc = some (p, g) → q ≠ p → (s.procs q).alive = true → (s.procs q).dropped = false →
      g ∈ (s.procs q).cache → FsEv.deleted g ∈ (s.procs q).pending
  watched : ∀ q f, (s.procs q).alive = true → (s.procs q).dropped = false → own f ≠ some q →
      lookupW f s.disk = some true → Watched s q f

theorem winv_init (cfg : Cfg) : WInv (init cfg) (fun _ => none) := by
  refine ⟨?_, ?_, ?_, ?_⟩ <;> simp [init, lookupW]

theorem winv_acquireBegin (cfg : Cfg) (s : St) (own) (p : Proc) (g : Name) (hI : Inv cfg s) (h : WInv s own)
    (en : enabled s (.acquireBegin p g) = true) :
    WInv (apply cfg s (.acquireBegin p g)).1 (ownStep own (.acquireBegin p g)) := by
  simp only [enabled, Bool.and_eq_true, Option.isNone_iff_eq_none, Bool.not_eq_true', List.contains_eq_mem,
    decide_eq_false_iff_not] at en
  obtain ⟨⟨⟨hipc, hdrop⟩, hgd⟩, hga⟩ := en
  have hgn : lookupW g s.disk = none := lookupW_none_of_not_mem g s.disk hgd
  simp only [apply, ownStep]
  split
  · refine ⟨?_, ?_, ?_, ?_⟩
    · intro q f hf; simp [hipc] at hf
    · intro q f hf; simp [hipc] at hf
    · intro q f r hf; simp [hipc] at hf
    · intro q f ha hd ho hf
      have hfg : f ≠ g := by intro e; subst e; simp [hgn] at hf
      have hfm : f ∈ names s.disk := lookupW_some_mem _ _ _ hf
      by_cases hq : q = p
      · subst hq
        simp only [upd_same, recount_alive, recount_dropped] at ha hd
        have := h.watched q f ha hd (by simpa [upd, hfg] using ho) hf
        simp only [Watched, upd_same]
        exact watchedP_recount cfg s.disk _ f hfm this
      · simp only [upd_other _ _ _ _ hq] at ha hd
        have := h.watched q f ha hd (by simpa [upd, hfg] using ho) hf
        simpa [Watched, upd_other _ _ _ _ hq] using this
  · refine ⟨?_, ?_, ?_, ?_⟩
    · intro q f hf
      simp only [Option.some.injEq, Prod.mk.injEq] at hf
      obtain ⟨rfl, rfl⟩ := hf; simp
    · intro q f hf
      simp only [Option.some.injEq, Prod.mk.injEq] at hf
      obtain ⟨rfl, rfl⟩ := hf
      show lookupW g (s.disk ++ [(g, false)]) = some false
      rw [lookupW_append, hgn]; simp
    · intro q f r hf hr ha hd hc
      simp only [Option.some.injEq, Prod.mk.injEq] at hf
      obtain ⟨rfl, rfl⟩ := hf
      simp only [bc_alive, bc_dropped, bc_cache, upd_other _ _ _ _ hr] at ha hd hc
      rcases hI.cacheSound r ha hd g hc with h1 | h1
      · exact absurd h1 hgd
      · exact bc_pending_mono _ _ _ _ (by simpa [upd_other _ _ _ _ hr] using h1)
    · intro q f ha hd ho hf
      have hf' : lookupW f s.disk = some true := by
        have : lookupW f (s.disk ++ [(g, false)]) = some true := hf
        rw [lookupW_append] at this
        cases hl : lookupW f s.disk with
        | some x => simpa [hl] using this
        | none => simp only [hl] at this; split at this <;> simp at this
      have hfg : f ≠ g := by intro e; subst e; simp [hgn] at hf'
      have hfm : f ∈ names s.disk := lookupW_some_mem _ _ _ hf'
      simp only [bc_alive, bc_dropped] at ha hd
      simp only [Watched]
      apply watchedP_bc
      by_cases hq : q = p
      · subst hq
        simp only [upd_same, recount_alive, recount_dropped] at ha hd
        have := h.watched q f ha hd (by simpa [upd, hfg] using ho) hf'
        simp only [upd_same]
        refine watchedP_congr (recount cfg s.disk (s.procs q)) _ f (fun x => x) Iff.rfl rfl ?_
        exact watchedP_recount cfg s.disk _ f hfm this
      · simp only [upd_other _ _ _ _ hq] at ha hd
        have := h.watched q f ha hd (by simpa [upd, hfg] using ho) hf'
        simpa [Watched, upd_other _ _ _ _ hq] using this


theorem winv_acquireEnd (cfg : Cfg) (s : St) (own) (p : Proc) (_hI : Inv cfg s) (h : WInv s own)
    (en : enabled s (.acquireEnd p) = true) :
    WInv (apply cfg s (.acquireEnd p)).1 (ownStep own (.acquireEnd p)) := by
  simp only [enabled, ipcProc, beq_iff_eq] at en
  cases hipc : s.ipc with
  | none => simp [hipc] at en
  | some qf =>
    obtain ⟨q, g⟩ := qf
    simp only [hipc, Option.map_some, Option.some.injEq] at en
    subst en
    simp only [apply, hipc, if_true, ownStep]
    refine ⟨?_, ?_, ?_, ?_⟩
    · intro r f hf; simp at hf
    · intro r f hf; simp at hf
    · intro r f t hf; simp at hf
    · intro r f ha hd ho hf
      have hf' : lookupW f (setW g true s.disk) = some true := hf
      simp only [bc_alive, bc_dropped] at ha hd
      simp only [Watched]
      by_cases hfg : f = g
      · subst hfg
        have hr : r ≠ q := by intro e; subst e; exact ho (h.ownIpc _ _ hipc)
        simp only [upd_other _ _ _ _ hr] at ha hd
        right
        rw [bc_pending_alive _ _ _ (by simpa [upd_other _ _ _ _ hr] using ha) (by simpa [upd_other _ _ _ _ hr] using hd)]
        simp only [bc_cache, upd_other _ _ _ _ hr]
        apply ww_new
        by_cases hc : f ∈ (s.procs r).cache
        · exact Or.inr (h.half q f r hipc hr ha hd hc)
        · exact Or.inl (by simp [hc])
      · rw [lookupW_setW] at hf'
        simp only [Ne.symm hfg, if_false] at hf'
        apply watchedP_bc
        by_cases hr : r = q
        · subst hr
          simp only [upd_same] at ha hd ⊢
          have := h.watched r f ha hd ho hf'
          refine watchedP_congr (s.procs r) _ f (fun x => x) ?_ rfl this
          simp [mem_addCache, hfg]
        · simp only [upd_other _ _ _ _ hr] at ha hd ⊢
          exact h.watched r f ha hd ho hf'

theorem winv_release (cfg : Cfg) (s : St) (own) (p : Proc) (f0 : Name) (_hI : Inv cfg s) (h : WInv s own)
    (en : enabled s (.release p f0) = true) :
    WInv (apply cfg s (.release p f0)).1 (ownStep own (.release p f0)) := by
  simp only [enabled, Bool.and_eq_true, Option.isNone_iff_eq_none, Bool.not_eq_true'] at en
  obtain ⟨hipc, hdrop⟩ := en
  simp only [apply, ownStep]
  split
  · refine ⟨?_, ?_, ?_, ?_⟩
    · intro q f hf; simp [hipc] at hf
    · intro q f hf; simp [hipc] at hf
    · intro q f r hf; simp [hipc] at hf
    · intro q f ha hd ho hf
      have hf' : lookupW f (rmFile f0 s.disk) = some true := hf
      rw [lookupW_rmFile] at hf'
      have hfg : f0 ≠ f := by intro e; simp [e] at hf'
      simp only [hfg, if_false] at hf'
      have hfm : f ∈ names s.disk := lookupW_some_mem _ _ _ hf'
      simp only [bc_alive, bc_dropped] at ha hd
      simp only [Watched]
      apply watchedP_bc
      by_cases hq : q = p
      · subst hq
        simp only [upd_same, recount_alive, recount_dropped] at ha hd ⊢
        have := watchedP_recount cfg s.disk _ f hfm (h.watched q f ha hd ho hf')
        refine watchedP_congr (recount cfg s.disk (s.procs q)) _ f (fun x => x) ?_ rfl this
        exact List.mem_erase_of_ne (Ne.symm hfg)
      · simp only [upd_other _ _ _ _ hq] at ha hd ⊢
        exact h.watched q f ha hd ho hf'
  · refine ⟨?_, ?_, ?_, ?_⟩
    · intro q f hf; simp [hipc] at hf
    · intro q f hf; simp [hipc] at hf
    · intro q f r hf; simp [hipc] at hf
    · intro q f ha hd ho hf
      have hfm : f ∈ names s.disk := lookupW_some_mem _ _ _ hf
      simp only [Watched]
      by_cases hq : q = p
      · subst hq
        simp only [upd_same, recount_alive, recount_dropped] at ha hd ⊢
        exact watchedP_recount cfg s.disk _ f hfm (h.watched q f ha hd ho hf)
      · simp only [upd_other _ _ _ _ hq] at ha hd ⊢
        exact h.watched q f ha hd ho hf

theorem winv_reclaim (cfg : Cfg) (s : St) (own) (p : Proc) (f0 : Name) (hI : Inv cfg s) (h : WInv s own)
    (en : enabled s (.reclaim p f0) = true) :
    WInv (apply cfg s (.reclaim p f0)).1 (ownStep own (.reclaim p f0)) := by
  simp only [enabled, Bool.and_eq_true, Bool.not_eq_true', List.contains_eq_mem,
    decide_eq_false_iff_not, decide_eq_true_eq] at en
  obtain ⟨⟨hdrop, hw⟩, hfa⟩ := en
  have hne : ∀ q g, s.ipc = some (q, g) → f0 ≠ g := by
    intro q g hg e; subst e; exact hfa (hI.ipcInv q _ hg).2.1
  have hloc : ∀ q f, f ≠ f0 → WatchedP (s.procs q) f →
      WatchedP (upd s.procs p { (s.procs p) with watch := (s.procs p).watch.erase f0 } q) f := by
    intro q f hf hwp
    by_cases hq : q = p
    · subst hq
      simp only [upd_same]
      refine watchedP_congr (s.procs q) _ f ?_ Iff.rfl rfl hwp
      intro hm; exact (List.mem_erase_of_ne hf).mpr hm
    · simpa [upd_other _ _ _ _ hq] using hwp
  have hsame : ∀ q, (upd s.procs p { (s.procs p) with watch := (s.procs p).watch.erase f0 } q).alive = (s.procs q).alive ∧
      (upd s.procs p { (s.procs p) with watch := (s.procs p).watch.erase f0 } q).dropped = (s.procs q).dropped ∧
      (upd s.procs p { (s.procs p) with watch := (s.procs p).watch.erase f0 } q).cache = (s.procs q).cache ∧
      (upd s.procs p { (s.procs p) with watch := (s.procs p).watch.erase f0 } q).pending = (s.procs q).pending := by
    intro q; by_cases hq : q = p
    · subst hq; simp
    · simp [upd_other _ _ _ _ hq]
  simp only [apply, ownStep]
  split
  · refine ⟨h.ownIpc, ?_, ?_, ?_⟩
    · intro q g hg
      show lookupW g (rmFile f0 s.disk) = some false
      rw [lookupW_rmFile]; simp only [hne q g hg, if_false]; exact h.ipcHalf q g hg
    · intro q g r hg hr ha hd hc
      simp only [bc_alive, bc_dropped, bc_cache, (hsame r).1, (hsame r).2.1, (hsame r).2.2.1] at ha hd hc
      exact bc_pending_mono _ _ _ _ (by rw [(hsame r).2.2.2]; exact h.half q g r hg hr ha hd hc)
    · intro q f ha hd ho hf
      have hf' : lookupW f (rmFile f0 s.disk) = some true := hf
      rw [lookupW_rmFile] at hf'
      have hfg : f0 ≠ f := by intro e; simp [e] at hf'
      simp only [hfg, if_false] at hf'
      simp only [bc_alive, bc_dropped, (hsame q).1, (hsame q).2.1] at ha hd
      simp only [Watched]
      apply watchedP_bc
      exact hloc q f (Ne.symm hfg) (h.watched q f ha hd ho hf')
  · rename_i hnd
    refine ⟨h.ownIpc, h.ipcHalf, ?_, ?_⟩
    · intro q g r hg hr ha hd hc
      simp only [(hsame r).1, (hsame r).2.1, (hsame r).2.2.1] at ha hd hc
      rw [(hsame r).2.2.2]; exact h.half q g r hg hr ha hd hc
    · intro q f ha hd ho hf
      have hfg : f ≠ f0 := by intro e; subst e; exact hnd (lookupW_some_mem _ _ _ hf)
      simp only [(hsame q).1, (hsame q).2.1] at ha hd
      exact hloc q f hfg (h.watched q f ha hd ho hf)


/-- what one dispatched event does to the cache of the process, as far as a file `g` that is still empty is
    concerned: `g` is not added, and it stays unless its own deletion was the event. -/
theorem dispatch_cache_half (cfg : Cfg) (d) (P : PSt) (e : FsEv) (g : Name) (hg : lookupW g d = some false)
    (nd : P.cache.Nodup) (hm : g ∈ (dispatch cfg d P e).1.cache) : g ∈ P.cache ∧ e ≠ .deleted g := by
  cases e with
  | deleted h =>
    simp only [dispatch] at hm
    split at hm
    · have := (nd.mem_erase_iff).mp hm
      exact ⟨this.2, by intro e; cases e; exact this.1 rfl⟩
    · rename_i hh; exact ⟨hm, by intro e; cases e; exact hh hm⟩
  | created h | modified h =>
    refine ⟨?_, by intro e; cases e⟩
    simp only [dispatch] at hm
    split at hm
    · exact hm
    · split at hm
      · exact hm
      · split at hm <;> exact hm
      · rename_i hl
        simp only [List.mem_append, List.mem_singleton] at hm
        rcases hm with hm | rfl
        · exact hm
        · rw [hg] at hl; cases hl

theorem dispatch_pending (cfg : Cfg) (d) (P : PSt) (e : FsEv) (ha : (dispatch cfg d P e).1.alive = true) :
    (dispatch cfg d P e).1.pending = P.pending := by
  cases e with
  | deleted h => simp only [dispatch]; split <;> rfl
  | created h | modified h =>
    simp only [dispatch] at ha ⊢
    split
    · rfl
    · rename_i hh
      simp only [hh, if_false] at ha
      split
      · rfl
      · split
        · rfl
        · rename_i hl ht; simp [hl, ht] at ha
      · rfl

theorem dispatch_dropped (cfg : Cfg) (d) (P : PSt) (e : FsEv) : (dispatch cfg d P e).1.dropped = P.dropped := by
  cases e with
  | deleted h => simp only [dispatch]; split <;> rfl
  | created h | modified h =>
    simp only [dispatch]
    split
    · rfl
    · split
      · rfl
      · split <;> rfl
      · rfl

theorem winv_fsEvent (cfg : Cfg) (s : St) (own) (p : Proc) (hI : Inv cfg s) (h : WInv s own)
    (en : enabled s (.fsEvent p) = true) :
    WInv (apply cfg s (.fsEvent p)).1 (ownStep own (.fsEvent p)) := by
  simp only [enabled, Bool.and_eq_true, Bool.not_eq_true', ipcProc, bne_iff_ne, ne_eq] at en
  obtain ⟨⟨⟨halive, hdrop⟩, _⟩, hnp⟩ := en
  simp only [apply, ownStep]
  cases hpend : (s.procs p).pending with
  | nil => simpa using h
  | cons e rest =>
    simp only
    refine ⟨h.ownIpc, h.ipcHalf, ?_, ?_⟩
    · intro q g r hg hr ha hd hc
      by_cases hrp : r = p
      · subst hrp
        simp only [upd_same] at ha hd hc ⊢
        rw [dispatch_pending cfg _ _ _ ha]
        have := dispatch_cache_half cfg s.disk { (s.procs r) with pending := rest } e g (h.ipcHalf q g hg) (hI.nodupCache r) hc
        have h2 := h.half q g r hg hr halive hdrop this.1
        rw [hpend] at h2
        simp only [List.mem_cons] at h2
        rcases h2 with h2 | h2
        · exact absurd h2.symm this.2
        · exact h2
      · simp only [upd_other _ _ _ _ hrp] at ha hd hc ⊢
        exact h.half q g r hg hr ha hd hc
    · intro q f ha hd ho hf
      simp only [Watched]
      by_cases hq : q = p
      · subst hq
        simp only [upd_same] at ha hd ⊢
        exact watchedP_dispatch cfg s.disk (s.procs q) e rest f hpend hf (hI.nodupCache q)
          (h.watched q f halive hdrop ho hf) ha
      · simp only [upd_other _ _ _ _ hq] at ha hd ⊢
        exact h.watched q f ha hd ho hf

theorem winv_step (cfg : Cfg) (s : St) (own) (e : Ev) (hI : Inv cfg s) (h : WInv s own) (en : enabled s e = true) :
    WInv (apply cfg s e).1 (ownStep own e) := by
  cases e with
  | acquireBegin p f => exact winv_acquireBegin cfg s own p f hI h en
  | acquireEnd p => exact winv_acquireEnd cfg s own p hI h en
  | release p f => exact winv_release cfg s own p f hI h en
  | fsEvent p => exact winv_fsEvent cfg s own p hI h en
  | reclaim p f => exact winv_reclaim cfg s own p f hI h en
  | jobGone f => exact ⟨h.ownIpc, h.ipcHalf, h.half, h.watched⟩
  | drop p =>
    simp only [apply, ownStep]
    refine ⟨h.ownIpc, h.ipcHalf, ?_, ?_⟩
    · intro q g r hg hr ha hd hc
      by_cases hrp : r = p
      · subst hrp; simp at ha
      · simp only [upd_other _ _ _ _ hrp] at ha hd hc ⊢; exact h.half q g r hg hr ha hd hc
    · intro q f ha hd ho hf
      by_cases hq : q = p
      · subst hq; simp at ha
      · simp only [Watched, upd_other _ _ _ _ hq] at ha hd ⊢; exact h.watched q f ha hd ho hf
  | restart p =>
    simp only [enabled, Bool.and_eq_true, Option.isNone_iff_eq_none] at en
    simp only [apply, ownStep]
    refine ⟨?_, ?_, ?_, ?_⟩
    · intro q g hg; simp [en.2] at hg
    · intro q g hg; simp [en.2] at hg
    · intro q g r hg; simp [en.2] at hg
    · intro q f ha hd ho hf
      by_cases hq : q = p
      · subst hq
        simp only [Watched, upd_same]
        left; exact watchedP_recount_new cfg s.disk fresh f (lookupW_some_mem _ _ _ hf) (by simp [fresh])
      · simp only [Watched, upd_other _ _ _ _ hq] at ha hd ⊢
        refine h.watched q f ha hd ?_ hf
        intro e; apply ho; simp [e, hq]
  | recreate p => exact ⟨h.ownIpc, h.ipcHalf, h.half, h.watched⟩

theorem reachableO_winv (cfg : Cfg) (s : St) (own) (r : ReachableO cfg s own) : WInv s own := by
  induction r with
  | init => exact winv_init cfg
  | step e r' en ih => exact winv_step cfg _ _ e (reachable_inv cfg _ (reachableO_reachable cfg _ _ r')) ih en


theorem ww_has_modified (f : Name) : ∀ (l : List FsEv) (c : Bool), ww f c l = true → FsEv.modified f ∈ l := by
  intro l
  induction l with
  | nil => intro c h; simp [ww] at h
  | cons e r ih =>
    intro c h
    cases e with
    | deleted g => simp only [ww] at h; exact List.mem_cons_of_mem _ (ih _ h)
    | created g => simp only [ww] at h; exact List.mem_cons_of_mem _ (ih _ h)
    | modified g =>
      by_cases hg : g = f
      · subst hg; simp
      · simp only [ww, hg, if_false] at h; exact List.mem_cons_of_mem _ (ih _ h)

theorem dispatch_alive_tolerant (cfg : Cfg) (d) (P : PSt) (e : FsEv) (ht : cfg.tolerant = true) :
    (dispatch cfg d P e).1.alive = P.alive := by
  cases e with
  | deleted h => simp only [dispatch]; split <;> rfl
  | created h | modified h =>
    simp only [dispatch, ht, if_true]
    split
    · rfl
    · split <;> rfl

/-- `n` consecutive dispatches of the observer of `q`. -/
def drain (cfg : Cfg) (q : Proc) : Nat → St → St
  | 0, s => s
  | n + 1, s => drain cfg q n (apply cfg s (.fsEvent q)).1

/-- fairness measure: with tolerant callbacks, the `n` events queued now are gone after `n` dispatches of the
    observer, every one of them enabled; the directory, the jobs and the IPC lock are not touched. -/
theorem drain_spec (cfg : Cfg) (q : Proc) (ht : cfg.tolerant = true) : ∀ (n : Nat) (s : St) (own : Name → Option Proc),
    ReachableO cfg s own → (s.procs q).alive = true → (s.procs q).dropped = false → ipcProc s ≠ some q →
    (s.procs q).pending.length = n →
    let s' := drain cfg q n s
    ReachableO cfg s' own ∧ s'.disk = s.disk ∧ s'.active = s.active ∧ s'.ipc = s.ipc ∧
    (s'.procs q).pending = [] ∧ (s'.procs q).alive = true ∧ (s'.procs q).dropped = false := by
  intro n
  induction n with
  | zero =>
    intro s own r ha hd _ hl
    exact ⟨r, rfl, rfl, rfl, List.eq_nil_of_length_eq_zero hl, ha, hd⟩
  | succ n ih =>
    intro s own r ha hd hi hl
    cases hp : (s.procs q).pending with
    | nil => simp [hp] at hl
    | cons e rest =>
      have en : enabled s (.fsEvent q) = true := by
        simp only [enabled, ha, hd, hp, Bool.not_false, Bool.and_true, Bool.true_and]
        simpa using hi
      have r' := ReachableO.step (cfg := cfg) (.fsEvent q) r en
      simp only [ownStep] at r'
      have hs : (apply cfg s (.fsEvent q)).1 = { s with procs := upd s.procs q (dispatch cfg s.disk { (s.procs q) with pending := rest } e).1 } := by
        simp only [apply, hp]
      have ha' : ((apply cfg s (.fsEvent q)).1.procs q).alive = true := by
        rw [hs]; simp only [upd_same]; rw [dispatch_alive_tolerant cfg _ _ _ ht]; exact ha
      have hd' : ((apply cfg s (.fsEvent q)).1.procs q).dropped = false := by
        rw [hs]; simp only [upd_same]; rw [dispatch_dropped]; exact hd
      have hl' : ((apply cfg s (.fsEvent q)).1.procs q).pending.length = n := by
        have : ((apply cfg s (.fsEvent q)).1.procs q).pending = rest := by
          rw [hs]; simp only [upd_same]
          rw [dispatch_pending cfg _ _ _ (by rw [dispatch_alive_tolerant cfg _ _ _ ht]; exact ha)]
        rw [this]; rw [hp] at hl; simpa using hl
      have hi' : ipcProc (apply cfg s (.fsEvent q)).1 ≠ some q := by rw [hs]; exact hi
      have := ih _ own r' ha' hd' hi' hl'
      simp only [drain]
      obtain ⟨h1, h2, h3, h4, h5⟩ := this
      refine ⟨h1, ?_, ?_, ?_, h5⟩
      · rw [h2, hs]
      · rw [h3, hs]
      · rw [h4, hs]


def ownRun (own : Name → Option Proc) : List Ev → Name → Option Proc
  | [] => own
  | e :: r => ownRun (ownStep own e) r

theorem reachableO_run (cfg : Cfg) (evs : List Ev) : ∀ s own, ReachableO cfg s own → allEnabled cfg s evs = true →
    ReachableO cfg (run cfg s evs) (ownRun own evs) := by
  induction evs with
  | nil => intro s own r _; exact r
  | cons e rest ih =>
    intro s own r h
    simp only [allEnabled, Bool.and_eq_true] at h
    exact ih _ _ (ReachableO.step e r h.1) h.2

/-- the re-created file with a stale cache entry: process 1 caches file 7 of process 0 and watches the job; the job
    ends, the watcher thread of process 1 removes the file and ends; process 0 takes the token again for the same job
    (same file name); process 1 recounts (a failed acquisition) while the three events are still queued: its old
    cache entry survives, no watcher is started by the recount. -/
def evsStale : List Ev := [.acquireBegin 0 7, .acquireEnd 0, .fsEvent 1, .fsEvent 1, .jobGone 7, .reclaim 1 7, .release 0 7,
                           .acquireBegin 0 7, .acquireEnd 0, .acquireBegin 1 8]

/-- process 0 takes the token for job 7 and dies; the job runs on. -/
def evsCrash : List Ev := [.acquireBegin 0 7, .acquireEnd 0, .drop 0]

end XpmVerif.FileTokens
