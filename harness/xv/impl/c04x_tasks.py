"""Tasks of the launcher scenarios of C04 (xv.props.c04x_launchers).  Imported by the experiment process and by the real job
processes (through PYTHONPATH=<harness>), hence a real module and not generated source.

Every job process appends `<k> begin` when its `execute` starts and `<k> end-success` / `<k> end-failure` as the last thing it
does, to one shared log opened O_APPEND (one write per record): the order of the lines is the order of the events, no clock is
compared.  A task whose outcome is "overrun" never ends by itself (the resource manager that runs it enforces a time limit)."""
import os
import time
from pathlib import Path
from typing import List, Optional

from experimaestro import Config, Meta, Param, Task


def record(log, *fields):
    fd = os.open(str(log), os.O_WRONLY | os.O_APPEND | os.O_CREAT)
    try:
        os.write(fd, (" ".join(str(f) for f in fields) + "\n").encode())
    finally:
        os.close(fd)


class Out(Config):
    __xpmid__ = "xvc04x.out"
    v: Param[int]


class Holder(Config):
    __xpmid__ = "xvc04x.holder"
    inner: Param[Optional["Step"]]
    out: Param[Optional[Out]]


class Step(Task):
    __xpmid__ = "xvc04x.step"
    k: Param[int]
    salt: Param[int]
    outcome: Param[str]
    a: Param[Optional["Step"]]
    items: Param[List["Step"]] = []
    h: Param[Optional[Holder]]
    os: Param[List[Out]] = []
    log: Meta[Path]
    dur: Meta[float] = 0.05

    def execute(self):
        record(self.log, self.k, "begin")
        if self.outcome == "overrun":
            time.sleep(600)
        time.sleep(self.dur)
        if self.outcome != "ok":
            record(self.log, self.k, "end-failure")
            raise RuntimeError("this step fails")
        record(self.log, self.k, "end-success")


class StepO(Step):
    """its submit returns a configuration marked as produced by this task"""
    __xpmid__ = "xvc04x.stepo"

    def task_outputs(self, dep):
        return dep(Out(v=self.k))
