import XpmVerif.Model.GenPath
/-! M6, source side of the path arithmetic (C17): the `pathlib` operations and string operations that
    `generators.py` `PathGenerator.__call__`, `ConfigWalkContext.push / currentpath`, `dictkey_component` (core/objects.py),
    `Job.relpath / path`, `JobContext.path` (scheduler/base.py) are written with.  `Generated/GenPathSrc.lean` (written by
    `harness/xv/translate/genpathsrc.py` from the tree under test) is expressed in these; `Properties/C17Src.lean` proves the
    generated definitions equal to the hand-written model of `Model/GenPath.lean`. -/
namespace XpmVerif.GenPath

/-- `Path(s)` (pure POSIX path of a string). -/
def PPath.ofStr (s : Str) : PPath := ⟨isAbs s, parts s⟩

/-- `p / q` of pathlib for two paths. -/
def PPath.joinP (p q : PPath) : PPath := if q.abs then q else ⟨p.abs, p.comps ++ q.comps⟩

/-- the job directory itself (`context.path`): generated paths are kept relative to it. -/
def jobRoot : PPath := ⟨false, []⟩

/-- `s.replace(c, r)` for a one-character `c`. -/
def replaceChar (c : Char) (r : Str) (s : Str) : Str := s.flatMap (fun x => if x = c then r else [x])

/-- `s.replace(c1, r1).replace(c2, r2)…`, in order. -/
def applyChain : List (Char × Str) → Str → Str
  | [], s => s
  | (c, r) :: rest, s => applyChain rest (replaceChar c r s)

/-- the statements of `ConfigInformation.submit` that matter for the generated paths, in source order. -/
inductive SubmitStep where
  | setInitTasks      -- `self.init_tasks = init_tasks`
  | createJob         -- `self.job = self.xpmtype.task(…)`
  | sealRoot          -- `self.validate_and_seal(job_context)`
  | sealInitTasks     -- the loop sealing each init task under `push("__init_tasks__")` / `push(str(ix))`
  deriving DecidableEq, Repr, Inhabited

def stepIndex (l : List SubmitStep) (s : SubmitStep) : Nat := l.idxOf s

end XpmVerif.GenPath
