"""Entry point: python -m xv.main Cxx [--tier quick|thorough] [--replay path]"""
import argparse
import importlib
import json
import os
import sys
import traceback

from . import common


def main():
    ap = argparse.ArgumentParser()
    ap.add_argument("prop")
    ap.add_argument("--tier", default=os.environ.get("VERIF_TIER", "quick"), choices=["quick", "thorough"])
    ap.add_argument("--replay")
    args = ap.parse_args()
    seed = int(os.environ.get("VERIF_SEED", "0") or 0)
    mod = importlib.import_module(f"xv.props.{args.prop.lower()}")
    ctx = common.Ctx(args.prop, args.tier, seed)
    try:
        if args.replay:
            return mod.replay(ctx, json.loads(open(args.replay).read()))
        # steps 1-2: translate, build, audit
        mod.prove(ctx)
        # step 3: correspondence and monitors (corpus first)
        mod.correspond(ctx)
        # step 4: witnesses of known / fixed findings
        for f in common.load_findings(args.prop):
            if hasattr(mod, "run_witness"):
                mod.run_witness(ctx, f)
        # step 5
        return common.verdict(ctx, getattr(mod, "search", None), getattr(mod, "LEVEL", "proof"))
    except Exception:
        traceback.print_exc()
        print(f"HARNESS-ERROR property={args.prop} (exit 2: not a verdict)")
        return 2
    finally:
        ctx.cleanup()


if __name__ == "__main__":
    sys.exit(main())
