"""Real kill / restart runs (C11) and racing launches of one real job script (C05).

usage: python -m xv.impl.restart_worker <in.json> <out.json>
in:  {"kind": "restart" | "race" | "twosched", "cases": [case], "parallel": n}
out: [observation per case]

restart case: {"id", "jobs": [{"x": int, "deps": [index], "token": bool}], "token_total": int|None,
               "phase": "before-launch" | "running" | "between" | "token-held" | "mid-launch" | "mid-pidwrite"
                        | "mid-prepare:after-params" | "mid-prepare:after-script-before-chmod" | "mid-prepare:before-spawn",
               "signal": "SIGKILL" | "SIGTERM" | "SIGINT"}
  An experiment script (a real `experiment`, real `CommandLineJob`s, real job processes) is started in a subprocess;
  task bodies log `start x pid t`, wait for a gate file, log `end x pid t`.  At the phase (file rendezvous) the
  signal is sent to the scheduler pid only; the same script is run again; gates are opened; everything observable is
  collected.  Taps installed by the script at run time (wrappers around `CommandLineJob.aio_run/aio_process` and
  `LocalProcessBuilder.start`) give the rendezvous for two phases and a diagnostic log; no source change.

restart case with "suspend": "adopted" | "at-resubmission", "suspend_for": seconds (phase "running+…"): the job processes that survived the kill
  are suspended (SIGSTOP) for `suspend_for` seconds and resumed (SIGCONT) — "adopted": while the second run waits on them (after it adopted
  them); "at-resubmission": suspended before the second run starts, resumed once it has submitted and looked at every job.  What job control,
  a cluster suspend/resume or a debugger attaching do to a job; a suspended process is alive and goes on.

restart case with "kills": 2 : {"id", "jobs", "token_total", "signals": [s1, s2], "phase2": "running" | "between"}
  killed while the first root job runs, run again (adopts), killed again at phase2, run a third time: must finish.

twosched case: {"id", "n": 2|3, "mode": "forced" | "free", "offsets": [s], "slow": [s], "hold": s, "max_slow": s}
  n real experiment processes (names xp0..) on ONE workspace submit the same task configuration; a public scheduler
  `Listener` may be slow in job_state while the job is started (job lock held); the lock file identity is watched.

race case: {"id", "n": 2|3, "fail_first": bool, "offsets": [seconds]}
  One real job script (`RunMode.GENERATE_ONLY`) is launched n times concurrently, each launcher following
  `aio_start`/`aio_run` (take `<job>.lock`, spawn, write `<job>.pid`, release).
"""
import ctypes
import json
import os
import shutil
import signal
import subprocess
import sys
import tempfile
import threading
import time
from concurrent.futures import ThreadPoolExecutor
from pathlib import Path

PY = sys.executable
OWN = set()  # pids of our own Popen children (never reaped by the orphan reaper)

LIB = '''import os, time
from pathlib import Path
from typing import List
from experimaestro import Config, Task, Param, Meta


def _log(path, line):
    fd = os.open(str(path), os.O_WRONLY | os.O_APPEND | os.O_CREAT, 0o644)
    try:
        os.write(fd, (line + "\\n").encode())
    finally:
        os.close(fd)


class Gated(Task):
    """body: log start, wait for the gate file, log end"""
    __xpmid__ = "xvc11.gated"
    x: Param[int]
    after: Param[List[Config]] = []
    logf: Meta[Path]
    gate: Meta[Path]

    def execute(self):
        _log(self.logf, f"start {self.x} {os.getpid()} {time.time()}")
        while not Path(self.gate).exists():
            time.sleep(0.02)
        _log(self.logf, f"end {self.x} {os.getpid()} {time.time()}")


class Racer(Task):
    """body: log start, hold for a while, fail the first time if asked, log end"""
    __xpmid__ = "xvc05.racer"
    x: Param[int]
    hold: Param[float]
    fail_first: Param[bool]
    logf: Meta[Path]

    def execute(self):
        _log(self.logf, f"start {self.x} {os.getpid()} {time.time()}")
        time.sleep(self.hold)
        if self.fail_first:
            flag = Path(str(self.logf) + ".failed-once")
            if not flag.exists():
                flag.touch()
                _log(self.logf, f"fail {self.x} {os.getpid()} {time.time()}")
                raise RuntimeError("first execution fails")
        _log(self.logf, f"end {self.x} {os.getpid()} {time.time()}")
'''

XPMAIN = '''import asyncio, json, os, sys, time
from pathlib import Path
case = json.loads(Path(sys.argv[1]).read_text()); run = sys.argv[2]
ws = Path(case["ws"])
os.environ["XPM_WORKDIR"] = str(ws / "xpmwork")
sys.path.insert(0, case["libroot"])
import logging
logging.basicConfig(level=logging.ERROR)
import xvlib as L
from experimaestro import experiment
import experimaestro.commandline as C
import experimaestro.connectors.local as LOC

tapf = open(ws / "tap.log", "a", buffering=1)
def tap(*a):
    tapf.write(json.dumps([run, time.time(), *a]) + "\\n")

# taps installed from outside (rendezvous for two phases + diagnostics)
_run = C.CommandLineJob.aio_run
async def aio_run(self):
    tap("aio_run", self.config.x)
    CUR["x"] = self.config.x
    if run == "1" and case["phase"] == "before-launch":
        (ws / "at_launch").touch()
        while True:
            await asyncio.sleep(0.05)
    r = await _run(self)
    tap("launched", self.config.x)
    return r
C.CommandLineJob.aio_run = aio_run
_proc = C.CommandLineJob.aio_process
async def aio_process(self):
    had = self._process
    p = await _proc(self)
    if p is not None and had is None:
        tap("adopted", self.config.x)
    return p
C.CommandLineJob.aio_process = aio_process
import experimaestro.scheduler.base as B
_submit = B.Scheduler.aio_submit
async def aio_submit(self, job):
    try:
        return await _submit(self, job)
    except BaseException as e:
        if type(e).__name__ != "CancelledError":
            tap("aio_submit-raised", job.config.x, type(e).__name__, str(e)[:120])
        raise
B.Scheduler.aio_submit = aio_submit
_start = LOC.LocalProcessBuilder.start
def start(self, *a, **k):
    p = _start(self, *a, **k)
    if run == "1" and case["phase"] == "mid-launch":
        tap("spawned", p._process.pid)
        (ws / "spawned").write_text(str(p._process.pid))
        while True:
            time.sleep(0.05)
    return p
LOC.LocalProcessBuilder.start = start
class _Json:
    # the `json` name of commandline.py only: die between `pidpath.open("w")` and the write of its content
    def __getattr__(self, k):
        return getattr(json, k)
    def dump(self, obj, fp, *a, **k):
        if run == "1" and case["phase"] == "mid-pidwrite" and str(getattr(fp, "name", "")).endswith(".pid"):
            (ws / "pid_opened").write_text(str(obj.get("pid")))
            while True:
                time.sleep(0.05)
        return json.dump(obj, fp, *a, **k)
C.json = _Json()
# death inside CommandLineJob.prepare (script generation): after params.json, after the script before chmod, before the spawn
CUR = {"x": None}
def _hold(point):
    (ws / "prepare_point").write_text(json.dumps({"point": point, "x": CUR["x"]}))
    tap("prepare-hold", CUR["x"], point)
    while True:
        time.sleep(0.05)
_popen = Path.open
def popen(self, mode="r", *a, **k):
    if (run == "1" and case["phase"] == "mid-prepare:after-params" and self.suffix == ".py" and "w" in mode
            and str(ws / "jobs") in str(self)):
        _hold("after-params")
    return _popen(self, mode, *a, **k)
Path.open = popen
_setx = LOC.LocalConnector.setExecutable
def setx(self, path, flag):
    if run == "1" and case["phase"] == "mid-prepare:after-script-before-chmod":
        _hold("after-script-before-chmod")
    r = _setx(self, path, flag)
    if run == "1" and case["phase"] == "mid-prepare:before-spawn":
        _hold("before-spawn")
    return r
LOC.LocalConnector.setExecutable = setx

final = {"error": None}
try:
    with experiment(ws, "restart", port=-1) as xp:
        xp.setenv("PYTHONPATH", case["pythonpath"])
        token = xp.token("xvtok", case["token_total"]) if case.get("token_total") else None
        outs, tasks = [], []
        for js in case["jobs"]:
            t = L.Gated(x=js["x"], after=[outs[d] for d in js["deps"]], logf=ws / "task.log", gate=ws / f"gate.{js['x']}")
            if js.get("token") and token is not None:
                token(1, t)
            outs.append(t.submit())
            tasks.append(t)
        (ws / f"ids.{run}.json").write_text(json.dumps({str(t.x): t.__xpm__.identifier.all.hex() for t in tasks}))
        (ws / f"submitted.{run}").touch()
        xp.wait()
except BaseException as e:
    final["error"] = f"{type(e).__name__}: {e}"
try:
    final["states"] = [t.__xpm__.job.state.name for t in tasks]
except Exception as e:
    final["states"] = None
(ws / f"final.{run}.json").write_text(json.dumps(final))
'''

XP2 = '''import json, os, sys, time
from pathlib import Path
case = json.loads(Path(sys.argv[1]).read_text()); k = int(sys.argv[2])
ws = Path(case["ws"])
os.environ["XPM_WORKDIR"] = str(ws / "xpmwork")
sys.path.insert(0, case["libroot"])
import logging
logging.basicConfig(level=logging.ERROR)
import xvlib as L
from experimaestro import experiment
from experimaestro.scheduler import Listener, JobState

class SlowStart(Listener):
    \"\"\"public scheduler listener: something slow done while the job is being started (job lock held)\"\"\"
    def __init__(self):
        self.done = False
    def job_state(self, job):
        if job.state == JobState.READY and not self.done:
            self.done = True
            (ws / f"starting.{k}").touch()
            if case["mode"] == "forced":
                # scheduler 0 is slow until the others have submitted (they queue on the job lock); the others are slow
                # until the job launched before them has started its body
                end = time.time() + case["max_slow"]
                if k == 0:
                    cond = lambda: all((ws / f"submitted.{i}").exists() for i in range(1, case["n"]))
                else:
                    cond = lambda: sum(1 for l in (ws / "task.log").read_text().splitlines() if l.startswith("start")) >= k if (ws / "task.log").exists() else False
                while time.time() < end and not cond():
                    time.sleep(0.02)
                time.sleep(0.3)
            else:
                time.sleep(case["slow"][k])

final = {"error": None, "state": None}
time.sleep(case["offsets"][k])
if case["mode"] == "forced" and k > 0:
    t_end = time.time() + 30
    while not (ws / "starting.0").exists() and time.time() < t_end:
        time.sleep(0.01)
try:
    with experiment(ws, f"xp{k}", port=-1) as xp:
        xp.setenv("PYTHONPATH", case["pythonpath"])
        if case["mode"] == "forced" or case["slow"][k] > 0:
            xp.scheduler.addlistener(SlowStart())
        t = L.Racer(x=case["x"], hold=case["hold"], fail_first=False, logf=ws / "task.log")
        t.submit()
        job = t.__xpm__.job
        (ws / f"lock.{k}").write_text(str(job.lockpath))
        if k > 0:
            time.sleep(0.4)
        (ws / f"submitted.{k}").touch()
        xp.wait()
    final["state"] = t.__xpm__.job.state.name
except BaseException as e:
    final["error"] = f"{type(e).__name__}: {e}"
    try:
        final["state"] = t.__xpm__.job.state.name
    except Exception:
        pass
(ws / f"final.{k}.json").write_text(json.dumps(final))
'''

RACEGEN = '''import json, os, sys
from pathlib import Path
case = json.loads(Path(sys.argv[1]).read_text())
ws = Path(case["ws"])
os.environ["XPM_WORKDIR"] = str(ws / "xpmwork")
sys.path.insert(0, case["libroot"])
import xvlib as L
from experimaestro import experiment, RunMode
with experiment(ws, "race", port=-1, run_mode=RunMode.GENERATE_ONLY) as xp:
    xp.setenv("PYTHONPATH", case["pythonpath"])
    t = L.Racer(x=case["x"], hold=case["hold"], fail_first=case["fail_first"], logf=ws / "task.log")
    t.submit()
    job = t.__xpm__.job
    print(json.dumps({"script": str(job.path / (job.name + ".py")), "lock": str(job.lockpath), "pid": str(job.pidpath),
                      "done": str(job.donepath), "failed": str(job.failedpath)}))
'''

LAUNCHER = '''import json, subprocess, sys, time
import fasteners
script, lockpath, pidpath, offset, out = sys.argv[1], sys.argv[2], sys.argv[3], float(sys.argv[4]), sys.argv[5]
time.sleep(offset)
# scheduler side of one launch: aio_start takes the job lock, aio_run spawns and writes the pid file, the lock is released
lock = fasteners.InterProcessLock(lockpath)
lock.acquire(blocking=True)
try:
    p = subprocess.Popen([sys.executable, script], stdout=open(out + ".out", "w"), stderr=open(out + ".err", "w"), close_fds=True, cwd="/")
    with open(pidpath, "w") as fp:
        json.dump({"type": "local", "pid": p.pid}, fp)
finally:
    lock.release()
rc = p.wait()
print(json.dumps({"pid": p.pid, "rc": rc}))
'''


def wait_for(cond, timeout, step=0.02):
    t0 = time.time()
    while time.time() - t0 < timeout:
        if cond():
            return True
        time.sleep(step)
    return cond()


def read_log(path):
    """[(kind, x, pid, t)]"""
    res = []
    if not Path(path).exists():
        return res
    for l in Path(path).read_text().splitlines():
        a = l.split()
        if len(a) == 4:
            res.append((a[0], int(a[1]), int(a[2]), float(a[3])))
    return res


def pid_alive(pid):
    try:
        os.kill(pid, 0)
    except ProcessLookupError:
        return False
    except PermissionError:
        return True
    # a zombie is not alive for our purpose
    try:
        st = Path(f"/proc/{pid}/stat").read_text().rsplit(")", 1)[1].split()[0]
        return st != "Z"
    except Exception:
        return True


def proc_state(pid):
    """state letter of /proc/<pid>/stat (R S D T t Z …), "-" when the process is gone"""
    try:
        return Path(f"/proc/{pid}/stat").read_text().rsplit(")", 1)[1].split()[0]
    except Exception:
        return "-"


def child_env(libroot):
    env = dict(os.environ)
    pp = [str(libroot)] + ([env["PYTHONPATH"]] if env.get("PYTHONPATH") else [])
    env["PYTHONPATH"] = ":".join(pp)
    env["PYTHONWARNINGS"] = "ignore"
    env["PYTHONDONTWRITEBYTECODE"] = "1"
    return env


def prepare(root: Path, case):
    libroot = root / "lib"
    (libroot / "xvlib").mkdir(parents=True, exist_ok=True)
    (libroot / "xvlib" / "__init__.py").write_text(LIB)
    ws = root / "ws"
    ws.mkdir(exist_ok=True)
    env = child_env(libroot)
    full = dict(case, ws=str(ws), libroot=str(libroot), pythonpath=env["PYTHONPATH"])
    (root / "case.json").write_text(json.dumps(full))
    return ws, env, full


# ------------------------------------------------------------------------------------------ restart


def run_restart_case(case, timeout=60):
    timeout = timeout * load_factor()
    root = Path(tempfile.mkdtemp(prefix="xv-c11-"))
    obs = {"id": case["id"], "error": None}
    procs = []
    try:
        ws, env, full = prepare(root, case)
        (root / "xpmain.py").write_text(XPMAIN)
        sig = getattr(signal, case["signal"])
        log = ws / "task.log"
        cmd = [PY, str(root / "xpmain.py"), str(root / "case.json")]
        t0 = time.time()
        p1 = subprocess.Popen(cmd + ["1"], env=env, stdout=subprocess.DEVNULL, stderr=open(root / "err1", "w"), cwd=str(root))
        procs.append(p1)
        OWN.add(p1.pid)
        phase = case["phase"].split("+")[0]   # "running+suspend-adopted" / "running+suspended-at-resubmission": killed in phase "running"
        suspend = case.get("suspend")          # None | "adopted" | "at-resubmission"
        xs = [j["x"] for j in case["jobs"]]
        roots = [j["x"] for j in case["jobs"] if not j["deps"]]

        def started(x):
            return any(k == "start" and xx == x for k, xx, _, _ in read_log(log))

        def ended(x):
            return any(k == "end" and xx == x for k, xx, _, _ in read_log(log))

        ok = True
        if phase == "before-launch":
            ok = wait_for(lambda: (ws / "at_launch").exists(), timeout)
        elif phase in ("running", "token-held"):
            # with a token at capacity any of the root jobs may be the one that got it
            ok = wait_for(lambda: started(roots[0]) or (case.get("token_total") and any(started(x) for x in roots)), timeout)
            if phase == "running" and not case.get("token_total"):
                # every job without dependency gets launched
                wait_for(lambda: all(started(x) for x in roots), 5)
        elif phase == "between":
            ok = wait_for(lambda: started(roots[0]), timeout)
            (ws / f"gate.{roots[0]}").touch()
            ok = ok and wait_for(lambda: ended(roots[0]), timeout, step=0.002)
            time.sleep(case.get("delay", 0.0))
        elif phase == "mid-launch":
            ok = wait_for(lambda: (ws / "spawned").exists(), timeout)
        elif phase == "mid-pidwrite":
            ok = wait_for(lambda: (ws / "pid_opened").exists(), timeout)
        elif phase.startswith("mid-prepare"):
            ok = wait_for(lambda: (ws / "prepare_point").exists(), timeout)
        obs["rendezvous"] = ok
        obs["t_phase"] = round(time.time() - t0, 2)
        os.kill(p1.pid, sig)
        t_kill = time.time()
        try:
            obs["rc1"] = p1.wait(timeout=timeout)
        except subprocess.TimeoutExpired:
            obs["rc1"] = "timeout"
            p1.kill()
            p1.wait()
        time.sleep(0.2)
        lines = read_log(log)
        open_bodies = {x: pid for k, x, pid, _ in lines if k == "start"}
        for k, x, pid, _ in lines:
            if k == "end":
                open_bodies.pop(x, None)
        obs["alive_after_kill"] = {str(x): pid_alive(pid) for x, pid in open_bodies.items()}
        obs["started_before_kill"] = sorted(x for k, x, _, t in lines if k == "start" and t <= t_kill)
        obs["ended_before_kill"] = sorted(x for k, x, _, t in lines if k == "end" and t <= t_kill)
        if phase == "mid-launch" and (ws / "spawned").exists():
            obs["orphan_pid_alive"] = pid_alive(int((ws / "spawned").read_text()))
        if phase == "mid-pidwrite" and (ws / "pid_opened").exists():
            obs["orphan_pid_alive"] = pid_alive(int((ws / "pid_opened").read_text()))
            obs["pid_file_sizes"] = [pf.stat().st_size for pf in ws.glob("jobs/*/*/*.pid")]
        if case.get("finish_before_restart"):
            # every surviving job process ends before the experiment is run again (also one that was just spawned and
            # has not logged anything yet): open all gates, wait until no process of the case is left
            for x in xs:
                (ws / f"gate.{x}").touch()

            def known_pids():
                pids = {pid for _, _, pid, _ in read_log(log)}
                for pf in ws.glob("jobs/*/*/*.pid"):
                    try:
                        pids.add(json.loads(pf.read_text())["pid"])
                    except Exception:
                        pass
                for f in ("spawned", "pid_opened"):
                    if (ws / f).exists():
                        try:
                            pids.add(int((ws / f).read_text()))
                        except Exception:
                            pass
                return pids

            wait_for(lambda: not any(pid_alive(p) for p in known_pids()), timeout, step=0.1)
            time.sleep(0.5)
            wait_for(lambda: not any(pid_alive(p) for p in known_pids()), timeout, step=0.1)
            obs["finished_before_restart"] = sorted(x for k, x, _, _ in read_log(log) if k == "end")
            for x in xs:
                # the gates are closed again: jobs of the second run wait for the harness like in the other cases
                (ws / f"gate.{x}").unlink()
        if phase.startswith("mid-prepare") and (ws / "prepare_point").exists():
            try:
                obs["prepare"] = json.loads((ws / "prepare_point").read_text())
            except Exception:
                obs["prepare"] = None
            obs["scripts_after_kill"] = sorted([p.name, p.stat().st_size > 0, os.access(p, os.X_OK)] for p in ws.glob("jobs/*/*/*.py"))
        # what the restarted scheduler will find: pid files that name a live process
        ids = json.loads((ws / "ids.1.json").read_text()) if (ws / "ids.1.json").exists() else {}
        live = []
        for x, ident in ids.items():
            for pf in ws.glob(f"jobs/*/{ident}/*.pid"):
                try:
                    if pid_alive(json.loads(pf.read_text())["pid"]):
                        live.append(int(x))
                except Exception:
                    pass
        obs["live_at_restart"] = sorted(live)
        # which job was inside aio_run when the scheduler died (mid-launch phases)
        for f in ("spawned", "pid_opened"):
            if (ws / f).exists():
                try:
                    opid = int((ws / f).read_text())
                    obs["orphan_pid"] = opid
                    wait_for(lambda: any(pid == opid for _, _, pid, _ in read_log(log)) or not pid_alive(opid), 15)
                    obs["orphan_x"] = next((x for k, x, pid, _ in read_log(log) if pid == opid), None)
                except Exception:
                    pass
        tokdir0 = ws / "xpmwork" / "tokens" / "xvtok.counter"
        obs["token_files_at_restart"] = len(list(tokdir0.glob("*.token"))) if tokdir0.exists() else 0
        # ---- suspension of the surviving job processes (the pid the pid file names and the pid that runs the body)
        def job_pids():
            pids = {pid for pid in open_bodies.values()}
            for pf in ws.glob("jobs/*/*/*.pid"):
                try:
                    pids.add(int(json.loads(pf.read_text())["pid"]))
                except Exception:
                    pass
            return sorted(p for p in pids if pid_alive(p))

        def signal_jobs(sg):
            done = []
            for p in job_pids():
                try:
                    os.kill(p, sg)
                    done.append(p)
                except Exception:
                    pass
            return done

        if suspend == "at-resubmission":
            obs["suspended"] = signal_jobs(signal.SIGSTOP)
            time.sleep(0.1)
            obs["status_when_suspended"] = sorted({proc_state(p) for p in obs["suspended"]})
        # ---- second run of the same experiment
        p2 = subprocess.Popen(cmd + ["2"], env=env, stdout=subprocess.DEVNULL, stderr=open(root / "err2", "w"), cwd=str(root))
        procs.append(p2)
        OWN.add(p2.pid)
        wait_for(lambda: (ws / "submitted.2").exists() or p2.poll() is not None, timeout)

        def taps():
            res = []
            if (ws / "tap.log").exists():
                for l in (ws / "tap.log").read_text().splitlines():
                    try:
                        res.append(json.loads(l))
                    except Exception:
                        pass
            return res

        # give the new scheduler the time to look at every job whose process is still running
        expect = [x for x, pid in open_bodies.items() if pid_alive(pid)]
        wait_for(lambda: all(any(t[0] == "2" and t[2] in ("adopted", "aio_run") and t[3] == x for t in taps()) for x in expect), 8)
        time.sleep(0.3)
        if suspend == "adopted":
            obs["suspended"] = signal_jobs(signal.SIGSTOP)
            time.sleep(0.1)
            obs["status_when_suspended"] = sorted({proc_state(p) for p in obs["suspended"]})
            time.sleep(case.get("suspend_for", 0.5))
            obs["resumed"] = signal_jobs(signal.SIGCONT)
            time.sleep(0.3)
        elif suspend == "at-resubmission":
            time.sleep(case.get("suspend_for", 0.5))
            obs["resumed"] = signal_jobs(signal.SIGCONT)
            time.sleep(0.3)
        if phase in ("mid-launch", "mid-pidwrite") and not case.get("finish_before_restart"):
            # the orphaned process is inside its body and cannot be adopted (no usable pid file): give the new scheduler
            # the time to relaunch the job; the relaunch has to wait behind the run lock of the running body
            wait_for(lambda: sum(1 for k, x, _, _ in read_log(log) if k == "start" and x in open_bodies) > len(open_bodies), 3.0)
        for x in xs:
            (ws / f"gate.{x}").touch()
        obs["rc2"] = wait_or_hang(p2, log, t_quiet=case.get("t_quiet", 12), t_max=case.get("t_max", 180))
        if obs["rc2"] == "timeout":
            p2.kill()
            p2.wait()
        lines = read_log(log)
        obs["log"] = [[k, x, pid] for k, x, pid, _ in lines]
        obs["intervals"] = lines_to_intervals(lines)
        f2 = ws / "final.2.json"
        obs["final2"] = json.loads(f2.read_text()) if f2.exists() else None
        tokdir = ws / "xpmwork" / "tokens" / "xvtok.counter"
        wait_for(lambda: not list(tokdir.glob("*.token")), 3)
        obs["token_files"] = sorted(p.name[-14:] for p in tokdir.glob("*.token")) if tokdir.exists() else []
        obs["pid_files_left"] = len(list(ws.glob("jobs/*/*/*.pid")))
        tp = taps()
        obs["tap"] = {"adopted2": sorted(t[3] for t in tp if t[0] == "2" and t[2] == "adopted"),
                      "launched2": sorted(t[3] for t in tp if t[0] == "2" and t[2] == "launched"),
                      "launched1": sorted(t[3] for t in tp if t[0] == "1" and t[2] == "launched"),
                      "raised2": sorted({f"{t[4]}: {t[5]}" for t in tp if t[0] == "2" and t[2] == "aio_submit-raised"})}
        e2 = (root / "err2").read_text()
        obs["stderr2"] = e2[-600:] if obs.get("rc2") not in (0,) else ""
        obs["thread_errors2"] = sorted({l.strip()[:100] for l in e2.splitlines() if l.startswith(("AssertionError", "json.decoder", "Exception in thread"))})
        obs["wall"] = round(time.time() - t0, 2)
    except Exception as e:
        obs["error"] = f"{type(e).__name__}: {e}"
    finally:
        for p in procs:
            if p.poll() is None:
                p.kill()
        # job processes of a broken case: open every gate, then make sure none is left
        try:
            for l in read_log(root / "ws" / "task.log"):
                if pid_alive(l[2]):
                    try:
                        os.kill(l[2], signal.SIGKILL)
                    except Exception:
                        pass
        except Exception:
            pass
        shutil.rmtree(root, ignore_errors=True)
    return obs


def load_factor():
    """1 … 4: on an overloaded machine (several checks at once) everything — the start of an experiment, its exit — is slower;
    time-outs that decide "rendezvous not reached" / "hangs" are stretched accordingly (a slow machine is not a hang)"""
    try:
        return min(4.0, max(1.0, os.getloadavg()[0] / (os.cpu_count() or 1) / 2))
    except OSError:
        return 1.0


def wait_or_hang(p, log, t_quiet, t_max):
    """exit status of `p`, or "timeout" once nothing has happened for `t_quiet` seconds (no job process of the case
    alive, task log unchanged) — a slow machine is not a hang"""
    import psutil
    t_quiet = t_quiet * load_factor()
    t0 = time.time()
    last_change = time.time()
    size = -1
    while True:
        try:
            return p.wait(timeout=0.5)
        except subprocess.TimeoutExpired:
            pass
        now = time.time()
        try:
            sz = Path(log).stat().st_size if Path(log).exists() else 0
        except OSError:
            sz = size
        busy = False
        try:
            busy = bool(psutil.Process(p.pid).children(recursive=True))
        except Exception:
            pass
        for _, _, pid, _ in read_log(log):
            if pid_alive(pid):
                busy = True
        if sz != size or busy:
            size = sz
            last_change = now
        if now - last_change > t_quiet or now - t0 > t_max:
            return "timeout"


def lines_to_intervals(lines):
    """per x: list of [pid, t_start, t_end|None]"""
    res = {}
    for k, x, pid, t in lines:
        if k == "start":
            res.setdefault(str(x), []).append([pid, t, None, "open"])
        elif k in ("end", "fail"):
            for iv in res.get(str(x), []):
                if iv[0] == pid and iv[2] is None:
                    iv[2] = t
                    iv[3] = k
                    break
    return res


# ------------------------------------------------------------------------------------------ race


def run_race_case(case, timeout=60):
    root = Path(tempfile.mkdtemp(prefix="xv-c05-"))
    obs = {"id": case["id"], "error": None}
    try:
        ws, env, full = prepare(root, dict(case, x=case.get("x", 1)))
        (root / "gen.py").write_text(RACEGEN)
        (root / "launcher.py").write_text(LAUNCHER)
        g = subprocess.run([PY, str(root / "gen.py"), str(root / "case.json")], env=env, capture_output=True, text=True, timeout=timeout)
        if g.returncode != 0:
            obs["error"] = "generate-only failed: " + g.stderr[-400:]
            return obs
        info = json.loads(g.stdout.strip().splitlines()[-1])
        # the job process gets the environment the launcher would give it
        ls = []
        for i in range(case["n"]):
            ls.append(subprocess.Popen([PY, str(root / "launcher.py"), info["script"], info["lock"], info["pid"],
                                        str(case["offsets"][i]), str(root / f"l{i}")], env=env, stdout=subprocess.PIPE, text=True))
        res = []
        for p in ls:
            try:
                out, _ = p.communicate(timeout=timeout)
                res.append(json.loads(out.strip().splitlines()[-1]))
            except Exception as e:
                p.kill()
                res.append({"error": str(e)})
        # a later launch after everything ended
        late = subprocess.run([PY, str(root / "launcher.py"), info["script"], info["lock"], info["pid"], "0", str(root / "late")],
                              env=env, capture_output=True, text=True, timeout=timeout)
        obs["late"] = json.loads(late.stdout.strip().splitlines()[-1]) if late.returncode == 0 else {"error": late.stderr[-300:]}
        lines = read_log(ws / "task.log")
        obs["launches"] = res
        obs["log"] = [[k, x, pid, t] for k, x, pid, t in lines]
        obs["intervals"] = lines_to_intervals(lines)
        obs["done"] = Path(info["done"]).exists()
        obs["failed"] = Path(info["failed"]).read_text() if Path(info["failed"]).exists() else None
        obs["err"] = "".join((root / f"l{i}.err").read_text()[-300:] for i in range(case["n"]) if (root / f"l{i}.err").exists())[-600:]
    except Exception as e:
        obs["error"] = f"{type(e).__name__}: {e}"
    finally:
        shutil.rmtree(root, ignore_errors=True)
    return obs


# ------------------------------------------------------------------------------------------ consecutive kills


def _taps(ws):
    res = []
    if (ws / "tap.log").exists():
        for l in (ws / "tap.log").read_text().splitlines():
            try:
                res.append(json.loads(l))
            except Exception:
                pass
    return res


def _live_pidfiles(ws, run):
    """jobs (x) whose pid file names a live process: what a restarted scheduler will find"""
    f = ws / f"ids.{run}.json"
    ids = json.loads(f.read_text()) if f.exists() else {}
    live = []
    for x, ident in ids.items():
        for pf in ws.glob(f"jobs/*/{ident}/*.pid"):
            try:
                if pid_alive(json.loads(pf.read_text())["pid"]):
                    live.append(int(x))
            except Exception:
                pass
    return sorted(live)


def run_multikill_case(case, timeout=60):
    """the experiment is killed, run again and killed again (signals[0], signals[1]); the third run must finish.
    First kill while the first root job runs; second kill at `phase2` ("running": the adopted job still runs;
    "between": right after the first root job ended)."""
    root = Path(tempfile.mkdtemp(prefix="xv-c11-"))
    obs = {"id": case["id"], "error": None, "kills": 2}
    procs = []
    try:
        ws, env, full = prepare(root, dict(case, phase="running"))
        (root / "xpmain.py").write_text(XPMAIN)
        log = ws / "task.log"
        cmd = [PY, str(root / "xpmain.py"), str(root / "case.json")]
        xs = [j["x"] for j in case["jobs"]]
        roots = [j["x"] for j in case["jobs"] if not j["deps"]]
        t0 = time.time()

        def started(x):
            return any(k == "start" and xx == x for k, xx, _, _ in read_log(log))

        def ended(x):
            return any(k == "end" and xx == x for k, xx, _, _ in read_log(log))

        def launch(run):
            p = subprocess.Popen(cmd + [str(run)], env=env, stdout=subprocess.DEVNULL, stderr=open(root / f"err{run}", "w"), cwd=str(root))
            procs.append(p)
            OWN.add(p.pid)
            return p

        def kill(p, signame, run):
            os.kill(p.pid, getattr(signal, signame))
            try:
                obs[f"rc{run}"] = p.wait(timeout=timeout)
            except subprocess.TimeoutExpired:
                obs[f"rc{run}"] = "timeout"
                p.kill()
                p.wait()
            time.sleep(0.2)
            lines = read_log(log)
            open_bodies = {x: pid for k, x, pid, _ in lines if k == "start"}
            for k, x, pid, _ in lines:
                if k == "end":
                    open_bodies.pop(x, None)
            obs[f"alive_after_kill{run}"] = {str(x): pid_alive(pid) for x, pid in open_bodies.items()}
            return open_bodies

        # ---- run 1, killed while the first root runs
        p1 = launch(1)
        ok = wait_for(lambda: started(roots[0]) or (case.get("token_total") and any(started(x) for x in roots)) or p1.poll() is not None, timeout)
        if not case.get("token_total"):
            wait_for(lambda: all(started(x) for x in roots), 5)
        obs["rendezvous"] = bool(ok and p1.poll() is None)
        open1 = kill(p1, case["signals"][0], 1)
        obs["live_at_restart2"] = _live_pidfiles(ws, 1)
        # ---- run 2: adopts, then is killed too
        p2 = launch(2)
        wait_for(lambda: (ws / "submitted.2").exists() or p2.poll() is not None, timeout)
        expect = [x for x, pid in open1.items() if pid_alive(pid)]
        wait_for(lambda: all(any(t[0] == "2" and t[2] in ("adopted", "aio_run") and t[3] == x for t in _taps(ws)) for x in expect) or p2.poll() is not None, 8)
        time.sleep(0.3)
        if case["phase2"] == "between" and p2.poll() is None:
            (ws / f"gate.{roots[0]}").touch()
            wait_for(lambda: ended(roots[0]), timeout, step=0.002)
            time.sleep(case.get("delay", 0.0))
        obs["run2_alive_at_kill"] = p2.poll() is None
        if p2.poll() is None:
            kill(p2, case["signals"][1], 2)
        else:
            obs["rc2"] = p2.returncode
        f2 = ws / "final.2.json"
        obs["final2"] = json.loads(f2.read_text()) if f2.exists() else None
        lines = read_log(log)
        obs["started_before_kill2"] = sorted(x for k, x, _, _ in lines if k == "start")
        obs["ended_before_kill2"] = sorted(x for k, x, _, _ in lines if k == "end")
        obs["live_at_restart"] = _live_pidfiles(ws, 2 if (ws / "ids.2.json").exists() else 1)
        tokdir = ws / "xpmwork" / "tokens" / "xvtok.counter"
        obs["token_files_at_restart"] = len(list(tokdir.glob("*.token"))) if tokdir.exists() else 0
        obs["jobs_bak_at_restart"] = sorted(str(p.relative_to(ws / "xp" / "restart" / "jobs.bak").parent) for p in (ws / "xp" / "restart" / "jobs.bak").glob("*/*")) \
            if (ws / "xp" / "restart" / "jobs.bak").exists() else None
        # ---- run 3: must finish
        p3 = launch(3)
        wait_for(lambda: (ws / "submitted.3").exists() or p3.poll() is not None, timeout)
        expect = obs["live_at_restart"]
        wait_for(lambda: all(any(t[0] == "3" and t[2] in ("adopted", "aio_run") and t[3] == x for t in _taps(ws)) for x in expect) or p3.poll() is not None, 8)
        time.sleep(0.3)
        for x in xs:
            (ws / f"gate.{x}").touch()
        obs["rc3"] = wait_or_hang(p3, log, t_quiet=case.get("t_quiet", 12), t_max=case.get("t_max", 180))
        if obs["rc3"] == "timeout":
            p3.kill()
            p3.wait()
        # processes of a run that could not even start are still to be ended: gates are open, wait for them
        wait_for(lambda: not any(pid_alive(pid) for _, _, pid, _ in read_log(log)), 15, step=0.1)
        lines = read_log(log)
        obs["log"] = [[k, x, pid] for k, x, pid, _ in lines]
        obs["intervals"] = lines_to_intervals(lines)
        f3 = ws / "final.3.json"
        obs["final3"] = json.loads(f3.read_text()) if f3.exists() else None
        wait_for(lambda: not list(tokdir.glob("*.token")), 3)
        obs["token_files"] = sorted(p.name[-14:] for p in tokdir.glob("*.token")) if tokdir.exists() else []
        tp = _taps(ws)
        obs["tap"] = {f"{what}{r}": sorted(t[3] for t in tp if t[0] == str(r) and t[2] == what) for what in ("adopted", "launched") for r in (1, 2, 3)}
        obs["tap"]["raised"] = sorted({f"run {t[0]}: {t[4]}: {t[5]}" for t in tp if t[2] == "aio_submit-raised"})
        for r in (2, 3):
            e = (root / f"err{r}").read_text() if (root / f"err{r}").exists() else ""
            obs[f"stderr{r}"] = e[-700:] if ("Traceback" in e or obs.get(f"rc{r}") not in (0, -9, -15)) else ""
        obs["wall"] = round(time.time() - t0, 2)
    except Exception as e:
        obs["error"] = f"{type(e).__name__}: {e}"
    finally:
        for p in procs:
            if p.poll() is None:
                p.kill()
        try:
            for l in read_log(root / "ws" / "task.log"):
                if pid_alive(l[2]):
                    try:
                        os.kill(l[2], signal.SIGKILL)
                    except Exception:
                        pass
        except Exception:
            pass
        shutil.rmtree(root, ignore_errors=True)
    return obs


# ------------------------------------------------------------------------------------------ two schedulers, one job


def run_twosched_case(case, timeout=90):
    """n experiment processes (different experiment names) on one workspace submit the same task configuration;
    the run lock file of the job is watched from outside (it must stay one file)"""
    root = Path(tempfile.mkdtemp(prefix="xv-c05-"))
    obs = {"id": case["id"], "error": None}
    procs = []
    try:
        ws, env, full = prepare(root, dict(case, x=case.get("x", 1)))
        (root / "xp2.py").write_text(XP2)
        inodes, stop = [], threading.Event()

        def watch():
            # identity of <job>.lock over time: (inode | None) whenever it changes
            last = "unset"
            while not stop.is_set():
                cur = None
                for f in ws.glob("jobs/*/*/*.lock"):
                    try:
                        cur = f.stat().st_ino
                    except OSError:
                        cur = None
                if cur != last and not (last == "unset" and cur is None):
                    inodes.append(cur)
                    last = cur
                time.sleep(0.005)

        th = threading.Thread(target=watch, daemon=True)
        th.start()
        for k in range(case["n"]):
            procs.append(subprocess.Popen([PY, str(root / "xp2.py"), str(root / "case.json"), str(k)], env=env,
                                          stdout=subprocess.DEVNULL, stderr=open(root / f"err{k}", "w"), cwd=str(root)))
        rcs = []
        for p in procs:
            try:
                rcs.append(p.wait(timeout=timeout))
            except subprocess.TimeoutExpired:
                rcs.append("timeout")
                p.kill()
        time.sleep(0.1)
        stop.set()
        th.join(1)
        lines = read_log(ws / "task.log")
        obs["rcs"] = rcs
        obs["log"] = [[k, x, pid, t] for k, x, pid, t in lines]
        obs["intervals"] = lines_to_intervals(lines)
        obs["finals"] = [json.loads((ws / f"final.{k}.json").read_text()) if (ws / f"final.{k}.json").exists() else None for k in range(case["n"])]
        obs["lock_inodes"] = inodes[:20]
        obs["done"] = bool(list(ws.glob("jobs/*/*/*.done")))
        obs["err"] = "".join(((root / f"err{k}").read_text()[-300:] for k in range(case["n"]) if rcs[k] != 0))[-600:]
    except Exception as e:
        obs["error"] = f"{type(e).__name__}: {e}"
    finally:
        for p in procs:
            if p.poll() is None:
                p.kill()
        try:
            for l in read_log(root / "ws" / "task.log"):
                if pid_alive(l[2]):
                    os.kill(l[2], signal.SIGKILL)
        except Exception:
            pass
        shutil.rmtree(root, ignore_errors=True)
    return obs


# ------------------------------------------------------------------------------------------ orphan reaping


def ensure_orphans_are_reaped():
    """job processes of a killed scheduler are re-parented; if nobody reaps them they stay zombies and the restarted
    scheduler would see them as running.  If init does not reap, become the sub-reaper and reap them here."""
    code = ("import subprocess,sys,os; p=subprocess.Popen([sys.executable,'-c','pass']); print(p.pid, flush=True); os._exit(0)")
    out = subprocess.run([PY, "-c", code], capture_output=True, text=True).stdout
    try:
        pid = int(out.strip())
    except ValueError:
        return "unknown"
    time.sleep(0.6)
    if not Path(f"/proc/{pid}").exists():
        return "init-reaps"
    try:
        ctypes.CDLL("libc.so.6", use_errno=True).prctl(36, 1, 0, 0, 0)  # PR_SET_CHILD_SUBREAPER
    except Exception:
        return "cannot-subreap"
    own = OWN

    def reaper():
        while True:
            time.sleep(0.1)
            try:
                for d in Path("/proc").iterdir():
                    if d.name.isdigit():
                        try:
                            st = (d / "stat").read_text().rsplit(")", 1)[1].split()
                            if st[0] == "Z" and int(st[1]) == os.getpid() and int(d.name) not in own:
                                os.waitpid(int(d.name), os.WNOHANG)
                        except Exception:
                            pass
            except Exception:
                pass

    threading.Thread(target=reaper, daemon=True).start()
    return "subreaper"


def main():
    data = json.loads(Path(sys.argv[1]).read_text())
    mode = ensure_orphans_are_reaped() if data["kind"] == "restart" else "n/a"
    if data["kind"] == "restart":
        def f(case):
            return run_multikill_case(case) if case.get("kills", 1) >= 2 else run_restart_case(case)
    elif data["kind"] == "twosched":
        f = run_twosched_case
    else:
        f = run_race_case
    with ThreadPoolExecutor(max_workers=data.get("parallel", 8)) as ex:
        res = list(ex.map(f, data["cases"]))
    for r in res:
        r["reaping"] = mode
    Path(sys.argv[2]).write_text(json.dumps(res))


if __name__ == "__main__":
    main()
