"""C10, scheduler-launched jobs: the sentences of the property on job directories whose process was started by the
REAL scheduler (`experiment` -> `Scheduler.aio_start` -> `CommandLineJob.aio_run` -> job script -> `TaskRunner.run`),
not by the harness' re-enactment of the scheduler side (c10.launch).

What varies (seeded): how late the launcher's submission call gives the hand back to the scheduler (at once | after a
fixed delay | only once the job process is gone, capped) -- `sbatch`/`ssh` style launchers, written with the public
extension points `DirectLauncher.processbuilder()` / `LocalProcessBuilder.start()` --, how the first execution of the
body ends (ok | exception | exit 3 | exit 0), how long the body lasts, and a second experiment on the same workspace
(the scheduler launches the scripts of the jobs that have no success marker again).

Monitors (public observables only: files of the job directory, flock probe, task-side body log, liveness of the process
named by the pid file):
  * a job that ended on its own, successfully or not, leaves no process-id file behind;
  * success marker only if the body ran to completion; markers agree with how the execution ended;
  * the run lock is free once the process is gone;
  * a later launch executes the body exactly when no success marker exists.
Every job of these histories ends on its own (nothing is killed)."""
import json
import os
import subprocess
import sys
import time
from concurrent.futures import ThreadPoolExecutor
from pathlib import Path

from .. import common

LIB = '''
import os, sys, time
from pathlib import Path
from experimaestro import Task, Param


class Body(Task):
    """logs start/end in <jobdir>/bodylog; the FIRST execution ends as told by `first`, later ones succeed"""
    __xpmid__ = "%(xpmid)s"
    x: Param[int]
    first: Param[str]
    hold: Param[float]

    def execute(self):
        log = Path.cwd() / "bodylog"
        n = log.read_text().split().count("start") if log.exists() else 0

        def pt(name):
            with log.open("a") as f:
                f.write(name + "\\n")

        pt("start")
        time.sleep(self.hold)
        out = self.first if n == 0 else "ok"
        if out == "exc":
            raise RuntimeError("boom")
        if out.startswith("exit"):
            c = int(out[4:])
            if c == 0:
                pt("end")
            sys.exit(c)
        pt("end")
'''

KINDS_DELAY = ["delay:0.2", "delay:0.6", "delay:1.5"]
OUTCOMES = ["ok", "exc", "exit3", "exit0"]


def kind_class(kind):
    return {"prompt": "prompt-return", "until-end": "late-return"}.get(kind, "delayed-return")


def gen_cases(ctx, rng):
    """one case = one workspace, 1-2 jobs, two successive experiments"""
    n = ctx.scale(10, 40)
    cases = []
    core = [("until-end", "ok"), ("until-end", "exc"), ("until-end", rng.choice(["exit3", "exit0"])), ("prompt", "exc")]
    for i in range(n):
        if i < len(core):
            k1, first = core[i]
            jobs = [{"x": 1, "first": first, "hold": rng.choice([0.0, 0.1])}]
        else:
            k1 = rng.choice(["until-end", "until-end", "until-end", "prompt"] + KINDS_DELAY)
            jobs = [{"x": j + 1, "first": rng.choice(OUTCOMES), "hold": rng.choice([0.0, 0.1, 0.3])}
                    for j in range(rng.choice([1, 1, 2]))]
        k2 = rng.choice(["prompt", "prompt", "delay:0.2", "until-end"])
        cases.append({"id": f"sched{i}", "jobs": jobs, "runs": [k1, k2]})
    return cases


def _setup(ctx):
    root = ctx.tmpdir() / "c10x-sched"
    pkgdir = root / "pkg"
    mod = f"c10xlib_{ctx.seed}"
    if not (pkgdir / mod).exists():
        (pkgdir / mod).mkdir(parents=True)
        (pkgdir / mod / "__init__.py").write_text("")
        (pkgdir / mod / "tasks.py").write_text(LIB % {"xpmid": f"{mod}.body"})
    return root, pkgdir, mod


_BATCH = [0]


def run_cases(ctx, cases, parallel=10, timeout=240):
    root, pkgdir, mod = _setup(ctx)
    env = dict(os.environ)
    env["PYTHONPATH"] = str(common.VERIF / "harness") + (":" + env["PYTHONPATH"] if env.get("PYTHONPATH") else "")
    env["PYTHONWARNINGS"] = "ignore"
    jobpath = str(pkgdir) + (":" + os.environ["PYTHONPATH"] if os.environ.get("PYTHONPATH") else "")

    _BATCH[0] += 1
    batch = _BATCH[0]

    def one(ic):
        i, case = ic
        d = root / f"{batch}-{i}-{case['id']}"
        d.mkdir(parents=True)
        fin, fout = d / "in.json", d / "out.json"
        fin.write_text(json.dumps({"pkgdir": str(pkgdir), "module": mod, "ws": str(d / "ws"), "pythonpath": jobpath, "case": case}))
        try:
            p = subprocess.run([sys.executable, "-m", "xv.impl.c10x_sched_worker", str(fin), str(fout)], env=env,
                               capture_output=True, text=True, timeout=timeout, cwd=str(d))
        except subprocess.TimeoutExpired:
            return {"timeout": True}
        if p.returncode != 0 or not fout.exists():
            return {"error": f"worker rc={p.returncode}: {p.stderr[-800:]}"}
        return json.loads(fout.read_text())

    with ThreadPoolExecutor(parallel) as ex:
        return list(ex.map(one, enumerate(cases)))


def _ended(first, nth):
    """how the nth execution (0-based) of the body ends"""
    return first if nth == 0 else "ok"


def monitors(ctx, case, out):
    """the sentences of the property on the directories left by jobs that the real scheduler launched"""
    rcase = {"sched": case}
    prev = {}  # x -> observation after the previous run
    for ri, run in enumerate(out["runs"]):
        kind = run["kind"]
        for js, o in zip(case["jobs"], run["jobs"]):
            x = js["x"]
            p = prev.get(x)
            n0 = len(p["bodylog"]) if p else 0
            new = o["bodylog"][n0:]
            starts0 = p["bodylog"].count("start") if p else 0
            ran = new.count("start")
            how = _ended(js["first"], starts0) if ran else None
            tag = (f"scheduler-launched job x={x} (experiment {ri + 1} of {case['runs']}, submission call returned after "
                   f"{o.get('submit_returned_after')} s, job process already gone by then: {o.get('process_gone_at_return')}; body "
                   f"first ends with {js['first']!r}, lasts {js['hold']} s; body log of this run {new}; scheduler state {o['state']})")
            d = {k: o[k] for k in ("done", "failed", "pid", "lockfree")}
            if o["launched"]:
                ctx.count("sched_launch_submit_kind", kind)
                ctx.count("sched_launch_outcome", f"{kind_class(kind)}/{how or 'body-skipped'}")
                ctx.count("sched_launch_submission_returned", "after the job process ended" if o.get("process_gone_at_return")
                          else "while the job process lived")
                ctx.count("sched_launch_submission_return_reason", o.get("submit_returned_because"))
                ctx.count("sched_launch_directory", f"done={int(o['done'])} failed={o['failed']} pid={int(o['pid'])}")
            else:
                ctx.count("sched_launch_outcome", "not-launched (success marker present)" if (p and p["done"]) else "not-launched")
            # 5. a job that ended on its own, successfully or not, leaves no pid file behind
            if o["pid"] and o["launched"]:  # (a file left by an earlier experiment was reported there)
                if o["pid_alive"]:
                    ctx.count("skipped", "sched-launch: process named by the pid file still alive")
                else:
                    ctx.monitor_fail(f"own-exit-pid-left:scheduler-launch:{kind_class(kind)}:{how or 'skip'}",
                                     f"[{tag}] the job ended on its own and its directory keeps the process-id file "
                                     f"({o['pid_content']!r}, that process is gone): {d}", rcase)
            # 2. the run lock dies with the process
            if not o["lockfree"] and not o["pid_alive"]:
                ctx.monitor_fail("lock-survives-process:scheduler-launch", f"[{tag}] the run lock is still held after the experiment ended: {d}", rcase)
            # 1. a success marker only if the body ran to completion
            if o["done"] and "end" not in o["bodylog"]:
                ctx.monitor_fail("done-without-completion:scheduler-launch", f"[{tag}] success marker although the body never completed: {d}", rcase)
            # 3. a later launch executes the body exactly when no success marker exists
            if p is not None:
                if p["done"] and ran:
                    ctx.monitor_fail("relaunch-body-count:scheduler-launch", f"[{tag}] success marker present before this experiment but the body ran again {ran}x", rcase)
                if not p["done"] and o["launched"] and ran != 1:
                    ctx.monitor_fail("relaunch-body-count:scheduler-launch", f"[{tag}] no success marker before this experiment, the script was launched, the body ran {ran}x", rcase)
            elif o["launched"] and ran != 1:
                ctx.monitor_fail("relaunch-body-count:scheduler-launch", f"[{tag}] fresh directory, the script was launched, the body ran {ran}x", rcase)
            # markers stay truthful for a job that ended on its own
            if ran == 1 and how in ("ok", "exit0") and (not o["done"] or o["failed"] is not None):
                ctx.monitor_fail("status-vs-marker:scheduler-launch", f"[{tag}] the body completed but the directory shows {d}", rcase)
            if ran == 1 and how in ("exc", "exit3") and (o["done"] or o["failed"] is None):
                ctx.monitor_fail("status-vs-marker:scheduler-launch", f"[{tag}] the body failed but the directory shows {d}", rcase)
            prev[x] = o


def evaluate(ctx, cases):
    t0 = time.time()
    outs = run_cases(ctx, cases, parallel=ctx.scale(10, 12))
    ctx.notes.append(f"scheduler-launched jobs: {len(cases)} histories (real experiments) in {time.time() - t0:.1f} s")
    bad = 0
    for case, out in zip(cases, outs):
        if out.get("timeout"):
            # a stuck real experiment is an observation about the code under test
            ctx.monitor_fail("scheduler-launch:experiment-stuck", f"the experiments of {json.dumps(case)} did not end within the time limit", {"sched": case})
            continue
        if out.get("error") or any(r.get("error") for r in out.get("runs", [])):
            bad += 1
            ctx.count("sched_launch_errors", (out.get("error") or next(r["error"] for r in out["runs"] if r.get("error")))[-80:])
            continue
        ctx.case({"sched_launch": case}, nontrivial=any(k != "prompt" for k in case["runs"]))
        ctx.count("sched_launch_cases", f"{len(case['jobs'])} job(s)")
        monitors(ctx, case, out)
    if cases and bad == len(cases):
        raise RuntimeError(f"every scheduler-launch case failed to run: {outs[0]}")
    return outs
