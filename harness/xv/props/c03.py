"""C03 — configurations with different signatures never share an identifier.

Cases are near pairs: a graph and its image under one small signature-changing edit.  Monitor
(implementation only): the identifier of the edited node changes (and that of a parent that
includes it).  Correspondence: both members go through the Lean model."""
import random

from .. import common, identlib
from ..gen import cfggen, edits
from ..translate import argflags, hashflags, hashsrc
from .c02 import id_steps, ids_of

PROP = "C03"
MODULES = ["XpmVerif.Properties.C03", "XpmVerif.Properties.HashSrc"]


def prove(ctx):
    msgs = [hashflags.generate(common.REPO, common.LEAN, probe=identlib.loop_flag_probe(ctx)), hashsrc.generate(common.REPO, common.LEAN)]
    ctx.notes.append(f"translator(hashsrc): {msgs[1][1]}")
    ctx.count("translator", "hashsrc:" + ("translated" if msgs[1][1].startswith("translated") else "fallback"))
    msgs.append(argflags.generate(common.REPO, common.LEAN, probe=identlib.inherit_rule_probe(ctx)))   # Generated/ArgFlags.lean: the driver derives the argument flags with it
    ctx.notes.append(f"translator(argflags): {msgs[-1][1]}")
    common.check_proofs(ctx, MODULES, translate_msgs=msgs)


def gen(ctx, rng, nlibs, per, tag):
    libs, cases = [], []
    for li in range(nlibs):
        lib = cfggen.gen_library(rng, f"{tag}_{ctx.seed}_{li}", with_twins=True, cfg_defaults=common.CFG_DEFAULTS)
        libs.append(lib)
        for _ in range(per):
            g = cfggen.gen_graph(rng, lib, max_nodes=rng.choice([2, 4, 8]))
            e = edits.signature_edit(rng, lib, g)
            if not e:
                continue
            g2, info = e
            cases.append({"lib": li, "steps": id_steps(g, "A") + id_steps(g2, "B"), "graph": g, "edited": g2, "edit": info, "n": len(g["nodes"])})
    return libs, cases


def monitor(ctx, case, rec):
    n = case["n"]
    fa, ra, fb, rb = ids_of(rec, n, len(case["edited"]["nodes"]))
    e = case["edit"]
    k = e["node"]
    if case["graph"]["nodes"][k]["meta"] is True and False:
        return
    if e["kind"] == "producing-task-changed":
        t0, t1 = case["graph"]["nodes"][k]["task"], case["edited"]["nodes"][k]["task"]
        if t0 is not None and ra[t0] == rb[t1]:
            ctx.count("skipped", "equal producing tasks")
            return
    if "arg" in e:
        # the edit may only have exchanged references to configurations with equal signatures: compare the
        # argument's value with every reference replaced by the referenced configuration's identifier
        def view(g, v, raw):
            if isinstance(v, dict):
                if "r" in v:
                    return {"id": raw[v["r"]]}
                if "l" in v:
                    return {"l": [view(g, x, raw) for x in v["l"] if not edits._is_meta_ref(g, x)]}
                if "d" in v:
                    return {"d": sorted([[kk, view(g, x, raw)] for kk, x in v["d"] if not edits._is_meta_ref(g, x)], key=lambda kv: kv[0])}
            return v
        va = dict(map(tuple, case["graph"]["nodes"][k]["values"])).get(e["arg"])
        vb = dict(map(tuple, case["edited"]["nodes"][k]["values"])).get(e["arg"])
        if va is not None and vb is not None and view(case["graph"], va, ra) == view(case["edited"], vb, rb):
            ctx.count("skipped", "references to equal-signature configurations exchanged")
            return
    same = (fa[k] == fb[k]) if e.get("full_only") else (ra[k] == rb[k] or fa[k] == fb[k])
    if same:
        key = f"collision:{e['kind']}" if e.get("unamb", True) else "collision:dict-follow-set-ambiguity"
        ctx.monitor_fail(key, f"node {k} keeps identifier {fa[k][:16]}… although its signature changed: {e}",
                         {"graph": case["graph"], "edited": case["edited"], "edit": e})


# hand-written near pairs (run first): each pair differs by one element's position / container
CORPUS_LIB = {"pkg": "xvlib_c03c", "enums": [], "classes": [
    {"name": "K", "xpmid": "xvlib_c03c.k", "parent": None, "kind": "config", "deprecated": False, "args": [
        {"name": "ll", "decl": "param", "ty": {"list": {"list": "int"}}, "optional": False, "default": {"l": []}},
        {"name": "ls", "decl": "param", "ty": {"list": "str"}, "optional": False, "default": {"l": []}},
        {"name": "d", "decl": "param", "ty": {"dict": "str"}, "optional": False, "default": {"d": []}},
        {"name": "dl", "decl": "param", "ty": {"dict": {"list": "int"}}, "optional": False, "default": {"d": []}},
        {"name": "ld", "decl": "param", "ty": {"list": {"dict": "int"}}, "optional": False, "default": {"l": []}},
        {"name": "x", "decl": "param", "ty": "str", "optional": False, "default": "x0"},
        {"name": "y", "decl": "param", "ty": "str", "optional": False, "default": "y0"},
        {"name": "lf", "decl": "param", "ty": {"list": "float"}, "optional": False, "default": {"l": []}},
        {"name": "n", "decl": "param", "ty": "int", "optional": False, "default": 12345},
    ]}]}


def _k(**kw):
    return {"nodes": [{"cls": "K", "values": [[k, v] for k, v in kw.items()], "meta": None, "pre": [], "init": [], "task": None}]}


def L(*xs):
    return {"l": list(xs)}


def D(**kw):
    return {"d": [[k, v] for k, v in kw.items()]}


CORPUS_PAIRS = [
    ("move-between-neighbouring-lists", _k(ll=L(L(1), L(2, 3))), _k(ll=L(L(1, 2), L(3)))),
    ("move-between-neighbouring-lists", _k(ll=L(L(), L(1))), _k(ll=L(L(1), L()))),
    ("nesting-changed", _k(ll=L(L(1, 2))), _k(ll=L(L(1), L(2)))),
    ("nesting-changed", _k(ll=L(L(), L())), _k(ll=L(L()))),
    ("string-boundary", _k(ls=L("ab", "c")), _k(ls=L("a", "bc"))),
    ("string-boundary", _k(ls=L("ab")), _k(ls=L("a", "b"))),
    ("string-boundary", _k(x="ab", y="c"), _k(x="a", y="bc")),
    ("key-value-boundary", _k(d=D(a="bc")), _k(d=D(ab="c"))),
    ("key-value-boundary", _k(d=D(a="", b="c")), _k(d=D(a="b", c=""))),
    ("dict-list-membership", _k(dl=D(a=L(1), b=L(2))), _k(dl=D(a=L(1, 2), b=L()))),
    ("dict-list-membership", _k(dl=D(a=L(), b=L(1))), _k(dl=D(a=L(1), b=L()))),
    ("list-dict-membership", _k(ld=L(D(a=1), D(b=2))), _k(ld=L(D(a=1, b=2), D()))),
    ("list-dict-membership", _k(ld=L(D(), D(a=1))), _k(ld=L(D(a=1), D()))),
    ("sibling-parameters", _k(x="v", y="w"), _k(x="w", y="v")),
    ("list-order", _k(ls=L("a", "b")), _k(ls=L("b", "a"))),
    ("list-length", _k(lf=L({"f": "0000000000000000"})), _k(lf=L({"f": "0000000000000000"}, {"f": "0000000000000000"}))),
    ("empty-vs-default", _k(ls=L("")), _k(ls=L())),
]


def _kp(pre, init):
    g = _k(x="v")
    g["nodes"].append({"cls": "LWK", "values": [["v", 1]], "meta": None, "pre": [], "init": [], "task": None})
    g["nodes"].append({"cls": "LWK", "values": [["v", 2]], "meta": None, "pre": [], "init": [], "task": None})
    g["nodes"][0]["pre"], g["nodes"][0]["init"] = pre, init
    return g


CORPUS_LIB["classes"].append({"name": "LWK", "xpmid": "xvlib_c03c.lwk", "parent": None, "kind": "light", "deprecated": False,
                              "args": [{"name": "v", "decl": "param", "ty": "int", "optional": False}]})
CORPUS_PAIRS += [
    ("pretask-vs-init-task", _kp([1], []), _kp([], [1])),
    ("pretask-vs-init-task", _kp([1], [2]), _kp([], [1, 2])),
    ("init-task-order", _kp([], [1, 2]), _kp([], [2, 1])),
    ("pretask-set", _kp([1], []), _kp([1, 2], [])),
]


def run_corpus(ctx):
    cases = [{"lib": 0, "steps": id_steps(a, "A") + id_steps(b, "B")} for _, a, b in CORPUS_PAIRS]
    res = identlib.run_cases(ctx, [CORPUS_LIB], cases, shards=2)[None]
    good = []
    for (kind, a, b), rec in zip(CORPUS_PAIRS, res):
        if rec["error"]:
            raise RuntimeError(f"corpus pair cannot be built: {rec['error']}")
        fa, ra, fb, rb = ids_of(rec, 1, 1)
        ctx.case({"corpus": kind, "a": a, "b": b}, True)
        ctx.count("corpus", kind)
        full_only = kind in ("pretask-vs-init-task", "init-task-order", "pretask-set")
        if fa[0] == fb[0] or (ra[0] == rb[0] and not full_only):
            ctx.monitor_fail(f"collision:{kind}", f"{a['nodes'][0]['values']} and {b['nodes'][0]['values']} share identifier {fa[0][:16]}…", {"a": a, "b": b})
        good.append(({"graph": a, "edit": {"kind": kind}}, rec))
    return good


# integers at and beyond the edge of the 8-byte encoding (`struct.pack("!q")`): two integers congruent modulo 2**64. The source as
# found rejects what does not fit (struct.error: no identifier, no collision); whenever BOTH members of a pair get an identifier the
# two must differ (seeded change C03f: `!Q` of `value & 0xFFFF_FFFF_FFFF_FFFF`).
INT_RANGE_PAIRS = [(-1, 2**64 - 1), (0, 2**64), (5, 5 + 2**64), (-(2**63), 2**63), (2**63 - 1, -(2**63) - 1), (1, 1 - 2**64),
                   (2**62, 2**62 + 2**64), (-300, 2**64 - 300), (7, 7 + 2**65)]


def run_intrange(ctx):
    cases = [{"lib": 0, "steps": id_steps(_k(n=a), "A") + id_steps(_k(n=b), "B")} for a, b in INT_RANGE_PAIRS]
    res = identlib.run_cases(ctx, [CORPUS_LIB], cases, shards=1)[None]
    for (a, b), rec in zip(INT_RANGE_PAIRS, res):
        ctx.case({"corpus": "int-range", "a": str(a), "b": str(b)}, True)
        if rec["error"]:
            ctx.count("corpus", "int-range:rejected")
            continue
        ctx.count("corpus", "int-range:both-hashed")
        fa, ra, fb, rb = ids_of(rec, 1, 1)
        if fa[0] == fb[0] or ra[0] == rb[0]:
            ctx.monitor_fail("collision:int-range", f"n={a} and n={b} share identifier {fa[0][:16]}…", {"a": _k(n=a), "b": _k(n=b)})


# configuration-valued defaults: `optimizer: Param[Opt] = Opt(lr=0.1)` — a parameter is outside the signature iff its value has the
# identifier of the default; pairs that must NOT share an identifier
def _o(lr):
    return {"c": {"cls": "Opt", "kw": [["lr", {"f": cfggen.fhex(lr)}]]}}


CD_LIB = {"pkg": "xvlib_c03d", "enums": [], "classes": [
    {"name": "Opt", "xpmid": "xvlib_c03d.opt", "parent": None, "kind": "config", "deprecated": False, "args": [
        {"name": "lr", "decl": "param", "ty": "float", "optional": False, "default": {"f": cfggen.fhex(0.1)}},
        {"name": "note", "decl": "meta", "ty": "str", "optional": True}]},
    {"name": "TrainOpt", "xpmid": "xvlib_c03d.trainopt", "parent": None, "kind": "task", "deprecated": False, "args": [
        {"name": "k", "decl": "param", "ty": "int", "optional": False}]},
    {"name": "Model", "xpmid": "xvlib_c03d.model", "parent": None, "kind": "config", "deprecated": False, "args": [
        {"name": "optimizer", "decl": "param", "ty": {"cfg": "Opt"}, "optional": False, "default": _o(0.25)},
        {"name": "stages", "decl": "param", "ty": {"list": {"cfg": "Opt"}}, "optional": False, "default": {"l": [_o(0.5), _o(0.75)]}},
        {"name": "named", "decl": "param", "ty": {"dict": {"cfg": "Opt"}}, "optional": False, "default": {"d": [["a", _o(0.5)]]}}]}]}


def _m(extra=(), inplace=None, **kw):
    g = {"nodes": [{"cls": "Model", "values": [[k, v] for k, v in kw.items()], "meta": None, "pre": [], "init": [], "task": None}] + list(extra)}
    if inplace:
        g["inplace"] = inplace
    return g


def _on(lr, task=None, note=None):
    return {"cls": "Opt", "values": [["lr", {"f": cfggen.fhex(lr)}]] + ([["note", note]] if note else []), "meta": None, "pre": [], "init": [], "task": task}


_T = {"cls": "TrainOpt", "values": [["k", 1]], "meta": None, "pre": [], "init": [], "task": None}
CD_PAIRS = [
    # (kind, a, b, must the identifiers of node 0 differ?)
    ("config-default:modified-in-place", _m(), _m(inplace=[{"n": 0, "arg": "optimizer", "name": "lr", "v": {"f": cfggen.fhex(0.5)}}]), True),
    ("config-default:list-member-modified-in-place", _m(), _m(inplace=[{"n": 0, "arg": "stages", "idx": 1, "name": "lr", "v": {"f": cfggen.fhex(0.125)}}]), True),
    ("config-default:dict-member-modified-in-place", _m(), _m(inplace=[{"n": 0, "arg": "named", "idx": "a", "name": "lr", "v": {"f": cfggen.fhex(0.125)}}]), True),
    ("config-default:other-value", _m(), _m(extra=[_on(0.5)], optimizer={"r": 1}), True),
    ("config-default:produced-by-a-task", _m(extra=[_on(0.25)], optimizer={"r": 1}), _m(extra=[_on(0.25, task=2), _T], optimizer={"r": 1}), True),
    ("config-default:list-order", _m(), _m(extra=[_on(0.75), _on(0.5)], stages={"l": [{"r": 1}, {"r": 2}]}), True),
    ("config-default:list-length", _m(), _m(extra=[_on(0.5)], stages={"l": [{"r": 1}]}), True),
    ("config-default:dict-key", _m(), _m(extra=[_on(0.5)], named={"d": [["b", {"r": 1}]]}), True),
    # … and pairs that must share it (C02's side, kept here so that the model is compared on them too)
    ("config-default:equal-explicit-value", _m(), _m(extra=[_on(0.25)], optimizer={"r": 1}), False),
    ("config-default:equal-up-to-meta-parameter", _m(), _m(extra=[_on(0.25, note="x")], optimizer={"r": 1}), False),
    ("config-default:equal-list", _m(), _m(extra=[_on(0.5), _on(0.75)], stages={"l": [{"r": 1}, {"r": 2}]}), False),
    ("config-default:modified-in-place-back-to-default", _m(), _m(inplace=[{"n": 0, "arg": "optimizer", "name": "lr", "v": {"f": cfggen.fhex(0.25)}}]), False),
]


def run_cfgdefault_corpus(ctx):
    cases = [{"lib": 0, "steps": id_steps(a, "A") + id_steps(b, "B")} for _, a, b, _ in CD_PAIRS]
    res = identlib.run_cases(ctx, [CD_LIB], cases, shards=2)[None]
    good = []
    for (kind, a, b, differ), rec in zip(CD_PAIRS, res):
        if rec["error"]:
            raise RuntimeError(f"configuration-default pair {kind} cannot be built: {rec['error']}")
        fa, ra, fb, rb = ids_of(rec, len(a["nodes"]), len(b["nodes"]))
        ctx.case({"corpus": kind, "a": a, "b": b}, True)
        ctx.count("corpus", kind)
        if differ and (fa[0] == fb[0] or ra[0] == rb[0]):
            ctx.monitor_fail(f"collision:{kind}", f"Model configurations that differ ({kind}) share identifier {fa[0][:16]}…", {"a": a, "b": b})
        if not differ and (fa[0] != fb[0] or ra[0] != rb[0]):
            ctx.monitor_fail(f"default-not-recognised:{kind}", f"a Model whose parameters all have the identifiers of their defaults ({kind}) has identifier "
                                                             f"{fb[0][:16]}… instead of {fa[0][:16]}…", {"a": a, "b": b})
        good.append(({"graph": a, "edit": {"kind": kind}}, rec))
    return good


def gen_prod_cases(rng, n):
    cases = []
    for i in range(n):
        producers = []
        v = rng.choice([1, 5, 7])
        for _ in range(rng.choice([2, 3, 4])):
            cls = rng.choice(["GP", "GP", "GF", None])
            producers.append({"cls": cls, "k": rng.choice([1, 2, 3]), "v": v if rng.random() < 0.8 else rng.choice([1, 5, 7])})
        consumers = [{"embed": rng.choice(["o", "o", "os", "h"]), "of": j} for j in range(len(producers))]
        consumers += [{"embed": rng.choice(["o", "os", "h"]), "of": rng.randrange(len(producers))} for _ in range(rng.choice([0, 1, 2]))]
        first = [j for j in range(len(consumers)) if rng.random() < 0.3]
        rng.shuffle(first)
        cases.append({"mode": rng.choice(["dry", "generate"]), "producers": producers, "consumers": consumers, "request_first": first})
    return cases


def prod_part(ctx, n):
    """embedded task outputs through real submits: consumers of outputs of different producers never share an identifier"""
    from concurrent.futures import ThreadPoolExecutor
    cases = gen_prod_cases(ctx.rng, n)
    tmp = ctx.tmpdir()
    parts, k = identlib.split(list(enumerate(cases)), 4)
    recs = [None] * len(cases)
    with ThreadPoolExecutor(max_workers=4) as ex:
        futs = [(part, ex.submit(identlib.run_worker, {"cases": [c for _, c in part]}, tmp, f"prod-{pi}", None, "xv.impl.prod_worker"))
                for pi, part in enumerate(parts)]
        for part, f in futs:
            for (ci, _), r in zip(part, f.result()):
                recs[ci] = r
    good = []
    for case, rec in zip(cases, recs):
        if rec["error"]:
            raise RuntimeError(f"producing-task case cannot run: {rec['error']}")
        ctx.case({"producing_task_case": case}, True)
        ctx.count("producing_task_mode", case["mode"])

        def sig(ci):
            c = case["consumers"][ci]
            p = case["producers"][c["of"]]
            # what distinguishes the embedded value: embedding position, value, and which task (if any) produced it
            return (c["embed"], p["v"], None if p["cls"] is None else (p["cls"], p["k"], p["v"]))

        done = False
        for a in range(len(case["consumers"])):
            for b in range(a + 1, len(case["consumers"])):
                if sig(a) != sig(b) and rec["ids"][a] == rec["ids"][b] and not done:
                    done = True
                    ctx.monitor_fail(f"collision:producing-task:{case['mode']}",
                                     f"consumers {a} and {b} share identifier {rec['ids'][a][:16]}… although they embed {sig(a)} and {sig(b)} "
                                     f"(mode {case['mode']}, outputs produced by {rec['producers_of']})", {"producing_task_case": case})
        # a task that marks its own sealed parameter makes the graph cyclic *after* its identifier was frozen: the
        # cache-free specification of the final graph is not the reference there (monitor only)
        if not any(p["cls"] == "GP" for p in case["producers"]):
            good.append(({"graph": {"producing_task_case": case}, "edit": {"kind": "producing-task(real submit)"}}, rec))
        else:
            ctx.count("producing_task_model_compared", "no (self-marked parameter)")
    return good


def correspond(ctx):
    rng = ctx.rng
    run_intrange(ctx)
    corpus_good = run_corpus(ctx) + prod_part(ctx, ctx.scale(24, 300))
    if common.CFG_DEFAULTS:
        corpus_good += run_cfgdefault_corpus(ctx)
    ctx.rule = ("near pairs: graph and its image under one signature-changing edit (scalar changed, list append/drop/swap, element moved between neighbouring "
                "lists, dict key renamed / item added / dropped / moved between sibling dicts, sibling parameters swapped, enum member, unset optional set, "
                "pre-task added, init tasks permuted, producing task changed, type identifier changed); non-trivial = edit inside a container or at a "
                "non-root node; distinct = case hash; text without control characters, dict nesting <= 2")
    libs, cases = gen(ctx, rng, ctx.scale(8, 40), ctx.scale(60, 300), "c03")
    res = identlib.run_cases(ctx, libs, [{"lib": c["lib"], "steps": c["steps"]} for c in cases], shards=ctx.scale(8, 16))[None]
    good = []
    for case, rec in zip(cases, res):
        ctx.count("edit_kind", case["edit"]["kind"].split(":")[0] + (":…" if ":" in case["edit"]["kind"] else ""))
        ctx.count("unamb_type", case["edit"].get("unamb", True))
        if rec["error"]:
            ctx.count("case_errors", rec["error"][:60])
            continue
        ctx.case({"graph": case["graph"], "edit": case["edit"]}, case["edit"]["node"] != 0 or ":" in case["edit"]["kind"] or "list" in case["edit"]["kind"] or "dict" in case["edit"]["kind"])
        monitor(ctx, case, rec)
        good.append((case, rec))
    if len(good) < len(cases) * 0.9:
        raise RuntimeError(f"too many unbuildable cases: {next(r['error'] for r in res if r['error'])}")
    good = corpus_good + good
    try:
        mouts = identlib.model_outputs(ctx, [r for _, r in good])
    except Exception as e:
        ctx.disagree({"driver": "Ident"}, None, None, f"model driver failed: {e}")
        return
    for (c, r), mo in zip(good, mouts):
        ctx.traces_validated += 1
        for i, (line, m, im) in enumerate(zip(r["lines"], mo, r["impl"])):
            if m != im:
                ctx.disagree({"graph": c["graph"], "edit": c["edit"], "at_line": i}, m, im, "model identifier differs from the implementation")
                break


def search(ctx):
    run_intrange(ctx)
    run_corpus(ctx)
    if common.CFG_DEFAULTS:
        run_cfgdefault_corpus(ctx)
    prod_part(ctx, 60)
    rng = random.Random(f"search-{ctx.seed}")
    libs, cases = gen(ctx, rng, ctx.scale(8, 30), 100, "c03s")
    res = identlib.run_cases(ctx, libs, [{"lib": c["lib"], "steps": c["steps"]} for c in cases], shards=12)[None]
    for case, rec in zip(cases, res):
        if not rec["error"]:
            monitor(ctx, case, rec)


# F2: Dict[str, List[Dict[str, List[int]]]]  {"a":[{"k":[]}],"z":[]}  vs  {"a":[{"k":[],"z":[]}]}
F2_LIB = {"pkg": "xvlib_c03w", "enums": [], "classes": [
    {"name": "W", "xpmid": "xvlib_c03w.w", "parent": None, "kind": "config", "deprecated": False,
     "args": [{"name": "d", "decl": "param", "ty": {"dict": {"list": {"dict": {"list": "int"}}}}, "optional": False}]}]}
F2_A = {"nodes": [{"cls": "W", "values": [["d", {"d": [["a", {"l": [{"d": [["k", {"l": []}]]}]}], ["z", {"l": []}]]}]], "meta": None, "pre": [], "init": [], "task": None}]}
F2_B = {"nodes": [{"cls": "W", "values": [["d", {"d": [["a", {"l": [{"d": [["k", {"l": []}], ["z", {"l": []}]]}]}]]}]], "meta": None, "pre": [], "init": [], "task": None}]}


def run_witness(ctx, finding):
    if common.run_script_witness(ctx, finding):
        return
    w = finding.get("witness") or {}
    if w.get("kind") == "producing-task":
        from concurrent.futures import ThreadPoolExecutor
        rec = identlib.run_worker({"cases": [w["case"]]}, ctx.tmpdir(), "prodw", None, "xv.impl.prod_worker")[0]
        if rec["error"]:
            raise RuntimeError(rec["error"])
        if len(set(rec["ids"])) < len(rec["ids"]):
            ctx.monitor_fail(f"collision:producing-task:{w['case']['mode']}",
                             f"consumers of outputs of different producers share an identifier: {[i[:12] for i in rec['ids']]}", {"producing_task_case": w["case"]})
        return
    if w.get("kind") != "dict-through-list":
        return
    res = identlib.run_cases(ctx, [F2_LIB], [{"lib": 0, "steps": id_steps(F2_A, "A") + id_steps(F2_B, "B")}], shards=1)[None][0]
    if res["error"]:
        raise RuntimeError(res["error"])
    fa, ra, fb, rb = ids_of(res, 1, 1)
    if fa[0] == fb[0]:
        ctx.monitor_fail("collision:dict-follow-set-ambiguity",
                         'Dict[str, List[Dict[str, List[int]]]]: {"a":[{"k":[]}],"z":[]} and {"a":[{"k":[],"z":[]}]} share identifier ' + fa[0][:16] + "…",
                         {"a": F2_A, "b": F2_B})


def replay(ctx, obj):
    prove(ctx)
    correspond(ctx)
    return common.verdict(ctx, search)
