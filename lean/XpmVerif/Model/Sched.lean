/-! M2: the scheduler, one process (`scheduler/base.py` `aio_registerJob`, `aio_submit`, `aio_start`,
    `Job.dependencychanged`, `experiment.wait`; `scheduler/dependencies.py`; `tokens.py`
    `Token.aio_notify`, `ProcessCounterToken`; `locking.py`).  Import-free, executable.

    One model step = one callback of the asyncio loop (the code between two suspension points runs
    atomically on the loop thread) or one external event.  Helper threads started through
    `asyncThreadcheck` are pending items completed by `deliver`.  See DESIGN.md Appendix B. -/
namespace XpmVerif.Sched

inductive JS where
  | unscheduled | waiting | ready | running | done | error
  deriving DecidableEq, Repr, Inhabited

def JS.finished : JS → Bool
  | .done => true | .error => true | _ => false

inductive DS where
  | wait | ok | fail
  deriving DecidableEq, Repr, Inhabited

inductive Origin where
  | job (j : Nat)
  | tok (t : Nat) (count : Nat)
  deriving DecidableEq, Repr, Inhabited

structure Dep where
  origin : Origin
  cur : DS := .wait
  deriving DecidableEq, Repr, Inhabited

inductive PC where
  | none            -- never scheduled (duplicate submission) or not yet
  | created         -- task created, first step pending
  | evtWait         -- sleeping in `_readyEvent.wait()`
  | lockEnter       -- waiting for the job-lock thread (`__aenter__`)
  | lockExitAbort   -- aborted start: waiting for the job-lock release thread
  | lockExitRun     -- launched: waiting for the job-lock release thread
  | codeWait        -- waiting for the process exit code
  | doneHandler     -- waiting for `done_handler`
  | finished (r : JS)   -- coroutine returned `r`
  deriving DecidableEq, Repr, Inhabited

structure Job where
  ident : Nat
  deps : List Dep := []
  code : Nat := 0
  marker : Bool := false
  state : JS := .unscheduled
  unsat : Int := 0
  event : Bool := false
  sleeping : Bool := false      -- a waiter future of the event is pending
  pc : PC := .none
  held : List Nat := []         -- indices (into `deps`) of the locks taken by the current start
  launches : Nat := 0
  failedDep : Bool := false
  deriving Repr, Inhabited

inductive Cb where
  | register (j : Nat)
  | start (j : Nat)
  | wake (j : Nat)
  | resume (j : Nat)
  | check (j d : Nat)
  | notifyCheck (j d : Nat)
  | waiterRun
  deriving DecidableEq, Repr, Inhabited

inductive TK where
  | lockEnter | lockExit | code | doneH
  deriving DecidableEq, Repr, Inhabited

inductive WS where
  | none | starting | sleeping | notified | returned | raised
  deriving DecidableEq, Repr, Inhabited

/-- which of the three scheduler repairs the source contains (`Generated/SchedFlags.lean`). -/
structure Flags where
  readyGuarded : Bool      -- `dependencychanged` moves only a WAITING job to READY
  resubmitRegisters : Bool -- re-submission after failure increments the counter and re-registers
  abortRechecks : Bool     -- after an aborted start, satisfied dependencies make the job READY again
  abortReleases : Bool := true  -- an aborted start gives back at once the locks it had already taken (no hold across a suspension)
  deriving Repr, DecidableEq

def upd {α : Type} (f : Nat → α) (j : Nat) (v : α) (i : Nat) : α := if i = j then v else f i

structure St where
  n : Nat := 0
  jobs : Nat → Job := fun _ => { ident := 0 }
  eff : Nat → Nat := id                  -- duplicate submission ↦ the job that stands for it
  ntok : Nat := 0
  total : Nat → Nat := fun _ => 0
  avail : Nat → Int := fun _ => 0
  tokDeps : Nat → List (Nat × Nat) := fun _ => []   -- dependents of a token, in registration order
  jobDeps : Nat → List (Nat × Nat) := fun _ => []   -- dependents of a job
  registry : List (Nat × Nat) := []      -- identifier ↦ job index
  unfinished : Int := 0
  failed : List Nat := []                -- identifiers in `failedJobs`
  ready : List Cb := []
  threads : List (TK × Nat) := []
  waiter : WS := .none
  regResult : Option (Option Nat) := none  -- outcome of the last registration (none = not run yet)

def val : DS → Int
  | .ok => 1 | _ => 0

/-! ### primitives on one job record -/

/-- `_readyEvent.set()`: returns the record and whether a wake-up of the coroutine is queued. -/
def eventSet (jb : Job) : Job × Bool :=
  if jb.event then (jb, false)
  else if jb.sleeping then ({ jb with event := true, sleeping := false }, true)
  else ({ jb with event := true }, false)

/-- `Job.dependencychanged(dep, old, new)` followed by `dep.currentstatus = new`. -/
def depChanged (fl : Flags) (jb : Job) (d : Nat) (status : DS) : Job × Bool :=
  let cur := (jb.deps.getD d default).cur
  if status = cur then (jb, false) else
  let jb := { jb with unsat := jb.unsat - (val status - val cur) }
  let (jb, w1) :=
    if status = .fail ∧ !jb.state.finished then
      eventSet { jb with state := .error, failedDep := true }
    else (jb, false)
  let (jb, w2) :=
    if jb.unsat = 0 ∧ (!fl.readyGuarded ∨ jb.state = .waiting) then
      eventSet { jb with state := .ready }
    else (jb, false)
  ({ jb with deps := jb.deps.set d { (jb.deps.getD d default) with cur := status } }, w1 || w2)

/-! ### global state -/

def St.put (s : St) (j : Nat) (jb : Job) (cbs : List Cb := []) (ths : List (TK × Nat) := []) : St :=
  { s with jobs := upd s.jobs j jb, ready := s.ready ++ cbs, threads := s.threads ++ ths }

/-- `dependency.status()`. -/
def St.status (s : St) : Origin → DS
  | .job o => match (s.jobs o).state with | .done => .ok | .error => .fail | _ => .wait
  | .tok t c => if (c : Int) ≤ s.avail t then .ok else .wait

/-- `dependency.check()` for the `d`-th dependency of job `j`. -/
def St.check (fl : Flags) (s : St) (j d : Nat) : St :=
  let jb := s.jobs j
  let (jb', w) := depChanged fl jb d (s.status (jb.deps.getD d default).origin)
  s.put j jb' (if w then [.wake j] else [])

/-- F0: the job is final: record a failure, start `done_handler`. -/
def St.finish (s : St) (j : Nat) : St :=
  let jb := s.jobs j
  let s := if jb.state ≠ .done ∧ !s.failed.contains jb.ident then { s with failed := s.failed ++ [jb.ident] } else s
  s.put j { jb with pc := .doneHandler } [] [(.doneH, j)]

/-- head of the `while not job.state.finished()` loop of `aio_submit`. -/
def St.loopHead (s : St) (j : Nat) : St :=
  let jb := s.jobs j
  if jb.state.finished then s.finish j
  else if jb.event then
    if jb.state = .ready then s.put j { jb with event := false, pc := .lockEnter } [] [(.lockEnter, j)]
    else s.put j { jb with event := false, pc := .evtWait, sleeping := true }
  else s.put j { jb with pc := .evtWait, sleeping := true }

/-- register the dependencies one by one and check each (first segment of `aio_submit`). -/
def St.registerDeps (fl : Flags) (s : St) (j : Nat) : Nat → Nat → St
  | 0, _ => s
  | k + 1, d =>
    let jb := s.jobs j
    let s := match (jb.deps.getD d default).origin with
      | .job o => { s with jobDeps := upd s.jobDeps o (s.jobDeps o ++ [(j, d)]) }
      | .tok t _ => { s with tokDeps := upd s.tokDeps t (s.tokDeps t ++ [(j, d)]) }
    St.registerDeps fl (s.check fl j d) j k (d + 1)

def St.startJob (fl : Flags) (s : St) (j : Nat) : St :=
  let jb := s.jobs j
  let jb := { jb with state := .waiting, event := false, sleeping := false }
  let s := s.put j jb
  let s :=
    if jb.deps.isEmpty then s.put j { jb with event := true, state := .ready }
    else St.registerDeps fl (s.put j { jb with unsat := jb.deps.length }) j jb.deps.length 0
  let s := if (s.jobs j).marker then s.put j { (s.jobs j) with state := .done } else s
  s.loopHead j

/-- release the locks taken by the start of `j` (in the order they were taken); every release of a
    token notifies all its dependents. -/
def St.releaseAll (s : St) (j : Nat) : List Nat → St
  | [] => s.put j { (s.jobs j) with held := [] }
  | d :: ds =>
    let s := match ((s.jobs j).deps.getD d default).origin with
      | .job _ => s
      | .tok t c =>
        { s with avail := upd s.avail t (s.avail t + c),
                 ready := s.ready ++ (s.tokDeps t).map (fun (p : Nat × Nat) => Cb.notifyCheck p.1 p.2) }
    St.releaseAll s j ds

/-- take the dependency locks in iteration order; `none` on success, `some d` if the `d`-th failed. -/
def St.acquireAll (s : St) (j : Nat) : Nat → Nat → St × Option Nat
  | 0, _ => (s, none)
  | k + 1, d =>
    let jb := s.jobs j
    match (jb.deps.getD d default).origin with
    | .job _ => St.acquireAll (s.put j { jb with held := jb.held ++ [d] }) j k (d + 1)
    | .tok t c =>
      if s.avail t < c then (s, some d)
      else St.acquireAll ({ s with avail := upd s.avail t (s.avail t - c) }.put j { jb with held := jb.held ++ [d] }) j k (d + 1)

def St.resume (fl : Flags) (s : St) (j : Nat) : St :=
  let jb := s.jobs j
  match jb.pc with
  | .lockEnter =>
    let (s, failedAt) := s.acquireAll j jb.deps.length 0
    (match failedAt with
     | some d =>
       let s := if fl.abortReleases then s.releaseAll j (s.jobs j).held else s
       let s := s.check fl j d
       s.put j { (s.jobs j) with pc := .lockExitAbort } [] [(.lockExit, j)]
     | none =>
       let jb := s.jobs j
       s.put j { jb with launches := jb.launches + 1, state := .running, pc := .lockExitRun } [] [(.lockExit, j)])
  | .lockExitAbort =>
    let s := s.releaseAll j jb.held
    let jb := s.jobs j
    let jb := { jb with state := .waiting }
    let (jb, w) := if fl.abortRechecks ∧ jb.unsat = 0 then eventSet { jb with state := .ready } else (jb, false)
    let s := s.put j jb (if w then [.wake j] else [])
    s.loopHead j
  | .lockExitRun => s.put j { jb with pc := .codeWait } [] [(.code, j)]
  | .codeWait =>
    let s := s.releaseAll j jb.held
    let jb := s.jobs j
    let s := s.put j { jb with state := if jb.code = 0 then .done else .error }
    s.finish j
  | .doneHandler =>
    let s := { s with unfinished := s.unfinished - 1 }
    let s := if s.waiter = .sleeping then { s with ready := s.ready ++ [.waiterRun], waiter := .notified } else s
    let s := { s with ready := s.ready ++ (s.jobDeps j).map (fun (p : Nat × Nat) => Cb.check p.1 p.2) }
    s.put j { (s.jobs j) with pc := .finished (s.jobs j).state }
  | _ => s

def lookup (k : Nat) : List (Nat × Nat) → Option Nat
  | [] => none
  | (a, b) :: r => if a = k then some b else lookup k r

def St.register (fl : Flags) (s : St) (j : Nat) : St :=
  let jb := s.jobs j
  match lookup jb.ident s.registry with
  | some o =>
    if (s.jobs o).state = .error then
      let s := if fl.resubmitRegisters then
        { s with unfinished := s.unfinished + 1, registry := (jb.ident, j) :: s.registry } else s
      { s with regResult := some none }
    else { s with regResult := some (some o) }
  | none => { s with unfinished := s.unfinished + 1, registry := (jb.ident, j) :: s.registry, regResult := some none }

def St.waiterRun (s : St) : St :=
  if s.unfinished = 0 then { s with waiter := if s.failed.isEmpty then .returned else .raised }
  else { s with waiter := .sleeping }

def St.runCb (fl : Flags) (s : St) : Cb → St
  | .register j => s.register fl j
  | .start j => s.startJob fl j
  | .wake j =>
    -- resumed inside `event.wait()`: `clear()`, then start if READY, else loop
    let jb := s.jobs j
    if jb.state = .ready then s.put j { jb with event := false, pc := .lockEnter } [] [(.lockEnter, j)]
    else (s.put j { jb with event := false }).loopHead j
  | .resume j => s.resume fl j
  | .check j d => s.check fl j d
  | .notifyCheck j d =>
    (match ((s.jobs j).deps.getD d default).origin with
     | .tok t _ => if s.avail t > 0 then s.check fl j d else s
     | .job _ => s.check fl j d)
  | .waiterRun => s.waiterRun

/-- run the head of the ready queue. -/
def St.step (fl : Flags) (s : St) : St :=
  match s.ready with
  | [] => s
  | cb :: rest => ({ s with ready := rest }).runCb fl cb

def St.steps (fl : Flags) (s : St) : Nat → St
  | 0 => s
  | k + 1 => St.steps fl (s.step fl) k

inductive Ev where
  | submit (ident : Nat) (deps : List Origin) (code : Nat) (marker : Bool)
  | step
  | deliver (k : Nat)
  | wait
  deriving Repr

def St.apply (fl : Flags) (s : St) : Ev → St
  | .submit ident deps code marker =>
    let j := s.n
    let deps := deps.map (fun o => match o with
      | .job d => { origin := .job (s.eff d) : Dep }
      | o => { origin := o })
    let s := { s with n := s.n + 1, jobs := upd s.jobs j { ident := ident, deps := deps, code := code, marker := marker },
                      regResult := none }
    let k := s.ready.length
    let s := St.steps fl { s with ready := s.ready ++ [.register j] } (k + 1)
    (match s.regResult with
     | some (some o) => { s with eff := upd s.eff j o }
     | _ => ({ s with eff := upd s.eff j j }).put j { (s.jobs j) with pc := .created } [.start j])
  | .step => s.step fl
  | .deliver k =>
    (match s.threads[k]? with
     | some (_, j) => { s with threads := s.threads.eraseIdx k, ready := s.ready ++ [.resume j] }
     | none => s)
  | .wait => { s with ready := s.ready ++ [.waiterRun], waiter := .starting }

def St.init (totals : List Nat) : St :=
  { ntok := totals.length, total := fun t => totals.getD t 0, avail := fun t => (totals.getD t 0 : Nat) }

end XpmVerif.Sched
